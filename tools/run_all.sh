#!/bin/sh
# runs every claimed check's quick command on the current tree
cd /verif
for c in $(python3 -c "import json;print(' '.join(x['property_id'] for x in json.load(open('MANIFEST.json'))['checks']))"); do
  s=$(date +%s); out=$(./check $c --tier ${1:-quick} 2>&1 | grep -E "^OK|^VIOLATION|^KNOWN" | head -3); e=$(date +%s)
  echo "$c $((e-s))s $out"
done
