#!/bin/sh
# re-runs the check of each stored seeded change's own property against it and reports the ones NOT reported in this run
cd /verif
for d in $(ls seeded | sort); do
  P=$(echo $d | cut -c1-3)
  OUT=$(tools/try_mutant.sh /verif/seeded/$d/patch.diff $P 2>&1 | grep -E "^VIOLATION|apply failed|error: patch" | head -1)
  case "$OUT" in
    VIOLATION*no-failing-input-found) echo "$d weak: $OUT" ;;
    VIOLATION*) echo "$d reported" ;;
    *) echo "$d NOT REPORTED $OUT" ;;
  esac
done
echo REGRESS-DONE
