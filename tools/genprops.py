#!/usr/bin/env python3
"""Generates a Properties/Cxx.v skeleton from a list of (new name, existing lemma, comment): the statement is the type Coq
prints for the lemma (pinned in the file as text), closed by `exact`. usage: genprops.py Cxx 'imports' name=lemma ..."""
import sys, subprocess, re, os
C = '/verif/coq'
prop, imports = sys.argv[1], sys.argv[2]
items = [a.split('=') for a in sys.argv[3:]]
src = f'From Coq Require Import List NArith Bool Arith Lia Field_theory.\n{imports}\nImport ListNotations.\nSet Printing Width 110.\n' + ''.join(f'Check {l}.\n' for _, l in items)
open('/tmp/gp.v', 'w').write(src)
out = subprocess.run(['coqc', '-R', C, 'CC', '/tmp/gp.v'], capture_output=True, text=True).stdout
blocks = re.split(r'\n(?=\S+\n     : )', '\n' + out)
types = {}
for b in blocks:
    m = re.match(r'\s*(\S+)\n     : (.*)', b, re.S)
    if m: types[m.group(1)] = re.sub(r'\nwhere\n.*', '', m.group(2), flags=re.S).rstrip()
res = ''
for n, l in items:
    t = types.get(l) or types.get(l.split('.')[-1])
    t = re.sub(r'\?(\w+)', r'\1', t)
    res += f'Theorem {n} :\n  {t}.\nProof. exact (@{l}). Qed.\nPrint Assumptions {n}.\n\n'
print(res)
