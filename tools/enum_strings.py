import sys, itertools
alpha = ['(',')','&','|',':','*',' ','a','b','é','€','\U0001F600',' ']
maxlen = int(sys.argv[1])
out = sys.stdout
for n in range(0, maxlen+1):
    for t in itertools.product(alpha, repeat=n):
        out.write(''.join(t).encode('utf-8').hex()+'\n')
