#!/bin/sh
# usage: tools/try_mutant.sh (<patch.diff> | revert:<sha>) <Cxx> [more checks...]
# applies the change to /repo's working tree, runs the checks, restores /repo. Never commits.
set -u
P="$1"; shift
case "$P" in revert:*) ;; /*) ;; *) P="$(pwd)/$P" ;; esac
cd /repo || exit 2
if [ -n "$(git status --porcelain --untracked-files=no)" ]; then echo "/repo not clean"; exit 2; fi
case "$P" in
  revert:*) git revert --no-commit "${P#revert:}" >/dev/null 2>&1 || { echo "revert failed"; git revert --abort 2>/dev/null; git checkout -- .; exit 2; } ;;
  *) git apply "$P" || { echo "apply failed"; exit 2; } ;;
esac
cd /verif
mkdir -p .tmp/evsave; for c in "$@"; do cp -f evidence/$c.json .tmp/evsave/ 2>/dev/null; done
for c in "$@"; do
  echo "=== $c on mutant $P"
  ./check "$c" 2>&1 | grep -E "^OK|^VIOLATION|^KNOWN" | head -6
  echo "exit=$?"
done
for c in "$@"; do cp -f .tmp/evsave/$c.json evidence/ 2>/dev/null; done
cd /repo
git revert --abort >/dev/null 2>&1
git reset -q --hard HEAD
python3 /verif/tools/lockskel.py /repo/src/api.rs /repo/src/encrypted_header.rs -o /verif/coq/generated/LockSkel.v >/dev/null 2>&1
git status --porcelain --untracked-files=no | head -3
