import sys, re
script=open(sys.argv[1]).read().split('\n'); impl=open(sys.argv[2]).read().split('\n'); model=open(sys.argv[3]).read().split('\n')
TOK_M=re.compile(r'\b[ti]\d+\b'); TOK_I=re.compile(r'\b[spi][0-9a-f]{16}\b')
n=min(len(script),len(impl),len(model))
hist=-1; start=0; skip=False; m2i={}; i2m={}
dis=[]; stats={}
def key_m(t,ns): return (ns,t)
for ln in range(n):
    op=script[ln]
    if not op: continue
    if op=='SETUP':
        hist+=1; start=ln; skip=False; m2i={}; i2m={}
    if skip: continue
    a=impl[ln]; b=model[ln]
    ta=TOK_I.findall(a); tb=TOK_M.findall(b)
    sa=TOK_I.sub('#',a); sb=TOK_M.sub('#',b)
    ok = sa==sb and len(ta)==len(tb)
    if ok:
        for x,y in zip(ta,tb):
            ns=x[0]  # s,p,i
            km=(ns,y); ki=x
            if m2i.get(km,ki)!=ki or i2m.get(ki,km)!=km: ok=False; break
            m2i[km]=ki; i2m[ki]=km
    if not ok:
        dis.append((hist,start,ln,op,a,b)); skip=True
    stats[op.split(' ')[0]+' '+a.split(' ')[0]]=stats.get(op.split(' ')[0]+' '+a.split(' ')[0],0)+1
print('histories',hist+1,'disagreeing',len(dis))
import collections
c=collections.Counter(d[3].split(' ')[0] for d in dis); print('by op',dict(c))
for d in dis[:int(sys.argv[4]) if len(sys.argv)>4 else 3]:
    print('--- hist',d[0],'line',d[2],'op',d[3]); print(' script:', ' ; '.join(script[d[1]:d[2]+1])); print(' impl :',d[4][:400]); print(' model:',d[5][:400])
print(sorted(stats.items()))
