#!/bin/sh
# usage: tools/recheck_seed.sh Cxx [checks...] : runs the checks against the stored seeded change and updates meta.json
D=$1; P=$(echo $D | cut -c1-3); shift; CHECKS=${*:-$P}
cd /verif
OUT=$(tools/try_mutant.sh /verif/seeded/$D/patch.diff $CHECKS 2>&1 | grep -E "^===|^VIOLATION|^OK|^KNOWN|apply failed")
echo "$OUT"
python3 - "$D" "$OUT" "$CHECKS" <<'PY'
import sys, json
p, out, checks = sys.argv[1:4]
m = json.load(open(f'/verif/seeded/{p}/meta.json'))
rep = {}
for l in out.split('\n'):
    if l.startswith('VIOLATION'):
        path = l.split('replay=')[1].split(' ')[0]
        try: rep[l.split('property=')[1].split(' ')[0]] = {k: v for k, v in json.load(open(path)).items() if k in ('what', 'script_readable', 'broken', 'input_utf8', 'mutation', 'tampering', 'failing_input_found', 'obligations_no_longer_checking')}
        except Exception: rep[l.split('property=')[1].split(' ')[0]] = {}
m['checks_run'] = sorted(set(m.get('checks_run', []) + checks.split())); m['check_output'] = out.split('\n')
m['detected_by'] = sorted(set(m.get('detected_by', [])) | set(rep)); m.setdefault('replays', {}).update(rep)
json.dump(m, open(f'/verif/seeded/{p}/meta.json', 'w'), indent=1)
print(p, 'detected by', m['detected_by'] or 'NOTHING')
PY
