import sys, random
rng = random.Random(int(sys.argv[2]) if len(sys.argv)>2 else 1)
NH = int(sys.argv[1])
def x(s): return 'x'+s.encode().hex()
DIMS=['S','D','C']; ATTR=['a','b','c','d']
def policy(dims, maxdepth=2):
    live=[(d,a) for d in dims for a in dims[d]]
    def atom():
        if not live or rng.random()<0.04: return rng.choice(DIMS)+'::'+rng.choice(ATTR)
        d,a=rng.choice(live); return d+'::'+a
    def gen(dep):
        r=rng.random()
        if dep<=0 or r<0.45: return atom()
        if r<0.72: return gen(dep-1)+' && '+gen(dep-1)
        if r<0.95: return gen(dep-1)+' || '+gen(dep-1)
        return '('+gen(dep-1)+')'
    if rng.random()<0.08: return '*'
    return gen(rng.randint(0,maxdepth))
for h in range(NH):
    print('SETUP')
    dims={}; kinds={}; nmpk=1; nusk=0; nenc=0
    # initial structure
    for d in rng.sample(DIMS, rng.randint(1,3)):
        k=rng.choice(['AA','AH']); print(k,x(d)); dims[d]=[]; kinds[d]=k
        for a in rng.sample(ATTR, rng.randint(1,3)):
            aft='-'
            if k=='AH' and dims[d] and rng.random()<0.6: aft=x(rng.choice(dims[d]))
            print('AT',x(d),x(a),rng.choice('001'),aft); dims[d].append(a)
    print('UPD'); nmpk+=1
    for step in range(rng.randint(8,45)):
        r=rng.random()
        if r<0.04:
            d=rng.choice(DIMS); k=rng.choice(['AA','AH']); print(k,x(d))
            if d not in dims: dims[d]=[]; kinds[d]=k
        elif r<0.06:
            d=rng.choice(DIMS); print('DD',x(d)); dims.pop(d,None)
        elif r<0.14 and dims:
            d=rng.choice(list(dims)); a=rng.choice(ATTR+['e','f']); aft='-'
            if dims[d] and rng.random()<0.5: aft=x(rng.choice(dims[d]))
            print('AT',x(d),x(a),rng.choice('001'),aft)
            if a not in dims[d]: dims[d].append(a)
        elif r<0.19 and dims:
            d=rng.choice(list(dims))
            if dims[d]:
                a=rng.choice(dims[d]); print('DT',x(d),x(a)); dims[d].remove(a)
        elif r<0.22 and dims:
            d=rng.choice(list(dims))
            if dims[d]:
                a=rng.choice(dims[d]); n=rng.choice(['g','h']+ATTR); print('RN',x(d),x(a),x(n))
                if n not in dims[d]: dims[d][dims[d].index(a)]=n
        elif r<0.26 and dims:
            d=rng.choice(list(dims))
            if dims[d]: print('DS',x(d),x(rng.choice(dims[d])))
        elif r<0.36: print('UPD'); nmpk+=1
        elif r<0.38: print('MPK'); nmpk+=1
        elif r<0.46: print('RK',x(policy(dims,1))); nmpk+=1
        elif r<0.50: print('PR',x(policy(dims,1))); nmpk+=1
        elif r<0.60: print('KG',x(policy(dims))); nusk+=1
        elif r<0.70 and nusk: print('RF',rng.randrange(nusk),rng.choice('01'))
        elif r<0.82: print('EN',rng.randrange(nmpk) if rng.random()<0.4 else nmpk-1,x(policy(dims,1))); nenc+=1
        elif r<0.85 and nenc: print('RC',rng.randrange(nmpk) if rng.random()<0.3 else nmpk-1,rng.randrange(nenc)); nenc+=1
        elif nusk and nenc: print('DE',rng.randrange(nusk),rng.randrange(nenc))
    # final: all pairs
    for k in range(min(nusk,4)):
        for e in range(min(nenc,6)): print('DE',k,e)
