#!/bin/sh
# usage: tools/eval_seed.sh Cxx [check ids...]   - confirms a seeded change produced in /tmp/wt/Cxx (+ /tmp/wt/Cxx-out),
# stores it under /verif/seeded/Cxx, runs the checks against it (default: the property's own check), removes the worktree.
P=$1; shift; CHECKS=${*:-$P}
S=${SEEDSUF:-}   # e.g. SEEDSUF=-2 for a second seeded change of the same property
W=/tmp/wt/$P; O=/tmp/wt/$P-out${OUTSUB:+/$OUTSUB}   # OUTSUB=a|b: round-4 layout (two changes per worktree); KEEPWT=1 keeps the worktree
[ -f $O/patch.diff ] || { echo "no patch for $P"; exit 2; }
cd $W || exit 2
git checkout -q -- src 2>/dev/null; git apply $O/patch.diff || { echo "patch does not apply"; exit 2; }
mkdir -p tests; cp $O/demo.rs tests/demo_$P.rs
RUN=$(head -1 $O/demo.rs | sed -n 's,^// RUN: *,,p'); RUN=${RUN:-cargo test --offline --features test-utils --test demo_$P}
T1=$(cargo test --offline --lib 2>&1 | grep -E "^test result" | head -1)
B1=$(cargo build --offline --no-default-features --features p-256,mlkem-768 2>&1 | grep -cE "^error")
D1=$($RUN 2>&1 | grep -E "^test result|^error(\[|:)" | head -2 | tr '\n' ' ')
git apply -R $O/patch.diff
D0=$($RUN 2>&1 | grep -E "^test result|^error(\[|:)" | head -2 | tr '\n' ' ')
echo "alt build errors with patch: $B1 ; demo command: $RUN"
echo "existing tests with patch : $T1"; echo "demo with patch           : $D1"; echo "demo without patch        : $D0"
mkdir -p /verif/seeded/$P$S; cp $O/patch.diff $O/demo.rs /verif/seeded/$P$S/; cp $O/notes.md /verif/seeded/$P$S/notes.md 2>/dev/null
cd /verif
OUT=$(tools/try_mutant.sh /verif/seeded/$P$S/patch.diff $CHECKS 2>&1 | grep -E "^===|^VIOLATION|^OK|^KNOWN")
echo "$OUT"
python3 - "$P" "$T1" "$D1" "$D0" "$OUT" "$CHECKS" "$S" <<'PY'
import sys, json, os, glob
p, t1, d1, d0, out, checks, suf = sys.argv[1:8]
d = p + suf
ok = ('33 passed' in t1) and ('FAILED' in d1 or 'failed' in d1 and '0 failed' not in d1) and ('ok.' in d0 and '0 failed' in d0)
notes = open(f'/verif/seeded/{d}/notes.md').read() if os.path.exists(f'/verif/seeded/{d}/notes.md') else ''
detected = [l for l in out.split('\n') if l.startswith('VIOLATION')]
rep = {}
for l in detected:
    path = l.split('replay=')[1].split(' ')[0]
    try: rep[l.split('property=')[1].split(' ')[0]] = {k: v for k, v in json.load(open(path)).items() if k in ('what', 'script_readable', 'broken', 'input_utf8', 'mutation', 'tampering', 'failing_input_found')}
    except Exception as e: pass
meta = {'property': p, 'confirmed': ok, 'existing_tests_with_patch': t1, 'demo_with_patch': d1, 'demo_without_patch': d0,
        'checks_run': checks.split(), 'check_output': out.split('\n'), 'detected_by': sorted(rep), 'replays': rep,
        'needs_to_manifest': notes[:1500]}
json.dump(meta, open(f'/verif/seeded/{d}/meta.json', 'w'), indent=1)
print('confirmed' if ok else 'NOT CONFIRMED', '| detected by', sorted(rep) or 'NOTHING')
PY
rm -f $W/tests/demo_$P.rs
[ -n "$KEEPWT" ] || { git -C /repo worktree remove --force $W 2>/dev/null; rm -rf /tmp/wt/$P-out; }
