import sys, random
rng = random.Random(int(sys.argv[2]) if len(sys.argv)>2 else 1)
NH = int(sys.argv[1])
def x(s): return 'x'+s.encode().hex()
dimnames = ['S','D','C','Ré','']
attrnames = ['a','b','c','d','lo','hi','é','']
def policy(dims):
    # dims: dict name -> list of attr names (model tracking approximate)
    def atom():
        if rng.random()<0.08: return rng.choice(dimnames)+'::'+rng.choice(attrnames)
        ds=[d for d in dims if dims[d] and d!='' ]
        if not ds: return 'S::a'
        d=rng.choice(ds); a=rng.choice([n for n in dims[d]] or ['a'])
        if a=='' : a='a'
        return d+'::'+a
    def gen(dep):
        r=rng.random()
        if dep<=0 or r<0.35: return atom()
        if r<0.65: return gen(dep-1)+' && '+gen(dep-1)
        if r<0.9: return gen(dep-1)+' || '+gen(dep-1)
        return '('+gen(dep-1)+')'
    if rng.random()<0.05: return '*'
    return gen(rng.randint(0,3))
for h in range(NH):
    print('NEW')
    dims={}
    for step in range(rng.randint(5,40)):
        r=rng.random()
        if r<0.12:
            d=rng.choice(dimnames); k=rng.choice(['AA','AH']); print(k,x(d));
            if d not in dims: dims[d]=[]
        elif r<0.16:
            d=rng.choice(dimnames); print('DD',x(d)); dims.pop(d,None)
        elif r<0.45:
            d=rng.choice(list(dims.keys()) or dimnames) if rng.random()<0.9 else rng.choice(dimnames)
            n=rng.choice(attrnames); h_=rng.choice('01')
            aft='-' if rng.random()<0.5 else x(rng.choice(dims.get(d,[])+['a'] if rng.random()<0.85 else attrnames))
            print('AT',x(d),x(n),h_,aft)
            if d in dims and n not in dims[d]: dims[d].append(n)
        elif r<0.55:
            d=rng.choice(list(dims.keys()) or dimnames); n=rng.choice(dims.get(d,[])+['zz'] if rng.random()<0.85 else attrnames)
            print('DT',x(d),x(n));
            if d in dims and n in dims[d]: dims[d].remove(n)
        elif r<0.62:
            d=rng.choice(list(dims.keys()) or dimnames); n=rng.choice(dims.get(d,[])+['zz']); n2=rng.choice(attrnames+['q','r'])
            print('RN',x(d),x(n),x(n2))
            if d in dims and n in dims[d] and n2 not in dims[d]: dims[d][dims[d].index(n)]=n2
        elif r<0.67:
            d=rng.choice(list(dims.keys()) or dimnames); n=rng.choice(dims.get(d,[])+['zz'])
            print('DS',x(d),x(n))
        elif r<0.72: print('ST')
        elif r<0.87: print('UR',x(policy(dims)))
        else: print('ER',x(policy(dims)))
    print('ST')
