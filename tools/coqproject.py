#!/usr/bin/env python3
"""Regenerates coq/_CoqProject from the .v files present, leaving out files whose local dependencies are missing
(helpers deliver files one at a time). Run by hand; the result is committed."""
import os, re, sys
C = os.path.join(os.path.dirname(os.path.dirname(os.path.abspath(__file__))), 'coq')
files = {}
for dp, dn, fn in os.walk(C):
    for f in fn:
        if f.endswith('.v') and not f.startswith('.'):
            rel = os.path.relpath(os.path.join(dp, f), C); files[rel] = open(os.path.join(dp, f)).read()
mods = {os.path.basename(f)[:-2]: f for f in files}
def deps(txt):
    out = set()
    for m in re.finditer(r'(?:From\s+CC\s+)?Require\s+(?:Import|Export)?\s*([^.]*(?:\.[A-Za-z_][^.]*)*?)\.\s', txt):
        for name in m.group(1).split():
            name = name.split('.')[-1]
            out.add(name)
    return out
STD = None
ok = {}
def good(f, stack=()):
    if f in ok: return ok[f]
    if f in stack: return True
    r = True
    for d in deps(files[f]):
        if d in mods and mods[d] != f:
            if not good(mods[d], stack + (f,)): r = False
    ok[f] = r; return r
# a dependency that is neither local nor resolvable is assumed to be a library module
lines = ['-R . CC'] + sorted(f for f in files if good(f))
open(os.path.join(C, '_CoqProject'), 'w').write('\n'.join(lines) + '\n')
print(len(lines) - 1, 'files; left out:', [f for f in files if not good(f)])
