import sys, random
rng = random.Random(int(sys.argv[2]) if len(sys.argv)>2 else 1)
N = int(sys.argv[1])
names = ['A','B','C','D1','Sec','Low Secret','x','é','naïve','€uro','a b','T*','9']
ws = ['',' ','  ','\t',' ','\n']
def w(): return rng.choice(ws) if rng.random()<0.5 else ''
def atom():
    return w()+rng.choice(names)+w()+'::'+w()+rng.choice(names)+w()
def gen(d):
    r = rng.random()
    if d<=0 or r<0.3:
        s = atom()
        if rng.random()<0.03: s = w()+'(*)'+w()
    elif r<0.6:
        s = gen(d-1)+'&&'+gen(d-1)
    elif r<0.85:
        s = gen(d-1)+'||'+gen(d-1)
    else:
        s = w()+'('+gen(d-1)+')'+w()
    if rng.random()<0.15: s = w()+'('+s+')'+w()
    return s
def corrupt(s):
    r = rng.random()
    if r<0.85 or not s: return s
    i = rng.randrange(len(s))
    c = rng.choice(['(',')','&','|',':','*',' ','é',''])
    return s[:i]+c+s[i+1:] if rng.random()<0.5 else s[:i]+c+s[i:]
for _ in range(N):
    print(corrupt(gen(rng.randint(0,4))).encode().hex())
