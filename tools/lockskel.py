#!/usr/bin/env python3
"""Prototype translator (scratch): lock skeleton of the Covercrypt API methods from Rust source.
Emits, per method, a list of events  Acq | Rel | Call name | Unknown  and a Coq file."""
import re, sys

def strip(src):
    out=[]; i=0; n=len(src)
    while i<n:
        c=src[i]
        if src.startswith('//',i):
            j=src.find('\n',i); j=n if j<0 else j; out.append(' '*(j-i)); i=j
        elif src.startswith('/*',i):
            j=src.find('*/',i)+2; out.append(re.sub(r'[^\n]',' ',src[i:j])); i=j
        elif c=='"':
            j=i+1
            while src[j]!='"':
                j+= 2 if src[j]=='\\' else 1
            out.append('"'+'_'*(j-i-1)+'"'); i=j+1
        elif c=="'" and re.match(r"'(\\.|[^\\'])'",src[i:]):
            m=re.match(r"'(\\.|[^\\'])'",src[i:]); out.append("'"+'_'*(len(m.group(0))-2)+"'"); i+=len(m.group(0))
        else: out.append(c); i+=1
    return ''.join(out)

def match_brace(s,i):
    d=0
    for j in range(i,len(s)):
        if s[j]=='{': d+=1
        elif s[j]=='}':
            d-=1
            if d==0: return j
    raise ValueError('unbalanced')

# The mutex field(s) and guard-returning accessor(s) are discovered from the source (see discover()); defaults below.
LOCK=re.compile(r'(\bself\s*\.\s*rng\s*\.\s*lock\s*\(\s*\)|\b\w+\s*\.\s*rng\s*\(\s*\))')
SUSP=re.compile(r'try_lock|\.rng\b(?!\s*(\.\s*lock\s*\(\s*\)|\(\s*\)))|Mutex::|RwLock|lock\(\)')
ACCESSORS=['rng']

def discover(src):
    """names of the struct fields of type Mutex<..> and of the methods returning a MutexGuard"""
    global LOCK, SUSP, ACCESSORS
    fields=sorted(set(re.findall(r'\b(\w+)\s*:\s*(?:std::sync::)?Mutex\s*<',src)))
    acc=sorted(set(re.findall(r'\bfn\s+(\w+)\s*\([^)]*\)\s*->\s*(?:std::sync::)?MutexGuard\b',src)))
    if not fields: return
    f='|'.join(map(re.escape,fields)); a='|'.join(map(re.escape,acc)) if acc else '(?!x)x'
    LOCK=re.compile(r'(\bself\s*\.\s*(?:%s)\s*\.\s*lock\s*\(\s*\)|\b\w+\s*\.\s*(?:%s)\s*\(\s*\))'%(f,a))
    SUSP=re.compile(r'try_lock|\.(?:%s)\b(?!\s*(\.\s*lock\s*\(\s*\)|\(\s*\)))|Mutex::|RwLock|lock\(\)'%('|'.join(map(re.escape,fields+acc))))
    ACCESSORS=acc

def functions(src):
    fns={}
    for m in re.finditer(r'\bfn\s+(\w+)\s*(<[^>{]*>)?\s*\(',src):
        name=m.group(1); b=src.find('{',m.end())
        semi=src.find(';',m.end())
        if b<0 or (0<=semi<b): continue
        e=match_brace(src,b); fns.setdefault(name,[]).append(src[b+1:e])
    return fns

def split_stmts(body):
    """top-level statements of a block (split at ; at depth 0 for (),[],{}); the last one may be a tail expr"""
    st=[]; d=0; cur=[]
    for ch in body:
        if ch in '([{': d+=1
        elif ch in ')]}': d-=1
        cur.append(ch)
        if d==0 and (ch==';' or ch=='}'):
            # a '}' at depth 0 ends a block-like statement only if followed by something that is not an operator/method
            if ch==';': st.append(''.join(cur)); cur=[]
    if ''.join(cur).strip(): st.append(''.join(cur))
    return st

def events_of_block(body, methods):
    ev=[]; held=0   # let-bound guards alive in this block
    for stmt in split_stmts(body):
        s=stmt.strip()
        m=re.match(r'let\s+(mut\s+)?[\w\(\), ]+(:[^=]+)?=\s*(.*?);?$',s,re.S)
        init=m.group(3) if m else None
        whole_guard=False
        if init is not None:
            core=re.sub(r'\.\s*(expect\s*\("[^"]*"\)|unwrap\s*\(\s*\))\s*$','',init.strip())
            if LOCK.fullmatch(core.strip()): whole_guard=True
        if whole_guard:
            ev.append('Acq'); held+=1; continue
        ev+=events_of_expr(s, methods)
    ev+=['Rel']*held
    return ev

def events_of_expr(s, methods):
    """events of one statement: positions of locks (temporaries), calls to locking methods, nested blocks"""
    items=[]  # (pos, kind, payload)
    for m in LOCK.finditer(s): items.append((m.start(),'lock',None))
    for m in re.finditer(r'\b(?:self|cc)\s*\.\s*(\w+)\s*\(',s):
        if m.group(1) in methods and m.group(1) not in ACCESSORS: items.append((m.start(),'call',m.group(1)))
    # nested blocks { ... } (closures, if/else): analyse recursively, in place
    i=0
    while True:
        b=s.find('{',i)
        if b<0: break
        e=match_brace(s,b); items.append((b,'block',s[b+1:e])); i=e+1
    masked=s
    for m in SUSP.finditer(LOCK.sub(lambda x:' '*len(x.group(0)),s)): items.append((m.start(),'unknown',m.group(0)))
    items.sort(key=lambda t:t[0])
    # drop items that lie inside a nested block (they are handled by the recursion)
    blocks=[(p,p+len(pl)+2) for p,k,pl in items if k=='block']
    ev=[]; temps=0
    for p,k,pl in items:
        if k!='block' and any(a<p<b for a,b in blocks): continue
        if k=='lock': ev.append('Acq'); temps+=1
        elif k=='call': ev.append(('Call',pl))
        elif k=='unknown': ev.append('Unknown')
        else: ev+=events_of_block(pl, methods)
    ev+=['Rel']*temps
    return ev

def skeletons(paths):
    src='\n'.join(strip(open(p).read()) for p in paths)
    discover(src)
    fns=functions(src)
    api=['setup','update_msk','rekey','prune_master_secret_key','generate_user_secret_key','refresh_usk','recaps',
         'encaps','decaps','encrypt','decrypt','generate','rng']
    # every function of these files is a possible callee (private helpers that take the lock are followed too)
    methods=set(api)|set(fns.keys())
    sk={}
    for name in list(api)+[n for n in fns if n not in api]:
        for k,body in enumerate(fns.get(name,[])):
            key=name if len(fns[name])==1 else f'{name}_{k}'
            if name in ACCESSORS: sk[key]=['AcqRet']; continue
            sk[key]=events_of_block(body, methods)
    return sk

def inline(sk):
    def expand(ev,depth=0):
        out=[]
        for e in ev:
            if isinstance(e,tuple):
                cands=[k for k in sk if k==e[1] or k.startswith(e[1]+'_')]
                if depth>5 or not cands: out.append('Unknown'); continue
                # a call through a trait object may hit any impl of that name: take the one with most lock events (conservative)
                best=max((expand(sk[c],depth+1) for c in cands), key=len)
                out+=best
            else: out.append(e)
        return out
    return {k:expand(v) for k,v in sk.items() if k not in ACCESSORS and (k in API_OUT or k.split('_')[0] in API_OUT or any(k.startswith(a+'_') for a in API_OUT))}
API_OUT=['setup','update_msk','rekey','prune_master_secret_key','generate_user_secret_key','refresh_usk','recaps','encaps','decaps','encrypt','decrypt','generate']

def coq_file(sk):
    out = ['(* GENERATED by tools/lockskel.py from src/api.rs and src/encrypted_header.rs of the repository - do not edit. *)',
           'From Coq Require Import List String.', 'From CC Require Import Conc.', 'Import ListNotations.', 'Local Open Scope string_scope.',
           'Definition api_skeletons : list (string * program) := [']
    out.append(';\n'.join('  ("%s", [%s])' % (k, '; '.join(v)) for k, v in sk.items()))
    out.append('].')
    return '\n'.join(out) + '\n'

if __name__=='__main__':
    import os
    args = sys.argv[1:]
    outp = None
    if '-o' in args: outp = args[args.index('-o') + 1]; args = [a for a in args if a not in ('-o', outp)]
    sk = inline(skeletons(args))
    for k, v in sk.items(): print(k, ' '.join(v) if v else '-')
    if outp:
        txt = coq_file(sk)
        if not os.path.exists(outp) or open(outp).read() != txt: open(outp, 'w').write(txt)
