// Shared helpers of the harness binaries: hex, LEB128, canonical dumps obtained by parsing `serialize()`.
#![allow(dead_code)]
use cosmian_cover_crypt::{MasterPublicKey, MasterSecretKey, UserSecretKey, XEnc};
use cosmian_crypto_core::bytes_ser_de::Serializable;

pub fn hex(b: &[u8]) -> String { b.iter().map(|x| format!("{:02x}", x)).collect() }
pub fn unhex(s: &str) -> Vec<u8> { (0..s.len() / 2).map(|i| u8::from_str_radix(&s[2 * i..2 * i + 2], 16).unwrap()).collect() }
/// operation arguments are written x<hex of utf-8>
pub fn tok(t: &str) -> String { String::from_utf8(unhex(&t[1..])).unwrap() }

/// A policy written as "@<prefix notation>" is BUILT with the enum constructors instead of being parsed:
///   B = Broadcast ; T,<dim hex>,<name hex> = Term ; A,<x>,<y> = Conjunction ; O,<x>,<y> = Disjunction
/// (the parser and the & / | operators never produce a Broadcast below a Conjunction / Disjunction; applications that
/// assemble policies from data do).
pub fn ast_policy(s: &str) -> Option<cosmian_cover_crypt::AccessPolicy> {
    use cosmian_cover_crypt::{AccessPolicy, QualifiedAttribute};
    fn go(t: &[&str], p: &mut usize) -> Option<AccessPolicy> {
        let k = *t.get(*p)?; *p += 1;
        match k {
            "B" => Some(AccessPolicy::Broadcast),
            "T" => { let d = String::from_utf8(unhex(t.get(*p)?)).ok()?; let n = String::from_utf8(unhex(t.get(*p + 1)?)).ok()?; *p += 2;
                Some(AccessPolicy::Term(QualifiedAttribute::new(&d, &n))) }
            "A" => { let l = go(t, p)?; let r = go(t, p)?; Some(AccessPolicy::Conjunction(Box::new(l), Box::new(r))) }
            "O" => { let l = go(t, p)?; let r = go(t, p)?; Some(AccessPolicy::Disjunction(Box::new(l), Box::new(r))) }
            "a" => { let l = go(t, p)?; let r = go(t, p)?; Some(l & r) }
            "o" => { let l = go(t, p)?; let r = go(t, p)?; Some(l | r) }
            _ => None,
        }
    }
    let t: Vec<&str> = s.strip_prefix('@')?.split(',').collect();
    let mut p = 0; let r = go(&t, &mut p)?;
    if p == t.len() { Some(r) } else { None }
}

pub const SK: usize = 32;
#[cfg(feature = "cfg-alt")]
pub const PT: usize = 33;
#[cfg(not(feature = "cfg-alt"))]
pub const PT: usize = 32;
#[cfg(feature = "cfg-alt")]
pub const DK: usize = 2400;
#[cfg(not(feature = "cfg-alt"))]
pub const DK: usize = 1632;
#[cfg(feature = "cfg-alt")]
pub const EK: usize = 1184;
#[cfg(not(feature = "cfg-alt"))]
pub const EK: usize = 800;
#[cfg(feature = "cfg-alt")]
pub const CT: usize = 1088;
#[cfg(not(feature = "cfg-alt"))]
pub const CT: usize = 768;

/// when KHEX is set, every dumped object is also appended as "KIND hex" to the file $KHEX.<pid>
pub static NOLOG: std::sync::atomic::AtomicBool = std::sync::atomic::AtomicBool::new(false);
pub fn logx(kind: &str, b: &[u8]) {
    use std::io::Write;
    if NOLOG.load(std::sync::atomic::Ordering::Relaxed) { return; }
    if let Ok(p) = std::env::var("KHEX") {
        let mut f = std::fs::OpenOptions::new().create(true).append(true).open(format!("{}.{}", p, std::process::id())).unwrap();
        writeln!(f, "{} {}", kind, hex(b)).unwrap();
    }
}

pub struct Rd<'a> { pub b: &'a [u8], pub p: usize }
impl<'a> Rd<'a> {
    pub fn new(b: &'a [u8]) -> Self { Rd { b, p: 0 } }
    pub fn leb(&mut self) -> usize {
        let mut r = 0u64; let mut s = 0;
        loop { let x = self.b[self.p]; self.p += 1; r |= ((x & 0x7f) as u64) << s; if x & 0x80 == 0 { return r as usize } s += 7; }
    }
    pub fn take(&mut self, n: usize) -> &'a [u8] { let r = &self.b[self.p..self.p + n]; self.p += n; r }
    pub fn vec(&mut self) -> &'a [u8] { let n = self.leb(); self.take(n) }
    pub fn left(&self) -> usize { self.b.len() - self.p }
}

/// token of a blob: 8 first bytes (collision probability negligible), prefixed by its namespace
fn t8(ns: &str, b: &[u8]) -> String { format!("{}{}", ns, hex(&b[..8])) }

fn rsk(r: &mut Rd) -> String {
    let h = r.leb(); let sk = r.take(SK); if h == 1 { r.take(DK); }
    format!("{}/{}", h, t8("s", sk))
}

pub fn dump_structure(r: &mut Rd) -> String {
    let version = r.leb(); let nd = r.leb(); let mut dims = vec![];
    for _ in 0..nd {
        let name = hex(r.vec()); let ord = r.leb(); let na = r.leb(); let mut attrs = vec![];
        for _ in 0..na {
            let an = hex(r.vec()); let id = r.leb(); let hint = r.leb(); let status = r.leb();
            // status: EncryptDecrypt = 0? printed as enc flag (1 = can encrypt)
            attrs.push(format!("{}/{}/{}/{}", an, id, hint, status));
        }
        if ord == 0 { attrs.sort(); }
        dims.push(format!("{}:{}:{}", name, ord, attrs.join(",")));
    }
    dims.sort();
    let next = if version == 1 { format!("{}", r.leb()) } else { "-".to_string() };
    format!("n={} S={}", next, dims.join(";"))
}

pub fn dump_msk(m: &MasterSecretKey) -> String {
    let b = m.serialize().unwrap();
    logx("MSK", &b);
    let lenok = b.len() == m.length();
    let mut r = Rd::new(&b);
    r.take(SK);
    let nt = r.leb(); r.take(nt * (SK + PT));
    let nu = r.leb(); let mut users = vec![];
    for _ in 0..nu { let n = r.leb(); let first = if n > 0 { t8("i", &r.b[r.p..]) } else { "i-".to_string() }; r.take(n * SK); users.push(first); }
    users.sort();
    let nr = r.leb(); let mut items = vec![];
    for _ in 0..nr {
        let right = hex(r.vec()); let nk = r.leb(); let mut ks = vec![];
        for _ in 0..nk { let f = r.leb(); ks.push(format!("{}/{}", f, rsk(&mut r))); }
        items.push(format!("r{}={}", right, ks.join(";")));
    }
    items.sort();
    // signing key present iff at least 16 bytes remain before the structure (same rule as the reader)
    let sign = 1; r.take(16);
    let st = dump_structure(&mut r);
    format!("MSK l={} t={} sg={} u={} {} K={}", lenok as u8, nt, sign, users.join(","), st, items.join(" "))
}

pub fn dump_mpk(m: &MasterPublicKey) -> String {
    let b = m.serialize().unwrap();
    logx("MPK", &b);
    let lenok = b.len() == m.length();
    let mut r = Rd::new(&b);
    let nt = r.leb(); r.take(nt * PT);
    let nr = r.leb(); let mut items = vec![];
    for _ in 0..nr {
        let right = hex(r.vec()); let h = r.leb(); let p = r.take(PT); if h == 1 { r.take(EK); }
        items.push(format!("r{}={}/{}", right, h, t8("p", p)));
    }
    items.sort();
    let st = dump_structure(&mut r);
    format!("MPK l={} t={} {} K={}", lenok as u8, nt, st, items.join(" "))
}

pub fn dump_usk(u: &UserSecretKey) -> String {
    let b = u.serialize().unwrap();
    logx("USK", &b);
    let lenok = b.len() == u.length();
    let mut r = Rd::new(&b);
    let n = r.leb(); let id = if n == 0 { "i-".to_string() } else { t8("i", &r.b[r.p..]) }; r.take(n * SK);
    let np = r.leb(); r.take(np * PT);
    let nc = r.leb(); let mut items = vec![];
    for _ in 0..nc {
        let right = hex(r.vec()); let nk = r.leb(); let mut ks = vec![];
        for _ in 0..nk { ks.push(rsk(&mut r)); }
        items.push(format!("r{}={}", right, ks.join(";")));
    }
    items.sort();
    let sig = if r.left() >= 32 { 1 } else { 0 };
    format!("USK l={} m={} p={} sg={} id={} K={}", lenok as u8, n, np, sig, id, items.join(" "))
}

pub fn dump_enc(e: &XEnc) -> String {
    let b = e.serialize().unwrap();
    logx("ENC", &b);
    let lenok = b.len() == e.length();
    let mut r = Rd::new(&b);
    r.take(16); let n = r.leb(); r.take(n * PT); let h = r.leb(); let m = r.leb();
    format!("ENC l={} t={} h={} n={} tag={}", lenok as u8, n, h, m, t8("g", &b[..16]))
}
