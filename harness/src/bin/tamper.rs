// Prototype (scratch): C08 tamper campaign. Claim to validate: refresh accepts a tampered key iff id, signature and the
// KMAC input string (markers || (right || secrets...)*) are unchanged.
use cosmian_cover_crypt::{api::Covercrypt, AccessPolicy, EncryptionHint, QualifiedAttribute, UserSecretKey, MasterSecretKey};
use cosmian_crypto_core::bytes_ser_de::Serializable;
type Chain=(Vec<u8>,Vec<Vec<u8>>); // right, secrets (each: flavour byte + sk [+ dk])
#[derive(Clone)] struct K{ id:Vec<Vec<u8>>, ps:Vec<u8>, chains:Vec<Chain>, sig:Vec<u8> }
fn leb(v:usize)->Vec<u8>{ let mut v=v; let mut o=vec![]; loop{ let b=(v&0x7f) as u8; v>>=7; if v!=0 {o.push(b|0x80)} else {o.push(b); break} } o }
fn parse(b:&[u8])->K{ let mut p=0; let n=b[p] as usize; p+=1; let mut id=vec![]; for _ in 0..n { id.push(b[p..p+32].to_vec()); p+=32; }
  let np=b[p] as usize; let ps=b[p..p+1+32*np].to_vec(); p+=1+32*np; let nc=b[p] as usize; p+=1; let mut chains=vec![];
  for _ in 0..nc { let l=b[p] as usize; p+=1; let r=b[p..p+l].to_vec(); p+=l; let nk=b[p] as usize; p+=1; let mut ks=vec![]; for _ in 0..nk { let len= if b[p]==1 {1+32+1632} else {33}; ks.push(b[p..p+len].to_vec()); p+=len; } chains.push((r,ks)); }
  K{id,ps,chains,sig:b[p..].to_vec()} }
fn build(k:&K)->Vec<u8>{ let mut o=leb(k.id.len()); for m in &k.id {o.extend(m)} o.extend(&k.ps); o.extend(leb(k.chains.len()));
  for (r,ks) in &k.chains { o.extend(leb(r.len())); o.extend(r); o.extend(leb(ks.len())); for s in ks {o.extend(s)} } o.extend(&k.sig); o }
fn stream(k:&K)->Vec<u8>{ let mut o=vec![]; for m in &k.id {o.extend(m)} for (r,ks) in &k.chains { if ks.is_empty(){continue} o.extend(r); for s in ks { o.extend(&s[1..]) } } o }
fn qa(d:&str,n:&str)->QualifiedAttribute{QualifiedAttribute::new(d,n)}
fn ap(s:&str)->AccessPolicy{AccessPolicy::parse(s).unwrap()}
fn main(){
    let cc=Covercrypt::default();
    let (mut msk,_)=cc.setup().unwrap();
    let st=&mut msk.access_structure;
    st.add_anarchy("D".into()).unwrap(); st.add_attribute(qa("D","a"),EncryptionHint::Classic,None).unwrap(); st.add_attribute(qa("D","b"),EncryptionHint::Hybridized,None).unwrap();
    st.add_hierarchy("S".into()).unwrap(); st.add_attribute(qa("S","l"),EncryptionHint::Classic,None).unwrap(); st.add_attribute(qa("S","h"),EncryptionHint::Classic,Some("l")).unwrap();
    cc.update_msk(&mut msk).unwrap();
    let mut keys=vec![];
    for pol in ["D::a","D::b && S::h","S::l","*"] { let mut u=cc.generate_user_secret_key(&mut msk,&ap(pol)).unwrap(); keys.push(u.clone());
        cc.rekey(&mut msk,&ap("D::a || S::l")).unwrap(); cc.refresh_usk(&mut msk,&mut u,true).unwrap(); keys.push(u); }
    let mskb=msk.serialize().unwrap().to_vec();
    let (mut total,mut accepted,mut accepted_same_stream,mut bad_accept,mut bad_reject,mut unparsable)=(0,0,0,0,0,0);
    let mut try_key=|orig:&K, t:&K, what:&str| {
        let tb=build(t); if tb==build(orig) { return; }
        total+=1;
        let mut m=MasterSecretKey::deserialize(&mskb).unwrap();
        match UserSecretKey::deserialize(&tb) { Err(_)=>{unparsable+=1}
          Ok(mut u)=>{ let ok=cc.refresh_usk(&mut m,&mut u,true).is_ok();
            let same = stream(t)==stream(orig) && t.id==orig.id && t.sig==orig.sig;
            if ok {accepted+=1; if same {accepted_same_stream+=1; println!("REFRAMING accepted: {what}");} else {bad_accept+=1; println!("ACCEPTED with different stream: {what}");}}
            else if same { bad_reject+=1; println!("REJECTED with same stream: {what}"); }
            if !ok { let after=u.serialize().unwrap().to_vec(); if after!=tb || m.serialize().unwrap().to_vec().len()!=mskb.len() { println!("MODIFIED on failure: {what}"); } } } } };
    let parsed:Vec<K>=keys.iter().map(|u| parse(&u.serialize().unwrap())).collect();
    for (ki,k) in parsed.iter().enumerate() {
        let n=k.chains.len();
        for i in 0..n { for j in 0..n { if i!=j { let mut t=k.clone(); t.chains.swap(i,j); try_key(k,&t,"swap chains"); } } }
        for i in 0..n { let mut t=k.clone(); t.chains.remove(i); try_key(k,&t,"drop chain"); let mut t=k.clone(); let c=t.chains[i].clone(); t.chains.push(c); try_key(k,&t,"dup chain");
            let mut t=k.clone(); t.chains[i].0.push(7); try_key(k,&t,"rename right"); let mut t=k.clone(); if !t.chains[i].0.is_empty(){ t.chains[i].0.pop(); try_key(k,&t,"shorten right"); }
            // move the last secret of chain i to the front of chain j
            for j in 0..n { if i!=j && k.chains[i].1.len()>1 { let mut t=k.clone(); let s=t.chains[i].1.pop().unwrap(); t.chains[j].1.insert(0,s); try_key(k,&t,"move secret to other chain front"); } }
            // split chain i after its first secret into (right,[s0]) ([],[rest])  -- reframing candidate
            if k.chains[i].1.len()>1 { let mut t=k.clone(); let rest=t.chains[i].1.split_off(1); t.chains.insert(i+1,(vec![],rest)); try_key(k,&t,"split chain with empty right"); }
            // merge chain i+1 into chain i when right i+1 is empty -- reframing candidate
            if i+1<n && k.chains[i+1].0.is_empty() { let mut t=k.clone(); let (_,ks)=t.chains.remove(i+1); t.chains[i].1.extend(ks); try_key(k,&t,"merge following empty-right chain"); }
            // shift one byte from the right's name into ... (prepend to next chain's right the last byte of a secret)
            if i+1<n { let mut t=k.clone(); let last=t.chains[i].1.last().unwrap().clone(); if last[0]==0 { let (head,tail)=last.split_at(32); let mut s=vec![0u8]; s.extend(&head[1..]); s.insert(1,0); s.truncate(33); let _=tail; let _=s; } }
            // flavour flip of secret 0
            let mut t=k.clone(); let s=&mut t.chains[i].1[0]; if s[0]==1 { let dk=s.split_off(33); s[0]=0; if i+1<n { let mut r=dk.clone(); r.extend(&t.chains[i+1].0); if r.len()<16000 { t.chains[i+1].0=r; try_key(k,&t,"hybrid->classic, dk absorbed in next right"); } } let mut t2=k.clone(); t2.chains[i].1[0].truncate(33); t2.chains[i].1[0][0]=0; try_key(k,&t2,"hybrid->classic, dk dropped"); }
            // swap two secrets inside chain
            if k.chains[i].1.len()>1 { let mut t=k.clone(); t.chains[i].1.swap(0,1); try_key(k,&t,"swap secrets in chain"); }
        }
        let mut t=k.clone(); t.sig.clear(); try_key(k,&t,"strip signature");
        let mut t=k.clone(); t.sig[0]^=1; try_key(k,&t,"alter signature");
        let mut t=k.clone(); t.id[0][0]^=1; try_key(k,&t,"alter id");
        for (kj,o) in parsed.iter().enumerate() { if kj!=ki { let mut t=k.clone(); t.chains.extend(o.chains.clone()); try_key(k,&t,"splice: append chains of another key");
            let mut t=k.clone(); t.sig=o.sig.clone(); try_key(k,&t,"splice: signature of another key"); let mut t=o.clone(); t.id=k.id.clone(); try_key(k,&t,"splice: id of another key"); } }
    }
    println!("tampered={total} unparsable={unparsable} accepted={accepted} (same stream: {accepted_same_stream}) accepted-with-different-stream={bad_accept} rejected-with-same-stream={bad_reject}");
}
