// C07 / C01 driver: real decapsulation next to a MODEL-DRIVEN reference decapsulator.
// The reference interprets the hash-input layout exported by the Coq model (CryptoKemBase.hash_layout, printed by
// vm_compute on every run and passed as a file): which fields each hash consumes, in which order.  The bytes come from
// the parsed serialized objects, the primitives (SHA3, Ristretto arithmetic, ML-KEM) from the same crates the repo uses.
//   mutd <layout file>
//     GEN                       -> scenario; prints "ENC <hex> <secret hex>", "USK <hex>", then "END"
//     TRY <enc hex> <usk hex>   -> "impl=<NONE|SOME:hex|ERR|UNPARSABLE> ref=<NONE|SOME:hex|UNPARSABLE>"
#![cfg_attr(feature = "cfg-alt", allow(unused))]
use cosmian_cover_crypt::{api::Covercrypt, traits::KemAc, AccessPolicy, EncryptionHint, QualifiedAttribute, UserSecretKey, XEnc};
use cosmian_crypto_core::bytes_ser_de::Serializable;
use std::collections::HashMap;
use std::io::{BufRead, Write};
#[path = "../common.rs"]
mod common;
use common::*;

fn qa(d: &str, n: &str) -> QualifiedAttribute { QualifiedAttribute::new(d, n) }
fn ap(s: &str) -> AccessPolicy { AccessPolicy::parse(s).unwrap() }

#[cfg(not(feature = "cfg-alt"))]
mod refd {
    use super::*;
    use cosmian_crypto_core::{FixedSizeCBytes, R25519CurvePoint as P, R25519PrivateKey as S};
    use ml_kem::{kem::Decapsulate, EncodedSizeUser, KemCore, MlKem512};
    use tiny_keccak::{Hasher, Sha3};

    pub type Layout = HashMap<String, Vec<String>>;
    pub fn load_layout(path: &str) -> Layout {
        // lines: NAME: field field ...
        let mut m = HashMap::new();
        for l in std::fs::read_to_string(path).unwrap().lines() {
            if let Some((k, v)) = l.split_once(':') { m.insert(k.trim().to_string(), v.split_whitespace().map(|x| x.to_string()).collect()); }
        }
        m
    }
    struct Env<'a> { c: &'a [Vec<u8>], e: Vec<&'a [u8]>, f: Vec<&'a [u8]>, t: Vec<u8>, u: Vec<u8>, k1: Vec<u8>, k2: Vec<u8>, s: Vec<u8> }
    fn feed(h: &mut Sha3, lay: &Layout, name: &str, env: &Env) {
        for fld in lay.get(name).unwrap_or_else(|| panic!("layout has no entry {name}")) {
            match fld.as_str() {
                "c*" => for x in env.c { h.update(x) },
                "E*" => for x in &env.e { h.update(x) },
                "F*" => for x in &env.f { h.update(x) },
                "T" => h.update(&env.t), "U" => h.update(&env.u), "K1" => h.update(&env.k1), "K2" => h.update(&env.k2), "S" => h.update(&env.s),
                other => panic!("unknown layout field {other}"),
            }
        }
    }
    fn sha256(lay: &Layout, name: &str, env: &Env) -> Vec<u8> { let mut h = Sha3::v256(); feed(&mut h, lay, name, env); let mut o = [0u8; 32]; h.finalize(&mut o); o.to_vec() }

    /// A classic encapsulation built WITHOUT any secret, from public data only: every trap is the neutral element (so the
    /// session key K1 is the neutral element for every user key), the seed is chosen freely, the masked seed, T, U and the tag
    /// are recomputed with the public hashes. It is internally consistent - only the Fujisaki-Okamoto check (traps = P_i^G(S))
    /// tells it from a genuine one. Returns (serialized encapsulation, the secret the forger expects a victim to derive).
    pub fn forge(lay: &Layout, ntraps: usize, seed: &[u8; 32]) -> (Vec<u8>, Vec<u8>) {
        let neutral = P::try_from_bytes([0u8; 32]).unwrap().to_bytes().to_vec();
        let cb: Vec<Vec<u8>> = (0..ntraps).map(|_| neutral.clone()).collect();
        let mut env = Env { c: &cb, e: vec![], f: vec![], t: vec![], u: vec![], k1: neutral.clone(), k2: vec![], s: seed.to_vec() };
        env.t = sha256(lay, "T_classic", &env);
        let pad = sha256(lay, "H_classic", &env);
        let fbytes: Vec<u8> = pad.iter().zip(seed.iter()).map(|(x, y)| x ^ y).collect();
        let fs: Vec<&[u8]> = vec![&fbytes];
        let mut env2 = Env { c: &cb, e: vec![], f: fs, t: env.t.clone(), u: vec![], k1: neutral.clone(), k2: vec![], s: seed.to_vec() };
        env2.u = sha256(lay, "U", &env2);
        let mut h = Sha3::v384(); feed(&mut h, lay, "J", &env2); let mut o = [0u8; 48]; h.finalize(&mut o);
        let mut b = o[..16].to_vec(); b.push(ntraps as u8); for c in &cb { b.extend_from_slice(c); } b.push(0); b.push(1); b.extend_from_slice(&fbytes);
        (b, o[16..].to_vec())
    }

    pub fn refdecaps(lay: &Layout, uskb: &[u8], encb: &[u8]) -> Option<Option<Vec<u8>>> {
        // parse the user key
        let mut r = Rd::new(uskb);
        let n = r.leb(); let mut markers = vec![]; for _ in 0..n { markers.push(S::try_from_bytes(r.take(SK).try_into().ok()?).ok()?); }
        let np = r.leb(); let mut ps = vec![]; for _ in 0..np { ps.push(P::try_from_bytes(r.take(PT).try_into().ok()?).ok()?); }
        let nc = r.leb(); let mut secrets: Vec<(S, Option<Vec<u8>>)> = vec![];
        for _ in 0..nc { let _right = r.vec(); let nk = r.leb(); for _ in 0..nk { let h = r.leb(); let sk = S::try_from_bytes(r.take(SK).try_into().ok()?).ok()?; let dk = if h == 1 { Some(r.take(DK).to_vec()) } else { None }; secrets.push((sk, dk)); } }
        // parse the encapsulation
        let mut r = Rd::new(encb);
        let tag = r.take(16).to_vec(); let nt = r.leb(); let mut cb = vec![]; let mut c = vec![];
        for _ in 0..nt { let b = r.take(PT); c.push(P::try_from_bytes(b.try_into().ok()?).ok()?); cb.push(b.to_vec()); }
        let hyb = r.leb() == 1; let m = r.leb(); let mut es: Vec<&[u8]> = vec![]; let mut fs: Vec<&[u8]> = vec![];
        for _ in 0..m { if hyb { es.push(r.take(CT)); } fs.push(r.take(32)); }
        // A = sum marker_i * c_i
        let mut a: Option<P> = None;
        for (mk, ci) in markers.iter().zip(c.iter()) { let t = ci * mk; a = Some(match a { None => t, Some(x) => &x + &t }); }
        let a = match a { Some(x) => x, None => return Some(None) };
        let mut env = Env { c: &cb, e: es.clone(), f: fs.clone(), t: vec![], u: vec![], k1: vec![], k2: vec![], s: vec![] };
        env.t = sha256(lay, if hyb { "T_hybrid" } else { "T_classic" }, &env);
        env.u = sha256(lay, "U", &env);
        for (i, f) in fs.iter().enumerate() {
            for (sk, dk) in &secrets {
                if hyb && dk.is_none() { continue; }
                env.k1 = (&a * sk).to_bytes().to_vec();
                if hyb {
                    let dkb = dk.as_ref().unwrap();
                    let dko = <MlKem512 as KemCore>::DecapsulationKey::from_bytes(dkb.as_slice().try_into().ok()?);
                    let ct: ml_kem::Ciphertext<MlKem512> = es[i].try_into().ok()?;
                    env.k2 = dko.decapsulate(&ct).ok()?.to_vec();
                }
                let pad = sha256(lay, if hyb { "H_hybrid" } else { "H_classic" }, &env);
                env.s = pad.iter().zip(f.iter()).map(|(x, y)| x ^ y).collect();
                let mut h = Sha3::v384(); feed(&mut h, lay, "J", &env); let mut o = [0u8; 48]; h.finalize(&mut o);
                if o[..16] == tag[..] {
                    let mut g = Sha3::v512(); feed(&mut g, lay, "G", &env); let mut w = [0u8; 64]; g.finalize(&mut w);
                    let rr = S::from_raw_bytes(&w);
                    let c2: Vec<Vec<u8>> = ps.iter().map(|p| (p * &rr).to_bytes().to_vec()).collect();
                    if c2 == cb { return Some(Some(o[16..].to_vec())); }
                }
            }
        }
        Some(None)
    }
}

fn main() {
    std::panic::set_hook(Box::new(|_| {}));
    let a: Vec<String> = std::env::args().collect();
    #[cfg(not(feature = "cfg-alt"))]
    let lay = refd::load_layout(&a[1]);
    let cc = Covercrypt::default();
    let out = std::io::stdout(); let mut out = std::io::BufWriter::new(out.lock());
    for line in std::io::stdin().lock().lines() {
        let line = line.unwrap(); let f: Vec<&str> = line.split(' ').collect();
        match f[0] {
            "GEN" => {
                let (mut msk, _) = cc.setup().unwrap();
                let st = &mut msk.access_structure;
                st.add_anarchy("D".into()).unwrap();
                for (n, h) in [("a", false), ("b", true), ("c", false), ("d", true)] { st.add_attribute(qa("D", n), EncryptionHint::new(h), None).unwrap(); }
                st.add_hierarchy("S".into()).unwrap();
                st.add_attribute(qa("S", "l"), EncryptionHint::Classic, None).unwrap();
                st.add_attribute(qa("S", "h"), EncryptionHint::Classic, Some("l")).unwrap();
                let mpk = cc.update_msk(&mut msk).unwrap();
                for pol in ["D::a", "D::a || D::c", "D::a || D::c || S::l", "D::b", "D::b || D::d", "D::a || D::b", "S::h && D::b"] {
                    let (s, e) = cc.encaps(&mpk, &ap(pol)).unwrap();
                    writeln!(out, "ENC {} {}", hex(&e.serialize().unwrap()), hex(&*s)).unwrap();
                }
                for pol in ["D::a", "D::b", "D::c && S::l", "D::d && S::h", "S::h", "D::b || D::a"] {
                    let mut u = cc.generate_user_secret_key(&mut msk, &ap(pol)).unwrap();
                    if pol.contains("D::a") { cc.rekey(&mut msk, &ap("D::a")).unwrap(); cc.refresh_usk(&mut msk, &mut u, true).unwrap(); }
                    writeln!(out, "USK {}", hex(&u.serialize().unwrap())).unwrap();
                }
                // a MINIMAL world as well: a master key without any dimension (only the broadcast right exists), a key for "*"
                // holding that single secret, an encapsulation for "*" with its single target
                {
                    let (mut m0, p0) = cc.setup().unwrap();
                    let (s, e) = cc.encaps(&p0, &ap("*")).unwrap();
                    writeln!(out, "ENC {} {}", hex(&e.serialize().unwrap()), hex(&*s)).unwrap();
                    let u = cc.generate_user_secret_key(&mut m0, &ap("*")).unwrap();
                    writeln!(out, "USK {}", hex(&u.serialize().unwrap())).unwrap();
                }
                writeln!(out, "END").unwrap();
            }
            "FORGE" => {
                #[cfg(not(feature = "cfg-alt"))]
                { let (b, s) = refd::forge(&lay, f[1].parse().unwrap(), &[0x5a; 32]); writeln!(out, "FORGED {} {}", hex(&b), hex(&s)).unwrap(); }
                #[cfg(feature = "cfg-alt")]
                writeln!(out, "FORGED - -").unwrap();
            }
            "TRY" => {
                let eb = unhex(f[1]); let ub = unhex(f[2]);
                let im = std::panic::catch_unwind(|| match (XEnc::deserialize(&eb), UserSecretKey::deserialize(&ub)) {
                    (Ok(e), Ok(u)) => match cc.decaps(&u, &e) { Ok(Some(s)) => format!("SOME:{}", hex(&*s)), Ok(None) => "NONE".to_string(), Err(_) => "ERR".to_string() },
                    _ => "UNPARSABLE".to_string(),
                }).unwrap_or_else(|_| "PANIC".to_string());
                #[cfg(not(feature = "cfg-alt"))]
                let rf = std::panic::catch_unwind(|| match refd::refdecaps(&lay, &ub, &eb) { None => "UNPARSABLE".to_string(), Some(None) => "NONE".to_string(), Some(Some(s)) => format!("SOME:{}", hex(&s)) }).unwrap_or_else(|_| "UNPARSABLE".to_string());
                #[cfg(feature = "cfg-alt")]
                let rf = "-".to_string();
                writeln!(out, "impl={} ref={}", im, rf).unwrap();
            }
            _ => writeln!(out, "??").unwrap(),
        }
        out.flush().unwrap();
    }
}
