// Golden vectors for C13: `golden gen N` (run once against the PINNED release) prints N vector sets;
// `golden check` reads vector sets on stdin and checks that the current tree deserializes and can USE them.
use cosmian_cover_crypt::{
    api::Covercrypt, cc_keygen, traits::KemAc, AccessPolicy, EncryptedHeader, EncryptionHint, MasterPublicKey,
    MasterSecretKey, QualifiedAttribute, UserSecretKey, XEnc,
};
use cosmian_crypto_core::bytes_ser_de::Serializable;
use std::io::{BufRead, Write};

#[path = "../common.rs"]
mod common;
use common::*;

fn gen(n: usize) {
    let cc = Covercrypt::default();
    for i in 0..n {
        let (mut msk, _) = cc_keygen(&cc, i % 2 == 0).unwrap();
        if i % 3 == 1 {
            msk.access_structure.add_attribute(QualifiedAttribute::new("DPT", "é名"), EncryptionHint::new(true), None).unwrap();
            msk.access_structure.del_attribute(&QualifiedAttribute::new("DPT", "RD")).unwrap();
            cc.update_msk(&mut msk).unwrap();
        }
        let upol = ["SEC::TOP && (DPT::FIN || DPT::MKG)", "SEC::LOW", "DPT::HR", "*"][i % 4];
        let epol = ["SEC::TOP && DPT::FIN", "SEC::LOW && DPT::HR", "DPT::HR", "SEC::LOW"][i % 4];
        let usk0 = cc.generate_user_secret_key(&mut msk, &AccessPolicy::parse(upol).unwrap()).unwrap();
        if i % 2 == 1 { cc.rekey(&mut msk, &AccessPolicy::parse("DPT::HR").unwrap()).unwrap(); }
        if i % 5 == 2 { msk.access_structure.disable_attribute(&QualifiedAttribute::new("DPT", "DEV")).unwrap(); }
        let mpk = cc.update_msk(&mut msk).unwrap();
        let mut usk = usk0.clone();
        if i % 2 == 1 { cc.refresh_usk(&mut msk, &mut usk, i % 4 == 1).unwrap(); }
        let (ss, enc) = cc.encaps(&mpk, &AccessPolicy::parse(epol).unwrap()).unwrap();
        let (hs, hdr) = EncryptedHeader::generate(&cc, &mpk, &AccessPolicy::parse(epol).unwrap(), if i % 3 == 0 { None } else { Some(b"meta data") }, if i % 2 == 0 { None } else { Some(b"ad") }).unwrap();
        let opens = cc.decaps(&usk, &enc).unwrap().is_some();
        println!("{} {} {} {} {} {} {} {} {}", hex(&msk.serialize().unwrap()), hex(&mpk.serialize().unwrap()), hex(&usk.serialize().unwrap()),
                 hex(&enc.serialize().unwrap()), hex(&*ss), opens as u8, hex(&hdr.serialize().unwrap()), hex(&*hs), i % 2);
    }
}

fn check_one(f: &[&str]) -> Result<(), String> {
    let cc = Covercrypt::default();
    let b = unhex(f[0]);
    let mut msk = MasterSecretKey::deserialize(&b).map_err(|e| format!("msk: {e}"))?;
    let mpk = MasterPublicKey::deserialize(&unhex(f[1])).map_err(|e| format!("mpk: {e}"))?;
    let mut usk = UserSecretKey::deserialize(&unhex(f[2])).map_err(|e| format!("usk: {e}"))?;
    let enc = XEnc::deserialize(&unhex(f[3])).map_err(|e| format!("enc: {e}"))?;
    let hdr = EncryptedHeader::deserialize(&unhex(f[6])).map_err(|e| format!("hdr: {e}"))?;
    if mpk.serialize().unwrap().len() != mpk.length() || usk.serialize().unwrap().len() != usk.length() || enc.serialize().unwrap().len() != enc.length()
        || msk.serialize().unwrap().len() != msk.length() || hdr.serialize().unwrap().len() != hdr.length() { return Err("length() mismatch".into()); }
    // objects that did not change format must re-serialize byte for byte
    if hex(&enc.serialize().unwrap()) != f[3] || hex(&hdr.serialize().unwrap()) != f[6] { return Err("re-serialization differs".into()); }
    // an object read from pinned-release bytes must itself round-trip (serialize -> deserialize -> equal object; the byte order of hash maps is not fixed)
    {
        let b2 = msk.serialize().map_err(|e| format!("msk re-serialize: {e}"))?;
        let m2 = MasterSecretKey::deserialize(&b2).map_err(|e| format!("msk written after reading pinned-release bytes does not deserialize: {e}"))?;
        if m2 != msk { return Err(format!("msk read from pinned-release bytes does not round-trip: objects differ: st {} tsk/secrets {}", m2.access_structure == msk.access_structure, dump_msk(&m2) == dump_msk(&msk))); }
        let p2 = mpk.serialize().map_err(|e| format!("mpk re-serialize: {e}"))?;
        let q2 = MasterPublicKey::deserialize(&p2).map_err(|e| format!("mpk written after reading pinned-release bytes does not deserialize: {e}"))?;
        if q2 != mpk { return Err("mpk read from pinned-release bytes does not round-trip".into()); }
        let u2 = usk.serialize().unwrap();
        if UserSecretKey::deserialize(&u2).map_err(|e| format!("usk: {e}"))? != usk { return Err("usk read from pinned-release bytes does not round-trip".into()); }
    }
    let opens = f[5] == "1";
    match cc.decaps(&usk, &enc).map_err(|e| format!("decaps: {e}"))? {
        Some(s) => { if !opens || hex(&*s) != f[4] { return Err("decaps: wrong secret".into()); } }
        None => { if opens { return Err("decaps: recorded as opening, now None".into()); } }
    }
    let ad: Option<&[u8]> = if f[8] == "0" { None } else { Some(b"ad") };
    match hdr.decrypt(&cc, &usk, ad).map_err(|e| format!("hdr decrypt: {e}"))? {
        Some(c) => { if !opens || hex(&*c.secret) != f[7] { return Err("header: wrong secret".into()); } }
        None => { if opens { return Err("header: recorded as opening, now None".into()); } }
    }
    cc.refresh_usk(&mut msk, &mut usk, true).map_err(|e| format!("refresh: {e}"))?;
    if opens && cc.decaps(&usk, &enc).map_err(|e| format!("decaps: {e}"))?.is_none() { return Err("refreshed key lost access".into()); }
    let mpk2 = cc.rekey(&mut msk, &AccessPolicy::parse("SEC::LOW").unwrap()).map_err(|e| format!("rekey: {e}"))?;
    cc.refresh_usk(&mut msk, &mut usk, false).map_err(|e| format!("refresh2: {e}"))?;
    let (s2, e2) = cc.encaps(&mpk2, &AccessPolicy::parse("SEC::LOW").unwrap()).map_err(|e| format!("encaps: {e}"))?;
    let _ = cc.encaps(&mpk, &AccessPolicy::parse("SEC::LOW").unwrap()).map_err(|e| format!("encaps old mpk: {e}"))?;
    // a new attribute must get an identifier above every identifier in use
    msk.access_structure.add_attribute(QualifiedAttribute::new("DPT", "NEW"), EncryptionHint::new(false), None).map_err(|e| format!("add: {e}"))?;
    cc.update_msk(&mut msk).map_err(|e| format!("update: {e}"))?;
    let d = dump_msk(&msk);
    let st = d.split(" S=").nth(1).unwrap().split(" K=").next().unwrap();
    let mut ids: Vec<usize> = vec![];
    for dim in st.split(';') { if let Some(at) = dim.splitn(3, ':').nth(2) { for a in at.split(',') { if !a.is_empty() { ids.push(a.split('/').nth(1).unwrap().parse().unwrap()); } } } }
    let mut s = ids.clone(); s.sort(); s.dedup();
    if s.len() != ids.len() { return Err(format!("duplicate attribute ids after adding to a legacy structure: {ids:?}")); }
    let _ = (s2, e2);
    // ... and still does after having been used and edited
    let b3 = msk.serialize().map_err(|e| format!("msk re-serialize: {e}"))?;
    let m3 = MasterSecretKey::deserialize(&b3).map_err(|e| format!("edited legacy msk does not deserialize: {e}"))?;
    if m3 != msk { return Err("edited legacy msk does not round-trip".into()); }
    let p3 = mpk2.serialize().unwrap();
    if MasterPublicKey::deserialize(&p3).map_err(|e| format!("mpk of a legacy msk does not deserialize: {e}"))? != mpk2 { return Err("mpk of a legacy msk does not round-trip".into()); }
    Ok(())
}

fn main() {
    std::panic::set_hook(Box::new(|_| {}));
    let a: Vec<String> = std::env::args().collect();
    if a.len() > 1 && a[1] == "gen" { gen(a.get(2).map(|x| x.parse().unwrap()).unwrap_or(12)); return; }
    let out = std::io::stdout(); let mut out = out.lock();
    for line in std::io::stdin().lock().lines() {
        let line = line.unwrap(); let f: Vec<&str> = line.split(' ').collect();
        let r = std::panic::catch_unwind(|| check_one(&f));
        match r { Ok(Ok(())) => writeln!(out, "OK").unwrap(), Ok(Err(e)) => writeln!(out, "FAIL {e}").unwrap(), Err(_) => writeln!(out, "PANIC").unwrap() }
    }
}
