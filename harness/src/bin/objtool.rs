// Reads "KIND hex" lines (objects logged by kdriver with KHEX) and prints, per line, the canonical dump obtained
// through `deserialize` + the harness' parser, followed by the result of the arithmetic checks of C17/C01:
//   MSK: P_i = t_i G for every tracer; sum a_i t_i = s for every recorded user id
//   USK (against the last MSK seen): id recorded, relation holds, tracing points = tracer points
//   MPK (against the last MSK seen): tpk = tracer points; every published point = sk_front (s G)
use cosmian_cover_crypt::{MasterPublicKey, MasterSecretKey, UserSecretKey, XEnc, EncryptedHeader};
use cosmian_crypto_core::bytes_ser_de::Serializable;
use std::io::{BufRead, Write};
#[path = "../common.rs"]
mod common;
use common::*;

#[cfg(not(feature = "cfg-alt"))]
mod arith {
    use cosmian_crypto_core::{FixedSizeCBytes, R25519CurvePoint as P, R25519PrivateKey as S};
    pub fn s(b: &[u8]) -> S { S::try_from_bytes(b.try_into().unwrap()).unwrap() }
    pub fn p(b: &[u8]) -> P { P::try_from_bytes(b.try_into().unwrap()).unwrap() }
    pub fn gen(x: &S) -> P { P::from(x) }
    pub fn dot(a: &[S], t: &[S]) -> Option<S> { let mut it = a.iter().zip(t.iter()).map(|(x, y)| x * y); let f = it.next()?; Some(it.fold(f, |acc, x| &acc + &x)) }
    pub const ON: bool = true;
    pub type Sc = S; pub type Pt = P;
    pub fn mulp(pt: &P, x: &S) -> P { pt * x }
}
#[cfg(feature = "cfg-alt")]
mod arith {
    // independent arithmetic for the alternative build: the p256 crate directly (not the crate's own wrapper types)
    use elliptic_curve::{group::GroupEncoding, PrimeField};
    use p256::{ProjectivePoint as P, Scalar as S};
    pub fn s(b: &[u8]) -> S { let a: [u8; 32] = b.try_into().unwrap(); Option::from(S::from_repr(a.into())).unwrap() }
    pub fn p(b: &[u8]) -> P { let a: [u8; 33] = b.try_into().unwrap(); Option::from(P::from_bytes(&a.into())).unwrap() }
    pub fn gen(x: &S) -> P { P::GENERATOR * *x }
    pub fn dot(a: &[S], t: &[S]) -> Option<S> { if a.is_empty() { return None; } Some(a.iter().zip(t.iter()).fold(S::ZERO, |acc, (x, y)| acc + *x * *y)) }
    pub const ON: bool = true;
    pub type Sc = S; pub type Pt = P;
    pub fn mulp(pt: &P, x: &S) -> P { *pt * *x }
}
use arith::*;

struct Msk { s: Sc, ts: Vec<Sc>, ps: Vec<Vec<u8>>, users: Vec<Vec<Vec<u8>>>, front: std::collections::HashMap<String, Vec<u8>> }

fn parse_msk(b: &[u8]) -> Msk {
    let mut r = Rd::new(b);
    let s0 = s(r.take(SK)); let nt = r.leb(); let mut ts = vec![]; let mut ps = vec![];
    for _ in 0..nt { ts.push(s(r.take(SK))); ps.push(r.take(PT).to_vec()); }
    let nu = r.leb(); let mut users = vec![];
    for _ in 0..nu { let n = r.leb(); let mut id = vec![]; for _ in 0..n { id.push(r.take(SK).to_vec()); } users.push(id); }
    let nr = r.leb(); let mut front = std::collections::HashMap::new();
    for _ in 0..nr { let right = hex(r.vec()); let nk = r.leb(); for k in 0..nk { let _f = r.leb(); let h = r.leb(); let sk = r.take(SK).to_vec(); if h == 1 { r.take(DK); } if k == 0 { front.insert(right.clone(), sk); } } }
    Msk { s: s0, ts, ps, users, front }
}

fn main() {
    std::panic::set_hook(Box::new(|_| {}));
    let out = std::io::stdout(); let mut out = std::io::BufWriter::new(out.lock());
    let mut last: Option<Msk> = None;
    for line in std::io::stdin().lock().lines() {
        let line = line.unwrap(); let f: Vec<&str> = line.split(' ').collect(); if f.len() < 2 { continue; }
        let b = unhex(f[1]);
        let res = std::panic::catch_unwind(|| -> (String, String, Option<Msk>) {
            match f[0] {
                "MSK" => { let m = MasterSecretKey::deserialize(&b).unwrap(); let pm = parse_msk(&b); let mut v = vec![];
                    if ON { for (t, pt) in pm.ts.iter().zip(pm.ps.iter()) { if gen(t) != p(pt) { v.push("tracer point != t G".to_string()); } }
                        for id in &pm.users { let a: Vec<Sc> = id.iter().map(|x| s(x)).collect(); if a.len() != pm.ts.len() || dot(&a, &pm.ts) != Some(pm.s.clone()) { v.push("recorded id violates the tracing relation".into()); } } }
                    (dump_msk(&m), v.join(";"), Some(pm)) }
                "MPK" => { let m = MasterPublicKey::deserialize(&b).unwrap(); (dump_mpk(&m), String::new(), None) }
                "USK" => { let u = UserSecretKey::deserialize(&b).unwrap(); (dump_usk(&u), String::new(), None) }
                "ENC" => { let e = XEnc::deserialize(&b).unwrap(); (dump_enc(&e), String::new(), None) }
                "HDR" => { let h = EncryptedHeader::deserialize(&b).unwrap(); (format!("HDR l={} md={}", (h.serialize().unwrap().len() == h.length()) as u8, h.encrypted_metadata.as_ref().map(|m| m.len() as i64).unwrap_or(-1)), String::new(), None) }
                _ => ("??".into(), String::new(), None),
            }
        });
        match res {
            Err(_) => writeln!(out, "PANIC").unwrap(),
            Ok((d, mut v, nm)) => {
                if let Some(m) = nm { last = Some(m); }
                if let Some(m) = &last {
                    let mut r = Rd::new(&b);
                    if f[0] == "USK" {
                        let n = r.leb(); let mut id = vec![]; for _ in 0..n { id.push(r.take(SK).to_vec()); }
                        let np = r.leb(); let mut ps = vec![]; for _ in 0..np { ps.push(r.take(PT).to_vec()); }
                        let mut w = vec![];
                        if !m.users.contains(&id) { w.push("identifier not recorded in the master key"); }
                        if ps != m.ps { w.push("tracing points differ from the master key's tracer points"); }
                        if ON { let a: Vec<Sc> = id.iter().map(|x| s(x)).collect(); if a.len() != m.ts.len() || dot(&a, &m.ts) != Some(m.s.clone()) { w.push("markers do not satisfy sum a_i t_i = s"); } }
                        v = w.join(";");
                    }
                    if f[0] == "MPK" {
                        let np = r.leb(); let mut ps = vec![]; for _ in 0..np { ps.push(r.take(PT).to_vec()); }
                        let mut w = vec![];
                        if ps != m.ps { w.push("tracing public key differs from the master key's tracer points".to_string()); }
                        let nr = r.leb(); let h = gen(&m.s);
                        for _ in 0..nr { let right = hex(r.vec()); let hy = r.leb(); let pt = r.take(PT).to_vec(); if hy == 1 { r.take(EK); }
                            if ON { if let Some(sk) = m.front.get(&right) { if mulp(&h, &s(sk)) != p(&pt) { w.push(format!("public key of right {right} != sk (s G)")); } } } }
                        v = w.join(";");
                    }
                }
                writeln!(out, "{}|{}", d, if v.is_empty() { "ok".to_string() } else { v }).unwrap();
            }
        }
    }
}
