use cosmian_cover_crypt::AccessPolicy;
use std::io::{BufRead, Write};
fn hex(b:&[u8])->String{ b.iter().map(|x| format!("{:02x}",x)).collect() }
fn unhex(s:&str)->Vec<u8>{ (0..s.len()/2).map(|i| u8::from_str_radix(&s[2*i..2*i+2],16).unwrap()).collect() }
fn main(){
    std::panic::set_hook(Box::new(|_|{}));
    let stdin=std::io::stdin(); let out=std::io::stdout(); let mut out=std::io::BufWriter::new(out.lock());
    for line in stdin.lock().lines(){
        let line=line.unwrap();
        let s=String::from_utf8(unhex(line.trim())).unwrap();
        let r=std::panic::catch_unwind(|| AccessPolicy::parse(&s).map(|p| p.to_dnf()));
        match r {
            Err(_)=>writeln!(out,"PANIC").unwrap(),
            Ok(Err(_))=>writeln!(out,"ERR").unwrap(),
            Ok(Ok(d))=>{
                let t:Vec<String>=d.iter().map(|cl| cl.iter().map(|a| format!("{}:{}",hex(a.dimension.as_bytes()),hex(a.name.as_bytes()))).collect::<Vec<_>>().join(",")).collect();
                writeln!(out,"OK {}",t.join(";")).unwrap();
            }
        }
    }
}
