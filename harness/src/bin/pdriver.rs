use cosmian_cover_crypt::AccessPolicy;
use std::io::{BufRead, Write};
fn hex(b:&[u8])->String{ b.iter().map(|x| format!("{:02x}",x)).collect() }
fn unhex(s:&str)->Vec<u8>{ (0..s.len()/2).map(|i| u8::from_str_radix(&s[2*i..2*i+2],16).unwrap()).collect() }
/// "@<prefix notation>": a policy BUILT with the enum constructors (B, T,<dim hex>,<name hex>, A,<x>,<y>, O,<x>,<y>)
fn build(s:&str)->Option<AccessPolicy>{
    use cosmian_cover_crypt::QualifiedAttribute;
    fn go(t:&[&str],p:&mut usize)->Option<AccessPolicy>{
        let k=*t.get(*p)?; *p+=1;
        match k {
            "B"=>Some(AccessPolicy::Broadcast),
            "T"=>{ let d=String::from_utf8(unhex(t.get(*p)?)).ok()?; let n=String::from_utf8(unhex(t.get(*p+1)?)).ok()?; *p+=2; Some(AccessPolicy::Term(QualifiedAttribute::new(&d,&n))) }
            "A"=>{ let l=go(t,p)?; let r=go(t,p)?; Some(AccessPolicy::Conjunction(Box::new(l),Box::new(r))) }
            "O"=>{ let l=go(t,p)?; let r=go(t,p)?; Some(AccessPolicy::Disjunction(Box::new(l),Box::new(r))) }
            "a"=>{ let l=go(t,p)?; let r=go(t,p)?; Some(l & r) }
            "o"=>{ let l=go(t,p)?; let r=go(t,p)?; Some(l | r) }
            _=>None }
    }
    let t:Vec<&str>=s.strip_prefix('@')?.split(',').collect(); let mut p=0; let r=go(&t,&mut p)?; if p==t.len(){Some(r)}else{None}
}
fn main(){
    std::panic::set_hook(Box::new(|_|{}));
    let stdin=std::io::stdin(); let out=std::io::stdout(); let mut out=std::io::BufWriter::new(out.lock());
    for line in stdin.lock().lines(){
        let line=line.unwrap();
        let s=String::from_utf8(unhex(line.trim())).unwrap();
        let r=std::panic::catch_unwind(|| if s.starts_with('@') { build(&s).map(|p| p.to_dnf()).ok_or(cosmian_cover_crypt::Error::InvalidBooleanExpression("bad built policy".into())) } else { AccessPolicy::parse(&s).map(|p| p.to_dnf()) });
        match r {
            Err(_)=>writeln!(out,"PANIC").unwrap(),
            Ok(Err(_))=>writeln!(out,"ERR").unwrap(),
            Ok(Ok(d))=>{
                let t:Vec<String>=d.iter().map(|cl| cl.iter().map(|a| format!("{}:{}",hex(a.dimension.as_bytes()),hex(a.name.as_bytes()))).collect::<Vec<_>>().join(",")).collect();
                writeln!(out,"OK {}",t.join(";")).unwrap();
            }
        }
    }
}
