// C19 / C16 driver.
//   concd single            -> every API method once, single-threaded, each under a watchdog (a nested lock self-deadlocks)
//   concd blocks            -> holds cc.rng() and checks that each method blocks, then completes after release
//   concd stress T N        -> T threads x N mixed calls on distinct key objects sharing ONE Covercrypt instance;
//                              every result validated; prints the fresh values for the distinctness oracle
//   concd fresh N [inst]    -> N identical calls of each kind (on `inst` instances); prints the fresh values
// Output lines: "OK <what>" / "FAIL <what>" / "VAL <kind> <hex>" (values that must be pairwise distinct per kind)
use cosmian_cover_crypt::{
    api::Covercrypt, traits::{KemAc, PkeAc}, AccessPolicy, EncryptedHeader, EncryptionHint, MasterPublicKey, MasterSecretKey,
    QualifiedAttribute, UserSecretKey,
};
use cosmian_crypto_core::{bytes_ser_de::Serializable, Aes256Gcm, Dem, FixedSizeCBytes, Instantiable, Nonce, SymmetricKey};
use std::sync::{mpsc, Arc, Mutex};
use std::time::Duration;
#[path = "../common.rs"]
mod common;
use common::*;

fn qa(d: &str, n: &str) -> QualifiedAttribute { QualifiedAttribute::new(d, n) }
fn ap(s: &str) -> AccessPolicy { AccessPolicy::parse(s).unwrap() }

fn setup(cc: &Covercrypt) -> (MasterSecretKey, MasterPublicKey) {
    let (mut msk, _) = cc.setup().unwrap();
    let st = &mut msk.access_structure;
    st.add_anarchy("D".into()).unwrap();
    st.add_attribute(qa("D", "a"), EncryptionHint::Classic, None).unwrap();
    st.add_attribute(qa("D", "b"), EncryptionHint::Hybridized, None).unwrap();
    let mpk = cc.update_msk(&mut msk).unwrap();
    (msk, mpk)
}

/// runs f in a thread; Err if it does not finish within `ms`
fn watchdog<T: Send + 'static>(ms: u64, f: impl FnOnce() -> T + Send + 'static) -> Result<T, ()> {
    let (tx, rx) = mpsc::channel();
    std::thread::spawn(move || { let _ = tx.send(f()); });
    rx.recv_timeout(Duration::from_millis(ms)).map_err(|_| ())
}

struct World { msk: MasterSecretKey, mpk: MasterPublicKey, usk: UserSecretKey, usk_b: UserSecretKey, enc: cosmian_cover_crypt::XEnc, enc_b: cosmian_cover_crypt::XEnc, secret_b: cosmian_crypto_core::Secret<32> }
fn world(cc: &Covercrypt) -> World {
    let (mut msk, mpk) = setup(cc);
    let usk = cc.generate_user_secret_key(&mut msk, &ap("D::a")).unwrap();
    let usk_b = cc.generate_user_secret_key(&mut msk, &ap("D::b")).unwrap();
    let (_, enc) = cc.encaps(&mpk, &ap("D::a")).unwrap();
    let (secret_b, enc_b) = cc.encaps(&mpk, &ap("D::b")).unwrap();
    World { msk, mpk, usk, usk_b, enc, enc_b, secret_b }
}
type Op = (&'static str, Box<dyn Fn(&Covercrypt, &mut World) -> bool + Send + Sync>);
fn ops() -> Vec<Op> {
    vec![
        ("setup", Box::new(|cc, _| cc.setup().is_ok())),
        ("update_msk", Box::new(|cc, w| cc.update_msk(&mut w.msk).is_ok())),
        ("rekey", Box::new(|cc, w| cc.rekey(&mut w.msk, &ap("D::a")).is_ok())),
        ("prune_master_secret_key", Box::new(|cc, w| cc.prune_master_secret_key(&mut w.msk, &ap("D::a")).is_ok())),
        ("generate_user_secret_key", Box::new(|cc, w| cc.generate_user_secret_key(&mut w.msk, &ap("D::a")).is_ok())),
        ("refresh_usk", Box::new(|cc, w| cc.refresh_usk(&mut w.msk, &mut w.usk, true).is_ok())),
        ("recaps", Box::new(|cc, w| cc.recaps(&w.msk, &w.mpk, &w.enc).is_ok())),
        ("encaps", Box::new(|cc, w| cc.encaps(&w.mpk, &ap("D::b")).is_ok())),
        ("decaps", Box::new(|cc, w| cc.decaps(&w.usk_b, &w.enc_b).unwrap() == Some(w.secret_b.clone()))),
        ("encrypt", Box::new(|cc, w| <Covercrypt as PkeAc<32, Aes256Gcm>>::encrypt(cc, &w.mpk, &ap("D::a"), b"hello").is_ok())),
        ("decrypt", Box::new(|cc, w| { let c = (w.enc.clone(), vec![0u8; 40]); <Covercrypt as PkeAc<32, Aes256Gcm>>::decrypt(cc, &w.usk, &c).is_err() })),
        ("generate", Box::new(|cc, w| EncryptedHeader::generate(cc, &w.mpk, &ap("D::a"), Some(b"md"), Some(b"ad")).is_ok())),
        ("header_decrypt", Box::new(|cc, w| { let h = EncryptedHeader { encapsulation: w.enc.clone(), encrypted_metadata: None }; h.decrypt(cc, &w.usk, None).unwrap().is_some() })),
        // policies naming the same attribute twice (in one clause / in several clauses): refused or accepted, but the call RETURNS
        ("encaps_repeated_attribute", Box::new(|cc, w| { let _ = cc.encaps(&w.mpk, &ap("D::a && D::a")); let _ = cc.encaps(&w.mpk, &ap("D::a || D::a")); true })),
        ("encrypt_repeated_attribute", Box::new(|cc, w| { let _ = <Covercrypt as PkeAc<32, Aes256Gcm>>::encrypt(cc, &w.mpk, &ap("D::a && (D::a || D::b)"), b"x"); true })),
        ("generate_repeated_attribute", Box::new(|cc, w| { let _ = EncryptedHeader::generate(cc, &w.mpk, &ap("(D::a || D::b) && (D::a || D::b)"), None, None); true })),
        ("keygen_repeated_attribute", Box::new(|cc, w| { let _ = cc.generate_user_secret_key(&mut w.msk, &ap("D::b && D::b")); let _ = cc.rekey(&mut w.msk, &ap("D::a && D::a")); true })),
    ]
}

fn vals_of_call(cc: &Covercrypt, msk: &Mutex<MasterSecretKey>, mpk: &MasterPublicKey, k: usize, out: &mut Vec<String>) -> Result<(), String> {
    match k % 8 {
        // REJECTED calls between successful ones: a refused call must not disturb what the next call draws
        7 => { if cc.encaps(mpk, &ap("D::zz")).is_ok() { return Err("encapsulation for an unknown attribute succeeded".into()); }
            let (s, e) = cc.encaps(mpk, &ap("D::a")).map_err(|e| e.to_string())?; let b = e.serialize().unwrap();
            out.push(format!("VAL secret {}", hex(&*s))); out.push(format!("VAL tag {}", hex(&b[..16]))); out.push(format!("VAL trap {}", hex(&b[17..17 + PT])));
            { let mut m = msk.lock().unwrap(); if cc.generate_user_secret_key(&mut m, &ap("Z::z")).is_ok() { return Err("key generation for an unknown dimension succeeded".into()); }
              if cc.rekey(&mut m, &ap("D::zz")).is_ok() { return Err("rekey of an unknown attribute succeeded".into()); } }
            let (s, h) = EncryptedHeader::generate(cc, mpk, &ap("D::a"), Some(b"same metadata"), None).map_err(|e| e.to_string())?;
            out.push(format!("VAL secret {}", hex(&*s))); out.push(format!("VAL nonce {}", hex(&h.encrypted_metadata.clone().unwrap()[..12])));
            if cc.encaps(mpk, &ap("D::zz")).is_ok() { return Err("encapsulation for an unknown attribute succeeded".into()); }
            let (s, e) = cc.encaps(mpk, &ap("D::a")).map_err(|e| e.to_string())?; let b = e.serialize().unwrap();
            out.push(format!("VAL secret {}", hex(&*s))); out.push(format!("VAL tag {}", hex(&b[..16])));
            // refused OPENINGS (other authentication data, an altered ciphertext, a truncated one) by an authorized key: each is an
            // ordinary error, and the legitimate openings that follow on the same instance must succeed as they would alone
            let u = { let mut m = msk.lock().unwrap(); cc.generate_user_secret_key(&mut m, &ap("D::a")).map_err(|e| e.to_string())? };
            let (hs, h) = EncryptedHeader::generate(cc, mpk, &ap("D::a"), Some(b"metadata"), Some(b"right")).map_err(|e| e.to_string())?;
            if h.decrypt(cc, &u, Some(b"wrong")).is_ok() { return Err("a header opened under other authentication data".into()); }
            let ct = <Covercrypt as PkeAc<32, Aes256Gcm>>::encrypt(cc, mpk, &ap("D::a"), b"plaintext").map_err(|e| e.to_string())?;
            let mut bad = ct.1.clone(); let l = bad.len(); bad[l - 1] ^= 1;
            if <Covercrypt as PkeAc<32, Aes256Gcm>>::decrypt(cc, &u, &(ct.0.clone(), bad)).is_ok() { return Err("an altered PKE ciphertext was accepted".into()); }
            if <Covercrypt as PkeAc<32, Aes256Gcm>>::decrypt(cc, &u, &(ct.0.clone(), ct.1[..5].to_vec())).is_ok() { return Err("a truncated PKE ciphertext was accepted".into()); }
            match h.decrypt(cc, &u, Some(b"right")) { Ok(Some(c)) if *c.secret == *hs && c.metadata.as_deref() == Some(&b"metadata"[..]) => {}, Ok(_) => return Err("after refused openings, a legitimate header opening gives nothing or something else".into()), Err(e) => return Err(format!("after refused openings, a legitimate header opening fails: {e}")) }
            match <Covercrypt as PkeAc<32, Aes256Gcm>>::decrypt(cc, &u, &ct) { Ok(Some(p)) if &*p == b"plaintext" => {}, Ok(_) => return Err("after refused openings, a legitimate decryption gives nothing or something else".into()), Err(e) => return Err(format!("after refused openings, a legitimate decryption fails: {e}")) }
            let (s, e) = cc.encaps(mpk, &ap("D::a")).map_err(|e| format!("after refused openings, encapsulation fails: {e}"))?;
            if cc.decaps(&u, &e).map_err(|e| e.to_string())? != Some(s) { return Err("after refused openings, own encapsulation does not decapsulate to the same secret".into()); } }
        6 => { let m = msk.lock().unwrap(); let cur = m.mpk().map_err(|e| e.to_string())?;
            let (s0, e0) = cc.encaps(&cur, &ap("D::a")).map_err(|e| e.to_string())?; let b0 = e0.serialize().unwrap();
            out.push(format!("VAL secret {}", hex(&*s0))); out.push(format!("VAL tag {}", hex(&b0[..16])));
            for _ in 0..2 { let (s, e) = cc.recaps(&m, &cur, &e0).map_err(|e| e.to_string())?; let b = e.serialize().unwrap();
                out.push(format!("VAL secret {}", hex(&*s))); out.push(format!("VAL tag {}", hex(&b[..16]))); out.push(format!("VAL trap {}", hex(&b[17..17 + PT]))); } }
        0 => { let (s, e) = cc.encaps(mpk, &ap("D::a")).map_err(|e| e.to_string())?; let b = e.serialize().unwrap();
            out.push(format!("VAL secret {}", hex(&*s))); out.push(format!("VAL tag {}", hex(&b[..16]))); out.push(format!("VAL trap {}", hex(&b[17..17 + PT]))); }
        1 => { let c = <Covercrypt as PkeAc<32, Aes256Gcm>>::encrypt(cc, mpk, &ap("D::a"), b"same plaintext").map_err(|e| e.to_string())?;
            out.push(format!("VAL nonce {}", hex(&c.1[..12]))); out.push(format!("VAL tag {}", hex(&c.0.serialize().unwrap()[..16]))); }
        2 => { let (s, h) = EncryptedHeader::generate(cc, mpk, &ap("D::a"), Some(b"same metadata"), None).map_err(|e| e.to_string())?;
            let emd = h.encrypted_metadata.clone().unwrap(); out.push(format!("VAL nonce {}", hex(&emd[..12]))); out.push(format!("VAL secret {}", hex(&*s)));
            // the metadata must NOT decrypt under the secret handed to the caller
            let key = SymmetricKey::<32>::try_from_bytes((*s).clone()).unwrap();
            let n = Nonce::<12>::try_from_slice(&emd[..12]).unwrap();
            if Aes256Gcm::new(&key).decrypt(&n, &emd[12..], None).is_ok() { return Err("encrypted metadata decrypts under the secret returned to the caller".into()); } }
        3 => { let mut m = msk.lock().unwrap(); let u = cc.generate_user_secret_key(&mut m, &ap("D::a")).map_err(|e| e.to_string())?; let b = u.serialize().unwrap(); out.push(format!("VAL userid {}", hex(&b[1..1 + 2 * SK]))); }
        4 => { let mut m = msk.lock().unwrap(); let p = cc.rekey(&mut m, &ap("D::b")).map_err(|e| e.to_string())?; let d = dump_mpk(&p);
            for it in d.split(" K=").nth(1).unwrap().split(' ') { if it.starts_with("r01=") || it.starts_with("r=") { out.push(format!("VAL pub:{} {}", it.split('=').next().unwrap(), it.split('/').last().unwrap())); } } }
        _ => { let mut m = msk.lock().unwrap(); let mut u = cc.generate_user_secret_key(&mut m, &ap("D::b")).map_err(|e| e.to_string())?;
            let cur = m.mpk().map_err(|e| e.to_string())?;
            let (s, e) = cc.encaps(&cur, &ap("D::b")).map_err(|e| e.to_string())?;
            if cc.decaps(&u, &e).map_err(|e| e.to_string())? != Some(s.clone()) { return Err("own encapsulation does not decapsulate to the same secret".into()); }
            cc.refresh_usk(&mut m, &mut u, true).map_err(|e| e.to_string())?;
            if cc.decaps(&u, &e).map_err(|e| e.to_string())? != Some(s) { return Err("refresh lost access".into()); } }
    }
    Ok(())
}

fn main() {
    let a: Vec<String> = std::env::args().collect();
    match a.get(1).map(|s| s.as_str()) {
        Some("single") => {
            for (name, f) in ops() {
                let r = watchdog(10_000, move || { let cc = Covercrypt::default(); let mut w = world(&cc); f(&cc, &mut w) });
                match r { Ok(true) => println!("OK single {name}"), Ok(false) => println!("FAIL single {name}: wrong result"), Err(()) => println!("FAIL single {name}: did not return within 10 s (self-deadlock?)") }
            }
        }
        Some("blocks") => {
            for (name, f) in ops() {
                let cc = Arc::new(Covercrypt::default());
                let mut w = world(&cc);
                let (tx, rx) = mpsc::channel();
                let guard = cc.rng();
                let c2 = cc.clone();
                std::thread::spawn(move || { let r = f(&c2, &mut w); let _ = tx.send(r); });
                let early = rx.recv_timeout(Duration::from_millis(250));
                drop(guard);
                match early {
                    Ok(r) => println!("NOTBLOCKED {name} {}", if r { "ok" } else { "wrong-result" }),
                    Err(_) => match rx.recv_timeout(Duration::from_secs(10)) {
                        Ok(true) => println!("BLOCKED {name} ok"),
                        Ok(false) => println!("BLOCKED {name} wrong-result"),
                        Err(_) => println!("STUCK {name}"),
                    },
                }
            }
        }
        Some("stress") | Some("fresh") => {
            let stress = a[1] == "stress";
            let t: usize = if stress { a[2].parse().unwrap() } else { 1 };
            let n: usize = a[if stress { 3 } else { 2 }].parse().unwrap();
            let inst: usize = if stress { 1 } else { a.get(3).map(|x| x.parse().unwrap()).unwrap_or(1) };
            for _ in 0..inst {
                let cc = Arc::new(Covercrypt::default());
                let mut hs = vec![];
                for ti in 0..t {
                    let cc = cc.clone();
                    let (tx, rx) = mpsc::channel::<(Vec<String>, Vec<String>)>();
                    std::thread::spawn(move || {
                        // distinct key objects per thread, ONE shared scheme instance
                        let (msk, mpk) = setup(&cc);
                        let msk = Mutex::new(msk);
                        let mut out = vec![]; let mut errs = vec![];
                        // thread 0 also feeds degenerate but WELL-FORMED objects (as an attacker would through deserialize) to
                        // the shared instance: a panic inside a call would poison the generator lock for every other thread
                        let hostile: Vec<Vec<u8>> = if stress && ti == 0 {
                            let (_, e) = cc.encaps(&mpk, &ap("D::a")).unwrap(); let b = e.serialize().unwrap();
                            let head = 16 + 1 + 2 * PT;   // tag, trap count, two traps
                            vec![[&b[..head], &[0u8, 0u8][..]].concat(), [&b[..head], &[1u8, 0u8][..]].concat(), [&b[..16], &[0u8, 0u8, 0u8][..]].concat()]
                        } else { vec![] };
                        for k in 0..n {
                            if !hostile.is_empty() && k % 40 == 7 {
                                // a policy BUILT 120 levels deep whose innermost term is unknown: refused - and nothing of that refusal may
                                // linger for the calls that follow (of this thread or of the others)
                                { let mut p = ap("D::zz"); for _ in 0..120 { p = AccessPolicy::Disjunction(Box::new(ap("D::a")), Box::new(p)); }
                                  let r = std::panic::catch_unwind(std::panic::AssertUnwindSafe(|| cc.encaps(&mpk, &p).is_ok()));
                                  if r.is_err() { errs.push("a deeply nested policy made a call PANIC".to_string()); } }
                                for hb in &hostile {
                                    if let Ok(x) = cosmian_cover_crypt::XEnc::deserialize(hb) {
                                        let m = msk.lock().unwrap();
                                        let r = std::panic::catch_unwind(std::panic::AssertUnwindSafe(|| { let _ = x.tracing_level(); let _ = cc.recaps(&m, &mpk, &x); }));
                                        if r.is_err() { errs.push("a degenerate but well-formed encapsulation made a call PANIC while holding the generator lock".to_string()); }
                                        drop(m);
                                        let u = { let mut m = msk.lock().unwrap(); cc.generate_user_secret_key(&mut m, &ap("D::a")) };
                                        if let Ok(u) = u { let r = std::panic::catch_unwind(std::panic::AssertUnwindSafe(|| { let _ = cc.decaps(&u, &x); }));
                                            if r.is_err() { errs.push("decapsulation of a degenerate but well-formed encapsulation PANICKED while holding the generator lock".to_string()); } }
                                    }
                                    if let Ok(u0) = UserSecretKey::deserialize(&[0u8, 0u8, 0u8]) {
                                        let (_, e) = cc.encaps(&mpk, &ap("D::a")).unwrap();
                                        let r = std::panic::catch_unwind(std::panic::AssertUnwindSafe(|| { let _ = cc.decaps(&u0, &e); }));
                                        if r.is_err() { errs.push("decapsulation with an empty user key PANICKED while holding the generator lock".to_string()); }
                                    }
                                }
                            }
                            // cheap calls (encaps, PKE, header) dominate; key generation / rekey / recaps grow the master key and run every 20th call
                            let kk = if stress { k + ti } else if k % 20 == 19 { [3, 4, 6][(k / 20) % 3] } else { [0, 1, 2, 7][k % 4] };
                            // own master key per thread for the mutating calls (distinct key objects), shared instance
                            if let Err(e) = vals_of_call(&cc, &msk, &mpk, kk, &mut out) { errs.push(e); }
                        }
                        let _ = tx.send((out, errs));
                    });
                    hs.push(rx);
                }
                for (ti, rx) in hs.into_iter().enumerate() {
                    match rx.recv_timeout(Duration::from_secs(300 + (n as u64) / 4)) {
                        Ok((out, errs)) => { for l in out { println!("{l}"); } for e in errs { println!("FAIL call in thread {ti}: {e}"); } println!("OK thread {ti} finished {n} calls"); }
                        Err(_) => println!("FAIL thread {ti} did not finish within {} s (a call blocked forever?)", 300 + n / 4),
                    }
                }
            }
        }
        // ae N: the DEM interface itself (traits::AE for Aes256Gcm), N encryptions under ONE key of ONE plaintext (and N of
        // an empty one): the nonces must be pairwise distinct although key and plaintext repeat
        Some("ae") => {
            use cosmian_cover_crypt::traits::AE;
            let n: usize = a[2].parse().unwrap();
            let cc = Covercrypt::default();
            let key = SymmetricKey::<32>::try_from_bytes([7u8; 32]).unwrap();
            for pt in [&b"same plaintext"[..], &b""[..]] {
                for _ in 0..n {
                    match <Aes256Gcm as AE<32>>::encrypt(&mut *cc.rng(), &key, pt) {
                        Ok(c) => { println!("VAL nonce {}", hex(&c[..12]));
                            if <Aes256Gcm as AE<32>>::decrypt(&key, &c).map(|p| p.to_vec()).ok().as_deref() != Some(pt) { println!("FAIL AE round trip"); } }
                        Err(e) => println!("FAIL AE encrypt: {e}"),
                    }
                }
            }
            println!("OK thread 0 finished");
        }
        // recaps T N: ONE instance, ONE master key / public key / original encapsulation (after a rekey) shared by T threads
        // that re-encapsulate it N times each at the same moment: every result is a NEW secret and a NEW encapsulation
        // that the refreshed key of the audience opens to exactly that secret and the other key does not open
        Some("recaps") => {
            let t: usize = a[2].parse().unwrap(); let n: usize = a[3].parse().unwrap();
            let cc = Arc::new(Covercrypt::default());
            let mut w = world(&cc);
            cc.rekey(&mut w.msk, &ap("D::b")).unwrap();
            w.mpk = cc.update_msk(&mut w.msk).unwrap();
            cc.refresh_usk(&mut w.msk, &mut w.usk_b, true).unwrap();
            // a public key of ANOTHER master key (independent setup, same structure): the re-encapsulation is made under that
            // key - its owner's users open it to the new secret
            { let w2 = world(&cc);
              match cc.recaps(&w.msk, &w2.mpk, &w.enc_b) {
                  Ok((s, e)) => { if cc.decaps(&w2.usk_b, &e).ok().flatten() != Some(s) { println!("FAIL re-encapsulation under the public key of another master key is not opened by that master key's user"); }
                      if cc.decaps(&w2.usk, &e).ok().flatten().is_some() { println!("FAIL re-encapsulation under a foreign public key opened by a key outside the audience"); } }
                  Err(e) => println!("FAIL re-encapsulation under the public key of another master key (same structure) failed: {e}"),
              } }
            let w = Arc::new(w); let bar = Arc::new(std::sync::Barrier::new(t));
            let hs: Vec<_> = (0..t).map(|_| { let cc = cc.clone(); let w = w.clone(); let bar = bar.clone(); std::thread::spawn(move || {
                bar.wait();
                let mut out = vec![]; let mut errs = vec![];
                for _ in 0..n {
                    match cc.recaps(&w.msk, &w.mpk, &w.enc_b) {
                        Ok((s, e)) => { let b = e.serialize().unwrap();
                            out.push(format!("VAL secret {}", hex(&*s))); out.push(format!("VAL tag {}", hex(&b[..16]))); out.push(format!("VAL trap {}", hex(&b[17..17 + PT])));
                            if cc.decaps(&w.usk_b, &e).ok().flatten() != Some(s) { errs.push("the refreshed key of the audience does not open the re-encapsulation to its secret".to_string()); }
                            if cc.decaps(&w.usk, &e).ok().flatten().is_some() { errs.push("a key outside the audience opens the re-encapsulation".to_string()); } }
                        Err(e) => errs.push(format!("recaps failed: {e}")),
                    }
                }
                (out, errs) }) }).collect();
            for (ti, h) in hs.into_iter().enumerate() { match h.join() {
                Ok((out, errs)) => { for l in out { println!("{l}"); } for e in errs { println!("FAIL call in thread {ti}: {e}"); } println!("OK thread {ti} finished {n} calls"); }
                Err(_) => println!("FAIL thread {ti} panicked"), } }
        }
        // burst I T N [kind]: I instances, each CREATED inside its own thread and FIRST USED by T threads at once (barrier),
        // N calls per thread (all of the given kind, or the mixed cycle); the values of all instances are pooled: a
        // generator that is not independent per instance / per creating thread, or that is not ready at the first
        // concurrent use, shows as a repeated value
        Some("burst") => {
            let ni: usize = a[2].parse().unwrap(); let t: usize = a[3].parse().unwrap(); let n: usize = a[4].parse().unwrap();
            let kind: Option<usize> = a.get(5).map(|x| x.parse().unwrap());
            let hs: Vec<_> = (0..ni).map(|_| std::thread::spawn(move || {
                let cc = Arc::new(Covercrypt::default());          // created by this thread
                let bar = Arc::new(std::sync::Barrier::new(t));
                let ws: Vec<_> = (0..t).map(|_| { let cc = cc.clone(); let bar = bar.clone(); std::thread::spawn(move || {
                    bar.wait();
                    let mut out = vec![]; let mut errs = vec![];
                    // the very first call of this thread on the instance is an encapsulation-free setup; its public values count
                    let (msk, mpk) = setup(&cc);
                    out.push(format!("VAL setup {}", hex(&mpk.serialize().unwrap()[1..1 + PT])));
                    let msk = Mutex::new(msk);
                    for k in 0..n { if let Err(e) = vals_of_call(&cc, &msk, &mpk, kind.unwrap_or([0, 1, 2, 6, 3, 4, 7][k % 7]), &mut out) { errs.push(e); } }
                    (out, errs) }) }).collect();
                ws.into_iter().map(|w| w.join()).collect::<Vec<_>>()
            })).collect();
            for (ii, h) in hs.into_iter().enumerate() {
                match h.join() {
                    Ok(rs) => for (ti, r) in rs.into_iter().enumerate() { match r {
                        Ok((out, errs)) => { for l in out { println!("{l}"); } for e in errs { println!("FAIL call in instance {ii} thread {ti}: {e}"); } println!("OK thread {ii}.{ti} finished"); }
                        Err(_) => println!("FAIL instance {ii} thread {ti} panicked"), } },
                    Err(_) => println!("FAIL instance {ii} panicked"),
                }
            }
        }
        // volume T N: T threads (eight instances shared among them, one public key), N broadcast-free encapsulations each; the
        // secrets, tags and first traps of ALL calls are compared here (hundreds of thousands of values: a generator whose
        // state or seed is narrower than it looks repeats itself only at volume)
        Some("volume") => {
            let t: usize = a[2].parse().unwrap(); let n: usize = a[3].parse().unwrap();
            let c0 = Covercrypt::default(); let (_msk, mpk) = setup(&c0); let mpk = Arc::new(mpk);
            let insts: Vec<Arc<Covercrypt>> = (0..8).map(|_| Arc::new(Covercrypt::default())).collect();
            let hs: Vec<_> = (0..t).map(|i| { let cc = insts[i % 8].clone(); let mpk = mpk.clone(); std::thread::spawn(move || {
                let mut v: Vec<(Vec<u8>, Vec<u8>, Vec<u8>)> = Vec::with_capacity(n); let pol = ap("D::a");
                for _ in 0..n { match cc.encaps(&mpk, &pol) { Ok((s, e)) => { let b = e.serialize().unwrap(); v.push((s.to_vec(), b[..16].to_vec(), b[17..17 + PT].to_vec())); } Err(_) => break } }
                v }) }).collect();
            let mut sec = std::collections::HashMap::new(); let mut tag = std::collections::HashMap::new(); let mut trap = std::collections::HashMap::new();
            let mut total = 0usize; let mut dups = 0usize;
            for (ti, h) in hs.into_iter().enumerate() { match h.join() {
                Ok(v) => { if v.len() != n { println!("FAIL volume thread {ti}: only {} of {n} encapsulations succeeded", v.len()); }
                    for (ci, (s, g, p)) in v.into_iter().enumerate() { total += 1;
                        for (kind, m, x) in [("secret", &mut sec, s), ("tag", &mut tag, g), ("trap", &mut trap, p)] {
                            if let Some((t0, c0)) = m.insert(x.clone(), (ti, ci)) { dups += 1; if dups <= 5 { println!("DUPV {kind} {} calls {t0}.{c0} and {ti}.{ci}", hex(&x)); } } } } }
                Err(_) => println!("FAIL volume thread {ti} panicked") } }
            println!("VOLUME {total} {} {} {}", sec.len(), tag.len(), trap.len());
        }
        // poison N: a thread PANICS while it holds the generator's guard (obtained through the public accessor). Afterwards the
        // instance may refuse to work (the unchanged crate panics on the poisoned lock), but whatever it still hands out must be
        // fresh: N rounds of every kind of call, refused / panicking calls are counted, the values produced are compared
        Some("poison") => {
            std::panic::set_hook(Box::new(|_| {}));
            let n: usize = a[2].parse().unwrap();
            for inst in 0..2 {
                let cc = Arc::new(Covercrypt::default());
                let (msk0, mpk) = setup(&cc);
                let c2 = cc.clone();
                let _ = std::thread::spawn(move || { let _g = c2.rng(); panic!("worker dies while holding the generator") }).join();
                let msk = Mutex::new(msk0); let mut refused = 0usize; let mut produced = 0usize;
                for _ in 0..n { for kind in [0usize, 1, 2, 3, 4] {
                    let r = std::panic::catch_unwind(std::panic::AssertUnwindSafe(|| { let mut o = vec![]; let r = vals_of_call(&cc, &msk, &mpk, kind, &mut o); (o, r) }));
                    match r { Ok((o, Ok(()))) => { produced += 1; for l in o { println!("{l}"); } } _ => refused += 1 } } }
                println!("OK thread {inst}.0 finished (poisoned instance: {produced} calls produced values, {refused} refused)");
            }
        }
        _ => println!("usage"),
    }
}
