use cosmian_cover_crypt::{api::Covercrypt, traits::KemAc, AccessPolicy, EncryptionHint, QualifiedAttribute, MasterSecretKey, MasterPublicKey, UserSecretKey, XEnc};
use cosmian_crypto_core::{bytes_ser_de::Serializable, Secret};
use std::io::{BufRead, Write};
fn hex(b:&[u8])->String{ b.iter().map(|x| format!("{:02x}",x)).collect() }
fn unhex(s:&str)->Vec<u8>{ (0..s.len()/2).map(|i| u8::from_str_radix(&s[2*i..2*i+2],16).unwrap()).collect() }
fn tok(t:&str)->String{ String::from_utf8(unhex(&t[1..])).unwrap() }
fn leb(b:&[u8],p:&mut usize)->usize{ let mut r=0u64; let mut s=0; loop { let x=b[*p]; *p+=1; r|=((x&0x7f) as u64)<<s; if x&0x80==0 {return r as usize} s+=7; } }
const SK:usize=32; const PT:usize=32; const DK:usize=1632; const EK:usize=800; const CT:usize=768;
fn right(b:&[u8],p:&mut usize)->String{ let l=leb(b,p); let r=format!("r{}",hex(&b[*p..*p+l])); *p+=l; r }
fn rsk(b:&[u8],p:&mut usize)->String{ let h=b[*p]; *p+=1; let s=format!("{}/s{}",h,hex(&b[*p..*p+8])); *p+=SK; if h==1 {*p+=DK;} s }
fn logx(kind:&str,b:&[u8]){ use std::io::Write; if let Ok(p)=std::env::var("KHEX"){ let mut f=std::fs::OpenOptions::new().create(true).append(true).open(p).unwrap(); writeln!(f,"{} {}",kind,hex(b)).unwrap(); } }
fn dump_msk(m:&MasterSecretKey)->String{
    let b=m.serialize().unwrap(); logx("MSK",&b); assert_eq!(b.len(), m.length()); let mut p=SK; let nt=leb(&b,&mut p); p+=nt*(SK+PT); let nu=leb(&b,&mut p);
    for _ in 0..nu { let n=leb(&b,&mut p); p+=n*SK; }
    let nr=leb(&b,&mut p); let mut items=vec![];
    for _ in 0..nr { let r=right(&b,&mut p); let nk=leb(&b,&mut p); let mut ks=vec![]; for _ in 0..nk { let f=b[p]; p+=1; ks.push(format!("{}/{}",f,rsk(&b,&mut p))); } items.push(format!("{}=[{}]",r,ks.join(";"))); }
    items.sort(); format!("MSK u={} {}",nu,items.join(" "))
}
fn dump_mpk(m:&MasterPublicKey)->String{
    let b=m.serialize().unwrap(); logx("MPK",&b); assert_eq!(b.len(), m.length()); let mut p=0; let nt=leb(&b,&mut p); p+=nt*PT; let nr=leb(&b,&mut p); let mut items=vec![];
    for _ in 0..nr { let r=right(&b,&mut p); let h=b[p]; p+=1; let t=hex(&b[p..p+8]); p+=PT; if h==1 {p+=EK;} items.push(format!("{}={}/p{}",r,h,t)); }
    items.sort(); format!("MPK {}",items.join(" "))
}
fn dump_usk(u:&UserSecretKey)->String{
    let b=u.serialize().unwrap(); logx("USK",&b); assert_eq!(b.len(), u.length()); let mut p=0; let n=leb(&b,&mut p); let id= if n==0 {"none".to_string()} else {format!("i{}",hex(&b[p..p+8]))}; p+=n*SK; let np=leb(&b,&mut p); p+=np*PT;
    let nc=leb(&b,&mut p); let mut items=vec![];
    for _ in 0..nc { let r=right(&b,&mut p); let nk=leb(&b,&mut p); let mut ks=vec![]; for _ in 0..nk { ks.push(rsk(&b,&mut p)); } items.push((r.clone(),format!("{}=[{}]",r,ks.join(";")))); }
    items.sort_by(|a,b| a.0.cmp(&b.0)); format!("USK id={} {}",id,items.into_iter().map(|x|x.1).collect::<Vec<_>>().join(" "))
}
fn dump_enc(e:&XEnc)->String{
    let b=e.serialize().unwrap(); logx("ENC",&b); assert_eq!(b.len(), e.length()); let mut p=16; let n=leb(&b,&mut p); p+=n*PT; let h=b[p]; p+=1; let m=leb(&b,&mut p); let _=CT; format!("ENC {} {}",h,m)
}
fn main(){
    std::panic::set_hook(Box::new(|_|{}));
    let stdin=std::io::stdin(); let out=std::io::stdout(); let mut out=std::io::BufWriter::new(out.lock());
    let cc=Covercrypt::default();
    let (m0,_)=cc.setup().unwrap(); let mut msk=m0;
    let mut mpks:Vec<MasterPublicKey>=vec![]; let mut usks:Vec<UserSecretKey>=vec![]; let mut encs:Vec<(Secret<32>,XEnc)>=vec![];
    for line in stdin.lock().lines(){
        let line=line.unwrap(); let f:Vec<&str>=line.split(' ').collect();
        macro_rules! res { ($e:expr) => { match $e { Ok(_)=>writeln!(out,"OK").unwrap(), Err(_)=>writeln!(out,"ERR").unwrap() } } }
        macro_rules! pol { ($s:expr, $onerr:expr) => { match std::panic::catch_unwind(|| AccessPolicy::parse(&tok($s))) { Ok(Ok(p))=>p, _=>{ writeln!(out,"{}",$onerr).unwrap(); continue; } } } }
        macro_rules! newmpk { ($r:expr) => { match $r { Ok(p)=>{ writeln!(out,"OK {} | {}",dump_mpk(&p),dump_msk(&msk)).unwrap(); mpks.push(p); } Err(_)=>writeln!(out,"ERR {}",dump_msk(&msk)).unwrap() } } }
        let st=&mut msk.access_structure;
        match f[0] {
            "SETUP"=>{ let (m,p)=cc.setup().unwrap(); msk=m; mpks.clear(); usks.clear(); encs.clear(); writeln!(out,"OK {} | {}",dump_mpk(&p),dump_msk(&msk)).unwrap(); mpks.push(p); }
            "AA"=>res!(st.add_anarchy(tok(f[1]))),
            "AH"=>res!(st.add_hierarchy(tok(f[1]))),
            "DD"=>res!(st.del_dimension(&tok(f[1]))),
            "AT"=>{ let after= if f[4]=="-" {None} else {Some(tok(f[4]))}; res!(st.add_attribute(QualifiedAttribute::new(&tok(f[1]),&tok(f[2])), EncryptionHint::new(f[3]=="1"), after.as_deref())) }
            "DT"=>res!(st.del_attribute(&QualifiedAttribute::new(&tok(f[1]),&tok(f[2])))),
            "RN"=>res!(st.rename_attribute(&QualifiedAttribute::new(&tok(f[1]),&tok(f[2])), tok(f[3]))),
            "DS"=>res!(st.disable_attribute(&QualifiedAttribute::new(&tok(f[1]),&tok(f[2])))),
            "UPD"=>{ let r=cc.update_msk(&mut msk); newmpk!(r) }
            "MPK"=>{ let r=msk.mpk(); newmpk!(r) }
            "RK"=>{ let p=pol!(f[1], format!("ERR {}",dump_msk(&msk))); let r=cc.rekey(&mut msk,&p); newmpk!(r) }
            "PR"=>{ let p=pol!(f[1], format!("ERR {}",dump_msk(&msk))); let r=cc.prune_master_secret_key(&mut msk,&p); newmpk!(r) }
            "KG"=>{ let p=pol!(f[1], format!("ERR {}",dump_msk(&msk))); match cc.generate_user_secret_key(&mut msk,&p) { Ok(u)=>{ writeln!(out,"OK {} | {}",dump_usk(&u),dump_msk(&msk)).unwrap(); usks.push(u);} Err(_)=>writeln!(out,"ERR {}",dump_msk(&msk)).unwrap() } }
            "RF"=>{ let k:usize=f[1].parse().unwrap(); if k>=usks.len(){ writeln!(out,"NOIDX").unwrap(); continue; } let r=cc.refresh_usk(&mut msk,&mut usks[k],f[2]=="1"); writeln!(out,"{} {} | {}", if r.is_ok(){"OK"}else{"ERR"}, dump_usk(&usks[k]), dump_msk(&msk)).unwrap(); }
            "EN"=>{ let j:usize=f[1].parse().unwrap(); if j>=mpks.len(){ writeln!(out,"NOIDX").unwrap(); continue; } let p=pol!(f[2],"ERR"); match cc.encaps(&mpks[j],&p) { Ok((s,e))=>{ writeln!(out,"OK {}",dump_enc(&e)).unwrap(); encs.push((s,e)); } Err(_)=>writeln!(out,"ERR").unwrap() } }
            "DE"=>{ let k:usize=f[1].parse().unwrap(); let e:usize=f[2].parse().unwrap(); if k>=usks.len()||e>=encs.len(){ writeln!(out,"NOIDX").unwrap(); continue; }
                    if usks[k].count()==0 { writeln!(out,"DEAD").unwrap(); continue; }
                    match cc.decaps(&usks[k],&encs[e].1) { Ok(Some(s))=> if s==encs[e].0 {writeln!(out,"SOME").unwrap()} else {writeln!(out,"WRONG").unwrap()}, Ok(None)=>writeln!(out,"NONE").unwrap(), Err(_)=>writeln!(out,"DERR").unwrap() } }
            "RC"=>{ let j:usize=f[1].parse().unwrap(); let e:usize=f[2].parse().unwrap(); if j>=mpks.len()||e>=encs.len(){ writeln!(out,"NOIDX").unwrap(); continue; }
                    match cc.recaps(&msk,&mpks[j],&encs[e].1) { Ok((s,x))=>{ writeln!(out,"OK {}",dump_enc(&x)).unwrap(); encs.push((s,x)); } Err(_)=>writeln!(out,"ERR").unwrap() } }
            _=>writeln!(out,"??").unwrap(),
        }
    }
}
