// History driver: executes operation scripts on the real public API of cosmian_cover_crypt and prints,
// after every operation, the observation and canonical dumps of the objects involved, obtained by
// parsing `serialize()` (the only knowledge of the wire format on this side; cross-checked against the
// Coq Wire model by the C13 check).
use cosmian_cover_crypt::{
    api::Covercrypt, traits::KemAc, AccessPolicy, EncryptionHint, MasterPublicKey, MasterSecretKey,
    QualifiedAttribute, UserSecretKey, XEnc,
};
use cosmian_crypto_core::{bytes_ser_de::Serializable, Secret};
use std::io::{BufRead, Write};

#[path = "../common.rs"]
mod common;
use common::*;

/// dump of a user key that the current master key did NOT just issue or refresh (refused refresh, possibly after a
/// restore of an older master key): shown in the trace, not logged for the tracing-relation check against that master key
fn quiet_usk(u: &UserSecretKey) -> String {
    NOLOG.store(true, std::sync::atomic::Ordering::Relaxed); let d = dump_usk(u); NOLOG.store(false, std::sync::atomic::Ordering::Relaxed); d
}

fn show<T: std::ops::Deref<Target = [u8]>, E>(r: Result<std::collections::HashSet<T>, E>) -> String {
    match r { Ok(set) => { let mut v: Vec<String> = set.iter().map(|r| format!("r{}", hex(&r[..]))).collect(); v.sort(); format!("ok:{}", v.join(",")) } Err(_) => "err".to_string() }
}

fn main() {
    std::panic::set_hook(Box::new(|_| {}));
    let stdin = std::io::stdin();
    let out = std::io::stdout();
    let mut out = std::io::BufWriter::new(out.lock());
    let cc = Covercrypt::default();
    let (m0, _) = cc.setup().unwrap();
    let mut msk = m0;
    let mut mpks: Vec<MasterPublicKey> = vec![];
    let mut usks: Vec<UserSecretKey> = vec![];
    let mut encs: Vec<(Secret<32>, XEnc)> = vec![];
    let mut snaps: Vec<Vec<u8>> = vec![];
    let lines: Vec<String> = stdin.lock().lines().map(|l| l.unwrap()).collect();
    for line in lines {
        // a panic inside the library must not take the driver down: it is an observation ("PANIC")
        let r = std::panic::catch_unwind(std::panic::AssertUnwindSafe(|| {

        let f: Vec<&str> = line.split(' ').collect();
        macro_rules! pol {
            ($s:expr) => {
                match std::panic::catch_unwind(|| { let t = tok($s); if t.starts_with('@') { ast_policy(&t).ok_or_else(|| cosmian_cover_crypt::Error::InvalidBooleanExpression("bad built policy".into())) } else { AccessPolicy::parse(&t) } }) {
                    Ok(Ok(p)) => Some(p),
                    Ok(Err(_)) => None,
                    Err(_) => { writeln!(out, "PANIC|{}", dump_msk(&msk)).unwrap(); return; }
                }
            };
        }
        macro_rules! edit {
            ($e:expr) => {{
                let r = $e;
                writeln!(out, "{}|{}", if r.is_ok() { "OK" } else { "ERR" }, dump_msk(&msk)).unwrap();
            }};
        }
        macro_rules! newmpk {
            ($r:expr) => {
                match $r {
                    Ok(p) => { writeln!(out, "OK|{}|{}", dump_msk(&msk), dump_mpk(&p)).unwrap(); mpks.push(p); }
                    Err(_) => writeln!(out, "ERR|{}", dump_msk(&msk)).unwrap(),
                }
            };
        }
        match f[0] {
            "SETUP" => {
                let (m, p) = cc.setup().unwrap();
                msk = m; mpks.clear(); usks.clear(); encs.clear(); snaps.clear();
                writeln!(out, "OK|{}|{}", dump_msk(&msk), dump_mpk(&p)).unwrap();
                mpks.push(p);
            }
            "AA" => edit!(msk.access_structure.add_anarchy(tok(f[1]))),
            "AH" => edit!(msk.access_structure.add_hierarchy(tok(f[1]))),
            "DD" => edit!(msk.access_structure.del_dimension(&tok(f[1]))),
            "AT" => {
                let after = if f[4] == "-" { None } else { Some(tok(f[4])) };
                edit!(msk.access_structure.add_attribute(QualifiedAttribute::new(&tok(f[1]), &tok(f[2])), EncryptionHint::new(f[3] == "1"), after.as_deref()))
            }
            "DT" => edit!(msk.access_structure.del_attribute(&QualifiedAttribute::new(&tok(f[1]), &tok(f[2])))),
            "RN" => edit!(msk.access_structure.rename_attribute(&QualifiedAttribute::new(&tok(f[1]), &tok(f[2])), tok(f[3]))),
            "DS" => edit!(msk.access_structure.disable_attribute(&QualifiedAttribute::new(&tok(f[1]), &tok(f[2])))),
            "UPD" => { let r = cc.update_msk(&mut msk); newmpk!(r) }
            "MPK" => { let r = msk.mpk(); newmpk!(r) }
            "RK" => match pol!(f[1]) { Some(p) => { let r = cc.rekey(&mut msk, &p); newmpk!(r) } None => writeln!(out, "ERR|{}", dump_msk(&msk)).unwrap() },
            "PR" => match pol!(f[1]) { Some(p) => { let r = cc.prune_master_secret_key(&mut msk, &p); newmpk!(r) } None => writeln!(out, "ERR|{}", dump_msk(&msk)).unwrap() },
            "KG" => match pol!(f[1]) {
                Some(p) => match cc.generate_user_secret_key(&mut msk, &p) {
                    Ok(u) => { writeln!(out, "OK|{}|{}", dump_msk(&msk), dump_usk(&u)).unwrap(); usks.push(u); }
                    Err(_) => writeln!(out, "ERR|{}", dump_msk(&msk)).unwrap(),
                },
                None => writeln!(out, "ERR|{}", dump_msk(&msk)).unwrap(),
            },
            "RF" => {
                let k: usize = f[1].parse().unwrap(); let k = if usks.is_empty() { usize::MAX } else { k % usks.len() };
                if k >= usks.len() { writeln!(out, "NOIDX|{}", dump_msk(&msk)).unwrap(); return; }
                let before = usks[k].serialize().unwrap().to_vec();
                let r = cc.refresh_usk(&mut msk, &mut usks[k], f[2] == "1");
                // a refused refresh must leave the key byte for byte as it was (the dump does not show every field)
                let obs = if r.is_ok() { "OK" } else if usks[k].serialize().unwrap().to_vec() != before { "ERRMOD" } else { "ERR" };
                writeln!(out, "{}|{}|{}", obs, dump_msk(&msk), if r.is_ok() { dump_usk(&usks[k]) } else { quiet_usk(&usks[k]) }).unwrap();
            }
            "EN" => {
                let j: usize = f[1].parse().unwrap(); let j = if mpks.is_empty() { usize::MAX } else { j % mpks.len() };
                if j >= mpks.len() { writeln!(out, "NOIDX|{}", dump_msk(&msk)).unwrap(); return; }
                match pol!(f[2]) {
                    Some(p) => match cc.encaps(&mpks[j], &p) {
                        Ok((s, e)) => { writeln!(out, "OK|{}|{} ss=k{}", dump_msk(&msk), dump_enc(&e), hex(&s[..8])).unwrap(); encs.push((s, e)); }
                        Err(_) => writeln!(out, "ERR|{}", dump_msk(&msk)).unwrap(),
                    },
                    None => writeln!(out, "ERR|{}", dump_msk(&msk)).unwrap(),
                }
            }
            "DE" => {
                let k: usize = f[1].parse().unwrap(); let k = if usks.is_empty() { usize::MAX } else { k % usks.len() };
                let e: usize = f[2].parse().unwrap(); let e = if encs.is_empty() { usize::MAX } else { e % encs.len() };
                if k >= usks.len() || e >= encs.len() { writeln!(out, "NOIDX|{}", dump_msk(&msk)).unwrap(); return; }
                if usks[k].count() == 0 { writeln!(out, "DEAD|{}", dump_msk(&msk)).unwrap(); return; }
                let o = match cc.decaps(&usks[k], &encs[e].1) {
                    Ok(Some(s)) => if s == encs[e].0 { "SOME" } else { "WRONG" },
                    Ok(None) => "NONE",
                    Err(_) => "DERR",
                };
                writeln!(out, "{}|{}", o, dump_msk(&msk)).unwrap();
            }
            "RC" => {
                let j: usize = f[1].parse().unwrap(); let j = if mpks.is_empty() { usize::MAX } else { j % mpks.len() };
                let e: usize = f[2].parse().unwrap(); let e = if encs.is_empty() { usize::MAX } else { e % encs.len() };
                if j >= mpks.len() || e >= encs.len() { writeln!(out, "NOIDX|{}", dump_msk(&msk)).unwrap(); return; }
                match cc.recaps(&msk, &mpks[j], &encs[e].1) {
                    Ok((s, x)) => { writeln!(out, "OK|{}|{} ss=k{}", dump_msk(&msk), dump_enc(&x), hex(&s[..8])).unwrap(); encs.push((s, x)); }
                    Err(_) => writeln!(out, "ERR|{}", dump_msk(&msk)).unwrap(),
                }
            }
            // function level: the two policy -> rights maps of the access structure, as sorted sets of right byte strings
            "AP" => {
                match pol!(f[1]) {
                    Some(p) => writeln!(out, "AP usk={} enc={}|{}", show(msk.access_structure.ap_to_usk_rights(&p)), show(msk.access_structure.ap_to_enc_rights(&p)), dump_msk(&msk)).unwrap(),
                    None => writeln!(out, "AP usk=err enc=err|{}", dump_msk(&msk)).unwrap(),
                }
            }
            // refresh of a DAMAGED COPY of an issued key (one bit of its signature flipped): must be refused, nothing may change
            "RFBAD" => {
                if usks.is_empty() { writeln!(out, "NOIDX|{}", dump_msk(&msk)).unwrap(); return; }
                let k: usize = f[1].parse::<usize>().unwrap() % usks.len();
                let mut b = usks[k].serialize().unwrap().to_vec(); let n = b.len();
                // damage mode: 0 = one signature bit flipped, 1 = signature stripped, 2 = one bit of the identifier flipped,
                // 3 = one bit of a secret flipped, 4 = signature zeroed
                match f.get(3).copied().unwrap_or("0") {
                    "1" => { b.truncate(n - 32); }
                    "2" => { b[1] ^= 1; }
                    "3" => { b[n - 40] ^= 1; }
                    "4" => { for x in &mut b[n - 32..] { *x = 0; } }
                    // 5 = the NAME of a right altered (first right with a non-empty name): its secrets now stand under another right
                    "5" => { let mut r = Rd::new(&b); let nm = r.leb(); r.take(nm * SK); let np = r.leb(); r.take(np * PT); let nc = r.leb(); let mut pos = None;
                        for _ in 0..nc { let l = r.leb(); if l > 0 && pos.is_none() { pos = Some(r.p); } r.take(l); let nk = r.leb(); for _ in 0..nk { let h = r.leb(); r.take(SK); if h == 1 { r.take(DK); } } }
                        match pos { Some(p) => b[p] ^= 1, None => b[n - 1] ^= 1 } }
                    _ => { b[n - 1] ^= 1; }
                }
                match UserSecretKey::deserialize(&b) {
                    Ok(mut bad) => { let r = cc.refresh_usk(&mut msk, &mut bad, f[2] == "1");
                        writeln!(out, "{}|{}|{}", if r.is_ok() { "OK" } else { "ERR" }, dump_msk(&msk), quiet_usk(&usks[k])).unwrap(); }
                    Err(_) => writeln!(out, "ERR|{}|{}", dump_msk(&msk), quiet_usk(&usks[k])).unwrap(),
                }
            }
            // the hint of an existing attribute changed IN PLACE (the structure is a public field of the master key: an
            // application may replace it by a rebuilt one; done here by patching the hint byte of the serialized structure).
            // The next update must drop the ML-KEM part of the rights that became classic - or fail and change nothing.
            "HINT" => {
                let (d, n) = (tok(f[1]), tok(f[2])); let h: u8 = f[3].parse().unwrap();
                let b = msk.access_structure.serialize().unwrap().to_vec();
                let mut r = Rd::new(&b); let _v = r.leb(); let nd = r.leb(); let mut pos = None;
                for _ in 0..nd {
                    let dn = r.vec().to_vec(); let _ord = r.leb(); let na = r.leb();
                    for _ in 0..na { let an = r.vec().to_vec(); let _id = r.leb(); if dn == d.as_bytes() && an == n.as_bytes() { pos = Some(r.p); } let _h = r.leb(); let _s = r.leb(); }
                }
                match pos {
                    Some(p) => { let mut b2 = b.clone(); b2[p] = h; msk.access_structure = cosmian_cover_crypt::AccessStructure::deserialize(&b2).unwrap(); writeln!(out, "OK|{}", dump_msk(&msk)).unwrap(); }
                    None => writeln!(out, "ERR|{}", dump_msk(&msk)).unwrap(),
                }
            }
            // refresh of an issued key by ANOTHER master key (independent setup, same structure): refused, and neither the key
            // nor the current master key may change (the key still opens what it opened)
            "RFX" => {
                if usks.is_empty() { writeln!(out, "NOIDX|{}", dump_msk(&msk)).unwrap(); return; }
                let k: usize = f[1].parse::<usize>().unwrap() % usks.len();
                let (mut other, _) = cc.setup().unwrap();
                other.access_structure = msk.access_structure.clone();
                let _ = cc.update_msk(&mut other);
                let before = usks[k].serialize().unwrap().to_vec();
                let r = cc.refresh_usk(&mut other, &mut usks[k], f[2] == "1");
                let obs = if r.is_ok() { "OK" } else if usks[k].serialize().unwrap().to_vec() != before { "ERRMOD" } else { "ERR" };
                writeln!(out, "{}|{}|{}", obs, dump_msk(&msk), quiet_usk(&usks[k])).unwrap();
            }
            // backup / restore of the master key (an old serialized copy replaces the current one)
            "SNAP" => { snaps.push(msk.serialize().unwrap().to_vec()); writeln!(out, "OK|{}", dump_msk(&msk)).unwrap(); }
            "REST" => {
                if snaps.is_empty() { writeln!(out, "NOIDX|{}", dump_msk(&msk)).unwrap(); return; }
                let k: usize = f[1].parse::<usize>().unwrap() % snaps.len();
                msk = MasterSecretKey::deserialize(&snaps[k]).unwrap();
                writeln!(out, "OK|{}", dump_msk(&msk)).unwrap();
            }
            // serialization round trips: the deserialized object REPLACES the original for the rest of the history
            "RT" => {
                let mut ok = true;
                match f[1] {
                    "MSK" => { let b = msk.serialize().unwrap(); ok &= b.len() == msk.length();
                        match MasterSecretKey::deserialize(&b) { Ok(m2) => { ok &= m2 == msk; msk = m2; } Err(_) => ok = false } }
                    "MPK" => { let j: usize = f[2].parse().unwrap(); let j = if mpks.is_empty() { usize::MAX } else { j % mpks.len() }; if j >= mpks.len() { writeln!(out, "NOIDX|{}", dump_msk(&msk)).unwrap(); return; }
                        let b = mpks[j].serialize().unwrap(); ok &= b.len() == mpks[j].length();
                        match MasterPublicKey::deserialize(&b) { Ok(p2) => { ok &= p2 == mpks[j]; mpks[j] = p2; } Err(_) => ok = false } }
                    "USK" => { let k: usize = f[2].parse().unwrap(); let k = if usks.is_empty() { usize::MAX } else { k % usks.len() }; if k >= usks.len() { writeln!(out, "NOIDX|{}", dump_msk(&msk)).unwrap(); return; }
                        let b = usks[k].serialize().unwrap(); ok &= b.len() == usks[k].length();
                        match UserSecretKey::deserialize(&b) { Ok(u2) => { ok &= u2 == usks[k]; usks[k] = u2; } Err(_) => ok = false } }
                    "ENC" => { let e: usize = f[2].parse().unwrap(); let e = if encs.is_empty() { usize::MAX } else { e % encs.len() }; if e >= encs.len() { writeln!(out, "NOIDX|{}", dump_msk(&msk)).unwrap(); return; }
                        let b = encs[e].1.serialize().unwrap(); ok &= b.len() == encs[e].1.length();
                        match XEnc::deserialize(&b) { Ok(x2) => { ok &= x2 == encs[e].1; encs[e].1 = x2; } Err(_) => ok = false } }
                    _ => ok = false,
                }
                writeln!(out, "{}|{}", if ok { "OK" } else { "RTFAIL" }, dump_msk(&msk)).unwrap();
            }
            _ => writeln!(out, "??").unwrap(),
        }
            }));
        if r.is_err() { writeln!(out, "PANIC|-").unwrap(); }
        // one answer per operation reaches the pipe at once: if a later call never returns, the answers given so far survive
        { use std::io::Write; let _ = out.flush(); }
    }
}
