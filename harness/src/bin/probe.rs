use cosmian_cover_crypt::{api::Covercrypt, traits::KemAc, AccessPolicy, EncryptionHint, QualifiedAttribute, UserSecretKey, XEnc, MasterSecretKey};
use cosmian_crypto_core::bytes_ser_de::Serializable;
fn hex(b:&[u8])->String{ b.iter().map(|x| format!("{:02x}",x)).collect() }
fn unhex(s:&str)->Vec<u8>{ (0..s.len()/2).map(|i| u8::from_str_radix(&s[2*i..2*i+2],16).unwrap()).collect() }
fn qa(d:&str,n:&str)->QualifiedAttribute{QualifiedAttribute::new(d,n)}
fn ap(s:&str)->AccessPolicy{AccessPolicy::parse(s).unwrap()}
fn main(){
    let args:Vec<String>=std::env::args().collect();
    let cc=Covercrypt::default();
    if args[1]=="gen" {
        let (mut msk,_)=cc.setup().unwrap();
        msk.access_structure.add_hierarchy("S".into()).unwrap();
        msk.access_structure.add_attribute(qa("S","l"),EncryptionHint::Classic,None).unwrap();
        msk.access_structure.add_attribute(qa("S","h"),EncryptionHint::Hybridized,Some("l")).unwrap();
        msk.access_structure.add_anarchy("D".into()).unwrap();
        msk.access_structure.add_attribute(qa("D","a"),EncryptionHint::Classic,None).unwrap();
        let mpk=cc.update_msk(&mut msk).unwrap();
        let usk=cc.generate_user_secret_key(&mut msk,&ap("S::h && D::a")).unwrap();
        let (s,e)=cc.encaps(&mpk,&ap("S::l")).unwrap();
        println!("{}\n{}\n{}\n{}\n{}",hex(&msk.serialize().unwrap()),hex(&mpk.serialize().unwrap()),hex(&usk.serialize().unwrap()),hex(&e.serialize().unwrap()),hex(&s[..]));
    } else {
        let mut lines=vec![]; for l in std::io::stdin().lines(){ lines.push(l.unwrap()); }
        let mut msk=MasterSecretKey::deserialize(&unhex(&lines[0])).unwrap();
        let mut usk=UserSecretKey::deserialize(&unhex(&lines[2])).unwrap();
        let enc=XEnc::deserialize(&unhex(&lines[3])).unwrap();
        let s=cc.decaps(&usk,&enc).unwrap().unwrap();
        println!("golden: pinned objects deserialize, decaps gives recorded secret: {}", hex(&s[..])==lines[4]);
        cc.refresh_usk(&mut msk,&mut usk,true).unwrap();
        msk.access_structure.del_attribute(&qa("S","l")).unwrap();
        msk.access_structure.add_attribute(qa("S","n"),EncryptionHint::Classic,None).unwrap();
        let mpk=cc.update_msk(&mut msk).unwrap();
        let (_s2,e2)=cc.encaps(&mpk,&ap("S::n")).unwrap();
        println!("golden: usk(S::h&&D::a) opens new S::n (lowest, below h): {:?}", cc.decaps(&usk,&e2).unwrap().is_some());
        println!("golden: rights S::n={:?} D::a={:?}", msk.access_structure.ap_to_enc_rights(&ap("S::n")).unwrap(), msk.access_structure.ap_to_enc_rights(&ap("D::a")).unwrap());
        // C14 probes
        let eb=unhex(&lines[3]); let mut m=eb[..16].to_vec(); m.extend([0xff,0xff,0xff,0xff,0xff,0xff,0xff,0xff,0xff,0x01]); m.extend(&eb[17..]);
        println!("C14 huge n_traps: {:?}", std::panic::catch_unwind(|| XEnc::deserialize(&m).is_err()));
        let mb=unhex(&lines[0]); let mut m=mb[..163].to_vec(); m.extend([0xff,0xff,0xff,0xff,0xff,0xff,0xff,0x3f]); m.extend(&mb[164..]);
        println!("C14 huge right length: {:?}", std::panic::catch_unwind(|| MasterSecretKey::deserialize(&m).is_err()));
        let mut z=eb[..16].to_vec(); z.push(0); z.extend(&eb[16+1+64..]);
        println!("C14 zero traps tracing_level: {:?}", std::panic::catch_unwind(|| XEnc::deserialize(&z).map(|e| e.tracing_level()).ok()));
        let ub=unhex(&lines[2]); let mut u0=ub[..130].to_vec(); u0.push(0); u0.extend(&ub[ub.len()-32..]);
        let t=std::time::Instant::now();
        let r=UserSecretKey::deserialize(&u0).map(|u| cc.decaps(&u,&enc).map(|o| o.is_some()));
        println!("C14 zero-chain usk decaps: {:?} in {:?}", r.map(|x| x.ok()).ok(), t.elapsed());
    }
}
