use cosmian_cover_crypt::{AccessPolicy, AccessStructure, EncryptionHint, QualifiedAttribute};
use cosmian_crypto_core::bytes_ser_de::Serializable;
use std::io::{BufRead, Write};
fn hex(b:&[u8])->String{ b.iter().map(|x| format!("{:02x}",x)).collect() }
fn unhex(s:&str)->Vec<u8>{ (0..s.len()/2).map(|i| u8::from_str_radix(&s[2*i..2*i+2],16).unwrap()).collect() }
fn tok(t:&str)->String{ String::from_utf8(unhex(&t[1..])).unwrap() }
fn leb(b:&[u8],p:&mut usize)->u64{ let mut r=0u64; let mut s=0; loop { let x=b[*p]; *p+=1; r|=((x&0x7f) as u64)<<s; if x&0x80==0 {return r} s+=7; } }
fn dump(st:&AccessStructure)->String{
    let b=st.serialize().unwrap(); let mut p=0; let _v=leb(&b,&mut p); let nd=leb(&b,&mut p); let mut ds=vec![];
    for _ in 0..nd { let l=leb(&b,&mut p) as usize; let name=hex(&b[p..p+l]); p+=l; let ord=leb(&b,&mut p); let n=leb(&b,&mut p); let mut items=vec![];
        for _ in 0..n { let l=leb(&b,&mut p) as usize; let an=hex(&b[p..p+l]); p+=l; let id=leb(&b,&mut p); let h=leb(&b,&mut p); let s=leb(&b,&mut p); items.push(format!("{}={}/{}/{}",an,id,h,s)); }
        if ord==0 { items.sort(); }
        ds.push(format!("{}:{}:[{}]",name,if ord==0{"A"}else{"H"},items.join(";"))); }
    ds.sort(); ds.join(" ")
}
fn main(){
    std::panic::set_hook(Box::new(|_|{}));
    let stdin=std::io::stdin(); let out=std::io::stdout(); let mut out=std::io::BufWriter::new(out.lock());
    let mut st=AccessStructure::new();
    for line in stdin.lock().lines(){
        let line=line.unwrap(); let f:Vec<&str>=line.split(' ').collect();
        macro_rules! res { ($e:expr) => { match $e { Ok(_)=>writeln!(out,"OK").unwrap(), Err(_)=>writeln!(out,"ERR").unwrap() } } }
        match f[0] {
            "NEW"=>{ st=AccessStructure::new(); writeln!(out,"OK").unwrap(); }
            "AA"=>res!(st.add_anarchy(tok(f[1]))),
            "AH"=>res!(st.add_hierarchy(tok(f[1]))),
            "DD"=>res!(st.del_dimension(&tok(f[1]))),
            "AT"=>{ let after= if f[4]=="-" {None} else {Some(tok(f[4]))}; res!(st.add_attribute(QualifiedAttribute::new(&tok(f[1]),&tok(f[2])), EncryptionHint::new(f[3]=="1"), after.as_deref())) }
            "DT"=>res!(st.del_attribute(&QualifiedAttribute::new(&tok(f[1]),&tok(f[2])))),
            "RN"=>res!(st.rename_attribute(&QualifiedAttribute::new(&tok(f[1]),&tok(f[2])), tok(f[3]))),
            "DS"=>res!(st.disable_attribute(&QualifiedAttribute::new(&tok(f[1]),&tok(f[2])))),
            "UR"|"ER"=>{
                let s=tok(f[1]);
                let r=std::panic::catch_unwind(|| AccessPolicy::parse(&s));
                match r { Err(_)=>writeln!(out,"PANIC").unwrap(), Ok(Err(_))=>writeln!(out,"PERR").unwrap(),
                  Ok(Ok(p))=>{ let rs= if f[0]=="UR" { st.ap_to_usk_rights(&p) } else { st.ap_to_enc_rights(&p) };
                    match rs { Err(_)=>writeln!(out,"ERR").unwrap(), Ok(set)=>{ let mut v:Vec<String>=set.iter().map(|r| format!("r{}",hex(&r[..]))).collect(); v.sort(); writeln!(out,"OK {}",v.join(",")).unwrap(); } } } }
            }
            "ST"=>writeln!(out,"ST {}",dump(&st)).unwrap(),
            _=>writeln!(out,"??").unwrap(),
        }
    }
}
