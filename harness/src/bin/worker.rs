// Prototype (scratch): isolated worker for C14. Reads lines "<KIND> <hex>", deserializes under catch_unwind with a
// counting allocator; a single request above LIMIT(len) writes "OVERALLOC <n>" to stderr and aborts the process.
use cosmian_cover_crypt::{AccessStructure, EncryptedHeader, MasterPublicKey, MasterSecretKey, UserSecretKey, XEnc};
use cosmian_crypto_core::bytes_ser_de::Serializable;
use std::alloc::{GlobalAlloc, Layout, System};
use std::io::{BufRead, Write};
use std::sync::atomic::{AtomicUsize, Ordering};

static LIMIT: AtomicUsize = AtomicUsize::new(usize::MAX);
static MAXREQ: AtomicUsize = AtomicUsize::new(0);
static TOTAL: AtomicUsize = AtomicUsize::new(0);
struct Counting;
unsafe impl GlobalAlloc for Counting {
    unsafe fn alloc(&self, l: Layout) -> *mut u8 { check(l.size()); System.alloc(l) }
    unsafe fn alloc_zeroed(&self, l: Layout) -> *mut u8 { check(l.size()); System.alloc_zeroed(l) }
    unsafe fn realloc(&self, p: *mut u8, l: Layout, n: usize) -> *mut u8 { check(n); System.realloc(p, l, n) }
    unsafe fn dealloc(&self, p: *mut u8, l: Layout) { System.dealloc(p, l) }
}
fn check(n: usize) {
    MAXREQ.fetch_max(n, Ordering::Relaxed); TOTAL.fetch_add(n, Ordering::Relaxed);
    if n > LIMIT.load(Ordering::Relaxed) {
        let mut buf = [0u8; 40]; let mut i = buf.len(); let mut v = n;
        loop { i -= 1; buf[i] = b'0' + (v % 10) as u8; v /= 10; if v == 0 { break; } }
        let _ = std::io::stderr().write_all(b"OVERALLOC "); let _ = std::io::stderr().write_all(&buf[i..]); let _ = std::io::stderr().write_all(b"\n");
        std::process::abort();
    }
}
#[global_allocator]
static A: Counting = Counting;

fn unhex(s:&str)->Vec<u8>{ (0..s.len()/2).map(|i| u8::from_str_radix(&s[2*i..2*i+2],16).unwrap()).collect() }
fn main(){
    std::panic::set_hook(Box::new(|_|{}));
    let stdin=std::io::stdin();
    for (k,line) in stdin.lock().lines().enumerate(){
        let line=line.unwrap(); let (kind,h)=line.split_once(' ').unwrap(); let b=unhex(h);
        println!("BEGIN {}",k); std::io::stdout().flush().unwrap();
        MAXREQ.store(0,Ordering::Relaxed); TOTAL.store(0,Ordering::Relaxed);
        LIMIT.store(64*b.len()+(1<<20),Ordering::Relaxed);
        let r=std::panic::catch_unwind(|| match kind {
            "ENC"=>XEnc::deserialize(&b).map(|e| { let _=e.tracing_level(); let _=e.count(); }).is_ok(),
            "USK"=>UserSecretKey::deserialize(&b).map(|u| { let _=u.tracing_level(); }).is_ok(),
            "MSK"=>MasterSecretKey::deserialize(&b).is_ok(),
            "MPK"=>MasterPublicKey::deserialize(&b).map(|p| { let _=p.tracing_level(); }).is_ok(),
            "ST"=>AccessStructure::deserialize(&b).is_ok(),
            "HDR"=>EncryptedHeader::deserialize(&b).is_ok(),
            _=>false });
        LIMIT.store(usize::MAX,Ordering::Relaxed);
        match r { Ok(true)=>println!("END {} ok maxreq={} total={}",k,MAXREQ.load(Ordering::Relaxed),TOTAL.load(Ordering::Relaxed)),
                  Ok(false)=>println!("END {} err maxreq={} total={}",k,MAXREQ.load(Ordering::Relaxed),TOTAL.load(Ordering::Relaxed)),
                  Err(_)=>println!("END {} panic",k) }
    }
}
