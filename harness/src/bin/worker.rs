// C14 worker: deserializes untrusted bytes under catch_unwind with a counting allocator and a watchdog, then USES
// every value that parsed (decapsulation, header decryption, accessors).
//   worker gen              -> prints valid objects "KIND hex" of all six kinds (small structure)
//   worker run              -> reads "KIND hex" lines; per line prints "BEGIN k" then
//                              "END k <ok|err|panic> use=<ok|panic|-> maxreq=<n> total=<n> us=<micros>"
// A single allocation request above 64*len + 1 MiB prints "OVERALLOC <n>" on stderr and aborts the process (the
// parent restarts the worker after that input). alarm(5) kills a worker stuck on one input (SIGALRM).
use cosmian_cover_crypt::{
    api::Covercrypt, traits::KemAc, AccessPolicy, AccessStructure, EncryptedHeader, EncryptionHint, MasterPublicKey,
    MasterSecretKey, QualifiedAttribute, UserSecretKey, XEnc,
};
use cosmian_crypto_core::bytes_ser_de::Serializable;
use std::alloc::{GlobalAlloc, Layout, System};
use std::io::{BufRead, Write};
use std::sync::atomic::{AtomicUsize, Ordering};

extern "C" { fn alarm(seconds: u32) -> u32; }

static LIMIT: AtomicUsize = AtomicUsize::new(usize::MAX);
static MAXREQ: AtomicUsize = AtomicUsize::new(0);
static TOTAL: AtomicUsize = AtomicUsize::new(0);
struct Counting;
unsafe impl GlobalAlloc for Counting {
    unsafe fn alloc(&self, l: Layout) -> *mut u8 { check(l.size()); System.alloc(l) }
    unsafe fn alloc_zeroed(&self, l: Layout) -> *mut u8 { check(l.size()); System.alloc_zeroed(l) }
    unsafe fn realloc(&self, p: *mut u8, l: Layout, n: usize) -> *mut u8 { check(n); System.realloc(p, l, n) }
    unsafe fn dealloc(&self, p: *mut u8, l: Layout) { System.dealloc(p, l) }
}
fn check(n: usize) {
    MAXREQ.fetch_max(n, Ordering::Relaxed);
    TOTAL.fetch_add(n, Ordering::Relaxed);
    if n > LIMIT.load(Ordering::Relaxed) {
        let mut buf = [0u8; 40]; let mut i = buf.len(); let mut v = n;
        loop { i -= 1; buf[i] = b'0' + (v % 10) as u8; v /= 10; if v == 0 { break; } }
        let _ = std::io::stderr().write_all(b"OVERALLOC "); let _ = std::io::stderr().write_all(&buf[i..]); let _ = std::io::stderr().write_all(b"\n");
        std::process::abort();
    }
}
#[global_allocator]
static A: Counting = Counting;

fn hex(b: &[u8]) -> String { b.iter().map(|x| format!("{:02x}", x)).collect() }
fn unhex(s: &str) -> Vec<u8> { (0..s.len() / 2).map(|i| u8::from_str_radix(&s[2 * i..2 * i + 2], 16).unwrap()).collect() }
fn qa(d: &str, n: &str) -> QualifiedAttribute { QualifiedAttribute::new(d, n) }
fn ap(s: &str) -> AccessPolicy { AccessPolicy::parse(s).unwrap() }

struct Good { cc: Covercrypt, msk: MasterSecretKey, mpk: MasterPublicKey, usk: UserSecretKey, usk_h: UserSecretKey, enc_c: XEnc, enc_h: XEnc, hdr: EncryptedHeader, hdr0: EncryptedHeader }
fn scenario() -> Good {
    let cc = Covercrypt::default();
    let (mut msk, _) = cc.setup().unwrap();
    let st = &mut msk.access_structure;
    st.add_anarchy("D".into()).unwrap();
    st.add_attribute(qa("D", "a"), EncryptionHint::Classic, None).unwrap();
    st.add_attribute(qa("D", "b"), EncryptionHint::Hybridized, None).unwrap();
    st.add_hierarchy("S".into()).unwrap();
    st.add_attribute(qa("S", "l"), EncryptionHint::Classic, None).unwrap();
    cc.update_msk(&mut msk).unwrap();
    let mut usk = cc.generate_user_secret_key(&mut msk, &ap("D::a && S::l")).unwrap();
    let usk_h = cc.generate_user_secret_key(&mut msk, &ap("D::b")).unwrap();
    cc.rekey(&mut msk, &ap("D::a")).unwrap();
    cc.refresh_usk(&mut msk, &mut usk, true).unwrap();
    let mpk = cc.update_msk(&mut msk).unwrap();
    let (_, enc_c) = cc.encaps(&mpk, &ap("D::a || S::l")).unwrap();
    let (_, enc_h) = cc.encaps(&mpk, &ap("D::b")).unwrap();
    let (_, hdr) = EncryptedHeader::generate(&cc, &mpk, &ap("D::a"), Some(b"some metadata"), Some(b"ad")).unwrap();
    let (_, hdr0) = EncryptedHeader::generate(&cc, &mpk, &ap("D::b"), None, None).unwrap();
    Good { cc, msk, mpk, usk, usk_h, enc_c, enc_h, hdr, hdr0 }
}

fn main() {
    std::panic::set_hook(Box::new(|_| {}));
    let a: Vec<String> = std::env::args().collect();
    let g = scenario();
    if a.len() > 1 && a[1] == "gen" {
        println!("MSK {}", hex(&g.msk.serialize().unwrap()));
        println!("MPK {}", hex(&g.mpk.serialize().unwrap()));
        println!("USK {}", hex(&g.usk.serialize().unwrap()));
        println!("USK {}", hex(&g.usk_h.serialize().unwrap()));
        println!("ENC {}", hex(&g.enc_c.serialize().unwrap()));
        println!("ENC {}", hex(&g.enc_h.serialize().unwrap()));
        println!("HDR {}", hex(&g.hdr.serialize().unwrap()));
        println!("HDR {}", hex(&g.hdr0.serialize().unwrap()));
        println!("ST {}", hex(&g.msk.access_structure.serialize().unwrap()));
        println!("ST {}", hex(&AccessStructure::new().serialize().unwrap()));
        // strings of 128 bytes and more (two-byte LEB128 length prefixes): a 130-byte dimension name, a 200-byte attribute name, 150 bytes of metadata
        let mut sl = AccessStructure::new(); let dn = "N".repeat(130);
        sl.add_anarchy(dn.clone()).unwrap(); sl.add_attribute(qa(&dn, &"L".repeat(200)), EncryptionHint::Classic, None).unwrap(); sl.add_attribute(qa(&dn, "s"), EncryptionHint::Hybridized, None).unwrap();
        println!("ST {}", hex(&sl.serialize().unwrap()));
        let (_, hl) = EncryptedHeader::generate(&g.cc, &g.mpk, &ap("D::a"), Some(&[7u8; 150]), Some(b"ad")).unwrap();
        println!("HDR {}", hex(&hl.serialize().unwrap()));
        return;
    }
    // `worker run <objects file>`: use the keys of the process that generated the objects, so that mutated
    // encapsulations / headers / keys are really opened (a fresh scenario could never decapsulate them)
    let mut g = g;
    if let Some(path) = a.get(2) {
        let txt = std::fs::read_to_string(path).unwrap();
        let objs: Vec<(&str, Vec<u8>)> = txt.lines().filter_map(|l| l.split_once(' ')).map(|(k, h)| (k, unhex(h))).collect();
        let get = |kind: &str, n: usize| objs.iter().filter(|(k, _)| *k == kind).nth(n).map(|(_, b)| b.clone()).unwrap();
        g.msk = MasterSecretKey::deserialize(&get("MSK", 0)).unwrap();
        g.mpk = MasterPublicKey::deserialize(&get("MPK", 0)).unwrap();
        g.usk = UserSecretKey::deserialize(&get("USK", 0)).unwrap();
        g.usk_h = UserSecretKey::deserialize(&get("USK", 1)).unwrap();
        g.enc_c = XEnc::deserialize(&get("ENC", 0)).unwrap();
        g.enc_h = XEnc::deserialize(&get("ENC", 1)).unwrap();
        g.hdr = EncryptedHeader::deserialize(&get("HDR", 0)).unwrap();
        g.hdr0 = EncryptedHeader::deserialize(&get("HDR", 1)).unwrap();
    }
    let stdin = std::io::stdin();
    for (k, line) in stdin.lock().lines().enumerate() {
        let line = line.unwrap();
        let (kind, h) = match line.split_once(' ') { Some(x) => x, None => continue };
        let b = unhex(h);
        println!("BEGIN {}", k);
        std::io::stdout().flush().unwrap();
        MAXREQ.store(0, Ordering::Relaxed); TOTAL.store(0, Ordering::Relaxed);
        unsafe { alarm(5); }
        let t0 = std::time::Instant::now();
        LIMIT.store(64 * b.len() + (1 << 20), Ordering::Relaxed);
        // 0 = err, 1 = ok ; use: 0 = not applicable, 1 = fine, 2 = panicked
        let r = std::panic::catch_unwind(|| -> (u8, u8) {
            match kind {
                // parse-only kinds (scaling measurements on very large inputs: the time of the USE is legitimately large)
                "PUSK" => (UserSecretKey::deserialize(&b).is_ok() as u8, 0),
                "PENC" => (XEnc::deserialize(&b).is_ok() as u8, 0),
                "PST" => (AccessStructure::deserialize(&b).is_ok() as u8, 0),
                "PMPK" => (MasterPublicKey::deserialize(&b).is_ok() as u8, 0),
                "ENC" => match XEnc::deserialize(&b) { Err(_) => (0, 0), Ok(e) => {
                    let u = std::panic::catch_unwind(|| { let _ = e.tracing_level(); let _ = e.count(); let _ = g.cc.decaps(&g.usk, &e); let _ = g.cc.decaps(&g.usk_h, &e);
                        let _ = g.cc.recaps(&g.msk, &g.mpk, &e); let _ = e.serialize().map(|s| s.len() == e.length()); });
                    (1, if u.is_ok() { 1 } else { 2 }) } },
                "USK" => match UserSecretKey::deserialize(&b) { Err(_) => (0, 0), Ok(u) => {
                    let r = std::panic::catch_unwind(|| { let _ = u.tracing_level(); let _ = u.count(); let _ = g.cc.decaps(&u, &g.enc_c); let _ = g.cc.decaps(&u, &g.enc_h);
                        let _ = g.hdr.decrypt(&g.cc, &u, Some(b"ad")); let _ = u.serialize().map(|s| s.len() == u.length()); });
                    (1, if r.is_ok() { 1 } else { 2 }) } },
                "MSK" => match MasterSecretKey::deserialize(&b) { Err(_) => (0, 0), Ok(m) => {
                    let r = std::panic::catch_unwind(|| { let _ = m.mpk().map(|p| p.tracing_level()); let _ = m.access_structure.attributes().count(); let _ = m.access_structure.dimensions().count(); let _ = g.cc.recaps(&m, &g.mpk, &g.enc_c); let _ = m.serialize().map(|s| s.len() == m.length()); });
                    (1, if r.is_ok() { 1 } else { 2 }) } },
                "MPK" => match MasterPublicKey::deserialize(&b) { Err(_) => (0, 0), Ok(p) => {
                    let r = std::panic::catch_unwind(|| { let _ = p.tracing_level(); let _ = p.access_structure.attributes().count(); let _ = p.access_structure.dimensions().count(); let _ = g.cc.encaps(&p, &ap("*")); let _ = g.cc.encaps(&p, &ap("D::a")); let _ = p.serialize().map(|s| s.len() == p.length()); });
                    (1, if r.is_ok() { 1 } else { 2 }) } },
                "ST" => match AccessStructure::deserialize(&b) { Err(_) => (0, 0), Ok(s) => {
                    let r = std::panic::catch_unwind(|| { let _ = s.dimensions().count(); let _ = s.attributes().count(); let _ = s.ap_to_usk_rights(&ap("*")).map(|r| r.len()); let _ = s.serialize().map(|x| x.len() == s.length());
                        // a parsed structure is edited: the identifier counter it carries comes from the bytes
                        let mut s2 = s.clone(); let _ = s2.add_anarchy("zz".into());
                        let _ = s2.add_attribute(qa("zz", "p"), EncryptionHint::Classic, None); let _ = s2.add_attribute(qa("zz", "q"), EncryptionHint::Hybridized, None);
                        let _ = s2.serialize().map(|x| x.len() == s2.length()); });
                    (1, if r.is_ok() { 1 } else { 2 }) } },
                "HDR" => match EncryptedHeader::deserialize(&b) { Err(_) => (0, 0), Ok(hd) => {
                    let r = std::panic::catch_unwind(|| { let _ = hd.decrypt(&g.cc, &g.usk, Some(b"ad")); let _ = hd.decrypt(&g.cc, &g.usk_h, None); let _ = hd.serialize().map(|s| s.len() == hd.length()); });
                    (1, if r.is_ok() { 1 } else { 2 }) } },
                _ => (0, 0),
            }
        });
        LIMIT.store(usize::MAX, Ordering::Relaxed);
        unsafe { alarm(0); }
        let us = t0.elapsed().as_micros();
        match r {
            Ok((p, u)) => println!("END {} {} use={} maxreq={} total={} us={}", k, if p == 1 { "ok" } else { "err" }, ["-", "ok", "panic"][u as usize], MAXREQ.load(Ordering::Relaxed), TOTAL.load(Ordering::Relaxed), us),
            Err(_) => println!("END {} panic use=- maxreq={} total={} us={}", k, MAXREQ.load(Ordering::Relaxed), TOTAL.load(Ordering::Relaxed), us),
        }
    }
}
