// Data-structure driver (hook cosmian_cover_crypt_verif): runs operation scripts on the real `Dict<String, u64>`,
// `RevisionMap<String, u64>` and prints, after every operation, the observation and the full listing.
//   NEW | I <key> <val> | R <key> | U <old> <new> | G <key>           (Dict)
//   MNEW | MI <key> <val> | MK <key> <n> | MR <key> | ML <key>         (RevisionMap: insert, keep, remove, get_latest)
#[cfg(cosmian_cover_crypt_verif)]
fn main() {
    use cosmian_cover_crypt::verif_hooks::{Dict, RevisionMap};
    use std::io::{BufRead, Write};
    let out = std::io::stdout(); let mut out = std::io::BufWriter::new(out.lock());
    let mut d: Dict<String, u64> = Dict::new();
    let mut m: RevisionMap<String, u64> = RevisionMap::new();
    let o = |x: Option<u64>| x.map(|v| format!("some:{v}")).unwrap_or("none".into());
    for line in std::io::stdin().lock().lines() {
        let line = line.unwrap(); let f: Vec<&str> = line.split(' ').collect();
        let r = std::panic::catch_unwind(std::panic::AssertUnwindSafe(|| -> String { match f[0] {
            "NEW" => { d = Dict::new(); "ok".into() }
            "I" => o(d.insert(f[1].to_string(), f[2].parse().unwrap())),
            "R" => o(d.remove(&f[1].to_string())),
            "U" => if d.update_key(&f[1].to_string(), f[2].to_string()).is_ok() { "ok".into() } else { "err".into() },
            "G" => format!("{}/{}", o(d.get(f[1]).copied()), d.contains_key(f[1]) as u8),
            "MNEW" => { m = RevisionMap::new(); "ok".into() }
            "MI" => { m.insert(f[1].to_string(), f[2].parse().unwrap()); "ok".into() }
            "MK" => { let n: usize = f[2].parse().unwrap(); match m.keep(f[1], n) { Some(it) => format!("some:{}", it.map(|v| v.to_string()).collect::<Vec<_>>().join(";")), None => "none".into() } }
            "MR" => match m.remove(f[1]) { Some(it) => format!("some:{}", it.map(|v| v.to_string()).collect::<Vec<_>>().join(";")), None => "none".into() },
            "ML" => o(m.get_latest(f[1]).copied()),
            _ => "??".into() } }));
        let r = r.unwrap_or_else(|_| "PANIC".into());
        if f[0].starts_with('M') {
            let mut items: Vec<String> = m.iter().map(|(k, ch)| format!("{}=[{}]", k, ch.iter().map(|v| v.to_string()).collect::<Vec<_>>().join(";"))).collect(); items.sort();
            writeln!(out, "{}|{}|{}|{}", r, m.len(), m.count_elements(), items.join(",")).unwrap();
        } else {
            let items: Vec<String> = d.iter().map(|(k, v)| format!("{k}={v}")).collect();
            writeln!(out, "{}|{}|{}", r, d.len(), items.join(",")).unwrap();
        }
    }
}
#[cfg(not(cosmian_cover_crypt_verif))]
fn main() { eprintln!("built without --cfg cosmian_cover_crypt_verif"); std::process::exit(2); }
