// C08 driver.  Commands on stdin:
//   GEN            -> builds a scenario and prints "MSK <hex>", "MSK2 <hex>" (another master key, same structure),
//                     then "KEY <hex>" for issued keys (generated, refreshed with both flags, round-tripped) and
//                     "KEY2 <hex>" for keys issued by the other master key
//   MSK <hex>      -> sets the master key used by TRY
//   TRY <uskhex> <keep> -> deserializes a FRESH copy of the master key and the user key, calls refresh_usk, prints
//                     UNPARSABLE | ACCEPT | REJECT u=<user key bytes unchanged> m=<master key bytes unchanged>
use cosmian_cover_crypt::{api::Covercrypt, AccessPolicy, EncryptionHint, MasterSecretKey, QualifiedAttribute, UserSecretKey};
use cosmian_crypto_core::bytes_ser_de::Serializable;
use std::io::{BufRead, Write};
#[path = "../common.rs"]
mod common;
use common::*;

fn qa(d: &str, n: &str) -> QualifiedAttribute { QualifiedAttribute::new(d, n) }
fn ap(s: &str) -> AccessPolicy { AccessPolicy::parse(s).unwrap() }

fn scenario(cc: &Covercrypt) -> (MasterSecretKey, Vec<UserSecretKey>) {
    let (mut msk, _) = cc.setup().unwrap();
    let st = &mut msk.access_structure;
    st.add_anarchy("D".into()).unwrap();
    st.add_attribute(qa("D", "a"), EncryptionHint::Classic, None).unwrap();
    st.add_attribute(qa("D", "b"), EncryptionHint::Hybridized, None).unwrap();
    st.add_hierarchy("S".into()).unwrap();
    st.add_attribute(qa("S", "l"), EncryptionHint::Classic, None).unwrap();
    st.add_attribute(qa("S", "h"), EncryptionHint::Classic, Some("l")).unwrap();
    cc.update_msk(&mut msk).unwrap();
    let mut keys = vec![];
    for (i, pol) in ["D::a", "D::b && S::h", "S::l", "*", "D::b", "D::a && S::l"].iter().enumerate() {
        let mut u = cc.generate_user_secret_key(&mut msk, &ap(pol)).unwrap();
        keys.push(u.clone());
        cc.rekey(&mut msk, &ap(if i % 2 == 0 { "D::a || S::l" } else { "D::b" })).unwrap();
        cc.refresh_usk(&mut msk, &mut u, true).unwrap();
        keys.push(u.clone());
        if i % 3 == 0 { cc.rekey(&mut msk, &ap("*")).unwrap(); cc.refresh_usk(&mut msk, &mut u, true).unwrap(); keys.push(u.clone()); }
        // versions refreshed WITHOUT the old secrets (after a further rekey), and refreshed once more
        if i % 2 == 1 || i == 0 {
            let mut v = u.clone();
            cc.rekey(&mut msk, &ap(pol)).unwrap();
            cc.refresh_usk(&mut msk, &mut v, false).unwrap(); keys.push(v.clone());
            if i == 1 && cc.refresh_usk(&mut msk, &mut v, true).is_ok() { keys.push(v.clone()); }
        }
    }
    (msk, keys)
}

fn main() {
    std::panic::set_hook(Box::new(|_| {}));
    let cc = Covercrypt::default();
    let out = std::io::stdout(); let mut out = std::io::BufWriter::new(out.lock());
    let mut mskb: Vec<u8> = vec![];
    for line in std::io::stdin().lock().lines() {
        let line = line.unwrap(); let f: Vec<&str> = line.split(' ').collect();
        match f[0] {
            "GEN" => {
                let (m1, k1) = scenario(&cc); let (m2, k2) = scenario(&cc);
                writeln!(out, "MSK {}", hex(&m1.serialize().unwrap())).unwrap();
                writeln!(out, "MSK2 {}", hex(&m2.serialize().unwrap())).unwrap();
                for k in &k1 { writeln!(out, "KEY {}", hex(&k.serialize().unwrap())).unwrap(); }
                for k in k2.iter().take(4) { writeln!(out, "KEY2 {}", hex(&k.serialize().unwrap())).unwrap(); }
                writeln!(out, "END").unwrap();
            }
            "MSK" => { mskb = unhex(f[1]); writeln!(out, "OK").unwrap(); }
            "TRY" => {
                let tb = unhex(f[1]); let keep = f[2] == "1";
                let r = std::panic::catch_unwind(|| {
                    let mut m = MasterSecretKey::deserialize(&mskb).unwrap();
                    match UserSecretKey::deserialize(&tb) {
                        Err(_) => "UNPARSABLE".to_string(),
                        Ok(mut u) => {
                            let before = u.serialize().unwrap().to_vec();
                            let mb = dump_msk(&m);
                            let ok = cc.refresh_usk(&mut m, &mut u, keep).is_ok();
                            // same=1: the key as PARSED re-serializes to exactly the bytes offered (the reader normalised nothing away)
                            if ok { format!("ACCEPT same={}", (before == tb) as u8) } else {
                                format!("REJECT u={} m={}", (u.serialize().unwrap().to_vec() == before) as u8, (dump_msk(&m) == mb) as u8) }
                        }
                    }
                });
                writeln!(out, "{}", r.unwrap_or_else(|_| "PANIC".to_string())).unwrap();
            }
            _ => writeln!(out, "??").unwrap(),
        }
        out.flush().unwrap();
    }
}
