// C12 / C07(DEM) / C16 driver: PKE and encrypted-header layers.
//   PKE <pt hex|->                       -> "CT <enc hex> <ctx hex>"
//   PKEDEC <auth 0|1> <enc hex> <ctx hex|-> -> "OK:<pt hex>" | NONE | ERR | PANIC | UNPARSABLE
//   HDR <md hex|-|empty> <ad hex|-|empty> -> "HDR <enc hex> <emd hex|-> <secret hex>"
//   HDRDEC <auth> <enc hex> <emd hex|-|empty> <ad hex|-|empty> -> "OK:<secret hex>:<md hex|-|empty>" | NONE | ERR | PANIC | UNPARSABLE
//   HDRSER <enc hex> <emd hex|-|empty>   -> "<serialized hex> <length() ok>"   ; HDRDE <hex> -> "<enc hex> <emd|->" | UNPARSABLE
use cosmian_cover_crypt::{api::Covercrypt, traits::{KemAc, PkeAc}, AccessPolicy, EncryptedHeader, EncryptionHint, QualifiedAttribute, XEnc};
use cosmian_crypto_core::{bytes_ser_de::Serializable, Aes256Gcm};
use std::io::{BufRead, Write};
#[path = "../common.rs"]
mod common;
use common::*;
fn qa(d: &str, n: &str) -> QualifiedAttribute { QualifiedAttribute::new(d, n) }
fn ap(s: &str) -> AccessPolicy { AccessPolicy::parse(s).unwrap() }
fn opt(s: &str) -> Option<Vec<u8>> { match s { "-" => None, "empty" => Some(vec![]), h => Some(unhex(h)) } }
fn show(o: &Option<Vec<u8>>) -> String { match o { None => "-".into(), Some(v) if v.is_empty() => "empty".into(), Some(v) => hex(v) } }
pub const MX_KEYS: [&str; 6] = ["D::a", "D::b", "D::c && S::h", "D::d", "S::l", "*"];
pub const MX_POLS: [&str; 6] = ["D::a", "D::a || D::c", "D::b || D::d", "D::b || D::a", "D::d && S::l", "S::h && D::b || D::c"];
fn main() {
    std::panic::set_hook(Box::new(|_| {}));
    let cc = Covercrypt::default();
    let (mut msk, _) = cc.setup().unwrap();
    let st = &mut msk.access_structure;
    st.add_anarchy("D".into()).unwrap();
    st.add_attribute(qa("D", "a"), EncryptionHint::Classic, None).unwrap();
    st.add_attribute(qa("D", "b"), EncryptionHint::Hybridized, None).unwrap();
    let mpk = cc.update_msk(&mut msk).unwrap();
    let good = cc.generate_user_secret_key(&mut msk, &ap("D::a")).unwrap();
    let bad = cc.generate_user_secret_key(&mut msk, &ap("D::b")).unwrap();
    let pol = ap("D::a");
    let out = std::io::stdout(); let mut out = std::io::BufWriter::new(out.lock());
    for line in std::io::stdin().lock().lines() {
        let line = line.unwrap(); let f: Vec<&str> = line.split(' ').collect();
        let r = std::panic::catch_unwind(|| -> String {
            match f[0] {
                "PKE" => { let pt = opt(f[1]).unwrap_or_default(); let (e, c) = <Covercrypt as PkeAc<32, Aes256Gcm>>::encrypt(&cc, &mpk, &pol, &pt).unwrap(); format!("CT {} {}", hex(&e.serialize().unwrap()), hex(&c)) }
                "PKEDEC" => { let u = if f[1] == "1" { &good } else { &bad };
                    let e = match XEnc::deserialize(&unhex(f[2])) { Ok(e) => e, Err(_) => return "UNPARSABLE".into() };
                    let c = opt(f[3]).unwrap_or_default();
                    match <Covercrypt as PkeAc<32, Aes256Gcm>>::decrypt(&cc, u, &(e, c)) { Ok(Some(p)) => format!("OK:{}", if p.is_empty() { "empty".to_string() } else { hex(&p) }), Ok(None) => "NONE".into(), Err(_) => "ERR".into() } }
                // PKEBIG <len>: one PKE encryption of a len-byte plaintext (megabytes), then STRUCTURAL mutants of the symmetric
                // part at block granularity, for every candidate block size 2^k + d (k = 10..21, d in {0, 12, 16, 28}):
                // truncation after 1 and 2 blocks, first two blocks swapped, first block dropped, first block repeated,
                // last block dropped; plus ordinary tail truncations and bit flips. Prints the accepted mutants (none expected).
                "PKEBIG" => {
                    let n: usize = f[1].parse().unwrap();
                    let pt: Vec<u8> = (0..n).map(|i| (i as u32).wrapping_mul(2654435761).to_le_bytes()[1]).collect();
                    let (e, c) = <Covercrypt as PkeAc<32, Aes256Gcm>>::encrypt(&cc, &mpk, &pol, &pt).unwrap();
                    let dec = |c2: Vec<u8>| -> Option<bool> { match <Covercrypt as PkeAc<32, Aes256Gcm>>::decrypt(&cc, &good, &(e.clone(), c2)) { Ok(Some(p)) => Some(*p == pt), _ => None } };
                    let mut acc: Vec<String> = vec![]; let mut tried = 0usize;
                    if dec(c.clone()) != Some(true) { acc.push("round trip of the large plaintext failed".into()); }
                    for k in 10..22usize { for d in [0usize, 12, 16, 28] {
                        let b = (1usize << k) + d; if 2 * b > c.len() { continue; }
                        let muts: Vec<(&str, Vec<u8>)> = vec![
                            ("truncated after one block", c[..b].to_vec()), ("truncated after two blocks", c[..2 * b].to_vec()),
                            ("first two blocks swapped", [&c[b..2 * b], &c[..b], &c[2 * b..]].concat()), ("first block dropped", c[b..].to_vec()),
                            ("first block repeated", [&c[..b], &c[..]].concat()), ("last block dropped", c[..c.len() - (c.len() % b).max(1)].to_vec())];
                        for (w, m) in muts { tried += 1; if m != c { if let Some(same) = dec(m) { acc.push(format!("{w} (block {b} bytes): accepted, plaintext {}", if same { "unchanged" } else { "DIFFERENT" })); } } }
                    } }
                    for cut in [1usize, 15, 16, 17, 28, 29] { tried += 1; if dec(c[..c.len() - cut].to_vec()).is_some() { acc.push(format!("truncated by {cut} bytes: accepted")); } }
                    for pos in [0usize, 11, 12, c.len() / 2, c.len() - 17, c.len() - 1] { tried += 1; let mut m = c.clone(); m[pos] ^= 4; if dec(m).is_some() { acc.push(format!("bit flipped at {pos}: accepted")); } }
                    format!("BIG {} {} {}", c.len(), tried, if acc.is_empty() { "-".to_string() } else { acc.join(" ; ").replace(' ', "_") })
                }
                // MATRIX R: a richer structure (classic and hybridized attributes, a hierarchy), six keys x six policies
                // (single, classic multi-target, hybridized multi-target, MIXED classic+hybridized, conjunctions), each pair
                // R times through the PKE and the header layer; one line per trial, judged by the caller
                "MATRIX" => {
                    let r: usize = f[1].parse().unwrap();
                    let (mut m2, _) = cc.setup().unwrap();
                    let st = &mut m2.access_structure;
                    st.add_anarchy("D".into()).unwrap();
                    for (n, h) in [("a", false), ("b", true), ("c", false), ("d", true)] { st.add_attribute(qa("D", n), EncryptionHint::new(h), None).unwrap(); }
                    st.add_hierarchy("S".into()).unwrap();
                    st.add_attribute(qa("S", "l"), EncryptionHint::Classic, None).unwrap();
                    st.add_attribute(qa("S", "h"), EncryptionHint::Hybridized, Some("l")).unwrap();
                    let p2 = cc.update_msk(&mut m2).unwrap();
                    let keys: Vec<_> = MX_KEYS.iter().map(|p| cc.generate_user_secret_key(&mut m2, &ap(p)).unwrap()).collect();
                    let mut o = String::new();
                    for (ei, ep) in MX_POLS.iter().enumerate() { for rep in 0..r {
                        let pt = vec![rep as u8; 3 + rep];
                        let ct = <Covercrypt as PkeAc<32, Aes256Gcm>>::encrypt(&cc, &p2, &ap(ep), &pt).unwrap();
                        let (hs, hd) = EncryptedHeader::generate(&cc, &p2, &ap(ep), Some(b"md"), Some(b"ad")).unwrap();
                        let hd = EncryptedHeader::deserialize(&hd.serialize().unwrap()).unwrap();
                        for (ki, k) in keys.iter().enumerate() {
                            let a = match <Covercrypt as PkeAc<32, Aes256Gcm>>::decrypt(&cc, k, &ct) { Ok(Some(p)) => if *p == pt { "OK" } else { "WRONG" }, Ok(None) => "NONE", Err(_) => "ERR" };
                            let b = match hd.decrypt(&cc, k, Some(b"ad")) { Ok(Some(c)) => if *c.secret == *hs && c.metadata.as_deref() == Some(&b"md"[..]) { "OK" } else { "WRONG" }, Ok(None) => "NONE", Err(_) => "ERR" };
                            o += &format!("MX {ki} {ei} {rep} {a} {b};");
                        }
                        // the encapsulation INSIDE the ciphertext / header altered (a tag byte, a byte of the last recipient's
                        // share, a byte of a trap): no key may get anything out of it - in particular not another secret
                        if rep < 2 {
                            let eb = ct.0.serialize().unwrap().to_vec();
                            // ... its COUNT fields altered to boundary values (number of traps, number of shares): reading the encapsulation
                            // alone or at the head of a serialized header must fail cleanly (or give an object that opens nothing)
                            {
                                fn leb(mut v: u64) -> Vec<u8> { let mut o = vec![]; loop { let b = (v & 0x7f) as u8; v >>= 7; if v != 0 { o.push(b | 0x80) } else { o.push(b); return o } } }
                                let hb = hd.serialize().unwrap().to_vec();
                                let eb = hd.encapsulation.serialize().unwrap().to_vec();      // the header's own encapsulation
                                let cpos = 16 + 1 + eb[16] as usize * PT + 1;
                                if eb[16] < 128 && cpos < eb.len() && hb.len() >= eb.len() && hb[..eb.len()] == eb[..] {
                                    for (field, pos) in [("trap-count", 16usize), ("share-count", cpos)] {
                                        for v in [u64::MAX, 1u64 << 63, 1u64 << 62, 1u64 << 40, 1u64 << 32, (1u64 << 31) + 1, 300, eb[pos] as u64 + 1] {
                                            let zb = [&eb[..pos], &leb(v)[..], &eb[pos + 1..]].concat();
                                            let zh = [&zb[..], &hb[eb.len()..]].concat();
                                            o += "MXC;";
                                            let r1 = std::panic::catch_unwind(|| XEnc::deserialize(&zb).ok());
                                            let r2 = std::panic::catch_unwind(|| EncryptedHeader::deserialize(&zh).ok());
                                            match (&r1, &r2) { (Err(_), _) | (_, Err(_)) => { o += &format!("MXT 0 {ei} read-{field}={v} PANIC;"); continue; } _ => {} }
                                            if let Ok(Some(me)) = r1 { for (ki, k) in keys.iter().enumerate() {
                                                let cz = Covercrypt::default();
                                                match std::panic::catch_unwind(std::panic::AssertUnwindSafe(|| cz.decaps(k, &me).map(|x| x.is_some()))) {
                                                    Err(_) => { o += &format!("MXT {ki} {ei} kem-{field}={v} PANIC;"); } Ok(Ok(true)) => { o += &format!("MXT {ki} {ei} kem-{field}={v} OPENED;"); } _ => {} } } }
                                            if let Ok(Some(mh)) = r2 { for (ki, k) in keys.iter().enumerate() {
                                                let cz = Covercrypt::default();
                                                match std::panic::catch_unwind(std::panic::AssertUnwindSafe(|| mh.decrypt(&cz, k, Some(b"ad")).map(|x| x.is_some()))) {
                                                    Err(_) => { o += &format!("MXT {ki} {ei} header-{field}={v} PANIC;"); } Ok(Ok(true)) => { o += &format!("MXT {ki} {ei} header-{field}={v} OPENED;"); } _ => {} } } }
                                        }
                                    }
                                }
                            }
                            // ... and its STRUCTURE altered: the list of shares cut to nothing (count byte 0, shares dropped) - the
                            // object still parses; opening it must say "not authorized" or fail, never panic (a panic while the
                            // generator is locked would leave the instance unusable), so a separate instance is used here
                            {
                                let cpos = 16 + 1 + eb[16] as usize * PT + 1;
                                if eb[16] < 128 && cpos < eb.len() && eb[cpos] >= 1 && eb[cpos] < 128 {
                                    let mut zb = eb[..cpos].to_vec(); zb.push(0);
                                    if let Ok(me) = XEnc::deserialize(&zb) {
                                        o += &format!("MXZ {ei};");
                                        let cz = Covercrypt::default();
                                        for (ki, k) in keys.iter().enumerate() {
                                            let r1 = std::panic::catch_unwind(std::panic::AssertUnwindSafe(|| <Covercrypt as PkeAc<32, Aes256Gcm>>::decrypt(&cz, k, &(me.clone(), ct.1.clone())).map(|x| x.is_some())));
                                            let cz2 = Covercrypt::default();
                                            let h0 = EncryptedHeader { encapsulation: me.clone(), encrypted_metadata: hd.encrypted_metadata.clone() };
                                            let r2 = std::panic::catch_unwind(std::panic::AssertUnwindSafe(|| h0.decrypt(&cz2, k, Some(b"ad")).map(|x| x.is_some())));
                                            let cz3 = Covercrypt::default();
                                            let r3 = std::panic::catch_unwind(std::panic::AssertUnwindSafe(|| cz3.decaps(k, &me).map(|x| x.is_some())));
                                            for (layer, r) in [("pke", r1), ("header", r2), ("kem", r3)] {
                                                match r { Err(_) => { o += &format!("MXT {ki} {ei} {layer}-without-shares PANIC;"); }
                                                          Ok(Ok(true)) => { o += &format!("MXT {ki} {ei} {layer}-without-shares OPENED;"); }
                                                          _ => {} }
                                            }
                                        }
                                    }
                                }
                            }
                            for (what, pos) in [("tag", 3usize), ("tag-end", 15), ("trap", 20), ("last-share", eb.len() - 1), ("last-share-start", eb.len() - 32)] {
                                let mut mb = eb.clone(); mb[pos] ^= 0x20;
                                if let Ok(me) = XEnc::deserialize(&mb) {
                                    let h0 = EncryptedHeader { encapsulation: me.clone(), encrypted_metadata: None };
                                    for (ki, k) in keys.iter().enumerate() {
                                        if let Ok(Some(_)) = <Covercrypt as PkeAc<32, Aes256Gcm>>::decrypt(&cc, k, &(me.clone(), ct.1.clone())) { o += &format!("MXT {ki} {ei} pke-{what} OPENED;"); }
                                        if let Ok(Some(_)) = h0.decrypt(&cc, k, None) { o += &format!("MXT {ki} {ei} header-{what} OPENED;"); }
                                    }
                                }
                            }
                        }
                        } }
                    o }
                "HDR" => { let md = opt(f[1]); let ad = opt(f[2]);
                    let (s, h) = EncryptedHeader::generate(&cc, &mpk, &pol, md.as_deref(), ad.as_deref()).unwrap();
                    format!("HDR {} {} {}", hex(&h.encapsulation.serialize().unwrap()), show(&h.encrypted_metadata), hex(&*s)) }
                "HDRDEC" => { let u = if f[1] == "1" { &good } else { &bad };
                    let e = match XEnc::deserialize(&unhex(f[2])) { Ok(e) => e, Err(_) => return "UNPARSABLE".into() };
                    let h = EncryptedHeader { encapsulation: e, encrypted_metadata: opt(f[3]) }; let ad = opt(f[4]);
                    match h.decrypt(&cc, u, ad.as_deref()) { Ok(Some(c)) => format!("OK:{}:{}", hex(&*c.secret), show(&c.metadata)), Ok(None) => "NONE".into(), Err(_) => "ERR".into() } }
                // HDRBIG <len>: a header with len bytes of metadata (tens of kilobytes to megabytes): serialize / deserialize /
                // decrypt round trip, and the returned secret must not open ANY record of the encrypted metadata, whatever
                // the segment size a chunked implementation may use
                "HDRBIG" => {
                    use cosmian_crypto_core::{Dem, FixedSizeCBytes, Instantiable, Nonce, SymmetricKey};
                    let n: usize = f[1].parse().unwrap();
                    let md: Vec<u8> = (0..n).map(|i| (i as u32).wrapping_mul(40503).to_le_bytes()[1]).collect();
                    let (s, h) = EncryptedHeader::generate(&cc, &mpk, &pol, Some(&md), Some(b"ad")).unwrap();
                    let ser = h.serialize().unwrap(); let mut pb: Vec<String> = vec![];
                    if ser.len() != h.length() { pb.push("length() != serialize().len()".into()); }
                    match EncryptedHeader::deserialize(&ser) {
                        Err(e) => pb.push(format!("the serialized header cannot be read back: {e}")),
                        Ok(h2) => { if h2 != h { pb.push("deserializes to another header".into()); }
                            match h2.decrypt(&cc, &good, Some(b"ad")) { Ok(Some(c)) => { if *c.secret != *s { pb.push("other secret".into()); } if c.metadata.as_deref() != Some(&md[..]) { pb.push("other metadata".into()); } }
                                Ok(None) => pb.push("authorized key gets 'not authorized'".into()), Err(e) => pb.push(format!("decrypt fails: {e}")) }
                            if !matches!(h2.decrypt(&cc, &good, Some(b"other")), Err(_)) { pb.push("opens with other authentication data".into()); }
                            if !matches!(h2.decrypt(&cc, &bad, Some(b"ad")), Ok(None)) { pb.push("unauthorized key is not refused".into()); } }
                    }
                    let emd = h.encrypted_metadata.clone().unwrap();
                    let key = SymmetricKey::<32>::try_from_bytes((*s).clone()).unwrap();
                    let mut opened = false;
                    let mut sizes: Vec<usize> = vec![emd.len()]; for k in 10..22usize { for d in [28usize, 0] { sizes.push((1 << k) + d); } }
                    for rs in sizes { let mut off = 0; while off + 28 <= emd.len() { let end = (off + rs).min(emd.len());
                        if let Ok(nn) = Nonce::<12>::try_from_slice(&emd[off..off + 12]) { for a in [Some(&b"ad"[..]), None] { if Aes256Gcm::new(&key).decrypt(&nn, &emd[off + 12..end], a).is_ok() { opened = true; } } }
                        off += rs; } }
                    if opened { pb.push("the secret handed to the caller decrypts (part of) the encrypted metadata".into()); }
                    format!("HB {} {}", ser.len(), if pb.is_empty() { "-".to_string() } else { pb.join(" ; ").replace(' ', "_") })
                }
                // CLR <md hex|-|empty>: the CLEARTEXT header (result of decrypt) serialized and read back
                "CLR" => {
                    use cosmian_cover_crypt::CleartextHeader;
                    let md = opt(f[1]);
                    let (s, h) = EncryptedHeader::generate(&cc, &mpk, &pol, md.as_deref(), Some(b"ad")).unwrap();
                    let c = h.decrypt(&cc, &good, Some(b"ad")).unwrap().unwrap();
                    let mut pb: Vec<String> = vec![];
                    if *c.secret != *s { pb.push("secret differs from the one generate returned".into()); }
                    if c.metadata.clone().unwrap_or_default() != md.clone().unwrap_or_default() { pb.push("metadata differ".into()); }
                    let b = c.serialize().unwrap();
                    if b.len() != c.length() { pb.push(format!("length() announces {} bytes, {} are written", c.length(), b.len())); }
                    match CleartextHeader::deserialize(&b) {
                        Err(e) => pb.push(format!("cannot be read back: {e}")),
                        Ok(c2) => { if *c2.secret != *c.secret { pb.push("read back with another secret".into()); }
                            if c2.metadata.clone().unwrap_or_default() != c.metadata.clone().unwrap_or_default() { pb.push("read back with other metadata".into()); }
                            if c2.length() != b.len() { pb.push("length() of the copy is wrong".into()); }
                            if c2.serialize().unwrap() != b { pb.push("the copy serializes to other bytes".into()); } }
                    }
                    // read from a buffer that CONTINUES (a header in front of a payload)
                    let mut buf = b.to_vec(); buf.extend_from_slice(b"payload after the header");
                    let mut de = cosmian_crypto_core::bytes_ser_de::Deserializer::new(&buf);
                    match de.read::<CleartextHeader>() { Ok(c3) => if *c3.secret != *c.secret { pb.push("read from a stream with another secret".into()); }, Err(e) => pb.push(format!("cannot be read from a buffer that continues: {e}")) }
                    let hb = h.serialize().unwrap(); let mut hbuf = hb.to_vec(); hbuf.extend_from_slice(b"payload after the header");
                    let mut de = cosmian_crypto_core::bytes_ser_de::Deserializer::new(&hbuf);
                    match de.read::<EncryptedHeader>() { Ok(h3) => if h3 != h { pb.push("encrypted header read from a stream differs".into()); }, Err(e) => pb.push(format!("encrypted header cannot be read from a buffer that continues: {e}")) }
                    format!("CL {}", if pb.is_empty() { "-".to_string() } else { pb.join(" ; ").replace(' ', "_") })
                }
                "HDRKEY" => { let md = opt(f[1]).unwrap_or_default(); let ad = opt(f[2]);
                    // does the SECRET RETURNED TO THE CALLER decrypt the encrypted metadata when used as the AES key?
                    use cosmian_crypto_core::{Dem, FixedSizeCBytes, Instantiable, Nonce, SymmetricKey};
                    let (s, h) = EncryptedHeader::generate(&cc, &mpk, &pol, Some(&md), ad.as_deref()).unwrap();
                    let emd = h.encrypted_metadata.unwrap();
                    let key = SymmetricKey::<32>::try_from_bytes((*s).clone()).unwrap();
                    let n = Nonce::<12>::try_from_slice(&emd[..12]).unwrap();
                    let mut same = false;
                    for a in [ad.as_deref(), None] { if Aes256Gcm::new(&key).decrypt(&n, &emd[12..], a).is_ok() { same = true; } }
                    if same { "SAME".into() } else { "DIFF".into() } }
                "HDRDECS" => { let u = if f[1] == "1" { &good } else { &bad };
                    let h = match EncryptedHeader::deserialize(&unhex(f[2])) { Ok(h) => h, Err(_) => return "UNPARSABLE".into() }; let ad = opt(f[3]);
                    match h.decrypt(&cc, u, ad.as_deref()) { Ok(Some(c)) => format!("OK:{}:{}", hex(&*c.secret), show(&c.metadata)), Ok(None) => "NONE".into(), Err(_) => "ERR".into() } }
                "HDRSER" => { let e = XEnc::deserialize(&unhex(f[1])).unwrap(); let h = EncryptedHeader { encapsulation: e, encrypted_metadata: opt(f[2]) };
                    let b = h.serialize().unwrap(); format!("{} {}", hex(&b), (b.len() == h.length()) as u8) }
                "HDRDE" => match EncryptedHeader::deserialize(&unhex(f[1])) { Ok(h) => format!("{} {}", hex(&h.encapsulation.serialize().unwrap()), show(&h.encrypted_metadata)), Err(_) => "UNPARSABLE".into() },
                _ => "??".into(),
            }
        });
        writeln!(out, "{}", r.unwrap_or_else(|_| "PANIC".into())).unwrap(); out.flush().unwrap();
    }
}
