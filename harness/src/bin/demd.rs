// C12 / C07(DEM) / C16 driver: PKE and encrypted-header layers.
//   PKE <pt hex|->                       -> "CT <enc hex> <ctx hex>"
//   PKEDEC <auth 0|1> <enc hex> <ctx hex|-> -> "OK:<pt hex>" | NONE | ERR | PANIC | UNPARSABLE
//   HDR <md hex|-|empty> <ad hex|-|empty> -> "HDR <enc hex> <emd hex|-> <secret hex>"
//   HDRDEC <auth> <enc hex> <emd hex|-|empty> <ad hex|-|empty> -> "OK:<secret hex>:<md hex|-|empty>" | NONE | ERR | PANIC | UNPARSABLE
//   HDRSER <enc hex> <emd hex|-|empty>   -> "<serialized hex> <length() ok>"   ; HDRDE <hex> -> "<enc hex> <emd|->" | UNPARSABLE
use cosmian_cover_crypt::{api::Covercrypt, traits::PkeAc, AccessPolicy, EncryptedHeader, EncryptionHint, QualifiedAttribute, XEnc};
use cosmian_crypto_core::{bytes_ser_de::Serializable, Aes256Gcm};
use std::io::{BufRead, Write};
#[path = "../common.rs"]
mod common;
use common::*;
fn qa(d: &str, n: &str) -> QualifiedAttribute { QualifiedAttribute::new(d, n) }
fn ap(s: &str) -> AccessPolicy { AccessPolicy::parse(s).unwrap() }
fn opt(s: &str) -> Option<Vec<u8>> { match s { "-" => None, "empty" => Some(vec![]), h => Some(unhex(h)) } }
fn show(o: &Option<Vec<u8>>) -> String { match o { None => "-".into(), Some(v) if v.is_empty() => "empty".into(), Some(v) => hex(v) } }
pub const MX_KEYS: [&str; 6] = ["D::a", "D::b", "D::c && S::h", "D::d", "S::l", "*"];
pub const MX_POLS: [&str; 6] = ["D::a", "D::a || D::c", "D::b || D::d", "D::b || D::a", "D::d && S::l", "S::h && D::b || D::c"];
fn main() {
    std::panic::set_hook(Box::new(|_| {}));
    let cc = Covercrypt::default();
    let (mut msk, _) = cc.setup().unwrap();
    let st = &mut msk.access_structure;
    st.add_anarchy("D".into()).unwrap();
    st.add_attribute(qa("D", "a"), EncryptionHint::Classic, None).unwrap();
    st.add_attribute(qa("D", "b"), EncryptionHint::Hybridized, None).unwrap();
    let mpk = cc.update_msk(&mut msk).unwrap();
    let good = cc.generate_user_secret_key(&mut msk, &ap("D::a")).unwrap();
    let bad = cc.generate_user_secret_key(&mut msk, &ap("D::b")).unwrap();
    let pol = ap("D::a");
    let out = std::io::stdout(); let mut out = std::io::BufWriter::new(out.lock());
    for line in std::io::stdin().lock().lines() {
        let line = line.unwrap(); let f: Vec<&str> = line.split(' ').collect();
        let r = std::panic::catch_unwind(|| -> String {
            match f[0] {
                "PKE" => { let pt = opt(f[1]).unwrap_or_default(); let (e, c) = <Covercrypt as PkeAc<32, Aes256Gcm>>::encrypt(&cc, &mpk, &pol, &pt).unwrap(); format!("CT {} {}", hex(&e.serialize().unwrap()), hex(&c)) }
                "PKEDEC" => { let u = if f[1] == "1" { &good } else { &bad };
                    let e = match XEnc::deserialize(&unhex(f[2])) { Ok(e) => e, Err(_) => return "UNPARSABLE".into() };
                    let c = opt(f[3]).unwrap_or_default();
                    match <Covercrypt as PkeAc<32, Aes256Gcm>>::decrypt(&cc, u, &(e, c)) { Ok(Some(p)) => format!("OK:{}", if p.is_empty() { "empty".to_string() } else { hex(&p) }), Ok(None) => "NONE".into(), Err(_) => "ERR".into() } }
                // MATRIX R: a richer structure (classic and hybridized attributes, a hierarchy), six keys x six policies
                // (single, classic multi-target, hybridized multi-target, MIXED classic+hybridized, conjunctions), each pair
                // R times through the PKE and the header layer; one line per trial, judged by the caller
                "MATRIX" => {
                    let r: usize = f[1].parse().unwrap();
                    let (mut m2, _) = cc.setup().unwrap();
                    let st = &mut m2.access_structure;
                    st.add_anarchy("D".into()).unwrap();
                    for (n, h) in [("a", false), ("b", true), ("c", false), ("d", true)] { st.add_attribute(qa("D", n), EncryptionHint::new(h), None).unwrap(); }
                    st.add_hierarchy("S".into()).unwrap();
                    st.add_attribute(qa("S", "l"), EncryptionHint::Classic, None).unwrap();
                    st.add_attribute(qa("S", "h"), EncryptionHint::Hybridized, Some("l")).unwrap();
                    let p2 = cc.update_msk(&mut m2).unwrap();
                    let keys: Vec<_> = MX_KEYS.iter().map(|p| cc.generate_user_secret_key(&mut m2, &ap(p)).unwrap()).collect();
                    let mut o = String::new();
                    for (ei, ep) in MX_POLS.iter().enumerate() { for rep in 0..r {
                        let pt = vec![rep as u8; 3 + rep];
                        let ct = <Covercrypt as PkeAc<32, Aes256Gcm>>::encrypt(&cc, &p2, &ap(ep), &pt).unwrap();
                        let (hs, hd) = EncryptedHeader::generate(&cc, &p2, &ap(ep), Some(b"md"), Some(b"ad")).unwrap();
                        let hd = EncryptedHeader::deserialize(&hd.serialize().unwrap()).unwrap();
                        for (ki, k) in keys.iter().enumerate() {
                            let a = match <Covercrypt as PkeAc<32, Aes256Gcm>>::decrypt(&cc, k, &ct) { Ok(Some(p)) => if *p == pt { "OK" } else { "WRONG" }, Ok(None) => "NONE", Err(_) => "ERR" };
                            let b = match hd.decrypt(&cc, k, Some(b"ad")) { Ok(Some(c)) => if *c.secret == *hs && c.metadata.as_deref() == Some(&b"md"[..]) { "OK" } else { "WRONG" }, Ok(None) => "NONE", Err(_) => "ERR" };
                            o += &format!("MX {ki} {ei} {rep} {a} {b};");
                        } } }
                    o }
                "HDR" => { let md = opt(f[1]); let ad = opt(f[2]);
                    let (s, h) = EncryptedHeader::generate(&cc, &mpk, &pol, md.as_deref(), ad.as_deref()).unwrap();
                    format!("HDR {} {} {}", hex(&h.encapsulation.serialize().unwrap()), show(&h.encrypted_metadata), hex(&*s)) }
                "HDRDEC" => { let u = if f[1] == "1" { &good } else { &bad };
                    let e = match XEnc::deserialize(&unhex(f[2])) { Ok(e) => e, Err(_) => return "UNPARSABLE".into() };
                    let h = EncryptedHeader { encapsulation: e, encrypted_metadata: opt(f[3]) }; let ad = opt(f[4]);
                    match h.decrypt(&cc, u, ad.as_deref()) { Ok(Some(c)) => format!("OK:{}:{}", hex(&*c.secret), show(&c.metadata)), Ok(None) => "NONE".into(), Err(_) => "ERR".into() } }
                "HDRKEY" => { let md = opt(f[1]).unwrap_or_default(); let ad = opt(f[2]);
                    // does the SECRET RETURNED TO THE CALLER decrypt the encrypted metadata when used as the AES key?
                    use cosmian_crypto_core::{Dem, FixedSizeCBytes, Instantiable, Nonce, SymmetricKey};
                    let (s, h) = EncryptedHeader::generate(&cc, &mpk, &pol, Some(&md), ad.as_deref()).unwrap();
                    let emd = h.encrypted_metadata.unwrap();
                    let key = SymmetricKey::<32>::try_from_bytes((*s).clone()).unwrap();
                    let n = Nonce::<12>::try_from_slice(&emd[..12]).unwrap();
                    let mut same = false;
                    for a in [ad.as_deref(), None] { if Aes256Gcm::new(&key).decrypt(&n, &emd[12..], a).is_ok() { same = true; } }
                    if same { "SAME".into() } else { "DIFF".into() } }
                "HDRDECS" => { let u = if f[1] == "1" { &good } else { &bad };
                    let h = match EncryptedHeader::deserialize(&unhex(f[2])) { Ok(h) => h, Err(_) => return "UNPARSABLE".into() }; let ad = opt(f[3]);
                    match h.decrypt(&cc, u, ad.as_deref()) { Ok(Some(c)) => format!("OK:{}:{}", hex(&*c.secret), show(&c.metadata)), Ok(None) => "NONE".into(), Err(_) => "ERR".into() } }
                "HDRSER" => { let e = XEnc::deserialize(&unhex(f[1])).unwrap(); let h = EncryptedHeader { encapsulation: e, encrypted_metadata: opt(f[2]) };
                    let b = h.serialize().unwrap(); format!("{} {}", hex(&b), (b.len() == h.length()) as u8) }
                "HDRDE" => match EncryptedHeader::deserialize(&unhex(f[1])) { Ok(h) => format!("{} {}", hex(&h.encapsulation.serialize().unwrap()), show(&h.encrypted_metadata)), Err(_) => "UNPARSABLE".into() },
                _ => "??".into(),
            }
        });
        writeln!(out, "{}", r.unwrap_or_else(|_| "PANIC".into())).unwrap(); out.flush().unwrap();
    }
}
