(* Invariants of the key-management state machine (KeysMachine.step) in [fixed] mode, over all histories.
   Part 1: reachability, generic induction principles for the loops of Keys.v,
           I1 (chains_nonempty) and I4 (ids_registered). *)
From Coq Require Import List NArith Bool Arith Lia.
From CC Require Import Policy Structure Keys KeysMachine SelProofs GoodProofs CoverProofs1 CoverProofs2 RefreshProofs DisabledProofs.
Import ListNotations.
Local Open Scope N_scope.

Arguments N.add : simpl never. Arguments N.sub : simpl never. Arguments N.mul : simpl never.
Arguments N.eqb : simpl never. Arguments N.ltb : simpl never. Arguments N.leb : simpl never.

(* the two names for "all switches on" coincide *)
Lemma fixed_eq : fixed = RefreshProofs.fx_all. Proof. reflexivity. Qed.

(* ---------------------------------------------------------------- reachability *)
Definition reach (s : state) : Prop := exists ops, s = run_state fixed init ops.

Lemma run_state_app fx s a b : run_state fx s (a ++ b) = run_state fx (run_state fx s a) b.
Proof. unfold run_state. apply fold_left_app. Qed.
Lemma run_state_snoc fx s a o : run_state fx s (a ++ [o]) = fst (step fx (run_state fx s a) o).
Proof. rewrite run_state_app. reflexivity. Qed.
Lemma run_state_cons fx s o t : run_state fx s (o :: t) = run_state fx (fst (step fx s o)) t.
Proof. reflexivity. Qed.

Lemma reach_init : reach init. Proof. exists []. reflexivity. Qed.
Lemma reach_step s o : reach s -> reach (fst (step fixed s o)).
Proof. intros (ops & ->). exists (ops ++ [o]). rewrite run_state_snoc. reflexivity. Qed.
Lemma reach_run s ops : reach s -> reach (run_state fixed s ops).
Proof. revert s. induction ops as [|o t IH]; intros s H; [exact H|]. rewrite run_state_cons. apply IH. apply reach_step. exact H. Qed.

Theorem reach_ind (P : state -> Prop) :
  P init -> (forall s o, reach s -> P s -> P (fst (step fixed s o))) -> forall s, reach s -> P s.
Proof.
  intros H0 Hs s (ops & ->). induction ops as [|o ops IH] using rev_ind; [exact H0|].
  rewrite run_state_snoc. apply Hs; [exists ops; reflexivity|exact IH].
Qed.

Lemma run_fst fx : forall ops s, fst (run fx s ops) = run_state fx s ops.
Proof.
  induction ops as [|o t IH]; intros s; [reflexivity|]. cbn [run]. rewrite run_state_cons, <- IH.
  destruct (step fx s o) as [s' b]. cbn [fst]. destruct (run fx s' t). reflexivity.
Qed.

(* ---------------------------------------------------------------- association lists on rights *)
Lemma rlookup_None {A} k (l : list (rightk * A)) : rlookup k l = None <-> ~ In k (map fst l).
Proof.
  induction l as [|[k' v] l IH]; cbn; [tauto|]. destruct (list_N_eqb k k') eqn:E.
  - apply list_N_eqb_eq in E. subst. split; [discriminate|]. intros H. exfalso. apply H. left. reflexivity.
  - rewrite IH. split; [|tauto]. intros H [H1|H1]; [subst; rewrite list_N_eqb_refl in E; discriminate|tauto].
Qed.
Lemma In_rlookup {A} k (v : A) l : NoDup (map fst l) -> In (k, v) l -> rlookup k l = Some v.
Proof.
  induction l as [|[k' v'] l IH]; cbn; intros Hnd Hin; [destruct Hin|]. inversion Hnd as [|? ? Hk Hnd']; subst.
  destruct Hin as [E|Hin]; [inversion E; subst; rewrite list_N_eqb_refl; reflexivity|].
  destruct (list_N_eqb k k') eqn:E; [|apply IH; assumption]. apply list_N_eqb_eq in E. subst. exfalso. apply Hk.
  apply in_map_iff. exists (k', v). split; [reflexivity|exact Hin].
Qed.
Lemma rlookup_Some_key {A} k (v : A) l : rlookup k l = Some v -> In k (map fst l).
Proof. intros H. apply rlookup_In in H. apply in_map_iff. exists (k, v). split; [reflexivity|exact H]. Qed.
Lemma keys_rreplace {A} k (v : A) l : map fst (rreplace k v l) = map fst l.
Proof.
  induction l as [|[k' v'] l IH]; cbn; [reflexivity|]. destruct (list_N_eqb k k') eqn:E; cbn.
  - apply list_N_eqb_eq in E. subst. reflexivity.
  - rewrite IH. reflexivity.
Qed.
Lemma rmem_true {A} k (l : list (rightk * A)) : rmem k l = true <-> In k (map fst l).
Proof.
  unfold rmem. destruct (rlookup k l) eqn:E.
  - split; [intros _; eapply rlookup_Some_key; exact E|reflexivity].
  - split; [discriminate|]. intros H. apply rlookup_None in E. contradiction.
Qed.
Lemma rmem_false {A} k (l : list (rightk * A)) : rmem k l = false <-> ~ In k (map fst l).
Proof. rewrite <- rmem_true. destruct (rmem k l); split; congruence. Qed.
Lemma rreplace_In_new {A} k (v : A) l : In k (map fst l) -> In (k, v) (rreplace k v l).
Proof.
  induction l as [|[k' v'] l IH]; cbn; [intros []|]. destruct (list_N_eqb k k') eqn:E; [left; reflexivity|].
  intros [H|H]; [subst; rewrite list_N_eqb_refl in E; discriminate|right; apply IH; exact H].
Qed.
Lemma rreplace_In_old {A} k (v : A) l r x : r <> k -> In (r, x) l -> In (r, x) (rreplace k v l).
Proof.
  intros Hne. induction l as [|[k' v'] l IH]; cbn; [intros []|]. destruct (list_N_eqb k k') eqn:E.
  - apply list_N_eqb_eq in E. subst k'. intros [H|H]; [inversion H; subst; contradiction|right; exact H].
  - intros [H|H]; [left; exact H|right; apply IH; exact H].
Qed.

Lemma set_nth_In {A} (x : A) : forall l i y, In y (set_nth i x l) -> y = x \/ In y l.
Proof.
  induction l as [|h t IH]; intros i y H; [destruct i; destruct H|]. destruct i as [|i]; cbn in H.
  - destruct H as [H|H]; [left; symmetry; exact H|right; right; exact H].
  - destruct H as [H|H]; [right; left; exact H|]. destruct (IH i y H); [left|right; right]; assumption.
Qed.
Lemma set_nth_same {A} : forall (l : list A) i x, nth_error l i = Some x -> set_nth i x l = l.
Proof.
  induction l as [|h t IH]; intros i x H; [destruct i; reflexivity|]. destruct i as [|i]; cbn in *.
  - inversion H; subst. reflexivity.
  - rewrite IH by exact H. reflexivity.
Qed.
Lemma set_nth_map {A B} (f : A -> B) : forall (l : list A) i x y, nth_error l i = Some y -> f x = f y ->
  map f (set_nth i x l) = map f l.
Proof.
  induction l as [|h t IH]; intros i x y H E; [destruct i; reflexivity|]. destruct i as [|i]; cbn in *.
  - inversion H; subst. rewrite E. reflexivity.
  - erewrite IH by eassumption. reflexivity.
Qed.
Lemma set_nth_length {A} : forall (l : list A) i x, length (set_nth i x l) = length l.
Proof. induction l as [|h t IH]; intros [|i] x; cbn; try reflexivity. rewrite IH. reflexivity. Qed.
Lemma nth_error_set_nth {A} : forall (l : list A) i j x, (i < length l)%nat ->
  nth_error (set_nth i x l) j = if Nat.eqb i j then Some x else nth_error l j.
Proof.
  induction l as [|h t IH]; intros i j x Hl; [cbn in Hl; lia|]. destruct i as [|i], j as [|j]; cbn; try reflexivity.
  apply IH. cbn in Hl. lia.
Qed.

(* ---------------------------------------------------------------- induction principles for the loops *)
Definition chains := list (rightk * list (bool * secret)).
Definition downgrade (hyb : bool) (s : secret) : secret := if hyb then s else {| tok := tok s; s_hyb := false |}.

Lemma upd_loop_ind (rights0 : list (rightk * (bool * bool))) (Q : chains -> N -> Prop) :
  (forall r hyb enc fl s older secs ctr, In (r, (hyb, enc)) rights0 -> rlookup r secs = Some ((fl, s) :: older) ->
      Q secs ctr -> Q (rreplace r ((enc, downgrade hyb s) :: older) secs) ctr) ->
  (forall r hyb secs ctr, In (r, (hyb, true)) rights0 -> rlookup r secs = None ->
      Q secs ctr -> Q (secs ++ [(r, [(true, {| tok := ctr; s_hyb := hyb |})])]) (N.succ ctr)) ->
  forall rights, incl rights rights0 -> forall secs ctr secs' ctr', nonempty_chains secs ->
  Q secs ctr -> upd_loop rights secs ctr = ROk (secs', ctr') -> Q secs' ctr' /\ nonempty_chains secs'.
Proof.
  intros Hrep Hnew. induction rights as [|[r [hyb enc]] rights IH]; intros Hinc secs ctr secs' ctr' Hne HQ H; cbn [upd_loop] in H.
  - inversion H; subst. split; assumption.
  - assert (Hin : In (r, (hyb, enc)) rights0) by (apply Hinc; left; reflexivity).
    assert (Hinc' : incl rights rights0) by (intros x Hx; apply Hinc; right; exact Hx).
    destruct (rlookup r secs) as [[|[fl s] older]|] eqn:El.
    + exfalso. eapply Hne; [apply rlookup_In; exact El|reflexivity].
    + eapply (IH Hinc'); [| |exact H].
      * intros r' ch Hin'. apply rreplace_In in Hin'. destruct Hin' as [E|Hin']; [inversion E; subst; discriminate|eapply Hne; exact Hin'].
      * eapply Hrep; eassumption.
    + destruct enc; [|discriminate]. cbn [negb] in H. eapply (IH Hinc'); [| |exact H].
      * intros r' ch Hin'. apply in_app_iff in Hin'. destruct Hin' as [Hin'|[E|[]]]; [eapply Hne; exact Hin'|inversion E; subst; discriminate].
      * apply Hnew; assumption.
Qed.

Lemma rekey_loop_ind (Q : chains -> N -> Prop) :
  (forall r fl s older secs ctr, rlookup r secs = Some ((fl, s) :: older) ->
      Q secs ctr -> Q (rreplace r ((fl, {| tok := ctr; s_hyb := s_hyb s |}) :: (fl, s) :: older) secs) (N.succ ctr)) ->
  forall rs secs ctr, Q secs ctr ->
  Q (fst (rekey_loop fixed rs secs ctr)) (snd (rekey_loop fixed rs secs ctr)).
Proof.
  intros Hst. induction rs as [|r rs IH]; intros secs ctr HQ; cbn [rekey_loop]; [exact HQ|].
  destruct (rlookup r secs) as [[|[fl s] older]|] eqn:El; try (apply IH; exact HQ).
  apply IH. cbn [fx_rekey_flag fixed KeysMachine.fx_all]. apply Hst; assumption.
Qed.

(* ---------------------------------------------------------------- shape of [step fixed] per operation *)
Lemma with_msk_ctr_id s : with_msk_ctr s (st_msk s) (st_ctr s) = s.
Proof. destruct s; reflexivity. Qed.
Lemma msk_eta m : {| m_users := m_users m; m_secrets := m_secrets m; m_st := m_st m |} = m.
Proof. destruct m; reflexivity. Qed.

Definition kept_secrets (m : msk) : chains := filter (fun rs => rmem (fst rs) (omega_map (m_st m))) (m_secrets m).

Lemma update_msk_fixed m ctr :
  update_msk fixed m ctr =
  match upd_loop (omega_map (m_st m)) (kept_secrets m) ctr with
  | ROk (secs, c') => let m' := {| m_users := m_users m; m_secrets := secs; m_st := m_st m |} in (ROk m', m', c')
  | RErr => (RErr, m, ctr)
  end.
Proof. unfold update_msk, kept_secrets. destruct (upd_loop _ _ _) as [[secs c']|]; reflexivity. Qed.

(* ---------------------------------------------------------------- I1 : chains_nonempty *)
Definition usk_ne (u : usk) : Prop := forall r ch, In (r, ch) (u_chains u) -> ch <> [].
Record I1 (s : state) : Prop := {
  i1_ne  : nonempty_chains (m_secrets (st_msk s));
  i1_nd  : NoDup (map fst (m_secrets (st_msk s)));
  i1_usk : forall u, In u (st_usks s) -> usk_ne u }.

Lemma upd_loop_I1 rights secs ctr secs' ctr' :
  nonempty_chains secs -> NoDup (map fst secs) -> upd_loop rights secs ctr = ROk (secs', ctr') ->
  nonempty_chains secs' /\ NoDup (map fst secs') /\ ctr <= ctr'.
Proof.
  intros Hne Hnd H.
  destruct (upd_loop_ind rights (fun secs c => NoDup (map fst secs) /\ ctr <= c)) with (3 := incl_refl rights) (6 := H) as [[H1 H2] H3].
  - intros r hyb enc fl s older secs0 c _ _ [Hq Hc]. rewrite keys_rreplace. split; assumption.
  - intros r hyb secs0 c _ El [Hq Hc]. split; [|lia]. rewrite map_app. cbn. apply NoDup_app_intro.
    + exact Hq.
    + constructor; [intros []|constructor].
    + intros x Hx [<-|[]]. apply rlookup_None in El. contradiction.
  - exact Hne.
  - split; [exact Hnd|lia].
  - repeat split; assumption.
Qed.

Lemma rekey_loop_I1 rs secs ctr :
  nonempty_chains secs -> NoDup (map fst secs) ->
  nonempty_chains (fst (rekey_loop fixed rs secs ctr)) /\ NoDup (map fst (fst (rekey_loop fixed rs secs ctr))) /\
  ctr <= snd (rekey_loop fixed rs secs ctr).
Proof.
  intros Hne Hnd.
  apply (rekey_loop_ind (fun secs c => nonempty_chains secs /\ NoDup (map fst secs) /\ ctr <= c)); [|repeat split; [assumption|assumption|lia]].
  intros r fl s older secs0 c El (H1 & H2 & H3). repeat split; [|rewrite keys_rreplace; exact H2|lia].
  intros r' ch Hin. apply rreplace_In in Hin. destruct Hin as [E|Hin]; [inversion E; subst; discriminate|eapply H1; exact Hin].
Qed.

Lemma prune_I1 m rs : nonempty_chains (m_secrets m) -> NoDup (map fst (m_secrets m)) ->
  nonempty_chains (m_secrets (prune m rs)) /\ NoDup (map fst (m_secrets (prune m rs))).
Proof.
  intros Hne Hnd. unfold prune. cbn [m_secrets]. split.
  - intros r ch Hin. apply in_map_iff in Hin. destruct Hin as ([r0 ch0] & E & Hin). specialize (Hne r0 ch0 Hin).
    destruct (existsb (list_N_eqb r0) rs); inversion E; subst; [|exact Hne]. destruct ch0; [contradiction|discriminate].
  - rewrite map_map. erewrite map_ext; [exact Hnd|]. intros [r0 ch0]. destruct (existsb (list_N_eqb r0) rs); reflexivity.
Qed.

Lemma latest_all_spec m : forall rs chs, latest_all m rs = ROk chs ->
  map fst chs = rs /\ forall r ch, In (r, ch) chs -> exists fl s older, rlookup r (m_secrets m) = Some ((fl, s) :: older) /\ ch = [s].
Proof.
  induction rs as [|r rs IH]; intros chs H; cbn [latest_all] in H.
  - inversion H; subst. split; [reflexivity|intros ? ? []].
  - destruct (rlookup r (m_secrets m)) as [[|[fl s] older]|] eqn:El; try discriminate.
    destruct (latest_all m rs) as [l|] eqn:Ela; [|discriminate]. inversion H; subst. destruct (IH l eq_refl) as [H1 H2]. split.
    + cbn. rewrite H1. reflexivity.
    + intros r' ch [E|Hin]; [inversion E; subst; eauto|apply H2; exact Hin].
Qed.

(* the repaired refresh of one chain yields a non-empty prefix of the MSK chain (no invariant needed) *)
Lemma take_until_split first : forall mch a rest found, take_until first mch = (a, rest, found) ->
  (found = true /\ secs mch = a ++ first :: secs rest) \/ (found = false /\ a = secs mch).
Proof.
  induction mch as [|[fl s] mch IH]; intros a rest found H; cbn [take_until] in H.
  - inversion H; subst. right. split; reflexivity.
  - destruct (sec_eqb s first) eqn:E.
    + inversion H; subst. apply sec_eqb_eq in E. subst. left. split; reflexivity.
    + destruct (take_until first mch) as [[a0 rest0] found0] eqn:Et. inversion H; subst. destruct (IH _ _ _ eq_refl) as [[Hf E1]|[Hf E1]].
      * left. split; [exact Hf|]. cbn. f_equal. exact E1.
      * right. split; [exact Hf|]. cbn. f_equal. exact E1.
Qed.

Lemma common_prefix : forall uch mch, exists k, common uch mch = firstn k (secs mch).
Proof.
  induction uch as [|u ut IH]; intros mch; [exists 0%nat; reflexivity|]. destruct mch as [|[fl s] mt]; [exists 0%nat; reflexivity|].
  cbn [common]. destruct (sec_eqb s u); [|exists 0%nat; reflexivity]. destruct (IH mt) as (k & Hk). exists (S k). cbn. rewrite Hk. reflexivity.
Qed.

Lemma firstn_app_exact {A} (a b : list A) k : firstn (length a + k) (a ++ b) = a ++ firstn k b.
Proof. rewrite firstn_app, firstn_all2 by lia. f_equal. f_equal. lia. Qed.

Theorem refresh_chain_prefix mch uch c : mch <> [] -> refresh_chain fixed mch uch = Some c ->
  exists k, (1 <= k)%nat /\ c = firstn k (secs mch).
Proof.
  intros Hne H. unfold refresh_chain in H. destruct uch as [|first urest]; [discriminate|].
  destruct (take_until first mch) as [[newer mrest] found] eqn:Et.
  destruct (take_until_split _ _ _ _ _ Et) as [[-> E1]|[-> E1]].
  - inversion H; subst c; clear H. destruct (common_prefix urest mrest) as (k & Hk). exists (length newer + S k)%nat. split; [lia|].
    rewrite Hk, E1, firstn_app_exact. reflexivity.
  - cbn [fx_prune fixed KeysMachine.fx_all] in H. inversion H; subst c. exists (length mch). split.
    + destruct mch; [contradiction|cbn; lia].
    + rewrite E1. unfold secs. rewrite firstn_all2; [reflexivity|rewrite map_length; lia].
Qed.

Lemma firstn_ne {A} k (l : list A) : (1 <= k)%nat -> l <> [] -> firstn k l <> [].
Proof. intros Hk Hl. destruct k; [lia|]. destruct l; [contradiction|discriminate]. Qed.

(* the chains of a refreshed key *)
Definition refresh_keep_chains (m : msk) (u : usk) : list (rightk * list secret) :=
  flat_map (fun '(r, uch) => match rlookup r (m_secrets m) with
                             | Some mch => match refresh_chain fixed mch uch with Some c => [(r, c)] | None => [] end
                             | None => [] end) (u_chains u).
Definition refresh_nokeep_chains (m : msk) (u : usk) : list (rightk * list secret) :=
  flat_map (fun '(r, _) => match rlookup r (m_secrets m) with Some ((_, s) :: _) => [(r, [s])] | _ => [] end) (u_chains u).

Lemma refresh_fixed m u keep :
  refresh fixed m u keep =
  match u_id u with
  | None => (RErr, u)
  | Some id => if negb (existsb (N.eqb id) (m_users m)) then (RErr, u)
               else let u' := {| u_id := Some id; u_chains := if keep then refresh_keep_chains m u else refresh_nokeep_chains m u |} in (ROk u', u')
  end.
Proof. unfold refresh. destruct (u_id u); [|reflexivity]. destruct (negb _); [reflexivity|]. destruct keep; reflexivity. Qed.

Lemma refresh_keep_chains_In m u r c : In (r, c) (refresh_keep_chains m u) ->
  exists mch uch, In (r, uch) (u_chains u) /\ rlookup r (m_secrets m) = Some mch /\ refresh_chain fixed mch uch = Some c.
Proof.
  unfold refresh_keep_chains. intros H. apply in_flat_map in H. destruct H as ([r0 uch] & Hin & H).
  destruct (rlookup r0 (m_secrets m)) as [mch|] eqn:El; [|destruct H]. destruct (refresh_chain fixed mch uch) as [c0|] eqn:Er; [|destruct H].
  destruct H as [E|[]]. inversion E; subst. exists mch, uch. repeat split; assumption.
Qed.
Lemma refresh_nokeep_chains_In m u r c : In (r, c) (refresh_nokeep_chains m u) ->
  exists fl s older uch, In (r, uch) (u_chains u) /\ rlookup r (m_secrets m) = Some ((fl, s) :: older) /\ c = [s].
Proof.
  unfold refresh_nokeep_chains. intros H. apply in_flat_map in H. destruct H as ([r0 uch] & Hin & H).
  destruct (rlookup r0 (m_secrets m)) as [[|[fl s] older]|] eqn:El; try destruct H as [E|[]]; try destruct H. inversion E; subst.
  exists fl, s, older, uch. repeat split; assumption.
Qed.

Lemma refresh_usk_ne m u keep : nonempty_chains (m_secrets m) -> usk_ne u -> usk_ne (snd (refresh fixed m u keep)).
Proof.
  intros Hne Hu. rewrite refresh_fixed. destruct (u_id u) as [id|]; [|exact Hu]. destruct (negb _); [exact Hu|]. cbn [snd u_chains].
  intros r c Hin. cbn [u_chains] in Hin. destruct keep.
  - destruct (refresh_keep_chains_In _ _ _ _ Hin) as (mch & uch & _ & El & Er).
    assert (Hm : mch <> []) by (eapply Hne; apply rlookup_In; exact El).
    destruct (refresh_chain_prefix _ _ _ Hm Er) as (k & Hk & ->). apply firstn_ne; [exact Hk|]. destruct mch; [contradiction|discriminate].
  - destruct (refresh_nokeep_chains_In _ _ _ _ Hin) as (fl & s & older & uch & _ & _ & ->). discriminate.
Qed.

Lemma filter_I1 (f : rightk * list (bool * secret) -> bool) secs :
  nonempty_chains secs -> NoDup (map fst secs) -> nonempty_chains (filter f secs) /\ NoDup (map fst (filter f secs)).
Proof.
  intros Hne Hnd. split.
  - intros r ch Hin. apply filter_In in Hin. eapply Hne. apply Hin.
  - apply NoDup_map_filter. exact Hnd.
Qed.

Lemma update_msk_I1 m ctr r m' c : nonempty_chains (m_secrets m) -> NoDup (map fst (m_secrets m)) ->
  update_msk fixed m ctr = (r, m', c) ->
  nonempty_chains (m_secrets m') /\ NoDup (map fst (m_secrets m')) /\ ctr <= c /\ m_users m' = m_users m /\ m_st m' = m_st m.
Proof.
  intros Hne Hnd H. rewrite update_msk_fixed in H. destruct (upd_loop _ _ _) as [[secs c']|] eqn:Eu.
  - cbn in H. inversion H; subst; clear H. cbn [m_secrets m_users m_st].
    destruct (filter_I1 (fun rs => rmem (fst rs) (omega_map (m_st m))) _ Hne Hnd) as [H1 H2].
    destruct (upd_loop_I1 _ _ _ _ _ H1 H2 Eu) as (H3 & H4 & H5). repeat split; assumption.
  - inversion H; subst. repeat split; try assumption. lia.
Qed.

Lemma I1_init : I1 init.
Proof. constructor; cbn; [intros ? ? []|constructor|intros ? []]. Qed.

Lemma I1_with_st s t : I1 s -> I1 (with_st s t).
Proof. intros [H1 H2 H3]. constructor; assumption. Qed.
Lemma I1_edit s r : I1 s -> I1 (fst (edit s r)).
Proof. intros H. destruct r; cbn; try exact H. apply I1_with_st. exact H. Qed.

Theorem I1_step s o : I1 s -> I1 (fst (step fixed s o)).
Proof.
  intros HI. pose proof HI as [Hne Hnd Hu]. destruct o; cbn [step]; try (apply I1_edit; exact HI).
  - (* OSetup *)
    destruct (update_msk fixed empty_msk 0) as [[r m'] c] eqn:E. cbn [fst push_mpk st_msk st_usks].
    destruct (update_msk_I1 empty_msk 0 r m' c) as (H1 & H2 & _); [intros ? ? []|constructor|exact E|].
    constructor; cbn; [exact H1|exact H2|intros ? []].
  - (* OUpdate *)
    destruct (update_msk fixed (st_msk s) (st_ctr s)) as [[r m'] c] eqn:E.
    destruct (update_msk_I1 _ _ _ _ _ Hne Hnd E) as (H1 & H2 & _).
    destruct r; cbn; constructor; assumption.
  - (* OMpk *) cbn. constructor; assumption.
  - (* ORekey *)
    destruct (usk_rights fixed (m_st (st_msk s)) p) as [rs|]; [|exact HI]. unfold rekey.
    destruct (forallb _ rs); [|cbn; rewrite with_msk_ctr_id; exact HI].
    destruct (rekey_loop fixed rs (m_secrets (st_msk s)) (st_ctr s)) as [secs c] eqn:E.
    destruct (rekey_loop_I1 rs _ (st_ctr s) Hne Hnd) as (H1 & H2 & _). rewrite E in H1, H2. cbn. constructor; assumption.
  - (* OPrune *)
    destruct (usk_rights fixed (m_st (st_msk s)) p) as [rs|]; [|exact HI]. cbn.
    destruct (prune_I1 (st_msk s) rs Hne Hnd) as [H1 H2]. constructor; assumption.
  - (* OKeygen *)
    destruct (usk_rights fixed (m_st (st_msk s)) p) as [rs|]; [|exact HI]. unfold keygen.
    destruct (latest_all (st_msk s) rs) as [chs|] eqn:El; [|cbn; rewrite with_msk_ctr_id; exact HI].
    cbn. constructor; cbn; try assumption. intros u Hin. apply in_app_iff in Hin. destruct Hin as [Hin|[<-|[]]]; [apply Hu; exact Hin|].
    intros r ch Hc. cbn in Hc. destruct (latest_all_spec _ _ _ El) as [_ H2]. destruct (H2 r ch Hc) as (fl & s0 & older & _ & ->). discriminate.
  - (* ORefresh *)
    destruct (nth_error (st_usks s) k) as [u|] eqn:En; [|exact HI].
    destruct (refresh fixed (st_msk s) u keep) as [r u'] eqn:Er. cbn. constructor; cbn; try assumption.
    intros u0 Hin. apply set_nth_In in Hin. destruct Hin as [->|Hin]; [|apply Hu; exact Hin].
    replace u' with (snd (refresh fixed (st_msk s) u keep)) by (rewrite Er; reflexivity).
    apply refresh_usk_ne; [exact Hne|]. apply Hu. eapply nth_error_In. exact En.
  - (* OEncaps *)
    destruct (nth_error (st_mpks s) j) as [pk|]; [|exact HI]. destruct (enc_rights fixed (p_st pk) p) as [rs|]; [|exact HI].
    destruct (encaps_rights pk rs (st_ctr s)) as [[x|] c]; [|exact HI]. cbn. constructor; assumption.
  - (* ODecaps *)
    destruct (nth_error (st_usks s) k) as [u|]; [|exact HI]. destruct (nth_error (st_encs s) e); [|exact HI]. destruct (u_chains u); exact HI.
  - (* ORecaps *)
    destruct (nth_error (st_mpks s) j) as [pk|]; [|exact HI]. destruct (nth_error (st_encs s) e) as [x|]; [|exact HI].
    destruct (recaps fixed (st_msk s) pk x (st_ctr s)) as [[x'|] c]; [|exact HI]. cbn. constructor; assumption.
  - (* ORoundTrip *) exact HI.
Qed.

Theorem chains_nonempty : forall ops, I1 (run_state fixed init ops).
Proof. intros ops. apply (reach_ind I1); [exact I1_init|intros s o _; apply I1_step|exists ops; reflexivity]. Qed.
Print Assumptions chains_nonempty.

(* ---------------------------------------------------------------- I4 : ids_registered (C17, token level) *)
Record I4 (s : state) : Prop := {
  i4_reg : forall u, In u (st_usks s) -> exists i, u_id u = Some i /\ In i (m_users (st_msk s));
  i4_nd  : NoDup (map u_id (st_usks s));
  i4_lt  : forall i, In i (m_users (st_msk s)) -> i < st_ctr s;
  i4_und : NoDup (m_users (st_msk s)) }.

Lemma I4_init : I4 init.
Proof. constructor; cbn; [intros ? []|constructor|intros ? []|constructor]. Qed.
Lemma I4_edit s r : I4 s -> I4 (fst (edit s r)).
Proof. intros [H1 H2 H3 H4]. destruct r; cbn; constructor; assumption. Qed.

Lemma refresh_id m u keep : u_id (snd (refresh fixed m u keep)) = u_id u.
Proof.
  rewrite refresh_fixed. destruct (u_id u) as [id|] eqn:E; [|exact E]. destruct (negb _); [exact E|reflexivity].
Qed.

Lemma rekey_ctr_le rs secs ctr : ctr <= snd (rekey_loop fixed rs secs ctr).
Proof. apply (rekey_loop_ind (fun _ c => ctr <= c)); [intros; lia|lia]. Qed.

Theorem I4_step s o : I1 s -> I4 s -> I4 (fst (step fixed s o)).
Proof.
  intros [Hne Hnd _] HI. pose proof HI as [Hreg Hun Hlt Hud]. destruct o; cbn [step]; try (apply I4_edit; exact HI).
  - destruct (update_msk fixed empty_msk 0) as [[r m'] c] eqn:E.
    destruct (update_msk_I1 empty_msk 0 r m' c) as (_ & _ & _ & Hus & _); [intros ? ? []|constructor|exact E|].
    constructor; cbn; [intros ? []|constructor|rewrite Hus; intros ? []|rewrite Hus; constructor].
  - destruct (update_msk fixed (st_msk s) (st_ctr s)) as [[r m'] c] eqn:E.
    destruct (update_msk_I1 _ _ _ _ _ Hne Hnd E) as (_ & _ & Hc & Hus & _).
    destruct r; cbn; constructor; cbn; rewrite ?Hus; try assumption; intros i Hi; apply Hlt in Hi; lia.
  - cbn. constructor; assumption.
  - destruct (usk_rights fixed (m_st (st_msk s)) p) as [rs|]; [|exact HI]. unfold rekey.
    destruct (forallb _ rs); [|cbn; rewrite with_msk_ctr_id; exact HI].
    pose proof (rekey_ctr_le rs (m_secrets (st_msk s)) (st_ctr s)) as Hc.
    destruct (rekey_loop fixed rs (m_secrets (st_msk s)) (st_ctr s)) as [secs c] eqn:E. cbn in Hc |- *.
    constructor; cbn; try assumption. intros i Hi. apply Hlt in Hi. lia.
  - destruct (usk_rights fixed (m_st (st_msk s)) p) as [rs|]; [|exact HI]. cbn. constructor; assumption.
  - destruct (usk_rights fixed (m_st (st_msk s)) p) as [rs|]; [|exact HI]. unfold keygen.
    destruct (latest_all (st_msk s) rs) as [chs|] eqn:El; [|cbn; rewrite with_msk_ctr_id; exact HI].
    cbn. constructor; cbn.
    + intros u Hin. apply in_app_iff in Hin. destruct Hin as [Hin|[<-|[]]].
      * destruct (Hreg u Hin) as (i & H1 & H2). exists i. split; [exact H1|right; exact H2].
      * exists (st_ctr s). split; [reflexivity|left; reflexivity].
    + rewrite map_app. cbn. apply NoDup_app_intro; [exact Hun|constructor; [intros []|constructor]|].
      intros x Hx [<-|[]]. apply in_map_iff in Hx. destruct Hx as (u & Hid & Hin). destruct (Hreg u Hin) as (i & H1 & H2).
      rewrite H1 in Hid. inversion Hid; subst. apply Hlt in H2. lia.
    + intros i [<-|Hi]; [lia|]. apply Hlt in Hi. lia.
    + constructor; [|exact Hud]. intros Hin. apply Hlt in Hin. lia.
  - destruct (nth_error (st_usks s) k) as [u|] eqn:En; [|exact HI].
    destruct (refresh fixed (st_msk s) u keep) as [r u'] eqn:Er. cbn.
    assert (Hid : u_id u' = u_id u) by (replace u' with (snd (refresh fixed (st_msk s) u keep)) by (rewrite Er; reflexivity); apply refresh_id).
    constructor; cbn; try assumption.
    + intros u0 Hin. apply set_nth_In in Hin. destruct Hin as [->|Hin]; [|apply Hreg; exact Hin].
      rewrite Hid. apply Hreg. eapply nth_error_In. exact En.
    + erewrite set_nth_map; [exact Hun|exact En|exact Hid].
  - destruct (nth_error (st_mpks s) j) as [pk|]; [|exact HI]. destruct (enc_rights fixed (p_st pk) p) as [rs|]; [|exact HI].
    unfold encaps_rights. destruct (all_rights_keys pk rs); [|exact HI]. cbn. constructor; cbn; try assumption.
    intros i Hi. apply Hlt in Hi. lia.
  - destruct (nth_error (st_usks s) k) as [u|]; [|exact HI]. destruct (nth_error (st_encs s) e); [|exact HI]. destruct (u_chains u); exact HI.
  - destruct (nth_error (st_mpks s) j) as [pk|]; [|exact HI]. destruct (nth_error (st_encs s) e) as [x|]; [|exact HI].
    unfold recaps. destruct (full_decaps (st_msk s) x) as [|r0 rs0]; [exact HI|].
    cbn [fx_recaps fixed KeysMachine.fx_all]. destruct (filter _ (r0 :: rs0)) as [|r1 rs1]; [exact HI|].
    unfold encaps_rights. destruct (all_rights_keys pk (r1 :: rs1)); [|exact HI]. cbn. constructor; cbn; try assumption.
    intros i Hi. apply Hlt in Hi. lia.
  - exact HI.
Qed.

Definition Inv14 (s : state) : Prop := I1 s /\ I4 s.
Theorem inv14_reach s : reach s -> Inv14 s.
Proof.
  apply (reach_ind Inv14); [split; [exact I1_init|exact I4_init]|].
  intros s0 o _ [H1 H4]. split; [apply I1_step; exact H1|apply I4_step; assumption].
Qed.
Theorem ids_registered : forall ops, I4 (run_state fixed init ops).
Proof. intros ops. apply inv14_reach. exists ops. reflexivity. Qed.
Print Assumptions ids_registered.

(* C09: refreshing an issued key always succeeds (both flags), in every reachable state *)
Theorem refresh_issued_ok s k keep : reach s -> (k < length (st_usks s))%nat ->
  snd (step fixed s (ORefresh k keep)) = ObOk.
Proof.
  intros Hr Hk. destruct (inv14_reach s Hr) as [_ [Hreg _ _ _]]. cbn [step].
  destruct (nth_error (st_usks s) k) as [u|] eqn:En; [|apply nth_error_None in En; lia].
  destruct (Hreg u (nth_error_In _ _ En)) as (i & Hi & Hin). rewrite refresh_fixed, Hi.
  assert (E : existsb (N.eqb i) (m_users (st_msk s)) = true) by (apply existsb_exists; exists i; split; [exact Hin|apply N.eqb_refl]).
  rewrite E. reflexivity.
Qed.
Print Assumptions refresh_issued_ok.

(* non-vacuity: a history with two keys, a rekey, an update and refreshes *)
Definition sD : str := [68]%N.   (* "D" *)
Definition sa : str := [97]%N.   (* "a" *)
Definition sb : str := [98]%N.   (* "b" *)
Definition sDa : str := [68;58;58;97]%N.  (* "D::a" *)
Definition sDb : str := [68;58;58;98]%N.  (* "D::b" *)
Definition hist1 : list op :=
  [OSetup; OAddAnarchy sD; OAddAttr sD sa false None; OAddAttr sD sb true None; OUpdate;
   OKeygen sDa; OKeygen sDb; ORekey sDa; OEncaps 2 sDa; ORefresh 0 true; ORefresh 1 false].
Example hist1_all_ok : snd (run fixed init hist1) = [ObOk; ObOk; ObOk; ObOk; ObOk; ObOk; ObOk; ObOk; ObOk; ObOk; ObOk].
Proof. vm_compute. reflexivity. Qed.
Example refresh_issued_ok_nonvacuous :
  length (st_usks (run_state fixed init hist1)) = 2%nat /\ snd (step fixed (run_state fixed init hist1) (ORefresh 1 true)) = ObOk.
Proof. vm_compute. split; reflexivity. Qed.
