(* Part 6: C04 / C05 -- what rekey, prune and refresh do to the chains (local specifications). *)
From Coq Require Import List NArith Bool Arith Lia.
From CC Require Import Policy Structure Keys KeysMachine SelProofs GoodProofs CoverProofs1 CoverProofs2 CoverPolicy
                       RefreshProofs DisabledProofs KInv1 KInv5.
Import ListNotations.
Local Open Scope N_scope.

(* ---------------------------------------------------------------- small facts *)
Lemma existsb_list_N_eqb r rs : existsb (list_N_eqb r) rs = true <-> In r rs.
Proof.
  rewrite existsb_exists. split.
  - intros (x & Hx & E). apply list_N_eqb_eq in E. subst. exact Hx.
  - intros H. exists r. split; [exact H|apply list_N_eqb_refl].
Qed.
Lemma NoDup_dedup l : NoDup (dedup l).
Proof.
  induction l as [|x l IH]; cbn; [constructor|]. destruct (existsb (list_N_eqb x) l) eqn:E; [exact IH|].
  constructor; [|exact IH]. intros Hin. apply (proj1 (dedup_In _ _)) in Hin. apply (proj2 (existsb_list_N_eqb _ _)) in Hin. congruence.
Qed.
Lemma usk_rights_NoDup fx st p rs : usk_rights fx st p = ROk rs -> NoDup rs.
Proof.
  unfold usk_rights. destruct (parse (fx_parse fx) p) as [pol| | |]; try discriminate. unfold complementary_rights.
  destruct (collect_clauses st (to_dnf pol)); try discriminate. intros H. inversion H. apply NoDup_dedup.
Qed.
Lemma enc_rights_NoDup fx st p rs : enc_rights fx st p = ROk rs -> NoDup rs.
Proof.
  unfold enc_rights. destruct (parse (fx_parse fx) p) as [pol| | |]; try discriminate. unfold associated_rights.
  destruct (assoc_clauses st (to_dnf pol)); try discriminate. intros H. inversion H. apply NoDup_dedup.
Qed.

Lemma rlookup_rreplace_other {A} k (v : A) l r : r <> k -> rlookup r (rreplace k v l) = rlookup r l.
Proof.
  intros Hne. induction l as [|[k' v'] l IH]; cbn; [reflexivity|]. destruct (list_N_eqb k k') eqn:E; cbn.
  - apply list_N_eqb_eq in E. subst k'. destruct (list_N_eqb r k) eqn:E2; [apply list_N_eqb_eq in E2; contradiction|reflexivity].
  - destruct (list_N_eqb r k'); [reflexivity|exact IH].
Qed.
Lemma rlookup_rreplace_same {A} k (v : A) l : In k (map fst l) -> rlookup k (rreplace k v l) = Some v.
Proof. intros H. rewrite rlookup_rreplace; [rewrite list_N_eqb_refl; reflexivity|]. intros E. apply rlookup_None in E. contradiction. Qed.

(* the public key publishes exactly the activated front secrets *)
Lemma mk_mpk_lookup m r : NoDup (map fst (m_secrets m)) ->
  rlookup r (p_keys (mk_mpk m)) = match rlookup r (m_secrets m) with Some ((true, sk) :: _) => Some sk | _ => None end.
Proof.
  unfold mk_mpk. cbn [p_keys]. induction (m_secrets m) as [|[k ch] l IH]; intros Hnd; [reflexivity|].
  cbn in Hnd. inversion Hnd as [|? ? Hk Hnd']; subst. cbn [flat_map rlookup].
  destruct (list_N_eqb r k) eqn:E.
  - apply list_N_eqb_eq in E. subst k. destruct ch as [|[[|] sk] older]; cbn [app rlookup]; rewrite ?list_N_eqb_refl; try reflexivity;
      rewrite (IH Hnd'); apply rlookup_None in Hk; rewrite Hk; reflexivity.
  - destruct ch as [|[[|] sk] older]; cbn [app rlookup]; rewrite ?E; apply IH; exact Hnd'.
Qed.
Lemma mk_mpk_published m r sk : NoDup (map fst (m_secrets m)) ->
  (rlookup r (p_keys (mk_mpk m)) = Some sk <-> exists older, rlookup r (m_secrets m) = Some ((true, sk) :: older)).
Proof.
  intros Hnd. rewrite (mk_mpk_lookup m r Hnd). destruct (rlookup r (m_secrets m)) as [[|[[|] sk0] older]|]; split;
    try discriminate; try (intros (o & H); discriminate).
  - intros H. inversion H; subst. exists older. reflexivity.
  - intros (o & H). inversion H; subst. reflexivity.
Qed.

(* ---------------------------------------------------------------- C04 rekey *)
Lemma rekey_loop_spec : forall rs secs ctr,
  NoDup rs -> nonempty_chains secs -> (forall r, In r rs -> In r (map fst secs)) ->
  snd (rekey_loop fixed rs secs ctr) = ctr + N.of_nat (length rs) /\
  map fst (fst (rekey_loop fixed rs secs ctr)) = map fst secs /\
  (forall r, ~ In r rs -> rlookup r (fst (rekey_loop fixed rs secs ctr)) = rlookup r secs) /\
  (forall i r, nth_error rs i = Some r -> exists fl sk older, rlookup r secs = Some ((fl, sk) :: older) /\
     rlookup r (fst (rekey_loop fixed rs secs ctr)) = Some ((fl, {| tok := ctr + N.of_nat i; s_hyb := s_hyb sk |}) :: (fl, sk) :: older)).
Proof.
  induction rs as [|r0 rs IH]; intros secs ctr Hnd Hne Hin; cbn [rekey_loop].
  - cbn [fst snd length]. split; [cbn; lia|]. split; [reflexivity|]. split; [reflexivity|]. intros [|i] r H; discriminate.
  - inversion Hnd as [|? ? Hr0 Hnd']; subst.
    assert (Hk0 : In r0 (map fst secs)) by (apply Hin; left; reflexivity).
    destruct (rlookup r0 secs) as [[|[fl s] older]|] eqn:El.
    + exfalso. eapply Hne; [apply rlookup_In; exact El|reflexivity].
    + cbn [fx_rekey_flag fixed KeysMachine.fx_all].
      set (secs1 := rreplace r0 ((fl, {| tok := ctr; s_hyb := s_hyb s |}) :: (fl, s) :: older) secs).
      destruct (IH secs1 (N.succ ctr) Hnd') as (H1 & H2 & H3 & H4).
      * intros r ch Hc. apply rreplace_In in Hc. destruct Hc as [E|Hc]; [inversion E; subst; discriminate|eapply Hne; exact Hc].
      * intros r Hr. unfold secs1. rewrite keys_rreplace. apply Hin. right. exact Hr.
      * split; [rewrite H1; cbn [length]; lia|]. split; [rewrite H2; apply keys_rreplace|]. split.
        -- intros r Hr. rewrite H3 by (intros Hx; apply Hr; right; exact Hx). apply rlookup_rreplace_other. intros ->. apply Hr. left. reflexivity.
        -- intros [|i] r Hi; cbn in Hi.
           ++ inversion Hi; subst r. exists fl, s, older. split; [exact El|]. rewrite (H3 r0 Hr0). unfold secs1.
              rewrite rlookup_rreplace_same by exact Hk0. replace (ctr + N.of_nat 0) with ctr by (cbn; lia). reflexivity.
           ++ destruct (H4 i r Hi) as (fl' & sk & older' & E1 & E2). exists fl', sk, older'. split.
              ** rewrite <- E1. symmetry. apply rlookup_rreplace_other. intros ->. apply Hr0. eapply nth_error_In. exact Hi.
              ** rewrite E2. replace (N.succ ctr + N.of_nat i) with (ctr + N.of_nat (S i)) by lia. reflexivity.
    + apply rlookup_None in El. contradiction.
Qed.

Theorem rekey_pushes_front s p : reach s -> snd (step fixed s (ORekey p)) = ObOk ->
  let s' := fst (step fixed s (ORekey p)) in
  let m := st_msk s in let m' := st_msk s' in
  exists rs, usk_rights fixed (m_st m) p = ROk rs /\ NoDup rs /\
  (* every targeted right gets a NEW token in front, flag and flavour inherited, the rest of the chain unchanged *)
  (forall i r, nth_error rs i = Some r -> exists fl sk older,
        rlookup r (m_secrets m) = Some ((fl, sk) :: older) /\
        rlookup r (m_secrets m') = Some ((fl, {| tok := st_ctr s + N.of_nat i; s_hyb := s_hyb sk |}) :: (fl, sk) :: older)) /\
  (* other rights untouched *)
  (forall r, ~ In r rs -> rlookup r (m_secrets m') = rlookup r (m_secrets m)) /\
  map fst (m_secrets m') = map fst (m_secrets m) /\
  st_ctr s' = st_ctr s + N.of_nat (length rs) /\
  m_users m' = m_users m /\ m_st m' = m_st m /\ st_usks s' = st_usks s /\ st_encs s' = st_encs s /\
  (* a new snapshot is taken; it publishes the front secret of a right iff its flag is true *)
  st_mpks s' = st_mpks s ++ [mk_mpk m'] /\
  (forall r sk, rlookup r (p_keys (mk_mpk m')) = Some sk <-> exists older, rlookup r (m_secrets m') = Some ((true, sk) :: older)).
Proof.
  intros Hr Hok s' m m'. destruct (inv14_reach s Hr) as [[Hne Hnd _] _].
  subst s' m'. cbn [step] in *. fold m in Hok |- *. destruct (usk_rights fixed (m_st m) p) as [rs|] eqn:Eu; [|discriminate].
  exists rs. split; [reflexivity|]. pose proof (usk_rights_NoDup _ _ _ _ Eu) as Hndrs. split; [exact Hndrs|].
  unfold rekey in *. destruct (forallb (fun r => rmem r (m_secrets m)) rs) eqn:Ef; [|cbn in Hok; discriminate].
  assert (Hin : forall r, In r rs -> In r (map fst (m_secrets m))).
  { intros r Hr0. rewrite forallb_forall in Ef. apply rmem_true. apply Ef. exact Hr0. }
  destruct (rekey_loop_spec rs (m_secrets m) (st_ctr s) Hndrs Hne Hin) as (H1 & H2 & H3 & H4).
  destruct (rekey_loop fixed rs (m_secrets m) (st_ctr s)) as [secs c] eqn:E. cbn [fst snd] in *.
  cbn [push_mpk with_msk_ctr st_msk st_ctr st_usks st_encs st_mpks m_secrets m_users m_st].
  split; [exact H4|]. split; [exact H3|]. split; [exact H2|]. split; [exact H1|].
  do 5 (split; [reflexivity|]). intros r sk. apply mk_mpk_published. cbn [m_secrets]. rewrite H2. exact Hnd.
Qed.
Print Assumptions rekey_pushes_front.

Example rekey_pushes_front_nonvacuous :
  let s := run_state fixed init (firstn 7 hist1) in
  snd (step fixed s (ORekey sDa)) = ObOk /\ usk_rights fixed (m_st (st_msk s)) sDa = ROk [[]; [0]].
Proof. vm_compute. split; reflexivity. Qed.

(* C16 (token level): what a rekey publishes was never published before, nor held by anyone: the new tokens are >= the old counter *)
Corollary rekey_new_tokens s p : reach s -> snd (step fixed s (ORekey p)) = ObOk ->
  forall rs r, usk_rights fixed (m_st (st_msk s)) p = ROk rs -> In r rs ->
  exists fl sk rest, rlookup r (m_secrets (st_msk (fst (step fixed s (ORekey p))))) = Some ((fl, sk) :: rest) /\ st_ctr s <= tok sk.
Proof.
  intros Hr Hok rs r Hu Hin. destruct (rekey_pushes_front s p Hr Hok) as (rs' & Hu' & _ & H & _).
  rewrite Hu in Hu'. inversion Hu'; subst rs'. apply In_nth_error in Hin. destruct Hin as (i & Hi).
  destruct (H i r Hi) as (fl & sk & older & _ & E). eexists _, _, _. split; [exact E|]. cbn. lia.
Qed.

(* ---------------------------------------------------------------- C05 prune *)
Theorem prune_spec s p rs : usk_rights fixed (m_st (st_msk s)) p = ROk rs ->
  let s' := fst (step fixed s (OPrune p)) in
  let m := st_msk s in let m' := st_msk s' in
  snd (step fixed s (OPrune p)) = ObOk /\
  (forall r ch, In r rs -> rlookup r (m_secrets m) = Some ch -> rlookup r (m_secrets m') = Some (firstn 1 ch)) /\
  (forall r, ~ In r rs -> rlookup r (m_secrets m') = rlookup r (m_secrets m)) /\
  map fst (m_secrets m') = map fst (m_secrets m) /\
  m_users m' = m_users m /\ m_st m' = m_st m /\ st_usks s' = st_usks s /\ st_encs s' = st_encs s /\ st_ctr s' = st_ctr s /\
  st_mpks s' = st_mpks s ++ [mk_mpk m'].
Proof.
  intros Hu s' m m'. subst s' m'. cbn [step]. fold m in Hu |- *. rewrite Hu. cbn [fst snd push_mpk with_msk st_msk st_usks st_encs st_ctr st_mpks].
  split; [reflexivity|]. split; [|split; [|split]].
  - intros r ch Hin El. rewrite rlookup_prune, El. cbn. apply (proj2 (existsb_list_N_eqb _ _)) in Hin. rewrite Hin. reflexivity.
  - intros r Hnin. rewrite rlookup_prune. destruct (existsb (list_N_eqb r) rs) eqn:E; [apply (proj1 (existsb_list_N_eqb _ _)) in E; contradiction|].
    destruct (rlookup r (m_secrets m)); reflexivity.
  - unfold prune. cbn [m_secrets]. rewrite map_map. apply map_ext. intros [r ch]. destruct (existsb (list_N_eqb r) rs); reflexivity.
  - repeat split; reflexivity.
Qed.
Print Assumptions prune_spec.
(* the activation flag and the newest secret are kept *)
Lemma firstn_1_front {A} (x : A) l : firstn 1 (x :: l) = [x]. Proof. reflexivity. Qed.

(* ---------------------------------------------------------------- refresh *)
Definition refreshed (m : msk) (u : usk) (keep : bool) : usk :=
  {| u_id := u_id u; u_chains := if keep then refresh_keep_chains m u else refresh_nokeep_chains m u |}.

Lemma refresh_step_ok s k keep u : nth_error (st_usks s) k = Some u -> snd (step fixed s (ORefresh k keep)) = ObOk ->
  (exists id, u_id u = Some id /\ In id (m_users (st_msk s))) /\
  fst (step fixed s (ORefresh k keep)) =
    {| st_msk := st_msk s; st_mpks := st_mpks s; st_usks := set_nth k (refreshed (st_msk s) u keep) (st_usks s);
       st_encs := st_encs s; st_ctr := st_ctr s |} /\
  nth_error (st_usks (fst (step fixed s (ORefresh k keep)))) k = Some (refreshed (st_msk s) u keep).
Proof.
  intros En Hok. cbn [step] in *. rewrite En in *. rewrite refresh_fixed in *. unfold refreshed.
  destruct (u_id u) as [id|]; [|cbn in Hok; discriminate].
  destruct (existsb (N.eqb id) (m_users (st_msk s))) eqn:Ex; [|cbn in Hok; discriminate]. cbn [negb fst snd].
  split; [|split; [reflexivity|]].
  - exists id. split; [reflexivity|]. apply existsb_exists in Ex. destruct Ex as (x & Hx & E). apply N.eqb_eq in E. subst. exact Hx.
  - cbn [st_usks]. rewrite nth_error_set_nth, Nat.eqb_refl; [reflexivity|]. apply nth_error_Some. rewrite En. discriminate.
Qed.

(* C05: after a successful refresh (either flag) every chain of the key is a non-empty PREFIX of the MSK chain
   of the same right, and the key held that right before *)
Theorem refreshed_chain_prefix m u keep r ch : nonempty_chains (m_secrets m) ->
  In (r, ch) (u_chains (refreshed m u keep)) ->
  exists mch uch j, rlookup r (m_secrets m) = Some mch /\ In (r, uch) (u_chains u) /\ (1 <= j)%nat /\ ch = firstn j (map snd mch).
Proof.
  intros Hne Hin. unfold refreshed in Hin. cbn [u_chains] in Hin. destruct keep.
  - destruct (refresh_keep_chains_In _ _ _ _ Hin) as (mch & uch & Hu & El & Er).
    assert (Hm : mch <> []) by (eapply Hne; apply rlookup_In; exact El).
    destruct (refresh_chain_prefix _ _ _ Hm Er) as (j & Hj & ->). exists mch, uch, j. repeat split; assumption.
  - destruct (refresh_nokeep_chains_In _ _ _ _ Hin) as (fl & sk & older & uch & Hu & El & ->).
    exists ((fl, sk) :: older), uch, 1%nat. repeat split; [exact El|exact Hu|lia].
Qed.

Theorem refreshed_usk_subseq_msk s k keep u : reach s -> nth_error (st_usks s) k = Some u ->
  snd (step fixed s (ORefresh k keep)) = ObOk ->
  exists u', nth_error (st_usks (fst (step fixed s (ORefresh k keep)))) k = Some u' /\ u_id u' = u_id u /\
  st_msk (fst (step fixed s (ORefresh k keep))) = st_msk s /\
  forall r ch, In (r, ch) (u_chains u') ->
    exists mch uch j, rlookup r (m_secrets (st_msk s)) = Some mch /\ In (r, uch) (u_chains u) /\
                      (1 <= j)%nat /\ ch = firstn j (map snd mch).
Proof.
  intros Hr En Hok. destruct (inv14_reach s Hr) as [[Hne _ _] _]. destruct (refresh_step_ok s k keep u En Hok) as (_ & Hs & Hn).
  exists (refreshed (st_msk s) u keep). split; [exact Hn|]. split; [reflexivity|]. split; [rewrite Hs; reflexivity|].
  intros r ch Hin. eapply refreshed_chain_prefix; eassumption.
Qed.
Print Assumptions refreshed_usk_subseq_msk.

(* C04: the head of every chain of the refreshed key is the MSK's front secret of that right *)
Theorem refresh_head_current m u keep r ch : nonempty_chains (m_secrets m) -> In (r, ch) (u_chains (refreshed m u keep)) ->
  exists fl sk older rest, rlookup r (m_secrets m) = Some ((fl, sk) :: older) /\ ch = sk :: rest.
Proof.
  intros Hne Hin. destruct (refreshed_chain_prefix m u keep r ch Hne Hin) as (mch & uch & j & El & _ & Hj & ->).
  destruct mch as [|[fl sk] older]; [exfalso; eapply Hne; [apply rlookup_In; exact El|reflexivity]|].
  destruct j; [lia|]. exists fl, sk, older, (firstn j (map snd older)). split; [exact El|reflexivity].
Qed.

(* which rights survive a refresh: exactly those the key held and the MSK still holds *)
Theorem refreshed_rights m u keep r : nonempty_chains (m_secrets m) -> usk_ne u ->
  (In r (map fst (u_chains (refreshed m u keep))) <-> In r (map fst (u_chains u)) /\ In r (map fst (m_secrets m))).
Proof.
  intros Hne Hu. unfold refreshed. cbn [u_chains]. split.
  - intros H. apply in_map_iff in H. destruct H as ([r0 ch] & E & Hin). cbn in E. subst r0. destruct keep.
    + destruct (refresh_keep_chains_In _ _ _ _ Hin) as (mch & uch & H1 & H2 & H3). split.
      * apply in_map_iff. exists (r, uch). split; [reflexivity|exact H1].
      * eapply rlookup_Some_key. exact H2.
    + destruct (refresh_nokeep_chains_In _ _ _ _ Hin) as (fl & sk & older & uch & H1 & H2 & _). split.
      * apply in_map_iff. exists (r, uch). split; [reflexivity|exact H1].
      * eapply rlookup_Some_key. exact H2.
  - intros [H Hm]. apply in_map_iff in H. destruct H as ([r0 uch] & E & Hin). cbn in E. subst r0.
    destruct (rlookup r (m_secrets m)) as [mch|] eqn:El; [|apply rlookup_None in El; contradiction].
    assert (Hmne : mch <> []) by (eapply Hne; apply rlookup_In; exact El). destruct keep.
    + assert (Hex : exists c, refresh_chain fixed mch uch = Some c).
      { unfold refresh_chain. destruct uch as [|f t]; [exfalso; eapply Hu; [exact Hin|reflexivity]|].
        destruct (take_until f mch) as [[a b] [|]]; cbn [fx_prune fixed KeysMachine.fx_all]; eauto. }
      destruct Hex as (c & Hc). apply in_map_iff. exists (r, c). split; [reflexivity|]. unfold refresh_keep_chains. apply in_flat_map.
      exists (r, uch). split; [exact Hin|]. rewrite El, Hc. left. reflexivity.
    + destruct mch as [|[fl sk] older]; [contradiction|]. apply in_map_iff. exists (r, [sk]). split; [reflexivity|].
      unfold refresh_nokeep_chains. apply in_flat_map. exists (r, uch). split; [exact Hin|]. rewrite El. left. reflexivity.
Qed.

(* C04: with keep = false every chain of the refreshed key is exactly [MSK front] *)
Theorem nokeep_only_newest s k u : nth_error (st_usks s) k = Some u -> snd (step fixed s (ORefresh k false)) = ObOk ->
  exists u', nth_error (st_usks (fst (step fixed s (ORefresh k false)))) k = Some u' /\
  forall r ch, In (r, ch) (u_chains u') -> exists fl sk older, rlookup r (m_secrets (st_msk s)) = Some ((fl, sk) :: older) /\ ch = [sk].
Proof.
  intros En Hok. destruct (refresh_step_ok s k false u En Hok) as (_ & _ & Hn). exists (refreshed (st_msk s) u false). split; [exact Hn|].
  intros r ch Hin. cbn in Hin. destruct (refresh_nokeep_chains_In _ _ _ _ Hin) as (fl & sk & older & uch & _ & El & ->). eauto.
Qed.
Print Assumptions nokeep_only_newest.

(* ---------------------------------------------------------------- encapsulation against a public key *)
Lemma all_rights_keys_spec pk : forall rs ks, all_rights_keys pk rs = ROk ks ->
  Forall2 (fun r sk => rlookup r (p_keys pk) = Some sk) rs ks.
Proof.
  induction rs as [|r rs IH]; intros ks H; cbn [all_rights_keys] in H; [inversion H; constructor|].
  destruct (rlookup r (p_keys pk)) as [sk|] eqn:El; [|discriminate]. destruct (all_rights_keys pk rs) as [l|]; [|discriminate].
  inversion H; subst. constructor; [exact El|apply IH; reflexivity].
Qed.

Lemma encaps_opens pk rs c x c' r sk : encaps_rights pk rs c = (ROk x, c') -> In r rs -> rlookup r (p_keys pk) = Some sk ->
  opens x sk = true /\ x_seed x = c /\ c' = N.succ c.
Proof.
  unfold encaps_rights. destruct (all_rights_keys pk rs) as [ks|] eqn:Ek; [|discriminate]. intros H Hin El. inversion H; subst; clear H.
  cbn [x_seed]. split; [|split; reflexivity]. pose proof (all_rights_keys_spec _ _ _ Ek) as HF.
  destruct (KInv5.Forall2_In_l _ _ _ _ HF Hin) as (sk' & Hsk & El'). rewrite El in El'. inversion El'; subst sk'.
  unfold opens. cbn [x_entries x_hyb]. apply andb_true_iff. split.
  - apply existsb_exists. exists (tok sk). split; [apply in_map; exact Hsk|apply N.eqb_refl].
  - destruct (forallb s_hyb ks) eqn:Ef; [|reflexivity]. cbn. rewrite forallb_forall in Ef. apply Ef. exact Hsk.
Qed.

(* C04 refresh_opens_current: after a successful refresh (either flag) the head of each chain of the key is the
   MSK's front secret of that right; hence the key opens every encapsulation made under the CURRENT public key
   that targets one of the rights it holds. *)
Theorem refresh_opens_current s k keep u : reach s -> nth_error (st_usks s) k = Some u ->
  snd (step fixed s (ORefresh k keep)) = ObOk ->
  exists u', nth_error (st_usks (fst (step fixed s (ORefresh k keep)))) k = Some u' /\
  (forall r ch, In (r, ch) (u_chains u') ->
      exists fl sk older rest, rlookup r (m_secrets (st_msk s)) = Some ((fl, sk) :: older) /\ ch = sk :: rest) /\
  (forall rs c x c' r, encaps_rights (mk_mpk (st_msk s)) rs c = (ROk x, c') -> In r rs -> In r (map fst (u_chains u')) ->
      decaps fixed u' x = Some (x_seed x)).
Proof.
  intros Hr En Hok. destruct (inv14_reach s Hr) as [[Hne Hnd _] _]. destruct (refresh_step_ok s k keep u En Hok) as (_ & _ & Hn).
  exists (refreshed (st_msk s) u keep). split; [exact Hn|]. split.
  - intros r ch Hin. eapply refresh_head_current; eassumption.
  - intros rs c x c' r He Hin Hk. apply in_map_iff in Hk. destruct Hk as ([r0 ch] & E & Hch). cbn in E. subst r0.
    destruct (refresh_head_current _ _ _ _ _ Hne Hch) as (fl & sk & older & rest & El & ->).
    assert (Hp : exists sk', rlookup r (p_keys (mk_mpk (st_msk s))) = Some sk').
    { unfold encaps_rights in He. destruct (all_rights_keys (mk_mpk (st_msk s)) rs) as [ks|] eqn:Ek; [|discriminate].
      destruct (KInv5.Forall2_In_l _ _ _ _ (all_rights_keys_spec _ _ _ Ek) Hin) as (sk' & _ & H). eauto. }
    destruct Hp as (sk' & Hp). pose proof Hp as Hp'. apply (mk_mpk_published _ _ _ Hnd) in Hp'. destruct Hp' as (older' & El').
    rewrite El in El'. inversion El'; subst. destruct (encaps_opens _ _ _ _ _ _ _ He Hin Hp) as (Ho & _ & _).
    apply (proj1 (decaps_iff_shared_token _ _)). exists sk'. split; [|exact Ho].
    apply in_concat. exists (sk' :: rest). split; [|left; reflexivity]. apply in_map_iff. exists (r, sk' :: rest). split; [reflexivity|exact Hch].
Qed.
Print Assumptions refresh_opens_current.

(* C05: a secret that the MSK no longer holds for a right (pruned), or a right the MSK no longer has (deleted),
   is not in the refreshed key *)
Theorem pruned_secret_unusable s k keep u : reach s -> nth_error (st_usks s) k = Some u ->
  snd (step fixed s (ORefresh k keep)) = ObOk ->
  exists u', nth_error (st_usks (fst (step fixed s (ORefresh k keep)))) k = Some u' /\
  forall r ch sk, In (r, ch) (u_chains u') -> In sk ch ->
    exists mch, rlookup r (m_secrets (st_msk s)) = Some mch /\ In sk (map snd mch).
Proof.
  intros Hr En Hok. destruct (refreshed_usk_subseq_msk s k keep u Hr En Hok) as (u' & Hn & _ & _ & H). exists u'. split; [exact Hn|].
  intros r ch sk Hin Hsk. destruct (H r ch Hin) as (mch & uch & j & El & _ & _ & ->). exists mch. split; [exact El|].
  rewrite <- (firstn_skipn j (map snd mch)). apply in_app_iff. left. exact Hsk.
Qed.
Theorem deleted_right_unusable s k keep u r : reach s -> nth_error (st_usks s) k = Some u ->
  snd (step fixed s (ORefresh k keep)) = ObOk -> rlookup r (m_secrets (st_msk s)) = None ->
  exists u', nth_error (st_usks (fst (step fixed s (ORefresh k keep)))) k = Some u' /\ ~ In r (map fst (u_chains u')).
Proof.
  intros Hr En Hok Hnone. destruct (refreshed_usk_subseq_msk s k keep u Hr En Hok) as (u' & Hn & _ & _ & H). exists u'. split; [exact Hn|].
  intros Hin. apply in_map_iff in Hin. destruct Hin as ([r0 ch] & E & Hin). cbn in E. subst r0.
  destruct (H r ch Hin) as (mch & _ & _ & El & _). rewrite Hnone in El. discriminate.
Qed.
(* prune followed by refresh: the chain of a pruned right is exactly the MSK's newest secret *)
Theorem prune_then_refresh s p rs k keep : reach s -> usk_rights fixed (m_st (st_msk s)) p = ROk rs ->
  let s1 := fst (step fixed s (OPrune p)) in
  (k < length (st_usks s))%nat ->
  exists u', nth_error (st_usks (fst (step fixed s1 (ORefresh k keep)))) k = Some u' /\
  forall r ch, In r rs -> In (r, ch) (u_chains u') ->
    exists fl sk older, rlookup r (m_secrets (st_msk s)) = Some ((fl, sk) :: older) /\ ch = [sk].
Proof.
  intros Hr Hu s1 Hk. destruct (prune_spec s p rs Hu) as (Hok & Hpr & _ & _ & _ & _ & Husks & _). fold s1 in Hpr, Husks.
  assert (Hr1 : reach s1) by (apply reach_step; exact Hr).
  destruct (nth_error (st_usks s1) k) as [u|] eqn:En; [|apply nth_error_None in En; rewrite Husks in En; lia].
  assert (Hok2 : snd (step fixed s1 (ORefresh k keep)) = ObOk) by (apply refresh_issued_ok; [exact Hr1|rewrite Husks; exact Hk]).
  destruct (refreshed_usk_subseq_msk s1 k keep u Hr1 En Hok2) as (u' & Hn & _ & _ & H). exists u'. split; [exact Hn|].
  intros r ch Hin Hch. destruct (H r ch Hch) as (mch & uch & j & El & _ & Hj & ->).
  destruct (inv14_reach s Hr) as [[Hne _ _] _].
  destruct (rlookup r (m_secrets (st_msk s))) as [[|[fl sk] older]|] eqn:El0.
  - exfalso. eapply Hne; [apply rlookup_In; exact El0|reflexivity].
  - rewrite (Hpr r _ Hin El0) in El. inversion El; subst mch. exists fl, sk, older. split; [reflexivity|]. destruct j; [lia|]. cbn. destruct j; reflexivity.
  - pose proof (rlookup_prune (st_msk s) rs r) as Hp. rewrite El0 in Hp. cbn in Hp. unfold s1 in El. cbn [step] in El. rewrite Hu in El. cbn in El.
    rewrite Hp in El. discriminate.
Qed.
Print Assumptions prune_then_refresh.

(* non-vacuity: rekey D::a twice, prune, refresh key 0 with and without keep *)
Definition hist6 : list op :=
  [OSetup; OAddAnarchy sD; OAddAttr sD sa false None; OAddAttr sD sb true None; OUpdate;
   OKeygen sDa; ORekey sDa; ORefresh 0 true; ORekey sDa; ORefresh 0 true; OPrune sDa].
Example hist6_ok : snd (run fixed init hist6) = [ObOk; ObOk; ObOk; ObOk; ObOk; ObOk; ObOk; ObOk; ObOk; ObOk; ObOk].
Proof. vm_compute. reflexivity. Qed.
Example prune_then_refresh_nonvacuous :
  let s := run_state fixed init hist6 in
  option_map u_chains (nth_error (st_usks s) 0) =
    Some [([], [{| tok := 6; s_hyb := false |}; {| tok := 4; s_hyb := false |}; {| tok := 0; s_hyb := false |}]);
          ([0], [{| tok := 7; s_hyb := false |}; {| tok := 5; s_hyb := false |}; {| tok := 1; s_hyb := false |}])] /\
  option_map u_chains (nth_error (st_usks (fst (step fixed s (ORefresh 0 true)))) 0) =
    Some [([], [{| tok := 6; s_hyb := false |}]); ([0], [{| tok := 7; s_hyb := false |}])].
Proof. vm_compute. split; reflexivity. Qed.
