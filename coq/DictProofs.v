(* Refinement of the concrete `Dict` (entries vector + index map, DictModel.v) to the ordered association list used by
   Structure.v / Keys.v.  Main results:
     dict_ok_new / dict_ok_insert / dict_ok_remove / dict_ok_update_key     the index invariant is preserved
     d_get_refines ... d_update_key_refines                                 every operation = its association-list twin
     dict_refines_alist                                                     for ALL operation sequences
     d_remove_shift_ge_same, d_remove_shift_skip_refuted, d_remove_shift_none_refuted, d_insert_newidx_succ_refuted
   (RevisionMap / RevisionVec: DictRevProofs.v) *)
From Coq Require Import List NArith Bool Arith Lia.
From CC Require Import Policy Structure DictModel.
From CC Require AssocLemmas.
Import ListNotations.
Local Open Scope nat_scope.

Ltac seq a b := let E := fresh "E" in
  destruct (str_eqb a b) eqn:E; [apply AssocLemmas.str_eqb_eq in E | apply AssocLemmas.str_eqb_neq in E].
Lemma seqb_refl a : str_eqb a a = true. Proof. apply AssocLemmas.str_eqb_refl. Qed.
Lemma seqb_neq a b : a <> b -> str_eqb a b = false. Proof. apply AssocLemmas.str_eqb_neq. Qed.

(* ------------------------------------------------------------------ position of a key in a key list *)
Fixpoint kindex (k : str) (ks : list str) : option nat :=
  match ks with [] => None | h :: t => if str_eqb k h then Some 0 else option_map S (kindex k t) end.

Lemma kindex_nth k ks : forall i, kindex k ks = Some i -> nth_error ks i = Some k.
Proof.
  induction ks as [|h t IH]; intros i H; cbn [kindex] in H; [discriminate|]. seq k h.
  - injection H as <-. subst h. reflexivity.
  - destruct (kindex k t) as [j|]; [|discriminate]. injection H as <-. cbn [nth_error]. apply IH. reflexivity.
Qed.
Lemma kindex_None k ks : kindex k ks = None <-> ~ In k ks.
Proof.
  induction ks as [|h t IH]; cbn [kindex In]; [tauto|]. seq k h.
  - split; [discriminate|]. intros H. exfalso. apply H. left. symmetry. exact E.
  - destruct (kindex k t) as [j|]; cbn [option_map].
    + split; [discriminate|]. intros H. exfalso. destruct IH as [_ IH]. assert (X : Some j = None); [|discriminate X].
      apply IH. intros Hin. apply H. right. exact Hin.
    + split; [|reflexivity]. intros _ [Hh|Hin]; [apply E; symmetry; exact Hh|]. destruct IH as [IH _]. apply IH; [reflexivity|exact Hin].
Qed.
Lemma nth_kindex k ks : NoDup ks -> forall i, nth_error ks i = Some k -> kindex k ks = Some i.
Proof.
  induction ks as [|h t IH]; intros Hnd i H; [destruct i; discriminate|]. inversion Hnd as [|h' t' Hh Ht]; subst.
  cbn [kindex]. destruct i as [|j]; cbn [nth_error] in H.
  - injection H as ->. rewrite seqb_refl. reflexivity.
  - seq k h.
    + exfalso. apply Hh. subst h. eapply nth_error_In. exact H.
    + rewrite (IH Ht j H). reflexivity.
Qed.
Lemma kindex_lt k ks i : kindex k ks = Some i -> i < length ks.
Proof. intros H. apply kindex_nth in H. apply nth_error_Some. rewrite H. discriminate. Qed.
Lemma kindex_app_single k' ks k :
  kindex k' (ks ++ [k]) = match kindex k' ks with Some i => Some i | None => if str_eqb k' k then Some (length ks) else None end.
Proof.
  induction ks as [|h t IH]; cbn [app kindex length].
  - destruct (str_eqb k' k); reflexivity.
  - destruct (str_eqb k' h); [reflexivity|]. rewrite IH. destruct (kindex k' t); cbn [option_map]; [reflexivity|].
    destruct (str_eqb k' k); reflexivity.
Qed.

Definition dec_above (i j : nat) : nat := if shift_real j i then pred j else j.
Lemma dec_above_S i j : S (dec_above i j) = dec_above (S i) (S j).
Proof.
  unfold dec_above, shift_real. change (S i <? S j) with (i <? j). destruct (i <? j) eqn:L; [|reflexivity].
  apply Nat.ltb_lt in L. destruct j as [|j]; [lia|reflexivity].
Qed.
Lemma kindex_remove_nth k k' ks : NoDup ks -> forall i, kindex k ks = Some i ->
  kindex k' (remove_nth i ks) = if str_eqb k' k then None else option_map (dec_above i) (kindex k' ks).
Proof.
  induction ks as [|h t IH]; intros Hnd i H; cbn [kindex] in H; [discriminate|]. inversion Hnd as [|h' t' Hh Ht]; subst.
  seq k h.
  - injection H as <-. subst h. cbn [remove_nth kindex]. seq k' k.
    + subst k'. apply kindex_None. exact Hh.
    + destruct (kindex k' t) as [j|]; cbn [option_map]; [|reflexivity]. reflexivity.
  - destruct (kindex k t) as [i0|] eqn:Ek; [|discriminate]. injection H as <-. cbn [remove_nth kindex].
    rewrite (IH Ht i0 eq_refl). seq k' h.
    + rewrite seqb_neq by congruence. reflexivity.
    + destruct (str_eqb k' k); [reflexivity|]. destruct (kindex k' t) as [j|]; cbn [option_map]; [|reflexivity].
      f_equal. apply dec_above_S.
Qed.
Lemma kindex_update_nth k old new ks : NoDup ks -> ~ In new ks -> forall i, kindex old ks = Some i ->
  kindex k (update_nth i (fun _ => new) ks) = if str_eqb k new then Some i else if str_eqb k old then None else kindex k ks.
Proof.
  induction ks as [|h t IH]; intros Hnd Hnew i H; cbn [kindex] in H; [discriminate|]. inversion Hnd as [|h' t' Hh Ht]; subst.
  assert (Hnh : new <> h) by (intros ->; apply Hnew; left; reflexivity).
  assert (Hnt : ~ In new t) by (intros X; apply Hnew; right; exact X).
  seq old h.
  - injection H as <-. subst h. cbn [update_nth kindex]. seq k new; [reflexivity|]. seq k old; [|reflexivity].
    subst k. assert (X : kindex old t = None) by (apply kindex_None; exact Hh). rewrite X. reflexivity.
  - destruct (kindex old t) as [i0|] eqn:Ek; [|discriminate]. injection H as <-. cbn [update_nth kindex].
    rewrite (IH Ht Hnt i0 eq_refl). seq k h.
    + subst k. rewrite (seqb_neq h new) by congruence. rewrite (seqb_neq h old) by congruence. reflexivity.
    + destruct (str_eqb k new); [reflexivity|]. destruct (str_eqb k old); reflexivity.
Qed.

(* ------------------------------------------------------------------ positional helpers *)
Lemma map_update_nth {A B} (g : A -> B) (f : A -> A) (f' : B -> B) : (forall x, g (f x) = f' (g x)) ->
  forall l i, map g (update_nth i f l) = update_nth i f' (map g l).
Proof. intros Hc. induction l as [|x t IH]; intros [|j]; cbn [update_nth map]; try reflexivity; [rewrite Hc|rewrite IH]; reflexivity. Qed.
Lemma update_nth_id {A} (f : A -> A) : (forall x, f x = x) -> forall l i, update_nth i f l = l.
Proof. intros Hf. induction l as [|x t IH]; intros [|j]; cbn [update_nth]; try reflexivity; [rewrite Hf|rewrite IH]; reflexivity. Qed.
Lemma update_nth_length {A} (f : A -> A) : forall l i, length (update_nth i f l) = length l.
Proof. induction l as [|x t IH]; intros [|j]; cbn [update_nth length]; try reflexivity. rewrite IH. reflexivity. Qed.
Lemma map_remove_nth {A B} (g : A -> B) : forall l i, map g (remove_nth i l) = remove_nth i (map g l).
Proof. induction l as [|x t IH]; intros [|j]; cbn [remove_nth map]; try reflexivity. rewrite IH. reflexivity. Qed.
Lemma remove_nth_length {A} : forall (l : list A) i, i < length l -> S (length (remove_nth i l)) = length l.
Proof. induction l as [|x t IH]; intros [|j] H; cbn [remove_nth length] in *; try lia. rewrite IH; lia. Qed.
Lemma remove_nth_In {A} (y : A) : forall l i, In y (remove_nth i l) -> In y l.
Proof. induction l as [|x t IH]; intros [|j] H; cbn [remove_nth In] in *; try tauto. destruct H as [H|H]; [tauto|right; eapply IH, H]. Qed.
Lemma remove_nth_NoDup {A} : forall (l : list A) i, NoDup l -> NoDup (remove_nth i l).
Proof.
  induction l as [|x t IH]; intros [|j] H; cbn [remove_nth]; try exact H; inversion H as [|x' t' Hx Ht]; subst; [exact Ht|].
  constructor; [intros Hin; apply Hx; eapply remove_nth_In, Hin|apply IH, Ht].
Qed.
Lemma update_nth_In {A} (y new : A) : forall l i, In y (update_nth i (fun _ => new) l) -> y = new \/ In y l.
Proof.
  induction l as [|x t IH]; intros [|j] H; cbn [update_nth In] in *; try tauto.
  - destruct H as [H|H]; [left; symmetry; exact H|tauto].
  - destruct H as [H|H]; [tauto|]. destruct (IH j H); tauto.
Qed.
Lemma update_nth_NoDup {A} (new : A) : forall l i, NoDup l -> ~ In new l -> NoDup (update_nth i (fun _ => new) l).
Proof.
  induction l as [|x t IH]; intros [|j] H Hn; cbn [update_nth]; try exact H; inversion H as [|x' t' Hx Ht]; subst.
  - constructor; [intros X; apply Hn; right; exact X|exact Ht].
  - constructor; [|apply IH; [exact Ht|intros X; apply Hn; right; exact X]].
    intros Hin. apply update_nth_In in Hin. destruct Hin as [->|Hin]; [apply Hn; left; reflexivity|exact (Hx Hin)].
Qed.

Lemma NoDup_app_single_str {A} (l : list A) x : NoDup l -> ~ In x l -> NoDup (l ++ [x]).
Proof.
  intros H Hx. induction H as [|y t Hy Ht IH]; cbn [app]; [constructor; [intros []|constructor]|].
  constructor; [|apply IH; intros X; apply Hx; right; exact X].
  intros Hin. apply in_app_or in Hin. destruct Hin as [Hin|[->|[]]]; [exact (Hy Hin)|apply Hx; left; reflexivity].
Qed.

(* ------------------------------------------------------------------ association lists, read through alookup *)
Section Alist.
  Context {A : Type}.
  Implicit Types (l : list (str * A)).

  Lemma alookup_None k l : alookup k l = None <-> ~ In k (map fst l).
  Proof.
    induction l as [|[h v] t IH]; cbn [alookup map fst In]; [tauto|]. seq k h.
    - split; [discriminate|]. intros H. exfalso. apply H. left. symmetry. exact E.
    - rewrite IH. split; [intros H [X|X]; [apply E; symmetry; exact X|exact (H X)]|tauto].
  Qed.
  Lemma alookup_app_single k' l k v :
    alookup k' (l ++ [(k, v)]) = match alookup k' l with Some x => Some x | None => if str_eqb k' k then Some v else None end.
  Proof. induction l as [|[h w] t IH]; cbn [app alookup]; [reflexivity|]. destruct (str_eqb k' h); [reflexivity|exact IH]. Qed.
  Lemma alookup_aremove k' k l : NoDup (map fst l) -> alookup k' (aremove k l) = if str_eqb k' k then None else alookup k' l.
  Proof.
    induction l as [|[h w] t IH]; intros Hnd; cbn [aremove alookup map fst] in *; [destruct (str_eqb k' k); reflexivity|].
    inversion Hnd as [|h' t' Hh Ht]; subst. seq k h.
    - subst h. seq k' k; [|reflexivity]. subst k'. apply alookup_None. exact Hh.
    - cbn [alookup]. rewrite (IH Ht). seq k' h; [|reflexivity]. subst k'. rewrite seqb_neq by congruence. reflexivity.
  Qed.
  Lemma aremove_keys_In x k l : In x (map fst (aremove k l)) -> In x (map fst l).
  Proof.
    induction l as [|[h w] t IH]; cbn [aremove map fst In]; [tauto|]. destruct (str_eqb k h); cbn [map fst In]; [tauto|].
    intros [H|H]; [tauto|right; apply IH, H].
  Qed.
  Lemma aremove_keys_NoDup k l : NoDup (map fst l) -> NoDup (map fst (aremove k l)).
  Proof.
    induction l as [|[h w] t IH]; intros Hnd; cbn [aremove map fst] in *; [exact Hnd|]. inversion Hnd as [|h' t' Hh Ht]; subst.
    destruct (str_eqb k h); [exact Ht|]. cbn [map fst]. constructor; [intros X; apply Hh; eapply aremove_keys_In, X|apply IH, Ht].
  Qed.
  Lemma aremove_length k l v : alookup k l = Some v -> S (length (aremove k l)) = length l.
  Proof.
    induction l as [|[h w] t IH]; cbn [alookup aremove length]; [discriminate|]. destruct (str_eqb k h); [reflexivity|].
    intros H. cbn [length]. rewrite (IH H). reflexivity.
  Qed.
  Lemma aremove_absent k l : alookup k l = None -> aremove k l = l.
  Proof.
    induction l as [|[h w] t IH]; cbn [alookup aremove]; [reflexivity|]. destruct (str_eqb k h); [discriminate|].
    intros H. rewrite (IH H). reflexivity.
  Qed.
  Lemma alookup_map_val {B} (f : A -> B) k l : alookup k (map (fun kj => (fst kj, f (snd kj))) l) = option_map f (alookup k l).
  Proof. induction l as [|[h w] t IH]; cbn [map alookup fst snd]; [reflexivity|]. destruct (str_eqb k h); [reflexivity|exact IH]. Qed.

  (* the association-list operations of Structure.v, by position *)
  Lemma alookup_kindex k l :
    alookup k l = match kindex k (map fst l) with Some i => option_map snd (nth_error l i) | None => None end.
  Proof.
    induction l as [|[h w] t IH]; cbn [alookup map fst kindex]; [reflexivity|]. destruct (str_eqb k h); [reflexivity|].
    rewrite IH. destruct (kindex k (map fst t)); reflexivity.
  Qed.
  Lemma amem_kindex k l : amem k l = match kindex k (map fst l) with Some _ => true | None => false end.
  Proof.
    unfold amem. rewrite alookup_kindex. destruct (kindex k (map fst l)) as [i|] eqn:E; [|reflexivity].
    apply kindex_lt in E. rewrite map_length in E. destruct (nth_error l i) eqn:N; [reflexivity|]. apply nth_error_None in N. lia.
  Qed.
  Lemma areplace_update_nth k v l : forall i, kindex k (map fst l) = Some i -> areplace k v l = update_nth i (fun e => (fst e, v)) l.
  Proof.
    induction l as [|[h w] t IH]; intros i H; cbn [map fst kindex] in H; [discriminate|]. cbn [areplace]. seq k h.
    - injection H as <-. subst h. reflexivity.
    - destruct (kindex k (map fst t)) as [j|]; [|discriminate]. injection H as <-. cbn [update_nth]. rewrite (IH j eq_refl). reflexivity.
  Qed.
  Lemma aremove_remove_nth k l : forall i, kindex k (map fst l) = Some i -> aremove k l = remove_nth i l.
  Proof.
    induction l as [|[h w] t IH]; intros i H; cbn [map fst kindex] in H; [discriminate|]. cbn [aremove]. seq k h.
    - injection H as <-. reflexivity.
    - destruct (kindex k (map fst t)) as [j|]; [|discriminate]. injection H as <-. cbn [remove_nth]. rewrite (IH j eq_refl). reflexivity.
  Qed.
  Lemma arename_update_nth k k' l : forall i, kindex k (map fst l) = Some i -> arename k k' l = update_nth i (fun e => (k', snd e)) l.
  Proof.
    induction l as [|[h w] t IH]; intros i H; cbn [map fst kindex] in H; [discriminate|]. cbn [arename]. seq k h.
    - injection H as <-. reflexivity.
    - destruct (kindex k (map fst t)) as [j|]; [|discriminate]. injection H as <-. cbn [update_nth]. rewrite (IH j eq_refl). reflexivity.
  Qed.
End Alist.

(* ------------------------------------------------------------------ the invariant *)
Definition dict_ok {V} (d : dict V) : Prop :=
  NoDup (map fst (entries d)) /\ NoDup (map fst (indices d)) /\ length (indices d) = length (entries d) /\
  forall k i, ifind k (indices d) = Some i <-> nth_error (map fst (entries d)) i = Some k.

(* the same, on the key column: the index map IS the position function of the key column *)
Definition idx_ok (ks : list str) (ix : imap) : Prop :=
  NoDup ks /\ NoDup (map fst ix) /\ length ix = length ks /\ forall k, ifind k ix = kindex k ks.
Lemma dict_ok_alt {V} (d : dict V) : dict_ok d <-> idx_ok (map fst (entries d)) (indices d).
Proof.
  unfold dict_ok, idx_ok. rewrite map_length. split; intros (H1 & H2 & H3 & H4); (split; [exact H1|split; [exact H2|split; [exact H3|]]]).
  - intros k. destruct (ifind k (indices d)) as [i|] eqn:E.
    + symmetry. apply nth_kindex; [exact H1|]. apply H4. exact E.
    + destruct (kindex k (map fst (entries d))) as [j|] eqn:Ej; [|reflexivity]. apply kindex_nth in Ej. apply H4 in Ej. congruence.
  - intros k i. rewrite H4. split; [apply kindex_nth|apply nth_kindex; exact H1].
Qed.

Lemma idx_ok_nil : idx_ok [] [].
Proof. repeat split; try constructor. Qed.

Lemma idx_ok_push ks ix k : idx_ok ks ix -> ifind k ix = None -> idx_ok (ks ++ [k]) (iset k (length ks) ix).
Proof.
  intros (H1 & H2 & H3 & H4) Hk. unfold idx_ok, iset, ainsert. unfold ifind in *. rewrite Hk.
  assert (Hnk : ~ In k ks) by (apply kindex_None; rewrite <- H4; exact Hk).
  assert (Hni : ~ In k (map fst ix)) by (apply alookup_None; exact Hk).
  split; [|split; [|split]].
  - apply NoDup_app_single_str; assumption.
  - rewrite map_app. cbn [map fst]. apply NoDup_app_single_str; assumption.
  - rewrite !app_length. cbn [length]. lia.
  - intros k'. rewrite alookup_app_single, kindex_app_single, H4. reflexivity.
Qed.

Lemma idx_ok_remove ks ix k i : idx_ok ks ix -> ifind k ix = Some i ->
  idx_ok (remove_nth i ks) (idec_if (fun idx => shift_real idx i) (idel k ix)).
Proof.
  intros (H1 & H2 & H3 & H4) Hk. unfold idx_ok, idel, idec_if. unfold ifind in *.
  assert (Hki : kindex k ks = Some i) by (rewrite <- H4; exact Hk).
  split; [|split; [|split]].
  - apply remove_nth_NoDup. exact H1.
  - rewrite map_map. cbn [fst]. apply aremove_keys_NoDup. exact H2.
  - rewrite map_length. pose proof (aremove_length k ix i Hk) as L1. pose proof (remove_nth_length ks i (kindex_lt _ _ _ Hki)) as L2. lia.
  - intros k'. rewrite (alookup_map_val (fun j => if shift_real j i then pred j else j)).
    rewrite (alookup_aremove k' k ix H2). rewrite (kindex_remove_nth k k' ks H1 i Hki). rewrite H4.
    destruct (str_eqb k' k); reflexivity.
Qed.

Lemma idx_ok_rename ks ix old new i : idx_ok ks ix -> ifind old ix = Some i -> ifind new ix = None ->
  idx_ok (update_nth i (fun _ => new) ks) (idel old (iset new i ix)).
Proof.
  intros (H1 & H2 & H3 & H4) Ho Hn. unfold idx_ok, idel, iset, ainsert. unfold ifind in *. rewrite Hn.
  assert (Hoi : kindex old ks = Some i) by (rewrite <- H4; exact Ho).
  assert (Hnk : ~ In new ks) by (apply kindex_None; rewrite <- H4; exact Hn).
  assert (Hni : ~ In new (map fst ix)) by (apply alookup_None; exact Hn).
  assert (Hne : old <> new) by (intros ->; congruence).
  assert (H2' : NoDup (map fst (ix ++ [(new, i)]))) by (rewrite map_app; cbn [map fst]; apply NoDup_app_single_str; assumption).
  assert (Ho' : alookup old (ix ++ [(new, i)]) = Some i) by (rewrite alookup_app_single, Ho; reflexivity).
  split; [|split; [|split]].
  - apply update_nth_NoDup; assumption.
  - apply aremove_keys_NoDup. exact H2'.
  - rewrite update_nth_length. pose proof (aremove_length old _ i Ho') as L. rewrite app_length in L. cbn [length] in L. lia.
  - intros k. rewrite (alookup_aremove k old _ H2'). rewrite alookup_app_single. rewrite (kindex_update_nth k old new ks H1 Hnk i Hoi).
    rewrite H4. seq k old.
    + subst k. rewrite (seqb_neq old new Hne). reflexivity.
    + seq k new; [|destruct (kindex k ks); reflexivity]. subst k. rewrite <- H4, Hn. reflexivity.
Qed.

(* ------------------------------------------------------------------ preservation by the operations *)
Section DictOps.
  Context {V : Type}.
  Implicit Types (d : dict V).

  Theorem dict_ok_new : dict_ok (@d_new V).
  Proof. apply dict_ok_alt. exact idx_ok_nil. Qed.

  (* the index map of a well-formed dictionary is the position function of the keys of `entries` *)
  Lemma ifind_kindex d : dict_ok d -> forall k, ifind k (indices d) = kindex k (map fst (entries d)).
  Proof. intros H. apply dict_ok_alt in H. destruct H as (_ & _ & _ & H). exact H. Qed.

  (* no index is out of range: `entries[i]` / `entries.remove(i)` never panic *)
  Theorem dict_ok_in_bounds d k i : dict_ok d -> ifind k (indices d) = Some i -> i < length (entries d).
  Proof. intros H E. rewrite (ifind_kindex d H) in E. apply kindex_lt in E. rewrite map_length in E. exact E. Qed.
  Corollary dict_ok_no_panic d k : dict_ok d -> d_oob k d = false.
  Proof.
    intros H. unfold d_oob. destruct (ifind k (indices d)) as [i|] eqn:E; [|reflexivity].
    apply (dict_ok_in_bounds d k i H) in E. apply Nat.ltb_lt in E. rewrite E. reflexivity.
  Qed.

  Theorem dict_ok_insert d k v : dict_ok d -> dict_ok (fst (d_insert k v d)).
  Proof.
    intros H. apply dict_ok_alt. apply dict_ok_alt in H. unfold d_insert, d_insert_gen, newidx_real.
    destruct (ifind k (indices d)) as [i|] eqn:E; cbn [fst entries indices].
    - rewrite (map_update_nth fst (fun e => (fst e, v)) (fun x => x)) by reflexivity. rewrite update_nth_id by reflexivity. exact H.
    - rewrite map_app. cbn [map fst]. rewrite <- (map_length fst (entries d)). apply idx_ok_push; assumption.
  Qed.

  Theorem dict_ok_remove d k : dict_ok d -> dict_ok (fst (d_remove k d)).
  Proof.
    intros H. unfold d_remove, d_remove_gen. destruct (ifind k (indices d)) as [i|] eqn:E; cbn [fst]; [|exact H].
    apply dict_ok_alt. apply dict_ok_alt in H. cbn [entries indices]. rewrite map_remove_nth. apply idx_ok_remove; assumption.
  Qed.
  Lemma d_remove_absent d k : ifind k (indices d) = None -> d_remove k d = (d, None).
  Proof. intros E. unfold d_remove, d_remove_gen. rewrite E. reflexivity. Qed.

  Theorem dict_ok_update_key d old new d' : dict_ok d -> d_update_key old new d = UOk d' -> dict_ok d'.
  Proof.
    intros H. unfold d_update_key. destruct (ifind old (indices d)) as [i|] eqn:Eo; [|discriminate].
    destruct (ifind new (indices d)) as [j|] eqn:En; [discriminate|]. intros X. injection X as <-.
    apply dict_ok_alt. apply dict_ok_alt in H. cbn [entries indices].
    rewrite (map_update_nth fst (fun e => (new, snd e)) (fun _ => new)) by reflexivity. apply idx_ok_rename; assumption.
  Qed.
  (* on failure nothing is returned: `&mut self` is untouched (no write happens before the two lookups) *)
  Lemma d_update_key_same_key_fails d k : d_update_key k k d <> UOk d /\ forall d', d_update_key k k d <> UOk d'.
  Proof.
    assert (X : forall d', d_update_key k k d <> UOk d'); [|split; [apply X|exact X]].
    intros d'. unfold d_update_key. destruct (ifind k (indices d)); discriminate.
  Qed.
End DictOps.

(* ------------------------------------------------------------------ refinement to the association list *)
Section Refinement.
  Context {V : Type}.
  Implicit Types (d : dict V) (l : list (str * V)).
  Definition abs d : list (str * V) := entries d.

  Lemma nth_entry_kindex l k i : kindex k (map fst l) = Some i -> exists e, nth_error l i = Some e.
  Proof.
    intros E. apply kindex_lt in E. rewrite map_length in E. destruct (nth_error l i) as [e|] eqn:N; [exists e; reflexivity|].
    apply nth_error_None in N. lia.
  Qed.
  Lemma get_key_value_kindex k l :
    match kindex k (map fst l) with Some i => nth_error l i | None => None end = option_map (pair k) (alookup k l).
  Proof.
    induction l as [|[h w] t IH]; cbn [map fst kindex alookup]; [reflexivity|]. seq k h; [subst h; reflexivity|].
    rewrite <- IH. destruct (kindex k (map fst t)); reflexivity.
  Qed.

  Theorem d_get_refines d k : dict_ok d -> d_get k d = alookup k (abs d).
  Proof.
    intros H. unfold d_get, d_get_key_value, abs. rewrite (ifind_kindex d H), alookup_kindex.
    destruct (kindex k (map fst (entries d))); reflexivity.
  Qed.
  Theorem d_get_key_value_refines d k : dict_ok d -> d_get_key_value k d = option_map (pair k) (alookup k (abs d)).
  Proof. intros H. unfold d_get_key_value, abs. rewrite (ifind_kindex d H). apply get_key_value_kindex. Qed.
  Theorem d_contains_refines d k : dict_ok d -> d_contains k d = amem k (abs d).
  Proof. intros H. unfold d_contains, abs. rewrite (ifind_kindex d H), amem_kindex. reflexivity. Qed.
  Theorem d_len_refines d : dict_ok d -> d_len d = length (abs d).
  Proof. intros (_ & _ & H & _). exact H. Qed.
  Theorem d_iter_refines d : d_iter d = abs d /\ d_keys d = map fst (abs d) /\ d_values d = map snd (abs d).
  Proof. repeat split. Qed.

  Theorem d_insert_refines d k v : dict_ok d ->
    abs (fst (d_insert k v d)) = ainsert k v (abs d) /\ snd (d_insert k v d) = alookup k (abs d).
  Proof.
    intros H. unfold d_insert, d_insert_gen, abs, ainsert. rewrite (ifind_kindex d H), alookup_kindex.
    destruct (kindex k (map fst (entries d))) as [i|] eqn:E; cbn [fst snd entries]; [|split; reflexivity].
    destruct (nth_entry_kindex _ _ _ E) as [e N]. rewrite N. cbn [option_map]. split; [|reflexivity].
    symmetry. apply areplace_update_nth. exact E.
  Qed.
  Theorem d_remove_refines d k : dict_ok d ->
    abs (fst (d_remove k d)) = aremove k (abs d) /\ snd (d_remove k d) = alookup k (abs d).
  Proof.
    intros H. unfold d_remove, d_remove_gen, abs. rewrite (ifind_kindex d H), alookup_kindex.
    destruct (kindex k (map fst (entries d))) as [i|] eqn:E; cbn [fst snd entries]; (split; [|reflexivity]).
    - symmetry. apply aremove_remove_nth. exact E.
    - symmetry. apply aremove_absent. rewrite alookup_kindex, E. reflexivity.
  Qed.
  (* update_key succeeds exactly when the old key is present and the new one is not; then it is `arename` *)
  Theorem d_update_key_refines d old new : dict_ok d ->
    match d_update_key old new d with
    | UOk d' => amem old (abs d) = true /\ amem new (abs d) = false /\ abs d' = arename old new (abs d)
    | UErr MissingEntry => amem old (abs d) = false
    | UErr ExistingEntry => amem old (abs d) = true /\ amem new (abs d) = true
    end.
  Proof.
    intros H. unfold d_update_key, abs. rewrite !amem_kindex, !(ifind_kindex d H).
    destruct (kindex old (map fst (entries d))) as [i|] eqn:Eo; [|reflexivity].
    destruct (kindex new (map fst (entries d))) as [j|] eqn:En; [split; reflexivity|]. cbn [entries].
    split; [reflexivity|split; [reflexivity|]]. symmetry. apply arename_update_nth. exact Eo.
  Qed.
  Corollary d_update_key_ok_iff d old new : dict_ok d ->
    ((exists d', d_update_key old new d = UOk d') <-> amem old (abs d) = true /\ amem new (abs d) = false).
  Proof.
    intros H. pose proof (d_update_key_refines d old new H) as R. destruct (d_update_key old new d) as [d'|[|]].
    - split; [intros _; tauto|intros _; exists d'; reflexivity].
    - split; [intros [d' X]; discriminate|intros [X _]; congruence].
    - split; [intros [d' X]; discriminate|intros [_ X]; destruct R; congruence].
  Qed.
  Corollary d_update_key_ok_abs d old new d' : dict_ok d -> d_update_key old new d = UOk d' -> abs d' = arename old new (abs d).
  Proof. intros H E. pose proof (d_update_key_refines d old new H) as R. rewrite E in R. apply R. Qed.
  Theorem d_from_iter_refines l : let d := d_from_iter l in dict_ok d /\ abs d = fold_left (fun a kv => ainsert (fst kv) (snd kv) a) l [].
  Proof.
    unfold d_from_iter. change (@nil (str * V)) with (abs d_new). generalize (@dict_ok_new V). generalize (@d_new V).
    induction l as [|[k v] t IH]; intros d H; cbn [fold_left fst snd]; [split; [exact H|reflexivity]|].
    destruct (IH _ (dict_ok_insert d k v H)) as [I1 I2]. split; [exact I1|]. rewrite I2. rewrite (proj1 (d_insert_refines d k v H)). reflexivity.
  Qed.

  (* one step of the two machines *)
  Lemma step_refines d op : dict_ok d ->
    abs (fst (dict_step d op)) = fst (alist_step (abs d) op) /\ snd (dict_step d op) = snd (alist_step (abs d) op) /\
    dict_ok (fst (dict_step d op)).
  Proof.
    intros H. destruct op as [k v|k|k k'|k]; cbn [dict_step alist_step fst snd].
    - destruct (d_insert_refines d k v H) as [R1 R2]. rewrite R1, R2. split; [reflexivity|split; [reflexivity|apply dict_ok_insert, H]].
    - destruct (d_remove_refines d k H) as [R1 R2]. rewrite R1, R2. split; [reflexivity|split; [reflexivity|apply dict_ok_remove, H]].
    - pose proof (d_update_key_refines d k k' H) as R. pose proof (dict_ok_update_key d k k') as P.
      destruct (d_update_key k k' d) as [d'|[|]]; cbn [fst snd].
      + destruct R as (R1 & R2 & R3). rewrite R1, R2. cbn [fst snd]. split; [exact R3|split; [reflexivity|apply P; [exact H|reflexivity]]].
      + rewrite R. cbn [fst snd]. split; [reflexivity|split; [reflexivity|exact H]].
      + destruct R as (R1 & R2). rewrite R1, R2. cbn [fst snd]. split; [reflexivity|split; [reflexivity|exact H]].
    - rewrite (d_get_refines d k H). split; [reflexivity|split; [reflexivity|exact H]].
  Qed.

  Lemma run_refines (ops : list (dop V)) : forall d, dict_ok d ->
    observations (run_dict d ops) = observations (run_alist (abs d) ops) /\
    abs (fst (run_dict d ops)) = fst (run_alist (abs d) ops) /\ dict_ok (fst (run_dict d ops)).
  Proof.
    unfold observations, run_dict, run_alist. induction ops as [|op t IH]; intros d H; cbn [run_ops fst snd]; [split; [reflexivity|split; [reflexivity|exact H]]|].
    destruct (step_refines d op H) as (S1 & S2 & S3). destruct (IH _ S3) as (I1 & I2 & I3). rewrite <- S1, <- S2.
    split; [rewrite I1; reflexivity|split; [exact I2|exact I3]].
  Qed.

  (* HEADLINE: for every operation sequence, the concrete dictionary (entries + index bookkeeping) and the ordered
     association list return the same results, end in the same listing, and the index invariant holds at the end
     (hence, every prefix being a sequence, at every intermediate state) *)
  Theorem dict_refines_alist : forall ops : list (dop V),
    observations (run_dict d_new ops) = observations (run_alist [] ops) /\
    abs (fst (run_dict d_new ops)) = fst (run_alist [] ops) /\
    dict_ok (fst (run_dict d_new ops)).
  Proof. intros ops. exact (run_refines ops d_new dict_ok_new). Qed.

  (* every reachable dictionary is panic-free and `len()` (taken from the index map) is the number of entries *)
  Corollary dict_reachable_sound (ops : list (dop V)) : let d := fst (run_dict d_new ops) in
    (forall k, d_oob k d = false) /\ d_len d = length (d_iter d) /\ NoDup (d_keys d).
  Proof.
    destruct (dict_refines_alist ops) as (_ & _ & H). cbn zeta. split; [intros k; apply dict_ok_no_panic, H|split; [apply d_len_refines, H|apply H]].
  Qed.

  (* the trace used by the differential test is the association-list run, listing and length included *)
  Lemma dict_trace_from_refines (ops : list (dop V)) : forall d, dict_ok d ->
    map t_obs (dict_trace_from d ops) = observations (run_alist (abs d) ops) /\
    Forall (fun e => t_len e = N.of_nat (length (t_iter e)) /\ NoDup (map fst (t_iter e))) (dict_trace_from d ops).
  Proof.
    unfold observations, run_alist. induction ops as [|op t IH]; intros d H; cbn [dict_trace_from run_ops map fst snd]; [split; constructor|].
    destruct (step_refines d op H) as (S1 & S2 & S3). destruct (IH _ S3) as (I1 & I2). cbn [t_obs]. rewrite I1, S1, S2.
    split; [reflexivity|]. constructor; [|exact I2]. cbn [t_len t_iter]. split; [rewrite (d_len_refines _ S3); reflexivity|apply S3].
  Qed.
End Refinement.
Theorem dict_trace_refines (ops : list dopN) :
  map t_obs (dict_trace ops) = observations (run_alist [] ops) /\
  Forall (fun e => t_len e = N.of_nat (length (t_iter e)) /\ NoDup (map fst (t_iter e))) (dict_trace ops).
Proof. exact (dict_trace_from_refines ops d_new dict_ok_new). Qed.

Print Assumptions dict_ok_new.
Print Assumptions dict_ok_insert.
Print Assumptions dict_ok_remove.
Print Assumptions dict_ok_update_key.
Print Assumptions d_get_refines.
Print Assumptions d_contains_refines.
Print Assumptions d_insert_refines.
Print Assumptions d_remove_refines.
Print Assumptions d_update_key_refines.
Print Assumptions d_len_refines.
Print Assumptions dict_refines_alist.
Print Assumptions dict_reachable_sound.
Print Assumptions dict_trace_refines.

(* ------------------------------------------------------------------ the off-by-one-prone parameters *)
(* `>=` instead of `>` in remove: harmless, because the removed key has already left the index map and the remaining
   indices are pairwise distinct, so none of them equals entry_index *)
Theorem d_remove_shift_ge_same {V} (d : dict V) k : dict_ok d -> d_remove_gen shift_ge k d = d_remove k d.
Proof.
  intros H. unfold d_remove, d_remove_gen. destruct (ifind k (indices d)) as [i|] eqn:E; [|reflexivity]. f_equal. f_equal.
  unfold idec_if. apply map_ext_in. intros [k' j] Hin. cbn [fst snd].
  assert (Hji : j <> i).
  { apply dict_ok_alt in H. destruct H as (H1 & H2 & H3 & H4). unfold idel in Hin. unfold ifind in *.
    assert (L : alookup k' (aremove k (indices d)) = Some j) by (apply AssocLemmas.In_alookup; [apply aremove_keys_NoDup, H2|exact Hin]).
    rewrite (alookup_aremove k' k _ H2) in L. seq k' k; [discriminate|]. intros ->.
    rewrite H4 in L, E. apply kindex_nth in L. apply kindex_nth in E. congruence. }
  unfold shift_ge, shift_real. destruct (Nat.leb_spec i j) as [L1|L1]; destruct (Nat.ltb_spec i j) as [L2|L2]; try reflexivity; exfalso; lia.
Qed.
Print Assumptions d_remove_shift_ge_same.

Definition ka : str := [97%N]. Definition kb : str := [98%N]. Definition kc : str := [99%N].
Definition kd : str := [100%N]. Definition ke : str := [101%N].
Definition abc : dict N := fst (run_dict d_new [DInsert ka 1%N; DInsert kb 2%N; DInsert kc 3%N]).
Lemma abc_ok : dict_ok abc. Proof. apply dict_refines_alist. Qed.
Example d_remove_shift_ge_ex : d_remove_gen shift_ge ka abc = d_remove ka abc /\ indices (fst (d_remove ka abc)) = [(kb, 0); (kc, 1)].
Proof. split; [apply d_remove_shift_ge_same, abc_ok|vm_compute; reflexivity]. Qed.

(* a remove that forgets to re-index the element right after the removed one (`index > entry_index + 1`):
   after insert a,b,c; remove a both b and c are mapped to position 1, and get(b) answers with the value of c *)
Theorem d_remove_shift_skip_refuted : exists (d : dict N) k, dict_ok d /\ ~ dict_ok (fst (d_remove_gen shift_skip k d)) /\
  exists k', d_get k' (fst (d_remove_gen shift_skip k d)) <> alookup k' (aremove k (abs d)).
Proof.
  exists abc, ka. split; [exact abc_ok|]. split.
  - intros (_ & _ & _ & H4). destruct (H4 kb 1) as [H _]. assert (X : nth_error (map fst (entries (fst (d_remove_gen shift_skip ka abc)))) 1 = Some kb)
      by (apply H; vm_compute; reflexivity). vm_compute in X. discriminate X.
  - exists kb. vm_compute. discriminate.
Qed.
(* no re-indexing at all *)
Theorem d_remove_shift_none_refuted : exists (d : dict N) k, dict_ok d /\ ~ dict_ok (fst (d_remove_gen shift_none k d)) /\
  exists k', d_get k' (fst (d_remove_gen shift_none k d)) <> alookup k' (aremove k (abs d)).
Proof.
  exists abc, ka. split; [exact abc_ok|]. split.
  - intros (_ & _ & _ & H4). destruct (H4 kb 1) as [H _]. assert (X : nth_error (map fst (entries (fst (d_remove_gen shift_none ka abc)))) 1 = Some kb)
      by (apply H; vm_compute; reflexivity). vm_compute in X. discriminate X.
  - exists kc. vm_compute. discriminate.
Qed.
(* a fresh key recorded at index len+1 instead of len *)
Theorem d_insert_newidx_succ_refuted : exists (d : dict N) k v, dict_ok d /\ ~ dict_ok (fst (d_insert_gen S k v d)) /\
  d_get k (fst (d_insert_gen S k v d)) <> Some v.
Proof.
  exists d_new, ka, 1%N. split; [exact dict_ok_new|]. split.
  - intros (_ & _ & _ & H4). destruct (H4 ka 1) as [H _]. assert (X : nth_error (map fst (entries (fst (d_insert_gen S ka 1%N d_new)))) 1 = Some ka)
      by (apply H; vm_compute; reflexivity). vm_compute in X. discriminate X.
  - vm_compute. discriminate.
Qed.
Print Assumptions d_remove_shift_skip_refuted.
Print Assumptions d_remove_shift_none_refuted.
Print Assumptions d_insert_newidx_succ_refuted.

(* ------------------------------------------------------------------ non-vacuity *)
Definition script : list dopN :=
  [DInsert ka 1; DInsert kb 2; DInsert kc 3; DRemove ka; DGet kb; DGet kc; DUpdateKey kc kd; DInsert ke 5]%N.
Example script_run :
  run_dict d_new script =
  ({| entries := [(kb, 2); (kd, 3); (ke, 5)]%N; indices := [(kb, 0); (kd, 1); (ke, 2)] |},
   [OInsert None; OInsert None; OInsert None; ORemove (Some 1); OGet (Some 2); OGet (Some 3); OUpdate None; OInsert None]%N).
Proof. vm_compute. reflexivity. Qed.
Example script_alist : run_alist [] script =
  ([(kb, 2); (kd, 3); (ke, 5)]%N,
   [OInsert None; OInsert None; OInsert None; ORemove (Some 1); OGet (Some 2); OGet (Some 3); OUpdate None; OInsert None]%N).
Proof. vm_compute. reflexivity. Qed.
Example script_ok : dict_ok (fst (run_dict d_new script)). Proof. apply dict_refines_alist. Qed.
Example script_trace_last : nth_error (dict_trace script) 7 = Some (mkTrace (OInsert None) [(kb, 2); (kd, 3); (ke, 5)] 3)%N.
Proof. vm_compute. reflexivity. Qed.
(* overwrite keeps the position and returns the old value; the three update_key outcomes; remove of a missing key *)
Example script2_run : observations (run_dict d_new
    [DInsert ka 1; DInsert kb 2; DInsert ka 7; DUpdateKey kc kd; DUpdateKey ka kb; DUpdateKey ka ka; DUpdateKey ka kc; DRemove ka; DGet kc]%N) =
  [OInsert None; OInsert None; OInsert (Some 1); OUpdate (Some MissingEntry); OUpdate (Some ExistingEntry); OUpdate (Some ExistingEntry);
   OUpdate None; ORemove None; OGet (Some 7)]%N.
Proof. vm_compute. reflexivity. Qed.
Example update_key_hyps_ex : amem kc (abs abc) = true /\ amem kd (abs abc) = false /\ exists d', d_update_key kc kd abc = UOk d' /\ dict_ok d'.
Proof. split; [reflexivity|split; [reflexivity|]]. eexists. split; [vm_compute; reflexivity|]. eapply (dict_ok_update_key abc kc kd); [exact abc_ok|vm_compute; reflexivity]. Qed.
Example remove_middle_ex : d_remove kb abc = ({| entries := [(ka, 1); (kc, 3)]%N; indices := [(ka, 0); (kc, 1)] |}, Some 2%N).
Proof. vm_compute. reflexivity. Qed.
