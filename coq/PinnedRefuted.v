(* Prototype (scratch): refutation witnesses for the pinned behaviour, by vm_compute *)
From Coq Require Import List NArith Bool Arith.
Require Import Policy Structure Keys.
Import ListNotations.
Definition fx_none := {| fx_ids := false; fx_rev := false; fx_prune := false; fx_rekey_flag := false;
                         fx_refresh := false; fx_update := false; fx_recaps := false; fx_parse := false |}.
Definition s (t : N) := {| tok := t; s_hyb := false |}.

(* F4 (C05): the user's only secret (token 1) was pruned from the MSK chain [2]; the pinned refresh keeps it *)
Example refresh_keeps_pruned_refuted :
  exists mch uch c, refresh_chain fx_none mch uch = Some c /\ In (s 1) c /\ ~ In (s 1) (map snd mch).
Proof. exists [(true, s 2)], [s 1], [s 2; s 1]. split; [vm_compute; reflexivity|]. split; [right; left; reflexivity|].
  cbn. intros [H|[]]. discriminate. Qed.

(* F3 (C04): chains of lengths 2 and 1; the entry made under the older secret of the longer chain is never tried *)
Example revisions_shortest_refuted :
  exists u x, decaps fx_none u x = None /\ existsb (opens x) (concat (map snd (u_chains u))) = true.
Proof.
  exists {| u_id := Some 0%N; u_chains := [([0%N], [s 3; s 1]); ([1%N], [s 2])] |},
         {| x_hyb := false; x_entries := [1%N]; x_seed := 9%N |}.
  split; vm_compute; reflexivity. Qed.

(* F5 (C06): rekey of a right whose newest secret is deactivated re-activates it *)
Example rekey_reactivates_refuted :
  exists secs, fst (rekey_loop fx_none [[0%N]] [([0%N], [(false, s 1)])] 5%N) = secs /\
               rlookup [0%N] secs = Some [(true, s 5); (false, s 1)].
Proof. eexists. split; vm_compute; reflexivity. Qed.
