(* Prototype proofs (scratch): combinatorics of combine / selections / sorted rights *)
From Coq Require Import List NArith Bool Arith Lia Permutation.
Require Import Policy Structure.
Import ListNotations.

Definition dim_ids (d : dimension) : list N := map (fun na => a_id (snd na)) (attrs_of d).
Definition all_ids (ds : list dimension) : list N := flat_map dim_ids ds.
Definition fst3 (t : list N * bool * bool) : list N := let '(ids, _, _) := t in ids.
Definition points (ds : list dimension) : list (list N) := map fst3 (combine ds).

Inductive sel : list dimension -> list N -> Prop :=
| sel_nil : sel [] []
| sel_skip d ds p : sel ds p -> sel (d :: ds) p
| sel_pick d ds p i : In i (dim_ids d) -> sel ds p -> sel (d :: ds) (i :: p).

Lemma map_flat_map {A B C} (f : B -> C) (g : A -> list B) l : map f (flat_map g l) = flat_map (fun x => map f (g x)) l.
Proof. induction l as [|x l IH]; cbn; [reflexivity|]. rewrite map_app, IH. reflexivity. Qed.

Lemma points_cons d rest :
  points (d :: rest) = points rest ++ flat_map (fun na => map (cons (a_id (snd na))) (points rest)) (attrs_of d).
Proof.
  unfold points. cbn [combine]. rewrite map_app. f_equal.
  rewrite map_flat_map. apply flat_map_ext. intros na.
  rewrite !map_map. apply map_ext. intros [[ids h] e]. reflexivity.
Qed.

Lemma combine_sel : forall ds p, In p (points ds) <-> sel ds p.
Proof.
  induction ds as [|d rest IH]; intros p.
  - cbn. split.
    + intros [H|[]]. subst. constructor.
    + intros H. inversion H. left. reflexivity.
  - rewrite points_cons, in_app_iff, in_flat_map. split.
    + intros [H|(na & Hna & H)].
      * apply sel_skip. apply IH. exact H.
      * apply in_map_iff in H. destruct H as (q & Hq & Hin). subst p.
        apply sel_pick; [|apply IH; exact Hin].
        unfold dim_ids. apply in_map_iff. exists na. split; [reflexivity|exact Hna].
    + intros H. inversion H as [|d' ds' p' Hs|d' ds' p' i Hi Hs]; subst.
      * left. apply IH. exact Hs.
      * right. unfold dim_ids in Hi. apply in_map_iff in Hi. destruct Hi as (na & Hid & Hna).
        exists na. split; [exact Hna|]. apply in_map_iff. exists p'. split; [rewrite Hid; reflexivity|apply IH; exact Hs].
Qed.

Lemma sel_app : forall ds1 ds2 p, sel (ds1 ++ ds2) p <-> exists p1 p2, p = p1 ++ p2 /\ sel ds1 p1 /\ sel ds2 p2.
Proof.
  induction ds1 as [|d ds1 IH]; intros ds2 p; cbn [app].
  - split.
    + intros H. exists [], p. repeat split; [constructor|exact H].
    + intros (p1 & p2 & -> & H1 & H2). inversion H1; subst. exact H2.
  - split.
    + intros H. inversion H as [|d' ds' p' Hs|d' ds' p' i Hi Hs]; subst.
      * apply IH in Hs. destruct Hs as (p1 & p2 & -> & H1 & H2). exists p1, p2. repeat split; [apply sel_skip; exact H1|exact H2].
      * apply IH in Hs. destruct Hs as (p1 & p2 & -> & H1 & H2). exists (i :: p1), p2. repeat split; [apply sel_pick; assumption|exact H2].
    + intros (p1 & p2 & -> & H1 & H2). inversion H1 as [|d' ds' p' Hs|d' ds' p' i Hi Hs]; subst.
      * apply sel_skip. apply IH. exists p1, p2. repeat split; assumption.
      * cbn. apply sel_pick; [exact Hi|]. apply IH. exists p', p2. repeat split; assumption.
Qed.

(* ---- insertion sort: equal results iff permutations ---- *)
Lemma insert_perm x l : Permutation (insert_sorted x l) (x :: l).
Proof.
  induction l as [|y t IH]; cbn; [reflexivity|].
  destruct (x <=? y)%N; [reflexivity|]. rewrite IH. apply perm_swap.
Qed.
Lemma sort_cons x l : sort_ids (x :: l) = insert_sorted x (sort_ids l).
Proof. reflexivity. Qed.
Lemma sort_perm l : Permutation (sort_ids l) l.
Proof. induction l as [|x t IH]; [reflexivity|]. rewrite sort_cons, insert_perm. apply perm_skip. exact IH. Qed.
Lemma insert_comm x y l : insert_sorted x (insert_sorted y l) = insert_sorted y (insert_sorted x l).
Proof.
  induction l as [|z t IH]; cbn.
  - destruct (x <=? y)%N eqn:E1, (y <=? x)%N eqn:E2; try reflexivity.
    + apply N.leb_le in E1, E2. assert (x = y) by lia. subst. reflexivity.
    + apply N.leb_gt in E1, E2. lia.
  - destruct (y <=? z)%N eqn:Eyz, (x <=? z)%N eqn:Exz; cbn.
    + destruct (x <=? y)%N eqn:E1, (y <=? x)%N eqn:E2; cbn; rewrite ?Eyz, ?Exz; try reflexivity.
      * apply N.leb_le in E1, E2. assert (x = y) by lia. subst. reflexivity.
      * apply N.leb_gt in E1, E2. lia.
    + destruct (x <=? y)%N eqn:E1; cbn; rewrite ?Eyz, ?Exz.
      * apply N.leb_le in E1, Eyz. apply N.leb_gt in Exz. lia.
      * destruct (y <=? x)%N eqn:E2; [reflexivity|]. apply N.leb_gt in E1, E2. lia.
    + destruct (y <=? x)%N eqn:E2; cbn; rewrite ?Eyz, ?Exz.
      * apply N.leb_le in E2, Exz. apply N.leb_gt in Eyz. lia.
      * destruct (x <=? y)%N eqn:E1; [reflexivity|]. apply N.leb_gt in E1, E2. lia.
    + rewrite ?Exz, ?Eyz. rewrite IH. reflexivity.
Qed.
Lemma perm_sort_eq l1 l2 : Permutation l1 l2 -> sort_ids l1 = sort_ids l2.
Proof.
  induction 1 as [|x l l' _ IH|x y l|l l' l'' _ IH1 _ IH2].
  - reflexivity.
  - rewrite !sort_cons, IH. reflexivity.
  - rewrite !sort_cons. apply insert_comm.
  - rewrite IH1. exact IH2.
Qed.
Theorem sort_eq_iff_perm l1 l2 : sort_ids l1 = sort_ids l2 <-> Permutation l1 l2.
Proof.
  split; [|apply perm_sort_eq].
  intros H. rewrite <- (sort_perm l1), <- (sort_perm l2), H. reflexivity.
Qed.
Print Assumptions sort_eq_iff_perm.
Print Assumptions combine_sel.
