(* C14, memory side: an INSTRUMENTED executable model of the byte-level readers of Wire.v.
   Every reader returns an outcome (value / error / panic / abort) and the list of allocation requests (in bytes)
   it made, in program order.  The switch [fixed] selects the pinned behaviour (commit 8f3c295: [with_capacity(n)]
   with an untrusted count, [read_vec] allocating the announced length before looking at the input) or the repaired
   behaviour (HEAD: collections grow by push, [read_bytes] compares the announced length with what remains first).

   Model of allocation (one element size [elem_size] = 4096 bytes for every collection, an upper bound of the
   in-memory size of every element type of the crate):
   - [with_capacity(n)] requests [n * elem_size] bytes; >= 2^63 is the "capacity overflow" panic of RawVec/hashbrown;
   - a collection that grows by push requests at most [2 * elem_size * (count + 1)] bytes per pushed element
     (amortised doubling; a LinkedList node is a single element, below that bound);
   - pinned [Deserializer::read_vec] requests the announced length (vec![0; len]) before reading: >= 2^63 panics
     (capacity overflow), > 2^40 stands for "the allocator returned null" = process abort;
   - repaired [read_bytes] returns an error when the announced length exceeds the remaining input, else requests it. *)
From Coq Require Import List NArith Bool Arith Lia ZifyBool ZifyNat ZifyN.
Require Import Policy Structure Leb Wire.
Import ListNotations.
Local Open Scope nat_scope.
Arguments N.add : simpl never. Arguments N.sub : simpl never. Arguments N.mul : simpl never.
Arguments N.eqb : simpl never. Arguments N.ltb : simpl never. Arguments N.leb : simpl never.

Definition elem_size : N := 4096%N.
Definition cap_overflow : N := 9223372036854775808%N.   (* 2^63 = isize::MAX + 1 *)
Definition alloc_fail : N := 1099511627776%N.           (* 2^40: larger requests stand for a failed allocation *)

Inductive aout (A : Type) := AOk (a : A) (rest : bytes) | AErr | APanic | AAbort (request : N).
Arguments AOk {A}. Arguments AErr {A}. Arguments APanic {A}. Arguments AAbort {A}.
Definition alog := list N.
Definition ares (A : Type) := (aout A * alog)%type.

Definition aret {A} (a : A) (rest : bytes) : ares A := (AOk a rest, []).
Definition atell {A} (l : alog) (m : ares A) : ares A := (fst m, l ++ snd m).
Definition abind {A B} (m : ares A) (k : A -> bytes -> ares B) : ares B :=
  match fst m with
  | AOk a rest => atell (snd m) (k a rest)
  | AErr => (AErr, snd m)
  | APanic => (APanic, snd m)
  | AAbort n => (AAbort n, snd m)
  end.
Notation "'ado' ( x , r ) <- e ; k" := (abind e (fun x r => k)) (at level 200, x name, r name, e at level 100, k at level 200).
(* readers that allocate nothing of interest (fixed-size arrays, numbers) are the plain ones of Wire.v *)
Definition alift {A} (r : res A) : ares A := match r with ROk a rest => (AOk a rest, []) | RErr => (AErr, []) end.

(* length-prefixed byte string: pinned = Deserializer::read_vec, fixed = abe_policy::rights::read_bytes *)
Definition a_vec (fixed : bool) (bs : bytes) : ares bytes :=
  ado (len, rest) <- alift (r_leb bs);
  if fixed then
    if (N.of_nat (length rest) <? len)%N then (AErr, [])
    else atell (if (len =? 0)%N then [] else [len]) (alift (r_take (N.to_nat len) rest))
  else
    if (len =? 0)%N then (AOk [] rest, [])
    else if (cap_overflow <=? len)%N then (APanic, [])
    else if (alloc_fail <? len)%N then (AAbort len, [len])
    else atell [len] (alift (r_take (N.to_nat len) rest)).

(* [n] elements; [grow] = the collection was not pre-allocated and grows by push; [cnt] = elements pushed so far.
   The fuel is the remaining input length, as in Wire.r_n (see a_n_fuel_irrelevant below: it is never the reason
   of a failure). *)
Fixpoint a_n {A} (grow : bool) (f : bytes -> ares A) (fuel : nat) (n : N) (bs : bytes) (cnt : N) (acc : list A)
  : ares (list A) :=
  if (n =? 0)%N then (AOk (rev acc) bs, []) else
  match fuel with
  | O => (AErr, [])
  | S fu => ado (a, rest) <- f bs;
            atell (if grow then [(2 * elem_size * (cnt + 1))%N] else [])
                  (a_n grow f fu (n - 1)%N rest (cnt + 1)%N (a :: acc))
  end.
(* [pre] = the pinned code calls with_capacity(count) on this collection *)
Definition a_list {A} (fixed pre : bool) (f : bytes -> ares A) (bs : bytes) : ares (list A) :=
  ado (n, rest) <- alift (r_leb bs);
  if negb fixed && pre then
    if (cap_overflow <=? n * elem_size)%N then (APanic, [])
    else atell [(n * elem_size)%N] (a_n false f (length rest) n rest 0%N [])
  else a_n true f (length rest) n rest 0%N [].

Section Sized.
  Variable sz : sizes.
  Variable fixed : bool.
  Definition ax_named_attr (bs : bytes) : ares (bytes * w_attr) :=
    ado (name, r1) <- a_vec fixed bs; ado (a, r2) <- alift (r_attr r1); aret (name, a) r2.
  Definition ax_dim (bs : bytes) : ares (bool * list (bytes * w_attr)) :=
    ado (ord, r1) <- alift (r_flag bs); ado (l, r2) <- a_list fixed false ax_named_attr r1; aret (ord, l) r2.
  Definition ax_structure (bs : bytes) : ares w_structure :=
    ado (v, r1) <- alift (r_leb bs);
    if (1 <? v)%N then (AErr, []) else
    ado (ds, r2) <- a_list fixed false (fun b => ado (name, q1) <- a_vec fixed b; ado (d, q2) <- ax_dim q1; aret (name, d) q2) r1;
    if (v =? 1)%N then ado (nx, r3) <- alift (r_leb r2); aret {| ws_version := v; ws_dims := ds; ws_next := Some nx |} r3
    else aret {| ws_version := v; ws_dims := ds; ws_next := None |} r2.

  Definition ax_userid := a_list fixed false (fun b => alift (r_take (scalar_len sz) b)).   (* LinkedList *)
  Definition ax_msk (bs : bytes) : ares w_msk :=
    ado (s, r1) <- alift (r_take (scalar_len sz) bs);
    ado (tr, r2) <- a_list fixed false (fun b => alift (do (sk, q1) <- r_take (scalar_len sz) b; do (pk, q2) <- r_take (point_len sz) q1; ROk (sk, pk) q2)) r1;
    ado (us, r3) <- a_list fixed true ax_userid r2;                                         (* HashSet::with_capacity *)
    ado (secs, r4) <- a_list fixed true (fun b => ado (r, q1) <- a_vec fixed b;             (* RevisionMap::with_capacity *)
                                       ado (ch, q2) <- a_list fixed false (fun c => alift (do (fl, p1) <- r_leb c; do (k, p2) <- r_rsk sz p1; ROk ((fl =? 1)%N, k) p2)) q1;
                                       aret (r, ch) q2) r3;
    if (length r4 <? 16)%nat then ado (st, r5) <- ax_structure r4; aret {| wm_s := s; wm_tracers := tr; wm_users := us; wm_secrets := secs; wm_sign := None; wm_st := st |} r5
    else ado (k, r5) <- alift (r_take 16 r4); ado (st, r6) <- ax_structure r5; aret {| wm_s := s; wm_tracers := tr; wm_users := us; wm_secrets := secs; wm_sign := Some k; wm_st := st |} r6.

  Definition ax_mpk (bs : bytes) : ares w_mpk :=
    ado (tpk, r1) <- a_list fixed false (fun b => alift (r_take (point_len sz) b)) bs;      (* LinkedList *)
    ado (ks, r2) <- a_list fixed true (fun b => ado (r, q1) <- a_vec fixed b; ado (k, q2) <- alift (r_rpk sz q1); aret (r, k) q2) r1;   (* HashMap::with_capacity *)
    ado (st, r3) <- ax_structure r2; aret {| wq_tpk := tpk; wq_keys := ks; wq_st := st |} r3.

  Definition ax_usk (bs : bytes) : ares w_usk :=
    ado (id, r1) <- ax_userid bs;
    ado (ps, r2) <- a_list fixed true (fun b => alift (r_take (point_len sz) b)) r1;        (* Vec::with_capacity(n_ps) *)
    ado (chs, r3) <- a_list fixed true (fun b => ado (r, q1) <- a_vec fixed b;              (* RevisionVec::with_capacity *)
                                       ado (ch, q2) <- a_list fixed false (fun c => alift (r_rsk sz c)) q1; aret (r, ch) q2) r2;
    let chs' := filter (fun rc => negb (match snd rc with [] => true | _ => false end)) chs in
    if (length r3 <? 32)%nat then aret {| wu_id := id; wu_ps := ps; wu_chains := chs'; wu_sig := None |} r3
    else ado (sg, r4) <- alift (r_take 32 r3); aret {| wu_id := id; wu_ps := ps; wu_chains := chs'; wu_sig := Some sg |} r4.

  Definition ax_xenc (bs : bytes) : ares w_xenc :=
    ado (tag, r1) <- alift (r_take 16 bs);
    ado (c, r2) <- a_list fixed true (fun b => alift (r_take (point_len sz) b)) r1;         (* Vec::with_capacity(n_traps) *)
    ado (h, r3) <- alift (r_flag r2);
    if h then ado (es, r4) <- a_list fixed false (fun b => alift (do (e, q1) <- r_take (ct_len sz) b; do (f, q2) <- r_take 32 q1; ROk (e, f) q2)) r3;
              aret {| wx_tag := tag; wx_c := c; wx_hyb := true; wx_entries := es |} r4
    else ado (fs, r4) <- a_list fixed false (fun b => alift (r_take 32 b)) r3;
         aret {| wx_tag := tag; wx_c := c; wx_hyb := false; wx_entries := map (fun f => ([], f)) fs |} r4.

  (* EncryptedHeader::read = XEnc then a length-prefixed ciphertext *)
  Definition ax_header (bs : bytes) : ares (w_xenc * bytes) :=
    ado (x, r1) <- ax_xenc bs; ado (c, r2) <- a_vec fixed r1; aret (x, c) r2.
End Sized.

(* the plain reader of an encrypted header (Wire.v has none) *)
Definition r_header (sz : sizes) (bs : bytes) : res (w_xenc * bytes) :=
  do (x, r1) <- r_xenc sz bs; do (c, r2) <- r_vec r1; ROk (x, c) r2.

(* user-level names: outcome and log at the default sizes *)
Definition a_xenc (fixed : bool) bs := fst (ax_xenc default_sizes fixed bs).
Definition l_xenc (fixed : bool) bs := snd (ax_xenc default_sizes fixed bs).
Definition a_header (fixed : bool) bs := fst (ax_header default_sizes fixed bs).
Definition l_header (fixed : bool) bs := snd (ax_header default_sizes fixed bs).
Definition a_usk (fixed : bool) bs := fst (ax_usk default_sizes fixed bs).
Definition l_usk (fixed : bool) bs := snd (ax_usk default_sizes fixed bs).
Definition a_mpk (fixed : bool) bs := fst (ax_mpk default_sizes fixed bs).
Definition l_mpk (fixed : bool) bs := snd (ax_mpk default_sizes fixed bs).
Definition a_msk (fixed : bool) bs := fst (ax_msk default_sizes fixed bs).
Definition l_msk (fixed : bool) bs := snd (ax_msk default_sizes fixed bs).
Definition a_structure (fixed : bool) bs := fst (ax_structure fixed bs).
Definition l_structure (fixed : bool) bs := snd (ax_structure fixed bs).

Definition erase {A} (o : aout A) : res A := match o with AOk a rest => ROk a rest | _ => RErr end.

(* ------------------------------------------------------------------------------------------------------------ *)
(* 1. erasure: the instrumented repaired reader computes the value of the plain reader                           *)
Definition eraseM {A} (m : ares A) : res A := erase (fst m).

Lemma erase_bind {A B} (m : ares A) (k : A -> bytes -> ares B) :
  eraseM (abind m k) = bind (eraseM m) (fun a r => eraseM (k a r)).
Proof. destruct m as [o l]. destruct o; reflexivity. Qed.
Lemma erase_lift {A} (r : res A) : eraseM (alift r) = r.
Proof. destruct r; reflexivity. Qed.
Lemma erase_ret {A} (a : A) rest : eraseM (aret a rest) = ROk a rest.
Proof. reflexivity. Qed.
Lemma erase_tell {A} l (m : ares A) : eraseM (atell l m) = eraseM m.
Proof. reflexivity. Qed.
Lemma erase_if {A} (c : bool) (x y : ares A) : eraseM (if c then x else y) = if c then eraseM x else eraseM y.
Proof. destruct c; reflexivity. Qed.
Lemma bind_cong {A B} (m m' : res A) (k k' : A -> bytes -> res B) :
  m = m' -> (forall a r, k a r = k' a r) -> bind m k = bind m' k'.
Proof. intros -> H. destruct m'; [apply H|reflexivity]. Qed.

Lemma erase_vec bs : eraseM (a_vec true bs) = r_vec bs.
Proof.
  unfold a_vec, r_vec. rewrite erase_bind, erase_lift. apply bind_cong; [reflexivity|]. intros len rest.
  rewrite erase_if. destruct (N.of_nat (length rest) <? len)%N; [reflexivity|].
  rewrite erase_tell, erase_lift. reflexivity.
Qed.
Lemma erase_n {A} grow (f : bytes -> ares A) g : (forall b, eraseM (f b) = g b) ->
  forall fuel n bs cnt acc, eraseM (a_n grow f fuel n bs cnt acc) = r_n g fuel n bs acc.
Proof.
  intros Hf. induction fuel as [|fu IH]; intros n bs cnt acc; cbn [a_n r_n]; destruct (n =? 0)%N; try reflexivity.
  rewrite erase_bind. apply bind_cong; [apply Hf|]. intros a r. rewrite erase_tell. apply IH.
Qed.
Lemma erase_list {A} pre (f : bytes -> ares A) g : (forall b, eraseM (f b) = g b) ->
  forall bs, eraseM (a_list true pre f bs) = r_list g bs.
Proof.
  intros Hf bs. unfold a_list, r_list. rewrite erase_bind, erase_lift. apply bind_cong; [reflexivity|].
  intros n rest. cbn [negb andb]. apply erase_n, Hf.
Qed.

Ltac er_step :=
  first [ reflexivity
        | rewrite erase_bind | rewrite erase_lift | rewrite erase_ret | rewrite erase_vec | rewrite erase_if
        | apply bind_cong; [|intros ? ?]
        | apply erase_list; intros ?
        | match goal with |- (if ?c then _ else _) = (if ?c then _ else _) => destruct c end ].
Ltac er := repeat er_step.

Lemma erase_named_attr bs : eraseM (ax_named_attr true bs) = r_named_attr bs.
Proof. unfold ax_named_attr, r_named_attr. er. Qed.
Lemma erase_dim bs : eraseM (ax_dim true bs) = r_dim bs.
Proof. unfold ax_dim, r_dim. er. apply erase_named_attr. Qed.
Lemma erase_structure bs : eraseM (ax_structure true bs) = r_structure bs.
Proof. unfold ax_structure, r_structure. er. apply erase_dim. Qed.
Lemma erase_userid sz bs : eraseM (ax_userid sz true bs) = r_userid sz bs.
Proof. unfold ax_userid, r_userid. er. Qed.

Theorem alloc_erase_xenc_sz sz bs : erase (fst (ax_xenc sz true bs)) = r_xenc sz bs.
Proof. change (eraseM (ax_xenc sz true bs) = r_xenc sz bs). unfold ax_xenc, r_xenc. er. Qed.
Theorem alloc_erase_header_sz sz bs : erase (fst (ax_header sz true bs)) = r_header sz bs.
Proof.
  change (eraseM (ax_header sz true bs) = r_header sz bs). unfold ax_header, r_header.
  rewrite erase_bind. apply bind_cong; [apply alloc_erase_xenc_sz|]. intros x r1. er.
Qed.
Theorem alloc_erase_usk_sz sz bs : erase (fst (ax_usk sz true bs)) = r_usk sz bs.
Proof.
  change (eraseM (ax_usk sz true bs) = r_usk sz bs). unfold ax_usk, r_usk.
  rewrite erase_bind. apply bind_cong; [apply erase_userid|]. intros id r1. er.
Qed.
Theorem alloc_erase_mpk_sz sz bs : erase (fst (ax_mpk sz true bs)) = r_mpk sz bs.
Proof. change (eraseM (ax_mpk sz true bs) = r_mpk sz bs). unfold ax_mpk, r_mpk. er. apply erase_structure. Qed.
Theorem alloc_erase_msk_sz sz bs : erase (fst (ax_msk sz true bs)) = r_msk sz bs.
Proof.
  change (eraseM (ax_msk sz true bs) = r_msk sz bs). unfold ax_msk, r_msk. er;
    try apply erase_userid; apply erase_structure.
Qed.

(* the statements of the task, at the default sizes *)
Theorem alloc_erase_xenc bs : erase (a_xenc true bs) = r_xenc default_sizes bs.
Proof. apply alloc_erase_xenc_sz. Qed.
Theorem alloc_erase_header bs : erase (a_header true bs) = r_header default_sizes bs.
Proof. apply alloc_erase_header_sz. Qed.
Theorem alloc_erase_usk bs : erase (a_usk true bs) = r_usk default_sizes bs.
Proof. apply alloc_erase_usk_sz. Qed.
Theorem alloc_erase_mpk bs : erase (a_mpk true bs) = r_mpk default_sizes bs.
Proof. apply alloc_erase_mpk_sz. Qed.
Theorem alloc_erase_msk bs : erase (a_msk true bs) = r_msk default_sizes bs.
Proof. apply alloc_erase_msk_sz. Qed.
Theorem alloc_erase_structure bs : erase (a_structure true bs) = r_structure bs.
Proof. apply erase_structure. Qed.
Print Assumptions alloc_erase_xenc.
Print Assumptions alloc_erase_header.
Print Assumptions alloc_erase_usk.
Print Assumptions alloc_erase_mpk.
Print Assumptions alloc_erase_msk.
Print Assumptions alloc_erase_structure.

(* ------------------------------------------------------------------------------------------------------------ *)
(* 2. the repaired readers request memory proportional to the input, and neither panic nor abort                 *)
(* 2a. what the plain readers consume *)
Definition eats {A} (d : nat) (r : bytes -> res A) : Prop :=
  forall bs a rest, r bs = ROk a rest -> length rest + d <= length bs.

Lemma leb_read_fuel_lt : forall fuel shift acc bs n rest,
  leb_read_fuel fuel shift acc bs = Some (n, rest) -> length rest < length bs.
Proof.
  induction fuel as [|fu IH]; intros shift acc bs n rest H; cbn [leb_read_fuel] in H; [discriminate|].
  destruct bs as [|b t]; [discriminate|].
  destruct ((shift =? 63)%N && negb (b =? 0)%N && negb (b =? 1)%N); [discriminate|].
  destruct (b <? 128)%N.
  - injection H as _ <-. cbn [length]. lia.
  - apply IH in H. cbn [length]. lia.
Qed.
Lemma eats_leb d : d <= 1 -> eats d r_leb.
Proof.
  intros Hd bs a rest H. unfold r_leb in H. destruct (leb_read bs) as [[n r]|] eqn:E; [|discriminate].
  injection H as <- <-. apply leb_read_fuel_lt in E. lia.
Qed.
Lemma r_take_len : forall n bs a rest, r_take n bs = ROk a rest -> length rest + n = length bs /\ length a = n.
Proof.
  induction n as [|n IH]; intros bs a rest H; cbn [r_take] in H.
  - injection H as <- <-. cbn [length]. lia.
  - destruct bs as [|b t]; [discriminate|]. destruct (r_take n t) as [x r|] eqn:E; [|discriminate].
    cbn [bind] in H. injection H as <- <-. apply IH in E. cbn [length]. lia.
Qed.
Lemma eats_take d n : d <= n -> eats d (r_take n).
Proof. intros Hd bs a rest H. apply r_take_len in H. lia. Qed.
Lemma eats_bind {A B} d (r : bytes -> res A) (k : A -> bytes -> res B) :
  eats d r -> (forall a, eats 0 (k a)) -> eats d (fun bs => bind (r bs) k).
Proof.
  intros Hr Hk bs b rest H. destruct (r bs) as [a r1|] eqn:E; [|discriminate]. cbn [bind] in H.
  apply Hr in E. apply Hk in H. lia.
Qed.
Lemma eats_bind_r {A B} d (r : bytes -> res A) (k : A -> bytes -> res B) :
  eats 0 r -> (forall a, eats d (k a)) -> eats d (fun bs => bind (r bs) k).
Proof.
  intros Hr Hk bs b rest H. destruct (r bs) as [a r1|] eqn:E; [|discriminate]. cbn [bind] in H.
  apply Hr in E. apply Hk in H. lia.
Qed.
Lemma eats_ret {A} (a : A) : eats 0 (fun r => ROk a r).
Proof. intros bs b rest H. injection H as _ <-. lia. Qed.
Lemma eats_err {A} d : eats d (fun _ => @RErr A).
Proof. intros bs b rest H. discriminate. Qed.
Lemma eats_if {A} d (c : bytes -> bool) (f g : bytes -> res A) :
  eats d f -> eats d g -> eats d (fun bs => if c bs then f bs else g bs).
Proof. intros Hf Hg bs a rest H. destruct (c bs); [apply Hf in H|apply Hg in H]; exact H. Qed.
Lemma eats_flag d : d <= 1 -> eats d r_flag.
Proof.
  intros Hd. unfold r_flag. apply eats_bind; [apply eats_leb, Hd|]. intros n.
  apply (eats_if 0 (fun _ => (n =? 0)%N)); [apply eats_ret|].
  apply (eats_if 0 (fun _ => (n =? 1)%N)); [apply eats_ret|apply eats_err].
Qed.
Lemma eats_attr d : d <= 1 -> eats d r_attr.
Proof.
  intros Hd. unfold r_attr. apply eats_bind; [apply eats_leb, Hd|]. intros id.
  apply eats_bind; [apply eats_flag; lia|]. intros h. apply eats_bind; [apply eats_flag; lia|]. intros s. apply eats_ret.
Qed.
Lemma eats_rsk sz d : d <= 1 -> eats d (r_rsk sz).
Proof.
  intros Hd. unfold r_rsk. apply eats_bind; [apply eats_flag, Hd|]. intros h.
  apply eats_bind; [apply eats_take; lia|]. intros sk. destruct h.
  - apply eats_bind; [apply eats_take; lia|]. intros dk. apply eats_ret.
  - apply eats_ret.
Qed.
Lemma eats_rpk sz d : d <= 1 -> eats d (r_rpk sz).
Proof.
  intros Hd. unfold r_rpk. apply eats_bind; [apply eats_flag, Hd|]. intros h.
  apply eats_bind; [apply eats_take; lia|]. intros p. destruct h.
  - apply eats_bind; [apply eats_take; lia|]. intros ek. apply eats_ret.
  - apply eats_ret.
Qed.

(* 2b. the instrumented readers *)
Definition lim (L : nat) : N := (2 * elem_size * (N.of_nat L + 1))%N.
Definition safe {A} (o : aout A) : Prop := match o with APanic | AAbort _ => False | _ => True end.
(* on every input of at most L bytes: every request is below lim L, no panic, no abort, and a success leaves at
   least d bytes fewer *)
Definition gd {A} (d : nat) (f : bytes -> ares A) : Prop :=
  forall L bs, length bs <= L ->
    Forall (fun r => (r <= lim L)%N) (snd (f bs)) /\ safe (fst (f bs)) /\
    forall a rest, fst (f bs) = AOk a rest -> length rest + d <= length bs.

Lemma gd_bind {A B} d (m : bytes -> ares A) (k : A -> bytes -> ares B) :
  gd d m -> (forall a, gd 0 (k a)) -> gd d (fun bs => abind (m bs) k).
Proof.
  intros Hm Hk L bs HL. destruct (Hm L bs HL) as (Hl & Hs & Hr). unfold abind.
  destruct (m bs) as [o l]. cbn [fst snd] in *.
  destruct o as [a r1| | |q]; cbn [fst snd]; try (split; [exact Hl|split; [exact Hs|intros ? ? ?; discriminate]]).
  specialize (Hr a r1 eq_refl). destruct (Hk a L r1 ltac:(lia)) as (Hl2 & Hs2 & Hr2).
  unfold atell. cbn [fst snd]. split; [apply Forall_app; split; assumption|]. split; [exact Hs2|].
  intros b r2 E. specialize (Hr2 b r2 E). lia.
Qed.
Lemma gd_lift {A} d (r : bytes -> res A) : eats d r -> gd d (fun bs => alift (r bs)).
Proof.
  intros Hr L bs HL. destruct (r bs) as [a r1|] eqn:E; cbn [alift fst snd].
  - split; [constructor|]. split; [exact I|]. intros a' r' H. injection H as <- <-. apply Hr in E. exact E.
  - split; [constructor|]. split; [exact I|]. intros; discriminate.
Qed.
Lemma gd_ret {A} (a : A) : gd 0 (fun r => aret a r).
Proof. intros L bs HL. cbn. split; [constructor|]. split; [exact I|]. intros a' r' H. injection H as _ <-. lia. Qed.
Lemma gd_err {A} d : gd d (fun _ => (@AErr A, [])).
Proof. intros L bs HL. cbn. split; [constructor|]. split; [exact I|]. intros; discriminate. Qed.
Lemma gd_if {A} d (c : bytes -> bool) (f g : bytes -> ares A) :
  gd d f -> gd d g -> gd d (fun bs => if c bs then f bs else g bs).
Proof. intros Hf Hg L bs HL. destruct (c bs); [apply Hf|apply Hg]; exact HL. Qed.
Lemma gd_weaken {A} d d' (f : bytes -> ares A) : d' <= d -> gd d f -> gd d' f.
Proof.
  intros Hd Hf L bs HL. destruct (Hf L bs HL) as (Hl & Hs & Hr). split; [exact Hl|]. split; [exact Hs|].
  intros a rest E. specialize (Hr a rest E). lia.
Qed.

Lemma lim_ge L (x : N) : (x <= N.of_nat L)%N -> (x <= lim L)%N.
Proof. unfold lim, elem_size. lia. Qed.
Lemma gd_vec d : d <= 1 -> gd d (a_vec true).
Proof.
  intros Hd. unfold a_vec. apply gd_bind; [apply gd_lift, eats_leb, Hd|]. intros len L rest HL.
  destruct (N.of_nat (length rest) <? len)%N eqn:E.
  - apply (gd_err 0 L rest HL).
  - destruct (r_take (N.to_nat len) rest) as [a r1|] eqn:Et; unfold atell; cbn [alift fst snd app].
    + rewrite app_nil_r. split.
      * destruct (len =? 0)%N; constructor; [|constructor]. apply lim_ge. lia.
      * split; [exact I|]. intros a' r' H. injection H as <- <-. apply r_take_len in Et. lia.
    + rewrite app_nil_r. split.
      * destruct (len =? 0)%N; constructor; [|constructor]. apply lim_ge. lia.
      * split; [exact I|]. intros; discriminate.
Qed.

(* the loop: the number of elements pushed never exceeds the number of bytes consumed *)
Lemma gd_n {A} grow (f : bytes -> ares A) : gd 1 f ->
  forall fuel n bs cnt acc L, (cnt + N.of_nat (length bs) <= N.of_nat L)%N ->
    Forall (fun r => (r <= lim L)%N) (snd (a_n grow f fuel n bs cnt acc)) /\ safe (fst (a_n grow f fuel n bs cnt acc)) /\
    forall a rest, fst (a_n grow f fuel n bs cnt acc) = AOk a rest -> length rest + 0 <= length bs.
Proof.
  intros Hf. induction fuel as [|fu IH]; intros n bs cnt acc L Hc; cbn [a_n]; destruct (n =? 0)%N.
  1,3: cbn [fst snd]; split; [constructor|]; split; [exact I|]; intros a rest H; injection H as _ <-; lia.
  - cbn [fst snd]. split; [constructor|]. split; [exact I|]. intros; discriminate.
  - destruct (Hf L bs ltac:(lia)) as (Hl & Hs & Hr). unfold abind. destruct (f bs) as [o l]. cbn [fst snd] in *.
    destruct o as [a r1| | |q]; cbn [fst snd]; try (split; [exact Hl|split; [exact Hs|intros ? ? ?; discriminate]]).
    specialize (Hr a r1 eq_refl).
    destruct (IH (n - 1)%N r1 (cnt + 1)%N (a :: acc) L ltac:(lia)) as (Hl2 & Hs2 & Hr2).
    unfold atell. cbn [fst snd]. split.
    + apply Forall_app. split; [exact Hl|]. apply Forall_app. split; [|exact Hl2].
      destruct grow; constructor; [|constructor]. unfold lim, elem_size. lia.
    + split; [exact Hs2|]. intros b r2 E. specialize (Hr2 b r2 E). lia.
Qed.
Lemma gd_list {A} d pre (f : bytes -> ares A) : d <= 1 -> gd 1 f -> gd d (a_list true pre f).
Proof.
  intros Hd Hf. unfold a_list. cbn [negb andb]. apply gd_bind; [apply gd_lift, eats_leb, Hd|].
  intros n L rest HL. apply gd_n; [exact Hf|]. lia.
Qed.

  Lemma gd_named_attr : gd 1 (ax_named_attr true).
  Proof.
    unfold ax_named_attr. apply gd_bind; [apply gd_vec; lia|]. intros name.
    apply gd_bind; [apply gd_lift, eats_attr; lia|]. intros a. apply gd_ret.
  Qed.
  Lemma gd_dim : gd 0 (ax_dim true).
  Proof.
    unfold ax_dim. apply gd_bind; [apply gd_lift, eats_flag; lia|]. intros ord.
    apply gd_bind; [apply gd_list; [lia|apply gd_named_attr]|]. intros l. apply gd_ret.
  Qed.
  Lemma gd_structure : gd 0 (ax_structure true).
  Proof.
    unfold ax_structure. apply gd_bind; [apply gd_lift, eats_leb; lia|]. intros v.
    apply (gd_if 0 (fun _ => (1 <? v)%N)); [apply gd_err|].
    apply gd_bind.
    - apply gd_list; [lia|]. apply gd_bind; [apply gd_vec; lia|]. intros name.
      apply gd_bind; [apply gd_dim|]. intros dm. apply gd_ret.
    - intros ds. apply (gd_if 0 (fun _ => (v =? 1)%N)); [|apply gd_ret].
      apply gd_bind; [apply gd_lift, eats_leb; lia|]. intros nx. apply gd_ret.
  Qed.
Section Bound.
  Variable sz : sizes.
  Hypothesis Hsc : 0 < scalar_len sz.
  Hypothesis Hpt : 0 < point_len sz.

  Lemma gd_userid d : d <= 1 -> gd d (ax_userid sz true).
  Proof. intros Hd. unfold ax_userid. apply gd_list; [exact Hd|]. apply gd_lift, eats_take. lia. Qed.

  Theorem gd_xenc : gd 0 (ax_xenc sz true).
  Proof.
    unfold ax_xenc. apply gd_bind; [apply gd_lift, eats_take; lia|]. intros tag.
    apply gd_bind; [apply gd_list; [lia|apply gd_lift, eats_take; lia]|]. intros c.
    apply gd_bind; [apply gd_lift, eats_flag; lia|]. intros h. destruct h.
    - apply gd_bind; [|intros es; apply gd_ret]. apply gd_list; [lia|]. apply gd_lift.
      apply eats_bind_r; [apply eats_take; lia|]. intros e. apply eats_bind; [apply eats_take; lia|]. intros f. apply eats_ret.
    - apply gd_bind; [|intros fs; apply gd_ret]. apply gd_list; [lia|]. apply gd_lift, eats_take. lia.
  Qed.
  Theorem gd_header : gd 0 (ax_header sz true).
  Proof.
    unfold ax_header. apply gd_bind; [apply gd_xenc|]. intros x. apply gd_bind; [apply gd_vec; lia|]. intros c. apply gd_ret.
  Qed.
  Theorem gd_usk : gd 0 (ax_usk sz true).
  Proof.
    unfold ax_usk. apply gd_bind; [apply gd_userid; lia|]. intros id.
    apply gd_bind; [apply gd_list; [lia|apply gd_lift, eats_take; lia]|]. intros ps.
    apply gd_bind.
    - apply gd_list; [lia|]. apply gd_bind; [apply gd_vec; lia|]. intros r.
      apply gd_bind; [|intros ch; apply gd_ret]. apply gd_list; [lia|]. apply gd_lift, eats_rsk. lia.
    - intros chs. apply (gd_if 0 (fun r3 => (length r3 <? 32)%nat)); [apply gd_ret|].
      apply gd_bind; [apply gd_lift, eats_take; lia|]. intros sg. apply gd_ret.
  Qed.
  Theorem gd_mpk : gd 0 (ax_mpk sz true).
  Proof.
    unfold ax_mpk. apply gd_bind; [apply gd_list; [lia|apply gd_lift, eats_take; lia]|]. intros tpk.
    apply gd_bind.
    - apply gd_list; [lia|]. apply gd_bind; [apply gd_vec; lia|]. intros r.
      apply gd_bind; [apply gd_lift, eats_rpk; lia|]. intros k. apply gd_ret.
    - intros ks. apply gd_bind; [apply gd_structure|]. intros st. apply gd_ret.
  Qed.
  Theorem gd_msk : gd 0 (ax_msk sz true).
  Proof.
    unfold ax_msk. apply gd_bind; [apply gd_lift, eats_take; lia|]. intros s.
    apply gd_bind.
    { apply gd_list; [lia|]. apply gd_lift. apply eats_bind; [apply eats_take; lia|]. intros sk.
      apply eats_bind; [apply eats_take; lia|]. intros pk. apply eats_ret. }
    intros tr. apply gd_bind; [apply gd_list; [lia|apply gd_userid; lia]|]. intros us.
    apply gd_bind.
    { apply gd_list; [lia|]. apply gd_bind; [apply gd_vec; lia|]. intros r.
      apply gd_bind; [|intros ch; apply gd_ret]. apply gd_list; [lia|]. apply gd_lift.
      apply eats_bind; [apply eats_leb; lia|]. intros fl. apply eats_bind; [apply eats_rsk; lia|]. intros k. apply eats_ret. }
    intros secs. apply (gd_if 0 (fun r4 => (length r4 <? 16)%nat)).
    - apply gd_bind; [apply gd_structure|]. intros st. apply gd_ret.
    - apply gd_bind; [apply gd_lift, eats_take; lia|]. intros k. apply gd_bind; [apply gd_structure|]. intros st. apply gd_ret.
  Qed.
End Bound.

(* the statement of the task for an instrumented reader [m] (outcome, log) *)
Definition alloc_bounded {A} (m : bytes -> ares A) : Prop :=
  forall bs, Forall (fun r => (r <= 2 * 4096 * (N.of_nat (length bs) + 1))%N) (snd (m bs))
             /\ fst (m bs) <> APanic /\ forall n, fst (m bs) <> AAbort n.
Lemma gd_alloc_bounded {A} (m : bytes -> ares A) : gd 0 m -> alloc_bounded m.
Proof.
  intros H bs. destruct (H (length bs) bs (le_n _)) as (Hl & Hs & _). split; [exact Hl|].
  destruct (fst (m bs)); cbn [safe] in Hs; (split; [|intros q]); try discriminate; contradiction.
Qed.

Example bound_hyps_inhabited : 0 < scalar_len default_sizes /\ 0 < point_len default_sizes.
Proof. cbn. lia. Qed.

Theorem alloc_fixed_bounded_xenc : forall bs,
  Forall (fun r => (r <= 2 * 4096 * (N.of_nat (length bs) + 1))%N) (l_xenc true bs)
  /\ a_xenc true bs <> APanic /\ forall n, a_xenc true bs <> AAbort n.
Proof. apply (gd_alloc_bounded (ax_xenc default_sizes true)), gd_xenc; cbn; lia. Qed.
Theorem alloc_fixed_bounded_header : forall bs,
  Forall (fun r => (r <= 2 * 4096 * (N.of_nat (length bs) + 1))%N) (l_header true bs)
  /\ a_header true bs <> APanic /\ forall n, a_header true bs <> AAbort n.
Proof. apply (gd_alloc_bounded (ax_header default_sizes true)), gd_header; cbn; lia. Qed.
Theorem alloc_fixed_bounded_usk : forall bs,
  Forall (fun r => (r <= 2 * 4096 * (N.of_nat (length bs) + 1))%N) (l_usk true bs)
  /\ a_usk true bs <> APanic /\ forall n, a_usk true bs <> AAbort n.
Proof. apply (gd_alloc_bounded (ax_usk default_sizes true)), gd_usk; cbn; lia. Qed.
Theorem alloc_fixed_bounded_mpk : forall bs,
  Forall (fun r => (r <= 2 * 4096 * (N.of_nat (length bs) + 1))%N) (l_mpk true bs)
  /\ a_mpk true bs <> APanic /\ forall n, a_mpk true bs <> AAbort n.
Proof. apply (gd_alloc_bounded (ax_mpk default_sizes true)), gd_mpk; cbn; lia. Qed.
Theorem alloc_fixed_bounded_msk : forall bs,
  Forall (fun r => (r <= 2 * 4096 * (N.of_nat (length bs) + 1))%N) (l_msk true bs)
  /\ a_msk true bs <> APanic /\ forall n, a_msk true bs <> AAbort n.
Proof. apply (gd_alloc_bounded (ax_msk default_sizes true)), gd_msk; cbn; lia. Qed.
Theorem alloc_fixed_bounded_structure : forall bs,
  Forall (fun r => (r <= 2 * 4096 * (N.of_nat (length bs) + 1))%N) (l_structure true bs)
  /\ a_structure true bs <> APanic /\ forall n, a_structure true bs <> AAbort n.
Proof. apply (gd_alloc_bounded (ax_structure true)), gd_structure. Qed.
Print Assumptions alloc_fixed_bounded_xenc.
Print Assumptions alloc_fixed_bounded_header.
Print Assumptions alloc_fixed_bounded_usk.
Print Assumptions alloc_fixed_bounded_mpk.
Print Assumptions alloc_fixed_bounded_msk.
Print Assumptions alloc_fixed_bounded_structure.

(* non-vacuity: a well-formed encapsulation (one trap, one classic entry) is read, with two small requests *)
Definition ex_xenc : bytes := (repeat 7 16 ++ [1] ++ repeat 9 32 ++ [0; 1] ++ repeat 5 32)%N.
Example alloc_fixed_ex :
  a_xenc true ex_xenc = AOk {| wx_tag := repeat 7%N 16; wx_c := [repeat 9%N 32]; wx_hyb := false; wx_entries := [([], repeat 5%N 32)] |} []
  /\ l_xenc true ex_xenc = [8192; 8192]%N /\ a_xenc false ex_xenc = a_xenc true ex_xenc /\ l_xenc false ex_xenc = [4096; 8192]%N.
Proof. vm_compute. repeat split. Qed.

(* ------------------------------------------------------------------------------------------------------------ *)
(* 3. the pinned readers are refuted                                                                              *)
Definition leb_u64_max : bytes := [255; 255; 255; 255; 255; 255; 255; 255; 255; 1]%N.    (* LEB128 of 2^64 - 1 *)
Definition leb_2_55 : bytes := [128; 128; 128; 128; 128; 128; 128; 64]%N.                (* LEB128 of 2^55 *)
Example leb_witnesses : r_leb leb_u64_max = ROk 18446744073709551615%N [] /\ r_leb leb_2_55 = ROk 36028797018963968%N [].
Proof. vm_compute. split; reflexivity. Qed.

(* (a) Vec::with_capacity(n_traps): a tag then a trap count of 2^64-1 : capacity overflow *)
Definition w_capacity : bytes := (repeat 0 16)%N ++ leb_u64_max.
Theorem alloc_pinned_refuted :
  exists bs, length bs <= 32 /\ (a_xenc false bs = APanic \/ exists n, a_xenc false bs = AAbort n).
Proof. exists w_capacity. split; [cbn; lia|]. left. vm_compute. reflexivity. Qed.
Print Assumptions alloc_pinned_refuted.
Example alloc_fixed_on_witness : a_xenc true w_capacity = AErr /\ l_xenc true w_capacity = [].
Proof. vm_compute. split; reflexivity. Qed.

(* (a') without panic: a count of 2^40 traps makes the pinned reader request 2^52 bytes for a 22-byte input *)
Definition w_huge : bytes := ((repeat 0 16) ++ [128; 128; 128; 128; 128; 32])%N.
Theorem alloc_pinned_unbounded_refuted :
  exists bs r, length bs <= 32 /\ In r (l_xenc false bs) /\ (2 * 4096 * (N.of_nat (length bs) + 1) < r)%N.
Proof. exists w_huge, 4503599627370496%N. split; [cbn; lia|]. split; [vm_compute; left; reflexivity|]. vm_compute. reflexivity. Qed.
Print Assumptions alloc_pinned_unbounded_refuted.

(* (b) read_vec allocates the announced length first: an empty encapsulation, then a ciphertext announced as 2^55
   bytes long; and a user key whose only right is announced as 2^55 bytes long *)
Definition w_header : bytes := (repeat 0 16 ++ [0; 0; 0])%N ++ leb_2_55.
Definition w_usk : bytes := [0; 0; 1]%N ++ leb_2_55.
Theorem alloc_pinned_refuted_header :
  exists bs, length bs <= 32 /\ (a_header false bs = APanic \/ exists n, a_header false bs = AAbort n).
Proof. exists w_header. split; [cbn; lia|]. right. exists 36028797018963968%N. vm_compute. reflexivity. Qed.
Theorem alloc_pinned_refuted_usk :
  exists bs, length bs <= 32 /\ (a_usk false bs = APanic \/ exists n, a_usk false bs = AAbort n).
Proof. exists w_usk. split; [cbn; lia|]. right. exists 36028797018963968%N. vm_compute. reflexivity. Qed.
Print Assumptions alloc_pinned_refuted_header.
Print Assumptions alloc_pinned_refuted_usk.
Example alloc_fixed_on_witnesses2 :
  a_header true w_header = AErr /\ l_header true w_header = [] /\ a_usk true w_usk = AErr /\ l_usk true w_usk = [].
Proof. vm_compute. repeat split. Qed.
