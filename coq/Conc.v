(* Prototype (scratch): threads over one non-reentrant mutex guarding an RNG cursor *)
From Coq Require Import List NArith Bool Arith Lia.
Import ListNotations.

Inductive ev := Acq | Rel | Draw (n : N) | Unknown.
Definition program := list ev.

Fixpoint wb (held : bool) (p : program) : bool :=
  match p, held with
  | [], false => true
  | [], true => false
  | Acq :: t, false => wb true t
  | Rel :: t, true => wb false t
  | Draw _ :: t, true => wb true t
  | _, _ => false
  end.
Definition well_bracketed (p : program) : bool := wb false p.

Record conf := { owner : option nat; cursor : N; threads : list program }.

Definition holds (c : conf) (i : nat) : bool := match owner c with Some j => Nat.eqb i j | None => false end.

Fixpoint set_nth {A} (i : nat) (x : A) (l : list A) : list A :=
  match l, i with [], _ => [] | _ :: t, O => x :: t | y :: t, S i' => y :: set_nth i' x t end.

(* one step of thread i; Acq blocks while the lock is held by anyone, including i itself *)
Inductive cstep : conf -> nat -> conf -> Prop :=
| s_acq c i t : nth_error (threads c) i = Some (Acq :: t) -> owner c = None ->
    cstep c i {| owner := Some i; cursor := cursor c; threads := set_nth i t (threads c) |}
| s_rel c i t : nth_error (threads c) i = Some (Rel :: t) -> owner c = Some i ->
    cstep c i {| owner := None; cursor := cursor c; threads := set_nth i t (threads c) |}
| s_draw c i n t : nth_error (threads c) i = Some (Draw n :: t) -> owner c = Some i ->
    cstep c i {| owner := Some i; cursor := (cursor c + n)%N; threads := set_nth i t (threads c) |}.

Definition Inv (c : conf) : Prop :=
  (forall i p, nth_error (threads c) i = Some p -> wb (holds c i) p = true) /\
  (forall j, owner c = Some j -> j < length (threads c)).

Definition finished (c : conf) : Prop := Forall (fun p => p = []) (threads c).

Lemma nth_error_set_nth_eq {A} i (x : A) l : i < length l -> nth_error (set_nth i x l) i = Some x.
Proof. revert i. induction l as [|y l IH]; intros [|i] H; cbn in *; try lia; [reflexivity|apply IH; lia]. Qed.
Lemma nth_error_set_nth_neq {A} i j (x : A) l : i <> j -> nth_error (set_nth i x l) j = nth_error l j.
Proof. revert i j. induction l as [|y l IH]; intros [|i] [|j] H; cbn; try reflexivity; try lia. apply IH. lia. Qed.
Lemma set_nth_length {A} i (x : A) l : length (set_nth i x l) = length l.
Proof. revert i. induction l as [|y l IH]; intros [|i]; cbn; try reflexivity. rewrite IH. reflexivity. Qed.

Lemma inv_init ps : Forall (fun p => well_bracketed p = true) ps -> Inv {| owner := None; cursor := 0; threads := ps |}.
Proof.
  intros H. split; [|discriminate]. intros i p Hp. cbn. unfold holds. cbn.
  apply nth_error_In in Hp. eapply Forall_forall in H; [|exact Hp]. exact H.
Qed.

Lemma inv_step c i c' : Inv c -> cstep c i c' -> Inv c'.
Proof.
  intros (Hwb & Hown) Hs.
  assert (Hlt : forall p, nth_error (threads c) i = Some p -> i < length (threads c)).
  { intros p Hp. apply nth_error_Some. congruence. }
  inversion Hs as [c0 i0 t Hn Ho|c0 i0 t Hn Ho|c0 i0 n t Hn Ho]; subst; cbn; split; cbn.
  - intros j p Hp. unfold holds. cbn. destruct (Nat.eqb j i) eqn:E.
    + apply Nat.eqb_eq in E. subst j. rewrite nth_error_set_nth_eq in Hp by (eapply Hlt; eassumption). inversion Hp; subst.
      specialize (Hwb i _ Hn). unfold holds in Hwb. rewrite Ho in Hwb. exact Hwb.
    + apply Nat.eqb_neq in E. rewrite nth_error_set_nth_neq in Hp by lia.
      specialize (Hwb j _ Hp). unfold holds in Hwb. rewrite Ho in Hwb. exact Hwb.
  - intros j Hj. inversion Hj; subst. rewrite set_nth_length. eapply Hlt; eassumption.
  - intros j p Hp. unfold holds. cbn. destruct (Nat.eq_dec j i) as [->|Hne].
    + rewrite nth_error_set_nth_eq in Hp by (eapply Hlt; eassumption). inversion Hp; subst.
      specialize (Hwb i _ Hn). unfold holds in Hwb. rewrite Ho, Nat.eqb_refl in Hwb. exact Hwb.
    + rewrite nth_error_set_nth_neq in Hp by lia.
      specialize (Hwb j _ Hp). unfold holds in Hwb. rewrite Ho in Hwb.
      destruct (Nat.eqb j i) eqn:E; [apply Nat.eqb_eq in E; contradiction|exact Hwb].
  - discriminate.
  - intros j p Hp. unfold holds. cbn. destruct (Nat.eqb j i) eqn:E.
    + apply Nat.eqb_eq in E. subst j. rewrite nth_error_set_nth_eq in Hp by (eapply Hlt; eassumption). inversion Hp; subst.
      specialize (Hwb i _ Hn). unfold holds in Hwb. rewrite Ho, Nat.eqb_refl in Hwb. exact Hwb.
    + apply Nat.eqb_neq in E. rewrite nth_error_set_nth_neq in Hp by lia.
      specialize (Hwb j _ Hp). unfold holds in Hwb. rewrite Ho in Hwb. apply Nat.eqb_neq in E. rewrite E in Hwb. exact Hwb.
  - intros j Hj. inversion Hj; subst. rewrite set_nth_length. eapply Hlt; eassumption.
Qed.

Lemma finished_dec (ps : list program) : Forall (fun p => p = []) ps \/ exists i x t, nth_error ps i = Some (x :: t).
Proof.
  induction ps as [|p ps IH]; [left; constructor|].
  destruct p as [|x t]; [|right; exists 0, x, t; reflexivity].
  destruct IH as [IH|(i & x & t & Hi)]; [left; constructor; [reflexivity|exact IH]|right; exists (S i), x, t; exact Hi].
Qed.

(* no deadlock: in every configuration satisfying the invariant, either every thread has finished or some thread can step *)
Theorem no_deadlock c : Inv c -> finished c \/ exists i c', cstep c i c'.
Proof.
  intros (Hwb & Hown). destruct (owner c) as [j|] eqn:Eo.
  - right. specialize (Hown j eq_refl). destruct (nth_error (threads c) j) as [p|] eqn:Ep; [|apply nth_error_None in Ep; lia].
    specialize (Hwb j p Ep). unfold holds in Hwb. rewrite Eo, Nat.eqb_refl in Hwb.
    destruct p as [|[| |n|] t]; cbn in Hwb; try discriminate.
    + exists j. eexists. eapply s_rel; eassumption.
    + exists j. eexists. eapply s_draw; eassumption.
  - (* nobody holds the lock: the first unfinished thread starts with Acq *)
    assert (Hall : forall i p, nth_error (threads c) i = Some p -> p = [] \/ exists t, p = Acq :: t).
    { intros i p Hp. specialize (Hwb i p Hp). unfold holds in Hwb. rewrite Eo in Hwb.
      destruct p as [|[| |n|] t]; cbn in Hwb; try discriminate; [left; reflexivity|right; eauto]. }
    destruct (finished_dec (threads c)) as [Hf|(i & x & t & Hi)]; [left; exact Hf|right].
    destruct (Hall i _ Hi) as [E|(t' & E)]; [discriminate|]. inversion E; subst. exists i. eexists. eapply s_acq; eassumption.
Qed.

(* every step consumes one event: executions are bounded by the total program length *)
Definition remaining (c : conf) : nat := fold_right (fun p acc => length p + acc) 0 (threads c).
Lemma remaining_set_nth (l : list program) i x t : nth_error l i = Some (x :: t) ->
  fold_right (fun p acc => length p + acc) 0 (set_nth i t l) + 1 = fold_right (fun p acc => length p + acc) 0 l.
Proof. revert i. induction l as [|y l IH]; intros [|i] H; cbn in *; try discriminate.
  - inversion H; subst. cbn. lia.
  - specialize (IH i H). lia. Qed.
Theorem step_decreases c i c' : cstep c i c' -> remaining c' + 1 = remaining c.
Proof. intros Hs. inversion Hs; subst; unfold remaining; cbn; eapply remaining_set_nth; eassumption. Qed.

(* isolation: only the lock holder moves the RNG cursor *)
Theorem cursor_moves_only_by_owner c i c' : cstep c i c' -> cursor c' <> cursor c -> owner c = Some i.
Proof. intros Hs Hne. inversion Hs; subst; cbn in *; try contradiction. assumption. Qed.
Print Assumptions no_deadlock.
Print Assumptions step_decreases.

Example nested_rejected : well_bracketed [Acq; Acq; Rel; Rel] = false. Proof. reflexivity. Qed.
Example unknown_rejected : well_bracketed [Acq; Unknown; Rel] = false. Proof. reflexivity. Qed.
