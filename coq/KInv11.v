(* Part 11: a published value that has been REPLACED is never published again (over all histories).

   [pub_tok s r]   = token of the secret that the public key derived from the master key of [s] publishes for right [r]
                     (the chain front of [r], if its activation flag is set);
   [front_tok s r] = token of the chain front of [r] in the master key, activated or not.

   Results (all in [fixed] mode, [s] any reachable state):
     ctr_monotone_step / ctr_monotone_run      the counter never decreases along steps other than OSetup
     front_monotone_step / front_monotone_run  the front token of a right never decreases, whatever happens in between
                                               (the right may be unpublished, deleted and re-created in between)
     recreated_is_fresh                        a right that is absent in [s] and present later has a front token >= st_ctr s,
                                               hence larger than every token that existed in [s]
     published_monotone_step / _run            the same for the published token
     replaced_never_republished                the corollary asked for (published token, derived public key)
     front_replaced_never_back                 the same for chain fronts (published or not)
     deleted_never_republished                 a published token whose right then disappears is not published again either
     replaced_never_in_later_snapshot          the same for the snapshots (st_mpks) actually handed out after the replacement
     rekeyed_never_republished                 a successful rekey replaces the published value by a strictly larger one (link with C16)

   OSetup: [step _ _ OSetup] creates a brand-new authority and RESETS THE COUNTER TO 0 (KeysMachine.step), so tokens are
   handed out again from 0: right [] gets token 0 after every OSetup.  All statements about several states are therefore
   false for histories that contain an OSetup after the first of these states ([published_monotone_setup_needed] below is the
   witness), and are stated, like C04_stale_cannot_open and C06_disabled_never_published, for a reachable start state [s]
   (any history, with any number of OSetup, leads to [s]) followed by operations that are not OSetup ([~ In OSetup ops],
   resp. [o <> OSetup]).  This is the strongest true form: "between two consecutive OSetup".

   Proof idea: the watermark invariant is KInv9.FrontGe c [r] j0 s :
       c <= st_ctr s,  the front of r (if r is present) has a token >= c,  every snapshot of index >= j0 publishes for r a token >= c.
   It is preserved by every step other than OSetup (KInv9.FrontGe_step: rekey pushes st_ctr >= c, update keeps the front token or
   creates the right with token st_ctr >= c, prune keeps the front), in particular across gaps where the right is absent.
   It holds at [s] for c := t (the front/published token of r in s) because t < st_ctr s (I2 tokens_fresh), and for
   c := st_ctr s when r is absent in s. *)
From Coq Require Import List NArith Bool Arith Lia.
From CC Require Import Policy Structure Keys KeysMachine SelProofs GoodProofs CoverProofs1 CoverProofs2
                       RefreshProofs DisabledProofs KInv1 KInv2 KInv3 KInv5 KInv6 KInv7 KInv8 KInv9.
Import ListNotations.
Local Open Scope N_scope.

(* ---------------------------------------------------------------- definitions *)
Definition pub_tok (s : state) (r : rightk) : option N :=
  option_map tok (rlookup r (p_keys (mk_mpk (st_msk s)))).

Definition front_tok (s : state) (r : rightk) : option N :=
  match rlookup r (m_secrets (st_msk s)) with Some ((_, sk) :: _) => Some (tok sk) | _ => None end.

Lemma front_tok_Some s r t :
  front_tok s r = Some t <-> exists fl sk older, rlookup r (m_secrets (st_msk s)) = Some ((fl, sk) :: older) /\ tok sk = t.
Proof.
  unfold front_tok. split.
  - destruct (rlookup r (m_secrets (st_msk s))) as [[|[fl sk] older]|]; try discriminate.
    intros H. inversion H; subst. exists fl, sk, older. split; reflexivity.
  - intros (fl & sk & older & -> & <-). reflexivity.
Qed.

(* the published token is the front token of an activated chain *)
Lemma pub_tok_spec s r : NoDup (map fst (m_secrets (st_msk s))) ->
  pub_tok s r = match rlookup r (m_secrets (st_msk s)) with Some ((true, sk) :: _) => Some (tok sk) | _ => None end.
Proof.
  intros Hnd. unfold pub_tok. rewrite (mk_mpk_lookup (st_msk s) r Hnd).
  destruct (rlookup r (m_secrets (st_msk s))) as [[|[[|] sk] older]|]; reflexivity.
Qed.

Lemma reach_nodup s : reach s -> NoDup (map fst (m_secrets (st_msk s))).
Proof. intros Hr. destruct (inv14_reach s Hr) as [[_ Hnd _] _]. exact Hnd. Qed.

Lemma pub_tok_front s r t : reach s -> pub_tok s r = Some t -> front_tok s r = Some t.
Proof.
  intros Hr. rewrite (pub_tok_spec s r (reach_nodup s Hr)). unfold front_tok.
  destruct (rlookup r (m_secrets (st_msk s))) as [[|[[|] sk] older]|]; try discriminate. intros H; exact H.
Qed.

(* every front token (hence every published token) of a reachable state is below the counter: I2 *)
Lemma front_tok_lt s r t : reach s -> front_tok s r = Some t -> t < st_ctr s.
Proof.
  intros Hr H. apply front_tok_Some in H. destruct H as (fl & sk & older & El & <-).
  destruct (tokens_fresh s Hr) as (T1 & _). apply (T1 r sk). eapply occ_msk; [apply rlookup_In; exact El|left; reflexivity].
Qed.
Lemma pub_tok_lt s r t : reach s -> pub_tok s r = Some t -> t < st_ctr s.
Proof. intros Hr H. eapply front_tok_lt; [exact Hr|apply pub_tok_front; eassumption]. Qed.

(* ---------------------------------------------------------------- the watermark *)
Lemma not_setup_is_setup o : o <> OSetup -> is_setup o = false.
Proof. intros H. destruct o; try reflexivity. contradiction. Qed.
Lemma no_setup_single o : o <> OSetup -> ~ In OSetup [o].
Proof. intros H [E|[]]. apply H. exact E. Qed.
Lemma no_setup_app a b : ~ In OSetup a -> ~ In OSetup b -> ~ In OSetup (a ++ b).
Proof. intros Ha Hb H. apply in_app_iff in H. tauto. Qed.

(* the watermark holds at the start state and is carried along any run without OSetup *)
Lemma watermark_run c r ops s : reach s -> ~ In OSetup ops -> c <= st_ctr s ->
  (forall t, front_tok s r = Some t -> c <= t) ->
  FrontGe c [r] (length (st_mpks s)) (run_state fixed s ops).
Proof.
  intros Hr Hno Hc Hf. apply FrontGe_run; [exact Hr|exact Hno|].
  split; [exact Hc|]. split; [|split; [apply le_n|]].
  - intros r0 fl sk older [<-|[]] El. apply Hf. apply front_tok_Some. exists fl, sk, older. split; [exact El|reflexivity].
  - intros j pk r0 sk Hj En. exfalso.
    assert (Hlt : (j < length (st_mpks s))%nat) by (apply nth_error_Some; rewrite En; discriminate). lia.
Qed.

Lemma FrontGe_front c r j0 s t : FrontGe c [r] j0 s -> front_tok s r = Some t -> c <= t.
Proof.
  intros (_ & Hf & _) H. apply front_tok_Some in H. destruct H as (fl & sk & older & El & <-).
  eapply Hf; [left; reflexivity|exact El].
Qed.
Lemma FrontGe_snapshot c r j0 s j pk sk : FrontGe c [r] j0 s -> (j0 <= j)%nat -> nth_error (st_mpks s) j = Some pk ->
  rlookup r (p_keys pk) = Some sk -> c <= tok sk.
Proof.
  intros (_ & _ & _ & Hp) Hj En El. eapply Hp; [exact Hj|exact En|left; reflexivity|apply rlookup_In; exact El].
Qed.

(* ---------------------------------------------------------------- the counter never decreases (except at OSetup) *)
Theorem ctr_monotone_run : forall s ops, reach s -> ~ In OSetup ops -> st_ctr s <= st_ctr (run_state fixed s ops).
Proof.
  intros s ops Hr Hno.
  assert (HF : FrontGe (st_ctr s) [] 0 s).
  { split; [apply N.le_refl|]. split; [intros r fl sk older []|]. split; [apply Nat.le_0_l|]. intros j pk r sk _ _ []. }
  destruct (FrontGe_run (st_ctr s) [] 0%nat ops s Hr Hno HF) as (Hc & _). exact Hc.
Qed.
Print Assumptions ctr_monotone_run.

Theorem ctr_monotone_step : forall s o, reach s -> o <> OSetup -> st_ctr s <= st_ctr (fst (step fixed s o)).
Proof. intros s o Hr Ho. apply (ctr_monotone_run s [o] Hr (no_setup_single o Ho)). Qed.
Print Assumptions ctr_monotone_step.

(* ---------------------------------------------------------------- fronts *)
(* (a) any number of steps: the front token of a right never decreases, also across gaps (right absent in between) *)
Theorem front_monotone_run : forall s ops r t t',
  reach s -> ~ In OSetup ops ->
  front_tok s r = Some t -> front_tok (run_state fixed s ops) r = Some t' -> t <= t'.
Proof.
  intros s ops r t t' Hr Hno Ht Ht'.
  apply (FrontGe_front t r (length (st_mpks s)) (run_state fixed s ops)); [|exact Ht'].
  apply watermark_run; [exact Hr|exact Hno|pose proof (front_tok_lt s r t Hr Ht); lia|].
  intros t0 Ht0. rewrite Ht in Ht0. inversion Ht0; subst. apply N.le_refl.
Qed.
Print Assumptions front_monotone_run.

Theorem front_monotone_step : forall s o r t t',
  reach s -> o <> OSetup ->
  front_tok s r = Some t -> front_tok (fst (step fixed s o)) r = Some t' -> t <= t'.
Proof. intros s o r t t' Hr Ho. apply (front_monotone_run s [o] r t t' Hr (no_setup_single o Ho)). Qed.
Print Assumptions front_monotone_step.

(* (b) a right that is absent now and present later got a front token >= the counter now, i.e. larger than every token
   that occurs anywhere in the state now (master key, snapshots, user keys: I2) *)
Theorem recreated_is_fresh : forall s ops r t',
  reach s -> ~ In OSetup ops ->
  front_tok s r = None -> front_tok (run_state fixed s ops) r = Some t' ->
  st_ctr s <= t' /\ (forall r0 sk0, occurs s r0 sk0 -> tok sk0 < t').
Proof.
  intros s ops r t' Hr Hno Hn Ht'.
  assert (Hc : st_ctr s <= t').
  { apply (FrontGe_front (st_ctr s) r (length (st_mpks s)) (run_state fixed s ops)); [|exact Ht'].
    apply watermark_run; [exact Hr|exact Hno|apply N.le_refl|]. intros t0 Ht0. rewrite Hn in Ht0. discriminate. }
  split; [exact Hc|]. intros r0 sk0 Ho. destruct (tokens_fresh s Hr) as (T1 & _). specialize (T1 r0 sk0 Ho). lia.
Qed.
Print Assumptions recreated_is_fresh.

(* ---------------------------------------------------------------- published tokens *)
(* any number of steps, including steps in which the right is unpublished (disabled), deleted and re-created in between *)
Theorem published_monotone_run : forall s ops r t t',
  reach s -> ~ In OSetup ops ->
  pub_tok s r = Some t -> pub_tok (run_state fixed s ops) r = Some t' -> t <= t'.
Proof.
  intros s ops r t t' Hr Hno Ht Ht'. apply (front_monotone_run s ops r t t' Hr Hno).
  - apply pub_tok_front; assumption.
  - apply pub_tok_front; [apply reach_run; exact Hr|exact Ht'].
Qed.
Print Assumptions published_monotone_run.

(* one step: the token published for a right never decreases *)
Theorem published_monotone_step : forall s o r t t',
  reach s -> o <> OSetup ->
  pub_tok s r = Some t -> pub_tok (fst (step fixed s o)) r = Some t' -> t <= t'.
Proof. intros s o r t t' Hr Ho. apply (published_monotone_run s [o] r t t' Hr (no_setup_single o Ho)). Qed.
Print Assumptions published_monotone_step.

(* mixed form: a token published now bounds every later FRONT of the right, published or not *)
Theorem published_bounds_later_fronts : forall s ops r t t',
  reach s -> ~ In OSetup ops ->
  pub_tok s r = Some t -> front_tok (run_state fixed s ops) r = Some t' -> t <= t'.
Proof. intros s ops r t t' Hr Hno Ht. apply (front_monotone_run s ops r t t' Hr Hno). apply pub_tok_front; assumption. Qed.
Print Assumptions published_bounds_later_fronts.

(* ---------------------------------------------------------------- replaced => never again *)
Theorem front_replaced_never_back : forall s ops1 ops2 r t t',
  reach s -> ~ In OSetup ops1 -> ~ In OSetup ops2 ->
  front_tok s r = Some t ->
  front_tok (run_state fixed s ops1) r = Some t' -> t' <> t ->
  front_tok (run_state fixed (run_state fixed s ops1) ops2) r <> Some t.
Proof.
  intros s ops1 ops2 r t t' Hr Hn1 Hn2 Ht Ht' Hne Hback.
  pose proof (front_monotone_run s ops1 r t t' Hr Hn1 Ht Ht') as H1.
  pose proof (front_monotone_run (run_state fixed s ops1) ops2 r t' t (reach_run s ops1 Hr) Hn2 Ht' Hback) as H2.
  apply Hne. lia.
Qed.
Print Assumptions front_replaced_never_back.

Corollary replaced_never_republished : forall s ops1 ops2 r t t',
  reach s -> ~ In OSetup ops1 -> ~ In OSetup ops2 ->
  pub_tok s r = Some t ->
  pub_tok (run_state fixed s ops1) r = Some t' -> t' <> t ->
  pub_tok (run_state fixed (run_state fixed s ops1) ops2) r <> Some t.
Proof.
  intros s ops1 ops2 r t t' Hr Hn1 Hn2 Ht Ht' Hne Hback.
  pose proof (reach_run s ops1 Hr) as Hr1. pose proof (reach_run _ ops2 Hr1) as Hr2.
  apply (front_replaced_never_back s ops1 ops2 r t t' Hr Hn1 Hn2); try assumption; apply pub_tok_front; assumption.
Qed.
Print Assumptions replaced_never_republished.

(* the replacement need not be visible as a published value: it is enough that the FRONT of the right changed
   (e.g. the right was disabled, re-keyed while disabled), or that the right disappeared *)
Theorem deleted_never_republished : forall s ops1 ops2 r t,
  reach s -> ~ In OSetup ops1 -> ~ In OSetup ops2 ->
  pub_tok s r = Some t ->
  front_tok (run_state fixed s ops1) r = None ->
  front_tok (run_state fixed (run_state fixed s ops1) ops2) r <> Some t /\
  pub_tok (run_state fixed (run_state fixed s ops1) ops2) r <> Some t.
Proof.
  intros s ops1 ops2 r t Hr Hn1 Hn2 Ht Hgone.
  pose proof (reach_run s ops1 Hr) as Hr1. pose proof (reach_run _ ops2 Hr1) as Hr2.
  assert (Hf : front_tok (run_state fixed (run_state fixed s ops1) ops2) r <> Some t).
  { intros Hback. destruct (recreated_is_fresh _ ops2 r t Hr1 Hn2 Hgone Hback) as [Hc _].
    pose proof (ctr_monotone_run s ops1 Hr Hn1) as Hm. pose proof (pub_tok_lt s r t Hr Ht). lia. }
  split; [exact Hf|]. intros Hp. apply Hf. apply pub_tok_front; assumption.
Qed.
Print Assumptions deleted_never_republished.

(* the snapshots actually handed out ([st_mpks], what OEncaps uses): every snapshot taken after the state in which the
   replacement is visible publishes for r a token >= t' > t; and every snapshot taken after the start state one >= t *)
Theorem later_snapshots_monotone : forall s ops r t j pk sk,
  reach s -> ~ In OSetup ops ->
  pub_tok s r = Some t ->
  (length (st_mpks s) <= j)%nat -> nth_error (st_mpks (run_state fixed s ops)) j = Some pk ->
  rlookup r (p_keys pk) = Some sk -> t <= tok sk.
Proof.
  intros s ops r t j pk sk Hr Hno Ht Hj En El.
  apply (FrontGe_snapshot t r (length (st_mpks s)) (run_state fixed s ops) j pk sk); try assumption.
  apply watermark_run; [exact Hr|exact Hno|pose proof (pub_tok_lt s r t Hr Ht); lia|].
  intros t0 Ht0. rewrite (pub_tok_front s r t Hr Ht) in Ht0. inversion Ht0; subst. apply N.le_refl.
Qed.
Print Assumptions later_snapshots_monotone.

Theorem replaced_never_in_later_snapshot : forall s ops1 ops2 r t t' j pk sk,
  reach s -> ~ In OSetup ops1 -> ~ In OSetup ops2 ->
  pub_tok s r = Some t ->
  pub_tok (run_state fixed s ops1) r = Some t' -> t' <> t ->
  (length (st_mpks (run_state fixed s ops1)) <= j)%nat ->
  nth_error (st_mpks (run_state fixed (run_state fixed s ops1) ops2)) j = Some pk ->
  rlookup r (p_keys pk) = Some sk -> tok sk <> t.
Proof.
  intros s ops1 ops2 r t t' j pk sk Hr Hn1 Hn2 Ht Ht' Hne Hj En El.
  pose proof (published_monotone_run s ops1 r t t' Hr Hn1 Ht Ht') as H1.
  pose proof (later_snapshots_monotone (run_state fixed s ops1) ops2 r t' j pk sk (reach_run s ops1 Hr) Hn2 Ht' Hj En El) as H2.
  lia.
Qed.
Print Assumptions replaced_never_in_later_snapshot.

(* link with C04/C16: a successful rekey of a policy replaces the published value of every right of the policy that is
   published, by a strictly larger token; the old value is never published again *)
Theorem rekeyed_never_republished : forall s p rs r t ops,
  reach s -> snd (step fixed s (ORekey p)) = ObOk -> usk_rights fixed (m_st (st_msk s)) p = ROk rs -> In r rs ->
  ~ In OSetup ops -> pub_tok s r = Some t ->
  (exists t', pub_tok (fst (step fixed s (ORekey p))) r = Some t' /\ st_ctr s <= t' /\ t < t') /\
  pub_tok (run_state fixed (fst (step fixed s (ORekey p))) ops) r <> Some t.
Proof.
  intros s p rs r t ops Hr Hok Hu Hin Hno Ht.
  destruct (rekey_pushes_front s p Hr Hok) as (rs' & Hu' & _ & Hfront & _). rewrite Hu in Hu'. inversion Hu'; subst rs'.
  apply In_nth_error in Hin. destruct Hin as (i & Hi). destruct (Hfront i r Hi) as (fl & sk0 & older & E0 & E1).
  pose proof (pub_tok_lt s r t Hr Ht) as Hlt.
  pose proof (reach_step s (ORekey p) Hr) as Hr'.
  assert (Hp' : pub_tok (fst (step fixed s (ORekey p))) r = Some (st_ctr s + N.of_nat i)).
  { rewrite (pub_tok_spec s r (reach_nodup s Hr)), E0 in Ht. destruct fl; [|discriminate].
    rewrite (pub_tok_spec _ r (reach_nodup _ Hr')), E1. reflexivity. }
  split; [exists (st_ctr s + N.of_nat i); split; [exact Hp'|lia]|].
  apply (replaced_never_republished s [ORekey p] ops r t (st_ctr s + N.of_nat i) Hr); try assumption; [|lia].
  intros [E|[]]. discriminate E.
Qed.
Print Assumptions rekeyed_never_republished.

(* ---------------------------------------------------------------- non-vacuity *)
Local Ltac vc := vm_compute; reflexivity.
Local Ltac no_setup := let H := fresh in intros H; repeat (destruct H as [H|H]; [discriminate H|]); destruct H.

(* setup, a dimension D with a (classic) and b (hybridized), update, rekey a, keygen, disable a, update, rekey a, rekey b,
   prune b, delete a, update.  Rights: [] (always there), [0] = D::a, [1] = D::b. *)
Definition h11_pre : list op := [OSetup; OAddAnarchy sD; OAddAttr sD sa false None; OAddAttr sD sb true None; OUpdate].
Definition h11_a : list op := [ORekey sDa; OKeygen sDa; ODisable sD sa; OUpdate].
Definition h11_b : list op := [ORekey sDa; ORekey sDb; OPrune sDb; ODelAttr sD sa; OUpdate].
Definition s11 : state := run_state fixed init h11_pre.

Example published_monotone_nonvacuous :
  reach s11 /\ ~ In OSetup h11_a /\ ~ In OSetup h11_b /\ ~ In OSetup (h11_a ++ h11_b) /\
  snd (run fixed init (h11_pre ++ h11_a ++ h11_b)) = repeat ObOk 14 /\
  (* right []: published 0, then 3 (rekey a), 6 (second rekey a), 8 (rekey b) *)
  pub_tok s11 [] = Some 0 /\ pub_tok (run_state fixed s11 h11_a) [] = Some 3 /\
  pub_tok (run_state fixed (run_state fixed s11 h11_a) h11_b) [] = Some 8 /\
  (* right [0] = D::a: published 1, then 4; disabled (front 4, nothing published); re-keyed while disabled (front 7, nothing
     published); deleted *)
  pub_tok s11 [0] = Some 1 /\ pub_tok (run_state fixed s11 [ORekey sDa]) [0] = Some 4 /\
  pub_tok (run_state fixed s11 h11_a) [0] = None /\ front_tok (run_state fixed s11 h11_a) [0] = Some 4 /\
  front_tok (run_state fixed s11 (h11_a ++ [ORekey sDa])) [0] = Some 7 /\
  front_tok (run_state fixed s11 (h11_a ++ h11_b)) [0] = None /\
  (* right [1] = D::b: published 2 all along the first part, then 9 *)
  pub_tok s11 [1] = Some 2 /\ pub_tok (run_state fixed s11 h11_a) [1] = Some 2 /\
  pub_tok (run_state fixed s11 (h11_a ++ h11_b)) [1] = Some 9 /\
  (* counters and snapshots *)
  st_ctr s11 = 3 /\ st_ctr (run_state fixed s11 h11_a) = 6 /\ st_ctr (run_state fixed s11 (h11_a ++ h11_b)) = 10 /\
  length (st_mpks s11) = 2%nat /\ length (st_mpks (run_state fixed s11 h11_a)) = 4%nat /\
  option_map (fun pk => option_map tok (rlookup [] (p_keys pk))) (nth_error (st_mpks (run_state fixed s11 (h11_a ++ h11_b))) 5) = Some (Some 8).
Proof.
  split; [exists h11_pre; reflexivity|]. split; [no_setup|]. split; [no_setup|]. split; [no_setup|].
  repeat (split; [vc|]). vc.
Qed.

(* the theorems applied to this history *)
Example replaced_never_republished_applied :
  pub_tok (run_state fixed (run_state fixed s11 h11_a) h11_b) [] <> Some 0 /\
  (forall ops2, ~ In OSetup ops2 -> pub_tok (run_state fixed (run_state fixed s11 h11_a) ops2) [] <> Some 0) /\
  (forall ops2, ~ In OSetup ops2 -> pub_tok (run_state fixed (run_state fixed s11 [ORekey sDa]) ops2) [0] <> Some 1) /\
  (forall ops2, ~ In OSetup ops2 -> pub_tok (run_state fixed (run_state fixed s11 (h11_a ++ h11_b)) ops2) [0] <> Some 1).
Proof.
  assert (Hr : reach s11) by (exists h11_pre; reflexivity).
  assert (Ha : ~ In OSetup h11_a) by no_setup.
  assert (H0 : forall ops2, ~ In OSetup ops2 -> pub_tok (run_state fixed (run_state fixed s11 h11_a) ops2) [] <> Some 0).
  { intros ops2 Hn2. apply (replaced_never_republished s11 h11_a ops2 [] 0 3 Hr Ha Hn2); [vc|vc|discriminate]. }
  split; [apply H0; no_setup|]. split; [exact H0|]. split.
  - intros ops2 Hn2. apply (replaced_never_republished s11 [ORekey sDa] ops2 [0] 1 4 Hr); [no_setup|exact Hn2|vc|vc|discriminate].
  - intros ops2 Hn2. apply (deleted_never_republished s11 (h11_a ++ h11_b) ops2 [0] 1 Hr); [no_setup|exact Hn2|vc|vc].
Qed.

Example rekeyed_never_republished_nonvacuous :
  snd (step fixed s11 (ORekey sDa)) = ObOk /\ usk_rights fixed (m_st (st_msk s11)) sDa = ROk [[]; [0]] /\
  pub_tok s11 [0] = Some 1 /\ pub_tok (fst (step fixed s11 (ORekey sDa))) [0] = Some 4.
Proof. split; [vc|]. split; [vc|]. split; vc. Qed.

(* ---------------------------------------------------------------- OSetup is excluded for a reason *)
(* With an OSetup after the start state every statement above fails: the counter restarts at 0 and right [] is
   published with token 0 again.  s = after [OSetup] (right [] published with token 0); ops1 re-keys it (token 3);
   ops2 = [OSetup] publishes token 0 again. *)
Definition su11_ops1 : list op := [OAddAnarchy sD; OAddAttr sD sa false None; OUpdate; ORekey sDa].
Example published_monotone_setup_needed :
  let s := run_state fixed init [OSetup] in
  let s1 := run_state fixed s su11_ops1 in
  reach s /\ ~ In OSetup su11_ops1 /\
  pub_tok s [] = Some 0 /\ pub_tok s1 [] = Some 2 /\ 2 <> 0 /\
  (* replaced_never_republished without [~ In OSetup ops2] *)
  pub_tok (run_state fixed s1 [OSetup]) [] = Some 0 /\
  (* published_monotone_step without [o <> OSetup] *)
  pub_tok (fst (step fixed s1 OSetup)) [] = Some 0 /\ ~ 2 <= 0 /\
  (* ctr_monotone_step without [o <> OSetup] *)
  st_ctr s1 = 4 /\ st_ctr (fst (step fixed s1 OSetup)) = 1.
Proof.
  cbv zeta. split; [exists [OSetup]; reflexivity|]. split; [no_setup|].
  split; [vc|]. split; [vc|]. split; [discriminate|]. split; [vc|]. split; [vc|]. split; [lia|]. split; vc.
Qed.
Print Assumptions published_monotone_setup_needed.

(* in refuted form: the statements as given in the task (without the OSetup side conditions) are false *)
Theorem replaced_never_republished_with_setup_refuted :
  ~ (forall s ops1 ops2 r t t', reach s -> pub_tok s r = Some t ->
       pub_tok (run_state fixed s ops1) r = Some t' -> t' <> t ->
       pub_tok (run_state fixed (run_state fixed s ops1) ops2) r <> Some t).
Proof.
  intros H. apply (H (run_state fixed init [OSetup]) su11_ops1 [OSetup] [] 0 2); [exists [OSetup]; reflexivity|vc|vc|discriminate|vc].
Qed.
Print Assumptions replaced_never_republished_with_setup_refuted.

Theorem published_monotone_step_with_setup_refuted :
  ~ (forall s o r t t', reach s -> pub_tok s r = Some t -> pub_tok (fst (step fixed s o)) r = Some t' -> t <= t').
Proof.
  intros H. assert (H2 : 2 <= 0); [|lia].
  apply (H (run_state fixed init (OSetup :: su11_ops1)) OSetup [] 2 0); [exists (OSetup :: su11_ops1); reflexivity|vc|vc].
Qed.
Print Assumptions published_monotone_step_with_setup_refuted.
