(* Invariants of the key-management state machine, part 5: property C18 (re-encapsulation).
   [recaps] opens an encapsulation with the MSK (every ACTIVATED secret of every chain is tried), keeps the
   recovered rights that snapshot [pk] still publishes, and encapsulates a FRESH seed for exactly those rights.
   - recaps_fn_spec / recaps_spec : when it succeeds, and what it produces (function level / step level)
   - decaps_iff_shared_token      : repaired decapsulation = "some held secret opens the encapsulation"
   - recaps_audience(_holder)     : who can open the re-encapsulation
   - C18_pinned_refuted           : the pinned tree fails as soon as ONE recovered right is unpublished.
   No invariant on the snapshots is needed: [published] is stated with [rlookup], which is what the code uses;
   only NoDup of the MSK rights (I1) is needed, to identify [In (r, ch) (m_secrets m)] with [rlookup]. *)
From Coq Require Import List NArith Bool Arith Lia.
From CC Require Import Policy Structure Keys KeysMachine SelProofs GoodProofs CoverProofs1 CoverProofs2 RefreshProofs DisabledProofs KInv1.
Import ListNotations.
Local Open Scope N_scope.

Arguments N.add : simpl never. Arguments N.sub : simpl never. Arguments N.mul : simpl never.
Arguments N.eqb : simpl never. Arguments N.ltb : simpl never. Arguments N.leb : simpl never.

(* ---------------------------------------------------------------- definitions *)
(* the MSK chain of r contains an activated secret that opens x *)
Definition recoverable (m : msk) (x : xenc) (r : rightk) : Prop :=
  exists ch fl sk, rlookup r (m_secrets m) = Some ch /\ In (fl, sk) ch /\ fl = true /\ opens x sk = true.
Definition published (pk : mpk) (r : rightk) : Prop := exists sk, rlookup r (p_keys pk) = Some sk.
Definition RR (m : msk) (pk : mpk) (x : xenc) (r : rightk) : Prop := recoverable m x r /\ published pk r.

(* what a successful [recaps m pk x ctr] returns *)
Definition recaps_post (m : msk) (pk : mpk) (x : xenc) (ctr : N) (x' : xenc) : Prop :=
  x_seed x' = ctr /\
  (forall t, In t (x_entries x') <-> exists r sk, RR m pk x r /\ rlookup r (p_keys pk) = Some sk /\ tok sk = t) /\
  (x_hyb x' = true <-> forall r sk, RR m pk x r -> rlookup r (p_keys pk) = Some sk -> s_hyb sk = true).

(* ---------------------------------------------------------------- the pieces of recaps *)
Lemma full_decaps_In m x r : NoDup (map fst (m_secrets m)) -> (In r (full_decaps m x) <-> recoverable m x r).
Proof.
  intros Hnd. unfold full_decaps. rewrite in_flat_map. split.
  - intros ([r0 ch] & Hin & H). destruct (existsb (fun '(fl, s) => fl && opens x s) ch) eqn:E; [|destruct H].
    destruct H as [<-|[]]. apply existsb_exists in E. destruct E as ([fl sk] & Hi & Hb). apply andb_true_iff in Hb.
    destruct Hb as [Hfl Ho]. exists ch, fl, sk. split; [apply In_rlookup; assumption|]. repeat split; assumption.
  - intros (ch & fl & sk & El & Hi & Hfl & Ho). subst fl. exists (r, ch). split; [apply rlookup_In; exact El|].
    assert (E : existsb (fun '(fl, s) => fl && opens x s) ch = true).
    { apply existsb_exists. exists (true, sk). split; [exact Hi|exact Ho]. }
    rewrite E. left. reflexivity.
Qed.

Lemma published_rmem pk r : rmem r (p_keys pk) = true <-> published pk r.
Proof.
  unfold rmem, published. destruct (rlookup r (p_keys pk)) as [sk|].
  - split; [intros _; exists sk; reflexivity|reflexivity].
  - split; [discriminate|intros (sk & H); discriminate].
Qed.

Lemma recaps_rights_In m pk x r : NoDup (map fst (m_secrets m)) ->
  (In r (filter (fun r => rmem r (p_keys pk)) (full_decaps m x)) <-> RR m pk x r).
Proof. intros Hnd. rewrite filter_In, full_decaps_In, published_rmem by exact Hnd. reflexivity. Qed.

Lemma recaps_fixed m pk x ctr :
  recaps fixed m pk x ctr =
  let rs' := filter (fun r => rmem r (p_keys pk)) (full_decaps m x) in
  match rs' with [] => (RErr, ctr) | _ => encaps_rights pk rs' ctr end.
Proof. unfold recaps. destruct (full_decaps m x); reflexivity. Qed.

Lemma Forall2_In_l {A B} (P : A -> B -> Prop) l l' a : Forall2 P l l' -> In a l -> exists b, In b l' /\ P a b.
Proof.
  induction 1 as [|a0 b0 l l' H0 HF IH]; intros Hin; [destruct Hin|]. destruct Hin as [<-|Hin].
  - exists b0. split; [left; reflexivity|exact H0].
  - destruct (IH Hin) as (b & Hb & Hp). exists b. split; [right; exact Hb|exact Hp].
Qed.
Lemma Forall2_In_r {A B} (P : A -> B -> Prop) l l' b : Forall2 P l l' -> In b l' -> exists a, In a l /\ P a b.
Proof.
  induction 1 as [|a0 b0 l l' H0 HF IH]; intros Hin; [destruct Hin|]. destruct Hin as [<-|Hin].
  - exists a0. split; [left; reflexivity|exact H0].
  - destruct (IH Hin) as (a & Ha & Hp). exists a. split; [right; exact Ha|exact Hp].
Qed.

Lemma all_rights_keys_ok pk : forall rs, (forall r, In r rs -> published pk r) ->
  exists ks, all_rights_keys pk rs = ROk ks /\ Forall2 (fun r sk => rlookup r (p_keys pk) = Some sk) rs ks.
Proof.
  induction rs as [|r rs IH]; intros Hp; cbn [all_rights_keys]; [exists []; split; [reflexivity|constructor]|].
  destruct (Hp r (or_introl eq_refl)) as (sk & El). rewrite El.
  destruct IH as (ks & Ek & HF); [intros r' Hr'; apply Hp; right; exact Hr'|]. rewrite Ek.
  exists (sk :: ks). split; [reflexivity|constructor; assumption].
Qed.

(* ---------------------------------------------------------------- function level *)
Lemma recaps_fn_cases m pk x ctr : NoDup (map fst (m_secrets m)) ->
  ((exists r, RR m pk x r) /\ exists x', recaps fixed m pk x ctr = (ROk x', N.succ ctr) /\ recaps_post m pk x ctr x') \/
  (~ (exists r, RR m pk x r) /\ recaps fixed m pk x ctr = (RErr, ctr)).
Proof.
  intros Hnd. rewrite recaps_fixed. cbv zeta. set (rs' := filter (fun r => rmem r (p_keys pk)) (full_decaps m x)).
  assert (HIn : forall r, In r rs' <-> RR m pk x r) by (intros r; apply recaps_rights_In; exact Hnd).
  clearbody rs'. destruct rs' as [|r0 rs0].
  - right. split; [|reflexivity]. intros (r & Hr). apply HIn in Hr. destruct Hr.
  - left. split; [exists r0; apply HIn; left; reflexivity|].
    destruct (all_rights_keys_ok pk (r0 :: rs0)) as (ks & Ek & HF); [intros r Hr; apply HIn in Hr; apply Hr|].
    unfold encaps_rights. rewrite Ek. eexists. split; [reflexivity|]. unfold recaps_post. cbn [x_seed x_entries x_hyb].
    split; [reflexivity|]. split.
    + intros t. rewrite in_map_iff. split.
      * intros (sk & Ht & Hsk). destruct (Forall2_In_r _ _ _ _ HF Hsk) as (r & Hr & El). exists r, sk.
        split; [apply HIn; exact Hr|]. split; assumption.
      * intros (r & sk & Hr & El & Ht). apply HIn in Hr. destruct (Forall2_In_l _ _ _ _ HF Hr) as (sk' & Hsk & El').
        rewrite El in El'. inversion El'; subst sk'. exists sk. split; assumption.
    + rewrite forallb_forall. split.
      * intros H r sk Hr El. apply HIn in Hr. destruct (Forall2_In_l _ _ _ _ HF Hr) as (sk' & Hsk & El').
        rewrite El in El'. inversion El'; subst sk'. apply H. exact Hsk.
      * intros H sk Hsk. destruct (Forall2_In_r _ _ _ _ HF Hsk) as (r & Hr & El). apply (H r sk); [apply HIn; exact Hr|exact El].
Qed.

Theorem recaps_fn_spec m pk x ctr : NoDup (map fst (m_secrets m)) ->
  ((exists x', recaps fixed m pk x ctr = (ROk x', N.succ ctr)) <-> exists r, RR m pk x r) /\
  (recaps fixed m pk x ctr = (RErr, ctr) <-> ~ exists r, RR m pk x r) /\
  (fst (recaps fixed m pk x ctr) = RErr -> snd (recaps fixed m pk x ctr) = ctr) /\
  (forall x' c, recaps fixed m pk x ctr = (ROk x', c) -> c = N.succ ctr /\ recaps_post m pk x ctr x').
Proof.
  intros Hnd. destruct (recaps_fn_cases m pk x ctr Hnd) as [(Hex & x0 & E & Hp)|(Hno & E)]; rewrite E.
  - split; [split; [intros _; exact Hex|intros _; exists x0; reflexivity]|].
    split; [split; [discriminate|intros H; contradiction]|]. split; [discriminate|].
    intros x' c H. inversion H; subst. split; [reflexivity|exact Hp].
  - split; [split; [intros (x' & H); discriminate|intros H; contradiction]|].
    split; [split; [intros _; exact Hno|reflexivity]|]. split; [reflexivity|]. intros x' c H. discriminate.
Qed.
Print Assumptions recaps_fn_spec.

(* ---------------------------------------------------------------- step level *)
Definition push_enc (s : state) (x' : xenc) : state :=
  {| st_msk := st_msk s; st_mpks := st_mpks s; st_usks := st_usks s; st_encs := st_encs s ++ [x']; st_ctr := N.succ (st_ctr s) |}.

Lemma recaps_step_cases s j e pk x : NoDup (map fst (m_secrets (st_msk s))) ->
  nth_error (st_mpks s) j = Some pk -> nth_error (st_encs s) e = Some x ->
  ((exists r, RR (st_msk s) pk x r) /\
   exists x', step fixed s (ORecaps j e) = (push_enc s x', ObOk) /\ recaps_post (st_msk s) pk x (st_ctr s) x') \/
  (~ (exists r, RR (st_msk s) pk x r) /\ step fixed s (ORecaps j e) = (s, ObErr)).
Proof.
  intros Hnd Hj He. cbn [step]. rewrite Hj, He.
  destruct (recaps_fn_cases (st_msk s) pk x (st_ctr s) Hnd) as [(Hex & x0 & E & Hp)|(Hno & E)]; rewrite E.
  - left. split; [exact Hex|]. exists x0. split; [reflexivity|exact Hp].
  - right. split; [exact Hno|reflexivity].
Qed.

Theorem recaps_spec s j e pk x : reach s ->
  nth_error (st_mpks s) j = Some pk -> nth_error (st_encs s) e = Some x ->
  (snd (step fixed s (ORecaps j e)) = ObOk <-> exists r, RR (st_msk s) pk x r) /\
  (snd (step fixed s (ORecaps j e)) = ObErr <-> ~ exists r, RR (st_msk s) pk x r) /\
  (snd (step fixed s (ORecaps j e)) = ObErr -> fst (step fixed s (ORecaps j e)) = s) /\
  (snd (step fixed s (ORecaps j e)) = ObOk -> exists x',
     fst (step fixed s (ORecaps j e)) =
       {| st_msk := st_msk s; st_mpks := st_mpks s; st_usks := st_usks s; st_encs := st_encs s ++ [x']; st_ctr := N.succ (st_ctr s) |} /\
     x_seed x' = st_ctr s /\
     (forall t, In t (x_entries x') <->
                exists r sk, RR (st_msk s) pk x r /\ rlookup r (p_keys pk) = Some sk /\ tok sk = t) /\
     (x_hyb x' = true <-> forall r sk, RR (st_msk s) pk x r -> rlookup r (p_keys pk) = Some sk -> s_hyb sk = true)).
Proof.
  intros Hr Hj He. destruct (inv14_reach s Hr) as [[_ Hnd _] _].
  destruct (recaps_step_cases s j e pk x Hnd Hj He) as [(Hex & x0 & E & Hp)|(Hno & E)]; rewrite E; cbn [fst snd].
  - split; [split; [intros _; exact Hex|reflexivity]|]. split; [split; [discriminate|intros H; contradiction]|].
    split; [discriminate|]. intros _. exists x0. split; [reflexivity|exact Hp].
  - split; [split; [discriminate|intros H; contradiction]|]. split; [split; [intros _; exact Hno|reflexivity]|].
    split; [reflexivity|discriminate].
Qed.
Print Assumptions recaps_spec.

(* ---------------------------------------------------------------- decapsulation in the repaired tree *)
Theorem decaps_iff_shared_token u x :
  (decaps fixed u x = Some (x_seed x) <-> exists sk, In sk (concat (map snd (u_chains u))) /\ opens x sk = true) /\
  (decaps fixed u x = None <-> forall sk, In sk (concat (map snd (u_chains u))) -> opens x sk = false).
Proof.
  unfold decaps. cbn [fx_rev fixed KeysMachine.fx_all].
  destruct (existsb (opens x) (concat (map snd (u_chains u)))) eqn:E.
  - apply existsb_exists in E. split; split.
    + intros _. exact E.
    + reflexivity.
    + discriminate.
    + intros H. destruct E as (sk & Hi & Ho). rewrite (H sk Hi) in Ho. discriminate.
  - split; split.
    + discriminate.
    + intros (sk & Hi & Ho). assert (E' : existsb (opens x) (concat (map snd (u_chains u))) = true) by (apply existsb_exists; exists sk; split; assumption).
      rewrite E in E'. discriminate.
    + intros _ sk Hi. destruct (opens x sk) eqn:Eo; [|reflexivity].
      assert (E' : existsb (opens x) (concat (map snd (u_chains u))) = true) by (apply existsb_exists; exists sk; split; assumption).
      rewrite E in E'. discriminate.
    + reflexivity.
Qed.
Print Assumptions decaps_iff_shared_token.

(* ---------------------------------------------------------------- audience of a re-encapsulation *)
Definition audience (m : msk) (pk : mpk) (x x' : xenc) (u : usk) : Prop :=
  exists sk, In sk (concat (map snd (u_chains u))) /\
             (exists r pks, RR m pk x r /\ rlookup r (p_keys pk) = Some pks /\ tok pks = tok sk) /\
             (x_hyb x' = false \/ s_hyb sk = true).

Lemma opens_post m pk x ctr x' sk : recaps_post m pk x ctr x' ->
  (opens x' sk = true <->
   (exists r pks, RR m pk x r /\ rlookup r (p_keys pk) = Some pks /\ tok pks = tok sk) /\ (x_hyb x' = false \/ s_hyb sk = true)).
Proof.
  intros (_ & Hent & _). unfold opens. rewrite andb_true_iff, orb_true_iff, negb_true_iff, <- Hent, existsb_exists.
  split; intros [H1 H2]; (split; [|exact H2]).
  - destruct H1 as (t & Ht & Eq). apply N.eqb_eq in Eq. subst t. exact Ht.
  - exists (tok sk). split; [exact H1|apply N.eqb_refl].
Qed.

Theorem recaps_fn_audience m pk x ctr x' c u : NoDup (map fst (m_secrets m)) ->
  recaps fixed m pk x ctr = (ROk x', c) ->
  (decaps fixed u x' = Some (x_seed x') <-> audience m pk x x' u).
Proof.
  intros Hnd H. destruct (recaps_fn_spec m pk x ctr Hnd) as (_ & _ & _ & Hok). destruct (Hok x' c H) as [_ Hp].
  rewrite (proj1 (decaps_iff_shared_token u x')). unfold audience.
  split; intros (sk & Hi & Ho); exists sk; (split; [exact Hi|]); apply (opens_post _ _ _ _ _ sk Hp); exact Ho.
Qed.

(* x' = the encapsulation appended by ORecaps j e (the equation on st_encs already forces the call to succeed) *)
Lemma recaps_step_post s j e pk x x' : reach s ->
  nth_error (st_mpks s) j = Some pk -> nth_error (st_encs s) e = Some x ->
  st_encs (fst (step fixed s (ORecaps j e))) = st_encs s ++ [x'] ->
  snd (step fixed s (ORecaps j e)) = ObOk /\ recaps_post (st_msk s) pk x (st_ctr s) x'.
Proof.
  intros Hr Hj He Hx. destruct (inv14_reach s Hr) as [[_ Hnd _] _].
  destruct (recaps_step_cases s j e pk x Hnd Hj He) as [(Hex & x0 & E & Hp)|(Hno & E)]; rewrite E in Hx |- *; cbn [fst snd push_enc st_encs] in Hx |- *.
  - apply app_inv_head in Hx. inversion Hx; subst x0. split; [reflexivity|exact Hp].
  - exfalso. apply (f_equal (@length _)) in Hx. rewrite app_length in Hx. cbn in Hx. lia.
Qed.

Theorem recaps_audience s j e pk x x' u : reach s ->
  nth_error (st_mpks s) j = Some pk -> nth_error (st_encs s) e = Some x ->
  st_encs (fst (step fixed s (ORecaps j e))) = st_encs s ++ [x'] ->
  (decaps fixed u x' = Some (x_seed x') <->
   exists sk, In sk (concat (map snd (u_chains u))) /\
              (exists r pks, RR (st_msk s) pk x r /\ rlookup r (p_keys pk) = Some pks /\ tok pks = tok sk) /\
              (x_hyb x' = false \/ s_hyb sk = true)).
Proof.
  intros Hr Hj He Hx. destruct (recaps_step_post s j e pk x x' Hr Hj He Hx) as [_ Hp].
  rewrite (proj1 (decaps_iff_shared_token u x')).
  split; intros (sk & Hi & Ho); exists sk; (split; [exact Hi|]); apply (opens_post _ _ _ _ _ sk Hp); exact Ho.
Qed.
Print Assumptions recaps_fn_audience.
Print Assumptions recaps_audience.

(* a key holding one of the published secrets themselves (same token AND same flavour) opens x' *)
Theorem recaps_audience_holder s j e pk x x' u r pks : reach s ->
  nth_error (st_mpks s) j = Some pk -> nth_error (st_encs s) e = Some x ->
  st_encs (fst (step fixed s (ORecaps j e))) = st_encs s ++ [x'] ->
  RR (st_msk s) pk x r -> rlookup r (p_keys pk) = Some pks -> In pks (concat (map snd (u_chains u))) ->
  decaps fixed u x' = Some (x_seed x').
Proof.
  intros Hr Hj He Hx HR El Hin. apply (recaps_audience s j e pk x x' u Hr Hj He Hx).
  destruct (recaps_step_post s j e pk x x' Hr Hj He Hx) as [_ (_ & _ & Hh)].
  exists pks. split; [exact Hin|]. split; [exists r, pks; split; [exact HR|split; [exact El|reflexivity]]|].
  destruct (x_hyb x') eqn:E; [right|left; reflexivity]. apply (proj1 Hh eq_refl r pks HR El).
Qed.
Print Assumptions recaps_audience_holder.

(* ---------------------------------------------------------------- examples *)
Definition sDaorb : str := [68;58;58;97;32;124;124;32;68;58;58;98].   (* "D::a || D::b" *)
(* snapshot 0: setup; snapshot 1: publishes D::a; snapshot 2: publishes D::a and D::b (hybridized);
   encapsulation 0 (under snapshot 2) covers D::a and D::b *)
Definition hist5 : list op :=
  [OSetup; OAddAnarchy sD; OAddAttr sD sa false None; OUpdate; OAddAttr sD sb true None; OUpdate; OEncaps 2 sDaorb].
Definition st5 : state := run_state fixed init hist5.
Definition pk5 : mpk := nth 1 (st_mpks st5) {| p_keys := []; p_st := empty_structure |}.
Definition x5 : xenc := nth 0 (st_encs st5) {| x_hyb := false; x_entries := []; x_seed := 0 |}.

Example hist5_all_ok : snd (run fixed init hist5) = [ObOk; ObOk; ObOk; ObOk; ObOk; ObOk; ObOk].
Proof. vm_compute. reflexivity. Qed.

(* D::a = right [0] is recoverable from encapsulation 0 and published in snapshot 1; D::b = [1] is recoverable only *)
Lemma st5_R : RR (st_msk st5) pk5 x5 [0].
Proof.
  split.
  - exists [(true, {| tok := 1; s_hyb := false |})], true, {| tok := 1; s_hyb := false |}.
    split; [vm_compute; reflexivity|]. split; [left; reflexivity|]. split; [reflexivity|vm_compute; reflexivity].
  - exists {| tok := 1; s_hyb := false |}. vm_compute. reflexivity.
Qed.
Lemma st5_b_unpublished : recoverable (st_msk st5) x5 [1] /\ ~ published pk5 [1].
Proof.
  split.
  - exists [(true, {| tok := 2; s_hyb := true |})], true, {| tok := 2; s_hyb := true |}.
    split; [vm_compute; reflexivity|]. split; [left; reflexivity|]. split; [reflexivity|vm_compute; reflexivity].
  - intros (sk & H). vm_compute in H. discriminate.
Qed.

(* non-vacuity of recaps_spec: ObOk with R non-empty; the result holds exactly the token of D::a under a fresh seed *)
Example recaps_spec_ok_nonvacuous :
  reach st5 /\ nth_error (st_mpks st5) 1 = Some pk5 /\ nth_error (st_encs st5) 0 = Some x5 /\
  (exists r, RR (st_msk st5) pk5 x5 r) /\
  step fixed st5 (ORecaps 1 0) = (push_enc st5 {| x_hyb := false; x_entries := [1]; x_seed := 4 |}, ObOk) /\ st_ctr st5 = 4.
Proof.
  split; [exists hist5; reflexivity|]. split; [vm_compute; reflexivity|]. split; [vm_compute; reflexivity|].
  split; [exists [0]; exact st5_R|]. split; vm_compute; reflexivity.
Qed.
(* ... and ObErr: snapshot 0 publishes none of the recovered rights *)
Example recaps_spec_err_nonvacuous :
  exists pk0, nth_error (st_mpks st5) 0 = Some pk0 /\ nth_error (st_encs st5) 0 = Some x5 /\
  snd (step fixed st5 (ORecaps 0 0)) = ObErr /\ ~ exists r, RR (st_msk st5) pk0 x5 r.
Proof.
  eexists. split; [vm_compute; reflexivity|]. split; [vm_compute; reflexivity|].
  assert (H : snd (step fixed st5 (ORecaps 0 0)) = ObErr) by (vm_compute; reflexivity). split; [exact H|].
  eapply (recaps_spec st5 0 0); [exists hist5; reflexivity|vm_compute; reflexivity|vm_compute; reflexivity|exact H].
Qed.
(* the audience theorems apply: a key for D::a opens the re-encapsulation, a key for D::b does not *)
Example recaps_audience_nonvacuous :
  snd (run fixed init (hist5 ++ [OKeygen sDa; OKeygen sDb; ORecaps 1 0; ODecaps 0 1; ODecaps 1 1; ODecaps 1 0])) =
    [ObOk; ObOk; ObOk; ObOk; ObOk; ObOk; ObOk; ObOk; ObOk; ObOk; ObSome 6; ObNone; ObSome 3].
Proof. vm_compute. reflexivity. Qed.

(* C18 in the pinned tree: the same history; re-encapsulating encapsulation 0 under snapshot 1 fails although
   D::a is both recoverable and published there, because D::b (recovered too) is not published in snapshot 1
   and the pinned recaps does not filter.  The repaired tree answers ObOk. *)
Example C18_pinned_refuted :
  exists ops j e pk x r, let s := run_state pinned init ops in
    nth_error (st_mpks s) j = Some pk /\ nth_error (st_encs s) e = Some x /\
    NoDup (map fst (m_secrets (st_msk s))) /\
    RR (st_msk s) pk x r /\
    snd (step pinned s (ORecaps j e)) = ObErr /\
    snd (step fixed (run_state fixed init ops) (ORecaps j e)) = ObOk.
Proof.
  exists hist5, 1%nat, 0%nat, pk5, x5, [0]. cbv zeta.
  assert (E : run_state pinned init hist5 = st5) by (vm_compute; reflexivity). rewrite E.
  split; [vm_compute; reflexivity|]. split; [vm_compute; reflexivity|].
  split; [apply (inv14_reach st5); exists hist5; reflexivity|]. split; [exact st5_R|]. split; vm_compute; reflexivity.
Qed.
Print Assumptions C18_pinned_refuted.

(* Second witness, along the "disable" path.  NOTE: the plain history  update; encaps; disable D::a; update; recaps
   is NOT a witness: the update after a disable turns the flag of the newest secret of D::a off, so D::a is no longer
   recovered at all and the pinned recaps succeeds (on D::b only).  With a rekey of D::a in between, the secret that
   made the encapsulation is an OLDER, still activated, element of the chain: D::a is recovered, it is not published
   by the new snapshot 3, and the pinned recaps fails although D::b is both recoverable and published. *)
Definition hist5_plain : list op :=
  [OSetup; OAddAnarchy sD; OAddAttr sD sa false None; OAddAttr sD sb true None; OUpdate; OEncaps 1 sDaorb; ODisable sD sa; OUpdate].
Example C18_plain_disable_history_is_ok_in_pinned :
  snd (step pinned (run_state pinned init hist5_plain) (ORecaps 2 0)) = ObOk /\
  snd (step fixed (run_state fixed init hist5_plain) (ORecaps 2 0)) = ObOk.
Proof. split; vm_compute; reflexivity. Qed.

Definition hist5d : list op :=
  [OSetup; OAddAnarchy sD; OAddAttr sD sa false None; OAddAttr sD sb true None; OUpdate; OEncaps 1 sDaorb;
   ORekey sDa; ODisable sD sa; OUpdate].
Example C18_pinned_refuted_disable :
  exists pk x, let s := run_state pinned init hist5d in
    nth_error (st_mpks s) 3 = Some pk /\ nth_error (st_encs s) 0 = Some x /\
    RR (st_msk s) pk x [1] /\ (recoverable (st_msk s) x [0] /\ ~ published pk [0]) /\
    snd (step pinned s (ORecaps 3 0)) = ObErr /\
    step fixed (run_state fixed init hist5d) (ORecaps 3 0) =
      (push_enc (run_state fixed init hist5d) {| x_hyb := true; x_entries := [2]; x_seed := 6 |}, ObOk).
Proof.
  eexists. eexists. cbv zeta. split; [vm_compute; reflexivity|]. split; [vm_compute; reflexivity|]. split; [split|split; [split|]].
  - exists [(true, {| tok := 2; s_hyb := true |})], true, {| tok := 2; s_hyb := true |}.
    split; [vm_compute; reflexivity|]. split; [left; reflexivity|]. split; [reflexivity|vm_compute; reflexivity].
  - exists {| tok := 2; s_hyb := true |}. vm_compute. reflexivity.
  - exists [(false, {| tok := 5; s_hyb := false |}); (true, {| tok := 1; s_hyb := false |})], true, {| tok := 1; s_hyb := false |}.
    split; [vm_compute; reflexivity|]. split; [right; left; reflexivity|]. split; [reflexivity|vm_compute; reflexivity].
  - intros (sk & H). vm_compute in H. discriminate.
  - split; vm_compute; reflexivity.
Qed.
Print Assumptions C18_pinned_refuted_disable.
