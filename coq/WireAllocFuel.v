(* C14, time side (continuation of WireAlloc.v): the list readers of Wire.v / WireAlloc.v recurse on an explicit fuel
   equal to the number of remaining input bytes, so they make at most that many iterations.  The real loops
   (`for _ in 0..n { de.read()? }`) have no fuel: here we show the fuel is never the reason of a failure, i.e. the
   result is the same with ANY larger fuel, because every element reader consumes at least one byte on success.
   Hence a count n larger than what the input can hold ends in an error after at most (remaining bytes) iterations,
   exactly as the real reader fails on the first element it cannot read. *)
From Coq Require Import List NArith Bool Arith Lia ZifyBool ZifyNat ZifyN.
Require Import Policy Structure Leb Wire WireAlloc.
Import ListNotations.
Local Open Scope nat_scope.
Arguments N.sub : simpl never. Arguments N.eqb : simpl never.

Lemma r_n_fuel_ge {A} (f : bytes -> res A) : eats 1 f ->
  forall fu1 fu2 n bs acc, length bs <= fu1 -> length bs <= fu2 -> r_n f fu1 n bs acc = r_n f fu2 n bs acc.
Proof.
  intros Hf. induction fu1 as [|fu1 IH]; intros fu2 n bs acc H1 H2; destruct fu2 as [|fu2]; cbn [r_n];
    destruct (n =? 0)%N; try reflexivity.
  - destruct (f bs) as [a r|] eqn:E; [|reflexivity]. apply Hf in E. lia.
  - destruct (f bs) as [a r|] eqn:E; [|reflexivity]. apply Hf in E. lia.
  - destruct (f bs) as [a r|] eqn:E; [|reflexivity]. cbn [bind]. apply Hf in E. apply IH; lia.
Qed.

(* the statement of the task *)
Theorem r_n_fuel_irrelevant {A} (f : bytes -> res A) : eats 1 f ->
  forall n rest k, r_n f (length rest) n rest [] = r_n f (length rest + k) n rest [].
Proof. intros Hf n rest k. apply r_n_fuel_ge; [exact Hf|lia|lia]. Qed.
Print Assumptions r_n_fuel_irrelevant.

(* the list reader with an arbitrary surplus of fuel is the list reader *)
Definition r_list_plus {A} (k : nat) (f : bytes -> res A) (bs : bytes) : res (list A) :=
  do (n, rest) <- r_leb bs; r_n f (length rest + k) n rest [].
Theorem r_list_fuel_irrelevant {A} (f : bytes -> res A) : eats 1 f -> forall k bs, r_list f bs = r_list_plus k f bs.
Proof.
  intros Hf k bs. unfold r_list, r_list_plus. destruct (r_leb bs) as [n rest|]; [|reflexivity]. cbn [bind].
  apply r_n_fuel_irrelevant, Hf.
Qed.
Print Assumptions r_list_fuel_irrelevant.
(* a list consumes at least its count byte, so lists can be elements of lists (UserId inside the user set) *)
Lemma eats_n {A} (f : bytes -> res A) : eats 0 f -> forall fuel n acc, eats 0 (fun bs => r_n f fuel n bs acc).
Proof.
  intros Hf. induction fuel as [|fu IH]; intros n acc bs a rest H; cbn [r_n] in H; destruct (n =? 0)%N.
  1,3: injection H as _ <-; lia.
  - discriminate.
  - destruct (f bs) as [x r|] eqn:E; [|discriminate]. cbn [bind] in H. apply Hf in E. apply IH in H. lia.
Qed.
Lemma eats_list {A} (f : bytes -> res A) d : d <= 1 -> eats 0 f -> eats d (r_list f).
Proof.
  intros Hd Hf bs a rest H. unfold r_list in H. destruct (r_leb bs) as [n r|] eqn:E; [|discriminate]. cbn [bind] in H.
  apply (eats_leb 1 (le_n _)) in E. apply (eats_n f Hf) in H. lia.
Qed.

(* the same for the instrumented loop (an element reader fails without any request on the empty input) *)
Definition aeats {A} (d : nat) (f : bytes -> ares A) : Prop :=
  forall bs a rest, fst (f bs) = AOk a rest -> length rest + d <= length bs.
Lemma a_n_fuel_ge {A} grow (f : bytes -> ares A) : aeats 1 f -> f [] = (AErr, []) ->
  forall fu1 fu2 n bs cnt acc, length bs <= fu1 -> length bs <= fu2 ->
    a_n grow f fu1 n bs cnt acc = a_n grow f fu2 n bs cnt acc.
Proof.
  intros Hf Hnil. induction fu1 as [|fu1 IH]; intros fu2 n bs cnt acc H1 H2; destruct fu2 as [|fu2]; cbn [a_n];
    destruct (n =? 0)%N; try reflexivity.
  - destruct bs as [|b t]; [|cbn [length] in H1; lia]. rewrite Hnil. reflexivity.
  - destruct bs as [|b t]; [|cbn [length] in H2; lia]. rewrite Hnil. reflexivity.
  - unfold abind. pose proof (Hf bs) as Hc. destruct (f bs) as [o l]. destruct o as [a r| | |q]; cbn [fst snd]; try reflexivity.
    specialize (Hc a r eq_refl). rewrite (IH fu2) by lia. reflexivity.
Qed.
Theorem a_n_fuel_irrelevant {A} grow (f : bytes -> ares A) : aeats 1 f -> f [] = (AErr, []) ->
  forall n rest k cnt, a_n grow f (length rest) n rest cnt [] = a_n grow f (length rest + k) n rest cnt [].
Proof. intros Hf Hnil n rest k cnt. apply a_n_fuel_ge; [exact Hf|exact Hnil|lia|lia]. Qed.
Print Assumptions a_n_fuel_irrelevant.

(* every element reader of Wire.v consumes at least one byte, provided scalars and points are not empty: the
   hypothesis of r_n_fuel_irrelevant holds for every list of every object *)
Lemma eats_weaken {A} d d' (f : bytes -> res A) : d' <= d -> eats d f -> eats d' f.
Proof. intros Hd Hf bs a rest H. apply Hf in H. lia. Qed.
Section Elements.
  Variable sz : sizes.
  Hypothesis Hsc : 0 < scalar_len sz.
  Hypothesis Hpt : 0 < point_len sz.
  Lemma eats_point : eats 1 (r_take (point_len sz)).       (* traps, tracing points, ps *)
  Proof. apply eats_take. lia. Qed.
  Lemma eats_marker : eats 1 (r_take (scalar_len sz)).     (* user id markers *)
  Proof. apply eats_take. lia. Qed.
  Lemma eats_share : eats 1 (r_take 32).                   (* classic encapsulations *)
  Proof. apply eats_take. lia. Qed.
  Lemma eats_hybrid : eats 1 (fun b => do (e, q1) <- r_take (ct_len sz) b; do (f, q2) <- r_take 32 q1; ROk (e, f) q2).
  Proof.
    apply eats_bind_r; [apply eats_take; lia|]. intros e. apply eats_bind; [apply eats_take; lia|]. intros f. apply eats_ret.
  Qed.
  Lemma eats_tracer : eats 1 (fun b => do (sk, q1) <- r_take (scalar_len sz) b; do (pk, q2) <- r_take (point_len sz) q1; ROk (sk, pk) q2).
  Proof.
    apply eats_bind; [apply eats_take; lia|]. intros sk. apply eats_bind; [apply eats_take; lia|]. intros pk. apply eats_ret.
  Qed.
  Lemma eats_userid : eats 1 (r_userid sz).
  Proof. apply eats_list; [lia|]. apply eats_take. lia. Qed.
  Lemma eats_vec d : d <= 1 -> eats d r_vec.
  Proof.
    intros Hd. unfold r_vec. apply eats_bind; [apply eats_leb, Hd|]. intros len.
    apply (eats_if 0 (fun rest => (N.of_nat (length rest) <? len)%N)); [apply eats_err|]. apply eats_take. lia.
  Qed.
  Lemma eats_usk_chain : eats 1 (fun b => do (r, q1) <- r_vec b; do (ch, q2) <- r_list (r_rsk sz) q1; ROk (r, ch) q2).
  Proof.
    apply eats_bind; [apply eats_vec; lia|]. intros r. apply eats_bind; [|intros ch; apply eats_ret].
    apply eats_list; [lia|]. apply eats_rsk. lia.
  Qed.
  Lemma eats_msk_entry : eats 1 (fun c => do (fl, p1) <- r_leb c; do (k, p2) <- r_rsk sz p1; ROk ((fl =? 1)%N, k) p2).
  Proof.
    apply eats_bind; [apply eats_leb; lia|]. intros fl. apply eats_bind; [apply eats_rsk; lia|]. intros k. apply eats_ret.
  Qed.
  Lemma eats_msk_chain : eats 1 (fun b => do (r, q1) <- r_vec b;
      do (ch, q2) <- r_list (fun c => do (fl, p1) <- r_leb c; do (k, p2) <- r_rsk sz p1; ROk ((fl =? 1)%N, k) p2) q1; ROk (r, ch) q2).
  Proof.
    apply eats_bind; [apply eats_vec; lia|]. intros r. apply eats_bind; [|intros ch; apply eats_ret].
    apply eats_list; [lia|]. apply (eats_weaken 1); [lia|]. apply eats_msk_entry.
  Qed.
  Lemma eats_mpk_entry : eats 1 (fun b => do (r, q1) <- r_vec b; do (k, q2) <- r_rpk sz q1; ROk (r, k) q2).
  Proof.
    apply eats_bind; [apply eats_vec; lia|]. intros r. apply eats_bind; [apply eats_rpk; lia|]. intros k. apply eats_ret.
  Qed.
  Lemma eats_named_attr : eats 1 r_named_attr.
  Proof.
    unfold r_named_attr. apply eats_bind; [apply eats_vec; lia|]. intros name. apply eats_bind; [apply eats_attr; lia|].
    intros a. apply eats_ret.
  Qed.
  Lemma eats_named_dim : eats 1 (fun b => do (name, q1) <- r_vec b; do (d, q2) <- r_dim q1; ROk (name, d) q2).
  Proof.
    apply eats_bind; [apply eats_vec; lia|]. intros name. apply eats_bind; [|intros d; apply eats_ret].
    unfold r_dim. apply eats_bind; [apply eats_flag; lia|]. intros ord. apply eats_bind; [|intros l; apply eats_ret].
    apply eats_list; [lia|]. apply (eats_weaken 1); [lia|]. apply eats_named_attr.
  Qed.
End Elements.

Example elements_hyps_inhabited : 0 < scalar_len default_sizes /\ 0 < point_len default_sizes.
Proof. cbn. lia. Qed.
(* instance: the trap list of an encapsulation at the default sizes, with any surplus of fuel *)
Example traps_fuel_irrelevant : forall k bs,
  r_list (r_take (point_len default_sizes)) bs = r_list_plus k (r_take (point_len default_sizes)) bs.
Proof. intros k bs. apply r_list_fuel_irrelevant, eats_point; cbn; lia. Qed.
(* non-vacuity: a count of 3 with only 2 elements present fails, whatever the fuel; a count of 2 succeeds *)
Example fuel_ex : r_list (r_take 2) [3; 1; 1; 2; 2]%N = RErr /\ r_list_plus 100 (r_take 2) [3; 1; 1; 2; 2]%N = RErr
  /\ r_list (r_take 2) [2; 1; 1; 2; 2]%N = ROk [[1; 1]; [2; 2]]%N [] /\ r_list_plus 100 (r_take 2) [2; 1; 1; 2; 2]%N = ROk [[1; 1]; [2; 2]]%N [].
Proof. vm_compute. repeat split. Qed.
(* the hypothesis cannot be dropped: with an element reader that consumes nothing the fuel does matter *)
Example fuel_needs_progress : exists (f : bytes -> res unit) n rest k,
  r_n f (length rest) n rest [] <> r_n f (length rest + k) n rest [].
Proof. exists (fun b => ROk tt b), 1%N, [], 1. vm_compute. discriminate. Qed.

(* ------------------------------------------------------------------------------------------------------------ *)
(* a user key obtained from arbitrary bytes can be passed to decaps: its revision loop ends (repaired iterator) and
   visits every secret once; with the pinned iterator the 3-byte key 00 00 00 (no marker, no point, no right) is
   accepted by the pinned reader and makes the loop of decaps run for ever *)
Require Import RevIter.
From Coq Require Import Permutation.
Theorem parsed_usk_revisions_terminate : forall sz bs u rest, r_usk sz bs = ROk u rest ->
  let chs := map snd (wu_chains u) in
  exists r, revisions_fuel true (S (maxlen chs)) chs = Some r /\ Permutation (concat r) (concat chs).
Proof.
  intros sz bs u rest _ chs. destruct (revisions_fixed_terminates chs) as [r Hr]. exists r. split; [exact Hr|].
  eapply revisions_fixed_complete, Hr.
Qed.
Theorem parsed_usk_pinned_hangs : exists bs u, length bs <= 3 /\ a_usk false bs = AOk u [] /\
  forall fuel, revisions_fuel false fuel (map snd (wu_chains u)) = None.
Proof.
  exists [0; 0; 0]%N, {| wu_id := []; wu_ps := []; wu_chains := []; wu_sig := None |}.
  split; [cbn; lia|]. split; [vm_compute; reflexivity|]. intros fuel. apply revisions_pinned_hangs.
Qed.
Print Assumptions parsed_usk_revisions_terminate.
Print Assumptions parsed_usk_pinned_hangs.
