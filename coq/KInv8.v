(* Part 8: I2 / I3 -- the append-only log of secrets (ghost state, existentially quantified in the invariant):
   for every right the list of all secrets ever created for it, newest first.
   MSK chains are prefixes of the log, user-key chains are contiguous windows of it, snapshots and encapsulations
   only mention logged secrets, and tokens are fresh and determine their right. *)
From Coq Require Import List NArith Bool Arith Lia.
From CC Require Import Policy Structure Keys KeysMachine SelProofs GoodProofs CoverProofs1 CoverProofs2
                       RefreshProofs DisabledProofs KInv1 KInv3 KInv5 KInv6 KInv7.
Import ListNotations.
Local Open Scope N_scope.

Definition logT := rightk -> list secret.
Definition push (L : logT) (r : rightk) (sk : secret) : logT := fun r' => if list_N_eqb r' r then sk :: L r' else L r'.
Definition Lext (L L' : logT) : Prop := forall r, exists pre, L' r = pre ++ L r.

Record Lbase (L : logT) (ctr : N) : Prop := {
  lb_lt : forall r sk, In sk (L r) -> tok sk < ctr;
  lb_nd : forall r, NoDup (map tok (L r));
  lb_uq : forall r r' sk sk', In sk (L r) -> In sk' (L r') -> tok sk = tok sk' -> r = r' }.
Definition Lmsk (L : logT) (secs : chains) : Prop :=
  forall r ch, rlookup r secs = Some ch -> map snd ch = firstn (length ch) (L r).
Definition window (L ch : list secret) : Prop :=
  exists i j, (i < j <= length L)%nat /\ ch = firstn (j - i) (skipn i L).

Lemma Lext_refl L : Lext L L. Proof. intros r. exists []. reflexivity. Qed.
Lemma Lext_trans L1 L2 L3 : Lext L1 L2 -> Lext L2 L3 -> Lext L1 L3.
Proof. intros H1 H2 r. destruct (H1 r) as (p1 & E1). destruct (H2 r) as (p2 & E2). exists (p2 ++ p1). rewrite E2, E1, app_assoc. reflexivity. Qed.
Lemma push_same L r sk : push L r sk r = sk :: L r. Proof. unfold push. rewrite list_N_eqb_refl. reflexivity. Qed.
Lemma push_other L r sk r' : r' <> r -> push L r sk r' = L r'.
Proof. intros Hne. unfold push. destruct (list_N_eqb r' r) eqn:E; [apply list_N_eqb_eq in E; contradiction|reflexivity]. Qed.
Lemma push_ext L r sk : Lext L (push L r sk).
Proof. intros r'. unfold push. destruct (list_N_eqb r' r); [exists [sk]|exists []]; reflexivity. Qed.
Lemma Lext_In L L' r sk : Lext L L' -> In sk (L r) -> In sk (L' r).
Proof. intros H Hin. destruct (H r) as (pre & ->). apply in_app_iff. right. exact Hin. Qed.

Lemma Lbase_mono L c c' : c <= c' -> Lbase L c -> Lbase L c'.
Proof. intros Hc [H1 H2 H3]. constructor; try assumption. intros r sk Hin. specialize (H1 r sk Hin). lia. Qed.

Lemma push_base L r hyb ctr : Lbase L ctr -> Lbase (push L r {| tok := ctr; s_hyb := hyb |}) (N.succ ctr).
Proof.
  intros [H1 H2 H3].
  assert (Hin : forall r' sk, In sk (push L r {| tok := ctr; s_hyb := hyb |} r') -> (r' = r /\ sk = {| tok := ctr; s_hyb := hyb |}) \/ In sk (L r')).
  { intros r' sk. unfold push. destruct (list_N_eqb r' r) eqn:E; [|tauto]. apply list_N_eqb_eq in E. intros [<-|H]; [left; split; [exact E|reflexivity]|right; exact H]. }
  constructor.
  - intros r' sk Hi. destruct (Hin r' sk Hi) as [[_ ->]|Ho]; [cbn; lia|]. specialize (H1 r' sk Ho). lia.
  - intros r'. unfold push. destruct (list_N_eqb r' r); [|apply H2]. cbn. constructor; [|apply H2].
    intros Hi. apply in_map_iff in Hi. destruct Hi as (sk & Et & Hi). specialize (H1 r' sk Hi). cbn in Et. lia.
  - intros r1 r2 sk1 sk2 Hi1 Hi2 Et. destruct (Hin _ _ Hi1) as [[-> ->]|Ho1], (Hin _ _ Hi2) as [[-> ->]|Ho2].
    + reflexivity.
    + specialize (H1 _ _ Ho2). cbn in Et. lia.
    + specialize (H1 _ _ Ho1). cbn in Et. lia.
    + eapply H3; eassumption.
Qed.

(* ---- windows ---- *)
Lemma window_ext pre L ch : window L ch -> window (pre ++ L) ch.
Proof.
  intros (i & j & Hij & ->). exists (length pre + i)%nat, (length pre + j)%nat. split; [rewrite app_length; lia|].
  replace (length pre + j - (length pre + i))%nat with (j - i)%nat by lia. f_equal.
  rewrite skipn_app, (skipn_all2 pre) by lia. replace (length pre + i - length pre)%nat with i by lia. reflexivity.
Qed.
Lemma window_prefix q L : (1 <= q <= length L)%nat -> window L (firstn q L).
Proof. intros Hq. exists 0%nat, q. split; [lia|]. rewrite Nat.sub_0_r. reflexivity. Qed.
Lemma window_In L ch sk : window L ch -> In sk ch -> In sk L.
Proof.
  intros (i & j & _ & ->) Hin. rewrite <- (firstn_skipn i L). apply in_app_iff. right.
  rewrite <- (firstn_skipn (j - i) (skipn i L)). apply in_app_iff. left. exact Hin.
Qed.
Lemma window_ne L ch : window L ch -> ch <> [].
Proof.
  intros (i & j & Hij & ->) E. apply (f_equal (@length _)) in E. rewrite firstn_length, skipn_length in E. cbn in E. lia.
Qed.

(* ---- MSK chains as prefixes of the log ---- *)
Lemma Lmsk_len L secs r ch : Lmsk L secs -> rlookup r secs = Some ch -> (length ch <= length (L r))%nat.
Proof.
  intros H El. specialize (H r ch El). apply (f_equal (@length _)) in H. rewrite map_length, firstn_length in H. lia.
Qed.
Lemma Lmsk_In L secs r ch fl sk : Lmsk L secs -> rlookup r secs = Some ch -> In (fl, sk) ch -> In sk (L r).
Proof.
  intros H El Hin. specialize (H r ch El). assert (Hs : In sk (map snd ch)) by (apply in_map_iff; exists (fl, sk); split; [reflexivity|exact Hin]).
  rewrite H in Hs. rewrite <- (firstn_skipn (length ch) (L r)). apply in_app_iff. left. exact Hs.
Qed.
Lemma Lmsk_front L secs r fl sk older : Lmsk L secs -> rlookup r secs = Some ((fl, sk) :: older) -> exists tl, L r = sk :: tl.
Proof.
  intros H El. specialize (H r _ El). cbn in H. destruct (L r) as [|x tl]; [discriminate|]. inversion H; subst. exists tl. reflexivity.
Qed.
Lemma prefix_firstn {A B} (f : A -> B) (ch : list A) (L : list B) k :
  map f ch = firstn (length ch) L -> map f (firstn k ch) = firstn (length (firstn k ch)) L.
Proof.
  intros H. rewrite <- firstn_map, H, firstn_firstn, firstn_length. reflexivity.
Qed.

(* ---------------------------------------------------------------- the loops *)
Definition LQ (L : logT) (secs : chains) (c : N) : Prop := exists L', Lext L L' /\ Lbase L' c /\ Lmsk L' secs.

(* variant of upd_loop_ind in a flavour-consistent state: the front secret is never modified *)
Lemma upd_loop_ind_flav H st (Q : chains -> N -> Prop) :
  st_flav H st -> ids_lt st ->
  (forall r enc fl s older secs ctr, rlookup r secs = Some ((fl, s) :: older) -> Q secs ctr -> Q (rreplace r ((enc, s) :: older) secs) ctr) ->
  (forall r hyb secs ctr, rlookup r secs = None -> Q secs ctr -> Q (secs ++ [(r, [(true, {| tok := ctr; s_hyb := hyb |})])]) (N.succ ctr)) ->
  forall secs ctr secs' ctr', nonempty_chains secs -> chains_ok H (next_id st) secs -> Q secs ctr ->
  upd_loop (omega_map st) secs ctr = ROk (secs', ctr') -> Q secs' ctr'.
Proof.
  intros Hf Hlt Hrep Hnew secs ctr secs' ctr' Hne Hc HQ Hu.
  destruct (upd_loop_ind (omega_map st) (fun secs c => chains_ok H (next_id st) secs /\ Q secs c)) with (3 := incl_refl (omega_map st)) (6 := Hu) as [[_ HQ'] _];
    try assumption; [| |split; assumption].
  - intros r hyb enc fl s older secs0 c Hin El [HC HQ0].
    destruct (omega_map_flav H st r hyb enc Hf Hin) as [Eh _].
    assert (Hs : sec_ok H (next_id st) r s) by (eapply HC; [apply rlookup_In; exact El|left; reflexivity]).
    rewrite (downgrade_id H _ r _ s Hs Eh). split; [|eapply Hrep; eassumption].
    intros r' ch' fl' sk' Hin' Hsk'. apply rreplace_In in Hin'. destruct Hin' as [E|Hin']; [|eapply HC; eassumption].
    inversion E; subst r' ch'; clear E. apply rlookup_In in El. destruct Hsk' as [E|Hsk'].
    + inversion E; subst. exact Hs.
    + eapply HC; [exact El|right; exact Hsk'].
  - intros r hyb secs0 c Hin El [HC HQ0]. split; [|apply Hnew; assumption].
    intros r' ch' fl' sk' Hin' Hsk'. apply in_app_iff in Hin'. destruct Hin' as [Hin'|[E|[]]]; [eapply HC; eassumption|].
    inversion E; subst r' ch'; clear E. destruct Hsk' as [E|[]]. inversion E; subst. destruct (omega_map_flav H st r hyb true Hf Hin) as [Eh Hids].
    split; [|exact Eh]. intros i Hi. destruct (Hids i Hi) as (att & Ha & <-). apply Hlt. exact Ha.
Qed.

Lemma LQ_replace L r enc fl s older secs ctr : rlookup r secs = Some ((fl, s) :: older) ->
  LQ L secs ctr -> LQ L (rreplace r ((enc, s) :: older) secs) ctr.
Proof.
  intros El (L' & H1 & H2 & H3). exists L'. split; [exact H1|]. split; [exact H2|]. intros r' ch' El'.
  rewrite rlookup_rreplace in El' by (rewrite El; discriminate). destruct (list_N_eqb r' r) eqn:E; [|apply H3; exact El'].
  apply list_N_eqb_eq in E. subst r'. inversion El'; subst ch'. apply (H3 r _ El).
Qed.
Lemma LQ_new L r hyb secs ctr : rlookup r secs = None ->
  LQ L secs ctr -> LQ L (secs ++ [(r, [(true, {| tok := ctr; s_hyb := hyb |})])]) (N.succ ctr).
Proof.
  intros El (L' & H1 & H2 & H3). exists (push L' r {| tok := ctr; s_hyb := hyb |}).
  split; [eapply Lext_trans; [exact H1|apply push_ext]|]. split; [apply push_base; exact H2|]. intros r' ch' El'.
  rewrite rlookup_app_new in El' by exact El. destruct (rlookup r' secs) as [x|] eqn:E1.
  - inversion El'; subst x. rewrite push_other; [apply H3; exact E1|]. intros ->. rewrite El in E1. discriminate.
  - destruct (list_N_eqb r' r) eqn:E; [|discriminate]. apply list_N_eqb_eq in E. subst r'. inversion El'; subst ch'. rewrite push_same. reflexivity.
Qed.
Lemma LQ_rekey L r fl s older secs ctr : rlookup r secs = Some ((fl, s) :: older) ->
  LQ L secs ctr -> LQ L (rreplace r ((fl, {| tok := ctr; s_hyb := s_hyb s |}) :: (fl, s) :: older) secs) (N.succ ctr).
Proof.
  intros El (L' & H1 & H2 & H3). exists (push L' r {| tok := ctr; s_hyb := s_hyb s |}).
  split; [eapply Lext_trans; [exact H1|apply push_ext]|]. split; [apply push_base; exact H2|]. intros r' ch' El'.
  rewrite rlookup_rreplace in El' by (rewrite El; discriminate). destruct (list_N_eqb r' r) eqn:E.
  - apply list_N_eqb_eq in E. subst r'. inversion El'; subst ch'. rewrite push_same. specialize (H3 r _ El).
    change (length ((fl, {| tok := ctr; s_hyb := s_hyb s |}) :: (fl, s) :: older)) with (S (length ((fl, s) :: older))).
    cbn [map firstn snd]. f_equal. exact H3.
  - rewrite push_other; [apply H3; exact El'|]. intros ->. rewrite list_N_eqb_refl in E. discriminate.
Qed.

Lemma update_msk_log H L m ctr r m' c :
  st_flav H (m_st m) -> ids_lt (m_st m) -> chains_ok H (next_id (m_st m)) (m_secrets m) ->
  nonempty_chains (m_secrets m) -> NoDup (map fst (m_secrets m)) ->
  Lbase L ctr -> Lmsk L (m_secrets m) -> update_msk fixed m ctr = (r, m', c) -> LQ L (m_secrets m') c.
Proof.
  intros Hf Hlt Hc Hne Hnd Hb Hm Hu. rewrite update_msk_fixed in Hu. destruct (upd_loop _ _ _) as [[secs c']|] eqn:Eu.
  - cbn in Hu. inversion Hu; subst; clear Hu. cbn [m_secrets].
    eapply (upd_loop_ind_flav H (m_st m) (LQ L)); [exact Hf|exact Hlt| | | | | |exact Eu].
    + intros; eapply LQ_replace; eassumption.
    + intros; apply LQ_new; assumption.
    + intros r0 ch Hin. apply filter_In in Hin. eapply Hne. apply Hin.
    + intros r0 ch fl sk Hin. apply filter_In in Hin. eapply Hc. apply Hin.
    + exists L. split; [apply Lext_refl|]. split; [exact Hb|]. intros r0 ch El. apply rlookup_filter in El. destruct El as [_ Hin].
      apply Hm. apply In_rlookup; assumption.
  - inversion Hu; subst. exists L. split; [apply Lext_refl|]. split; assumption.
Qed.

Lemma rekey_loop_log L rs secs ctr : LQ L secs ctr -> LQ L (fst (rekey_loop fixed rs secs ctr)) (snd (rekey_loop fixed rs secs ctr)).
Proof. apply (rekey_loop_ind (LQ L)). intros; apply LQ_rekey; assumption. Qed.

Lemma prune_log L m rs : Lmsk L (m_secrets m) -> Lmsk L (m_secrets (prune m rs)).
Proof.
  intros Hm r ch El. rewrite rlookup_prune in El. destruct (rlookup r (m_secrets m)) as [ch0|] eqn:E; [|discriminate]. cbn [option_map] in El.
  specialize (Hm r ch0 E). destruct (existsb (list_N_eqb r) rs); injection El as <-; [exact (prefix_firstn snd ch0 (L r) 1 Hm)|exact Hm].
Qed.

(* ---------------------------------------------------------------- the invariant on states *)
Record Lrest (L : logT) (mpks : list mpk) (usks : list usk) (encs : list xenc) : Prop := {
  lr_mpk : forall pk r sk, In pk mpks -> In (r, sk) (p_keys pk) -> In sk (L r);
  lr_usk : forall u r ch, In u usks -> In (r, ch) (u_chains u) -> window (L r) ch;
  lr_enc : forall x t, In x encs -> In t (x_entries x) -> exists r sk, In sk (L r) /\ tok sk = t }.
Record LogInv (L : logT) (s : state) : Prop := {
  li_base : Lbase L (st_ctr s);
  li_msk  : Lmsk L (m_secrets (st_msk s));
  li_rest : Lrest L (st_mpks s) (st_usks s) (st_encs s);
  li_seed : forall x, In x (st_encs s) -> x_seed x < st_ctr s;
  li_seednd : NoDup (map x_seed (st_encs s)) }.
Definition Log (s : state) : Prop := exists L, LogInv L s.

Lemma Lrest_ext L L' mpks usks encs : Lext L L' -> Lrest L mpks usks encs -> Lrest L' mpks usks encs.
Proof.
  intros He [H1 H2 H3]. constructor.
  - intros pk r sk Hp Hk. eapply Lext_In; [exact He|eapply H1; eassumption].
  - intros u r ch Hu Hc. destruct (He r) as (pre & ->). apply window_ext. eapply H2; eassumption.
  - intros x t Hx Ht. destruct (H3 x t Hx Ht) as (r & sk & Hi & E). exists r, sk. split; [eapply Lext_In; eassumption|exact E].
Qed.
Lemma Lrest_push L m mpks usks encs : Lmsk L (m_secrets m) -> NoDup (map fst (m_secrets m)) ->
  Lrest L mpks usks encs -> Lrest L (mpks ++ [mk_mpk m]) usks encs.
Proof.
  intros Hm Hnd [H1 H2 H3]. constructor; try assumption. intros pk r sk Hp Hk. apply in_app_iff in Hp.
  destruct Hp as [Hp|[<-|[]]]; [eapply H1; eassumption|]. destruct (mk_mpk_In _ _ _ Hk) as (older & Hin).
  eapply Lmsk_In; [exact Hm|apply In_rlookup; [exact Hnd|exact Hin]|left; reflexivity].
Qed.

Lemma encaps_rights_log (L : logT) pk rs c x c' : (forall r sk, In (r, sk) (p_keys pk) -> In sk (L r)) ->
  encaps_rights pk rs c = (ROk x, c') ->
  c' = N.succ c /\ x_seed x = c /\ forall t, In t (x_entries x) -> exists r sk, In sk (L r) /\ tok sk = t.
Proof.
  intros Hp. unfold encaps_rights. destruct (all_rights_keys pk rs) as [ks|] eqn:Ek; [|discriminate]. intros E. inversion E; subst; clear E.
  split; [reflexivity|]. split; [reflexivity|]. cbn [x_entries]. intros t Ht. apply in_map_iff in Ht. destruct Ht as (sk & <- & Hsk).
  destruct (KInv5.Forall2_In_r _ _ _ _ (all_rights_keys_spec _ _ _ Ek) Hsk) as (r & _ & El). exists r, sk. split; [|reflexivity].
  apply Hp. apply rlookup_In. exact El.
Qed.
Lemma recaps_is_encaps m pk x ctr x' c : recaps fixed m pk x ctr = (ROk x', c) -> exists rs, encaps_rights pk rs ctr = (ROk x', c).
Proof.
  unfold recaps. destruct (full_decaps m x) as [|r0 rs0]; [discriminate|]. cbn [fx_recaps fixed KeysMachine.fx_all].
  destruct (filter _ (r0 :: rs0)) as [|r1 rs1]; [discriminate|]. intros H. exists (r1 :: rs1). exact H.
Qed.

Lemma LogInv_add_enc L s x : LogInv L s -> x_seed x = st_ctr s ->
  (forall t, In t (x_entries x) -> exists r sk, In sk (L r) /\ tok sk = t) ->
  LogInv L {| st_msk := st_msk s; st_mpks := st_mpks s; st_usks := st_usks s; st_encs := st_encs s ++ [x]; st_ctr := N.succ (st_ctr s) |}.
Proof.
  intros [H1 H2 [R1 R2 R3] H4 H5] Hs Ht. constructor; cbn.
  - eapply Lbase_mono; [|exact H1]. lia.
  - exact H2.
  - constructor; try assumption. intros x0 t Hx Hin. apply in_app_iff in Hx. destruct Hx as [Hx|[<-|[]]]; [eapply R3; eassumption|apply Ht; exact Hin].
  - intros x0 Hx. apply in_app_iff in Hx. destruct Hx as [Hx|[<-|[]]]; [specialize (H4 x0 Hx); lia|lia].
  - rewrite map_app. cbn. apply NoDup_app_intro; [exact H5|constructor; [intros []|constructor]|].
    intros t Hin [<-|[]]. apply in_map_iff in Hin. destruct Hin as (x0 & E & Hx). specialize (H4 x0 Hx). lia.
Qed.

Lemma LogInv_edit L s r : LogInv L s -> LogInv L (fst (edit s r)).
Proof. intros [H1 H2 H3 H4 H5]. destruct r; cbn; constructor; assumption. Qed.

Lemma LogInv_init : LogInv (fun _ => []) init.
Proof.
  constructor; cbn.
  - constructor; [intros ? ? []|constructor|intros ? ? ? ? []].
  - intros r ch El. discriminate.
  - constructor; [intros ? ? ? []|intros ? ? ? []|intros ? ? []].
  - intros ? [].
  - constructor.
Qed.

(* a front secret of the MSK is a length-one window of the log *)
Lemma front_window L secs r fl sk older : Lmsk L secs -> rlookup r secs = Some ((fl, sk) :: older) -> window (L r) [sk].
Proof.
  intros Hm El. destruct (Lmsk_front _ _ _ _ _ _ Hm El) as (tl & E). rewrite E. exists 0%nat, 1%nat. split; [cbn; lia|reflexivity].
Qed.

Lemma NoDup_map_NoDup {A B} (f : A -> B) l : NoDup (map f l) -> NoDup l.
Proof.
  induction l as [|x l IH]; cbn; intros H; [constructor|]. inversion H as [|? ? Hx H']; subst. constructor; [|apply IH; exact H'].
  intros Hin. apply Hx. apply in_map. exact Hin.
Qed.

(* the refreshed chains are windows *)
Lemma refreshed_window L m u keep r ch : (forall r0, NoDup (map tok (L r0))) ->
  nonempty_chains (m_secrets m) -> Lmsk L (m_secrets m) ->
  (forall r0 uch, In (r0, uch) (u_chains u) -> window (L r0) uch) ->
  In (r, ch) (u_chains (refreshed m u keep)) -> window (L r) ch.
Proof.
  intros Hnd Hne Hm Hu Hin. unfold refreshed in Hin. cbn [u_chains] in Hin. destruct keep.
  - destruct (refresh_keep_chains_In _ _ _ _ Hin) as (mch & uch & Hin' & El & Er).
    destruct (Hu r uch Hin') as (i & j & Hij & ->).
    pose proof (Lmsk_len _ _ _ _ Hm El) as Hk. pose proof (Hm r mch El) as Hsecs.
    assert (Hk1 : (1 <= length mch)%nat). { destruct mch; [exfalso; eapply Hne; [apply rlookup_In; exact El|reflexivity]|cbn; lia]. }
    pose proof (refresh_chain_window (L r) mch (length mch) i j (NoDup_map_NoDup _ _ (Hnd r)) Hsecs Hij Hk) as Hw.
    change (refresh_chain RefreshProofs.fx_all) with (refresh_chain fixed) in Hw. rewrite Er in Hw. inversion Hw; subst ch.
    destruct (i <? length mch)%nat; apply window_prefix; lia.
  - destruct (refresh_nokeep_chains_In _ _ _ _ Hin) as (fl & sk & older & uch & _ & El & ->). eapply front_window; eassumption.
Qed.

Theorem Log_step s o : I1 s -> Flav s -> Log s -> Log (fst (step fixed s o)).
Proof.
  intros [Hne Hnd Hune] [H [F1 F2 F3 F4 F5]] [L HL]. pose proof HL as [B M [R1 R2 R3] S1 S2].
  destruct o; cbn [step]; try (exists L; apply LogInv_edit; exact HL).
  - (* OSetup *)
    destruct (update_msk fixed empty_msk 0) as [[r m'] c] eqn:E.
    assert (He1 : st_flav (fun _ => false) (m_st empty_msk)) by (intros att (dm & n & [] & _)).
    assert (He2 : ids_lt (m_st empty_msk)) by (intros att (dm & n & [] & _)).
    assert (He3 : nonempty_chains (m_secrets empty_msk)) by (intros ? ? []).
    assert (He4 : chains_ok (fun _ => false) (next_id (m_st empty_msk)) (m_secrets empty_msk)) by (intros ? ? ? ? []).
    assert (He5 : NoDup (map fst (m_secrets empty_msk))) by constructor.
    destruct LogInv_init as [B0 M0 _ _ _].
    destruct (update_msk_log _ _ _ _ _ _ _ He1 He2 He4 He3 He5 B0 M0 E) as (L' & _ & B' & M').
    destruct (update_msk_I1 _ _ _ _ _ He3 He5 E) as (_ & Hnd' & _).
    exists L'. constructor; cbn [fst push_mpk st_msk st_mpks st_usks st_encs st_ctr]; try assumption.
    + apply (Lrest_push L' m' []); [exact M'|exact Hnd'|]. constructor; [intros ? ? ? []|intros ? ? ? []|intros ? ? []].
    + intros ? [].
    + constructor.
  - (* OUpdate *)
    destruct (update_msk fixed (st_msk s) (st_ctr s)) as [[r m'] c] eqn:E.
    destruct (update_msk_log _ _ _ _ _ _ _ F1 F2 F3 Hne Hnd B M E) as (L' & He & B' & M').
    destruct (update_msk_I1 _ _ _ _ _ Hne Hnd E) as (_ & Hnd' & Hc & _).
    assert (HR : Lrest L' (st_mpks s) (st_usks s) (st_encs s)) by (eapply Lrest_ext; [exact He|constructor; assumption]).
    exists L'. destruct r; cbn; constructor; cbn; try assumption; try (intros x Hx; specialize (S1 x Hx); lia).
    apply Lrest_push; assumption.
  - (* OMpk *) exists L. cbn. constructor; cbn; try assumption. apply Lrest_push; [exact M|exact Hnd|constructor; assumption].
  - (* ORekey *)
    destruct (usk_rights fixed (m_st (st_msk s)) p) as [rs|]; [|exists L; exact HL]. unfold rekey.
    destruct (forallb _ rs); [|cbn; rewrite with_msk_ctr_id; exists L; exact HL].
    assert (HQ : LQ L (m_secrets (st_msk s)) (st_ctr s)) by (exists L; split; [apply Lext_refl|split; assumption]).
    pose proof (rekey_loop_log L rs _ _ HQ) as (L' & He & B' & M').
    destruct (rekey_loop_I1 rs _ (st_ctr s) Hne Hnd) as (_ & Hnd' & Hc).
    destruct (rekey_loop fixed rs (m_secrets (st_msk s)) (st_ctr s)) as [secs c]. cbn [fst snd] in *.
    assert (HR : Lrest L' (st_mpks s) (st_usks s) (st_encs s)) by (eapply Lrest_ext; [exact He|constructor; assumption]).
    exists L'. cbn. constructor; cbn; try assumption; try (intros x Hx; specialize (S1 x Hx); lia). apply Lrest_push; assumption.
  - (* OPrune *)
    destruct (usk_rights fixed (m_st (st_msk s)) p) as [rs|]; [|exists L; exact HL]. cbn.
    destruct (prune_I1 (st_msk s) rs Hne Hnd) as [_ Hnd']. pose proof (prune_log L (st_msk s) rs M) as M'.
    exists L. constructor; cbn; try assumption. apply Lrest_push; [exact M'|exact Hnd'|constructor; assumption].
  - (* OKeygen *)
    destruct (usk_rights fixed (m_st (st_msk s)) p) as [rs|]; [|exists L; exact HL]. unfold keygen.
    destruct (latest_all (st_msk s) rs) as [chs|] eqn:El; [|cbn; rewrite with_msk_ctr_id; exists L; exact HL].
    exists L. cbn. constructor; cbn; try assumption; try (intros x Hx; specialize (S1 x Hx); lia).
    + eapply Lbase_mono; [|exact B]. lia.
    + constructor; try assumption. intros u r ch Hu Hch. apply in_app_iff in Hu. destruct Hu as [Hu|[<-|[]]]; [eapply R2; eassumption|].
      cbn in Hch. destruct (latest_all_spec _ _ _ El) as [_ H2]. destruct (H2 r ch Hch) as (fl & s0 & older & Hl & ->). eapply front_window; eassumption.
  - (* ORefresh *)
    destruct (nth_error (st_usks s) k) as [u|] eqn:En; [|exists L; exact HL].
    destruct (refresh fixed (st_msk s) u keep) as [r u'] eqn:Er. exists L. cbn. constructor; cbn; try assumption.
    constructor; try assumption. intros u0 r0 ch Hu0 Hch. apply set_nth_In in Hu0. destruct Hu0 as [->|Hu0]; [|eapply R2; eassumption].
    assert (Hu' : u' = snd (refresh fixed (st_msk s) u keep)) by (rewrite Er; reflexivity). rewrite refresh_fixed in Hu'.
    pose proof (nth_error_In _ _ En) as Hu.
    destruct (u_id u) as [id|]; [|subst u'; eapply R2; eassumption]. destruct (negb _); [subst u'; eapply R2; eassumption|].
    cbn in Hu'. subst u'. change (In (r0, ch) (u_chains (refreshed (st_msk s) {| u_id := Some id; u_chains := u_chains u |} keep))) in Hch.
    eapply refreshed_window; [apply B|exact Hne|exact M| |exact Hch]. cbn. intros r1 uch H1. eapply R2; eassumption.
  - (* OEncaps *)
    destruct (nth_error (st_mpks s) j) as [pk|] eqn:En; [|exists L; exact HL]. destruct (enc_rights fixed (p_st pk) p) as [rs|]; [|exists L; exact HL].
    destruct (encaps_rights pk rs (st_ctr s)) as [[x|] c] eqn:Ee; [|exists L; exact HL].
    destruct (encaps_rights_log L _ _ _ _ _ (fun r sk => R1 pk r sk (nth_error_In _ _ En)) Ee) as (-> & Hs & Ht).
    exists L. cbn. apply LogInv_add_enc; assumption.
  - (* ODecaps *)
    exists L. destruct (nth_error (st_usks s) k) as [u|]; [|exact HL]. destruct (nth_error (st_encs s) e); [|exact HL]. destruct (u_chains u); exact HL.
  - (* ORecaps *)
    destruct (nth_error (st_mpks s) j) as [pk|] eqn:En; [|exists L; exact HL]. destruct (nth_error (st_encs s) e) as [x|]; [|exists L; exact HL].
    destruct (recaps fixed (st_msk s) pk x (st_ctr s)) as [[x'|] c] eqn:Ee; [|exists L; exact HL].
    destruct (recaps_is_encaps _ _ _ _ _ _ Ee) as (rs & Ee').
    destruct (encaps_rights_log L _ _ _ _ _ (fun r sk => R1 pk r sk (nth_error_In _ _ En)) Ee') as (-> & Hs & Ht).
    exists L. cbn. apply LogInv_add_enc; assumption.
  - (* ORoundTrip *) exists L. exact HL.
Qed.

Definition InvAll (s : state) : Prop := I1 s /\ I4 s /\ Flav s /\ Log s.
Theorem inv_all_reach s : reach s -> InvAll s.
Proof.
  apply (reach_ind InvAll).
  - split; [exact I1_init|]. split; [exact I4_init|]. split; [exists (fun _ => false); exact FlavInv_init|exists (fun _ => []); exact LogInv_init].
  - intros s0 o _ (H1 & H4 & HF & HL). split; [apply I1_step; exact H1|]. split; [apply I4_step; assumption|]. split; [apply Flav_step; assumption|apply Log_step; assumption].
Qed.
Theorem log_reach : forall ops, Log (run_state fixed init ops).
Proof. intros ops. apply inv_all_reach. exists ops. reflexivity. Qed.
Print Assumptions log_reach.
