(* Part 3: what a structure edit can do to the attributes (used by C06 and C11):
   every attribute of the edited structure is an attribute of the old one with the same id and flavour,
   possibly disabled but never re-enabled, or it is the freshly added one, whose id is the old [next_id]. *)
From Coq Require Import List NArith Bool Arith Lia.
From CC Require Import Policy Structure Keys KeysMachine SelProofs GoodProofs AssocLemmas CoverProofs1 KInv1.
Import ListNotations.
Local Open Scope N_scope.

Definition att_in (st : structure) (att : attribute) : Prop :=
  exists dm n, In dm (map snd (dims st)) /\ In (n, att) (attrs_of dm).
Definition att_le (a a' : attribute) : Prop :=
  a_id a = a_id a' /\ a_hyb a = a_hyb a' /\ (a_enc a = false -> a_enc a' = false).
Definition edit_rel (st st' : structure) : Prop :=
  next_id st <= next_id st' /\
  forall att', att_in st' att' ->
    (exists att, att_in st att /\ att_le att att') \/ (a_id att' = next_id st /\ next_id st < next_id st').
Definition ids_lt (st : structure) : Prop := forall att, att_in st att -> a_id att < next_id st.

Lemma att_le_refl a : att_le a a. Proof. repeat split. intros H; exact H. Qed.
Lemma edit_rel_refl st : edit_rel st st.
Proof. split; [lia|]. intros att H. left. exists att. split; [exact H|apply att_le_refl]. Qed.

Lemma edit_rel_ids_lt st st' : edit_rel st st' -> ids_lt st -> ids_lt st'.
Proof.
  intros [Hn H] Hlt att' Hin. destruct (H att' Hin) as [(att & Ha & Hid & _)|[Hid Hlt']].
  - rewrite <- Hid. apply Hlt in Ha. lia.
  - lia.
Qed.

(* ---- association-list membership facts, without any NoDup assumption ---- *)
Section AL.
  Context {A : Type}.
  Implicit Types (l : list (str * A)).
  Lemma aremove_In k l x : In x (aremove k l) -> In x l.
  Proof. induction l as [|[k' v] l IH]; cbn; [intros []|]. destruct (str_eqb k k'); [intros H; right; exact H|intros [H|H]; [left; exact H|right; apply IH; exact H]]. Qed.
  Lemma areplace_In k v l x : In x (areplace k v l) -> x = (k, v) \/ In x l.
  Proof.
    induction l as [|[k' v'] l IH]; cbn; [intros []|]. destruct (str_eqb k k').
    - intros [H|H]; [left; symmetry; exact H|right; right; exact H].
    - intros [H|H]; [right; left; exact H|]. destruct (IH H); [left|right; right]; assumption.
  Qed.
  Lemma arename_In k k' l x : In x (arename k k' l) -> exists k0, In (k0, snd x) l.
  Proof.
    induction l as [|[k0 v] l IH]; cbn; [intros []|]. destruct (str_eqb k k0).
    - intros [H|H]; [subst x; exists k0; left; reflexivity|exists (fst x); right; destruct x; exact H].
    - intros [H|H]; [subst x; exists k0; left; reflexivity|]. destruct (IH H) as (k1 & H1). exists k1. right. exact H1.
  Qed.
  Lemma ainsert_In k v l x : In x (ainsert k v l) -> x = (k, v) \/ In x l.
  Proof.
    unfold ainsert. destruct (alookup k l); [apply areplace_In|]. intros H. apply in_app_iff in H.
    destruct H as [H|[H|[]]]; [right; exact H|left; symmetry; exact H].
  Qed.
  Lemma take_while_In (f : str * A -> bool) l x : In x (take_while f l) -> In x l.
  Proof. induction l as [|y l IH]; cbn; [intros []|]. destruct (f y); [|intros []]. intros [H|H]; [left; exact H|right; apply IH; exact H]. Qed.
  Lemma fold_ainsert_In : forall (R : list (str * A)) acc x,
    In x (fold_left (fun acc p => ainsert (fst p) (snd p) acc) R acc) -> In x R \/ In x acc.
  Proof.
    induction R as [|p R IH]; intros acc x H; cbn in H; [right; exact H|]. destruct (IH _ _ H) as [H1|H1]; [left; right; exact H1|].
    apply ainsert_In in H1. destruct H1 as [H1|H1]; [left; left; destruct p; symmetry; exact H1|right; exact H1].
  Qed.
End AL.

Lemma dims_areplace_In d (dm' : dimension) l x : In x (map snd (areplace d dm' l)) -> x = dm' \/ In x (map snd l).
Proof.
  intros H. apply in_map_iff in H. destruct H as ([k v] & E & Hin). cbn in E. subst v. apply areplace_In in Hin.
  destruct Hin as [E|Hin]; [inversion E; left; reflexivity|right; apply in_map_iff; exists (k, x); split; [reflexivity|exact Hin]].
Qed.
Lemma dims_alookup_In d dm (l : list (str * dimension)) : alookup d l = Some dm -> In dm (map snd l).
Proof. intros H. apply alookup_In in H. apply in_map_iff. exists (d, dm). split; [reflexivity|exact H]. Qed.

(* generic: replace dimension d by dm', every attribute of which is related to one of dm or is the new one *)
Lemma edit_rel_replace st d dm dm' nid :
  alookup d (dims st) = Some dm -> next_id st <= nid ->
  (forall n att', In (n, att') (attrs_of dm') ->
     (exists n0 att, In (n0, att) (attrs_of dm) /\ att_le att att') \/ (a_id att' = next_id st /\ next_id st < nid)) ->
  edit_rel st {| dims := areplace d dm' (dims st); next_id := nid |}.
Proof.
  intros Hd Hn H. split; [exact Hn|]. intros att' (dm0 & n & Hdm0 & Hin). cbn [dims next_id] in *.
  apply dims_areplace_In in Hdm0. destruct Hdm0 as [->|Hdm0].
  - destruct (H n att' Hin) as [(n0 & att & Ha & Hle)|Hnew]; [left|right; exact Hnew].
    exists att. split; [|exact Hle]. exists dm, n0. split; [eapply dims_alookup_In; exact Hd|exact Ha].
  - left. exists att'. split; [|apply att_le_refl]. exists dm0, n. split; assumption.
Qed.

Lemma add_dim_rel mk d st st' : (forall l, attrs_of (mk l) = l) -> add_dim mk d st = Ok st' -> edit_rel st st'.
Proof.
  intros Hmk H. unfold add_dim in H. destruct (amem d (dims st)); [discriminate|]. inversion H; subst; clear H. split; [cbn; lia|].
  intros att' (dm0 & n & Hdm0 & Hin). cbn [dims] in Hdm0. rewrite map_app in Hdm0. apply in_app_iff in Hdm0.
  destruct Hdm0 as [Hdm0|[E|[]]]; [|cbn in E; subst dm0; rewrite Hmk in Hin; destruct Hin].
  left. exists att'. split; [|apply att_le_refl]. exists dm0, n. split; assumption.
Qed.

Lemma del_dimension_rel d st st' : del_dimension d st = Ok st' -> edit_rel st st'.
Proof.
  unfold del_dimension. destruct (amem d (dims st)); [|discriminate]. intros H. inversion H; subst; clear H. split; [cbn; lia|].
  intros att' (dm0 & n & Hdm0 & Hin). cbn [dims] in Hdm0. left. exists att'. split; [|apply att_le_refl]. exists dm0, n. split; [|exact Hin].
  apply in_map_iff in Hdm0. destruct Hdm0 as ([k v] & E & Hk). apply aremove_In in Hk. apply in_map_iff. exists (k, v). split; assumption.
Qed.

Lemma dim_add_attribute_In dm n hyb after id dm' : dim_add_attribute dm n hyb after id = Ok dm' ->
  forall n' att', In (n', att') (attrs_of dm') -> att' = {| a_id := id; a_hyb := hyb; a_enc := true |} \/ In (n', att') (attrs_of dm).
Proof.
  intros H n' att' Hin. destruct dm as [l|l]; cbn [dim_add_attribute] in H.
  - destruct (amem n l); [discriminate|]. inversion H; subst. cbn [attrs_of] in *. apply in_app_iff in Hin.
    destruct Hin as [Hin|[E|[]]]; [right; exact Hin|left; inversion E; reflexivity].
  - destruct (amem n l); [discriminate|]. destruct (match after with Some a => negb (amem a l) | None => false end); [discriminate|].
    inversion H; subst; clear H. cbn [attrs_of] in *. apply fold_ainsert_In in Hin. destruct Hin as [Hin|Hin].
    + right. apply in_rev in Hin. apply take_while_In in Hin. apply in_rev in Hin. exact Hin.
    + apply ainsert_In in Hin. destruct Hin as [E|Hin]; [left; inversion E; reflexivity|right; eapply take_while_In; exact Hin].
Qed.

Lemma add_attribute_rel d n hyb after st st' : add_attribute true d n hyb after st = Ok st' -> edit_rel st st'.
Proof.
  unfold add_attribute. destruct (alookup d (dims st)) as [dm|] eqn:Ed; [|discriminate].
  destruct (dim_add_attribute dm n hyb after (next_id st)) as [dm'| | |] eqn:Ea; try discriminate. intros H. inversion H; subst; clear H.
  apply (edit_rel_replace st d dm dm'); [exact Ed|lia|]. intros n' att' Hin.
  destruct (dim_add_attribute_In _ _ _ _ _ _ Ea n' att' Hin) as [->|Hold].
  - right. cbn. split; [reflexivity|lia].
  - left. exists n', att'. split; [exact Hold|apply att_le_refl].
Qed.

Lemma edit_dim_rel d f st st' :
  (forall dm dm', f dm = Some dm' -> forall n att', In (n, att') (attrs_of dm') -> exists n0 att, In (n0, att) (attrs_of dm) /\ att_le att att') ->
  edit_dim d f st = Ok st' -> edit_rel st st'.
Proof.
  intros Hf H. unfold edit_dim in H. destruct (alookup d (dims st)) as [dm|] eqn:Ed; [|discriminate].
  destruct (f dm) as [dm'|] eqn:Ef; [|discriminate]. inversion H; subst; clear H.
  apply (edit_rel_replace st d dm dm'); [exact Ed|lia|]. intros n att' Hin. left. eapply Hf; eassumption.
Qed.

Lemma map_dim_attrs f dm dm' : map_dim f dm = Some dm' -> f (attrs_of dm) = Some (attrs_of dm').
Proof. destruct dm as [l|l]; cbn; destruct (f l); cbn; intros H; inversion H; reflexivity. Qed.

Lemma del_attribute_rel d n st st' : del_attribute d n st = Ok st' -> edit_rel st st'.
Proof.
  apply edit_dim_rel. intros dm dm' H n0 att' Hin. apply map_dim_attrs in H. destruct (amem n (attrs_of dm)); [|discriminate].
  inversion H as [E]. rewrite <- E in Hin. apply aremove_In in Hin. exists n0, att'. split; [exact Hin|apply att_le_refl].
Qed.

Lemma disable_attribute_rel d n st st' : disable_attribute d n st = Ok st' -> edit_rel st st'.
Proof.
  apply edit_dim_rel. intros dm dm' H n0 att' Hin. apply map_dim_attrs in H. destruct (alookup n (attrs_of dm)) as [a|] eqn:El; [|discriminate].
  inversion H as [E]. rewrite <- E in Hin. apply areplace_In in Hin. destruct Hin as [E1|Hin].
  - inversion E1; subst. exists n, a. split; [apply alookup_In; exact El|]. repeat split.
  - exists n0, att'. split; [exact Hin|apply att_le_refl].
Qed.

Lemma rename_attribute_rel d n n' st st' : rename_attribute d n n' st = Ok st' -> edit_rel st st'.
Proof.
  apply edit_dim_rel. intros dm dm' H n0 att' Hin. destruct dm as [l|l].
  - destruct (amem n' l); [discriminate|]. destruct (alookup n l) as [a|] eqn:El; [|discriminate]. inversion H; subst. cbn [attrs_of] in *.
    apply in_app_iff in Hin. destruct Hin as [Hin|[E|[]]].
    + apply aremove_In in Hin. exists n0, att'. split; [exact Hin|apply att_le_refl].
    + inversion E; subst. exists n, att'. split; [apply alookup_In; exact El|apply att_le_refl].
  - destruct (amem n l); [|discriminate]. destruct (amem n' l); [discriminate|]. inversion H; subst. cbn [attrs_of] in *.
    apply arename_In in Hin. destruct Hin as (k0 & Hk). exists k0, att'. split; [exact Hk|apply att_le_refl].
Qed.

(* ---- lifted to the state machine: the structure after any step is related to the one before, except across OSetup ---- *)
Definition is_setup (o : op) : bool := match o with OSetup => true | _ => false end.

Lemma update_msk_st m ctr : m_st (snd (fst (update_msk fixed m ctr))) = m_st m.
Proof. rewrite update_msk_fixed. destruct (upd_loop _ _ _) as [[secs c]|]; reflexivity. Qed.

Theorem step_edit_rel s o : is_setup o = false -> edit_rel (m_st (st_msk s)) (m_st (st_msk (fst (step fixed s o)))).
Proof.
  intros Ho. destruct o; try discriminate; cbn [step]; unfold edit;
    try (match goal with |- context [match ?r with Ok _ => _ | _ => _ end] => destruct r eqn:E end; cbn; try apply edit_rel_refl).
  - eapply add_dim_rel; [|exact E]. reflexivity.
  - eapply add_dim_rel; [|exact E]. reflexivity.
  - eapply del_dimension_rel; exact E.
  - eapply add_attribute_rel; exact E.
  - eapply del_attribute_rel; exact E.
  - eapply rename_attribute_rel; exact E.
  - eapply disable_attribute_rel; exact E.
  - pose proof (update_msk_st (st_msk s) (st_ctr s)) as H. destruct (update_msk fixed (st_msk s) (st_ctr s)) as [[r m'] c]. cbn in H.
    destruct r; cbn; rewrite H; apply edit_rel_refl.
  - apply edit_rel_refl.
  - destruct (usk_rights fixed (m_st (st_msk s)) p) as [rs|]; [|apply edit_rel_refl]. unfold rekey.
    destruct (forallb _ rs); [|cbn; apply edit_rel_refl]. destruct (rekey_loop fixed rs _ _). cbn. apply edit_rel_refl.
  - destruct (usk_rights fixed (m_st (st_msk s)) p) as [rs|]; cbn; apply edit_rel_refl.
  - destruct (usk_rights fixed (m_st (st_msk s)) p) as [rs|]; [|apply edit_rel_refl]. unfold keygen.
    destruct (latest_all (st_msk s) rs); cbn; apply edit_rel_refl.
  - destruct (nth_error (st_usks s) k) as [u|]; [|apply edit_rel_refl]. destruct (refresh fixed (st_msk s) u keep). cbn. apply edit_rel_refl.
  - destruct (nth_error (st_mpks s) j) as [pk|]; [|apply edit_rel_refl]. destruct (enc_rights fixed (p_st pk) p) as [rs|]; [|apply edit_rel_refl].
    destruct (encaps_rights pk rs (st_ctr s)) as [[x|] c]; cbn; apply edit_rel_refl.
  - destruct (nth_error (st_usks s) k) as [u|]; [|apply edit_rel_refl]. destruct (nth_error (st_encs s) e); [|apply edit_rel_refl]. destruct (u_chains u); apply edit_rel_refl.
  - destruct (nth_error (st_mpks s) j) as [pk|]; [|apply edit_rel_refl]. destruct (nth_error (st_encs s) e) as [x|]; [|apply edit_rel_refl].
    destruct (recaps fixed (st_msk s) pk x (st_ctr s)) as [[x'|] c]; cbn; apply edit_rel_refl.
  - apply edit_rel_refl.
Qed.
Print Assumptions step_edit_rel.

(* ids below next_id: an invariant of all histories (OSetup resets the structure to the empty one) *)
Theorem ids_lt_reach s : reach s -> ids_lt (m_st (st_msk s)).
Proof.
  apply (reach_ind (fun s => ids_lt (m_st (st_msk s)))).
  - intros att (dm & n & [] & _).
  - intros s0 o _ H. destruct (is_setup o) eqn:Eo.
    + destruct o; try discriminate. cbn [step]. pose proof (update_msk_st empty_msk 0) as Hs.
      destruct (update_msk fixed empty_msk 0) as [[r m'] c]. cbn in Hs |- *. rewrite Hs. intros att (dm & n & [] & _).
    + eapply edit_rel_ids_lt; [apply step_edit_rel; exact Eo|exact H].
Qed.
Print Assumptions ids_lt_reach.
