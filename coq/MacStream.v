(* MacStream.v : byte-level model of the USK integrity check (property C08).

   Rust reference (/repo/src/core/primitives.rs):
     sign(msk, id, keys)  : KMAC over  marker_1 .. marker_n,
                            then for every chain (in the key's order)  right-name bytes (no length prefix,
                            the broadcast right is the empty string), then for each secret  sk  and, if
                            hybridized, dk.  No counts, no lengths, no flavour byte.
     verify(msk, usk)     : fresh_signature = sign(msk, usk.id, usk.secrets);  fresh_signature != usk.signature -> Err
     refresh(msk, usk, _) : verify ; tsk.refresh_id (id must be in msk.tsk.users) ; rebuild ; only then write.

   Everything in the first part of this file is free of Section variables (extracted to OCaml by the main
   build): bytes_eqb, ubody_eqb, mac_stream, framing, framing_size, wfb, reframing_of, mk_secret, mk_body.
   The ideal MAC only appears in Section MacDefs (definitions) and in MacStreamProofs.v (theorems). *)
From Coq Require Import List NArith Bool.
Import ListNotations.

Definition bytes := list N.

(* A right secret key: sk, and dk when hybridized (RightSecretKey::{Classic,Hybridized}). *)
Record bsecret := { bs_sk : bytes; bs_dk : option bytes }.

(* The signed part of a user key: markers of the id, then the chains (right name, secrets) in the key's order. *)
Record ubody := { b_id : list bytes; b_chains : list (bytes * list bsecret) }.

Definition is_hyb (s : bsecret) : bool := match bs_dk s with Some _ => true | None => false end.

Definition secret_stream (s : bsecret) : bytes :=
  bs_sk s ++ match bs_dk s with Some d => d | None => [] end.

Definition chain_stream (c : bytes * list bsecret) : bytes :=
  fst c ++ flat_map secret_stream (snd c).

(* Exactly the sequence of kmac.update calls of `sign`. *)
Definition mac_stream (b : ubody) : bytes :=
  concat (b_id b) ++ flat_map chain_stream (b_chains b).

(* The information `sign` does NOT feed to the MAC: number of markers, length of each right name, number and
   flavour of the secrets of each chain. *)
Definition framing (b : ubody) : nat * list (nat * list bool) :=
  (length (b_id b),
   map (fun '(r, ch) => (length r, map (fun s => match bs_dk s with Some _ => true | None => false end) ch))
       (b_chains b)).

(* Number of bytes a well-formed body with this framing puts in the stream. *)
Definition chain_framing_size (sk_len dk_len : nat) (cf : nat * list bool) : nat :=
  fst cf + list_sum (map (fun h : bool => if h then sk_len + dk_len else sk_len) (snd cf)).
Definition framing_size (sk_len dk_len : nat) (f : nat * list (nat * list bool)) : nat :=
  fst f * sk_len + list_sum (map (chain_framing_size sk_len dk_len) (snd f)).

(* ---------- boolean equalities ---------- *)
Fixpoint list_eqb {A} (eqb : A -> A -> bool) (l l' : list A) : bool :=
  match l, l' with
  | [], [] => true
  | x :: t, y :: t' => eqb x y && list_eqb eqb t t'
  | _, _ => false
  end.
Definition option_eqb {A} (eqb : A -> A -> bool) (o o' : option A) : bool :=
  match o, o' with
  | Some x, Some y => eqb x y
  | None, None => true
  | _, _ => false
  end.
Definition bytes_eqb : bytes -> bytes -> bool := list_eqb N.eqb.
Definition bsecret_eqb (s s' : bsecret) : bool :=
  bytes_eqb (bs_sk s) (bs_sk s') && option_eqb bytes_eqb (bs_dk s) (bs_dk s').
Definition chain_eqb (c c' : bytes * list bsecret) : bool :=
  bytes_eqb (fst c) (fst c') && list_eqb bsecret_eqb (snd c) (snd c').
Definition ubody_eqb (b b' : ubody) : bool :=
  list_eqb bytes_eqb (b_id b) (b_id b') && list_eqb chain_eqb (b_chains b) (b_chains b').

(* ---------- fixed widths (32 and 1632 in the default build; kept as arguments) ---------- *)
Definition wfb_secret (sk_len dk_len : nat) (s : bsecret) : bool :=
  Nat.eqb (length (bs_sk s)) sk_len &&
  match bs_dk s with Some d => Nat.eqb (length d) dk_len | None => true end.
Definition wfb (sk_len dk_len : nat) (b : ubody) : bool :=
  forallb (fun m => Nat.eqb (length m) sk_len) (b_id b) &&
  forallb (fun c : bytes * list bsecret => forallb (wfb_secret sk_len dk_len) (snd c)) (b_chains b).

(* ---------- the known finding F11, as a decision procedure ---------- *)
(* b' is a re-framing of b: a different body with the same MAC input. *)
Definition reframing_of (b b' : ubody) : bool :=
  bytes_eqb (mac_stream b) (mac_stream b') && negb (ubody_eqb b b').

(* ---------- parser-independent constructors ---------- *)
(* A secret given as (hybridized?, sk, dk); dk is ignored for a classic secret (Wire.w_rsk has the same shape). *)
Definition mk_secret (t : bool * bytes * bytes) : bsecret :=
  let '(h, sk, dk) := t in {| bs_sk := sk; bs_dk := if h then Some dk else None |}.
(* RevisionVec::insert_new_chain silently drops an empty chain: a deserialized key never holds one. *)
Definition chain_nonempty (c : bytes * list bsecret) : bool :=
  match snd c with [] => false | _ :: _ => true end.
Definition mk_body_raw (id : list bytes) (chains : list (bytes * list (bool * bytes * bytes))) : ubody :=
  {| b_id := id; b_chains := map (fun c => (fst c, map mk_secret (snd c))) chains |}.
Definition mk_body (id : list bytes) (chains : list (bytes * list (bool * bytes * bytes))) : ubody :=
  {| b_id := id; b_chains := filter chain_nonempty (b_chains (mk_body_raw id chains)) |}.

(* ---------- keys, master state ---------- *)
Record ukey (Sig : Type) := { k_body : ubody; k_sig : option Sig }.
Arguments k_body {Sig} _.
Arguments k_sig {Sig} _.
Arguments Build_ukey {Sig} _ _.

(* Signing key (None when the MSK has no signing key), set of known user ids, and (ghost) the history of the
   bodies this master key has signed. *)
Record mstate (K : Type) := { m_skey : option K; m_users : list (list bytes); m_issued : list ubody }.
Arguments m_skey {K} _.
Arguments m_users {K} _.
Arguments m_issued {K} _.
Arguments Build_mstate {K} _ _ _.

Definition id_eqb : list bytes -> list bytes -> bool := list_eqb bytes_eqb.

Section MacDefs.
  Context {K Sig : Type}.
  Variable mac : K -> bytes -> Sig.
  Variable sig_eqb : Sig -> Sig -> bool.

  (* `sign`: Ok(None) when there is no signing key. *)
  Definition sign (skey : option K) (b : ubody) : option Sig :=
    match skey with Some k => Some (mac k (mac_stream b)) | None => None end.

  (* `verify`: fresh_signature != usk.signature  ->  Err. *)
  Definition verify (skey : option K) (u : ukey Sig) : bool :=
    option_eqb sig_eqb (sign skey (k_body u)) (k_sig u).

  (* TracingSecretKey::is_known *)
  Definition id_known (msk : mstate K) (id : list bytes) : bool := existsb (id_eqb id) (m_users msk).

  Definition refresh_accepts (msk : mstate K) (u : ukey Sig) : bool :=
    verify (m_skey msk) u && id_known msk (b_id (k_body u)).

  (* generate_user_id + sign at key generation: the id becomes known, the body enters the history. *)
  Definition issue (msk : mstate K) (b : ubody) : mstate K * ukey Sig :=
    ({| m_skey := m_skey msk; m_users := b_id b :: m_users msk; m_issued := b :: m_issued msk |},
     {| k_body := b; k_sig := sign (m_skey msk) b |}).

  (* What `refresh` computes once both checks passed (refresh_id's new user set, and the new id and chains) is
     modelled in Keys.v; here it is an arbitrary function of the master state and of the presented body. *)
  Variable rebuild : mstate K -> ubody -> list (list bytes) * ubody.

  (* `refresh`, in the order of the Rust code: verify, then refresh_id, and only then any write. *)
  Definition refresh (msk : mstate K) (u : ukey Sig) : bool * mstate K * ukey Sig :=
    if negb (verify (m_skey msk) u) then (false, msk, u)
    else if negb (id_known msk (b_id (k_body u))) then (false, msk, u)
    else let '(users', body') := rebuild msk (k_body u) in
         (true,
          {| m_skey := m_skey msk; m_users := users'; m_issued := body' :: m_issued msk |},
          {| k_body := body'; k_sig := sign (m_skey msk) body' |}).
End MacDefs.

(* ---------- a concrete (transparent) MAC, for inhabitation of the idealisation and for tests ---------- *)
Definition pair_mac (k : N) (m : bytes) : N * bytes := (k, m).
Definition pair_sig_eqb (s s' : N * bytes) : bool := N.eqb (fst s) (fst s') && bytes_eqb (snd s) (snd s').
