(* C13, part 4: the writers produce exactly the announced number of bytes (`length()`) *)
From Coq Require Import List NArith Bool Arith Lia.
Require Import Policy Structure Leb Wire WireSer WireRoundTrip1 WireRoundTrip2 WireRoundTrip3.
Import ListNotations.
Local Open Scope nat_scope.

(* ---------- generic ---------- *)
Lemma length_leb128_fuel f n : length (leb128_fuel f n) = leb_len_fuel f n.
Proof.
  revert n. induction f as [|f IH]; intros n; cbn [leb128_fuel leb_len_fuel]; [reflexivity|].
  destruct (n <? 128)%N; [reflexivity|]. cbn [length]. rewrite IH. reflexivity.
Qed.
Lemma length_w_leb n : length (w_leb n) = leb_len n.
Proof. apply length_leb128_fuel. Qed.
Lemma length_w_flag b : length (w_flag b) = 1.
Proof. destruct b; reflexivity. Qed.
Lemma length_w_vec b : length (w_vec b) = len_vec b.
Proof. unfold w_vec, len_vec. rewrite app_length, length_w_leb. reflexivity. Qed.
Lemma length_flat_map {A} (g : A -> bytes) (len : A -> nat) l :
  Forall (fun x => length (g x) = len x) l -> length (flat_map g l) = sum_len len l.
Proof.
  induction 1 as [|x l Hx Hl IH]; [reflexivity|]. cbn [flat_map sum_len fold_right]. rewrite app_length, Hx.
  unfold sum_len in IH. rewrite IH. reflexivity.
Qed.
Theorem length_w_list {A} (g : A -> bytes) (len : A -> nat) l :
  Forall (fun x => length (g x) = len x) l -> length (w_list g l) = leb_len (nlen l) + sum_len len l.
Proof. intros H. unfold w_list. rewrite app_length, length_w_leb, (length_flat_map g len l H). reflexivity. Qed.
Lemma length_w_blobs n l : Forall (blob n) l -> length (w_list (fun p => p) l) = leb_len (nlen l) + sum_len (fun _ => n) l.
Proof. intros H. apply length_w_list. eapply Forall_impl; [|exact H]. intros b [Hb _]. exact Hb. Qed.

Lemma sum_len_const_map {A B} (h : A -> B) n (l : list A) : sum_len (fun _ => n) (map h l) = sum_len (fun _ => n) l.
Proof. induction l as [|a l IH]; [reflexivity|]. cbn [map sum_len fold_right]. unfold sum_len in IH. rewrite IH. reflexivity. Qed.

(* to_leb128_len on a few boundary values *)
Example leb_len_values : leb_len 0 = 1 /\ leb_len 127 = 1 /\ leb_len 128 = 2 /\ leb_len 16383 = 2 /\ leb_len 16384 = 3
                         /\ leb_len (2 ^ 63) = 10 /\ leb_len (2 ^ 64 - 1) = 10.
Proof. vm_compute. repeat split; reflexivity. Qed.

(* ---------- access structure ---------- *)
Theorem len_attr_ok a : length (wr_attr a) = len_attr a.
Proof. unfold wr_attr, len_attr. rewrite !app_length, length_w_leb, !length_w_flag. lia. Qed.
Lemma len_named_attr_ok na : length (wr_named_attr na) = len_named_attr na.
Proof. unfold wr_named_attr, len_named_attr. rewrite app_length, length_w_vec, len_attr_ok. unfold len_vec. lia. Qed.
Theorem len_dim_ok d : length (wr_dim d) = len_dim d.
Proof.
  unfold wr_dim, len_dim. rewrite app_length, length_w_flag.
  rewrite (length_w_list wr_named_attr len_named_attr); [reflexivity|].
  apply Forall_forall. intros na _. apply len_named_attr_ok.
Qed.
Lemma len_named_dim_ok nd : length (wr_named_dim nd) = len_named_dim nd.
Proof. unfold wr_named_dim, len_named_dim. rewrite app_length, length_w_vec, len_dim_ok. unfold len_vec. lia. Qed.
Theorem len_structure_ok s : wf_structure s -> length (wr_structure s) = len_structure s.
Proof.
  intros (Hv & _ & _). unfold wr_structure, len_structure. rewrite !app_length, length_w_leb.
  rewrite (length_w_list wr_named_dim len_named_dim) by (apply Forall_forall; intros nd _; apply len_named_dim_ok).
  destruct (ws_next s) as [nx|].
  - destruct Hv as [-> _]. rewrite length_w_leb. change (leb_len 1) with 1. lia.
  - rewrite Hv. change (leb_len 0) with 1. cbn [length]. lia.
Qed.

Section Sized4.
  Variable sz : sizes.

  Theorem len_rsk_ok k : wf_rsk sz k -> length (wr_rsk k) = len_rsk sz k.
  Proof.
    intros [[Hs _] Hd]. unfold wr_rsk, len_rsk. destruct (wk_hyb k).
    - destruct Hd as [Hd _]. rewrite !app_length, Hs, Hd. reflexivity.
    - rewrite !app_length, Hs. reflexivity.
  Qed.
  Theorem len_rpk_ok k : wf_rpk sz k -> length (wr_rpk k) = len_rpk sz k.
  Proof.
    intros [[Hs _] Hd]. unfold wr_rpk, len_rpk. destruct (wp_hyb k).
    - destruct Hd as [Hd _]. rewrite !app_length, Hs, Hd. reflexivity.
    - rewrite !app_length, Hs. reflexivity.
  Qed.
  Theorem len_userid_ok id : wf_userid sz id -> length (wr_userid id) = len_userid sz id.
  Proof. intros (_ & _ & Hb). unfold wr_userid, len_userid. apply length_w_blobs. exact Hb. Qed.

  Lemma len_msk_chain_ok rc : wf_msk_chain sz rc -> length (wr_msk_chain rc) = len_msk_chain sz rc.
  Proof.
    intros (_ & _ & Hk). unfold wr_msk_chain, len_msk_chain. rewrite app_length, length_w_vec.
    rewrite (length_w_list wr_msk_key (fun ak => 1 + len_rsk sz (snd ak))); [lia|].
    eapply Forall_impl; [|exact Hk]. intros ak Hak. unfold wr_msk_key. rewrite app_length, length_w_flag, len_rsk_ok by exact Hak. reflexivity.
  Qed.
  Theorem len_msk_ok m : wf_msk sz m -> length (wr_msk m) = len_msk sz m.
  Proof.
    intros (_ & [Hs _] & _ & Ht & _ & Hu & _ & Hsec & Hsig & Hst).
    unfold wr_msk, len_msk, len_tsk. rewrite !app_length, Hs.
    rewrite (length_w_list wr_tracer (fun _ => scalar_len sz + point_len sz)).
    2:{ eapply Forall_impl; [|exact Ht]. intros t [[H1 _] [H2 _]]. unfold wr_tracer. rewrite app_length. lia. }
    rewrite (length_w_list wr_userid (len_userid sz)).
    2:{ eapply Forall_impl; [|exact Hu]. intros id Hid. apply len_userid_ok. exact Hid. }
    rewrite (length_w_list wr_msk_chain (len_msk_chain sz)).
    2:{ eapply Forall_impl; [|exact Hsec]. intros rc Hrc. apply len_msk_chain_ok. exact Hrc. }
    rewrite len_structure_ok by exact Hst.
    destruct (wm_sign m) as [k|]; cbn [opt_bytes length]; lia.
  Qed.

  Theorem len_mpk_ok m : wf_mpk sz m -> length (wr_mpk m) = len_mpk sz m.
  Proof.
    intros (_ & _ & Ht & _ & Hk & Hst). unfold wr_mpk, len_mpk. rewrite !app_length.
    rewrite (length_w_blobs (point_len sz)) by exact Ht.
    rewrite (length_w_list wr_mpk_key (fun rk => len_vec (fst rk) + len_rpk sz (snd rk))).
    2:{ eapply Forall_impl; [|exact Hk]. intros rk [_ Hrk]. unfold wr_mpk_key. rewrite app_length, length_w_vec, len_rpk_ok by exact Hrk. reflexivity. }
    rewrite len_structure_ok by exact Hst. lia.
  Qed.

  Lemma len_usk_chain_ok rc : wf_usk_chain sz rc -> length (wr_usk_chain rc) = len_usk_chain sz rc.
  Proof.
    intros (_ & _ & _ & Hk). unfold wr_usk_chain, len_usk_chain. rewrite app_length, length_w_vec.
    rewrite (length_w_list wr_rsk (len_rsk sz)); [lia|].
    eapply Forall_impl; [|exact Hk]. intros k Hwk. apply len_rsk_ok. exact Hwk.
  Qed.
  Theorem len_usk_ok u : wf_usk sz u -> length (wr_usk u) = len_usk sz u.
  Proof.
    intros (Hid & _ & Hps & _ & Hch & Hsig). unfold wr_usk, len_usk. rewrite !app_length.
    rewrite len_userid_ok by exact Hid.
    rewrite (length_w_blobs (point_len sz)) by exact Hps.
    rewrite (length_w_list wr_usk_chain (len_usk_chain sz)).
    2:{ eapply Forall_impl; [|exact Hch]. intros rc Hrc. apply len_usk_chain_ok. exact Hrc. }
    destruct (wu_sig u) as [s|]; cbn [opt_bytes length]; lia.
  Qed.

  Theorem len_xenc_ok x : wf_xenc sz x -> length (wr_xenc x) = len_xenc sz x.
  Proof.
    intros (_ & [Htag _] & _ & Hc & _ & He). unfold wr_xenc, len_xenc. rewrite !app_length, Htag.
    rewrite (length_w_blobs (point_len sz)) by exact Hc.
    destruct (wx_hyb x).
    - rewrite app_length. change (length (w_leb 1)) with 1.
      rewrite (length_w_list wr_hentry (fun _ => ct_len sz + 32)); [lia|].
      eapply Forall_impl; [|exact He]. intros ef [[H1 _] [H2 _]]. unfold wr_hentry. rewrite app_length. lia.
    - rewrite app_length. change (length (w_leb 0)) with 1.
      rewrite (length_w_blobs 32).
      + unfold nlen. rewrite map_length.
        rewrite sum_len_const_map. lia.
      + apply Forall_forall. intros f Hin. apply in_map_iff in Hin. destruct Hin as (ef & <- & Hin).
        rewrite Forall_forall in He. apply (He ef Hin).
  Qed.

  (* holds for every metadata value, including Some [] (1 byte, like None) *)
  Theorem len_header_ok h : wf_xenc sz (wh_enc h) -> length (wr_header h) = len_header sz h.
  Proof.
    intros Hx. unfold wr_header, len_header. rewrite app_length, len_xenc_ok by exact Hx. rewrite length_w_vec. unfold len_vec.
    destruct (wh_meta h) as [m|]; cbn [opt_bytes]; [reflexivity|]. reflexivity.
  Qed.
  Corollary len_header_ok' h : wf_header sz h -> length (wr_header h) = len_header sz h.
  Proof. intros [Hx _]. apply len_header_ok. exact Hx. Qed.
End Sized4.

Theorem len_cleartext_ok c : wf_cleartext c -> length (wr_cleartext c) = len_cleartext c.
Proof.
  intros [[Hs _] _]. unfold wr_cleartext, len_cleartext. rewrite app_length, Hs, length_w_vec. unfold len_vec. lia.
Qed.

(* ---------- Serializable::serialize / deserialize as a whole: length and value ---------- *)
Theorem c13_structure s : wf_structure s ->
  length (wr_structure s) = len_structure s /\ whole (r_structure (wr_structure s)) = Some s.
Proof. intros H. split; [apply len_structure_ok; exact H|]. rewrite <- (app_nil_r (wr_structure s)), rt_structure by exact H. reflexivity. Qed.
Theorem c13_mpk sz m : wf_mpk sz m -> length (wr_mpk m) = len_mpk sz m /\ whole (r_mpk sz (wr_mpk m)) = Some m.
Proof. intros H. split; [apply len_mpk_ok; exact H|]. rewrite <- (app_nil_r (wr_mpk m)), rt_mpk by exact H. reflexivity. Qed.
Theorem c13_msk sz m : wf_msk sz m -> (wm_sign m = None -> length (wr_structure (wm_st m)) < 16) ->
  length (wr_msk m) = len_msk sz m /\ whole (r_msk sz (wr_msk m)) = Some m.
Proof. intros H Hs. split; [apply len_msk_ok; exact H|apply rt_msk_whole; assumption]. Qed.
Theorem c13_usk sz u : wf_usk sz u -> length (wr_usk u) = len_usk sz u /\ whole (r_usk sz (wr_usk u)) = Some u.
Proof. intros H. split; [apply len_usk_ok; exact H|apply rt_usk_whole; exact H]. Qed.
Theorem c13_xenc sz x : wf_xenc sz x -> length (wr_xenc x) = len_xenc sz x /\ whole (r_xenc sz (wr_xenc x)) = Some x.
Proof. intros H. split; [apply len_xenc_ok; exact H|]. rewrite <- (app_nil_r (wr_xenc x)), rt_xenc by exact H. reflexivity. Qed.
Theorem c13_header sz h : wf_header sz h -> length (wr_header h) = len_header sz h /\ whole (r_header sz (wr_header h)) = Some h.
Proof. intros H. split; [apply len_header_ok'; exact H|]. rewrite <- (app_nil_r (wr_header h)), rt_header by exact H. reflexivity. Qed.
Theorem c13_cleartext c : wf_cleartext c -> length (wr_cleartext c) = len_cleartext c /\ whole (r_cleartext (wr_cleartext c)) = Some c.
Proof. intros H. split; [apply len_cleartext_ok; exact H|]. rewrite <- (app_nil_r (wr_cleartext c)), rt_cleartext by exact H. reflexivity. Qed.

(* ---------- examples (hypotheses are those of ex_*_wf in parts 1-3) ---------- *)
Example ex_lengths :
  length (wr_structure ex_structure) = len_structure ex_structure
  /\ length (wr_msk (ex_msk (Some ex_key16) ex_structure)) = len_msk ex_sizes (ex_msk (Some ex_key16) ex_structure)
  /\ length (wr_mpk ex_mpk) = len_mpk ex_sizes ex_mpk
  /\ length (wr_usk (ex_usk (Some ex_sig))) = len_usk ex_sizes (ex_usk (Some ex_sig))
  /\ length (wr_usk (ex_usk None)) = len_usk ex_sizes (ex_usk None)
  /\ length (wr_xenc ex_xenc_h) = len_xenc ex_sizes ex_xenc_h
  /\ length (wr_xenc ex_xenc_c) = len_xenc ex_sizes ex_xenc_c
  /\ length (wr_header ex_header) = len_header ex_sizes ex_header
  /\ length (wr_cleartext ex_cleartext) = len_cleartext ex_cleartext.
Proof. vm_compute. repeat split; reflexivity. Qed.

Print Assumptions len_attr_ok.
Print Assumptions len_dim_ok.
Print Assumptions len_structure_ok.
Print Assumptions len_rsk_ok.
Print Assumptions len_rpk_ok.
Print Assumptions len_userid_ok.
Print Assumptions len_msk_ok.
Print Assumptions len_mpk_ok.
Print Assumptions len_usk_ok.
Print Assumptions len_xenc_ok.
Print Assumptions len_header_ok.
Print Assumptions len_cleartext_ok.
Print Assumptions c13_structure.
Print Assumptions c13_msk.
Print Assumptions c13_mpk.
Print Assumptions c13_usk.
Print Assumptions c13_xenc.
Print Assumptions c13_header.
Print Assumptions c13_cleartext.
