(* Prototype (round 0, scratch): model of src/abe_policy/access_policy.rs + attribute.rs *)
From Coq Require Import List NArith Bool Arith Lia.
Import ListNotations.

Definition str := list N.   (* Unicode scalar values *)

Inductive outcome (A : Type) := Ok (a : A) | Err | Panic | Hang.
Arguments Ok {A}. Arguments Err {A}. Arguments Panic {A}. Arguments Hang {A}.

Definition utf8_len (c : N) : nat :=
  if (c <? 128)%N then 1 else if (c <? 2048)%N then 2 else if (c <? 65536)%N then 3 else 4.

Fixpoint blen (s : str) : nat := match s with [] => 0 | c :: t => utf8_len c + blen t end.

(* &s[k..] with Rust's panic on a non-boundary or out-of-range index *)
Fixpoint slice_from (s : str) (k : nat) : outcome str :=
  match s with
  | [] => if Nat.eqb k 0 then Ok [] else Panic
  | c :: t => if Nat.eqb k 0 then Ok s
              else if Nat.leb (utf8_len c) k then slice_from t (k - utf8_len c) else Panic
  end.

(* &s[..k] *)
Fixpoint slice_to (s : str) (k : nat) : outcome str :=
  match s with
  | [] => if Nat.eqb k 0 then Ok [] else Panic
  | c :: t => if Nat.eqb k 0 then Ok []
              else if Nat.leb (utf8_len c) k then
                     match slice_to t (k - utf8_len c) with Ok r => Ok (c :: r) | o => o end
                   else Panic
  end.

Definition slice (s : str) (a b : nat) : outcome str :=
  match slice_from s a with Ok r => slice_to r (b - a) | o => o end.

(* char::is_whitespace *)
Definition is_ws (c : N) : bool :=
  ((9 <=? c) && (c <=? 13) || (c =? 32) || (c =? 133) || (c =? 160) || (c =? 5760)
   || ((8192 <=? c) && (c <=? 8202)) || (c =? 8232) || (c =? 8233) || (c =? 8239)
   || (c =? 8287) || (c =? 12288))%N.

Fixpoint drop_ws (s : str) : str := match s with c :: t => if is_ws c then drop_ws t else s | [] => [] end.
Definition trim (s : str) : str := rev (drop_ws (rev (drop_ws s))).

Fixpoint str_eqb (a b : str) : bool :=
  match a, b with [], [] => true | x :: a', y :: b' => (x =? y)%N && str_eqb a' b' | _, _ => false end.

Record qattr := { qdim : str; qname : str }.
Inductive policy := Broadcast | Term (a : qattr) | Conj (l r : policy) | Disj (l r : policy).

Definition is_broadcast (p : policy) : bool := match p with Broadcast => true | _ => false end.
Definition pand (a b : policy) : policy := if is_broadcast a then b else if is_broadcast b then a else Conj a b.
Definition por  (a b : policy) : policy := if is_broadcast a then a else if is_broadcast b then b else Disj a b.
Definition conjugate (first : policy) (rest : list policy) : policy := fold_left pand rest first.

(* split_once("::") *)
Definition starts_colon (t : str) : bool := match t with c :: _ => (c =? 58)%N | [] => false end.
Fixpoint split_once (s : str) : option (str * str) :=
  match s with
  | [] => None
  | c :: t => if (c =? 58)%N && starts_colon t then Some ([], tl t)
              else match split_once t with Some (a, b) => Some (c :: a, b) | None => None end
  end.
Definition contains_sep (s : str) : bool := match split_once s with Some _ => true | None => false end.

Definition qattr_of_str (s : str) : outcome qattr :=
  match split_once s with
  | None => Err
  | Some (d, c) =>
      if contains_sep c then Err
      else match d, c with
           | [], _ => Err | _, [] => Err
           | _, _ => Ok {| qdim := trim d; qname := trim c |}
           end
  end.

Definition is_meta (c : N) : bool := ((c =? 40) || (c =? 41) || (c =? 124) || (c =? 38))%N.
Fixpoint take_attr (s : str) : str := match s with c :: t => if is_meta c then [] else c :: take_attr t | [] => [] end.

(* find_matching_closing_parenthesis: returns (char index, byte index) of the first unbalanced ')' *)
Fixpoint find_close (s : str) (depth ci bi : nat) : option (nat * nat) :=
  match s with
  | [] => None
  | c :: t =>
      if (c =? 40)%N then find_close t (S depth) (S ci) (bi + utf8_len c)
      else if (c =? 41)%N then
             match depth with O => Some (ci, bi) | S d => find_close t d (S ci) (bi + utf8_len c) end
           else find_close t depth (S ci) (bi + utf8_len c)
  end.

Section Parse.
  Variable fixed : bool.   (* false = pinned tree (8f3c295), true = with the planned repair F1 *)

  Fixpoint parse_fuel (fuel : nat) (e : str) (q : list policy) : outcome policy :=
    match fuel with
    | O => Hang
    | S f =>
      let e := trim e in
      match e with
      | [] => match q with [] => Err | first :: rest => Ok (conjugate first rest) end
      | c0 :: e1 =>
        if str_eqb e [42%N] then Ok (conjugate Broadcast q)
        else if negb fixed && negb (Nat.eqb (utf8_len c0) 1) then Panic          (* &e[..1] *)
        else if (c0 =? 40)%N then
          match find_close e1 0 0 0 with
          | None => Err
          | Some (ci, bi) =>
              let off := if fixed then bi else ci in
              match slice e 1 (1 + off) with
              | Ok inner =>
                  match parse_fuel f inner [] with
                  | Ok p => match slice_from e (2 + off) with
                            | Ok e' => parse_fuel f e' (q ++ [p])
                            | Err => Err | Panic => Panic | Hang => Hang
                            end
                  | Err => Err | Panic => Panic | Hang => Hang
                  end
              | Err => Err | Panic => Panic | Hang => Hang
              end
          end
        else if (c0 =? 124)%N then
          match e1 with
          | [] => Err
          | c1 :: e2 =>
              if negb fixed && negb (Nat.eqb (utf8_len c1) 1) then Panic             (* &e[1..2] *)
              else if negb (c1 =? 124)%N then Err
              else match q with
                   | [] => Err
                   | base :: rest =>
                       match parse_fuel f e2 [] with
                       | Ok r => Ok (por (conjugate base rest) r)
                       | Err => Err | Panic => Panic | Hang => Hang
                       end
                   end
          end
        else if (c0 =? 38)%N then
          match e1 with
          | [] => Err
          | c1 :: e2 =>
              if negb fixed && negb (Nat.eqb (utf8_len c1) 1) then Panic
              else if negb (c1 =? 38)%N then Err
              else match q with [] => Err | _ => parse_fuel f e2 q end
          end
        else if (c0 =? 41)%N then Err
        else
          let attr := take_attr e in
          match qattr_of_str attr with
          | Ok a => parse_fuel f (skipn (length attr) e) (q ++ [Term a])
          | Err => Err | Panic => Panic | Hang => Hang
          end
      end
    end.

  Definition parse (s : str) : outcome policy := parse_fuel (S (length s)) s [].
End Parse.

Fixpoint to_dnf (p : policy) : list (list qattr) :=
  match p with
  | Term a => [[a]]
  | Conj l r => flat_map (fun vl => map (fun vr => vl ++ vr) (to_dnf r)) (to_dnf l)
  | Disj l r => to_dnf l ++ to_dnf r
  | Broadcast => [[]]
  end.

Definition parse_dnf (fixed : bool) (s : str) : outcome (list (list qattr)) :=
  match parse fixed s with Ok p => Ok (to_dnf p) | Err => Err | Panic => Panic | Hang => Hang end.

(* sanity *)
Definition ascii_A := 65%N.
Example ex1 : parse_dnf false [68;49;58;58;65]%N = Ok [[ {| qdim := [68;49]%N; qname := [65]%N |} ]].
Proof. vm_compute. reflexivity. Qed.
Example ex_panic : parse false [233;58;58;97]%N = Panic.   (* "é::a" *)
Proof. vm_compute. reflexivity. Qed.
Example ex_fixed : exists p, parse true [233;58;58;97]%N = Ok p.
Proof. eexists. vm_compute. reflexivity. Qed.
