(* MacStreamProofs.v : property C08 at the level of the MAC input stream.

   C08: "Refreshing succeeds only for a user key whose identifier, rights and secrets, in their exact
   arrangement, are those of a key this master key issued. [...]"

   Result: C08 holds MODULO the known finding F11 (the MAC input is unframed).  Precisely
     - C08_modulo_known      : a presented body that is neither issued nor a re-framing of an issued body is rejected;
     - mac_stream_inj_on_framed : a re-framing necessarily changes the framing (number of markers, length of a
                               right name, number or flavour of the secrets of a chain);
     - C08_known_witness / C08_known_accepted : re-framings exist and ARE accepted (the property as stated is
                               false on the shipped MAC format; F11 stays a documented known finding). *)
From Coq Require Import List Arith NArith Bool Lia.
From CC Require Import MacStream.
From CC Require Export MacStreamLemmas.
Import ListNotations.

(* ================= the ideal MAC ================= *)
Section Mac.
  Context {K Sig : Type}.
  Variable mac : K -> bytes -> Sig.
  Variable sig_eqb : Sig -> Sig -> bool.
  (* injective = unforgeable + collision-free idealisation of KMAC256 *)
  Hypothesis mac_inj : forall k k' m m', mac k m = mac k' m' -> k = k' /\ m = m'.
  Hypothesis sig_eqb_spec : forall s s', sig_eqb s s' = true <-> s = s'.

  Local Notation sign := (sign mac).
  Local Notation verify := (verify mac sig_eqb).
  Local Notation refresh_accepts := (refresh_accepts mac sig_eqb).

  Lemma verify_spec : forall skey u, verify skey u = true <-> sign skey (k_body u) = k_sig u.
  Proof. intros skey u; unfold MacStream.verify. apply option_eqb_spec, sig_eqb_spec. Qed.

  (* the specification given in the task: with a key the signature must be the fresh one, without a key it
     must be absent *)
  Lemma verify_cases : forall skey u, verify skey u = true <->
    match skey with Some k => k_sig u = Some (mac k (mac_stream (k_body u))) | None => k_sig u = None end.
  Proof.
    intros [k|] u; rewrite verify_spec; cbn [MacStream.sign]; split; intros E; symmetry; exact E.
  Qed.

  (* 1. *)
  Theorem verify_accepts_iff : forall k u,
    verify (Some k) u = true <-> exists stream, k_sig u = Some (mac k stream) /\ stream = mac_stream (k_body u).
  Proof.
    intros k u; rewrite verify_cases. split.
    - intros E; exists (mac_stream (k_body u)); split; [exact E | reflexivity].
    - intros [st [E1 E2]]; subst st; exact E1.
  Qed.

  (* Unforgeability, as a hypothesis on what circulates: every signature the adversary can present under key k
     was produced by `sign` on an issued body. *)
  Definition circ (k : K) (issued : list ubody) (u : ukey Sig) : Prop :=
    forall s, k_sig u = Some s -> exists b, In b issued /\ s = mac k (mac_stream b).

  Theorem verify_accepts_issued_stream : forall k issued u, circ k issued u ->
    verify (Some k) u = true -> exists b, In b issued /\ mac_stream (k_body u) = mac_stream b.
  Proof.
    intros k issued u HC HV. apply verify_cases in HV. destruct (HC _ HV) as [b [Hb E]].
    exists b; split; [exact Hb|]. exact (proj2 (mac_inj _ _ _ _ E)).
  Qed.

  (* 3. C08 modulo the known finding *)
  Theorem C08_modulo_known : forall k issued u, circ k issued u ->
    (forall b, In b issued -> ~ Reframing b (k_body u)) -> ~ In (k_body u) issued -> verify (Some k) u = false.
  Proof.
    intros k issued u HC HR HN. destruct (verify (Some k) u) eqn:HV; [|reflexivity]. exfalso.
    destruct (verify_accepts_issued_stream k issued u HC HV) as [b [Hb E]].
    destruct (ubody_eqb b (k_body u)) eqn:Eb.
    - apply ubody_eqb_spec in Eb. subst b. exact (HN Hb).
    - apply (HR b Hb). split; [|symmetry; exact E]. intros Hbb. apply ubody_eqb_spec in Hbb. congruence.
  Qed.

  (* the same with the framing made explicit: an accepted, not issued body has the stream of an issued body
     whose framing it does not share *)
  Theorem C08_accepted_is_issued_or_reframed : forall sk_len dk_len k issued u, circ k issued u ->
    (forall b, In b issued -> wf sk_len dk_len b) -> wf sk_len dk_len (k_body u) ->
    verify (Some k) u = true ->
    In (k_body u) issued \/
    exists b, In b issued /\ Reframing b (k_body u) /\ framing b <> framing (k_body u).
  Proof.
    intros sk_len dk_len k issued u HC HW HWu HV.
    destruct (verify_accepts_issued_stream k issued u HC HV) as [b [Hb E]].
    destruct (ubody_eqb b (k_body u)) eqn:Eb.
    - apply ubody_eqb_spec in Eb. subst b. left; exact Hb.
    - right. exists b. assert (R : Reframing b (k_body u)).
      { split; [|symmetry; exact E]. intros Hbb. apply ubody_eqb_spec in Hbb. congruence. }
      split; [exact Hb|]. split; [exact R|]. apply (reframing_changes_framing sk_len dk_len); auto.
  Qed.

  Corollary C08_same_framing : forall sk_len dk_len k issued u, circ k issued u ->
    (forall b, In b issued -> wf sk_len dk_len b) -> wf sk_len dk_len (k_body u) ->
    (forall b, In b issued -> framing b = framing (k_body u)) ->
    ~ In (k_body u) issued -> verify (Some k) u = false.
  Proof.
    intros sk_len dk_len k issued u HC HW HWu HF HN. destruct (verify (Some k) u) eqn:HV; [|reflexivity]. exfalso.
    destruct (C08_accepted_is_issued_or_reframed sk_len dk_len k issued u HC HW HWu HV) as [H | [b [Hb [_ NF]]]].
    - exact (HN H).
    - exact (NF (HF b Hb)).
  Qed.

  (* and the converse (the finding itself): the original signature on a re-framed body IS accepted *)
  Theorem C08_known_accepted : forall k b b', Reframing b b' ->
    verify (Some k) {| k_body := b'; k_sig := Some (mac k (mac_stream b)) |} = true.
  Proof. intros k b b' [_ E]. apply verify_cases; cbn [k_body k_sig]. rewrite E; reflexivity. Qed.

  (* (a) stripped signature *)
  Lemma stripped_signature_rejected : forall k u, k_sig u = None -> verify (Some k) u = false.
  Proof.
    intros k u E. destruct (verify (Some k) u) eqn:HV; [|reflexivity].
    apply verify_cases in HV. congruence.
  Qed.

  (* (b) altered signature: on an issued body, a signature that is none of the issued ones *)
  Lemma altered_signature_rejected : forall k issued u s, In (k_body u) issued -> k_sig u = Some s ->
    (forall b, In b issued -> s <> mac k (mac_stream b)) -> verify (Some k) u = false.
  Proof.
    intros k issued u s Hb Es HN. destruct (verify (Some k) u) eqn:HV; [|reflexivity].
    apply verify_cases in HV. rewrite Es in HV. injection HV as HV. exfalso; exact (HN _ Hb HV).
  Qed.
  (* (b') more simply: any signature other than the fresh one *)
  Lemma wrong_signature_rejected : forall k u s, k_sig u = Some s -> s <> mac k (mac_stream (k_body u)) ->
    verify (Some k) u = false.
  Proof.
    intros k u s Es HN. destruct (verify (Some k) u) eqn:HV; [|reflexivity].
    apply verify_cases in HV. rewrite Es in HV. injection HV as HV. contradiction.
  Qed.
  (* (b'') the signature of another issued key transplanted: accepted only for that body or a re-framing of it *)
  Lemma transplanted_signature : forall k b u, k_sig u = Some (mac k (mac_stream b)) ->
    verify (Some k) u = true -> k_body u = b \/ Reframing b (k_body u).
  Proof.
    intros k b u Es HV. apply verify_cases in HV. rewrite Es in HV. injection HV as HV.
    apply mac_inj in HV. destruct HV as [_ HV].
    destruct (ubody_eqb b (k_body u)) eqn:Eb.
    - left; symmetry; apply ubody_eqb_spec; exact Eb.
    - right; split; [|exact HV]. intros Hbb; apply ubody_eqb_spec in Hbb; congruence.
  Qed.

  (* (c) a key signed by another master key *)
  Lemma other_master_key_rejected : forall k k' u m, k' <> k -> k_sig u = Some (mac k' m) -> verify (Some k) u = false.
  Proof.
    intros k k' u m N Es. destruct (verify (Some k) u) eqn:HV; [|reflexivity].
    apply verify_cases in HV. rewrite Es in HV. injection HV as HV. apply mac_inj in HV. destruct HV as [HV _]. contradiction.
  Qed.
  (* a key of a master key without signing key presented to one with a signing key, and conversely *)
  Lemma unsigned_master_rejects_signed : forall u s, k_sig u = Some s -> verify None u = false.
  Proof.
    intros u s Es. destruct (verify None u) eqn:HV; [|reflexivity]. apply verify_cases in HV. congruence.
  Qed.

  (* (d) the original signature of b kept, the body replaced by one of the same framing: rejected *)
  Lemma same_framing_tamper_rejected : forall sk_len dk_len k b u,
    wf sk_len dk_len b -> wf sk_len dk_len (k_body u) -> framing b = framing (k_body u) -> k_body u <> b ->
    k_sig u = Some (mac k (mac_stream b)) -> verify (Some k) u = false.
  Proof.
    intros sk_len dk_len k b u W Wu HF N Es. destruct (verify (Some k) u) eqn:HV; [|reflexivity]. exfalso.
    destruct (transplanted_signature k b u Es HV) as [E | R]; [contradiction|].
    exact (reframing_changes_framing sk_len dk_len _ _ W Wu R HF).
  Qed.

  (* (e) unknown identifier *)
  Lemma unknown_id_rejected : forall (msk : mstate K) u,
    ~ In (b_id (k_body u)) (m_users msk) -> refresh_accepts msk u = false.
  Proof.
    intros msk u N. unfold MacStream.refresh_accepts. apply andb_false_iff; right.
    unfold id_known. destruct (existsb _ _) eqn:E; [|reflexivity].
    apply existsb_exists in E. destruct E as [i [Hi E]]. apply id_eqb_spec in E. subst i. contradiction.
  Qed.

  Lemma id_known_spec : forall (msk : mstate K) id, id_known msk id = true <-> In id (m_users msk).
  Proof.
    intros msk id; unfold id_known. rewrite existsb_exists. split.
    - intros [i [Hi E]]. apply id_eqb_spec in E. subst; exact Hi.
    - intros H; exists id; split; [exact H | apply id_eqb_spec; reflexivity].
  Qed.

  Lemma refresh_accepts_spec : forall (msk : mstate K) u, refresh_accepts msk u = true <->
    sign (m_skey msk) (k_body u) = k_sig u /\ In (b_id (k_body u)) (m_users msk).
  Proof. intros msk u; unfold MacStream.refresh_accepts. rewrite andb_true_iff, verify_spec, id_known_spec. reflexivity. Qed.

  (* C08 for refresh, modulo the known finding *)
  Theorem C08_refresh_modulo_known : forall (msk : mstate K) k u, m_skey msk = Some k -> circ k (m_issued msk) u ->
    refresh_accepts msk u = true ->
    In (b_id (k_body u)) (m_users msk) /\
    (In (k_body u) (m_issued msk) \/ exists b, In b (m_issued msk) /\ Reframing b (k_body u)).
  Proof.
    intros msk k u Hk HC HA. unfold MacStream.refresh_accepts in HA. apply andb_true_iff in HA. destruct HA as [HV HI].
    split; [apply id_known_spec; exact HI|]. rewrite Hk in HV.
    destruct (existsb (ubody_eqb (k_body u)) (m_issued msk)) eqn:Ex.
    - left. apply existsb_exists in Ex. destruct Ex as [b [Hb E]]. apply ubody_eqb_spec in E. rewrite E; exact Hb.
    - right. destruct (verify_accepts_issued_stream k _ u HC HV) as [b [Hb E]]. exists b; split; [exact Hb|].
      split; [|symmetry; exact E]. intros Hbb. subst b.
      assert (existsb (ubody_eqb (k_body u)) (m_issued msk) = true); [|congruence].
      apply existsb_exists. exists (k_body u); split; [exact Hb | apply ubody_eqb_spec; reflexivity].
  Qed.

  (* the finding at the level of refresh: a re-framing that keeps the id is accepted *)
  Theorem C08_known_refresh_accepted : forall (msk : mstate K) k b b', m_skey msk = Some k ->
    Reframing b b' -> In (b_id b') (m_users msk) ->
    refresh_accepts msk {| k_body := b'; k_sig := Some (mac k (mac_stream b)) |} = true.
  Proof.
    intros msk k b b' Hk R Hi. unfold MacStream.refresh_accepts. rewrite Hk, (C08_known_accepted k b b' R).
    cbn [k_body andb]. apply id_known_spec; exact Hi.
  Qed.

  (* ---------- refresh: nothing is written on rejection ---------- *)
  Variable rebuild : mstate K -> ubody -> list (list bytes) * ubody.
  Local Notation refresh := (refresh mac sig_eqb rebuild).
  Local Notation issue := (issue mac).

  Theorem refresh_rejected_unchanged : forall (msk : mstate K) u,
    refresh_accepts msk u = false -> refresh msk u = (false, msk, u).
  Proof.
    intros msk u HA. unfold MacStream.refresh, MacStream.refresh_accepts in *.
    destruct (MacStream.verify mac sig_eqb (m_skey msk) u); cbn [negb]; [|reflexivity].
    cbn [andb] in HA. rewrite HA. reflexivity.
  Qed.

  Theorem refresh_result : forall (msk : mstate K) u, fst (fst (refresh msk u)) = refresh_accepts msk u.
  Proof.
    intros msk u. unfold MacStream.refresh, MacStream.refresh_accepts.
    destruct (MacStream.verify mac sig_eqb (m_skey msk) u); cbn [negb andb]; [|reflexivity].
    destruct (id_known msk (b_id (k_body u))); cbn [negb]; [|reflexivity].
    destruct (rebuild msk (k_body u)) as [us bd]; reflexivity.
  Qed.

  Corollary refresh_failed_unchanged : forall (msk msk' : mstate K) u u',
    refresh msk u = (false, msk', u') -> msk' = msk /\ u' = u.
  Proof.
    intros msk msk' u u' E. pose proof (refresh_result msk u) as R. rewrite E in R; cbn [fst] in R.
    rewrite (refresh_rejected_unchanged msk u (eq_sym R)) in E. injection E as E1 E2; auto.
  Qed.

  (* ---------- the circulation hypothesis is an invariant of issue / refresh ---------- *)
  Lemma circ_mono : forall k issued b u, circ k issued u -> circ k (b :: issued) u.
  Proof. intros k issued b u HC s Hs. destruct (HC s Hs) as [b0 [Hb0 E]]. exists b0; split; [right; exact Hb0 | exact E]. Qed.

  Theorem issue_circ : forall (msk msk' : mstate K) k b u (pool : list (ukey Sig)), m_skey msk = Some k ->
    (forall v, In v pool -> circ k (m_issued msk) v) -> issue msk b = (msk', u) ->
    m_skey msk' = Some k /\ forall v, In v (u :: pool) -> circ k (m_issued msk') v.
  Proof.
    intros msk msk' k b u pool Hk HP E. unfold MacStream.issue in E. injection E as E1 E2. subst msk' u.
    cbn [m_skey m_issued]. split; [exact Hk|]. intros v [Hv | Hv].
    - subst v. intros s Hs; cbn [k_sig] in Hs. rewrite Hk in Hs; cbn [MacStream.sign] in Hs. injection Hs as Hs.
      exists b; split; [left; reflexivity | symmetry; exact Hs].
    - apply circ_mono, HP, Hv.
  Qed.

  Theorem refresh_circ : forall (msk msk' : mstate K) k u u' r (pool : list (ukey Sig)), m_skey msk = Some k ->
    (forall v, In v (u :: pool) -> circ k (m_issued msk) v) -> refresh msk u = (r, msk', u') ->
    m_skey msk' = Some k /\ forall v, In v (u' :: u :: pool) -> circ k (m_issued msk') v.
  Proof.
    intros msk msk' k u u' r pool Hk HP E. unfold MacStream.refresh in E.
    destruct (negb (MacStream.verify mac sig_eqb (m_skey msk) u)).
    { injection E as _ E2 E3; subst msk' u'. split; [exact Hk|]. intros v [Hv|Hv]; [subst v; apply HP; left; reflexivity | apply HP, Hv]. }
    destruct (negb (id_known msk (b_id (k_body u)))).
    { injection E as _ E2 E3; subst msk' u'. split; [exact Hk|]. intros v [Hv|Hv]; [subst v; apply HP; left; reflexivity | apply HP, Hv]. }
    destruct (rebuild msk (k_body u)) as [us bd]. injection E as _ E2 E3; subst msk' u'.
    cbn [m_skey m_issued]. split; [exact Hk|]. intros v [Hv | Hv].
    - subst v. intros s Hs; cbn [k_sig] in Hs. rewrite Hk in Hs; cbn [MacStream.sign] in Hs. injection Hs as Hs.
      exists bd; split; [left; reflexivity | symmetry; exact Hs].
    - apply circ_mono, HP, Hv.
  Qed.
End Mac.

(* ================= the idealisation is satisfiable ================= *)
Lemma pair_mac_inj : forall k k' m m', pair_mac k m = pair_mac k' m' -> k = k' /\ m = m'.
Proof. intros k k' m m' E; injection E as E1 E2; auto. Qed.

Lemma pair_sig_eqb_spec : forall s s', pair_sig_eqb s s' = true <-> s = s'.
Proof.
  intros [a x] [b y]; unfold pair_sig_eqb; cbn [fst snd]. rewrite andb_true_iff, N.eqb_eq, bytes_eqb_spec. split.
  - intros [E1 E2]; subst; reflexivity.
  - intros E; injection E as E1 E2; auto.
Qed.

Example mac_section_inhabited :
  exists (K Sig : Set) (mac : K -> bytes -> Sig) (sig_eqb : Sig -> Sig -> bool),
    (forall k k' m m', mac k m = mac k' m' -> k = k' /\ m = m') /\
    (forall s s', sig_eqb s s' = true <-> s = s').
Proof. exists N, (N * bytes)%type, pair_mac, pair_sig_eqb. split; [exact pair_mac_inj | exact pair_sig_eqb_spec]. Qed.

(* the main theorems on the concrete instance *)
Definition C08_modulo_known_pair := C08_modulo_known pair_mac pair_sig_eqb pair_mac_inj pair_sig_eqb_spec.
Definition C08_known_accepted_pair := C08_known_accepted pair_mac pair_sig_eqb pair_sig_eqb_spec.

(* ================= examples (sk_len = 2, dk_len = 4) ================= *)
Module Examples.
  Local Open Scope N_scope.
  Definition idx : list bytes := [[10;11]; [12;13]].
  Definition bA : ubody := wit_a idx [0] [1;1] [2;2] [3;3] [4;4].
  Definition bB : ubody := wit_b idx [0] [1;1] [2;2] [3;3] [4;4].
  (* same framing as bA, one byte of one secret changed *)
  Definition bC : ubody := wit_a idx [0] [1;1] [2;9] [3;3] [4;4].
  (* hybridized -> classic with dk absorbed by the next right name *)
  Definition bH : ubody := with_chains idx [([], [hy [1;1] [5;6;7;8]]); ([0], [cl [3;3]])].
  Definition bH' : ubody := with_chains idx [([], [cl [1;1]]); ([5;6;7;8;0], [cl [3;3]])].
  (* hybridized -> three classic secrets *)
  Definition bH'' : ubody := with_chains idx [([], [cl [1;1]; cl [5;6]; cl [7;8]]); ([0], [cl [3;3]])].

  Example stream_bA : mac_stream bA = [10;11;12;13; 1;1;2;2; 0; 3;3;4;4]. Proof. reflexivity. Qed.
  Example wf_bA : wfb 2 4 bA = true. Proof. reflexivity. Qed.
  Example wf_bB : wfb 2 4 bB = true. Proof. reflexivity. Qed.
  Example wf_bH : wfb 2 4 bH && wfb 2 4 bH' && wfb 2 4 bH'' = true. Proof. reflexivity. Qed.
  Example reframing_AB : reframing_of bA bB = true. Proof. reflexivity. Qed.
  Example reframing_HH' : reframing_of bH bH' = true. Proof. reflexivity. Qed.
  Example reframing_HH'' : reframing_of bH bH'' = true. Proof. reflexivity. Qed.
  Example not_reframing_AC : reframing_of bA bC = false. Proof. reflexivity. Qed.
  Example not_reframing_AA : reframing_of bA bA = false. Proof. reflexivity. Qed.
  Example framing_AC : framing bA = framing bC. Proof. reflexivity. Qed.
  Example framing_AB : framing bA <> framing bB. Proof. discriminate. Qed.
  Example size_A : framing_size 2 4 (framing bA) = length (mac_stream bA). Proof. reflexivity. Qed.
  Example mk_body_A :
    mk_body idx [([], [(false, [1;1], []); (false, [2;2], [])]); ([7], []); ([0], [(false, [3;3], []); (false, [4;4], [])])] = bA.
  Proof. reflexivity. Qed.

  (* a master key that issued bA; the user keeps the signature and presents other bodies *)
  Definition rebuild0 (m : mstate N) (b : ubody) : list (list bytes) * ubody := (m_users m, b).
  Definition m0 : mstate N := {| m_skey := Some 42; m_users := []; m_issued := [] |}.
  Definition m1 : mstate N := fst (issue pair_mac m0 bA).
  Definition uA : ukey (N * bytes) := snd (issue pair_mac m0 bA).
  Definition forged (b : ubody) : ukey (N * bytes) := {| k_body := b; k_sig := k_sig uA |}.
  Local Notation acc := (refresh_accepts pair_mac pair_sig_eqb).
  Local Notation rfr := (refresh pair_mac pair_sig_eqb rebuild0).

  Example honest_accepted : acc m1 uA = true. Proof. reflexivity. Qed.
  Example known_finding_accepted : acc m1 (forged bB) = true. Proof. reflexivity. Qed.
  Example byte_change_rejected : acc m1 (forged bC) = false. Proof. reflexivity. Qed.
  Example stripped_rejected : acc m1 {| k_body := bA; k_sig := None |} = false. Proof. reflexivity. Qed.
  Example other_master_rejected : acc m1 {| k_body := bA; k_sig := Some (pair_mac 43 (mac_stream bA)) |} = false.
  Proof. reflexivity. Qed.
  Example unknown_id_rejected_ex : acc {| m_skey := Some 42; m_users := []; m_issued := [bA] |} uA = false.
  Proof. reflexivity. Qed.
  Example rejected_unchanged : rfr m1 (forged bC) = (false, m1, forged bC). Proof. reflexivity. Qed.
  Example accepted_resigned : fst (fst (rfr m1 uA)) = true /\ m_issued (snd (fst (rfr m1 uA))) = [bA; bA].
  Proof. split; reflexivity. Qed.

  (* hypotheses of C08_modulo_known are satisfiable on a non-trivial instance, and its conclusion is computed *)
  Example C08_modulo_known_ex : verify pair_mac pair_sig_eqb (Some 42) (forged bC) = false.
  Proof.
    apply (C08_modulo_known_pair 42 [bA]).
    - intros s Hs. exists bA; split; [left; reflexivity|]. cbn in Hs. injection Hs as Hs. symmetry; exact Hs.
    - intros b [Hb | []]; subst b. intros R. apply reframing_of_spec in R. discriminate R.
    - intros [H | []]. discriminate H.
  Qed.
  Example mac_stream_inj_on_framed_ex : wf 2 4 bA /\ wf 2 4 bC /\ framing bA = framing bC /\ mac_stream bA <> mac_stream bC.
  Proof.
    split; [apply wfb_spec; reflexivity|]. split; [apply wfb_spec; reflexivity|]. split; [reflexivity | discriminate].
  Qed.
End Examples.

Print Assumptions verify_accepts_iff.
Print Assumptions verify_accepts_issued_stream.
Print Assumptions C08_modulo_known.
Print Assumptions C08_accepted_is_issued_or_reframed.
Print Assumptions C08_same_framing.
Print Assumptions C08_known_accepted.
Print Assumptions C08_refresh_modulo_known.
Print Assumptions C08_known_refresh_accepted.
Print Assumptions stripped_signature_rejected.
Print Assumptions altered_signature_rejected.
Print Assumptions other_master_key_rejected.
Print Assumptions same_framing_tamper_rejected.
Print Assumptions unknown_id_rejected.
Print Assumptions refresh_rejected_unchanged.
Print Assumptions refresh_circ.
Print Assumptions issue_circ.
Print Assumptions mac_section_inhabited.
Print Assumptions C08_modulo_known_pair.
