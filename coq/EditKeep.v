(* C03, attribute level: what each structure edit does to the attribute it names, that it leaves every other
   attribute (id, hybridization hint, status) untouched, and that hierarchy edits keep the relative order. *)
From Coq Require Import List NArith Bool Arith Lia Permutation.
Require Import Policy Structure SelProofs GoodProofs AssocLemmas CoverProofs1 CoverProofs2 HierProofs WfProofs EditLemmas EditHistory.
Import ListNotations.

Definition Q (d n : str) : qattr := {| qdim := d; qname := n |}.

Lemma get_replace st d dm dm' nid q : alookup d (dims st) = Some dm ->
  get_attribute {| dims := areplace d dm' (dims st); next_id := nid |} q =
  if str_eqb (qdim q) d then alookup (qname q) (attrs_of dm') else get_attribute st q.
Proof.
  intros Ed. unfold get_attribute. cbn [dims]. rewrite alookup_areplace.
  destruct (str_eqb (qdim q) d); [rewrite Ed; reflexivity|reflexivity].
Qed.
Lemma get_in_dim st d dm q : qdim q = d -> alookup d (dims st) = Some dm -> get_attribute st q = alookup (qname q) (attrs_of dm).
Proof. intros <- Ed. unfold get_attribute. rewrite Ed. reflexivity. Qed.
Lemma keys_app {A} (l1 l2 : list (str * A)) : keys (l1 ++ l2) = keys l1 ++ keys l2.
Proof. unfold keys. apply map_app. Qed.

(* ---- the edited attribute ---- *)
Theorem rename_keeps_id st d n n' st' : wfb st -> rename_attribute d n n' st = Ok st' ->
  exists a, get_attribute st (Q d n) = Some a /\ get_attribute st' (Q d n') = Some a /\
            get_attribute st' (Q d n) = None /\ get_attribute st (Q d n') = None.
Proof.
  intros Hwf H. rewrite rename_attribute_fn in H. destruct (edit_dim_inv _ _ _ _ H) as (dm & dm' & Ed & Ef & ->).
  destruct (rename_fn_spec _ _ _ _ Ef) as (pre & a & post & El & Hn & Hn' & Edm').
  destruct (wfb_dim_facts _ _ _ Hwf Ed) as (Hnd & _ & _). rewrite El, names_mid in Hnd.
  rewrite El, keys_mid in Hn'. fold (keys pre) (keys post) in Hnd.
  assert (Hnpost : ~ In n (keys pre ++ keys post)) by (apply NoDup_remove_2 in Hnd; exact Hnd).
  assert (Hne : n <> n'). { intros <-. apply Hn'. apply in_app_iff. right. left. reflexivity. }
  exists a. rewrite !(get_replace st d dm) by exact Ed. cbn [Q qdim qname]. rewrite str_eqb_refl.
  rewrite !(get_in_dim st d dm) by (reflexivity || exact Ed). cbn [qname]. rewrite El.
  split; [apply alookup_mid_hit; exact Hn|].
  assert (Hn'2 : ~ In n' (keys pre ++ keys post)).
  { intros Hin. apply Hn'. apply in_app_iff in Hin. apply in_app_iff. destruct Hin as [Hin|Hin]; [left; exact Hin|right; right; exact Hin]. }
  split; [|split].
  - destruct dm as [l|l]; subst dm'; cbn [attrs_of].
    + apply alookup_mid_hit. rewrite keys_app. exact Hn'2.
    + apply alookup_mid_hit. intros Hin. apply Hn'2. apply in_app_iff. left. exact Hin.
  - apply alookup_none. destruct dm as [l|l]; subst dm'; cbn [attrs_of].
    + rewrite !keys_app. cbn [keys map fst]. rewrite app_nil_r || idtac. intros Hin. apply in_app_iff in Hin.
      destruct Hin as [Hin|[E|[]]]; [apply Hnpost; exact Hin|apply Hne; symmetry; exact E].
    + rewrite keys_mid. intros Hin. apply in_app_iff in Hin. destruct Hin as [Hin|[E|Hin]].
      * apply Hnpost. apply in_app_iff. left. exact Hin.
      * apply Hne. symmetry. exact E.
      * apply Hnpost. apply in_app_iff. right. exact Hin.
  - apply alookup_none. rewrite keys_mid. exact Hn'.
Qed.
Print Assumptions rename_keeps_id.

Theorem disable_keeps_id_and_hint st d n st' : disable_attribute d n st = Ok st' ->
  exists a, get_attribute st (Q d n) = Some a /\
            get_attribute st' (Q d n) = Some {| a_id := a_id a; a_hyb := a_hyb a; a_enc := false |}.
Proof.
  intros H. rewrite disable_attribute_fn in H. destruct (edit_dim_inv _ _ _ _ H) as (dm & dm' & Ed & Ef & ->).
  destruct (disable_fn_spec _ _ _ Ef) as (pre & a & post & El & Hn & ->).
  exists a. rewrite (get_replace st d dm) by exact Ed. cbn [Q qdim qname]. rewrite str_eqb_refl, attrs_rebuild.
  rewrite (get_in_dim st d dm) by (reflexivity || exact Ed). cbn [qname]. rewrite El.
  split; apply alookup_mid_hit; exact Hn.
Qed.
Print Assumptions disable_keeps_id_and_hint.

(* the attribute created by EAddAttr carries exactly the identifier recorded by issued_ids *)
Theorem add_attribute_creates st d n hyb after st' : wfb st -> add_attribute true d n hyb after st = Ok st' ->
  get_attribute st (Q d n) = None /\ get_attribute st' (Q d n) = Some {| a_id := next_id st; a_hyb := hyb; a_enc := true |}.
Proof.
  intros Hwf H. unfold add_attribute in H. destruct (alookup d (dims st)) as [dm|] eqn:Ed; [|discriminate].
  destruct (dim_add_attribute dm n hyb after (next_id st)) as [dm'| | |] eqn:Ea; try discriminate. injection H as <-.
  destruct (wfb_dim_facts _ _ _ Hwf Ed) as (Hnd & _ & _).
  destruct (dim_add_attribute_shape _ _ _ _ _ _ Hnd Ea) as (L & R & El & El' & Hn).
  rewrite (get_replace st d dm) by exact Ed. cbn [Q qdim qname]. rewrite str_eqb_refl.
  rewrite (get_in_dim st d dm) by (reflexivity || exact Ed). cbn [qname]. split.
  - apply alookup_none. exact Hn.
  - rewrite El'. apply alookup_mid_hit. intros Hin. apply Hn. rewrite El. unfold names_of. rewrite map_app. apply in_app_iff. left. exact Hin.
Qed.
Print Assumptions add_attribute_creates.

Theorem del_attribute_removes st d n st' : wfb st -> del_attribute d n st = Ok st' ->
  exists a, get_attribute st (Q d n) = Some a /\ get_attribute st' (Q d n) = None.
Proof.
  intros Hwf H. rewrite del_attribute_fn in H. destruct (edit_dim_inv _ _ _ _ H) as (dm & dm' & Ed & Ef & ->).
  destruct (del_fn_spec _ _ _ Ef) as (pre & a & post & El & Hn & ->).
  destruct (wfb_dim_facts _ _ _ Hwf Ed) as (Hnd & _ & _). rewrite El, names_mid in Hnd. apply NoDup_remove_2 in Hnd.
  exists a. rewrite (get_replace st d dm) by exact Ed. cbn [Q qdim qname]. rewrite str_eqb_refl, attrs_rebuild.
  rewrite (get_in_dim st d dm) by (reflexivity || exact Ed). cbn [qname]. rewrite El.
  split; [apply alookup_mid_hit; exact Hn|]. apply alookup_none. rewrite keys_app. exact Hnd.
Qed.

(* ---- the other attributes ---- *)
Definition touched (e : sedit) (q : qattr) : Prop :=
  match e with
  | EAddAnarchy _ | EAddHierarchy _ => False
  | EDelDim d => qdim q = d
  | EAddAttr d n _ _ | EDelAttr d n | EDisable d n => qdim q = d /\ qname q = n
  | ERename d n n' => qdim q = d /\ (qname q = n \/ qname q = n')
  end.

Lemma add_dim_keeps mk d st st' q : attrs_of (mk []) = [] -> add_dim mk d st = Ok st' -> get_attribute st' q = get_attribute st q.
Proof.
  intros Hmk H. unfold add_dim in H. destruct (amem d (dims st)); [discriminate|]. injection H as <-.
  unfold get_attribute. cbn [dims]. rewrite alookup_app. destruct (alookup (qdim q) (dims st)) as [dm|]; [reflexivity|].
  cbn [alookup]. destruct (str_eqb (qdim q) d); [rewrite Hmk; reflexivity|reflexivity].
Qed.

Lemma edit_outcome_keeps st e st' q : wfb st -> edit_outcome true st e = Ok st' -> ~ touched e q ->
  get_attribute st' q = get_attribute st q.
Proof.
  intros Hwf H Ht.
  destruct e as [d|d|d|d n hyb after|d n|d n n'|d n]; cbn [edit_outcome touched] in *.
  - eapply (add_dim_keeps Anarchy); [reflexivity|exact H].
  - eapply (add_dim_keeps Hierarchy); [reflexivity|exact H].
  - unfold del_dimension in H. destruct (amem d (dims st)); [|discriminate]. injection H as <-.
    unfold get_attribute. cbn [dims]. rewrite alookup_aremove_other by exact Ht. reflexivity.
  - unfold add_attribute in H. destruct (alookup d (dims st)) as [dm|] eqn:Ed; [|discriminate].
    destruct (dim_add_attribute dm n hyb after (next_id st)) as [dm'| | |] eqn:Ea; try discriminate. injection H as <-.
    rewrite (get_replace st d dm) by exact Ed. destruct (str_eqb (qdim q) d) eqn:E; [|reflexivity]. apply str_eqb_eq in E.
    rewrite (get_in_dim st d dm q E Ed).
    destruct (wfb_dim_facts _ _ _ Hwf Ed) as (Hnd & _ & _).
    destruct (dim_add_attribute_shape _ _ _ _ _ _ Hnd Ea) as (L & R & El & El' & _). rewrite El, El'.
    apply alookup_mid_other. intros En. apply Ht. split; assumption.
  - rewrite del_attribute_fn in H. destruct (edit_dim_inv _ _ _ _ H) as (dm & dm' & Ed & Ef & ->).
    rewrite (get_replace st d dm) by exact Ed. destruct (str_eqb (qdim q) d) eqn:E; [|reflexivity]. apply str_eqb_eq in E.
    rewrite (get_in_dim st d dm q E Ed).
    destruct (del_fn_spec _ _ _ Ef) as (pre & a & post & El & _ & ->). rewrite attrs_rebuild, El.
    symmetry. apply alookup_mid_other. intros En. apply Ht. split; assumption.
  - rewrite rename_attribute_fn in H. destruct (edit_dim_inv _ _ _ _ H) as (dm & dm' & Ed & Ef & ->).
    rewrite (get_replace st d dm) by exact Ed. destruct (str_eqb (qdim q) d) eqn:E; [|reflexivity]. apply str_eqb_eq in E.
    rewrite (get_in_dim st d dm q E Ed).
    destruct (rename_fn_spec _ _ _ _ Ef) as (pre & a & post & El & _ & _ & Edm').
    assert (H1 : qname q <> n) by (intros En; apply Ht; split; [exact E|left; exact En]).
    assert (H2 : qname q <> n') by (intros En; apply Ht; split; [exact E|right; exact En]).
    rewrite El, (alookup_mid_other _ _ _ _ _ H1).
    destruct dm as [l|l]; subst dm'; cbn [attrs_of].
    + rewrite (alookup_mid_other _ _ _ _ _ H2), app_nil_r. reflexivity.
    + apply alookup_mid_other. exact H2.
  - rewrite disable_attribute_fn in H. destruct (edit_dim_inv _ _ _ _ H) as (dm & dm' & Ed & Ef & ->).
    rewrite (get_replace st d dm) by exact Ed. destruct (str_eqb (qdim q) d) eqn:E; [|reflexivity]. apply str_eqb_eq in E.
    rewrite (get_in_dim st d dm q E Ed).
    destruct (disable_fn_spec _ _ _ Ef) as (pre & a & post & El & _ & ->). rewrite attrs_rebuild, El.
    assert (H1 : qname q <> n) by (intros En; apply Ht; split; assumption).
    rewrite !(alookup_mid_other _ _ _ _ _ H1). reflexivity.
Qed.

(* an edit aimed at d::n (and, for a renaming, d::n') leaves identifier, hint and status of every other attribute
   unchanged; adding a dimension changes no attribute; deleting dimension d changes nothing outside d *)
Theorem edits_keep_other_attributes st e q : wfb st -> ~ touched e q ->
  get_attribute (apply_edit st e) q = get_attribute st q.
Proof.
  intros Hwf Ht. unfold apply_edit, apply_edit_gen. destruct (edit_outcome true st e) as [st'| | |] eqn:E; try reflexivity.
  eapply edit_outcome_keeps; eassumption.
Qed.
Print Assumptions edits_keep_other_attributes.

(* ---- hierarchies: relative order ---- *)
Lemma tw_mid pre n (a : attribute) post m k : m <> n -> k <> n ->
  (In m (names_of (take_while (fun p => negb (str_eqb (fst p) k)) (pre ++ (n, a) :: post))) <->
   In m (names_of (take_while (fun p => negb (str_eqb (fst p) k)) (pre ++ post)))).
Proof.
  intros Hm Hk. unfold names_of. induction pre as [|[k0 v0] pre IH]; cbn [app take_while fst].
  - assert (E : str_eqb n k = false) by (apply str_eqb_neq; congruence). rewrite E. cbn [negb map fst In].
    split; [intros [E'|H]; [congruence|exact H]|intros H; right; exact H].
  - destruct (negb (str_eqb k0 k)); cbn [map fst In]; [rewrite IH; tauto|tauto].
Qed.
(* inserting or removing the entry n does not change the order between two other names *)
Lemma le_name_mid pre n a post m k : m <> n -> k <> n ->
  (le_name (Hierarchy (pre ++ (n, a) :: post)) m k <-> le_name (Hierarchy (pre ++ post)) m k).
Proof.
  intros Hm Hk. unfold le_name, kept. rewrite (alookup_mid_other k n a pre post Hk).
  destruct (alookup k (pre ++ post)) as [ak|]; [|tauto]. rewrite !names_app, !in_app_iff, tw_mid by assumption. tauto.
Qed.

Theorem remove_keeps_relative_order st d n st' l : del_attribute d n st = Ok st' -> alookup d (dims st) = Some (Hierarchy l) ->
  exists pre a post, l = pre ++ (n, a) :: post /\ alookup d (dims st') = Some (Hierarchy (pre ++ post)) /\
    forall m k, m <> n -> k <> n -> (le_name (Hierarchy (pre ++ post)) m k <-> le_name (Hierarchy l) m k).
Proof.
  intros H Hl. rewrite del_attribute_fn in H. destruct (edit_dim_inv _ _ _ _ H) as (dm & dm' & Ed & Ef & ->).
  rewrite Hl in Ed. injection Ed as <-. destruct (del_fn_spec _ _ _ Ef) as (pre & a & post & El & _ & ->).
  cbn [attrs_of rebuild] in *. exists pre, a, post. split; [exact El|]. split.
  - cbn [dims]. rewrite alookup_areplace, str_eqb_refl, Hl. reflexivity.
  - intros m k Hm Hk. rewrite El. symmetry. apply le_name_mid; assumption.
Qed.
Print Assumptions remove_keeps_relative_order.

Theorem add_keeps_relative_order st d n hyb after st' l : wfb st -> add_attribute true d n hyb after st = Ok st' ->
  alookup d (dims st) = Some (Hierarchy l) ->
  exists L R, l = L ++ R /\ alookup d (dims st') = Some (Hierarchy (L ++ (n, newattr (next_id st) hyb) :: R)) /\
    forall m k, m <> n -> k <> n ->
      (le_name (Hierarchy (L ++ (n, newattr (next_id st) hyb) :: R)) m k <-> le_name (Hierarchy l) m k).
Proof.
  intros Hwf H Hl. unfold add_attribute in H. rewrite Hl in H.
  destruct (dim_add_attribute (Hierarchy l) n hyb after (next_id st)) as [dm'| | |] eqn:Ea; try discriminate. injection H as <-.
  destruct (wfb_dim_facts _ _ _ Hwf Hl) as (Hnd & _ & _).
  destruct (dim_add_attribute_shape _ _ _ _ _ _ Hnd Ea) as (L & R & El & El' & _).
  destruct (dim_add_attribute_perm _ _ _ _ _ _ Hnd Ea) as (_ & _ & Hh).
  destruct dm' as [l'|l']; [discriminate Hh|]. cbn [attrs_of] in *. subst l l'.
  exists L, R. split; [reflexivity|]. split.
  - cbn [dims]. rewrite alookup_areplace, str_eqb_refl, Hl. reflexivity.
  - intros m k Hm Hk. apply le_name_mid; assumption.
Qed.

(* renaming: same position, same attribute *)
Theorem rename_keeps_order st d n n' st' l : rename_attribute d n n' st = Ok st' -> alookup d (dims st) = Some (Hierarchy l) ->
  exists pre a post, l = pre ++ (n, a) :: post /\ ~ In n (keys pre) /\ ~ In n' (keys l) /\
                     alookup d (dims st') = Some (Hierarchy (pre ++ (n', a) :: post)).
Proof.
  intros H Hl. rewrite rename_attribute_fn in H. destruct (edit_dim_inv _ _ _ _ H) as (dm & dm' & Ed & Ef & ->).
  rewrite Hl in Ed. injection Ed as <-. destruct (rename_fn_spec _ _ _ _ Ef) as (pre & a & post & El & Hn & Hn' & ->).
  cbn [attrs_of] in *. exists pre, a, post. split; [exact El|]. split; [exact Hn|]. split; [exact Hn'|].
  cbn [dims]. rewrite alookup_areplace, str_eqb_refl, Hl. reflexivity.
Qed.
Print Assumptions rename_keeps_order.

(* ... and therefore the same order, read through the renaming *)
Section Ren.
  Variables n n' : str.
  Definition ren (x : str) : str := if str_eqb x n then n' else x.
  Definition gren (p : str * attribute) : str * attribute := (ren (fst p), snd p).

  Lemma ren_inj x y : x <> n' -> y <> n' -> ren x = ren y -> x = y.
  Proof.
    unfold ren. intros Hx Hy. destruct (str_eqb x n) eqn:Ex, (str_eqb y n) eqn:Ey; intros E.
    - apply str_eqb_eq in Ex, Ey. congruence.
    - congruence.
    - congruence.
    - exact E.
  Qed.
  Lemma map_gren_id l : ~ In n (keys l) -> map gren l = l.
  Proof.
    induction l as [|[k v] l IH]; cbn [map keys fst]; intros Hn; [reflexivity|].
    rewrite IH by (intros Hin; apply Hn; right; exact Hin). unfold gren, ren. cbn [fst snd].
    assert (E : str_eqb k n = false) by (apply str_eqb_neq; intros ->; apply Hn; left; reflexivity). rewrite E. reflexivity.
  Qed.
  Lemma names_gren l : names_of (map gren l) = map ren (names_of l).
  Proof. unfold names_of. rewrite !map_map. reflexivity. Qed.
  Lemma tw_gren k l : (forall x, In x (keys l) -> ren x = ren k -> x = k) ->
    take_while (fun p => negb (str_eqb (fst p) (ren k))) (map gren l) = map gren (take_while (fun p => negb (str_eqb (fst p) k)) l).
  Proof.
    induction l as [|[k0 v0] l IH]; cbn [map take_while keys fst]; intros Hinj; [reflexivity|]. cbn [gren fst].
    assert (E : str_eqb (ren k0) (ren k) = str_eqb k0 k).
    { destruct (str_eqb k0 k) eqn:E0; [apply str_eqb_eq in E0; subst; apply str_eqb_refl|].
      apply str_eqb_neq. intros E1. apply str_eqb_neq in E0. apply E0. apply Hinj; [left; reflexivity|exact E1]. }
    unfold gren at 1. cbn [fst]. rewrite E. destruct (negb (str_eqb k0 k)); [|reflexivity].
    cbn [map]. rewrite IH; [reflexivity|]. intros x Hx. apply Hinj. right. exact Hx.
  Qed.
  Lemma alookup_gren k l : (forall x, In x (keys l) -> ren x = ren k -> x = k) ->
    alookup (ren k) (map gren l) = alookup k l.
  Proof.
    induction l as [|[k0 v0] l IH]; cbn [map alookup keys fst]; intros Hinj; [reflexivity|]. cbn [gren fst snd].
    assert (E : str_eqb (ren k) (ren k0) = str_eqb k k0).
    { destruct (str_eqb k k0) eqn:E0; [apply str_eqb_eq in E0; subst; apply str_eqb_refl|].
      apply str_eqb_neq. intros E1. apply str_eqb_neq in E0. apply E0. symmetry. apply Hinj; [left; reflexivity|symmetry; exact E1]. }
    rewrite E. destruct (str_eqb k k0); [reflexivity|]. apply IH. intros x Hx. apply Hinj. right. exact Hx.
  Qed.

  Theorem rename_keeps_order_le pre a post m k :
    let l := pre ++ (n, a) :: post in
    NoDup (names_of l) -> ~ In n' (names_of l) -> m <> n' -> k <> n' ->
    (le_name (Hierarchy (pre ++ (n', a) :: post)) (ren m) (ren k) <-> le_name (Hierarchy l) m k).
  Proof.
    intros l Hnd Hn' Hm Hk.
    assert (Hl' : pre ++ (n', a) :: post = map gren l).
    { unfold l in *. rewrite names_mid in Hnd. pose proof (NoDup_remove_2 _ _ _ Hnd) as Hnn.
      rewrite map_app. cbn [map]. rewrite !map_gren_id.
      - unfold gren, ren. cbn [fst snd]. rewrite str_eqb_refl. reflexivity.
      - intros Hin. apply Hnn. apply in_app_iff. right. exact Hin.
      - intros Hin. apply Hnn. apply in_app_iff. left. exact Hin. }
    assert (Hne : forall x, In x (names_of l) -> x <> n') by (intros x Hx ->; contradiction).
    assert (Hinj : forall x, In x (keys l) -> ren x = ren k -> x = k).
    { intros x Hx E. apply ren_inj; [apply Hne; exact Hx|exact Hk|exact E]. }
    rewrite Hl'. unfold le_name, kept. rewrite (alookup_gren k l Hinj), (tw_gren k l Hinj).
    destruct (alookup k l) as [ak|] eqn:Ek; [|tauto].
    change [(ren k, ak)] with (map gren [(k, ak)]). rewrite <- map_app, names_gren.
    set (X := take_while (fun p => negb (str_eqb (fst p) k)) l ++ [(k, ak)]).
    assert (HX : incl (names_of X) (names_of l)).
    { intros x Hx. unfold X, names_of in Hx. rewrite map_app in Hx. apply in_app_iff in Hx. destruct Hx as [Hx|[<-|[]]].
      - destruct (take_while_prefix (fun p : str * attribute => negb (str_eqb (fst p) k)) l) as (rest & Hr). unfold names_of. rewrite Hr, map_app. apply in_app_iff. left. exact Hx.
      - apply alookup_In in Ek. unfold names_of. apply in_map_iff. exists (k, ak). split; [reflexivity|exact Ek]. }
    split.
    - intros Hin. apply in_map_iff in Hin. destruct Hin as (x & Ex & Hx).
      assert (x = m) by (apply ren_inj; [apply Hne, HX; exact Hx|exact Hm|exact Ex]). subst x. exact Hx.
    - intros Hin. apply in_map. exact Hin.
  Qed.
End Ren.
Print Assumptions rename_keeps_order_le.

(* ---- non-vacuity: a hierarchy low < mid < high; rename mid, delete low, disable high ---- *)
Definition sS : str := [83]%N.
Definition h_low : str := [108]%N.  Definition h_mid : str := [109]%N.  Definition h_high : str := [104]%N.  Definition h_new : str := [120]%N.
Definition ex_hist : list sedit :=
  [EAddHierarchy sS; EAddAttr sS h_low false None; EAddAttr sS h_high true (Some h_low); EAddAttr sS h_mid false (Some h_low)].
Definition ex_st := run_edits empty_structure ex_hist.
Example ex_st_value : ex_st = {| dims := [(sS, Hierarchy [(h_low, newattr 0 false); (h_mid, newattr 2 false); (h_high, newattr 1 true)])]; next_id := 3 |}.
Proof. vm_compute. reflexivity. Qed.
Example ex_rename : exists st', rename_attribute sS h_mid h_new ex_st = Ok st' /\
  dims st' = [(sS, Hierarchy [(h_low, newattr 0 false); (h_new, newattr 2 false); (h_high, newattr 1 true)])].
Proof. eexists. split; vm_compute; reflexivity. Qed.
Example ex_delete : exists st', del_attribute sS h_low ex_st = Ok st' /\
  dims st' = [(sS, Hierarchy [(h_mid, newattr 2 false); (h_high, newattr 1 true)])].
Proof. eexists. split; vm_compute; reflexivity. Qed.
Example ex_disable : exists st', disable_attribute sS h_high ex_st = Ok st' /\
  get_attribute st' (Q sS h_high) = Some {| a_id := 1; a_hyb := true; a_enc := false |} /\
  get_attribute st' (Q sS h_mid) = get_attribute ex_st (Q sS h_mid).
Proof. eexists. split; [|split]; vm_compute; reflexivity. Qed.
Example ex_wfb : wfb ex_st. Proof. apply edits_preserve_wfb. Qed.
