(* C13, part 3: master secret key and master public key *)
From Coq Require Import List NArith Bool Arith Lia.
Require Import Policy Structure Leb Wire WireSer WireRoundTrip1 WireRoundTrip2.
Import ListNotations.
Local Open Scope nat_scope.

Section Sized3.
  Variable sz : sizes.

  Lemma rt_tracer t rest : blob (scalar_len sz) (fst t) /\ blob (point_len sz) (snd t) ->
    (do (sk, q1) <- r_take (scalar_len sz) (wr_tracer t ++ rest); do (pk, q2) <- r_take (point_len sz) q1; ROk (sk, pk) q2) = ROk t rest.
  Proof.
    intros [[Hs _] [Hp _]]. destruct t as [sk pk]. cbn [fst snd] in *. unfold wr_tracer. cbn [fst snd].
    rewrite <- app_assoc. rewrite r_take_w by exact Hs. cbn [bind]. rewrite r_take_w by exact Hp. reflexivity.
  Qed.

  Lemma rt_msk_key ak rest : wf_rsk sz (snd ak) ->
    (do (fl, p1) <- r_leb (wr_msk_key ak ++ rest); do (k, p2) <- r_rsk sz p1; ROk ((fl =? 1)%N, k) p2) = ROk ak rest.
  Proof.
    intros Hk. destruct ak as [act k]. cbn [fst snd] in *. unfold wr_msk_key, w_flag. cbn [fst snd].
    rewrite <- app_assoc. rewrite r_leb_w by (unfold u64; destruct act; lia). cbn [bind].
    rewrite rt_rsk by exact Hk. cbn [bind]. destruct act; reflexivity.
  Qed.

  Lemma rt_msk_chain rc rest : wf_msk_chain sz rc ->
    (do (r, q1) <- r_vec (wr_msk_chain rc ++ rest);
     do (ch, q2) <- r_list (fun c => do (fl, p1) <- r_leb c; do (k, p2) <- r_rsk sz p1; ROk ((fl =? 1)%N, k) p2) q1;
     ROk (r, ch) q2) = ROk rc rest.
  Proof.
    intros ([Hv _] & Hn & Hk). destruct rc as [r ch]. cbn [fst snd] in *.
    unfold wr_msk_chain. cbn [fst snd]. rewrite <- app_assoc. rewrite r_vec_w by exact Hv. cbn [bind].
    rewrite r_list_w; [reflexivity|exact Hn| |].
    - eapply Forall_impl; [|exact Hk]. intros ak Hak rest'. apply rt_msk_key. exact Hak.
    - apply Forall_forall. intros ak _. unfold wr_msk_key. rewrite app_length. pose proof (w_flag_nonempty (fst ak)). lia.
  Qed.

  (* The optional signing key sits BEFORE the access structure and is recognised by the reader from the number of
     bytes that remain (`de.value().len() < SIGNING_KEY_LENGTH`): a key WITHOUT signing key is read back correctly
     only if its access structure together with whatever follows is shorter than 16 bytes. *)
  Theorem rt_msk m rest : wf_msk sz m ->
    (wm_sign m = None -> length (wr_structure (wm_st m)) + length rest < 16) ->
    r_msk sz (wr_msk m ++ rest) = ROk m rest.
  Proof.
    intros ([Hsc Hpt] & [Hs _] & Hnt & Ht & Hnu & Hu & Hns & Hsec & Hsig & Hst) Hrest.
    destruct m as [s tr us secs sign st]. cbn [wm_s wm_tracers wm_users wm_secrets wm_sign wm_st] in *.
    unfold r_msk, wr_msk. cbn [wm_s wm_tracers wm_users wm_secrets wm_sign wm_st]. repeat rewrite <- app_assoc.
    rewrite r_take_w by exact Hs. cbn [bind].
    rewrite r_list_w; [|exact Hnt| |].
    2:{ eapply Forall_impl; [|exact Ht]. intros t Hwt rest'. apply rt_tracer. exact Hwt. }
    2:{ eapply Forall_impl; [|exact Ht]. intros t [[H1 _] [H2 _]]. unfold wr_tracer. rewrite app_length. lia. }
    cbn [bind].
    rewrite r_list_w; [|exact Hnu| |].
    2:{ eapply Forall_impl; [|exact Hu]. intros id Hid rest'. apply rt_userid. exact Hid. }
    2:{ apply Forall_forall. intros id _. apply wr_userid_nonempty. }
    cbn [bind].
    rewrite r_list_w; [|exact Hns| |].
    2:{ eapply Forall_impl; [|exact Hsec]. intros rc Hrc rest'. apply rt_msk_chain. exact Hrc. }
    2:{ apply Forall_forall. intros rc _. unfold wr_msk_chain. rewrite app_length. pose proof (w_vec_nonempty (fst rc)). lia. }
    cbn [bind].
    destruct sign as [k|]; cbn [opt_bytes].
    - destruct Hsig as [Hk _].
      assert (E : (length (k ++ wr_structure st ++ rest) <? 16) = false) by (apply Nat.ltb_ge; rewrite app_length; lia).
      rewrite E. rewrite r_take_w by exact Hk. cbn [bind]. rewrite rt_structure by exact Hst. reflexivity.
    - rewrite app_nil_l. specialize (Hrest eq_refl).
      assert (E : (length (wr_structure st ++ rest) <? 16) = true) by (apply Nat.ltb_lt; rewrite app_length; lia).
      rewrite E. rewrite rt_structure by exact Hst. reflexivity.
  Qed.

  (* keys produced by `setup` always carry a signing key: unconditional round trip for those *)
  Corollary rt_msk_signed m rest : wf_msk sz m -> wm_sign m <> None -> r_msk sz (wr_msk m ++ rest) = ROk m rest.
  Proof. intros H Hs. apply rt_msk; [exact H|]. intros E. congruence. Qed.
  Corollary rt_msk_whole m : wf_msk sz m ->
    (wm_sign m = None -> length (wr_structure (wm_st m)) < 16) -> whole (r_msk sz (wr_msk m)) = Some m.
  Proof.
    intros H Hs. rewrite <- (app_nil_r (wr_msk m)). rewrite rt_msk; [reflexivity|exact H|].
    intros E. specialize (Hs E). cbn [length]. lia.
  Qed.

  (* ---------- master public key ---------- *)
  Lemma rt_mpk_key rk rest : vec_ok (fst rk) /\ wf_rpk sz (snd rk) ->
    (do (r, q1) <- r_vec (wr_mpk_key rk ++ rest); do (k, q2) <- r_rpk sz q1; ROk (r, k) q2) = ROk rk rest.
  Proof.
    intros [[Hv _] Hk]. destruct rk as [r k]. cbn [fst snd] in *. unfold wr_mpk_key. cbn [fst snd].
    rewrite <- app_assoc. rewrite r_vec_w by exact Hv. cbn [bind]. rewrite rt_rpk by exact Hk. reflexivity.
  Qed.

  Theorem rt_mpk m rest : wf_mpk sz m -> r_mpk sz (wr_mpk m ++ rest) = ROk m rest.
  Proof.
    intros ([_ Hpt] & Hnt & Ht & Hnk & Hk & Hst).
    destruct m as [tpk ks st]. cbn [wq_tpk wq_keys wq_st] in *.
    unfold r_mpk, wr_mpk. cbn [wq_tpk wq_keys wq_st]. repeat rewrite <- app_assoc.
    rewrite r_list_blobs by assumption. cbn [bind].
    rewrite r_list_w; [|exact Hnk| |].
    2:{ eapply Forall_impl; [|exact Hk]. intros rk Hrk rest'. apply rt_mpk_key. exact Hrk. }
    2:{ apply Forall_forall. intros rk _. unfold wr_mpk_key. rewrite app_length. pose proof (w_vec_nonempty (fst rk)). lia. }
    cbn [bind]. rewrite rt_structure by exact Hst. reflexivity.
  Qed.
End Sized3.

(* ---------- examples ---------- *)
Definition ex_key16 : bytes := map N.of_nat (seq 30 16).
Definition ex_msk (sign : option bytes) (st : w_structure) : w_msk :=
  {| wm_s := [9; 9]%N;
     wm_tracers := [([1; 2]%N, [3; 4; 5]%N); ([6; 7]%N, [8; 9; 10]%N)];
     wm_users := [ex_userid; [[11; 12]%N]; []];
     wm_secrets := [([1; 2]%N, [(true, ex_rsk_h); (false, ex_rsk_c)]); ([]%N, [(true, ex_rsk_c)]); ([5]%N, [])];
     wm_sign := sign; wm_st := st |}.
Definition ex_structure_empty : w_structure := {| ws_version := 1; ws_dims := []; ws_next := Some 0%N |}.
Definition ex_mpk : w_mpk :=
  {| wq_tpk := [[1; 2; 3]; [4; 5; 6]; [7; 8; 9]]%N;
     wq_keys := [([1; 2]%N, ex_rpk_h); ([]%N, ex_rpk_c)];
     wq_st := ex_structure |}.

Lemma ex_msk_wf_gen sign st : match sign with Some k => blob 16 k | None => True end -> wf_structure st ->
  wf_msk ex_sizes (ex_msk sign st).
Proof.
  intros Hs Hst.
  unfold wf_msk, wf_userid, wf_msk_chain, wf_rsk, wf_sizes, vec_ok, blob, ex_msk, ex_userid, ex_rsk_h, ex_rsk_c.
  cbn [wm_s wm_tracers wm_users wm_secrets wm_sign wm_st wk_hyb wk_sk wk_dk ex_sizes scalar_len point_len dk_len].
  unfold is_bytes.
  repeat (first [ progress cbn [fst snd] | exact Hs | exact Hst | split | apply Forall_cons | apply Forall_nil | reflexivity
                | (unfold u64, nlen; cbn [length]; lia) | discriminate | exact I ]).
Qed.
Example ex_msk_wf : wf_msk ex_sizes (ex_msk (Some ex_key16) ex_structure) /\ wf_msk ex_sizes (ex_msk None ex_structure_empty).
Proof.
  split; apply ex_msk_wf_gen; try exact I; try exact ex_structure_wf; try (apply blob_seq; lia).
  unfold wf_structure, ex_structure_empty. cbn [ws_version ws_dims ws_next].
  repeat split; try apply Forall_nil; unfold u64, nlen; cbn [length]; lia.
Qed.
Example ex_msk_side : length (wr_structure (wm_st (ex_msk None ex_structure_empty))) < 16.
Proof. vm_compute. lia. Qed.
Example ex_msk_rt :
  r_msk ex_sizes (wr_msk (ex_msk (Some ex_key16) ex_structure) ++ [9]%N) = ROk (ex_msk (Some ex_key16) ex_structure) [9]%N
  /\ whole (r_msk ex_sizes (wr_msk (ex_msk None ex_structure_empty))) = Some (ex_msk None ex_structure_empty).
Proof. vm_compute. split; reflexivity. Qed.

(* The statement without the side condition is false even for `whole` (nothing after the key): a master secret key
   that has no signing key and an access structure of 16 bytes or more is not read back -- the first 16 bytes of
   its access structure are taken for the signing key.  (Full requested statements:
     forall sz m rest, wf_msk sz m -> r_msk sz (wr_msk m ++ rest) = ROk m rest
     forall sz m,      wf_msk sz m -> whole (r_msk sz (wr_msk m)) = Some m.) *)
Theorem rt_msk_whole_refuted : ~ (forall sz m, wf_msk sz m -> whole (r_msk sz (wr_msk m)) = Some m).
Proof.
  intros H. specialize (H ex_sizes (ex_msk None ex_structure) (ex_msk_wf_gen None ex_structure I ex_structure_wf)).
  vm_compute in H. discriminate H.
Qed.
Theorem rt_msk_anyrest_refuted : ~ (forall sz m rest, wf_msk sz m -> r_msk sz (wr_msk m ++ rest) = ROk m rest).
Proof.
  intros H. apply rt_msk_whole_refuted. intros sz m Hm. specialize (H sz m [] Hm). rewrite app_nil_r in H. rewrite H. reflexivity.
Qed.

Example ex_mpk_wf : wf_mpk ex_sizes ex_mpk.
Proof.
  unfold wf_mpk, wf_rpk, wf_sizes, vec_ok, blob, ex_mpk, ex_rpk_h, ex_rpk_c.
  cbn [wq_tpk wq_keys wq_st wp_hyb wp_h wp_ek ex_sizes scalar_len point_len ek_len]. unfold is_bytes.
  repeat (first [ progress cbn [fst snd] | exact ex_structure_wf | split | apply Forall_cons | apply Forall_nil | reflexivity
                | (unfold u64, nlen; cbn [length]; lia) | discriminate | exact I ]).
Qed.
Example ex_mpk_rt : r_mpk ex_sizes (wr_mpk ex_mpk ++ [9]%N) = ROk ex_mpk [9]%N.
Proof. vm_compute. reflexivity. Qed.

Print Assumptions rt_msk.
Print Assumptions rt_msk_signed.
Print Assumptions rt_msk_whole.
Print Assumptions rt_msk_whole_refuted.
Print Assumptions rt_msk_anyrest_refuted.
Print Assumptions rt_mpk.
