(* Dem.v -- model of the symmetric (DEM) layers of Covercrypt:
     /repo/src/ae.rs               impl AE for Aes256Gcm            -> ae_encrypt / ae_decrypt_g
     /repo/src/api.rs              impl PkeAc for Covercrypt        -> pke_encrypt / pke_decrypt_g
     /repo/src/encrypted_header.rs EncryptedHeader::{generate,decrypt} -> header_generate / header_decrypt_g
   Properties served: C12 (round trip / authentication), C07 (DEM part), C16 (DEM part).
   Theorems are in DemProofs.v.

   Everything here is executable once the Section variables are instantiated (the Section variables are
   plain functions; the hypotheses about them are packaged in the Record [DemIdeal] at the end, they are
   only used in DemProofs.v).

   What is abstract
     D        32-byte secrets: the KEM seed, the derived AES key, the secret handed to the caller.
     kdf      kdf256(seed, info); SymmetricKey::derive and the kdf256! macro are the same function.
     aead_enc Aes256Gcm::new(key).encrypt(nonce, ptx, aad)   (body || 16-byte tag, WITHOUT the nonce)
     aead_dec Aes256Gcm::new(key).decrypt(nonce, ctx, aad)
              In the dependency [aad = None] is [aad.unwrap_or(b"")]: None and Some [] are the same
              authentication data; this is [aad_of] below.
     USK, XENC, decaps   the KEM layer is not modelled here: [decaps usk enc = Some seed] means
              "authorised, session seed is seed", [= None] means "not authorised".
   What is not modelled: the error returned by AES-GCM encryption for plaintexts longer than 2^36 bytes and
   the error of SymmetricKey::derive for secrets shorter than the key (the seed is always 32 bytes);
   a decapsulation *error* (Err, as opposed to Ok(None)) is propagated unchanged by both decrypt functions
   and is outside this file.                                                                          *)
From Coq Require Import List NArith Bool PeanoNat.
Import ListNotations.

Definition bytes := list N.

(* outcome of a fallible Rust function: Ok(a) | Err(_) | panic *)
Inductive dres (A : Type) : Type := DOk (a : A) | DErr | DPanic.
Arguments DOk {A} a.
Arguments DErr {A}.
Arguments DPanic {A}.

Definition NONCE_LENGTH : nat := 12.
Definition MAC_LENGTH : nat := 16.

(* b"Covercrypt AE key" *)
Definition label_ae : bytes :=
  [67;111;118;101;114;99;114;121;112;116;32;65;69;32;107;101;121]%N.
Definition label_md : bytes := [0%N].      (* &[0u8]: key of the metadata encryption *)
Definition label_secret : bytes := [1%N].  (* &[1u8]: secret returned to the caller *)

(* authentication_data : Option<&[u8]>  ->  the byte string actually authenticated *)
Definition aad_of (ad : option bytes) : bytes := match ad with None => [] | Some a => a end.

Section Dem.
  Variable D : Type.
  Variable kdf : D -> bytes -> D.
  Variable aead_enc : D -> bytes -> bytes -> bytes -> bytes.          (* key nonce aad ptx *)
  Variable aead_dec : D -> bytes -> bytes -> bytes -> option bytes.   (* key nonce aad ctx *)
  Variables USK XENC : Type.
  Variable decaps : USK -> XENC -> option D.

  (* ---------------------------------------------------------------- ae.rs *)
  (* encrypt: nonce fresh from the RNG (argument), output nonce || AES-GCM(key, nonce, ptx, aad = None) *)
  Definition ae_encrypt (nonce : bytes) (key : D) (ptx : bytes) : bytes :=
    nonce ++ aead_enc key nonce [] ptx.

  (* decrypt.  [guard = true] is the code: `if ctx.len() < NONCE_LENGTH { return Err }`.
     [guard = false] is the same code with that check removed: the slices ctx[..12] / ctx[12..] panic
     when ctx is shorter than 12 bytes. *)
  Definition ae_decrypt_g (guard : bool) (key : D) (ctx : bytes) : dres bytes :=
    if guard && (length ctx <? NONCE_LENGTH) then DErr
    else if length ctx <? NONCE_LENGTH then DPanic
    else match aead_dec key (firstn NONCE_LENGTH ctx) [] (skipn NONCE_LENGTH ctx) with
         | Some p => DOk p
         | None => DErr
         end.
  Definition ae_decrypt : D -> bytes -> dres bytes := ae_decrypt_g true.

  (* ---------------------------------------------------------------- api.rs, PkeAc *)
  (* (seed, enc) is the result of encaps; nonce is the nonce drawn by E::encrypt *)
  Definition pke_encrypt (seed : D) (enc : XENC) (nonce : bytes) (ptx : bytes) : XENC * bytes :=
    (enc, ae_encrypt nonce (kdf seed label_ae) ptx).

  (* Ok(None) = "not authorised" *)
  Definition pke_decrypt_g (guard : bool) (usk : USK) (ct : XENC * bytes) : dres (option bytes) :=
    match decaps usk (fst ct) with
    | None => DOk None
    | Some seed =>
        match ae_decrypt_g guard (kdf seed label_ae) (snd ct) with
        | DOk p => DOk (Some p)
        | DErr => DErr
        | DPanic => DPanic
        end
    end.
  Definition pke_decrypt : USK -> XENC * bytes -> dres (option bytes) := pke_decrypt_g true.

  (* ---------------------------------------------------------------- encrypted_header.rs *)
  Record header := { h_enc : XENC; h_emd : option bytes }.
  Record cleartext := { c_secret : D; c_metadata : option bytes }.

  (* the nonce is drawn only when there is metadata *)
  Definition header_generate (seed : D) (enc : XENC) (nonce : bytes) (metadata ad : option bytes)
    : D * header :=
    (kdf seed label_secret,
     {| h_enc := enc;
        h_emd := match metadata with
                 | None => None
                 | Some m => Some (nonce ++ aead_enc (kdf seed label_md) nonce (aad_of ad) m)
                 end |}).

  Definition header_decrypt_g (guard : bool) (usk : USK) (h : header) (ad : option bytes)
    : dres (option cleartext) :=
    match decaps usk (h_enc h) with
    | None => DOk None
    | Some seed =>
        match h_emd h with
        | None => DOk (Some {| c_secret := kdf seed label_secret; c_metadata := None |})
        | Some ctx =>
            if guard && (length ctx <? NONCE_LENGTH) then DErr      (* CiphertextTooSmallError *)
            else if length ctx <? NONCE_LENGTH then DPanic
            else match aead_dec (kdf seed label_md) (firstn NONCE_LENGTH ctx) (aad_of ad)
                                (skipn NONCE_LENGTH ctx) with
                 | Some m => DOk (Some {| c_secret := kdf seed label_secret; c_metadata := Some m |})
                 | None => DErr
                 end
        end
    end.
  Definition header_decrypt : USK -> header -> option bytes -> dres (option cleartext) :=
    header_decrypt_g true.

  (* ---------------------------------------------------------------- a run of the encryptor (C16) *)
  (* The RNG is modelled as a stream of nonces [fresh 0, fresh 1, ...]; the state is the index of the next
     unused one.  Each AEAD encryption consumes exactly one index; header_generate without metadata
     consumes none. *)
  Variable fresh : nat -> bytes.

  Inductive call :=
  | CPke (seed : D) (enc : XENC) (ptx : bytes)
  | CHdr (seed : D) (enc : XENC) (metadata ad : option bytes).

  Inductive out :=
  | OPke (ct : XENC * bytes)
  | OHdr (secret : D) (h : header).

  Definition step (ctr : nat) (c : call) : nat * out :=
    match c with
    | CPke seed enc ptx => (S ctr, OPke (pke_encrypt seed enc (fresh ctr) ptx))
    | CHdr seed enc None ad =>
        let '(s, h) := header_generate seed enc [] None ad in (ctr, OHdr s h)
    | CHdr seed enc (Some m) ad =>
        let '(s, h) := header_generate seed enc (fresh ctr) (Some m) ad in (S ctr, OHdr s h)
    end.

  Fixpoint run (ctr : nat) (cs : list call) : list out :=
    match cs with
    | [] => []
    | c :: cs' => let '(ctr', o) := step ctr c in o :: run ctr' cs'
    end.

  (* the AEAD nonces as they appear on the wire: first 12 bytes of every ciphertext produced *)
  Definition out_nonces (o : out) : list bytes :=
    match o with
    | OPke ct => [firstn NONCE_LENGTH (snd ct)]
    | OHdr _ h => match h_emd h with None => [] | Some c => [firstn NONCE_LENGTH c] end
    end.

  (* ---------------------------------------------------------------- hypotheses used in DemProofs.v *)
  (* [honest k n a p] : "in the run under consideration the honest encryptor called
     AES-GCM encrypt with key k, nonce n, authentication data a and plaintext p".
       - honest := fun _ _ _ _ => True   is the REAL scheme seen by somebody who holds the key: every
         encryption is available.  Then di_correct is plain correctness and di_authentic is the exact
         (non-idealised) fact that AES-GCM decryption is the partial inverse of encryption: decrypt
         recomputes the tag over (aad, body), compares, and returns body xor keystream, so a ciphertext
         accepted with result p IS the encryption of p.
       - honest := "member of a finite log"  is the IDEAL world of INT-CTXT (ciphertext integrity): a party
         without the key can make the decryptor accept only ciphertexts that the honest encryptor produced,
         under the same nonce and the same authentication data.  This is the standard security notion
         satisfied by AES-GCM (up to a negligible forgery probability per attempt, 2^-128 * length);
         it is the one idealisation of this file besides kdf injectivity.
     Only [di_authentic] (in the second reading) and [di_kdf_inj] are idealised. *)
  Record DemIdeal (honest : D -> bytes -> bytes -> bytes -> Prop) : Prop := {
    (* kdf256 = SHAKE256(seed || info) truncated to 32 bytes, treated as collision free (random oracle) *)
    di_kdf_inj : forall s l s' l', kdf s l = kdf s' l' -> s = s' /\ l = l';
    di_correct : forall k n a p, honest k n a p -> aead_dec k n a (aead_enc k n a p) = Some p;
    di_len : forall k n a p, length (aead_enc k n a p) = length p + MAC_LENGTH;
    di_authentic : forall k n a c p, aead_dec k n a c = Some p -> honest k n a p /\ c = aead_enc k n a p
  }.

  (* the nonce stream never repeats (96-bit random nonces: collision probability q^2 / 2^97) *)
  Definition FreshIdeal : Prop :=
    (forall i j, fresh i = fresh j -> i = j) /\ (forall i, length (fresh i) = NONCE_LENGTH).
End Dem.

Arguments h_enc {XENC} _.
Arguments h_emd {XENC} _.
Arguments c_secret {D} _.
Arguments c_metadata {D} _.

(* ==================================================================== a toy instance *)
(* Executable toy KDF / AEAD / KEM over D := N.  It has no cryptographic value (the "tag" is an injective
   encoding of (key, nonce, aad, plaintext) and the body is the plaintext itself); it exists to show that the
   hypotheses of [DemIdeal] are satisfiable together (DemProofs.v: dem_inhabited, dem_inhabited_ideal) and to run the model.
   Model bytes are unbounded numbers, so one number can carry an injective encoding of a list. *)

(* self-delimiting encoding of a positive in front of [r]: two bits per bit, low bit 1 = "a data bit
   follows", low bit 0 = "end of this number" *)
Fixpoint enc_pos (p r : positive) : positive :=
  match p with
  | xH => xO r
  | xO p' => xI (xO (enc_pos p' r))
  | xI p' => xI (xI (enc_pos p' r))
  end.
Definition enc_N (n : N) (r : positive) : positive := enc_pos (N.succ_pos n) r.
Fixpoint enc_list (l : bytes) : positive :=
  match l with [] => xH | x :: t => enc_N x (enc_list t) end.
Definition code (l : bytes) : N := Npos (enc_list l).

Fixpoint beq_bytes (a b : bytes) : bool :=
  match a, b with
  | [], [] => true
  | x :: a', y :: b' => N.eqb x y && beq_bytes a' b'
  | _, _ => false
  end.

Definition toy_kdf (s : N) (l : bytes) : N := code (s :: l).
Definition toy_tag (k : N) (n a p : bytes) : bytes := code [k; code n; code a; code p] :: repeat 0%N 15.
Definition toy_enc (k : N) (n a p : bytes) : bytes := p ++ toy_tag k n a p.
(* [hon] decides the predicate [honest] of DemIdeal: constantly true = the real-scheme reading,
   membership in a log = the ideal (INT-CTXT) reading *)
Definition toy_dec (hon : N -> bytes -> bytes -> bytes -> bool) (k : N) (n a c : bytes) : option bytes :=
  if length c <? MAC_LENGTH then None
  else let p := firstn (length c - MAC_LENGTH) c in
       if beq_bytes (skipn (length c - MAC_LENGTH) c) (toy_tag k n a p) && hon k n a p then Some p else None.
Definition hon_all : N -> bytes -> bytes -> bytes -> bool := fun _ _ _ _ => true.
Definition hon_one (k0 : N) (n0 a0 p0 : bytes) : N -> bytes -> bytes -> bytes -> bool :=
  fun k n a p => N.eqb k k0 && beq_bytes n n0 && beq_bytes a a0 && beq_bytes p p0.
(* user key u opens encapsulation e iff u = e; the seed is e + 1000 *)
Definition toy_decaps (usk enc : N) : option N := if N.eqb usk enc then Some (enc + 1000)%N else None.
Definition toy_fresh (i : nat) : bytes := N.of_nat i :: repeat 0%N 11.
