(* Prototype proofs (scratch): every structure edit of the repaired model preserves well-formedness,
   and attribute identifiers are never reused (C03) *)
From Coq Require Import List NArith Bool Arith Lia Permutation.
Require Import Policy Structure SelProofs GoodProofs AssocLemmas CoverProofs1 HierProofs.
Import ListNotations.

Definition wfb (st : structure) : Prop :=
  wf_structure st /\ forall i, In i (all_ids (map snd (dims st))) -> (i < next_id st)%N.

Lemma keys_areplace {A} d (v : A) l : map fst (areplace d v l) = map fst l.
Proof. induction l as [|[k x] l IH]; cbn; [reflexivity|]. destruct (str_eqb d k) eqn:E; cbn; [apply str_eqb_eq in E; subst; reflexivity|rewrite IH; reflexivity]. Qed.

Lemma areplace_split {A} d (v v' : A) l : NoDup (map fst l) -> alookup d l = Some v ->
  exists pre post, l = pre ++ (d, v) :: post /\ areplace d v' l = pre ++ (d, v') :: post.
Proof.
  induction l as [|[k x] l IH]; cbn; intros Hnd H; [discriminate|].
  destruct (str_eqb d k) eqn:E.
  - apply str_eqb_eq in E. subst k. inversion H; subst. exists [], l. split; reflexivity.
  - inversion Hnd as [|? ? _ Hnd']; subst. destruct (IH Hnd' H) as (pre & post & -> & E2). exists ((k, x) :: pre), post. cbn. rewrite E2. split; reflexivity.
Qed.

Lemma all_ids_app a b : all_ids (a ++ b) = all_ids a ++ all_ids b.
Proof. unfold all_ids. apply flat_map_app. Qed.

(* replacing the ids X of one dimension by X', every element of which is an old id of that dimension or fresh *)
Lemma NoDup_replace_middle (A X X' B : list N) :
  NoDup (A ++ X ++ B) -> NoDup X' -> (forall i, In i X' -> In i X \/ ~ In i (A ++ X ++ B)) -> NoDup (A ++ X' ++ B).
Proof.
  intros Hnd Hx' Hsub.
  assert (HA : NoDup A) by (eapply NoDup_app_remove_r; exact Hnd).
  assert (HXB : NoDup (X ++ B)) by (eapply NoDup_app_remove_l; exact Hnd).
  assert (HB : NoDup B) by (eapply NoDup_app_remove_l; exact HXB).
  apply NoDup_app_intro; [exact HA| |].
  - apply NoDup_app_intro; [exact Hx'|exact HB|]. intros i Hi HiB. destruct (Hsub i Hi) as [HiX|Hf].
    + eapply NoDup_app_disjoint; [exact HXB|exact HiX|exact HiB].
    + apply Hf. apply in_app_iff. right. apply in_app_iff. right. exact HiB.
  - intros i HiA Hi. apply in_app_iff in Hi. destruct Hi as [Hi|HiB].
    + destruct (Hsub i Hi) as [HiX|Hf].
      * eapply NoDup_app_disjoint; [exact Hnd|exact HiA|apply in_app_iff; left; exact HiX].
      * apply Hf. apply in_app_iff. left. exact HiA.
    + eapply NoDup_app_disjoint; [exact Hnd|exact HiA|apply in_app_iff; right; exact HiB].
Qed.

(* generic preservation: replace dimension d by dm' whose names are distinct and whose ids are old ids of d or the fresh next_id *)
Lemma wfb_replace st d dm dm' bump :
  wfb st -> alookup d (dims st) = Some dm ->
  NoDup (names_of (attrs_of dm')) -> NoDup (dim_ids dm') ->
  (forall i, In i (dim_ids dm') -> In i (dim_ids dm) \/ (bump = true /\ i = next_id st)) ->
  wfb {| dims := areplace d dm' (dims st); next_id := if bump then N.succ (next_id st) else next_id st |}.
Proof.
  intros ((Hn & Hnames & Hids) & Hb) Hd Hn' Hi' Hsub.
  destruct (areplace_split d dm dm' (dims st) Hn Hd) as (pre & post & El & Er).
  assert (Hall : all_ids (map snd (dims st)) = all_ids (map snd pre) ++ dim_ids dm ++ all_ids (map snd post)).
  { rewrite El, map_app, all_ids_app. cbn. reflexivity. }
  assert (Hall' : all_ids (map snd (areplace d dm' (dims st))) = all_ids (map snd pre) ++ dim_ids dm' ++ all_ids (map snd post)).
  { rewrite Er, map_app, all_ids_app. cbn. reflexivity. }
  split; [split; [|split]|]; cbn [dims next_id].
  - rewrite keys_areplace. exact Hn.
  - intros k v Hin. rewrite Er in Hin. apply in_app_iff in Hin. destruct Hin as [Hin|[E|Hin]].
    + eapply Hnames. rewrite El. apply in_app_iff. left. exact Hin.
    + inversion E; subst. exact Hn'.
    + eapply Hnames. rewrite El. apply in_app_iff. right. right. exact Hin.
  - rewrite Hall'. rewrite Hall in Hids. apply (NoDup_replace_middle _ (dim_ids dm)); [exact Hids|exact Hi'|].
    intros i Hi. destruct (Hsub i Hi) as [Ho|[_ ->]]; [left; exact Ho|right]. intros Hin. rewrite <- Hall in Hin. apply Hb in Hin. lia.
  - intros i Hi. rewrite Hall' in Hi.
    assert (Hold : In i (all_ids (map snd (dims st))) \/ (bump = true /\ i = next_id st)).
    { rewrite Hall. rewrite !in_app_iff in *. destruct Hi as [Hi|[Hi|Hi]]; [left; tauto| |left; tauto].
      destruct (Hsub i Hi) as [Ho|Hf]; [left; tauto|right; exact Hf]. }
    destruct Hold as [Ho|[-> ->]]; [apply Hb in Ho; destruct bump; lia|lia].
Qed.

Lemma Permutation_NoDup_map {A B} (f : A -> B) l l' : Permutation l l' -> NoDup (map f l) -> NoDup (map f l').
Proof. intros Hp. apply Permutation_NoDup. apply Permutation_map. exact Hp. Qed.

(* C03: adding an attribute (repaired id allocation) *)
Theorem add_attribute_wfb st d n hyb after st' :
  wfb st -> add_attribute true d n hyb after st = Ok st' -> wfb st'.
Proof.
  intros Hwf H. unfold add_attribute in H. destruct (alookup d (dims st)) as [dm|] eqn:Ed; [|discriminate].
  destruct (dim_add_attribute dm n hyb after (next_id st)) as [dm'| | |] eqn:Ea; try discriminate. inversion H; subst; clear H.
  pose proof Hwf as ((Hn & Hnames & Hids) & Hb).
  assert (Hndm : NoDup (names_of (attrs_of dm))) by (eapply Hnames; apply alookup_In; exact Ed).
  assert (Hidm : NoDup (dim_ids dm)).
  { eapply all_ids_dim_NoDup; [exact Hids|]. apply in_map_iff. exists (d, dm). split; [reflexivity|apply alookup_In; exact Ed]. }
  assert (Hfresh : ~ In (next_id st) (dim_ids dm)).
  { intros Hin. assert (Hlt : (next_id st < next_id st)%N); [|lia]. apply Hb. unfold all_ids. apply in_flat_map. exists dm. split; [|exact Hin].
    apply in_map_iff. exists (d, dm). split; [reflexivity|apply alookup_In; exact Ed]. }
  (* in every case the new attribute list is a permutation of (n, new) :: old *)
  assert (Hperm : exists l', attrs_of dm' = l' /\ Permutation ((n, newattr (next_id st) hyb) :: attrs_of dm) l' /\ ~ In n (names_of (attrs_of dm))).
  { destruct dm as [l|l]; cbn [dim_add_attribute] in Ea.
    - destruct (amem n l) eqn:Em; [discriminate|]. inversion Ea; subst. cbn [attrs_of]. eexists. split; [reflexivity|]. split.
      + apply Permutation_cons_append.
      + apply amem_false. exact Em.
    - destruct (amem n l) eqn:Em; [discriminate|].
      destruct (match after with Some a => negb (amem a l) | None => false end) eqn:Eb; [discriminate|].
      assert (Hnn : ~ In n (keys l)) by (apply amem_false; exact Em).
      assert (Haft : forall a, after = Some a -> In a (keys l)).
      { intros a ->. apply negb_false_iff in Eb. apply amem_true. exact Eb. }
      destruct (hier_insert_spec l n hyb after (next_id st) Hndm Hnn Haft) as [(L & x & R & El & _ & _ & Hr)|(_ & _ & Hr)].
      + unfold dim_add_attribute in Hr. rewrite Em, Eb in Hr. rewrite Hr in Ea. inversion Ea; subst. cbn [attrs_of]. eexists. split; [reflexivity|]. split; [|exact Hnn].
        change (L ++ x :: (n, newattr (next_id st) hyb) :: R) with (L ++ [x] ++ (n, newattr (next_id st) hyb) :: R).
        rewrite app_assoc. replace (L ++ x :: R) with ((L ++ [x]) ++ R) by (rewrite <- app_assoc; reflexivity). apply Permutation_middle.
      + unfold dim_add_attribute in Hr. rewrite Em, Eb in Hr. rewrite Hr in Ea. inversion Ea; subst. cbn [attrs_of]. eexists. split; [reflexivity|]. split; [reflexivity|exact Hnn]. }
  destruct Hperm as (l' & El' & Hp & Hnn).
  apply (wfb_replace st d dm dm' true Hwf Ed).
  - rewrite El'. unfold names_of. eapply Permutation_NoDup_map; [exact Hp|]. cbn. constructor; assumption.
  - rewrite dim_ids_ids_of, El'. unfold ids_of. eapply Permutation_NoDup_map; [exact Hp|]. cbn. constructor; assumption.
  - intros i Hi. rewrite dim_ids_ids_of, El' in Hi. unfold ids_of in Hi.
    eapply Permutation_in in Hi; [|apply Permutation_map; symmetry; exact Hp]. cbn in Hi. destruct Hi as [<-|Hi]; [right; split; reflexivity|left; exact Hi].
Qed.

(* identifiers are never reused: the id given to a new attribute is above every id handed out so far *)
Corollary new_id_is_fresh st : wfb st -> forall i, In i (all_ids (map snd (dims st))) -> (i < next_id st)%N.
Proof. intros [_ H]. exact H. Qed.
Print Assumptions add_attribute_wfb.
