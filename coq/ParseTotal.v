From Coq Require Import List NArith Bool Arith Lia.
Require Import Policy.
Import ListNotations.

Lemma utf8_len_pos c : (1 <= utf8_len c)%nat.
Proof. unfold utf8_len. repeat (destruct (_ <? _)%N); lia. Qed.

Lemma slice_to_blen : forall s k, (k <= length s)%nat -> slice_to s (blen (firstn k s)) = Ok (firstn k s).
Proof.
  induction s as [|c t IH]; intros k Hk.
  - destruct k; reflexivity.
  - destruct k as [|k]; [reflexivity|].
    cbn [firstn blen slice_to].
    pose proof (utf8_len_pos c) as Hp.
    destruct (Nat.eqb (utf8_len c + blen (firstn k t)) 0) eqn:E0; [apply Nat.eqb_eq in E0; lia|].
    destruct (Nat.leb (utf8_len c) (utf8_len c + blen (firstn k t))) eqn:E1; [|apply Nat.leb_gt in E1; lia].
    replace (utf8_len c + blen (firstn k t) - utf8_len c)%nat with (blen (firstn k t)) by lia.
    rewrite IH by (cbn in Hk; lia). reflexivity.
Qed.

Lemma slice_from_blen : forall s k, (k <= length s)%nat -> slice_from s (blen (firstn k s)) = Ok (skipn k s).
Proof.
  induction s as [|c t IH]; intros k Hk.
  - destruct k; reflexivity.
  - destruct k as [|k]; [reflexivity|].
    cbn [firstn blen slice_from skipn].
    pose proof (utf8_len_pos c) as Hp.
    destruct (Nat.eqb (utf8_len c + blen (firstn k t)) 0) eqn:E0; [apply Nat.eqb_eq in E0; lia|].
    destruct (Nat.leb (utf8_len c) (utf8_len c + blen (firstn k t))) eqn:E1; [|apply Nat.leb_gt in E1; lia].
    replace (utf8_len c + blen (firstn k t) - utf8_len c)%nat with (blen (firstn k t)) by lia.
    apply IH. cbn in Hk; lia.
Qed.

(* find_close returns the byte offset of a character position *)
Lemma find_close_spec : forall s depth ci bi ci' bi',
    find_close s depth ci bi = Some (ci', bi') ->
    exists k, (k < length s)%nat /\ bi' = (bi + blen (firstn k s))%nat /\ nth k s 0%N = 41%N.
Proof.
  induction s as [|c t IH]; intros depth ci bi ci' bi' H; [discriminate|].
  cbn [find_close] in H.
  destruct (c =? 40)%N eqn:E40.
  - apply IH in H. destruct H as (k & Hk & Hb & Hn). exists (S k). cbn. repeat split; [lia|lia|exact Hn].
  - destruct (c =? 41)%N eqn:E41.
    + destruct depth as [|d].
      * inversion H; subst. exists 0%nat. cbn. apply N.eqb_eq in E41. repeat split; [lia|lia|exact E41].
      * apply IH in H. destruct H as (k & Hk & Hb & Hn). exists (S k). cbn. repeat split; [lia|lia|exact Hn].
    + apply IH in H. destruct H as (k & Hk & Hb & Hn). exists (S k). cbn. repeat split; [lia|lia|exact Hn].
Qed.

Lemma slice_from_0 s : slice_from s 0 = Ok s.
Proof. destruct s; reflexivity. Qed.

Lemma utf8_len_ascii c : (c <? 128)%N = true -> utf8_len c = 1%nat.
Proof. intros H. unfold utf8_len. rewrite H. reflexivity. Qed.

Lemma qattr_of_str_no_panic s : qattr_of_str s <> Panic /\ qattr_of_str s <> Hang.
Proof.
  unfold qattr_of_str. destruct (split_once s) as [[d c]|]; [|split; discriminate].
  destruct (contains_sep c); [split; discriminate|].
  destruct d; [split; discriminate|]. destruct c; split; discriminate.
Qed.

(* The repaired parser never panics: every byte offset it slices at is a character boundary. *)
Theorem parse_never_panics : forall fuel e q, parse_fuel true fuel e q <> Panic.
Proof.
  induction fuel as [|f IH]; intros e q; cbn [parse_fuel]; [discriminate|].
  destruct (trim e) as [|c0 e1] eqn:Et.
  - destruct q; discriminate.
  - destruct (str_eqb (c0 :: e1) [42%N]); [discriminate|].
    cbn [negb andb].
    destruct (c0 =? 40)%N eqn:E40.
    + destruct (find_close e1 0 0 0) as [[ci bi]|] eqn:Ef; [|discriminate].
      apply find_close_spec in Ef. destruct Ef as (k & Hk & Hb & Hn). cbn in Hb. subst bi.
      apply N.eqb_eq in E40. subst c0.
      (* slice ('(' :: e1) 1 (1 + blen (firstn k e1)) *)
      unfold slice. cbn [slice_from utf8_len]. cbn.
      rewrite slice_from_0.
      replace (blen (firstn k e1) - 0)%nat with (blen (firstn k e1)) by lia.
      rewrite slice_to_blen by lia.
      destruct (parse_fuel true f (firstn k e1) []) eqn:Ep; try discriminate; [|exfalso; eapply IH; exact Ep].
      assert (Hs : slice_from e1 (S (blen (firstn k e1))) = Ok (skipn (S k) e1)).
      { replace (S (blen (firstn k e1))) with (blen (firstn (S k) e1)).
        - apply slice_from_blen. lia.
        - clear - Hk Hn. revert k Hk Hn. induction e1 as [|c t IHt]; intros k Hk Hn; [cbn in Hk; lia|].
          destruct k as [|k].
          + cbn in Hn. subst c. reflexivity.
          + cbn [firstn blen]. cbn [nth] in Hn. cbn [length] in Hk.
            specialize (IHt k ltac:(lia) Hn). cbn [firstn blen] in IHt. lia. }
      rewrite Hs. apply IH.
    + destruct (c0 =? 124)%N.
      * destruct e1 as [|c1 e2]; [discriminate|]. destruct (negb (c1 =? 124)%N); [discriminate|].
        destruct q; [discriminate|].
        destruct (parse_fuel true f e2 []) eqn:Ep; try discriminate. exfalso; eapply IH; exact Ep.
      * destruct (c0 =? 38)%N.
        -- destruct e1 as [|c1 e2]; [discriminate|]. destruct (negb (c1 =? 38)%N); [discriminate|].
           destruct q; [discriminate|]. apply IH.
        -- destruct (c0 =? 41)%N; [discriminate|].
           destruct (qattr_of_str (take_attr (c0 :: e1))) eqn:Eq; try discriminate.
           ++ apply IH.
           ++ exfalso. eapply (proj1 (qattr_of_str_no_panic _)). exact Eq.
Qed.
Print Assumptions parse_never_panics.
