(* Part 7: C11 -- the flavour (hybridized or classic) of every secret is determined by its right, for ever. *)
From Coq Require Import List NArith Bool Arith Lia Permutation.
From CC Require Import Policy Structure Keys KeysMachine SelProofs GoodProofs AssocLemmas CoverProofs1
                       RefreshProofs DisabledProofs KInv1 KInv3 KInv6.
Import ListNotations.
Local Open Scope N_scope.

(* ghost: H i = the flavour of the attribute that was given identifier i *)
Definition hyb_of (H : N -> bool) (r : rightk) : bool := existsb H r.
Definition st_flav (H : N -> bool) (st : structure) : Prop := forall att, att_in st att -> a_hyb att = H (a_id att).
Definition ids_below (n : N) (r : rightk) : Prop := forall i, In i r -> i < n.

Lemma existsb_perm {A} (f : A -> bool) l l' : Permutation l l' -> existsb f l = existsb f l'.
Proof.
  intros Hp. destruct (existsb f l) eqn:E; symmetry.
  - apply existsb_exists in E. destruct E as (x & Hx & Hf). apply existsb_exists. exists x. split; [eapply Permutation_in; eassumption|exact Hf].
  - destruct (existsb f l') eqn:E'; [|reflexivity]. apply existsb_exists in E'. destruct E' as (x & Hx & Hf).
    assert (E2 : existsb f l = true) by (apply existsb_exists; exists x; split; [eapply Permutation_in; [symmetry; exact Hp|exact Hx]|exact Hf]). congruence.
Qed.

(* the hint computed by [combine] for a point is the disjunction of the flavours of its attributes *)
Lemma combine_flav (H : N -> bool) : forall ds ids h e,
  (forall d n att, In d ds -> In (n, att) (attrs_of d) -> a_hyb att = H (a_id att)) ->
  In (ids, h, e) (combine ds) ->
  h = existsb H ids /\ forall i, In i ids -> exists d n att, In d ds /\ In (n, att) (attrs_of d) /\ a_id att = i.
Proof.
  induction ds as [|d rest IH]; intros ids h e HH Hin; cbn [combine] in Hin.
  - destruct Hin as [E|[]]. inversion E; subst. split; [reflexivity|intros i []].
  - assert (HH' : forall d0 n att, In d0 rest -> In (n, att) (attrs_of d0) -> a_hyb att = H (a_id att)) by (intros; eapply HH; [right; eassumption|eassumption]).
    apply in_app_iff in Hin. destruct Hin as [Hin|Hin].
    + destruct (IH _ _ _ HH' Hin) as [E1 E2]. split; [exact E1|]. intros i Hi. destruct (E2 i Hi) as (d0 & n & att & H1 & H2 & H3).
      exists d0, n, att. repeat split; [right; exact H1|exact H2|exact H3].
    + apply in_flat_map in Hin. destruct Hin as ([n0 att0] & Hna & Hin). apply in_map_iff in Hin. destruct Hin as ([[ids' h'] e'] & E & Hpc).
      cbn in E. inversion E; subst; clear E. destruct (IH _ _ _ HH' Hpc) as [E1 E2]. split.
      * cbn [existsb]. rewrite E1, (HH d n0 att0 (or_introl eq_refl) Hna). apply orb_comm.
      * intros i [<-|Hi]; [exists d, n0, att0; repeat split; [left; reflexivity|exact Hna]|].
        destruct (E2 i Hi) as (d0 & n & att & H1 & H2 & H3). exists d0, n, att. repeat split; [right; exact H1|exact H2|exact H3].
Qed.

Lemma omega_map_flav H st r h e : st_flav H st -> In (r, (h, e)) (omega_map st) ->
  h = hyb_of H r /\ forall i, In i r -> exists att, att_in st att /\ a_id att = i.
Proof.
  intros Hf Hin. apply omega_map_sub in Hin. unfold omega in Hin. apply in_map_iff in Hin. destruct Hin as ([[ids h'] e'] & E & Hc).
  inversion E; subst; clear E. destruct (combine_flav H (map snd (dims st)) ids h e) as [E1 E2]; [|exact Hc|].
  - intros d n att Hd Hn. apply Hf. exists d, n. split; assumption.
  - split.
    + rewrite E1. unfold hyb_of, right_of_point. apply existsb_perm. symmetry. apply sort_perm.
    + intros i Hi. assert (Hi' : In i ids) by (eapply Permutation_in; [apply sort_perm|exact Hi]).
      destruct (E2 i Hi') as (d & n & att & H1 & H2 & H3). exists att. split; [exists d, n; split; assumption|exact H3].
Qed.

(* ---------------------------------------------------------------- the invariant *)
Definition sec_ok (H : N -> bool) (n : N) (r : rightk) (sk : secret) : Prop := ids_below n r /\ s_hyb sk = hyb_of H r.
Record FlavInv (H : N -> bool) (s : state) : Prop := {
  fi_st  : st_flav H (m_st (st_msk s));
  fi_lt  : ids_lt (m_st (st_msk s));
  fi_msk : forall r ch fl sk, In (r, ch) (m_secrets (st_msk s)) -> In (fl, sk) ch -> sec_ok H (next_id (m_st (st_msk s))) r sk;
  fi_mpk : forall pk r sk, In pk (st_mpks s) -> In (r, sk) (p_keys pk) -> sec_ok H (next_id (m_st (st_msk s))) r sk;
  fi_usk : forall u r ch sk, In u (st_usks s) -> In (r, ch) (u_chains u) -> In sk ch -> sec_ok H (next_id (m_st (st_msk s))) r sk }.
Definition Flav (s : state) : Prop := exists H, FlavInv H s.

Definition chains_ok (H : N -> bool) (n : N) (secs : chains) : Prop :=
  forall r ch fl sk, In (r, ch) secs -> In (fl, sk) ch -> sec_ok H n r sk.

Lemma downgrade_id H n r hyb sk : sec_ok H n r sk -> hyb = hyb_of H r -> downgrade hyb sk = sk.
Proof. intros [_ E] ->. unfold downgrade. rewrite <- E. destruct sk as [t [|]]; reflexivity. Qed.

Lemma upd_loop_flav H st secs ctr secs' ctr' : st_flav H st -> ids_lt st -> nonempty_chains secs ->
  chains_ok H (next_id st) secs -> upd_loop (omega_map st) secs ctr = ROk (secs', ctr') -> chains_ok H (next_id st) secs'.
Proof.
  intros Hf Hlt Hne Hc Hu.
  destruct (upd_loop_ind (omega_map st) (fun secs _ => chains_ok H (next_id st) secs)) with (3 := incl_refl (omega_map st)) (6 := Hu) as [HQ _]; try assumption.
  - intros r hyb enc fl s older secs0 c Hin El HQ r' ch' fl' sk' Hin' Hsk'. apply rreplace_In in Hin'. destruct Hin' as [E|Hin']; [|eapply HQ; eassumption].
    inversion E; subst r' ch'; clear E. apply rlookup_In in El. destruct (omega_map_flav H st r hyb enc Hf Hin) as [Eh _].
    assert (Hs : sec_ok H (next_id st) r s) by (eapply HQ; [exact El|left; reflexivity]).
    destruct Hsk' as [E|Hsk'].
    + inversion E; subst. rewrite (downgrade_id H _ r _ s Hs eq_refl). exact Hs.
    + eapply HQ; [exact El|right; exact Hsk'].
  - intros r hyb secs0 c Hin El HQ r' ch' fl' sk' Hin' Hsk'. apply in_app_iff in Hin'. destruct Hin' as [Hin'|[E|[]]]; [eapply HQ; eassumption|].
    inversion E; subst r' ch'; clear E. destruct Hsk' as [E|[]]. inversion E; subst. destruct (omega_map_flav H st r hyb true Hf Hin) as [Eh Hids].
    split; [|exact Eh]. intros i Hi. destruct (Hids i Hi) as (att & Ha & <-). apply Hlt. exact Ha.
Qed.

(* the front secret is not modified by an update in a reachable state (the hybridization is never dropped) *)
Lemma rekey_loop_flav H n rs secs ctr : chains_ok H n secs -> chains_ok H n (fst (rekey_loop fixed rs secs ctr)).
Proof.
  intros Hc. apply (rekey_loop_ind (fun secs _ => chains_ok H n secs)); [|exact Hc].
  intros r fl s older secs0 c El HQ r' ch' fl' sk' Hin' Hsk'. apply rreplace_In in Hin'. destruct Hin' as [E|Hin']; [|eapply HQ; eassumption].
  inversion E; subst r' ch'; clear E. apply rlookup_In in El. destruct Hsk' as [E|Hsk']; [|eapply HQ; eassumption].
  inversion E; subst fl' sk'. destruct (HQ r _ fl s El (or_introl eq_refl)) as [H1 H2]. split; [exact H1|exact H2].
Qed.

Lemma mk_mpk_In m r sk : In (r, sk) (p_keys (mk_mpk m)) -> exists older, In (r, (true, sk) :: older) (m_secrets m).
Proof.
  unfold mk_mpk. cbn [p_keys]. intros Hin. apply in_flat_map in Hin. destruct Hin as ([r' ch] & Hin & Hx).
  destruct ch as [|[[|] s'] older]; try destruct Hx as [E|[]]; try destruct Hx. inversion E; subst. exists older. exact Hin.
Qed.

Lemma sec_ok_mono H n n' r sk : n <= n' -> sec_ok H n r sk -> sec_ok H n' r sk.
Proof. intros Hn [H1 H2]. split; [|exact H2]. intros i Hi. specialize (H1 i Hi). lia. Qed.

(* a structure edit: extend H at the fresh identifier *)
Definition H_ext (H : N -> bool) (n : N) (b : bool) : N -> bool := fun i => if i =? n then b else H i.
Lemma hyb_of_ext H n b r : ids_below n r -> hyb_of (H_ext H n b) r = hyb_of H r.
Proof.
  intros Hb. unfold hyb_of. induction r as [|i r IH]; [reflexivity|]. cbn [existsb]. rewrite IH by (intros j Hj; apply Hb; right; exact Hj).
  unfold H_ext at 1. destruct (i =? n) eqn:E; [|reflexivity]. apply N.eqb_eq in E. specialize (Hb i (or_introl eq_refl)). lia.
Qed.
Lemma sec_ok_ext H n b r sk : sec_ok H n r sk -> sec_ok (H_ext H n b) n r sk.
Proof. intros [H1 H2]. split; [exact H1|]. rewrite hyb_of_ext by exact H1. exact H2. Qed.

(* only add_attribute changes next_id, and it adds exactly one attribute *)
Lemma add_attribute_fresh d n hyb after st st' : add_attribute true d n hyb after st = Ok st' ->
  next_id st' = N.succ (next_id st) /\
  forall att', att_in st' att' -> att_in st att' \/ att' = {| a_id := next_id st; a_hyb := hyb; a_enc := true |}.
Proof.
  unfold add_attribute. destruct (alookup d (dims st)) as [dm|] eqn:Ed; [|discriminate].
  destruct (dim_add_attribute dm n hyb after (next_id st)) as [dm'| | |] eqn:Ea; try discriminate. intros E. inversion E; subst; clear E.
  split; [reflexivity|]. intros att' (dm0 & n0 & Hdm0 & Hin). cbn [dims] in Hdm0. apply dims_areplace_In in Hdm0. destruct Hdm0 as [->|Hdm0].
  - destruct (dim_add_attribute_In _ _ _ _ _ _ Ea n0 att' Hin) as [->|Hold]; [right; reflexivity|left].
    exists dm, n0. split; [eapply dims_alookup_In; exact Ed|exact Hold].
  - left. exists dm0, n0. split; assumption.
Qed.

Lemma edit_dim_next d f st st' : edit_dim d f st = Ok st' -> next_id st' = next_id st.
Proof. unfold edit_dim. destruct (alookup d (dims st)); [|discriminate]. destruct (f d0); [|discriminate]. intros E. inversion E. reflexivity. Qed.
Lemma add_dim_next mk d st st' : add_dim mk d st = Ok st' -> next_id st' = next_id st.
Proof. unfold add_dim. destruct (amem d (dims st)); [discriminate|]. intros E. inversion E. reflexivity. Qed.
Lemma del_dimension_next d st st' : del_dimension d st = Ok st' -> next_id st' = next_id st.
Proof. unfold del_dimension. destruct (amem d (dims st)); [|discriminate]. intros E. inversion E. reflexivity. Qed.

Lemma st_flav_same H st st' : edit_rel st st' -> next_id st' = next_id st -> st_flav H st -> st_flav H st'.
Proof.
  intros [_ Hrel] En Hf att' Hin. destruct (Hrel att' Hin) as [(att & Ha & Hid & Hh & _)|[_ Hlt']]; [|lia]. rewrite <- Hh, <- Hid. apply Hf. exact Ha.
Qed.

Lemma FlavInv_with_st H H' s t :
  FlavInv H s -> st_flav H' t -> ids_lt t ->
  (forall r sk, sec_ok H (next_id (m_st (st_msk s))) r sk -> sec_ok H' (next_id t) r sk) -> FlavInv H' (with_st s t).
Proof.
  intros [F1 F2 F3 F4 F5] Hf Hlt Hm. constructor; cbn [with_st with_msk st_msk m_st m_secrets st_mpks st_usks]; try assumption.
  - intros r ch fl sk H1 H2. apply Hm. eapply F3; eassumption.
  - intros pk r sk H1 H2. apply Hm. eapply F4; eassumption.
  - intros u r ch sk H1 H2 H3. apply Hm. eapply F5; eassumption.
Qed.

Lemma FlavInv_edit_same H s r : FlavInv H s ->
  (forall t, r = Ok t -> edit_rel (m_st (st_msk s)) t /\ next_id t = next_id (m_st (st_msk s))) -> FlavInv H (fst (edit s r)).
Proof.
  intros HF Hr. destruct r as [t| | |]; cbn; try exact HF. destruct (Hr t eq_refl) as [Hrel En]. pose proof HF as [F1 F2 _ _ _].
  apply (FlavInv_with_st H H); [exact HF|eapply st_flav_same; eassumption|eapply edit_rel_ids_lt; eassumption|]. intros r0 sk. rewrite En. tauto.
Qed.

Lemma FlavInv_same_st H s s' : FlavInv H s -> m_st (st_msk s') = m_st (st_msk s) ->
  chains_ok H (next_id (m_st (st_msk s))) (m_secrets (st_msk s')) ->
  (forall pk r sk, In pk (st_mpks s') -> In (r, sk) (p_keys pk) -> sec_ok H (next_id (m_st (st_msk s))) r sk) ->
  (forall u r ch sk, In u (st_usks s') -> In (r, ch) (u_chains u) -> In sk ch -> sec_ok H (next_id (m_st (st_msk s))) r sk) ->
  FlavInv H s'.
Proof. intros [F1 F2 F3 F4 F5] E H1 H2 H3. constructor; rewrite E; assumption. Qed.

Lemma mpk_ok H n m : chains_ok H n (m_secrets m) -> forall r sk, In (r, sk) (p_keys (mk_mpk m)) -> sec_ok H n r sk.
Proof. intros Hc r sk Hin. destruct (mk_mpk_In _ _ _ Hin) as (older & Hm). eapply Hc; [exact Hm|left; reflexivity]. Qed.

Lemma push_ok H n (mpks : list mpk) m :
  (forall pk r sk, In pk mpks -> In (r, sk) (p_keys pk) -> sec_ok H n r sk) -> chains_ok H n (m_secrets m) ->
  forall pk r sk, In pk (mpks ++ [mk_mpk m]) -> In (r, sk) (p_keys pk) -> sec_ok H n r sk.
Proof. intros H1 H2 pk r sk Hin Hk. apply in_app_iff in Hin. destruct Hin as [Hin|[<-|[]]]; [eapply H1; eassumption|eapply mpk_ok; eassumption]. Qed.

Lemma update_msk_flav H m ctr r m' c : st_flav H (m_st m) -> ids_lt (m_st m) -> nonempty_chains (m_secrets m) ->
  chains_ok H (next_id (m_st m)) (m_secrets m) -> update_msk fixed m ctr = (r, m', c) ->
  chains_ok H (next_id (m_st m)) (m_secrets m') /\ m_st m' = m_st m.
Proof.
  intros Hf Hlt Hne Hc Hu. rewrite update_msk_fixed in Hu. destruct (upd_loop _ _ _) as [[secs c']|] eqn:Eu.
  - cbn in Hu. inversion Hu; subst; clear Hu. cbn [m_secrets m_st]. split; [|reflexivity].
    eapply upd_loop_flav; [exact Hf|exact Hlt| | |exact Eu].
    + intros r0 ch Hin. apply filter_In in Hin. eapply Hne. apply Hin.
    + intros r0 ch fl sk Hin. apply filter_In in Hin. eapply Hc. apply Hin.
  - inversion Hu; subst. split; [exact Hc|reflexivity].
Qed.

Lemma FlavInv_init : FlavInv (fun _ => false) init.
Proof. constructor; cbn; try (intros; contradiction). - intros att (dm & n & [] & _). - intros att (dm & n & [] & _). Qed.

Theorem Flav_step s o : I1 s -> Flav s -> Flav (fst (step fixed s o)).
Proof.
  intros [Hne Hnd Hune] [H HF]. pose proof HF as [F1 F2 F3 F4 F5]. destruct o; cbn [step].
  - (* OSetup *) exists (fun _ => false).
    destruct (update_msk fixed empty_msk 0) as [[r m'] c] eqn:E.
    assert (He1 : st_flav (fun _ => false) (m_st empty_msk)) by (intros att (dm & n & [] & _)).
    assert (He2 : ids_lt (m_st empty_msk)) by (intros att (dm & n & [] & _)).
    assert (He3 : nonempty_chains (m_secrets empty_msk)) by (intros ? ? []).
    assert (He4 : chains_ok (fun _ => false) (next_id (m_st empty_msk)) (m_secrets empty_msk)) by (intros ? ? ? ? []).
    destruct (update_msk_flav (fun _ => false) empty_msk 0 r m' c He1 He2 He3 He4 E) as [Hc Hst].
    constructor; cbn [fst push_mpk st_msk st_mpks st_usks app]; rewrite ?Hst; try assumption.
    + intros pk r0 sk [<-|[]] Hk. eapply mpk_ok; eassumption.
    + intros u r0 ch sk [].
  - exists H. apply FlavInv_edit_same; [exact HF|]. intros t E. split; [eapply add_dim_rel; [|exact E]; reflexivity|eapply add_dim_next; exact E].
  - exists H. apply FlavInv_edit_same; [exact HF|]. intros t E. split; [eapply add_dim_rel; [|exact E]; reflexivity|eapply add_dim_next; exact E].
  - exists H. apply FlavInv_edit_same; [exact HF|]. intros t E. split; [eapply del_dimension_rel; exact E|eapply del_dimension_next; exact E].
  - (* OAddAttr *) cbn [fx_ids fixed KeysMachine.fx_all].
    destruct (add_attribute true d n hyb after (m_st (st_msk s))) as [t| | |] eqn:E; cbn; try (exists H; exact HF).
    destruct (add_attribute_fresh _ _ _ _ _ _ E) as [En Hatt]. exists (H_ext H (next_id (m_st (st_msk s))) hyb).
    apply (FlavInv_with_st H); [exact HF| | |].
    + intros att' Hin. destruct (Hatt att' Hin) as [Hold| ->].
      * unfold H_ext. pose proof (F2 att' Hold) as Hlt. destruct (a_id att' =? next_id (m_st (st_msk s))) eqn:Eq; [apply N.eqb_eq in Eq; lia|]. apply F1. exact Hold.
      * cbn. unfold H_ext. rewrite N.eqb_refl. reflexivity.
    + eapply edit_rel_ids_lt; [eapply add_attribute_rel; exact E|exact F2].
    + intros r sk Hs. apply sec_ok_mono with (n := next_id (m_st (st_msk s))); [lia|]. apply sec_ok_ext. exact Hs.
  - exists H. apply FlavInv_edit_same; [exact HF|]. intros t E. split; [eapply del_attribute_rel; exact E|eapply edit_dim_next; exact E].
  - exists H. apply FlavInv_edit_same; [exact HF|]. intros t E. split; [eapply rename_attribute_rel; exact E|eapply edit_dim_next; exact E].
  - exists H. apply FlavInv_edit_same; [exact HF|]. intros t E. split; [eapply disable_attribute_rel; exact E|eapply edit_dim_next; exact E].
  - (* OUpdate *) exists H. destruct (update_msk fixed (st_msk s) (st_ctr s)) as [[r m'] c] eqn:E.
    destruct (update_msk_flav H _ _ _ _ _ F1 F2 Hne F3 E) as [Hc Hst].
    destruct r; cbn; (apply (FlavInv_same_st H s); [exact HF|exact Hst|exact Hc| |exact F5]); cbn [push_mpk with_msk_ctr st_mpks st_msk]; [|exact F4].
    apply push_ok; assumption.
  - (* OMpk *) exists H. apply (FlavInv_same_st H s); [exact HF|reflexivity|exact F3| |exact F5]. cbn. apply push_ok; assumption.
  - (* ORekey *) exists H. destruct (usk_rights fixed (m_st (st_msk s)) p) as [rs|]; [|exact HF]. unfold rekey.
    destruct (forallb _ rs); [|cbn; rewrite with_msk_ctr_id; exact HF].
    pose proof (rekey_loop_flav H _ rs _ (st_ctr s) F3) as Hc. destruct (rekey_loop fixed rs (m_secrets (st_msk s)) (st_ctr s)) as [secs c]. cbn in Hc |- *.
    apply (FlavInv_same_st H s); [exact HF|reflexivity|exact Hc| |exact F5]. cbn. apply push_ok; assumption.
  - (* OPrune *) exists H. destruct (usk_rights fixed (m_st (st_msk s)) p) as [rs|]; [|exact HF]. cbn.
    assert (Hc : chains_ok H (next_id (m_st (st_msk s))) (m_secrets (prune (st_msk s) rs))).
    { intros r ch fl sk Hin Hsk. unfold prune in Hin. cbn [m_secrets] in Hin. apply in_map_iff in Hin. destruct Hin as ([r0 ch0] & E & Hin).
      destruct (existsb (list_N_eqb r0) rs); inversion E; subst; (eapply F3; [exact Hin|]); [|exact Hsk].
      rewrite <- (firstn_skipn 1 ch0). apply in_app_iff. left. exact Hsk. }
    apply (FlavInv_same_st H s); [exact HF|reflexivity|exact Hc| |exact F5]. cbn. apply push_ok; assumption.
  - (* OKeygen *) exists H. destruct (usk_rights fixed (m_st (st_msk s)) p) as [rs|]; [|exact HF]. unfold keygen.
    destruct (latest_all (st_msk s) rs) as [chs|] eqn:El; [|cbn; rewrite with_msk_ctr_id; exact HF]. cbn.
    apply (FlavInv_same_st H s); [exact HF|reflexivity|exact F3|exact F4|]. cbn. intros u r ch sk Hin Hch Hsk.
    apply in_app_iff in Hin. destruct Hin as [Hin|[<-|[]]]; [eapply F5; eassumption|]. cbn in Hch.
    destruct (latest_all_spec _ _ _ El) as [_ H2]. destruct (H2 r ch Hch) as (fl & s0 & older & Hl & ->). destruct Hsk as [<-|[]].
    eapply F3; [apply rlookup_In; exact Hl|left; reflexivity].
  - (* ORefresh *) exists H. destruct (nth_error (st_usks s) k) as [u|] eqn:En; [|exact HF].
    destruct (refresh fixed (st_msk s) u keep) as [r u'] eqn:Er. cbn.
    apply (FlavInv_same_st H s); [exact HF|reflexivity|exact F3|exact F4|]. cbn. intros u0 r0 ch sk Hin Hch Hsk.
    apply set_nth_In in Hin. destruct Hin as [->|Hin]; [|eapply F5; eassumption].
    assert (Hu' : u' = snd (refresh fixed (st_msk s) u keep)) by (rewrite Er; reflexivity). rewrite refresh_fixed in Hu'.
    pose proof (nth_error_In _ _ En) as Hu.
    destruct (u_id u) as [id|]; [|subst u'; eapply F5; eassumption]. destruct (negb _); [subst u'; eapply F5; eassumption|].
    cbn in Hu'. subst u'. change (In (r0, ch) (u_chains (refreshed (st_msk s) {| u_id := Some id; u_chains := u_chains u |} keep))) in Hch.
    destruct (refreshed_chain_prefix _ _ _ _ _ Hne Hch) as (mch & uch & j & Hl & _ & _ & ->).
    assert (Hin2 : In sk (map snd mch)) by (rewrite <- (firstn_skipn j (map snd mch)); apply in_app_iff; left; exact Hsk).
    apply in_map_iff in Hin2. destruct Hin2 as ([fl sk0] & E & Hin2). cbn in E. subst sk0. eapply F3; [apply rlookup_In; exact Hl|exact Hin2].
  - exists H. destruct (nth_error (st_mpks s) j) as [pk|]; [|exact HF]. destruct (enc_rights fixed (p_st pk) p) as [rs|]; [|exact HF].
    destruct (encaps_rights pk rs (st_ctr s)) as [[x|] c]; [|exact HF]. cbn. apply (FlavInv_same_st H s); [exact HF|reflexivity|exact F3|exact F4|exact F5].
  - exists H. destruct (nth_error (st_usks s) k) as [u|]; [|exact HF]. destruct (nth_error (st_encs s) e); [|exact HF]. destruct (u_chains u); exact HF.
  - exists H. destruct (nth_error (st_mpks s) j) as [pk|]; [|exact HF]. destruct (nth_error (st_encs s) e) as [x|]; [|exact HF].
    destruct (recaps fixed (st_msk s) pk x (st_ctr s)) as [[x'|] c]; [|exact HF]. cbn. apply (FlavInv_same_st H s); [exact HF|reflexivity|exact F3|exact F4|exact F5].
  - exists H. exact HF.
Qed.

Theorem flavour_exact : forall s, reach s -> Flav s.
Proof.
  intros s Hr. assert (G : I1 s /\ Flav s); [|apply G]. revert s Hr. apply (reach_ind (fun s => I1 s /\ Flav s)).
  - split; [exact I1_init|exists (fun _ => false); exact FlavInv_init].
  - intros s o _ [H1 H2]. split; [apply I1_step; exact H1|apply Flav_step; assumption].
Qed.
Print Assumptions flavour_exact.

(* ---------------------------------------------------------------- property-level statements *)
(* one flavour per right, everywhere in the state: MSK chains, every MPK snapshot, every user key *)
Theorem flavour_by_right s : reach s -> exists F : rightk -> bool,
  (forall r ch fl sk, In (r, ch) (m_secrets (st_msk s)) -> In (fl, sk) ch -> s_hyb sk = F r) /\
  (forall pk r sk, In pk (st_mpks s) -> In (r, sk) (p_keys pk) -> s_hyb sk = F r) /\
  (forall u r ch sk, In u (st_usks s) -> In (r, ch) (u_chains u) -> In sk ch -> s_hyb sk = F r) /\
  (* and F is what the structure says, for every right the structure currently defines *)
  (forall r h e, In (r, (h, e)) (omega_map (m_st (st_msk s))) -> F r = h) /\
  (forall r h e, In (r, (h, e)) (omega_map (m_st (st_msk s))) ->
     (F r = true <-> exists att, att_in (m_st (st_msk s)) att /\ In (a_id att) r /\ a_hyb att = true)).
Proof.
  intros Hr. destruct (flavour_exact s Hr) as [H [F1 F2 F3 F4 F5]]. exists (hyb_of H). repeat split.
  - intros r ch fl sk H1 H2. apply (F3 r ch fl sk H1 H2).
  - intros pk r sk H1 H2. apply (F4 pk r sk H1 H2).
  - intros u r ch sk H1 H2 H3. apply (F5 u r ch sk H1 H2 H3).
  - intros r h e Hin. destruct (omega_map_flav H _ r h e F1 Hin) as [E _]. symmetry. exact E.
  - intros Hh. unfold hyb_of in Hh. apply existsb_exists in Hh. destruct Hh as (i & Hi & HHi).
    destruct (omega_map_flav H _ r h e F1 H0) as [_ Hids]. destruct (Hids i Hi) as (att & Ha & Eid). exists att.
    split; [exact Ha|]. split; [rewrite Eid; exact Hi|]. rewrite (F1 att Ha), Eid. exact HHi.
  - intros (att & Ha & Hi & Hh). unfold hyb_of. apply existsb_exists. exists (a_id att). split; [exact Hi|]. rewrite <- (F1 att Ha). exact Hh.
Qed.
Print Assumptions flavour_by_right.

(* every right of the structure is in the MSK after a successful update *)
Lemma upd_loop_keys : forall rights secs ctr secs' ctr', upd_loop rights secs ctr = ROk (secs', ctr') ->
  (forall r, In r (map fst secs) -> In r (map fst secs')) /\ (forall r v, In (r, v) rights -> In r (map fst secs')).
Proof.
  induction rights as [|[r0 [h e]] rights IH]; intros secs ctr secs' ctr' H; cbn [upd_loop] in H.
  - inversion H; subst. split; [tauto|intros ? ? []].
  - destruct (rlookup r0 secs) as [[|[fl s] older]|] eqn:El.
    + destruct (IH _ _ _ _ H) as [H1 H2]. split; [exact H1|]. intros r v [E|Hin]; [|eapply H2; exact Hin]. inversion E; subst. apply H1. eapply rlookup_Some_key. exact El.
    + destruct (IH _ _ _ _ H) as [H1 H2]. rewrite keys_rreplace in H1. split; [exact H1|]. intros r v [E|Hin]; [|eapply H2; exact Hin].
      inversion E; subst. apply H1. eapply rlookup_Some_key. exact El.
    + destruct (negb e); [discriminate|]. destruct (IH _ _ _ _ H) as [H1 H2]. rewrite map_app in H1. split.
      * intros r Hr. apply H1. apply in_app_iff. left. exact Hr.
      * intros r v [E|Hin]; [|eapply H2; exact Hin]. inversion E; subst. apply H1. apply in_app_iff. right. left. reflexivity.
Qed.

(* C11: after a successful OUpdate every right of the structure has a chain, all of whose secrets (in particular the
   front one) have the flavour the structure's hint gives for that right *)
Theorem update_front_hint s : reach s -> snd (step fixed s OUpdate) = ObOk ->
  let m' := st_msk (fst (step fixed s OUpdate)) in
  forall r h e, In (r, (h, e)) (omega_map (m_st (st_msk s))) ->
  exists fl sk older, rlookup r (m_secrets m') = Some ((fl, sk) :: older) /\ s_hyb sk = h /\
                      forall fl' sk', In (fl', sk') older -> s_hyb sk' = h.
Proof.
  intros Hr Hok m' r h e Hin.
  assert (Hr' : reach (fst (step fixed s OUpdate))) by (apply reach_step; exact Hr).
  destruct (inv14_reach _ Hr') as [[Hne Hnd _] _]. destruct (flavour_by_right _ Hr') as (F & FM & _ & _ & FO & _).
  assert (Hst : m_st m' = m_st (st_msk s)).
  { unfold m'. cbn [step]. pose proof (update_msk_st (st_msk s) (st_ctr s)) as E. destruct (update_msk fixed (st_msk s) (st_ctr s)) as [[r0 m0] c].
    destruct r0; cbn in *; exact E. }
  assert (Hk : In r (map fst (m_secrets m'))).
  { unfold m'. cbn [step] in *. rewrite update_msk_fixed in *. destruct (upd_loop _ _ _) as [[secs c]|] eqn:Eu; [|cbn in Hok; discriminate].
    cbn. destruct (upd_loop_keys _ _ _ _ _ Eu) as [_ H2]. eapply H2. exact Hin. }
  fold m' in Hne, Hnd, FM, FO. rewrite Hst in FO.
  destruct (rlookup r (m_secrets m')) as [[|[fl sk] older]|] eqn:El.
  - exfalso. eapply Hne; [apply rlookup_In; exact El|reflexivity].
  - exists fl, sk, older. split; [reflexivity|]. apply rlookup_In in El. rewrite <- (FO r h e Hin). split.
    + eapply FM; [exact El|left; reflexivity].
    + intros fl' sk' Ho. eapply FM; [exact El|right; exact Ho].
  - apply rlookup_None in El. contradiction.
Qed.
Print Assumptions update_front_hint.

(* C11 encaps_mode: the mode of an encapsulation is hybridized iff every published secret it targets is *)
Theorem encaps_mode s j p : snd (step fixed s (OEncaps j p)) = ObOk ->
  exists pk rs ks x, nth_error (st_mpks s) j = Some pk /\ enc_rights fixed (p_st pk) p = ROk rs /\
    Forall2 (fun r sk => rlookup r (p_keys pk) = Some sk) rs ks /\
    st_encs (fst (step fixed s (OEncaps j p))) = st_encs s ++ [x] /\
    x_hyb x = forallb s_hyb ks /\ x_entries x = map tok ks /\ x_seed x = st_ctr s /\
    st_ctr (fst (step fixed s (OEncaps j p))) = N.succ (st_ctr s).
Proof.
  cbn [step]. destruct (nth_error (st_mpks s) j) as [pk|] eqn:En; [|cbn; discriminate].
  destruct (enc_rights fixed (p_st pk) p) as [rs|] eqn:Er; [|cbn; discriminate]. unfold encaps_rights.
  destruct (all_rights_keys pk rs) as [ks|] eqn:Ek; [|cbn; discriminate]. cbn. intros _.
  exists pk, rs, ks, {| x_hyb := forallb s_hyb ks; x_entries := map tok ks; x_seed := st_ctr s |}.
  split; [reflexivity|]. split; [exact Er|]. split; [apply all_rights_keys_spec; exact Ek|]. repeat split.
Qed.
(* ... and, in a reachable state, iff every targeted right is hybridized *)
Theorem encaps_mode_rights s j p : reach s -> snd (step fixed s (OEncaps j p)) = ObOk ->
  exists (F : rightk -> bool) pk rs x, nth_error (st_mpks s) j = Some pk /\ enc_rights fixed (p_st pk) p = ROk rs /\
    st_encs (fst (step fixed s (OEncaps j p))) = st_encs s ++ [x] /\ x_hyb x = forallb F rs /\
    (forall r ch fl sk, In (r, ch) (m_secrets (st_msk s)) -> In (fl, sk) ch -> s_hyb sk = F r).
Proof.
  intros Hr Hok. destruct (encaps_mode s j p Hok) as (pk & rs & ks & x & H1 & H2 & H3 & H4 & H5 & _).
  destruct (flavour_by_right s Hr) as (F & FM & FP & _). exists F, pk, rs, x. repeat split; try assumption.
  rewrite H5. clear H4 H5 H2. pose proof (nth_error_In _ _ H1) as Hpk. induction H3 as [|r sk rs ks Hl HF IH]; [reflexivity|].
  cbn. rewrite IH. f_equal. eapply FP; [exact Hpk|apply rlookup_In; exact Hl].
Qed.
Print Assumptions encaps_mode_rights.

(* non-vacuity: D::a classic, D::b hybridized *)
Example flavour_nonvacuous :
  let s := run_state fixed init hist1 in
  map (fun rc => (fst rc, map (fun p => s_hyb (snd p)) (snd rc))) (m_secrets (st_msk s)) =
    [([], [false; false]); ([0], [false; false]); ([1], [true])] /\
  omega_map (m_st (st_msk s)) = [([], (false, true)); ([0], (false, true)); ([1], (true, true))] /\
  snd (step fixed s (OEncaps 2 sDb)) = ObOk /\
  option_map x_hyb (nth_error (st_encs (fst (step fixed s (OEncaps 2 sDb)))) 1) = Some true.
Proof. vm_compute. repeat split; reflexivity. Qed.

(* the pinned tree keeps C11 too on this history (C11 looked fine in black-box probes); what breaks it in the model is
   only the identifier collision of the pinned allocation (fx_ids = false): after delete + add the same id denotes an
   attribute of another flavour, and the update drops the hybridization of an existing secret in place *)
Example C11_pinned_id_reuse :
  let ops := [OSetup; OAddAnarchy sD; OAddAttr sD sa true None; OUpdate; OKeygen sDa; ODelAttr sD sa; OAddAttr sD sb false None; OUpdate] in
  let sp := run_state pinned init ops in let sf := run_state fixed init ops in
  (* pinned: right [0] is kept across the deletion, its secret (token 1) is downgraded in the MSK but the user key still has the hybridized copy *)
  rlookup [0] (m_secrets (st_msk sp)) = Some [(true, {| tok := 1; s_hyb := false |})] /\
  option_map u_chains (nth_error (st_usks sp) 0) = Some [([], [{| tok := 0; s_hyb := false |}]); ([0], [{| tok := 1; s_hyb := true |}])] /\
  (* fixed: the new attribute gets id 1; right [0] disappears and right [1] gets a fresh classic secret *)
  rlookup [0] (m_secrets (st_msk sf)) = None /\ rlookup [1] (m_secrets (st_msk sf)) = Some [(true, {| tok := 3; s_hyb := false |})].
Proof. vm_compute. repeat split; reflexivity. Qed.
