(* C19 (one scheme instance used from several threads): umbrella file.
   The development is split in two (size): ConcProofs1 (executions, liveness, executable semantics, negative
   example) and ConcProofs2 (isolation of critical sections, freshness across threads). *)
From CC Require Export Conc ConcProofs1 ConcProofs2.

Print Assumptions exec_inv.
Print Assumptions exec_length.
Print Assumptions no_call_blocks_forever.
Print Assumptions lock_free_all_enabled.
Print Assumptions holder_enabled.
Print Assumptions blocked_only_while_other_holds.
Print Assumptions holder_releases.
Print Assumptions exec_serial.
Print Assumptions section_contiguous.
Print Assumptions section_as_alone.
Print Assumptions section_prefix_as_alone.
Print Assumptions complete_trace_program.
Print Assumptions draws_global_serial.
Print Assumptions draw_intervals_disjoint.
Print Assumptions draws_never_overlap.
Print Assumptions self_deadlock.
Print Assumptions two_threads_complete.
