(* Prototype proofs (scratch): exact result of inserting an attribute in a hierarchy *)
From Coq Require Import List NArith Bool Arith Lia.
Require Import Policy Structure SelProofs GoodProofs AssocLemmas.
Import ListNotations.

Section H.
  Context {A : Type}.
  Implicit Types (l : list (str * A)).
  Definition keys l := map fst l.

  Lemma take_while_app_all (P : str * A -> bool) l1 l2 : forallb P l1 = true -> take_while P (l1 ++ l2) = l1 ++ take_while P l2.
  Proof. induction l1 as [|x l1 IH]; cbn; intros H; [reflexivity|]. apply andb_true_iff in H. destruct H as [H1 H2]. rewrite H1, IH by exact H2. reflexivity. Qed.
  Lemma take_while_stop (P : str * A -> bool) x l : P x = false -> take_while P (x :: l) = [].
  Proof. intros H. cbn. rewrite H. reflexivity. Qed.
  Lemma take_while_all' (P : str * A -> bool) l : forallb P l = true -> take_while P l = l.
  Proof. intros H. rewrite <- (app_nil_r l) at 1. rewrite take_while_app_all by exact H. cbn. apply app_nil_r. Qed.
  Lemma forallb_rev (P : str * A -> bool) l : forallb P (rev l) = forallb P l.
  Proof. induction l as [|x l IH]; cbn; [reflexivity|]. rewrite forallb_app, IH. cbn. rewrite andb_true_r, andb_comm. reflexivity. Qed.

  (* split a list at the last element violating P *)
  Lemma split_last (P : str * A -> bool) l :
    forallb P l = true \/ exists L x R, l = L ++ x :: R /\ P x = false /\ forallb P R = true.
  Proof.
    induction l as [|y l IH]; [left; reflexivity|].
    destruct IH as [IH|(L & x & R & -> & Hx & HR)].
    - destruct (P y) eqn:E; [left; cbn; rewrite E, IH; reflexivity|right; exists [], y, l; repeat split; assumption].
    - right. exists (y :: L), x, R. repeat split; assumption.
  Qed.

  Lemma ainsert_new k v l : ~ In k (keys l) -> ainsert k v l = l ++ [(k, v)].
  Proof. intros H. apply ainsert_absent. apply amem_false. exact H. Qed.

  Lemma fold_ainsert_app : forall R acc, NoDup (keys R) -> (forall k, In k (keys R) -> ~ In k (keys acc)) ->
    fold_left (fun acc p => ainsert (fst p) (snd p) acc) R acc = acc ++ R.
  Proof.
    induction R as [|[k v] R IH]; intros acc Hnd Hd; cbn [fold_left]; [rewrite app_nil_r; reflexivity|].
    cbn in Hnd. inversion Hnd as [|? ? Hk Hnd']; subst. cbn [fst snd].
    rewrite ainsert_new by (apply Hd; left; reflexivity).
    rewrite IH; [rewrite <- app_assoc; reflexivity|exact Hnd'|].
    intros k' Hk' Hin. unfold keys in Hin. rewrite map_app, in_app_iff in Hin. destruct Hin as [Hin|[E|[]]].
    - eapply Hd; [right; exact Hk'|exact Hin].
    - cbn in E. subst k'. contradiction.
  Qed.
End H.

Definition newattr (id : N) (hyb : bool) : attribute := {| a_id := id; a_hyb := hyb; a_enc := true |}.
Definition after_s (after : option str) : str := match after with Some a => a | None => [] end.

(* the result of adding attribute n to a hierarchy l *)
Theorem hier_insert_spec l n hyb after id :
  NoDup (keys l) -> ~ In n (keys l) -> (forall a, after = Some a -> In a (keys l)) ->
  (exists L x R, l = L ++ x :: R /\ fst x = after_s after /\ ~ In (after_s after) (keys R) /\
                 dim_add_attribute (Hierarchy l) n hyb after id = Ok (Hierarchy (L ++ x :: (n, newattr id hyb) :: R)))
  \/ (~ In (after_s after) (keys l) /\ after = None /\
      dim_add_attribute (Hierarchy l) n hyb after id = Ok (Hierarchy ((n, newattr id hyb) :: l))).
Proof.
  intros Hnd Hn Hafter. unfold dim_add_attribute.
  assert (Hmem : amem n l = false) by (apply amem_false; exact Hn). rewrite Hmem.
  assert (Hbad : match after with Some a => negb (amem a l) | None => false end = false).
  { destruct after as [a|]; [|reflexivity]. apply negb_false_iff, amem_true, Hafter. reflexivity. }
  rewrite Hbad. fold (after_s after). fold (newattr id hyb). set (a := after_s after) in *.
  set (P := fun p : str * attribute => negb (str_eqb (fst p) a)).
  destruct (split_last P l) as [Hall|(L & x & R & El & Hx & HR)].
  - (* no attribute is named a: the new attribute becomes the lowest *)
    right. assert (Hna : ~ In a (keys l)).
    { intros Hin. unfold keys in Hin. apply in_map_iff in Hin. destruct Hin as (p & Ep & Hp).
      assert (HPp : P p = true) by (eapply forallb_forall in Hall; eassumption). unfold P in HPp. rewrite Ep, str_eqb_refl in HPp. discriminate. }
    assert (Hnone : after = None). { destruct after as [a'|]; [|reflexivity]. exfalso. apply Hna. apply Hafter. reflexivity. }
    split; [exact Hna|]. split; [exact Hnone|].
    rewrite (take_while_all' P (rev l)) by (rewrite forallb_rev; exact Hall).
    destruct l as [|[k0 v0] l'].
    + cbn. reflexivity.
    + (* stop = name of the first element; lower = [] *)
      assert (Hlast : last (map (fun p : str * attribute => Some (fst p)) (rev ((k0, v0) :: l'))) None = Some k0).
      { cbn [rev]. rewrite map_app. cbn. rewrite last_last. reflexivity. }
      rewrite Hlast. cbn [take_while fst]. rewrite str_eqb_refl. cbn [negb].
      rewrite rev_involutive.
      change (ainsert n (newattr id hyb) []) with [(n, newattr id hyb)].
      rewrite fold_ainsert_app; [reflexivity|exact Hnd|].
      intros k Hk Hin. cbn in Hin. destruct Hin as [E|[]]. subst k. contradiction.
  - (* x is the attribute named a, R the higher ones *)
    left. exists L, x, R.
    assert (Hfx : fst x = a). { unfold P in Hx. apply negb_false_iff, str_eqb_eq in Hx. exact Hx. }
    assert (HRa : ~ In a (keys R)).
    { intros Hin. unfold keys in Hin. apply in_map_iff in Hin. destruct Hin as (p & Ep & Hp).
      assert (HPp : P p = true) by (eapply forallb_forall in HR; eassumption). unfold P in HPp. rewrite Ep, str_eqb_refl in HPp. discriminate. }
    repeat split; [exact El|exact Hfx|exact HRa|].
    subst l. rewrite rev_app_distr. cbn [rev]. rewrite <- app_assoc. cbn [app].
    rewrite (take_while_app_all P (rev R)) by (rewrite forallb_rev; exact HR).
    rewrite (take_while_stop P x) by exact Hx. rewrite app_nil_r.
    unfold keys in Hnd. rewrite map_app in Hnd. cbn [map] in Hnd.
    assert (HndR : NoDup (keys R)). { apply NoDup_app_remove_l in Hnd. inversion Hnd; assumption. }
    destruct R as [|[k0 v0] R'].
    + (* a is the highest attribute *)
      cbn [rev map last]. rewrite (take_while_all' (fun _ => true)) by (apply forallb_forall; reflexivity).
      cbn [fold_left]. rewrite ainsert_new; [rewrite <- app_assoc; reflexivity|].
      intros Hin. apply Hn. exact Hin.
    + assert (Hlast : last (map (fun p : str * attribute => Some (fst p)) (rev ((k0, v0) :: R'))) None = Some k0).
      { cbn [rev]. rewrite map_app. cbn. rewrite last_last. reflexivity. }
      rewrite Hlast.
      (* lower = L ++ [x] *)
      assert (Hlow : take_while (fun p : str * attribute => negb (str_eqb (fst p) k0)) (L ++ x :: (k0, v0) :: R') = L ++ [x]).
      { replace (L ++ x :: (k0, v0) :: R') with ((L ++ [x]) ++ (k0, v0) :: R') by (rewrite <- app_assoc; reflexivity).
        rewrite take_while_app_all.
        - rewrite take_while_stop by (cbn; rewrite str_eqb_refl; reflexivity). apply app_nil_r.
        - apply forallb_forall. intros p Hp. apply negb_true_iff, str_eqb_neq. intros E.
          (* p in L ++ [x] has the name k0, which also names the head of R: contradicts NoDup *)
          apply in_app_iff in Hp. cbn [map] in Hnd.
          assert (Hk0 : In k0 (map fst L ++ [fst x])).
          { apply in_app_iff. destruct Hp as [Hp|[<-|[]]]; [left; apply in_map_iff; exists p; split; assumption|right; left; exact E]. }
          assert (Hnd2 : NoDup ((map fst L ++ [fst x]) ++ k0 :: map fst R')).
          { rewrite <- app_assoc. cbn [app]. cbn [map fst] in Hnd. exact Hnd. }
          apply (NoDup_remove_2 _ _ _ Hnd2). apply in_app_iff. left. exact Hk0. }
      rewrite Hlow. rewrite rev_involutive.
      rewrite ainsert_new.
      * rewrite fold_ainsert_app; [rewrite <- !app_assoc; reflexivity|exact HndR|].
        intros k Hk Hin. unfold keys in Hin. rewrite !map_app in Hin. cbn in Hin.
        rewrite !in_app_iff in Hin. cbn in Hin.
        destruct Hin as [[Hin|[E|[]]]|[E|[]]].
        -- (* k in L and in R *) clear - Hnd Hk Hin. apply (NoDup_app_disjoint _ _ k Hnd); [exact Hin|right; exact Hk].
        -- subst k. apply NoDup_app_remove_l in Hnd. inversion Hnd; subst. contradiction.
        -- subst k. apply Hn. unfold keys. rewrite map_app. apply in_app_iff. right. right. exact Hk.
      * intros Hin. apply Hn. unfold keys in *. rewrite map_app in *. apply in_app_iff in Hin. apply in_app_iff.
        destruct Hin as [Hin|[E|[]]]; [left; exact Hin|right; left; exact E].
Qed.
Print Assumptions hier_insert_spec.
