(* The key-management state machine: one [step] per public API call of src/api.rs, over the token-level
   functions of Keys.v.  The OCaml driver only parses operation lines and prints dumps of [state];
   everything that decides an observation is defined here, so that theorems about [run] speak about
   exactly what is compared with the implementation.

   fx = all switches true  : the repaired tree (fix: commits in /repo)
   fx = all switches false : the pinned tree 8f3c295 (kept for the ..._refuted lemmas). *)
From Coq Require Import List NArith Bool Arith Lia.
From CC Require Import Policy Structure Keys.
Import ListNotations.

Record state := { st_msk : msk; st_mpks : list mpk; st_usks : list usk; st_encs : list xenc; st_ctr : N }.

Inductive objref := RefMsk | RefMpk (j : nat) | RefUsk (k : nat) | RefEnc (e : nat).

Inductive op :=
| OSetup
| OAddAnarchy (d : str) | OAddHierarchy (d : str) | ODelDim (d : str)
| OAddAttr (d n : str) (hyb : bool) (after : option str)
| ODelAttr (d n : str) | ORename (d n n' : str) | ODisable (d n : str)
| OUpdate | OMpk
| ORekey (p : str) | OPrune (p : str) | OKeygen (p : str)
| ORefresh (k : nat) (keep : bool)
| OEncaps (j : nat) (p : str) | ODecaps (k e : nat) | ORecaps (j e : nat)
| ORoundTrip (o : objref).

(* what the caller sees *)
Inductive obs := ObOk | ObErr | ObNone | ObSome (seed : N) | ObNoIdx | ObDead.

Definition empty_msk : msk := {| m_users := []; m_secrets := []; m_st := empty_structure |}.
Definition init : state := {| st_msk := empty_msk; st_mpks := []; st_usks := []; st_encs := []; st_ctr := 0 |}.

Fixpoint set_nth {A} (i : nat) (x : A) (l : list A) : list A :=
  match l, i with
  | [], _ => []
  | _ :: t, O => x :: t
  | h :: t, S i' => h :: set_nth i' x t
  end.

Section M.
  Variable fx : fixes.

  Definition with_msk (s : state) (m : msk) : state :=
    {| st_msk := m; st_mpks := st_mpks s; st_usks := st_usks s; st_encs := st_encs s; st_ctr := st_ctr s |}.
  Definition with_msk_ctr (s : state) (m : msk) (c : N) : state :=
    {| st_msk := m; st_mpks := st_mpks s; st_usks := st_usks s; st_encs := st_encs s; st_ctr := c |}.
  Definition push_mpk (s : state) : state :=
    {| st_msk := st_msk s; st_mpks := st_mpks s ++ [mk_mpk (st_msk s)]; st_usks := st_usks s; st_encs := st_encs s; st_ctr := st_ctr s |}.
  Definition with_st (s : state) (t : structure) : state :=
    with_msk s {| m_users := m_users (st_msk s); m_secrets := m_secrets (st_msk s); m_st := t |}.

  Definition edit (s : state) (r : outcome structure) : state * obs :=
    match r with Ok t => (with_st s t, ObOk) | _ => (s, ObErr) end.

  Definition step (s : state) (o : op) : state * obs :=
    let m := st_msk s in
    match o with
    | OSetup =>
        let '(_, m', c) := update_msk fx empty_msk 0 in
        (push_mpk {| st_msk := m'; st_mpks := []; st_usks := []; st_encs := []; st_ctr := c |}, ObOk)
    | OAddAnarchy d => edit s (add_anarchy d (m_st m))
    | OAddHierarchy d => edit s (add_hierarchy d (m_st m))
    | ODelDim d => edit s (del_dimension d (m_st m))
    | OAddAttr d n h a => edit s (add_attribute (fx_ids fx) d n h a (m_st m))
    | ODelAttr d n => edit s (del_attribute d n (m_st m))
    | ORename d n n' => edit s (rename_attribute d n n' (m_st m))
    | ODisable d n => edit s (disable_attribute d n (m_st m))
    | OUpdate =>
        let '(r, m', c) := update_msk fx m (st_ctr s) in
        match r with
        | ROk _ => (push_mpk (with_msk_ctr s m' c), ObOk)
        | RErr => (with_msk_ctr s m' c, ObErr)
        end
    | OMpk => (push_mpk s, ObOk)
    | ORekey p =>
        match usk_rights fx (m_st m) p with
        | RErr => (s, ObErr)
        | ROk rs => match rekey fx m rs (st_ctr s) with
                    | (ROk m', c) => (push_mpk (with_msk_ctr s m' c), ObOk)
                    | (RErr, c) => (with_msk_ctr s m c, ObErr)
                    end
        end
    | OPrune p =>
        match usk_rights fx (m_st m) p with
        | RErr => (s, ObErr)
        | ROk rs => (push_mpk (with_msk s (prune m rs)), ObOk)
        end
    | OKeygen p =>
        match usk_rights fx (m_st m) p with
        | RErr => (s, ObErr)
        | ROk rs => match keygen m rs (st_ctr s) with
                    | (ROk (m', u), c) =>
                        ({| st_msk := m'; st_mpks := st_mpks s; st_usks := st_usks s ++ [u]; st_encs := st_encs s; st_ctr := c |}, ObOk)
                    | (RErr, c) => (with_msk_ctr s m c, ObErr)
                    end
        end
    | ORefresh k keep =>
        match nth_error (st_usks s) k with
        | None => (s, ObNoIdx)
        | Some u =>
            let '(r, u') := refresh fx m u keep in
            ({| st_msk := m; st_mpks := st_mpks s; st_usks := set_nth k u' (st_usks s); st_encs := st_encs s; st_ctr := st_ctr s |},
             match r with ROk _ => ObOk | RErr => ObErr end)
        end
    | OEncaps j p =>
        match nth_error (st_mpks s) j with
        | None => (s, ObNoIdx)
        | Some pk =>
            match enc_rights fx (p_st pk) p with
            | RErr => (s, ObErr)
            | ROk rs => match encaps_rights pk rs (st_ctr s) with
                        | (ROk x, c) => ({| st_msk := m; st_mpks := st_mpks s; st_usks := st_usks s; st_encs := st_encs s ++ [x]; st_ctr := c |}, ObOk)
                        | (RErr, _) => (s, ObErr)
                        end
            end
        end
    | ODecaps k e =>
        match nth_error (st_usks s) k, nth_error (st_encs s) e with
        | Some u, Some x =>
            match u_chains u with
            | [] => (s, ObDead)        (* a key without any right: not exercised (pinned code loops forever, F3) *)
            | _ => (s, match decaps fx u x with Some sd => ObSome sd | None => ObNone end)
            end
        | _, _ => (s, ObNoIdx)
        end
    | ORecaps j e =>
        match nth_error (st_mpks s) j, nth_error (st_encs s) e with
        | Some pk, Some x =>
            match recaps fx m pk x (st_ctr s) with
            | (ROk x', c) => ({| st_msk := m; st_mpks := st_mpks s; st_usks := st_usks s; st_encs := st_encs s ++ [x']; st_ctr := c |}, ObOk)
            | (RErr, _) => (s, ObErr)
            end
        | _, _ => (s, ObNoIdx)
        end
    | ORoundTrip _ => (s, ObOk)      (* serialize + deserialize is the identity on the abstract state (C13) *)
    end.

  Fixpoint run (s : state) (ops : list op) : state * list obs :=
    match ops with
    | [] => (s, [])
    | o :: t => let '(s', b) := step s o in let '(s'', bs) := run s' t in (s'', b :: bs)
    end.

  Definition run_state (s : state) (ops : list op) : state := fold_left (fun s o => fst (step s o)) ops s.
End M.

Definition fx_all (b : bool) : fixes :=
  {| fx_ids := b; fx_rev := b; fx_prune := b; fx_rekey_flag := b; fx_refresh := b; fx_update := b; fx_recaps := b; fx_parse := b |}.
Definition fixed := fx_all true.
Definition pinned := fx_all false.
