(* C13: byte-level WRITERS and LENGTH functions mirroring the Rust `Serializable::write` / `length()`
   implementations (readers are in Wire.v).  Executable only; proofs are in WireRoundTrip*.v.

   Naming: Wire.v already uses the identifiers w_attr, w_structure, w_rsk, ... for the RECORD TYPES, so the
   object writers are called wr_T (wr_attr, wr_dim, wr_structure, wr_rsk, wr_rpk, wr_userid, wr_msk, wr_mpk,
   wr_usk, wr_xenc, wr_header, wr_cleartext); the primitive writers keep the names w_leb, w_vec, w_list, w_flag.

   Rust sources mirrored:
     src/core/serialization/mod.rs        (TracingPublicKey, RightPublicKey, MasterPublicKey, TracingSecretKey,
                                           MasterSecretKey, UserId, RightSecretKey, UserSecretKey, Encapsulations, XEnc)
     src/abe_policy/access_structure.rs   (AccessStructure)       src/abe_policy/dimension.rs (Attribute, Dimension)
     src/abe_policy/rights.rs             (Right, read_bytes)     src/encrypted_header.rs (EncryptedHeader, CleartextHeader)
     cosmian_crypto_core bytes_ser_de.rs  (write_leb128_u64, write_vec, write_array, to_leb128_len)            *)
From Coq Require Import List NArith Bool Arith Lia.
Require Import Policy Structure Leb Wire.
Import ListNotations.
Local Open Scope nat_scope.   (* Leb.v opens N_scope *)

(* ---------- primitives ---------- *)
Definition w_leb (n : N) : bytes := leb128 n.                       (* Serializer::write_leb128_u64 *)
(* to_leb128_len: 1 + number of 7-bit shifts until zero (at most 10 bytes for a u64) *)
Fixpoint leb_len_fuel (fuel : nat) (n : N) : nat :=
  match fuel with
  | O => 1
  | S f => if (n <? 128)%N then 1 else S (leb_len_fuel f (n / 128)%N)
  end.
Definition leb_len (n : N) : nat := leb_len_fuel 10 n.
Definition nlen {A} (l : list A) : N := N.of_nat (length l).       (* `.len() as u64` *)

Definition w_vec (b : bytes) : bytes := w_leb (nlen b) ++ b.       (* Serializer::write_vec *)
Definition len_vec (b : bytes) : nat := leb_len (nlen b) + length b.
(* a count followed by the elements *)
Definition w_list {A} (g : A -> bytes) (l : list A) : bytes := w_leb (nlen l) ++ flat_map g l.
Definition sum_len {A} (len : A -> nat) (l : list A) : nat := fold_right (fun x acc => len x + acc) 0 l.   (* .iter().map(len).sum() *)
Definition len_list {A} (len : A -> nat) (l : list A) : nat := leb_len (nlen l) + sum_len len l.
Definition w_flag (b : bool) : bytes := w_leb (if b then 1 else 0)%N.     (* write_leb128_u64(bool as u64) *)
Definition opt_bytes (o : option bytes) : bytes := match o with Some b => b | None => [] end.

(* ---------- access structure (no crypto sizes involved) ---------- *)
(* Attribute::write : id, hint flag, status flag;  length = 2 + to_leb128_len(id) *)
Definition wr_attr (a : w_attr) : bytes := w_leb (wa_id a) ++ w_flag (wa_hyb a) ++ w_flag (wa_enc a).
Definition len_attr (a : w_attr) : nat := 2 + leb_len (wa_id a).
Definition wr_named_attr (na : bytes * w_attr) : bytes := w_vec (fst na) ++ wr_attr (snd na).
Definition len_named_attr (na : bytes * w_attr) : nat := leb_len (nlen (fst na)) + length (fst na) + len_attr (snd na).
(* Dimension::write : is_ordered flag, count, (name, attribute)* *)
Definition wr_dim (d : bool * list (bytes * w_attr)) : bytes := w_flag (fst d) ++ w_list wr_named_attr (snd d).
Definition len_dim (d : bool * list (bytes * w_attr)) : nat := 1 + (leb_len (nlen (snd d)) + sum_len len_named_attr (snd d)).
Definition wr_named_dim (nd : bytes * (bool * list (bytes * w_attr))) : bytes := w_vec (fst nd) ++ wr_dim (snd nd).
Definition len_named_dim (nd : bytes * (bool * list (bytes * w_attr))) : nat :=
  leb_len (nlen (fst nd)) + length (fst nd) + len_dim (snd nd).
(* AccessStructure::write : version, count, (name, dimension)*, next_id.
   The in-memory Rust object always has version = V2 (wire value 1) and a next_id, i.e. ws_version = 1 and
   ws_next = Some _ ; the wire-level record of Wire.v can also describe the legacy format (version 0, no trailing
   next_id), which this writer produces when ws_next = None. *)
Definition wr_structure (s : w_structure) : bytes :=
  w_leb (ws_version s) ++ w_list wr_named_dim (ws_dims s) ++ match ws_next s with Some nx => w_leb nx | None => [] end.
(* AccessStructure::length = 1 + to_leb128_len(next_id) + to_leb128_len(#dims) + sum *)
Definition len_structure (s : w_structure) : nat :=
  1 + match ws_next s with Some nx => leb_len nx | None => 0 end + leb_len (nlen (ws_dims s)) + sum_len len_named_dim (ws_dims s).

(* ---------- header records ---------- *)
Record w_header := { wh_enc : w_xenc; wh_meta : option bytes }.
Record w_cleartext := { wc_secret : bytes; wc_meta : option bytes }.
Definition meta_of (m : bytes) : option bytes := match m with [] => None | _ => Some m end.   (* `if v.is_empty() { None } else { Some(v) }` *)

Section SizedW.
  Variable sz : sizes.

  (* RightSecretKey / RightPublicKey *)
  Definition wr_rsk (k : w_rsk) : bytes :=
    if wk_hyb k then w_leb 1 ++ wk_sk k ++ wk_dk k else w_leb 0 ++ wk_sk k.
  Definition len_rsk (k : w_rsk) : nat := 1 + if wk_hyb k then scalar_len sz + dk_len sz else scalar_len sz.
  Definition wr_rpk (k : w_rpk) : bytes :=
    if wp_hyb k then w_leb 1 ++ wp_h k ++ wp_ek k else w_leb 0 ++ wp_h k.
  Definition len_rpk (k : w_rpk) : nat := 1 + if wp_hyb k then point_len sz + ek_len sz else point_len sz.

  (* UserId *)
  Definition wr_userid (id : list bytes) : bytes := w_list (fun m => m) id.
  Definition len_userid (id : list bytes) : nat := leb_len (nlen id) + sum_len (fun _ => scalar_len sz) id.

  (* TracingSecretKey (s, tracers, users) then MasterSecretKey *)
  Definition wr_tracer (t : bytes * bytes) : bytes := fst t ++ snd t.
  Definition wr_msk_key (ak : bool * w_rsk) : bytes := w_flag (fst ak) ++ wr_rsk (snd ak).
  Definition wr_msk_chain (rc : bytes * list (bool * w_rsk)) : bytes := w_vec (fst rc) ++ w_list wr_msk_key (snd rc).
  Definition wr_msk (m : w_msk) : bytes :=
    wm_s m ++ w_list wr_tracer (wm_tracers m) ++ w_list wr_userid (wm_users m)
    ++ w_list wr_msk_chain (wm_secrets m)
    ++ opt_bytes (wm_sign m) ++ wr_structure (wm_st m).
  Definition len_tsk (m : w_msk) : nat :=
    scalar_len sz
    + leb_len (nlen (wm_users m)) + sum_len len_userid (wm_users m)
    + leb_len (nlen (wm_tracers m)) + sum_len (fun _ => scalar_len sz + point_len sz) (wm_tracers m).
  Definition len_msk_chain (rc : bytes * list (bool * w_rsk)) : nat :=
    len_vec (fst rc) + leb_len (nlen (snd rc)) + sum_len (fun ak => 1 + len_rsk (snd ak)) (snd rc).
  Definition len_msk (m : w_msk) : nat :=
    len_tsk m + leb_len (nlen (wm_secrets m)) + sum_len len_msk_chain (wm_secrets m)
    + match wm_sign m with Some k => length k | None => 0 end
    + len_structure (wm_st m).

  (* TracingPublicKey then MasterPublicKey *)
  Definition wr_mpk_key (rk : bytes * w_rpk) : bytes := w_vec (fst rk) ++ wr_rpk (snd rk).
  Definition wr_mpk (m : w_mpk) : bytes :=
    w_list (fun p => p) (wq_tpk m) ++ w_list wr_mpk_key (wq_keys m) ++ wr_structure (wq_st m).
  Definition len_mpk (m : w_mpk) : nat :=
    (leb_len (nlen (wq_tpk m)) + sum_len (fun _ => point_len sz) (wq_tpk m))
    + leb_len (nlen (wq_keys m)) + sum_len (fun rk => len_vec (fst rk) + len_rpk (snd rk)) (wq_keys m)
    + len_structure (wq_st m).

  (* UserSecretKey *)
  Definition wr_usk_chain (rc : bytes * list w_rsk) : bytes := w_vec (fst rc) ++ w_list wr_rsk (snd rc).
  Definition wr_usk (u : w_usk) : bytes :=
    wr_userid (wu_id u) ++ w_list (fun p => p) (wu_ps u) ++ w_list wr_usk_chain (wu_chains u) ++ opt_bytes (wu_sig u).
  Definition len_usk_chain (rc : bytes * list w_rsk) : nat :=
    len_vec (fst rc) + leb_len (nlen (snd rc)) + sum_len len_rsk (snd rc).
  Definition len_usk (u : w_usk) : nat :=
    len_userid (wu_id u)
    + leb_len (nlen (wu_ps u)) + sum_len (fun _ => point_len sz) (wu_ps u)
    + leb_len (nlen (wu_chains u)) + sum_len len_usk_chain (wu_chains u)
    + match wu_sig u with Some s => length s | None => 0 end.

  (* XEnc = tag, traps, Encapsulations (flag, count, entries);  CEncs carries only the F components *)
  Definition wr_hentry (ef : bytes * bytes) : bytes := fst ef ++ snd ef.
  Definition wr_xenc (x : w_xenc) : bytes :=
    wx_tag x ++ w_list (fun p => p) (wx_c x)
    ++ (if wx_hyb x then w_leb 1 ++ w_list wr_hentry (wx_entries x)
        else w_leb 0 ++ w_list (fun f => f) (map snd (wx_entries x))).
  Definition len_xenc (x : w_xenc) : nat :=
    16 + leb_len (nlen (wx_c x)) + sum_len (fun _ => point_len sz) (wx_c x)
    + (1 + if wx_hyb x then leb_len (nlen (wx_entries x)) + sum_len (fun _ => ct_len sz + 32) (wx_entries x)
           else leb_len (nlen (wx_entries x)) + sum_len (fun _ => 32) (wx_entries x)).

  (* EncryptedHeader: encapsulation then write_vec(metadata or empty) *)
  Definition r_header (bs : bytes) : res w_header :=
    do (x, r1) <- r_xenc sz bs; do (m, r2) <- r_vec r1; ROk {| wh_enc := x; wh_meta := meta_of m |} r2.
  Definition wr_header (h : w_header) : bytes := wr_xenc (wh_enc h) ++ w_vec (opt_bytes (wh_meta h)).
  Definition len_header (h : w_header) : nat :=
    len_xenc (wh_enc h) + match wh_meta h with Some m => leb_len (nlen m) + length m | None => 1 end.
End SizedW.

(* CleartextHeader: 32-byte secret then write_vec(metadata or empty) *)
Definition r_cleartext (bs : bytes) : res w_cleartext :=
  do (s, r1) <- r_take 32 bs; do (m, r2) <- r_vec r1; ROk {| wc_secret := s; wc_meta := meta_of m |} r2.
Definition wr_cleartext (c : w_cleartext) : bytes := wc_secret c ++ w_vec (opt_bytes (wc_meta c)).
Definition len_cleartext (c : w_cleartext) : nat :=
  32 + leb_len (nlen (opt_bytes (wc_meta c))) + length (opt_bytes (wc_meta c)).

(* ---------- well-formedness ---------- *)
Definition u64 (n : N) : Prop := (n < 2 ^ 64)%N.
Definition is_bytes (b : bytes) : Prop := Forall (fun x => (x < 256)%N) b.
Definition blob (n : nat) (b : bytes) : Prop := length b = n /\ is_bytes b.       (* fixed-length opaque byte string *)
Definition vec_ok (b : bytes) : Prop := u64 (nlen b) /\ is_bytes b.                (* length-prefixed byte string *)
(* the counted-list reader of Wire.v is bounded by the remaining input: list elements must be non-empty *)
Definition wf_sizes (sz : sizes) : Prop := (1 <= scalar_len sz)%nat /\ (1 <= point_len sz)%nat.

Definition wf_attr (a : w_attr) : Prop := u64 (wa_id a).
Definition wf_named_attr (na : bytes * w_attr) : Prop := vec_ok (fst na) /\ wf_attr (snd na).
Definition wf_dim (d : bool * list (bytes * w_attr)) : Prop := u64 (nlen (snd d)) /\ Forall wf_named_attr (snd d).
Definition wf_named_dim (nd : bytes * (bool * list (bytes * w_attr))) : Prop := vec_ok (fst nd) /\ wf_dim (snd nd).
Definition wf_structure (s : w_structure) : Prop :=
  match ws_next s with Some nx => ws_version s = 1%N /\ u64 nx | None => ws_version s = 0%N end
  /\ u64 (nlen (ws_dims s)) /\ Forall wf_named_dim (ws_dims s).

Section SizedWf.
  Variable sz : sizes.
  Definition wf_rsk (k : w_rsk) : Prop :=
    blob (scalar_len sz) (wk_sk k) /\ if wk_hyb k then blob (dk_len sz) (wk_dk k) else wk_dk k = [].
  Definition wf_rpk (k : w_rpk) : Prop :=
    blob (point_len sz) (wp_h k) /\ if wp_hyb k then blob (ek_len sz) (wp_ek k) else wp_ek k = [].
  Definition wf_userid (id : list bytes) : Prop :=
    wf_sizes sz /\ u64 (nlen id) /\ Forall (blob (scalar_len sz)) id.
  Definition wf_msk_chain (rc : bytes * list (bool * w_rsk)) : Prop :=
    vec_ok (fst rc) /\ u64 (nlen (snd rc)) /\ Forall (fun ak => wf_rsk (snd ak)) (snd rc).
  Definition wf_msk (m : w_msk) : Prop :=
    wf_sizes sz /\ blob (scalar_len sz) (wm_s m)
    /\ u64 (nlen (wm_tracers m)) /\ Forall (fun t => blob (scalar_len sz) (fst t) /\ blob (point_len sz) (snd t)) (wm_tracers m)
    /\ u64 (nlen (wm_users m)) /\ Forall wf_userid (wm_users m)
    /\ u64 (nlen (wm_secrets m)) /\ Forall wf_msk_chain (wm_secrets m)
    /\ match wm_sign m with Some k => blob 16 k | None => True end
    /\ wf_structure (wm_st m).
  Definition wf_mpk (m : w_mpk) : Prop :=
    wf_sizes sz /\ u64 (nlen (wq_tpk m)) /\ Forall (blob (point_len sz)) (wq_tpk m)
    /\ u64 (nlen (wq_keys m)) /\ Forall (fun rk => vec_ok (fst rk) /\ wf_rpk (snd rk)) (wq_keys m)
    /\ wf_structure (wq_st m).
  (* chains are non-empty: the reader (RevisionVec::insert_new_chain) drops empty chains *)
  Definition wf_usk_chain (rc : bytes * list w_rsk) : Prop :=
    vec_ok (fst rc) /\ u64 (nlen (snd rc)) /\ snd rc <> [] /\ Forall wf_rsk (snd rc).
  Definition wf_usk (u : w_usk) : Prop :=
    wf_userid (wu_id u) /\ u64 (nlen (wu_ps u)) /\ Forall (blob (point_len sz)) (wu_ps u)
    /\ u64 (nlen (wu_chains u)) /\ Forall wf_usk_chain (wu_chains u)
    /\ match wu_sig u with Some s => blob 32 s | None => True end.
  Definition wf_xenc (x : w_xenc) : Prop :=
    wf_sizes sz /\ blob 16 (wx_tag x) /\ u64 (nlen (wx_c x)) /\ Forall (blob (point_len sz)) (wx_c x)
    /\ u64 (nlen (wx_entries x))
    /\ Forall (fun ef => (if wx_hyb x then blob (ct_len sz) (fst ef) else fst ef = []) /\ blob 32 (snd ef)) (wx_entries x).
  (* Some [] is not a value of its own on the wire: it is written exactly like None and read back as None *)
  Definition meta_ok (o : option bytes) : Prop := match o with Some m => m <> [] /\ vec_ok m | None => True end.
  Definition wf_header (h : w_header) : Prop := wf_xenc (wh_enc h) /\ meta_ok (wh_meta h).
End SizedWf.
Definition wf_cleartext (c : w_cleartext) : Prop := blob 32 (wc_secret c) /\ meta_ok (wc_meta c).
