(* Extraction of the executable model: ExtrOcamlBasic only, no Extract Constant of our own. *)
From CC Require Import Policy Structure Keys KeysMachine Wire WireSer WireAlloc RevIter MacStream.
Require Extraction.
Require Import ExtrOcamlBasic.
Definition alt_sizes := {| scalar_len := 32; point_len := 33; ek_len := 1184; dk_len := 2400; ct_len := 1088 |}.
Extraction "../ocaml/model.ml" parse parse_dnf empty_structure add_anarchy add_hierarchy del_dimension add_attribute
  del_attribute disable_attribute rename_attribute omega complementary_rights associated_rights right_bytes
  update_msk mk_mpk usk_rights enc_rights rekey prune keygen refresh encaps_rights decaps recaps full_decaps
  step run init fixed pinned.
Extraction "../ocaml/wire.ml" default_sizes alt_sizes r_msk r_mpk r_usk r_xenc r_structure WireSer.r_header r_cleartext whole
  wr_msk wr_mpk wr_usk wr_xenc wr_structure wr_header wr_cleartext
  len_msk len_mpk len_usk len_xenc len_structure len_header len_cleartext
  ax_msk ax_mpk ax_usk ax_xenc ax_structure ax_header
  revisions_fuel maxlen
  mac_stream framing reframing_of mk_body mk_secret ubody_eqb.
From CC Require Import DictModel.
Extraction "../ocaml/dict.ml" dict_trace rm_new rm_insert rm_keep rm_remove rm_get_latest rm_len rm_count_elements.
