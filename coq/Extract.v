(* Extraction of the executable model: ExtrOcamlBasic only, no Extract Constant of our own. *)
From CC Require Import Policy Structure Keys KeysMachine Wire.
Require Extraction.
Require Import ExtrOcamlBasic.
Extraction "../ocaml/model.ml" parse parse_dnf empty_structure add_anarchy add_hierarchy del_dimension add_attribute
  del_attribute disable_attribute rename_attribute omega complementary_rights associated_rights right_bytes
  update_msk mk_mpk usk_rights enc_rights rekey prune keygen refresh encaps_rights decaps recaps full_decaps
  step run init fixed pinned.
Extraction "../ocaml/wire.ml" default_sizes r_msk r_mpk r_usk r_xenc r_structure whole.
