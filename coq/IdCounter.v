(* The attribute-identifier counter as MACHINE arithmetic (src/abe_policy/access_structure.rs; F14).

   Structure.v models identifiers as unbounded N: right for everything the properties say about histories (identifiers are
   handed out by a monotone counter, never reused).  The code stores the counter in a usize and - since the repair of F2 -
   (a) recomputes it as "largest identifier in use + 1" when it reads the legacy structure format, and (b) increments it
   in add_attribute.  Both values may come from untrusted bytes.  With overflow checks an overflowing `+ 1` PANICS
   (C14: deserialization never panics); without them it wraps to 0 and identifiers are reused (C03).

   fx = true : repaired (checked_add, error on overflow);  fx = false : the arithmetic as first committed with F2. *)
From Coq Require Import List NArith Lia Bool.
Import ListNotations.
Local Open Scope N_scope.

Definition W : N := 2 ^ 64.                      (* usize on the supported targets *)

Inductive res (A : Type) := Val (a : A) | Refused | Panic.
Arguments Val {A} a. Arguments Refused {A}. Arguments Panic {A}.

(* `x + 1` on a usize in a build with overflow checks (fx = false) / `x.checked_add(1)` turned into an error (fx = true) *)
Definition succ_usize (fx : bool) (x : N) : res N :=
  if x + 1 <? W then Val (x + 1) else if fx then Refused else Panic.

(* legacy format: next identifier = max over the identifiers in use of (id + 1), 0 for none *)
Fixpoint legacy_next (fx : bool) (ids : list N) : res N :=
  match ids with
  | [] => Val 0
  | i :: t => match succ_usize fx i, legacy_next fx t with
              | Val a, Val b => Val (N.max a b)
              | Panic, _ | _, Panic => Panic
              | _, _ => Refused
              end
  end.

(* add_attribute: the new attribute takes the counter, the counter moves on; nothing changes when it cannot *)
Definition add_id (fx : bool) (st : list N * N) : res (list N * N) :=
  match succ_usize fx (snd st) with
  | Val n => Val (snd st :: fst st, n)
  | Refused => Refused
  | Panic => Panic
  end.

Lemma succ_fixed_no_panic : forall x, succ_usize true x <> Panic.
Proof. intros x. unfold succ_usize. destruct (x + 1 <? W); discriminate. Qed.

Lemma succ_val : forall fx x n, succ_usize fx x = Val n -> n = x + 1 /\ n < W.
Proof.
  intros fx x n. unfold succ_usize. destruct (x + 1 <? W) eqn:E.
  - intros H. injection H as <-. split; [reflexivity | apply N.ltb_lt; exact E].
  - destruct fx; discriminate.
Qed.

Theorem legacy_next_fixed_no_panic : forall ids, legacy_next true ids <> Panic.
Proof.
  induction ids as [|i t IH]; cbn [legacy_next]; [discriminate|].
  pose proof (succ_fixed_no_panic i) as Hs.
  destruct (succ_usize true i); destruct (legacy_next true t); try discriminate; try (exfalso; apply Hs; reflexivity);
    exfalso; apply IH; reflexivity.
Qed.

(* when the legacy reader accepts, the counter it resumes with is representable and above every identifier in use *)
Theorem legacy_next_sound : forall fx ids n, legacy_next fx ids = Val n -> n < W /\ forall i, In i ids -> i < n.
Proof.
  intros fx. induction ids as [|i t IH]; intros n H; cbn [legacy_next] in H.
  - injection H as <-. split; [unfold W; apply N.ltb_lt; reflexivity | intros i []].
  - destruct (succ_usize fx i) as [a| |] eqn:Ea; destruct (legacy_next fx t) as [b| |] eqn:Eb; try discriminate.
    injection H as <-. destruct (succ_val _ _ _ Ea) as [-> Ha]. destruct (IH b eq_refl) as [Hb Hin].
    split; [apply N.max_lub_lt; assumption|].
    intros j [<-|Hj]; [lia | specialize (Hin j Hj); lia].
Qed.

(* and it refuses exactly when some identifier is the largest usize *)
Theorem legacy_next_fixed_refuses_iff : forall ids, legacy_next true ids = Refused <-> exists i, In i ids /\ W <= i + 1.
Proof.
  induction ids as [|i t IH]; cbn [legacy_next].
  - split; [discriminate | intros [i [[] _]]].
  - pose proof (legacy_next_fixed_no_panic t) as Hp.
    unfold succ_usize at 1. destruct (i + 1 <? W) eqn:E.
    + destruct (legacy_next true t) as [b| |] eqn:Eb.
      * split; [discriminate|]. intros [j [[<-|Hj] Hw]]; [apply N.ltb_lt in E; lia|].
        assert (Refused = @Refused N) as _ by reflexivity.
        destruct IH as [_ IH2]. assert (@Val N b = Refused) by (apply IH2; exists j; split; assumption). discriminate.
      * split; [intros _|reflexivity]. destruct IH as [IH1 _]. destruct (IH1 eq_refl) as [j [Hj Hw]].
        exists j; split; [right; exact Hj | exact Hw].
      * exfalso; apply Hp; reflexivity.
    + apply N.ltb_ge in E. destruct (legacy_next true t) as [b| |] eqn:Eb.
      * split; [intros _; exists i; split; [left; reflexivity | exact E] | reflexivity].
      * split; [intros _; exists i; split; [left; reflexivity | exact E] | reflexivity].
      * exfalso; apply Hp; reflexivity.
Qed.

(* add_attribute: never panics; a refused call changes nothing (it returns no state); the invariant
   "every identifier handed out is below the counter, the counter is representable, no identifier twice" is kept *)
Definition id_inv (st : list N * N) : Prop := snd st < W /\ NoDup (fst st) /\ forall i, In i (fst st) -> i < snd st.

Theorem add_id_fixed_no_panic : forall st, add_id true st <> Panic.
Proof.
  intros st. unfold add_id. pose proof (succ_fixed_no_panic (snd st)) as H.
  destruct (succ_usize true (snd st)); try discriminate. exfalso; apply H; reflexivity.
Qed.

Theorem add_id_keeps_inv : forall fx st st', id_inv st -> add_id fx st = Val st' -> id_inv st'.
Proof.
  intros fx [ids c] st' (Hc & Hnd & Hlt) H. unfold add_id in H. cbn [fst snd] in *.
  destruct (succ_usize fx c) as [n| |] eqn:E; try discriminate. injection H as <-.
  destruct (succ_val _ _ _ E) as [-> Hn]. unfold id_inv; cbn [fst snd]. split; [exact Hn|]. split.
  - constructor; [intros Hin; specialize (Hlt c Hin); lia | exact Hnd].
  - intros i [<-|Hi]; [lia | specialize (Hlt i Hi); lia].
Qed.

(* the arithmetic as first committed: both sites panic on the largest usize *)
Theorem pinned_legacy_next_refuted : legacy_next false [W - 1] = Panic.
Proof. vm_compute. reflexivity. Qed.
Theorem pinned_add_id_refuted : add_id false ([], W - 1) = Panic.
Proof. vm_compute. reflexivity. Qed.

(* non-vacuity: an ordinary structure satisfies the invariant and is extended *)
Example add_id_example : add_id true ([2; 0], 3) = Val ([3; 2; 0], 4) /\ id_inv ([2; 0], 3).
Proof.
  split; [vm_compute; reflexivity|]. unfold id_inv; cbn [fst snd]. split; [unfold W; apply N.ltb_lt; reflexivity|]. split.
  - constructor; [intros [H|[]]; discriminate | constructor; [intros [] | constructor]].
  - intros i [<-|[<-|[]]]; lia.
Qed.
