(* End-to-end statements of C01 / C02 on the key-management state machine, part 4:
   the master key is IN SYNC with the structure after a successful OUpdate, and (part 5, E2E5.v) what this
   gives for the success of OKeygen / OEncaps.

   [synced m] : the MSK holds a chain for exactly the rights of omega (m_st m), and the front flag of each
                chain is the status ("encapsulation allowed") that omega gives to the right.
   [update_synced] : established by every successful OUpdate from a reachable state
   [synced_quiet]  : kept by the quiet operations of E2E1.v. *)
From Coq Require Import List NArith Bool Arith Lia.
From CC Require Import Policy Structure Keys KeysMachine SelProofs GoodProofs AssocLemmas
                       CoverProofs1 CoverProofs2 CoverPolicy DisabledProofs WfProofs
                       KInv1 KInv3 KInv5 KInv6 KInv7 KInv10 RightsInj E2E1.
Import ListNotations.
Local Open Scope N_scope.

Definition synced (m : msk) : Prop :=
  (forall r, rmem r (m_secrets m) = true <-> exists v, In (r, v) (omega_map (m_st m))) /\
  (forall r h e, In (r, (h, e)) (omega_map (m_st m)) -> exists sk older, rlookup r (m_secrets m) = Some ((e, sk) :: older)).

(* ---------------------------------------------------------------- the update loop *)
Lemma upd_loop_keys_sub : forall rights secs ctr secs' ctr', upd_loop rights secs ctr = ROk (secs', ctr') ->
  forall r, In r (map fst secs') -> In r (map fst secs) \/ In r (map fst rights).
Proof.
  induction rights as [|[r0 [h e]] rights IH]; intros secs ctr secs' ctr' H r Hr; cbn [upd_loop] in H.
  - inversion H; subst. left. exact Hr.
  - destruct (rlookup r0 secs) as [[|[fl s] older]|] eqn:El.
    + destruct (IH _ _ _ _ H r Hr) as [H1|H1]; [left; exact H1|right; right; exact H1].
    + destruct (IH _ _ _ _ H r Hr) as [H1|H1]; [left; rewrite keys_rreplace in H1; exact H1|right; right; exact H1].
    + destruct (negb e); [discriminate|]. destruct (IH _ _ _ _ H r Hr) as [H1|H1]; [|right; right; exact H1].
      rewrite map_app in H1. apply in_app_iff in H1. destruct H1 as [H1|[<-|[]]]; [left; exact H1|right; left; reflexivity].
Qed.

Lemma upd_loop_front : forall rights secs ctr secs' ctr', NoDup (map fst rights) -> nonempty_chains secs ->
  upd_loop rights secs ctr = ROk (secs', ctr') ->
  (forall r h e, In (r, (h, e)) rights -> exists sk older, rlookup r secs' = Some ((e, sk) :: older)) /\
  (forall r, ~ In r (map fst rights) -> rlookup r secs' = rlookup r secs).
Proof.
  induction rights as [|[r0 [h0 e0]] rights IH]; intros secs ctr secs' ctr' Hnd Hne H; cbn [upd_loop] in H.
  - inversion H; subst. split; [intros ? ? ? []|reflexivity].
  - cbn in Hnd. inversion Hnd as [|? ? Hr0 Hnd']; subst. destruct (rlookup r0 secs) as [[|[fl s] older]|] eqn:El.
    + exfalso. eapply Hne; [apply rlookup_In; exact El|reflexivity].
    + assert (Hne1 : nonempty_chains (rreplace r0 ((e0, if h0 then s else {| tok := tok s; s_hyb := false |}) :: older) secs)).
      { intros r ch Hin. apply rreplace_In in Hin. destruct Hin as [E|Hin]; [inversion E; subst; discriminate|eapply Hne; exact Hin]. }
      destruct (IH _ _ _ _ Hnd' Hne1 H) as [H1 H2]. split.
      * intros r h e [E|Hin]; [|eapply H1; exact Hin]. inversion E; subst. rewrite (H2 r Hr0).
        rewrite rlookup_rreplace_same; [eauto|]. eapply rlookup_Some_key. exact El.
      * intros r Hr. rewrite H2 by (intros Hc; apply Hr; right; exact Hc). apply rlookup_rreplace_other.
        intros ->. apply Hr. left. reflexivity.
    + destruct e0; [|discriminate]. cbn [negb] in H.
      assert (Hne1 : nonempty_chains (secs ++ [(r0, [(true, {| tok := ctr; s_hyb := h0 |})])])).
      { intros r ch Hin. apply in_app_iff in Hin. destruct Hin as [Hin|[E|[]]]; [eapply Hne; exact Hin|inversion E; subst; discriminate]. }
      destruct (IH _ _ _ _ Hnd' Hne1 H) as [H1 H2]. split.
      * intros r h e [E|Hin]; [|eapply H1; exact Hin]. inversion E; subst. rewrite (H2 r Hr0).
        rewrite (rlookup_app_new _ _ _ _ El), El, list_N_eqb_refl. eauto.
      * intros r Hr. rewrite H2 by (intros Hc; apply Hr; right; exact Hc). rewrite (rlookup_app_new _ _ _ _ El).
        destruct (rlookup r secs); [reflexivity|]. destruct (list_N_eqb r r0) eqn:E; [|reflexivity].
        apply list_N_eqb_eq in E. subst. exfalso. apply Hr. left. reflexivity.
Qed.

Lemma in_omega_map_key st r : (exists v, In (r, v) (omega_map st)) <-> rmem r (omega_map st) = true.
Proof.
  rewrite rmem_true. split.
  - intros (v & Hin). apply in_map_iff. exists (r, v). split; [reflexivity|exact Hin].
  - intros Hin. apply in_map_iff in Hin. destruct Hin as ([r0 v] & E & Hin). cbn in E. subst r0. exists v. exact Hin.
Qed.

Theorem update_msk_synced m ctr m0 m' c : nonempty_chains (m_secrets m) ->
  update_msk fixed m ctr = (ROk m0, m', c) -> synced m'.
Proof.
  intros Hne H. rewrite update_msk_fixed in H. destruct (upd_loop _ _ _) as [[secs c']|] eqn:Eu; [|discriminate].
  cbn in H. inversion H; subst; clear H. unfold synced. cbn [m_secrets m_st].
  assert (Hk : nonempty_chains (kept_secrets m)) by (intros r ch Hin; apply filter_In in Hin; eapply Hne; apply Hin).
  destruct (upd_loop_keys _ _ _ _ _ Eu) as [_ K2].
  destruct (upd_loop_front _ _ _ _ _ (omega_map_NoDup _) Hk Eu) as [F1 _]. split; [|exact F1].
  intros r. rewrite in_omega_map_key. split.
  - intros Hm. apply rmem_true in Hm. destruct (upd_loop_keys_sub _ _ _ _ _ Eu r Hm) as [H1|H1]; [|apply rmem_true; exact H1].
    unfold kept_secrets in H1. apply in_map_iff in H1. destruct H1 as ([r0 ch] & E & Hin). cbn in E. subst r0.
    apply filter_In in Hin. apply Hin.
  - intros Hm. apply rmem_true in Hm. apply in_map_iff in Hm. destruct Hm as ([r0 v] & E & Hin). cbn in E. subst r0.
    apply rmem_true. eapply K2. exact Hin.
Qed.

Theorem update_synced s0 : reach s0 -> snd (step fixed s0 OUpdate) = ObOk -> synced (st_msk (fst (step fixed s0 OUpdate))).
Proof.
  intros Hr. destruct (inv14_reach s0 Hr) as [[Hne _ _] _]. cbn [step].
  destruct (update_msk fixed (st_msk s0) (st_ctr s0)) as [[r m'] c] eqn:E. destruct r as [m0|]; cbn; [|discriminate]. intros _.
  eapply update_msk_synced; eassumption.
Qed.
Print Assumptions update_synced.

Lemma synced_same_keys s s' : same_keys s s' -> synced (st_msk s) -> synced (st_msk s').
Proof. intros [E1 E2 _]. unfold synced. rewrite E1, E2. tauto. Qed.
Theorem synced_quiet s ops : Forall (fun o => quiet o = true) ops -> synced (st_msk s) -> synced (st_msk (run_state fixed s ops)).
Proof. intros Hq. apply synced_same_keys. apply quiet_run. exact Hq. Qed.

(* ---------------------------------------------------------------- omega_map and omega have the same keys *)
Lemma omega_map_keys st r : In r (map fst (omega_map st)) <-> In r (map fst (omega st)).
Proof.
  split.
  - intros H. apply in_map_iff in H. destruct H as ([r0 v] & E & Hin). cbn in E. subst r0. apply omega_map_sub in Hin.
    apply in_map_iff. exists (r, v). split; [reflexivity|exact Hin].
  - unfold omega_map.
    assert (G : forall (l acc : list (rightk * (bool * bool))), In r (map fst acc) \/ In r (map fst l) ->
       In r (map fst (fold_left (fun acc '(r, v) => if rmem r acc then rreplace r v acc else acc ++ [(r, v)]) l acc))).
    { induction l as [|[r0 v0] l IH]; intros acc H; cbn [fold_left]; [destruct H as [H|[]]; exact H|]. apply IH.
      destruct H as [H|[H|H]].
      - left. destruct (rmem r0 acc); [rewrite keys_rreplace; exact H|rewrite map_app; apply in_app_iff; left; exact H].
      - cbn in H. subst r0. left. destruct (rmem r acc) eqn:E; [rewrite keys_rreplace; apply rmem_true; exact E|].
        rewrite map_app. apply in_app_iff. right. left. reflexivity.
      - right. exact H. }
    intros H. apply G. right. exact H.
Qed.

(* with unique keys (well-formed structure) omega_map and omega have the same entries *)
Lemma omega_map_In st r v : wf_structure st -> (In (r, v) (omega_map st) <-> In (r, v) (omega st)).
Proof.
  intros Hwf. split; [apply omega_map_sub|]. intros Hin.
  assert (Hk : In r (map fst (omega_map st))) by (apply omega_map_keys; apply in_map_iff; exists (r, v); split; [reflexivity|exact Hin]).
  apply in_map_iff in Hk. destruct Hk as ([r0 v'] & E & Hin'). cbn in E. subst r0.
  pose proof (omega_map_sub _ _ _ Hin') as Hin2.
  assert (E : (r, v') = (r, v)).
  { eapply (CoverProofs2.NoDup_map_inj_in fst (omega st)); [apply RightsInj.omega_keys_NoDup; exact Hwf|exact Hin2|exact Hin|reflexivity]. }
  inversion E; subst. exact Hin'.
Qed.
