(* Prototype proofs (scratch): a selection exists up to permutation iff the id set is "good" *)
From Coq Require Import List NArith Bool Arith Lia Permutation.
Require Import Policy Structure SelProofs.
Import ListNotations.

Definition good (ds : list dimension) (ids : list N) : Prop :=
  NoDup ids /\ (forall i, In i ids -> In i (all_ids ds)) /\
  (forall d i j, In d ds -> In i ids -> In j ids -> In i (dim_ids d) -> In j (dim_ids d) -> i = j).

Lemma NoDup_app_remove_l {A} (l1 l2 : list A) : NoDup (l1 ++ l2) -> NoDup l2.
Proof. induction l1 as [|x l1 IH]; cbn; intros H; [exact H|]. inversion H; subst. apply IH. assumption. Qed.

Lemma sel_incl ds p : sel ds p -> incl p (all_ids ds).
Proof.
  induction 1 as [|d ds p _ IH|d ds p i Hi _ IH]; intros x Hx; cbn.
  - destruct Hx.
  - apply in_app_iff. right. apply IH. exact Hx.
  - apply in_app_iff. destruct Hx as [<-|Hx]; [left; exact Hi|right; apply IH; exact Hx].
Qed.

Lemma sel_NoDup ds p : NoDup (all_ids ds) -> sel ds p -> NoDup p.
Proof.
  intros Hnd H. induction H as [|d ds p _ IH|d ds p i Hi Hs IH].
  - constructor.
  - apply IH. cbn in Hnd. apply NoDup_app_remove_l in Hnd. exact Hnd.
  - cbn in Hnd. constructor.
    + intros Hin. apply sel_incl in Hs. apply Hs in Hin.
      clear - Hnd Hi Hin. induction (dim_ids d) as [|x l IHl]; [destruct Hi|].
      cbn in Hnd. inversion Hnd as [|? ? Hx Hnd']; subst. destruct Hi as [<-|Hi].
      * apply Hx. apply in_app_iff. right. exact Hin.
      * apply IHl; assumption.
    + apply IH. apply NoDup_app_remove_l in Hnd. exact Hnd.
Qed.

Lemma NoDup_app_disjoint {A} (l1 l2 : list A) x : NoDup (l1 ++ l2) -> In x l1 -> In x l2 -> False.
Proof.
  induction l1 as [|y l1 IH]; intros Hnd H1 H2; [destruct H1|].
  cbn in Hnd. inversion Hnd as [|? ? Hy Hnd']; subst. destruct H1 as [<-|H1].
  - apply Hy. apply in_app_iff. right. exact H2.
  - apply IH; assumption.
Qed.

Lemma sel_one_per_dim ds p : NoDup (all_ids ds) -> sel ds p ->
  forall d i j, In d ds -> In i p -> In j p -> In i (dim_ids d) -> In j (dim_ids d) -> i = j.
Proof.
  intros Hnd H. induction H as [|d0 ds p Hs IH|d0 ds p i0 Hi0 Hs IH]; intros d i j Hd Hi Hj Hid Hjd.
  - destruct Hi.
  - cbn in Hnd. destruct Hd as [<-|Hd].
    + (* i in p ⊆ all_ids ds and in dim_ids d0: contradiction *)
      exfalso. apply sel_incl in Hs. eapply NoDup_app_disjoint; [exact Hnd|exact Hid|apply Hs; exact Hi].
    + apply (IH (NoDup_app_remove_l _ _ Hnd) d i j); assumption.
  - cbn in Hnd. pose proof (sel_incl _ _ Hs) as Hinc.
    destruct Hd as [<-|Hd].
    + destruct Hi as [<-|Hi]; destruct Hj as [<-|Hj]; try reflexivity.
      * exfalso. eapply NoDup_app_disjoint; [exact Hnd|exact Hjd|apply Hinc; exact Hj].
      * exfalso. eapply NoDup_app_disjoint; [exact Hnd|exact Hid|apply Hinc; exact Hi].
      * exfalso. eapply NoDup_app_disjoint; [exact Hnd|exact Hid|apply Hinc; exact Hi].
    + assert (Hall : forall x, In x (dim_ids d) -> In x (all_ids ds)).
      { intros x Hx. unfold all_ids. apply in_flat_map. exists d. split; assumption. }
      destruct Hi as [<-|Hi]; destruct Hj as [<-|Hj]; try reflexivity.
      * exfalso. eapply NoDup_app_disjoint; [exact Hnd|exact Hi0|apply Hall; exact Hid].
      * exfalso. eapply NoDup_app_disjoint; [exact Hnd|exact Hi0|apply Hall; exact Hjd].
      * apply (IH (NoDup_app_remove_l _ _ Hnd) d i j); assumption.
Qed.

Lemma good_perm ds ids ids' : Permutation ids ids' -> good ds ids -> good ds ids'.
Proof.
  intros Hp (Hnd & Hin & Hone). repeat split.
  - eapply Permutation_NoDup; eassumption.
  - intros i Hi. apply Hin. eapply Permutation_in; [symmetry; exact Hp|exact Hi].
  - intros d i j Hd Hi Hj. apply Hone; [exact Hd| |]; (eapply Permutation_in; [symmetry; exact Hp|assumption]).
Qed.

Lemma sel_good ds p : NoDup (all_ids ds) -> sel ds p -> good ds p.
Proof.
  intros Hnd Hs. repeat split.
  - eapply sel_NoDup; eassumption.
  - apply sel_incl. exact Hs.
  - apply sel_one_per_dim; assumption.
Qed.

Lemma good_sel : forall ds, NoDup (all_ids ds) -> forall ids, good ds ids -> exists p, sel ds p /\ Permutation p ids.
Proof.
  induction ds as [|d ds IH]; intros Hnd ids (Hnd_ids & Hin & Hone).
  - exists []. split; [constructor|]. destruct ids as [|x t]; [reflexivity|]. exfalso. apply (Hin x). left. reflexivity.
  - cbn in Hnd.
    destruct (Exists_dec (fun i => In i (dim_ids d)) ids (fun i => in_dec N.eq_dec i (dim_ids d))) as [Hex|Hnex].
    + apply Exists_exists in Hex. destruct Hex as (i & Hi & Hid).
      apply in_split in Hi. destruct Hi as (l1 & l2 & ->).
      assert (Hperm : Permutation (i :: l1 ++ l2) (l1 ++ i :: l2)) by apply Permutation_middle.
      destruct (IH (NoDup_app_remove_l _ _ Hnd) (l1 ++ l2)) as (p & Hs & Hp).
      { repeat split.
        - apply NoDup_remove_1 in Hnd_ids. exact Hnd_ids.
        - intros x Hx.
          assert (Hx' : In x (l1 ++ i :: l2)) by (apply in_app_iff in Hx; apply in_app_iff; destruct Hx; [left|right; right]; assumption).
          specialize (Hin x Hx'). cbn in Hin. apply in_app_iff in Hin. destruct Hin as [Hxd|Hxr]; [|exact Hxr].
          exfalso. assert (x = i).
          { apply (Hone d x i); [left; reflexivity|exact Hx'|apply in_app_iff; right; left; reflexivity|exact Hxd|exact Hid]. }
          subst x. apply NoDup_remove_2 in Hnd_ids. apply Hnd_ids. exact Hx.
        - intros d' x y Hd' Hx Hy. apply Hone; [right; exact Hd'| |];
            (apply in_app_iff; match goal with H : In _ (l1 ++ l2) |- _ => apply in_app_iff in H; destruct H; [left|right; right]; assumption end). }
      exists (i :: p). split; [apply sel_pick; assumption|].
      rewrite <- Hperm. apply perm_skip. exact Hp.
    + destruct (IH (NoDup_app_remove_l _ _ Hnd) ids) as (p & Hs & Hp).
      { repeat split; [exact Hnd_ids| |].
        - intros x Hx. specialize (Hin x Hx). cbn in Hin. apply in_app_iff in Hin. destruct Hin as [Hxd|Hxr]; [|exact Hxr].
          exfalso. apply Hnex. apply Exists_exists. exists x. split; assumption.
        - intros d' x y Hd'. apply Hone. right. exact Hd'. }
      exists p. split; [apply sel_skip; exact Hs|exact Hp].
Qed.

Theorem sel_perm_good ds ids : NoDup (all_ids ds) -> ((exists p, sel ds p /\ Permutation p ids) <-> good ds ids).
Proof.
  intros Hnd. split.
  - intros (p & Hs & Hp). eapply good_perm; [exact Hp|]. apply sel_good; assumption.
  - apply good_sel. exact Hnd.
Qed.
Print Assumptions sel_perm_good.
