(* Symbolic model of the Covercrypt KEM of /repo/src/core/primitives.rs, BOTH modes (classic, hybridized).
   Generalises the prototype Crypto.v.  Properties: C17 (user_id_relation), C01 (decaps_correct_c/_h),
   C02/C07 (decaps_sound, tag_commits_c/_h), full_decaps_spec.

   Modelling conventions
   * Scalars live in an abstract field F.  A group element is identified with its discrete logarithm, so the
     Rust `P * x` (point times scalar) is field multiplication, the generator is 1, the binding point
     h = s.G is the scalar s, a tracer point P_i is its secret scalar t_i.
   * Hash functions are symbolic.  A hash input is the list of the typed fields (symbols) that the Rust code
     feeds to `update`, in the same order.  The order of the fields is given ONCE, by the layouts below, and the
     model's hash inputs are built from these layouts ([hin]); [hash_layout] prints them.
   * Iteration order.  The Rust decapsulators shuffle the entries and the secrets and walk the secrets revision
     by revision.  The model walks entries (outer loop) and a flat list of secrets (inner loop).  This loses
     nothing: [c_decaps_iff]/[h_decaps_iff] show that the result is Some k iff SOME (entry, secret) pair opens
     with k, and all pairs that open yield the same k; so the result does not depend on the order.
   * Errors (Rust `Err`) and "cannot open" (`Ok(None)`) are both `None` where only one of them can occur;
     [encaps] returns an option only because [h_encaps] can fail on a classic subkey (unreachable from
     [encaps], see [encaps_total]). *)
From Coq Require Import List Bool Field Ring Setoid Lia String.
From CC Require Import CryptoKemBase.
Import ListNotations.

Section Scheme.
  (* ---------------- scalars ---------------- *)
  Variable F : Type.
  Variables (zero one : F) (add mul sub : F -> F -> F) (opp : F -> F) (div : F -> F -> F) (inv : F -> F).
  Hypothesis Fth : field_theory zero one add mul sub opp div inv (@eq F).
  Add Field Ffield : Fth.
  Hypothesis F_eq_dec : forall x y : F, {x = y} + {x <> y}.
  Infix "+" := add. Infix "*" := mul. Infix "-" := sub. Infix "/" := div.

  (* ---------------- digests, ML-KEM objects, rights ---------------- *)
  Variable D : Type.                      (* 32-byte strings: S, T, U, K2, F_i, session key; 16-byte tag *)
  Hypothesis D_eq_dec : forall x y : D, {x = y} + {x <> y}.
  Variables KC KD KE R : Type.            (* ML-KEM ciphertext, decapsulation key, encapsulation key, coins *)
  Variable Rt : Type.                     (* rights (coordinates) *)
  Hypothesis Rt_eq_dec : forall x y : Rt, {x = y} + {x <> y}.

  Inductive symbol := SPoint (p : F) | SDigest (d : D) | SKemCt (e : KC).

  Variables (H Jtag Jkey : list symbol -> D) (G : D -> F) (mask unmask : D -> D -> D).
  Variables (kem_pub : KD -> KE) (kem_enc : KE -> R -> KC * D) (kem_dec : KD -> KC -> D).

  (* IDEALISATION "distinct symbol lists hash to distinct digests".
     H stands for SHA3-256 applied to the concatenation of the serialised fields, Jtag for the first 16 bytes
     of SHA3-384 of S||U.  [H_inj] says: two lists of TYPED fields (point / 32-byte string / ML-KEM ciphertext)
     that differ - in length, in the type of some position, or in the value of some position - have different
     digests.  It bundles (a) collision resistance of SHA3-256 (2^128 work), resp. of the 128-bit tag (2^64
     work: the tag is "only" collision resistant, see TAG_LENGTH in mod.rs), and (b) unambiguity of the
     concatenation.  (b) is exact for two lists of the same shape, because every field has a fixed width
     (point 32 or 33 bytes, string 32 bytes, ciphertext 768/1088 bytes).  For lists of different shapes the
     byte strings could coincide (e.g. one 1088-byte ciphertext = 34 fields of 32 bytes); the symbolic model
     abstracts from this: no theorem below compares two hash inputs of different shapes and concludes anything
     but "they differ", which at the byte level costs at worst a SHA3 collision between inputs of distinct lengths
     or distinct parsing - still a collision.  Only injectivity is used; nothing else is assumed of H, Jtag,
     and NOTHING of Jkey and G. *)
  Hypothesis H_inj : forall a b, H a = H b -> a = b.
  Hypothesis Jtag_inj : forall a b, Jtag a = Jtag b -> a = b.
  (* XOR.  Rust: F = xor_2(S, pad) ("mask S pad"), S' = xor_in_place(pad', F) ("unmask F pad'").
     Both facts hold for bitwise xor on equal-length strings: (S^p)^p = S, and (S^p)^p' = S iff p^p' = 0 iff
     p = p'.  The second one is what soundness really needs (it implies the injectivity of mask in its
     second argument, [mask_inj_r] below). *)
  Hypothesis unmask_mask : forall s p, unmask (mask s p) p = s.
  Hypothesis unmask_mask_only : forall s p p', unmask (mask s p) p' = s -> p' = p.
  (* ML-KEM.  Correctness (FIPS 203: decapsulation failure probability < 2^-139 for honest keys); and
     "robustness": decapsulating with a key dk a ciphertext made for another encapsulation key does not give
     the encapsulated secret.  For ML-KEM the implicit rejection returns a pseudo-random value J(z||c), equal
     to the real shared secret with probability 2^-256.  [kem_robust] is only a premise of the theorems that
     go from "opens" to "holds the same ML-KEM key" (decaps_sound_pk, full_decaps_spec in hybrid mode). *)
  Hypothesis kem_correct : forall dk rnd, kem_dec dk (fst (kem_enc (kem_pub dk) rnd)) = snd (kem_enc (kem_pub dk) rnd).
  Hypothesis kem_robust : forall dk ek rnd, kem_dec dk (fst (kem_enc ek rnd)) = snd (kem_enc ek rnd) -> ek = kem_pub dk.

  (* ---------------- hash inputs, built from the layouts ---------------- *)
  Fixpoint hin (lay : list fld) (env : fld -> list symbol) : list symbol :=
    match lay with [] => [] | [f] => env f | f :: l => env f ++ hin l env end.
  Definition T_c (c : list F) : D :=
    H (hin lay_T_classic (fun f => match f with FldC => map SPoint c | _ => [] end)).
  Definition T_h (c : list F) (es : list KC) : D :=
    H (hin lay_T_hybrid (fun f => match f with FldC => map SPoint c | FldE => map SKemCt es | _ => [] end)).
  Definition U (t : D) (fs : list D) : D :=
    H (hin lay_U (fun f => match f with FldT => [SDigest t] | FldF => map SDigest fs | _ => [] end)).
  Definition pad (k1 : F) (ok2 : option D) (t : D) : D :=
    match ok2 with
    | None => H (hin lay_H_classic (fun f => match f with FldK1 => [SPoint k1] | FldT => [SDigest t] | _ => [] end))
    | Some k2 => H (hin lay_H_hybrid (fun f => match f with FldK1 => [SPoint k1] | FldK2 => [SDigest k2]
                                                        | FldT => [SDigest t] | _ => [] end))
    end.
  Definition jin (S u : D) : list symbol :=
    hin lay_J (fun f => match f with FldS => [SDigest S] | FldU => [SDigest u] | _ => [] end).

  Lemma T_c_eq c : T_c c = H (map SPoint c). Proof. reflexivity. Qed.
  Lemma T_h_eq c es : T_h c es = H (map SPoint c ++ map SKemCt es). Proof. reflexivity. Qed.
  Lemma U_eq t fs : U t fs = H (SDigest t :: map SDigest fs). Proof. reflexivity. Qed.
  Lemma pad_c_eq k1 t : pad k1 None t = H [SPoint k1; SDigest t]. Proof. reflexivity. Qed.
  Lemma pad_h_eq k1 k2 t : pad k1 (Some k2) t = H [SPoint k1; SDigest k2; SDigest t]. Proof. reflexivity. Qed.
  Lemma jin_eq S u : jin S u = [SDigest S; SDigest u]. Proof. reflexivity. Qed.

  (* ---------------- keys and encapsulations ---------------- *)
  Definition rsk : Type := F * option KD.          (* RightSecretKey: (sk, None) classic, (sk, Some dk) hybridized *)
  Definition rpk : Type := F * option KE.          (* RightPublicKey: (H, None) / (H, Some ek) *)
  Definition cpk (h : F) (k : rsk) : rpk := (h * fst k, option_map kem_pub (snd k)).     (* RightSecretKey::cpk *)
  Definition is_hyb (p : rpk) : bool := match snd p with Some _ => true | None => false end.
  Definition all_hyb (l : list (rpk * R)) : bool := forallb (fun k => is_hyb (fst k)) l.

  Inductive encs := CEncs (fs : list D) | HEncs (es : list (KC * D)).
  Record xenc := { x_tag : D; x_c : list F; x_encs : encs }.

  Definition set_traps (ps : list F) (r : F) : list F := map (fun P => P * r) ps.

  (* Each target public key comes with the ML-KEM coins used for it (ignored in classic mode). *)
  Definition c_entries (S : D) (r : F) (t : D) (subkeys : list (rpk * R)) : list D :=
    map (fun k => mask S (pad (fst (fst k) * r) None t)) subkeys.
  Definition c_encaps (S : D) (c : list F) (r : F) (subkeys : list (rpk * R)) : D * xenc :=
    let t := T_c c in
    let fs := c_entries S r t subkeys in
    let u := U t fs in
    (Jkey (jin S u), {| x_tag := Jtag (jin S u); x_c := c; x_encs := CEncs fs |}).

  (* first map of h_encaps: (K1, K2, E) per subkey, error on a classic subkey *)
  Fixpoint h_prepare (r : F) (l : list (rpk * R)) : option (list (F * D * KC)) :=
    match l with
    | [] => Some []
    | tg :: l' =>
      match snd (fst tg) with
      | None => None
      | Some ek =>
        match h_prepare r l' with
        | None => None
        | Some t => Some ((fst (fst tg) * r, snd (kem_enc ek (snd tg)), fst (kem_enc ek (snd tg))) :: t)
        end
      end
    end.
  Definition h_entries (S t : D) (pre : list (F * D * KC)) : list (KC * D) :=
    map (fun p => (snd p, mask S (pad (fst (fst p)) (Some (snd (fst p))) t))) pre.
  Definition h_encaps (S : D) (c : list F) (r : F) (subkeys : list (rpk * R)) : option (D * xenc) :=
    match h_prepare r subkeys with
    | None => None
    | Some pre =>
      let t := T_h c (map snd pre) in
      let es := h_entries S t pre in
      let u := U t (map snd es) in
      Some (Jkey (jin S u), {| x_tag := Jtag (jin S u); x_c := c; x_encs := HEncs es |})
    end.

  (* tracers: the tracer points of the MPK; targets: the (shuffled) public keys of the encryption set *)
  Definition encaps (tracers : list F) (targets : list (rpk * R)) (S : D) : option (D * xenc) :=
    let r := G S in
    let c := set_traps tracers r in
    if all_hyb targets then h_encaps S c r targets else Some (c_encaps S c r targets).

  Record usk := { u_markers : list F; u_ps : list F; u_secrets : list rsk }.

  Fixpoint dot (xs ys : list F) : F :=
    match xs, ys with x :: xs', y :: ys' => x * y + dot xs' ys' | _, _ => zero end.
  Definition list_F_eq_dec : forall a b : list F, {a = b} + {a <> b} := list_eq_dec F_eq_dec.

  (* One attempt: S' = pad' xor F; early-abort tag; Fujisaki-Okamoto re-computation of the traps. *)
  Definition try_open (ps c : list F) (tag : D) (A : F) (t u : D) (f : D) (ok2 : option D) (sk : F) : option D :=
    let S' := unmask f (pad (A * sk) ok2 t) in
    if D_eq_dec (Jtag (jin S' u)) tag then
      if list_F_eq_dec (set_traps ps (G S')) c then Some (Jkey (jin S' u)) else None
    else None.
  Definition open_c (try : D -> option D -> F -> option D) (f : D) (s : rsk) : option D := try f None (fst s).
  Definition open_h (try : D -> option D -> F -> option D) (e : KC * D) (s : rsk) : option D :=
    match snd s with Some dk => try (snd e) (Some (kem_dec dk (fst e))) (fst s) | None => None end.

  Definition c_decaps (k : usk) (A : F) (c : list F) (tag : D) (fs : list D) : option D :=
    let t := T_c c in let u := U t fs in
    first_some (fun f => first_some (open_c (try_open (u_ps k) c tag A t u) f) (u_secrets k)) fs.
  Definition h_decaps (k : usk) (A : F) (c : list F) (tag : D) (es : list (KC * D)) : option D :=
    let t := T_h c (map fst es) in let u := U t (map snd es) in
    first_some (fun e => first_some (open_h (try_open (u_ps k) c tag A t u) e) (u_secrets k)) es.
  Definition decaps (k : usk) (x : xenc) : option D :=
    let A := dot (u_markers k) (x_c x) in      (* zip stops at the shorter list, as [dot] does *)
    match x_encs x with
    | HEncs es => h_decaps k A (x_c x) (x_tag x) es
    | CEncs fs => c_decaps k A (x_c x) (x_tag x) fs
    end.

  (* TracingSecretKey::generate_user_id: rnd = the n-1 random markers; error if no tracer or t_n = 0 *)
  Definition generate_user_id (s : F) (ts rnd : list F) : option (list F) :=
    match ts with
    | [] => None
    | _ :: _ =>
      let init := removelast ts in
      let tl := last ts zero in
      if Nat.eqb (List.length rnd) (List.length init) then
        if F_eq_dec tl zero then None else Some (rnd ++ [(s - dot init rnd) / tl])
      else None
    end.

  (* MasterSecretKey: binding scalar s, tracer scalars, per right the chain of (activated, secret) *)
  Record msk := { m_s : F; m_ts : list F; m_secrets : list (Rt * list (bool * rsk)) }.
  Definition fd_scan {E} (try1 : E -> rsk -> option D) (entries : list E)
             (secrets : list (Rt * list (bool * rsk))) : list (Rt * D) :=
    flat_map (fun e => flat_map (fun rs => flat_map (fun bs : bool * rsk =>
      if fst bs then match try1 e (snd bs) with Some ss => [(fst rs, ss)] | None => [] end else [])
      (snd rs)) secrets) entries.
  Definition full_decaps_with (m : msk) (x : xenc) (A : F) : option (D * list Rt) :=
    let c := x_c x in
    let t := match x_encs x with HEncs es => T_h c (map fst es) | CEncs _ => T_c c end in
    let u := U t (match x_encs x with HEncs es => map snd es | CEncs fs => fs end) in
    let try := try_open (m_ts m) c (x_tag x) A t u in
    let hits := match x_encs x with
                | HEncs es => fd_scan (open_h try) es (m_secrets m)
                | CEncs fs => fd_scan (open_c try) fs (m_secrets m)
                end in
    match last_opt hits with     (* enc_ss = the last success; rights = the set of all successes *)
    | None => None
    | Some (_, ss) => Some (ss, nodup Rt_eq_dec (map fst hits))
    end.
  Definition full_decaps (m : msk) (x : xenc) : option (D * list Rt) :=
    match x_c x, m_ts m with
    | c0 :: _, t0 :: _ =>
      if F_eq_dec t0 zero then None (* "Division by zero" *) else full_decaps_with m x (c0 * (m_s m / t0))
    | _, _ => None     (* "C is empty", "MSK has no tracer" *)
    end.

  (* ======================================================================================================== *)
  (* symbol lists *)
  Lemma SPoint_inj a b : SPoint a = SPoint b -> a = b. Proof. intros E. injection E as E. exact E. Qed.
  Lemma SDigest_inj a b : SDigest a = SDigest b -> a = b. Proof. intros E. injection E as E. exact E. Qed.
  Lemma SKemCt_inj a b : SKemCt a = SKemCt b -> a = b. Proof. intros E. injection E as E. exact E. Qed.
  (* a T input determines the traps AND the ML-KEM ciphertexts; in particular a classic input (no E) and a
     hybrid input with at least one E never coincide *)
  Lemma pts_cts_inj c E c' E' : map SPoint c ++ map SKemCt E = map SPoint c' ++ map SKemCt E' -> c = c' /\ E = E'.
  Proof.
    revert c'. induction c as [|p c IH]; intros [|p' c'] Eq; cbn in Eq.
    - split; [reflexivity|]. eapply map_inj; [exact SKemCt_inj|exact Eq].
    - destruct E; discriminate.
    - destruct E'; discriminate.
    - injection Eq as -> Eq. destruct (IH _ Eq) as [-> ->]. split; reflexivity.
  Qed.
  Lemma T_h_inj c E c' E' : T_h c E = T_h c' E' -> c = c' /\ E = E'.
  Proof. rewrite !T_h_eq. intros Eq. apply H_inj in Eq. apply pts_cts_inj. exact Eq. Qed.
  Lemma T_c_h c : T_c c = T_h c []. Proof. rewrite T_c_eq, T_h_eq. cbn [map]. rewrite app_nil_r. reflexivity. Qed.
  Lemma U_inj t fs t' fs' : U t fs = U t' fs' -> t = t' /\ fs = fs'.
  Proof. rewrite !U_eq. intros Eq. apply H_inj in Eq. injection Eq as -> Eq. split; [reflexivity|].
    eapply map_inj; [exact SDigest_inj|exact Eq]. Qed.
  Lemma pad_inj k1 ok2 t k1' ok2' t' : pad k1 ok2 t = pad k1' ok2' t' -> k1 = k1' /\ ok2 = ok2' /\ t = t'.
  Proof. destruct ok2 as [k2|], ok2' as [k2'|]; rewrite ?pad_c_eq, ?pad_h_eq; intros Eq; apply H_inj in Eq;
    try discriminate; injection Eq; intros; subst; auto. Qed.
  Lemma jtag_inj S u S' u' : Jtag (jin S u) = Jtag (jin S' u') -> S = S' /\ u = u'.
  Proof. intros Eq. apply Jtag_inj in Eq. rewrite !jin_eq in Eq. injection Eq; auto. Qed.
  Lemma mask_inj_r s p p' : mask s p = mask s p' -> p = p'.
  Proof. intros Eq. symmetry. apply (unmask_mask_only s). rewrite Eq. apply unmask_mask. Qed.
  Lemma unmask_honest S p p' : unmask (mask S p) p' = S <-> p' = p.
  Proof. split; [apply unmask_mask_only|intros ->; apply unmask_mask]. Qed.

  (* field *)
  Lemma mul_cancel_r r a b : r <> zero -> a * r = b * r -> a = b.
  Proof. intros Hr Eq. transitivity ((a * r) / r); [field; exact Hr|]. rewrite Eq. field. exact Hr. Qed.
  Lemma mul_cancel_l r a b : r <> zero -> r * a = r * b -> a = b.
  Proof. intros Hr Eq. apply (mul_cancel_r r); [exact Hr|]. transitivity (r * a); [ring|]. rewrite Eq. ring. Qed.
  Lemma dot_scale r : forall ts ms, dot ms (set_traps ts r) = dot ms ts * r.
  Proof. induction ts as [|t ts IH]; intros [|m ms]; cbn; try ring. rewrite IH. ring. Qed.
  Lemma dot_comm : forall a b, dot a b = dot b a.
  Proof. induction a as [|x a IH]; intros [|y b]; cbn; try reflexivity. rewrite IH. ring. Qed.
  Lemma dot_app : forall a b a' b', List.length a = List.length b -> dot (a ++ a') (b ++ b') = dot a b + dot a' b'.
  Proof. induction a as [|x a IH]; intros [|y b] a' b' Hl; try discriminate; cbn.
    - ring.
    - rewrite IH; [ring|]. cbn in Hl. injection Hl as Hl. exact Hl. Qed.

  (* ======================================================================================================== *)
  (* C17: the markers of a generated user id satisfy  sum_i a_i t_i = s *)
  Theorem user_id_relation s init tl ms :
    tl <> zero -> List.length ms = List.length init ->
    dot (ms ++ [(s - dot init ms) / tl]) (init ++ [tl]) = s.
  Proof. intros Htl Hl. rewrite dot_app by exact Hl. cbn. rewrite (dot_comm init ms). field. exact Htl. Qed.

  (* the same for the model of generate_user_id (whose division-by-zero error discharges t_n <> 0) *)
  Theorem generate_user_id_sound s ts rnd id : generate_user_id s ts rnd = Some id -> dot id ts = s.
  Proof.
    unfold generate_user_id. destruct ts as [|t0 ts']; [discriminate|]. cbv zeta.
    assert (Hd : t0 :: ts' = removelast (t0 :: ts') ++ [last (t0 :: ts') zero]) by (apply app_removelast_last; discriminate).
    revert Hd. generalize (removelast (t0 :: ts')) (last (t0 :: ts') zero). intros init tl ->.
    destruct (Nat.eqb _ _) eqn:El; [|discriminate]. destruct (F_eq_dec _ _) as [|Hz]; [discriminate|].
    intros E. injection E as <-. apply PeanoNat.Nat.eqb_eq in El.
    apply user_id_relation; assumption.
  Qed.
  Lemma generate_user_id_length s ts rnd id : generate_user_id s ts rnd = Some id -> List.length id = List.length ts.
  Proof.
    unfold generate_user_id. destruct ts as [|t0 ts']; [discriminate|]. cbv zeta.
    assert (Hd : t0 :: ts' = removelast (t0 :: ts') ++ [last (t0 :: ts') zero]) by (apply app_removelast_last; discriminate).
    revert Hd. generalize (removelast (t0 :: ts')) (last (t0 :: ts') zero). intros init tl ->.
    destruct (Nat.eqb _ _) eqn:El; [|discriminate]. destruct (F_eq_dec _ _); [discriminate|].
    intros E. injection E as <-. apply PeanoNat.Nat.eqb_eq in El. rewrite !app_length, El. reflexivity.
  Qed.

  (* ======================================================================================================== *)
  (* one attempt *)
  Lemma try_open_spec ps c tag A t u f ok2 sk k :
    try_open ps c tag A t u f ok2 sk = Some k <->
    Jtag (jin (unmask f (pad (A * sk) ok2 t)) u) = tag /\
    set_traps ps (G (unmask f (pad (A * sk) ok2 t))) = c /\
    k = Jkey (jin (unmask f (pad (A * sk) ok2 t)) u).
  Proof.
    unfold try_open. destruct (D_eq_dec _ _) as [Et|Et]; [destruct (list_F_eq_dec _ _) as [Ec|Ec]|]; split.
    - intros E. injection E as <-. auto.
    - intros (_ & _ & ->). reflexivity.
    - discriminate.
    - intros (_ & Ec' & _). contradiction.
    - discriminate.
    - intros (Et' & _). contradiction.
  Qed.
  (* all successful attempts against the same (tag, U) give the same key: the tag pins S' *)
  Lemma try_open_unique ps c tag A t u f ok2 sk k ps' c' A' t' f' ok2' sk' k' :
    try_open ps c tag A t u f ok2 sk = Some k -> try_open ps' c' tag A' t' u f' ok2' sk' = Some k' -> k = k'.
  Proof.
    intros H1 H2. apply try_open_spec in H1. apply try_open_spec in H2.
    destruct H1 as (E1 & _ & ->). destruct H2 as (E2 & _ & ->). rewrite <- E2 in E1.
    apply jtag_inj in E1. destruct E1 as [-> _]. reflexivity.
  Qed.
  (* an attempt against an HONEST entry  mask S (pad K1 ok2 t)  under the honest tag succeeds iff the
     recomputed pad inputs coincide with the honest ones (and the FO check passes), and then gives the key *)
  Lemma try_open_honest ps c A t u S K1 ok2 ok2' sk k :
    try_open ps c (Jtag (jin S u)) A t u (mask S (pad K1 ok2 t)) ok2' sk = Some k <->
    k = Jkey (jin S u) /\ set_traps ps (G S) = c /\ A * sk = K1 /\ ok2' = ok2.
  Proof.
    rewrite try_open_spec. split.
    - intros (Et & Ec & ->). apply jtag_inj in Et. destruct Et as [ES _]. rewrite ES in *.
      apply unmask_honest in ES. apply pad_inj in ES. destruct ES as (E1 & E2 & _). auto.
    - intros (-> & Ec & <- & ->). rewrite unmask_mask. auto.
  Qed.

  (* decapsulation = "some (entry, secret) pair opens"; independent of the iteration order *)
  Lemma open_c_unique ps c tag A t u f s k ps' c' A' t' f' s' k' :
    open_c (try_open ps c tag A t u) f s = Some k -> open_c (try_open ps' c' tag A' t' u) f' s' = Some k' -> k = k'.
  Proof. unfold open_c. apply try_open_unique. Qed.
  Lemma open_h_unique ps c tag A t u e s k ps' c' A' t' e' s' k' :
    open_h (try_open ps c tag A t u) e s = Some k -> open_h (try_open ps' c' tag A' t' u) e' s' = Some k' -> k = k'.
  Proof. unfold open_h. destruct (snd s); [|discriminate]. destruct (snd s'); [|discriminate]. apply try_open_unique. Qed.
  Lemma c_decaps_iff k A c tag fs key :
    c_decaps k A c tag fs = Some key <->
    exists f s, In f fs /\ In s (u_secrets k) /\ open_c (try_open (u_ps k) c tag A (T_c c) (U (T_c c) fs)) f s = Some key.
  Proof. unfold c_decaps. apply first_some2_iff. intros a b a' b' k1 k2. apply open_c_unique. Qed.
  Lemma h_decaps_iff k A c tag es key :
    h_decaps k A c tag es = Some key <->
    exists e s, In e es /\ In s (u_secrets k) /\
      open_h (try_open (u_ps k) c tag A (T_h c (map fst es)) (U (T_h c (map fst es)) (map snd es))) e s = Some key.
  Proof. unfold h_decaps. apply first_some2_iff. intros a b a' b' k1 k2. apply open_h_unique. Qed.
  (* a key made of classic secrets only opens no hybridized encapsulation (h_decaps skips classic secrets) *)
  Lemma h_decaps_needs_hybridized k x es :
    x_encs x = HEncs es -> (forall s, In s (u_secrets k) -> snd s = None) -> decaps k x = None.
  Proof.
    intros Ex Hall. unfold decaps. rewrite Ex. destruct (h_decaps _ _ _ _ _) as [key|] eqn:E; [|reflexivity].
    apply h_decaps_iff in E. destruct E as (e & s & _ & Hs & E). unfold open_h in E. rewrite (Hall s Hs) in E. discriminate.
  Qed.

  (* shape of honest encapsulations *)
  Lemma h_prepare_fwd r l pre : h_prepare r l = Some pre -> forall tg, In tg l ->
    exists ek, snd (fst tg) = Some ek /\ In (fst (fst tg) * r, snd (kem_enc ek (snd tg)), fst (kem_enc ek (snd tg))) pre.
  Proof.
    revert pre. induction l as [|x l IH]; intros pre E tg Hin; [destruct Hin|]. cbn in E.
    destruct (snd (fst x)) as [ek|] eqn:Ek; [|discriminate]. destruct (h_prepare r l) as [t|]; [|discriminate].
    injection E as <-. destruct Hin as [<-|Hin].
    - exists ek. split; [exact Ek|left; reflexivity].
    - destruct (IH _ eq_refl _ Hin) as (ek' & E1 & E2). exists ek'. split; [exact E1|right; exact E2].
  Qed.
  Lemma h_prepare_bwd r l pre : h_prepare r l = Some pre -> forall p, In p pre ->
    exists tg ek, In tg l /\ snd (fst tg) = Some ek /\
                  p = (fst (fst tg) * r, snd (kem_enc ek (snd tg)), fst (kem_enc ek (snd tg))).
  Proof.
    revert pre. induction l as [|x l IH]; intros pre E p Hin; cbn in E; [injection E as <-; destruct Hin|].
    destruct (snd (fst x)) as [ek|] eqn:Ek; [|discriminate]. destruct (h_prepare r l) as [t|]; [|discriminate].
    injection E as <-. destruct Hin as [<-|Hin].
    - exists x, ek. split; [left; reflexivity|]. split; [exact Ek|reflexivity].
    - destruct (IH _ eq_refl _ Hin) as (tg & ek' & E1 & E2 & E3). exists tg, ek'. split; [right; exact E1|]. split; assumption.
  Qed.
  Lemma h_prepare_total r l : all_hyb l = true -> exists pre, h_prepare r l = Some pre.
  Proof.
    induction l as [|x l IH]; cbn; [eexists; reflexivity|]. intros E. apply andb_true_iff in E. destruct E as [E1 E2].
    unfold is_hyb in E1. destruct (snd (fst x)); [|discriminate]. destruct (IH E2) as (pre & ->). eexists. reflexivity.
  Qed.
  (* the error branch of h_encaps is unreachable from encaps *)
  Theorem encaps_total tracers targets S : exists key x, encaps tracers targets S = Some (key, x).
  Proof.
    unfold encaps. destruct (all_hyb targets) eqn:E.
    - unfold h_encaps. destruct (h_prepare_total (G S) _ E) as (pre & ->). eexists. eexists. reflexivity.
    - eexists. eexists. reflexivity.
  Qed.
  Lemma h_entries_fst S t pre : map fst (h_entries S t pre) = map snd pre.
  Proof. unfold h_entries. rewrite map_map. reflexivity. Qed.

  Definition honest_c (S : D) (c : list F) (r : F) (subkeys : list (rpk * R)) (key : D) (x : xenc) : Prop :=
    let t := T_c c in let fs := c_entries S r t subkeys in let u := U t fs in
    key = Jkey (jin S u) /\ x = {| x_tag := Jtag (jin S u); x_c := c; x_encs := CEncs fs |}.
  Definition honest_h (S : D) (c : list F) (r : F) (subkeys : list (rpk * R)) (key : D) (x : xenc) : Prop :=
    exists pre, h_prepare r subkeys = Some pre /\
      let t := T_h c (map snd pre) in let es := h_entries S t pre in let u := U t (map snd es) in
      key = Jkey (jin S u) /\ x = {| x_tag := Jtag (jin S u); x_c := c; x_encs := HEncs es |}.
  Lemma c_encaps_shape S c r l : honest_c S c r l (fst (c_encaps S c r l)) (snd (c_encaps S c r l)).
  Proof. split; reflexivity. Qed.
  Lemma h_encaps_shape S c r l key x : h_encaps S c r l = Some (key, x) -> honest_h S c r l key x.
  Proof. unfold h_encaps. destruct (h_prepare r l) as [pre|] eqn:E; [|discriminate]. intros E'. injection E' as <- <-.
    exists pre. split; [exact E|]. split; reflexivity. Qed.
  Lemma encaps_shape ts targets S key x : encaps ts targets S = Some (key, x) ->
    if all_hyb targets then honest_h S (set_traps ts (G S)) (G S) targets key x
    else honest_c S (set_traps ts (G S)) (G S) targets key x.
  Proof. unfold encaps. destruct (all_hyb targets).
    - apply h_encaps_shape.
    - intros E. injection E as <- <-. apply c_encaps_shape. Qed.

  (* who opens an honest encapsulation, with an ARBITRARY A and ps: used by decaps and by full_decaps *)
  Lemma open_honest_c S c r l ps A f s k :
    let t := T_c c in let fs := c_entries S r t l in let u := U t fs in
    In f fs -> open_c (try_open ps c (Jtag (jin S u)) A t u) f s = Some k ->
    k = Jkey (jin S u) /\ exists tg, In tg l /\ A * fst s = fst (fst tg) * r.
  Proof.
    intros t fs u Hf. unfold fs, c_entries in Hf. apply in_map_iff in Hf. destruct Hf as (tg & <- & Htg).
    unfold open_c. intros E. apply try_open_honest in E. destruct E as (-> & _ & E & _).
    split; [reflexivity|]. exists tg. auto.
  Qed.
  Lemma open_honest_c_complete S c r l ps A s tg :
    let t := T_c c in let fs := c_entries S r t l in let u := U t fs in
    In tg l -> A * fst s = fst (fst tg) * r -> set_traps ps (G S) = c ->
    exists f, In f fs /\ open_c (try_open ps c (Jtag (jin S u)) A t u) f s = Some (Jkey (jin S u)).
  Proof.
    intros t fs u Htg EA Ec. exists (mask S (pad (fst (fst tg) * r) None t)). split.
    - unfold fs, c_entries. apply in_map_iff. exists tg. auto.
    - unfold open_c. apply try_open_honest. auto.
  Qed.
  Lemma open_honest_h S c r l pre ps A e s k :
    h_prepare r l = Some pre ->
    let t := T_h c (map snd pre) in let es := h_entries S t pre in let u := U t (map snd es) in
    In e es -> open_h (try_open ps c (Jtag (jin S u)) A t u) e s = Some k ->
    k = Jkey (jin S u) /\
    exists tg dk ek, In tg l /\ snd s = Some dk /\ snd (fst tg) = Some ek /\ A * fst s = fst (fst tg) * r /\
                     kem_dec dk (fst (kem_enc ek (snd tg))) = snd (kem_enc ek (snd tg)).
  Proof.
    intros Hpre t es u He. unfold es, h_entries in He. apply in_map_iff in He. destruct He as (p & <- & Hp).
    destruct (h_prepare_bwd _ _ _ Hpre _ Hp) as (tg & ek & Htg & Eek & ->). cbn [fst snd].
    unfold open_h. cbn [fst snd]. destruct (snd s) as [dk|] eqn:Es; [|discriminate]. intros E.
    apply try_open_honest in E. destruct E as (-> & _ & E1 & E2). split; [reflexivity|].
    exists tg, dk, ek. injection E2 as E2. auto.
  Qed.
  Lemma open_honest_h_complete S c r l pre ps A s tg dk :
    h_prepare r l = Some pre ->
    let t := T_h c (map snd pre) in let es := h_entries S t pre in let u := U t (map snd es) in
    In tg l -> snd s = Some dk -> snd (fst tg) = Some (kem_pub dk) -> A * fst s = fst (fst tg) * r ->
    set_traps ps (G S) = c ->
    exists e, In e es /\ open_h (try_open ps c (Jtag (jin S u)) A t u) e s = Some (Jkey (jin S u)).
  Proof.
    intros Hpre t es u Htg Es Eek EA Ec.
    destruct (h_prepare_fwd _ _ _ Hpre _ Htg) as (ek & Eek' & Hp). rewrite Eek in Eek'. injection Eek' as <-.
    eexists. split.
    - unfold es, h_entries. apply in_map_iff. eexists. split; [reflexivity|exact Hp].
    - cbn [fst snd]. unfold open_h. rewrite Es. cbn [fst snd]. apply try_open_honest.
      rewrite kem_correct. auto.
  Qed.

  (* ======================================================================================================== *)
  (* C01: correctness.  s = binding scalar, ts = tracer scalars (= tracer points).  The user key satisfies
     the tracing relation (C17), carries the tracer points, and holds ANYWHERE in its secrets a secret with
     the scalar of one target public key.
     Classic mode (some target is classic): only the scalar matters; the user secret and the target may each
     be classic or hybridized (mixed cases). *)
  Theorem decaps_correct_c s ts k targets S sk odk oek rnd key x :
    dot (u_markers k) ts = s -> u_ps k = ts ->
    In (sk, odk) (u_secrets k) -> In ((s * sk, oek), rnd) targets ->
    all_hyb targets = false ->
    encaps ts targets S = Some (key, x) ->
    decaps k x = Some key.
  Proof.
    intros Hrel Hps Hsk Htg Hmode Henc. apply encaps_shape in Henc. rewrite Hmode in Henc.
    destruct Henc as [-> ->]. unfold decaps. cbn [x_encs x_c x_tag]. apply c_decaps_iff.
    destruct (open_honest_c_complete S (set_traps ts (G S)) (G S) targets (u_ps k)
                (dot (u_markers k) (set_traps ts (G S))) (sk, odk) _ Htg) as (f & Hf & Hopen).
    - cbn [fst]. rewrite dot_scale, Hrel. ring.
    - rewrite Hps. reflexivity.
    - exists f, (sk, odk). auto.
  Qed.

  (* Hybridized mode (all targets hybridized): the user must hold the hybridized secret (sk, dk) of a target
     whose public key is (s*sk, kem_pub dk). *)
  Theorem decaps_correct_h s ts k targets S sk dk rnd key x :
    dot (u_markers k) ts = s -> u_ps k = ts ->
    In (sk, Some dk) (u_secrets k) -> In ((s * sk, Some (kem_pub dk)), rnd) targets ->
    all_hyb targets = true ->
    encaps ts targets S = Some (key, x) ->
    decaps k x = Some key.
  Proof.
    intros Hrel Hps Hsk Htg Hmode Henc. apply encaps_shape in Henc. rewrite Hmode in Henc.
    destruct Henc as (pre & Hpre & -> & ->). unfold decaps. cbn [x_encs x_c x_tag]. apply h_decaps_iff.
    rewrite h_entries_fst.
    destruct (open_honest_h_complete S (set_traps ts (G S)) (G S) targets pre (u_ps k)
                (dot (u_markers k) (set_traps ts (G S))) (sk, Some dk) _ dk Hpre Htg) as (e & He & Hopen); try reflexivity.
    - cbn [fst]. rewrite dot_scale, Hrel. ring.
    - rewrite Hps. reflexivity.
    - exists e, (sk, Some dk). auto.
  Qed.

  (* ======================================================================================================== *)
  (* C02 / C07 "never a wrong secret": whatever the user key (ANY markers, ps, secrets), if it opens an honest
     encapsulation then it returns the encapsulated key, and one of its secrets recomputed exactly the pad
     inputs of one entry:  A * sk_user = H_i * r  (and in hybridized mode the ML-KEM secret K2_i). *)
  Theorem decaps_sound ts targets S key x k key' :
    encaps ts targets S = Some (key, x) -> decaps k x = Some key' ->
    key' = key /\
    exists su tg, In su (u_secrets k) /\ In tg targets /\
      (dot (u_markers k) ts * G S) * fst su = fst (fst tg) * G S /\
      (all_hyb targets = true -> exists dk ek, snd su = Some dk /\ snd (fst tg) = Some ek /\
                                               kem_dec dk (fst (kem_enc ek (snd tg))) = snd (kem_enc ek (snd tg))).
  Proof.
    intros Henc Hdec. apply encaps_shape in Henc. destruct (all_hyb targets) eqn:Hmode.
    - destruct Henc as (pre & Hpre & -> & ->). unfold decaps in Hdec. cbn [x_encs x_c x_tag] in Hdec.
      apply h_decaps_iff in Hdec. destruct Hdec as (e & su & He & Hsu & Hopen). rewrite h_entries_fst in Hopen.
      eapply open_honest_h in Hopen; [|exact Hpre|exact He].
      destruct Hopen as (-> & tg & dk & ek & Htg & E1 & E2 & E3 & E4). split; [reflexivity|].
      exists su, tg. split; [exact Hsu|]. split; [exact Htg|]. split.
      + rewrite <- E3. rewrite dot_scale. reflexivity.
      + intros _. exists dk, ek. auto.
    - destruct Henc as [-> ->]. unfold decaps in Hdec. cbn [x_encs x_c x_tag] in Hdec.
      apply c_decaps_iff in Hdec. destruct Hdec as (f & su & Hf & Hsu & Hopen).
      eapply open_honest_c in Hopen; [|exact Hf].
      destruct Hopen as (-> & tg & Htg & E). split; [reflexivity|].
      exists su, tg. split; [exact Hsu|]. split; [exact Htg|]. split; [|discriminate].
      rewrite <- E. rewrite dot_scale. reflexivity.
  Qed.

  (* Hence, for a user key that satisfies the tracing relation, with s <> 0 and r = G S <> 0: the user holds the
     SCALAR of a targeted right.  Side conditions: s is a uniformly random scalar (zero with probability 1/q,
     q ~ 2^252 or 2^256); r = G(S) is a hash-to-scalar of a random 32-byte secret (zero with probability ~1/q).
     Without the tracing relation (forged markers) A is some other multiple a*r of r and the conclusion reads
     a * sk_user = s * sk_i, which is what the tracing argument of the paper exploits; not needed here. *)
  Lemma cpk_point_inj s a b : s <> zero -> fst (cpk s a) = fst (cpk s b) -> fst a = fst b.
  Proof. unfold cpk. cbn [fst]. apply mul_cancel_l. Qed.
  Theorem decaps_sound_scalar s ts (tsec : list (rsk * R)) S key x k key' :
    dot (u_markers k) ts = s -> s <> zero -> G S <> zero ->
    encaps ts (map (fun p => (cpk s (fst p), snd p)) tsec) S = Some (key, x) -> decaps k x = Some key' ->
    key' = key /\ exists su rk rnd, In su (u_secrets k) /\ In (rk, rnd) tsec /\ fst su = fst rk.
  Proof.
    intros Hrel Hs Hr Henc Hdec. destruct (decaps_sound _ _ _ _ _ _ _ Henc Hdec) as (-> & su & tg & Hsu & Htg & E & _).
    split; [reflexivity|]. apply in_map_iff in Htg. destruct Htg as ([rk rnd] & <- & Hin). cbn [fst snd cpk] in E.
    exists su, rk, rnd. split; [exact Hsu|]. split; [exact Hin|]. rewrite Hrel in E.
    apply (mul_cancel_l (s * G S)).
    - intros Hz. apply Hr. apply (mul_cancel_l s); [exact Hs|]. rewrite Hz. ring.
    - rewrite E. ring.
  Qed.
  (* ... and in hybridized mode, with a robust ML-KEM, the user holds a secret with the same PUBLIC KEY as a target
     (same point s*sk and same ML-KEM encapsulation key). *)
  Theorem decaps_sound_pk s ts targets S key x k key' :
    dot (u_markers k) ts = s -> G S <> zero -> all_hyb targets = true ->
    encaps ts targets S = Some (key, x) -> decaps k x = Some key' ->
    key' = key /\ exists su tg, In su (u_secrets k) /\ In tg targets /\ fst tg = cpk s su.
  Proof.
    intros Hrel Hr Hmode Henc Hdec. destruct (decaps_sound _ _ _ _ _ _ _ Henc Hdec) as (-> & su & tg & Hsu & Htg & E & Eh).
    split; [reflexivity|]. exists su, tg. split; [exact Hsu|]. split; [exact Htg|].
    destruct (Eh Hmode) as (dk & ek & E1 & E2 & E3). apply kem_robust in E3. subst ek.
    destruct tg as [[Hj oek] rnd]. cbn [fst snd] in *. unfold cpk. rewrite E1, E2. cbn [option_map]. f_equal.
    apply (mul_cancel_r (G S)); [exact Hr|]. rewrite <- E, Hrel. ring.
  Qed.

  (* ======================================================================================================== *)
  (* C07: the tag commits to the whole encapsulation.  x is honest (output of c_encaps / h_encaps, for ANY S, c,
     r, subkeys); x' is ANY encapsulation (either mode, any components), the user key is ANY key.  If x'
     carries the tag of x and decapsulates to k, then x' IS x and k is the key of x.
     Collisions between modes: T_classic(c') = T_hybrid(c, E_1..E_m) forces m = 0 ([pts_cts_inj]), and an
     encapsulation without entries decapsulates to None. *)
  Lemma decaps_tag_spec k x' key' : decaps k x' = Some key' ->
    exists S', x_tag x' = Jtag (jin S' (match x_encs x' with
                                       | CEncs fs => U (T_c (x_c x')) fs
                                       | HEncs es => U (T_h (x_c x') (map fst es)) (map snd es) end)) /\
               key' = Jkey (jin S' (match x_encs x' with
                                       | CEncs fs => U (T_c (x_c x')) fs
                                       | HEncs es => U (T_h (x_c x') (map fst es)) (map snd es) end)) /\
               match x_encs x' with CEncs fs => fs <> [] | HEncs es => es <> [] end.
  Proof.
    unfold decaps. destruct (x_encs x') as [fs|es]; intros E.
    - apply c_decaps_iff in E. destruct E as (f & s & Hf & _ & E). unfold open_c in E. apply try_open_spec in E.
      destruct E as (E1 & _ & E2). eexists. split; [symmetry; exact E1|]. split; [exact E2|]. intros ->. destruct Hf.
    - apply h_decaps_iff in E. destruct E as (e & s & He & _ & E). unfold open_h in E. destruct (snd s); [|discriminate].
      apply try_open_spec in E.
      destruct E as (E1 & _ & E2). eexists. split; [symmetry; exact E1|]. split; [exact E2|]. intros ->. destruct He.
  Qed.
  Lemma tag_commits_honest_c S c r subkeys key x k x' key' :
    honest_c S c r subkeys key x -> decaps k x' = Some key' -> x_tag x' = x_tag x -> x' = x /\ key' = key.
  Proof.
    intros [-> ->] Hdec Htag. apply decaps_tag_spec in Hdec. destruct Hdec as (S' & Et & -> & Hne).
    rewrite Htag in Et. cbn [x_tag] in Et. apply jtag_inj in Et. destruct Et as [<- EU].
    destruct x' as [tag' c' [fs'|es']]; cbn [x_tag x_c x_encs] in *.
    - apply U_inj in EU. destruct EU as [ET <-]. rewrite !T_c_eq in ET. apply H_inj in ET.
      apply map_inj in ET; [|exact SPoint_inj]. subst c'. rewrite Htag. split; reflexivity.
    - exfalso. apply U_inj in EU. destruct EU as [ET _]. rewrite T_c_h in ET. apply T_h_inj in ET.
      destruct ET as [_ ET]. destruct es'; [apply Hne; reflexivity|discriminate].
  Qed.
  Lemma tag_commits_honest_h S c r subkeys key x k x' key' :
    honest_h S c r subkeys key x -> decaps k x' = Some key' -> x_tag x' = x_tag x -> x' = x /\ key' = key.
  Proof.
    intros (pre & _ & -> & ->) Hdec Htag. apply decaps_tag_spec in Hdec. destruct Hdec as (S' & Et & -> & Hne).
    rewrite Htag in Et. cbn [x_tag] in Et. apply jtag_inj in Et. destruct Et as [<- EU].
    destruct x' as [tag' c' [fs'|es']]; cbn [x_tag x_c x_encs] in *.
    - exfalso. apply U_inj in EU. destruct EU as [ET EF]. rewrite T_c_h in ET. apply T_h_inj in ET.
      destruct ET as [_ ET]. destruct pre; [|discriminate]. cbn in EF. apply Hne. symmetry. exact EF.
    - apply U_inj in EU. destruct EU as [ET EF]. apply T_h_inj in ET. destruct ET as [<- ET].
      rewrite <- h_entries_fst with (S := S) (t := T_h c (map snd pre)) in ET.
      rewrite <- (fst_snd_eq _ _ ET EF), Htag, h_entries_fst. split; reflexivity.
  Qed.
  Theorem tag_commits_c S c r subkeys k x' key' :
    let '(key, x) := c_encaps S c r subkeys in
    decaps k x' = Some key' -> x_tag x' = x_tag x -> x' = x /\ key' = key.
  Proof. pose proof (c_encaps_shape S c r subkeys) as Hs. destruct (c_encaps S c r subkeys) as [key x].
    cbn [fst snd] in Hs. eapply tag_commits_honest_c. exact Hs. Qed.
  Theorem tag_commits_h S c r subkeys key x k x' key' :
    h_encaps S c r subkeys = Some (key, x) ->
    decaps k x' = Some key' -> x_tag x' = x_tag x -> x' = x /\ key' = key.
  Proof. intros E. apply (tag_commits_honest_h S c r subkeys). apply h_encaps_shape. exact E. Qed.
  Theorem tag_commits ts targets S key x k x' key' :
    encaps ts targets S = Some (key, x) ->
    decaps k x' = Some key' -> x_tag x' = x_tag x -> x' = x /\ key' = key.
  Proof. intros E. apply encaps_shape in E. destruct (all_hyb targets);
    [eapply tag_commits_honest_h|eapply tag_commits_honest_c]; exact E. Qed.

  (* ======================================================================================================== *)
  (* full_decaps: a right "opens" when one of its ACTIVATED secrets has the public key of a target: the same
     point s*sk, and in hybridized mode also the same ML-KEM encapsulation key (hence it is hybridized). *)
  Definition right_opens (m : msk) (targets : list (rpk * R)) (rt : Rt) : Prop :=
    exists chain su tg, In (rt, chain) (m_secrets m) /\ In (true, su) chain /\ In tg targets /\
      if all_hyb targets then fst tg = cpk (m_s m) su else fst (fst tg) = fst (cpk (m_s m) su).

  Lemma fd_scan_In {E} (try1 : E -> rsk -> option D) entries secrets rt ss :
    In (rt, ss) (fd_scan try1 entries secrets) <->
    exists e chain su, In e entries /\ In (rt, chain) secrets /\ In (true, su) chain /\ try1 e su = Some ss.
  Proof.
    unfold fd_scan. rewrite in_flat_map. split.
    - intros (e & He & H1). apply in_flat_map in H1. destruct H1 as ([rt' chain] & Hc & H1).
      apply in_flat_map in H1. destruct H1 as ([b su] & Hs & H1). cbn [fst snd] in *.
      destruct b; [|destruct H1]. destruct (try1 e su) as [ss'|] eqn:Et; [|destruct H1].
      destruct H1 as [H1|[]]. injection H1 as <- <-. exists e, chain, su. auto.
    - intros (e & chain & su & He & Hc & Hs & Et). exists e. split; [exact He|].
      apply in_flat_map. exists (rt, chain). split; [exact Hc|]. apply in_flat_map. exists (true, su).
      split; [exact Hs|]. cbn [fst snd]. rewrite Et. left. reflexivity.
  Qed.

  (* Side conditions: t_0 <> 0 (otherwise the Rust returns "Division by zero"; t_0 is a random scalar) and
     r = G S <> 0 (needed only to conclude from  s*r*sk = H_i*r  that  H_i = s*sk).  [kem_robust] is used
     in hybridized mode only. *)
  Theorem full_decaps_spec m t0 ts' targets S key x :
    m_ts m = t0 :: ts' -> t0 <> zero -> G S <> zero ->
    encaps (m_ts m) targets S = Some (key, x) ->
    match full_decaps m x with
    | Some (key', rs) => key' = key /\ NoDup rs /\ forall rt, In rt rs <-> right_opens m targets rt
    | None => forall rt, ~ right_opens m targets rt
    end.
  Proof.
    intros Hts Ht0 Hr Henc. apply encaps_shape in Henc.
    set (r := G S) in *. set (c := set_traps (m_ts m) r) in *. set (A := m_s m * r).
    assert (Hxc : x_c x = c).
    { destruct (all_hyb targets); [destruct Henc as (pre & _ & _ & ->)|destruct Henc as [_ ->]]; reflexivity. }
    unfold full_decaps. rewrite Hxc. unfold c at 1. rewrite Hts. cbn [set_traps map].
    destruct (F_eq_dec t0 zero) as [|_]; [contradiction|].
    replace (t0 * r * (m_s m / t0)) with A by (unfold A; field; exact Ht0).
    unfold full_decaps_with. rewrite Hxc.
    match goal with |- context [last_opt ?h] => set (hits := h) end.
    (* characterisation of the hits *)
    assert (Hhits : (forall rt ss, In (rt, ss) hits -> ss = key) /\
                    (forall rt, (exists ss, In (rt, ss) hits) <-> right_opens m targets rt)).
    { unfold right_opens. destruct (all_hyb targets) eqn:Hmode.
      - destruct Henc as (pre & Hpre & Ek & Ex). subst hits. subst x. cbn [x_encs x_tag x_c]. rewrite h_entries_fst.
        split.
        + intros rt ss Hin. apply fd_scan_In in Hin. destruct Hin as (e & chain & su & He & _ & _ & Hopen).
          eapply open_honest_h in Hopen; [|exact Hpre|exact He]. destruct Hopen as [-> _]. symmetry. exact Ek.
        + intros rt. split.
          * intros (ss & Hin). apply fd_scan_In in Hin. destruct Hin as (e & chain & su & He & Hc & Hs & Hopen).
            eapply open_honest_h in Hopen; [|exact Hpre|exact He].
            destruct Hopen as (_ & tg & dk & ek & Htg & E1 & E2 & E3 & E4). apply kem_robust in E4. subst ek.
            exists chain, su, tg. split; [exact Hc|]. split; [exact Hs|]. split; [exact Htg|].
            destruct tg as [[Hj oek] rnd]. cbn [fst snd] in *. unfold cpk. rewrite E1, E2. cbn [option_map]. f_equal.
            apply (mul_cancel_r r); [exact Hr|]. rewrite <- E3. unfold A. ring.
          * intros (chain & su & tg & Hc & Hs & Htg & Epk).
            assert (Esu : exists dk, snd su = Some dk /\ snd (fst tg) = Some (kem_pub dk)).
            { destruct (h_prepare_fwd _ _ _ Hpre _ Htg) as (ek & Eek & _). rewrite Epk in Eek. cbn [cpk snd] in Eek.
              destruct (snd su) as [dk|] eqn:Edk; [|discriminate]. exists dk. split; [reflexivity|]. rewrite Epk.
              cbn [cpk snd]. rewrite Edk. reflexivity. }
            destruct Esu as (dk & Edk & Eek).
            destruct (open_honest_h_complete S c r targets pre (m_ts m) A su tg dk Hpre Htg Edk Eek) as (e & He & Hopen).
            -- rewrite Epk. cbn [cpk fst]. unfold A. ring.
            -- reflexivity.
            -- exists key. apply fd_scan_In. exists e, chain, su. rewrite Ek. auto.
      - destruct Henc as [Ek Ex]. subst hits. subst x. cbn [x_encs x_tag x_c]. split.
        + intros rt ss Hin. apply fd_scan_In in Hin. destruct Hin as (f & chain & su & Hf & _ & _ & Hopen).
          eapply open_honest_c in Hopen; [|exact Hf]. destruct Hopen as [-> _]. symmetry. exact Ek.
        + intros rt. split.
          * intros (ss & Hin). apply fd_scan_In in Hin. destruct Hin as (f & chain & su & Hf & Hc & Hs & Hopen).
            eapply open_honest_c in Hopen; [|exact Hf].
            destruct Hopen as (_ & tg & Htg & E). exists chain, su, tg. split; [exact Hc|]. split; [exact Hs|]. split; [exact Htg|].
            cbn [cpk fst]. apply (mul_cancel_r r); [exact Hr|]. rewrite <- E. unfold A. ring.
          * intros (chain & su & tg & Hc & Hs & Htg & Epk).
            destruct (open_honest_c_complete S c r targets (m_ts m) A su tg Htg) as (f & Hf & Hopen).
            -- rewrite Epk. cbn [cpk fst]. unfold A. ring.
            -- reflexivity.
            -- exists key. apply fd_scan_In. exists f, chain, su. rewrite Ek. auto. }
    destruct Hhits as [Hkey Hiff].
    destruct (last_opt hits) as [[rt0 ss]|] eqn:El.
    - apply last_opt_In in El. split; [eapply Hkey; exact El|]. split; [apply NoDup_nodup|].
      intros rt. rewrite nodup_In, <- Hiff. rewrite in_map_iff. split.
      + intros ([rt' ss'] & <- & Hin). exists ss'. exact Hin.
      + intros (ss' & Hin). exists (rt, ss'). split; [reflexivity|exact Hin].
    - apply last_opt_None in El. intros rt Hopen. apply Hiff in Hopen. destruct Hopen as (ss & Hin). rewrite El in Hin. destruct Hin.
  Qed.

  (* in terms of secrets: when the targets are the public keys of the right secrets tsec and s <> 0, a right that
     opens has an activated secret with the SCALAR of a target secret (and, in hybridized mode, the same ML-KEM
     encapsulation key) *)
  Lemma right_opens_secret m (tsec : list (rsk * R)) rt :
    m_s m <> zero ->
    right_opens m (map (fun p => (cpk (m_s m) (fst p), snd p)) tsec) rt ->
    exists chain su rk rnd, In (rt, chain) (m_secrets m) /\ In (true, su) chain /\ In (rk, rnd) tsec /\
      fst su = fst rk /\
      (all_hyb (map (fun p => (cpk (m_s m) (fst p), snd p)) tsec) = true ->
       option_map kem_pub (snd su) = option_map kem_pub (snd rk)).
  Proof.
    intros Hs (chain & su & tg & Hc & Hsu & Htg & E). apply in_map_iff in Htg. destruct Htg as ([rk rnd] & <- & Hin).
    cbn [fst snd] in E. exists chain, su, rk, rnd. split; [exact Hc|]. split; [exact Hsu|]. split; [exact Hin|]. split.
    - symmetry. apply (cpk_point_inj (m_s m)); [exact Hs|]. destruct (all_hyb _); [rewrite E; reflexivity|exact E].
    - intros Hm. rewrite Hm in E. apply (f_equal snd) in E. cbn [cpk snd] in E. symmetry. exact E.
  Qed.
End Scheme.

Arguments SPoint {F D KC} p.
Arguments SDigest {F D KC} d.
Arguments SKemCt {F D KC} e.
Arguments CEncs {D KC} fs.
Arguments HEncs {D KC} es.
Arguments Build_xenc {F D KC} x_tag x_c x_encs.
Arguments x_tag {F D KC} x.
Arguments x_c {F D KC} x.
Arguments x_encs {F D KC} x.
Arguments Build_usk {F KD} u_markers u_ps u_secrets.
Arguments u_markers {F KD} u.
Arguments u_ps {F KD} u.
Arguments u_secrets {F KD} u.
Arguments Build_msk {F KD Rt} m_s m_ts m_secrets.
Arguments m_s {F KD Rt} m.
Arguments m_ts {F KD Rt} m.
Arguments m_secrets {F KD Rt} m.

Print Assumptions user_id_relation.
Print Assumptions generate_user_id_sound.
Print Assumptions encaps_total.
Print Assumptions c_decaps_iff.
Print Assumptions h_decaps_iff.
Print Assumptions decaps_correct_c.
Print Assumptions decaps_correct_h.
Print Assumptions decaps_sound.
Print Assumptions decaps_sound_scalar.
Print Assumptions decaps_sound_pk.
Print Assumptions tag_commits_c.
Print Assumptions tag_commits_h.
Print Assumptions tag_commits.
Print Assumptions full_decaps_spec.
Print Assumptions right_opens_secret.
