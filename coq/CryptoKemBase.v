(* Section-independent part of CryptoKem.v: the hash layouts (which fields each hash of the Covercrypt KEM
   consumes, in order), first_some / last_opt, and list lemmas. *)
From Coq Require Import List Bool String.
Import ListNotations.

(* ---------------------------------------------------------------------------------------------------------- *)
(* Hash layouts: which fields each hash consumes, in order.  "x*" = every element of the vector x, in order.   *)
Inductive fld := FldC | FldE | FldT | FldF | FldK1 | FldK2 | FldS | FldU.
Definition lay_T_classic := [FldC].                 (* c_encaps/c_decaps/full_decaps: T = SHA3-256(c_0..c_n)        *)
Definition lay_T_hybrid  := [FldC; FldE].           (* h_encaps/h_decaps/full_decaps: T = SHA3-256(c_0..c_n,E_1..E_m)*)
Definition lay_U         := [FldT; FldF].           (* U = SHA3-256(T, F_1..F_m)                                      *)
Definition lay_H_classic := [FldK1; FldT].          (* H_hash(K1, None, T)                                            *)
Definition lay_H_hybrid  := [FldK1; FldK2; FldT].   (* H_hash(K1, Some K2, T)                                         *)
Definition lay_J         := [FldS; FldU].           (* J_hash(S, U) = SHA3-384, split into (tag, key)                 *)
Definition lay_G         := [FldS].                 (* G_hash(S) = hash to scalar                                     *)
Definition fld_name (f : fld) : string :=
  match f with FldC => "c*" | FldE => "E*" | FldT => "T" | FldF => "F*"
             | FldK1 => "K1" | FldK2 => "K2" | FldS => "S" | FldU => "U" end%string.
Definition hash_layout : list (string * list string) :=
  [ ("T_classic", map fld_name lay_T_classic); ("T_hybrid", map fld_name lay_T_hybrid);
    ("U", map fld_name lay_U);
    ("H_classic", map fld_name lay_H_classic); ("H_hybrid", map fld_name lay_H_hybrid);
    ("J", map fld_name lay_J); ("G", map fld_name lay_G) ]%string.

Fixpoint first_some {A B} (f : A -> option B) (l : list A) : option B :=
  match l with [] => None | a :: t => match f a with Some b => Some b | None => first_some f t end end.
Fixpoint last_opt {A} (l : list A) : option A :=
  match l with [] => None | [a] => Some a | _ :: t => last_opt t end.

(* generic list lemmas *)
Lemma first_some_Some {A B} (f : A -> option B) l b : first_some f l = Some b -> exists a, In a l /\ f a = Some b.
Proof. induction l as [|a l IH]; cbn; [discriminate|]. destruct (f a) eqn:E.
  - intros H0. inversion H0; subst. exists a. split; [left; reflexivity|exact E].
  - intros H0. destruct (IH H0) as (a' & Hin & Hf). exists a'. split; [right; exact Hin|exact Hf]. Qed.
Lemma first_some_In {A B} (f : A -> option B) l a b :
  In a l -> f a = Some b -> (forall a' b', In a' l -> f a' = Some b' -> b' = b) -> first_some f l = Some b.
Proof.
  induction l as [|x l IH]; intros Hin Hf Huniq; [destruct Hin|]. cbn.
  destruct (f x) eqn:E; [f_equal; eapply Huniq; [left; reflexivity|exact E]|].
  destruct Hin as [->|Hin]; [congruence|]. apply IH; [exact Hin|exact Hf|]. intros a' b' Ha'. apply Huniq. right. exact Ha'.
Qed.
Lemma first_some2_iff {A B C} (f : A -> B -> option C) la lb :
  (forall a b a' b' k k', f a b = Some k -> f a' b' = Some k' -> k = k') ->
  forall k, first_some (fun a => first_some (f a) lb) la = Some k <-> exists a b, In a la /\ In b lb /\ f a b = Some k.
Proof.
  intros Huniq k. split.
  - intros H0. apply first_some_Some in H0. destruct H0 as (a & Ha & H0). apply first_some_Some in H0.
    destruct H0 as (b & Hb & H0). exists a, b. auto.
  - intros (a & b & Ha & Hb & Hf).
    assert (Hin : forall a' k', first_some (f a') lb = Some k' -> k' = k).
    { intros a' k' H0. apply first_some_Some in H0. destruct H0 as (b' & _ & H0). eapply Huniq; eassumption. }
    eapply first_some_In; [exact Ha| |intros a' k' _; apply Hin].
    eapply first_some_In; [exact Hb|exact Hf|]. intros b' k' _ H0. eapply Huniq; eassumption.
Qed.
Lemma last_opt_In {A} (l : list A) a : last_opt l = Some a -> In a l.
Proof. induction l as [|x l IH]; [discriminate|]. destruct l as [|y l]; cbn.
  - intros E. injection E as ->. left. reflexivity.
  - intros E. right. apply IH. exact E. Qed.
Lemma last_opt_None {A} (l : list A) : last_opt l = None -> l = [].
Proof. induction l as [|x l IH]; [reflexivity|]. destruct l as [|y l]; [discriminate|]. intros E. specialize (IH E). discriminate. Qed.
Lemma map_inj {A B} (g : A -> B) : (forall a b, g a = g b -> a = b) -> forall l l', map g l = map g l' -> l = l'.
Proof. intros Hg. induction l as [|x l IH]; intros [|y l'] E; try discriminate; [reflexivity|].
  cbn in E. injection E as E1 E2. f_equal; [apply Hg; exact E1|apply IH; exact E2]. Qed.
Lemma fst_snd_eq {A B} (l l' : list (A * B)) : map fst l = map fst l' -> map snd l = map snd l' -> l = l'.
Proof. revert l'. induction l as [|[a b] l IH]; intros [|[a' b'] l'] E1 E2; try discriminate; [reflexivity|].
  cbn in E1, E2. injection E1 as -> E1. injection E2 as -> E2. f_equal. apply IH; assumption. Qed.

