(* Prototype proofs (scratch): lifting cover_iff_right to whole user policies; rank formulation of the order *)
From Coq Require Import List NArith Bool Arith Lia Permutation.
Require Import Policy Structure SelProofs GoodProofs AssocLemmas CoverProofs1 CoverProofs2 DisabledProofs.
Import ListNotations.

Lemma dedup_In x l : In x (dedup l) <-> In x l.
Proof.
  induction l as [|y l IH]; cbn; [tauto|].
  destruct (existsb (list_N_eqb y) l) eqn:E.
  - rewrite IH. split; [tauto|]. intros [<-|H]; [|exact H].
    apply existsb_exists in E. destruct E as (z & Hz & Ez). apply list_N_eqb_eq in Ez. subst. exact Hz.
  - cbn. rewrite IH. tauto.
Qed.

Lemma collect_clauses_spec st : forall dnf ps, collect_clauses st dnf = Ok ps ->
  forall p, In p ps <-> exists U psU, In U dnf /\ complementary_points st U = Ok psU /\ In p psU.
Proof.
  induction dnf as [|U dnf IH]; intros ps H p; cbn [collect_clauses] in H.
  - inversion H; subst. split; [intros []|intros (U & psU & [] & _)].
  - destruct (complementary_points st U) as [psU| | |] eqn:EU; try discriminate.
    destruct (collect_clauses st dnf) as [r| | |] eqn:Er; try discriminate. inversion H; subst.
    rewrite in_app_iff, (IH r eq_refl). split.
    + intros [Hp|(U' & psU' & HU' & Hc & Hp)]; [exists U, psU; repeat split; [left; reflexivity|exact EU|exact Hp]|exists U', psU'; repeat split; [right; exact HU'|exact Hc|exact Hp]].
    + intros (U' & psU' & [<-|HU'] & Hc & Hp); [left; rewrite EU in Hc; inversion Hc; subst; exact Hp|right; exists U', psU'; repeat split; assumption].
Qed.

(* C01/C02 at the rights level, for a whole user policy *)
Theorem usk_rights_cover st UP E rs ids :
  wf_structure st -> (forall U, In U (to_dnf UP) -> NoDup (map qdim U)) -> NoDup (map qdim E) ->
  complementary_rights st UP = Ok rs -> ids_of_clause st E = Ok ids ->
  (In (right_of_point ids) rs <-> exists U, In U (to_dnf UP) /\ covers st U E).
Proof.
  intros Hwf HU HE Hrs Hids. unfold complementary_rights in Hrs.
  destruct (collect_clauses st (to_dnf UP)) as [ps| | |] eqn:Ec; try discriminate. inversion Hrs; subst; clear Hrs.
  rewrite dedup_In. split.
  - intros Hin. apply in_map_iff in Hin. destruct Hin as (p & Hsort & Hp).
    apply (collect_clauses_spec _ _ _ Ec) in Hp. destruct Hp as (U & psU & HinU & HcU & HpU).
    exists U. split; [exact HinU|].
    apply (cover_iff_right st U E psU ids Hwf (HU U HinU) HE HcU Hids).
    rewrite <- Hsort. apply in_map. exact HpU.
  - intros (U & HinU & Hcov).
    assert (Hex : exists psU, complementary_points st U = Ok psU).
    { (* every clause of the DNF was expanded successfully *)
      clear - Ec HinU. revert ps Ec. induction (to_dnf UP) as [|U0 dnf IH]; intros ps Ec; [destruct HinU|].
      cbn [collect_clauses] in Ec. destruct (complementary_points st U0) as [psU0| | |] eqn:E0; try discriminate.
      destruct (collect_clauses st dnf) as [r| | |] eqn:Er; try discriminate.
      destruct HinU as [<-|HinU]; [eauto|]. eapply IH; [exact HinU|reflexivity]. }
    destruct Hex as (psU & HcU).
    apply (cover_iff_right st U E psU ids Hwf (HU U HinU) HE HcU Hids) in Hcov.
    apply in_map_iff in Hcov. destruct Hcov as (p & Hsort & Hp).
    apply in_map_iff. exists p. split; [exact Hsort|].
    apply (collect_clauses_spec _ _ _ Ec). exists U, psU. repeat split; assumption.
Qed.

(* the order used by [covers], read as ranks in the hierarchy *)
Lemma take_while_names_rank (l : list (str * attribute)) n m :
  NoDup (names_of l) -> In n (names_of l) ->
  (In m (names_of (take_while (fun p => negb (str_eqb (fst p) n)) l)) <->
   exists i j, nth_error (names_of l) i = Some m /\ nth_error (names_of l) j = Some n /\ i < j).
Proof.
  induction l as [|[k v] l IH]; intros Hnd Hn; [destruct Hn|].
  cbn [names_of map] in *. inversion Hnd as [|? ? Hk Hnd']; subst. cbn [take_while fst].
  destruct (str_eqb k n) eqn:E; cbn [negb].
  - apply str_eqb_eq in E. subst k. cbn. split; [intros []|].
    intros (i & j & Hi & Hj & Hlt). destruct j as [|j]; [lia|]. cbn in Hj. apply nth_error_In in Hj. contradiction.
  - apply str_eqb_neq in E. destruct Hn as [Hn|Hn]; [contradiction|]. cbn [names_of map In]. rewrite (IH Hnd' Hn). split.
    + intros [<-|(i & j & Hi & Hj & Hlt)].
      * apply In_nth_error in Hn. destruct Hn as (j & Hj). exists 0, (S j). repeat split; [exact Hj|lia].
      * exists (S i), (S j). repeat split; [exact Hi|exact Hj|lia].
    + intros (i & j & Hi & Hj & Hlt). destruct j as [|j]; [lia|]. cbn in Hj.
      destruct i as [|i]; [left; cbn in Hi; inversion Hi; reflexivity|right]. cbn in Hi. exists i, j. repeat split; [exact Hi|exact Hj|lia].
Qed.

Theorem le_name_hierarchy l m n : NoDup (names_of l) -> In n (names_of l) ->
  (le_name (Hierarchy l) m n <-> exists i j, nth_error (names_of l) i = Some m /\ nth_error (names_of l) j = Some n /\ i <= j).
Proof.
  intros Hnd Hn. unfold le_name, kept.
  destruct (alookup n l) as [a|] eqn:Ea.
  2:{ exfalso. apply (amem_true n l) in Hn. unfold amem in Hn. rewrite Ea in Hn. discriminate. }
  unfold names_of. rewrite map_app, in_app_iff. fold (names_of l). cbn [map In fst].
  rewrite (take_while_names_rank l n m Hnd Hn). split.
  - intros [(i & j & Hi & Hj & Hlt)|[<-|[]]]; [exists i, j; repeat split; [exact Hi|exact Hj|lia]|].
    apply In_nth_error in Hn. destruct Hn as (j & Hj). exists j, j. repeat split; [exact Hj|exact Hj|lia].
  - intros (i & j & Hi & Hj & Hle). destruct (Nat.eq_dec i j) as [->|Hne].
    + right. left. rewrite Hi in Hj. inversion Hj. reflexivity.
    + left. exists i, j. repeat split; [exact Hi|exact Hj|lia].
Qed.
Theorem le_name_anarchy l m n : In n (names_of l) -> (le_name (Anarchy l) m n <-> m = n).
Proof.
  intros Hn. unfold le_name, kept. destruct (alookup n l) as [a|] eqn:Ea.
  2:{ exfalso. apply (amem_true n l) in Hn. unfold amem in Hn. rewrite Ea in Hn. discriminate. }
  cbn. split; [intros [H|[]]; symmetry; exact H|intros ->; left; reflexivity].
Qed.
Print Assumptions usk_rights_cover.
Print Assumptions le_name_hierarchy.
