(* C13, part 5: the writers applied to well-formed objects produce BYTE strings (every element < 256).
   This is what the `is_bytes` / `u64` components of the wf_T predicates are for. *)
From Coq Require Import List NArith Bool Arith Lia.
Require Import Policy Structure Leb Wire WireSer WireRoundTrip1 WireRoundTrip2 WireRoundTrip3.
Import ListNotations.
Local Open Scope nat_scope.

Lemma is_bytes_app a b : is_bytes a -> is_bytes b -> is_bytes (a ++ b).
Proof. intros Ha Hb. apply Forall_app. split; assumption. Qed.
Lemma is_bytes_nil : is_bytes [].
Proof. apply Forall_nil. Qed.
Lemma is_bytes_flat_map {A} (g : A -> bytes) l : Forall (fun x => is_bytes (g x)) l -> is_bytes (flat_map g l).
Proof. induction 1 as [|x l Hx Hl IH]; [apply is_bytes_nil|]. cbn [flat_map]. apply is_bytes_app; assumption. Qed.

Ltac bapp := repeat match goal with |- is_bytes (_ ++ _) => apply is_bytes_app end.

Lemma leb128_fuel_bytes : forall f n, (n < 128 ^ N.of_nat (S f))%N -> is_bytes (leb128_fuel f n).
Proof.
  induction f as [|f IH]; intros n Hn.
  - change (128 ^ N.of_nat 1)%N with 128%N in Hn. cbn [leb128_fuel]. apply Forall_cons; [lia|apply Forall_nil].
  - cbn [leb128_fuel]. destruct (n <? 128)%N eqn:E.
    + apply N.ltb_lt in E. apply Forall_cons; [lia|apply Forall_nil].
    + apply Forall_cons.
      * pose proof (N.mod_lt n 128 ltac:(lia)). lia.
      * apply IH. rewrite Nnat.Nat2N.inj_succ, N.pow_succ_r' in Hn. apply N.div_lt_upper_bound; [lia|exact Hn].
Qed.
Lemma w_leb_bytes n : u64 n -> is_bytes (w_leb n).
Proof.
  intros H. apply leb128_fuel_bytes. change (128 ^ N.of_nat 11)%N with (2 ^ 77)%N.
  eapply N.lt_le_trans; [exact H|]. apply N.pow_le_mono_r; lia.
Qed.
Lemma w_flag_bytes b : is_bytes (w_flag b).
Proof. apply w_leb_bytes. unfold u64. destruct b; lia. Qed.
Lemma w_vec_bytes b : vec_ok b -> is_bytes (w_vec b).
Proof. intros [Hn Hb]. apply is_bytes_app; [apply w_leb_bytes; exact Hn|exact Hb]. Qed.
Lemma w_list_bytes {A} (g : A -> bytes) l : u64 (nlen l) -> Forall (fun x => is_bytes (g x)) l -> is_bytes (w_list g l).
Proof. intros Hn Hl. apply is_bytes_app; [apply w_leb_bytes; exact Hn|apply is_bytes_flat_map; exact Hl]. Qed.
Lemma w_blobs_bytes n l : u64 (nlen l) -> Forall (blob n) l -> is_bytes (w_list (fun p => p) l).
Proof. intros Hn Hl. apply w_list_bytes; [exact Hn|]. eapply Forall_impl; [|exact Hl]. intros b [_ Hb]. exact Hb. Qed.

Theorem wr_attr_bytes a : wf_attr a -> is_bytes (wr_attr a).
Proof. intros H. unfold wr_attr. bapp; [apply w_leb_bytes; exact H|apply w_flag_bytes|apply w_flag_bytes]. Qed.
Theorem wr_dim_bytes d : wf_dim d -> is_bytes (wr_dim d).
Proof.
  intros [Hn Hl]. unfold wr_dim. apply is_bytes_app; [apply w_flag_bytes|]. apply w_list_bytes; [exact Hn|].
  eapply Forall_impl; [|exact Hl]. intros na [Hv Ha]. unfold wr_named_attr.
  apply is_bytes_app; [apply w_vec_bytes; exact Hv|apply wr_attr_bytes; exact Ha].
Qed.
Theorem wr_structure_bytes s : wf_structure s -> is_bytes (wr_structure s).
Proof.
  intros (Hv & Hn & Hd). unfold wr_structure. bapp.
  - apply w_leb_bytes. unfold u64. destruct (ws_next s); [destruct Hv as [-> _]|rewrite Hv]; lia.
  - apply w_list_bytes; [exact Hn|]. eapply Forall_impl; [|exact Hd]. intros nd [Hvn Hdn]. unfold wr_named_dim.
    apply is_bytes_app; [apply w_vec_bytes; exact Hvn|apply wr_dim_bytes; exact Hdn].
  - destruct (ws_next s) as [nx|]; [apply w_leb_bytes; apply Hv|apply is_bytes_nil].
Qed.

Section Sized5.
  Variable sz : sizes.
  Theorem wr_rsk_bytes k : wf_rsk sz k -> is_bytes (wr_rsk k).
  Proof.
    intros [[_ Hs] Hd]. unfold wr_rsk. destruct (wk_hyb k).
    - destruct Hd as [_ Hd]. bapp; [apply (w_flag_bytes true)|exact Hs|exact Hd].
    - apply is_bytes_app; [apply (w_flag_bytes false)|exact Hs].
  Qed.
  Theorem wr_rpk_bytes k : wf_rpk sz k -> is_bytes (wr_rpk k).
  Proof.
    intros [[_ Hs] Hd]. unfold wr_rpk. destruct (wp_hyb k).
    - destruct Hd as [_ Hd]. bapp; [apply (w_flag_bytes true)|exact Hs|exact Hd].
    - apply is_bytes_app; [apply (w_flag_bytes false)|exact Hs].
  Qed.
  Theorem wr_userid_bytes id : wf_userid sz id -> is_bytes (wr_userid id).
  Proof. intros (_ & Hn & Hb). apply (w_blobs_bytes (scalar_len sz)); assumption. Qed.

  Theorem wr_msk_bytes m : wf_msk sz m -> is_bytes (wr_msk m).
  Proof.
    intros (_ & [_ Hs] & Hnt & Ht & Hnu & Hu & Hns & Hsec & Hsig & Hst). unfold wr_msk. bapp.
    - exact Hs.
    - apply w_list_bytes; [exact Hnt|]. eapply Forall_impl; [|exact Ht]. intros t [[_ H1] [_ H2]]. apply is_bytes_app; assumption.
    - apply w_list_bytes; [exact Hnu|]. eapply Forall_impl; [|exact Hu]. intros id Hid. apply wr_userid_bytes. exact Hid.
    - apply w_list_bytes; [exact Hns|]. eapply Forall_impl; [|exact Hsec]. intros rc (Hv & Hn & Hk). unfold wr_msk_chain.
      apply is_bytes_app; [apply w_vec_bytes; exact Hv|]. apply w_list_bytes; [exact Hn|].
      eapply Forall_impl; [|exact Hk]. intros ak Hak. apply is_bytes_app; [apply w_flag_bytes|apply wr_rsk_bytes; exact Hak].
    - destruct (wm_sign m) as [k|]; [apply Hsig|apply is_bytes_nil].
    - apply wr_structure_bytes. exact Hst.
  Qed.
  Theorem wr_mpk_bytes m : wf_mpk sz m -> is_bytes (wr_mpk m).
  Proof.
    intros (_ & Hnt & Ht & Hnk & Hk & Hst). unfold wr_mpk. bapp.
    - apply (w_blobs_bytes (point_len sz)); assumption.
    - apply w_list_bytes; [exact Hnk|]. eapply Forall_impl; [|exact Hk]. intros rk [Hv Hrk].
      apply is_bytes_app; [apply w_vec_bytes; exact Hv|apply wr_rpk_bytes; exact Hrk].
    - apply wr_structure_bytes. exact Hst.
  Qed.
  Theorem wr_usk_bytes u : wf_usk sz u -> is_bytes (wr_usk u).
  Proof.
    intros (Hid & Hnp & Hps & Hnc & Hch & Hsig). unfold wr_usk. bapp.
    - apply wr_userid_bytes. exact Hid.
    - apply (w_blobs_bytes (point_len sz)); assumption.
    - apply w_list_bytes; [exact Hnc|]. eapply Forall_impl; [|exact Hch]. intros rc (Hv & Hn & _ & Hk).
      apply is_bytes_app; [apply w_vec_bytes; exact Hv|]. apply w_list_bytes; [exact Hn|].
      eapply Forall_impl; [|exact Hk]. intros k Hwk. apply wr_rsk_bytes. exact Hwk.
    - destruct (wu_sig u) as [s|]; [apply Hsig|apply is_bytes_nil].
  Qed.
  Theorem wr_xenc_bytes x : wf_xenc sz x -> is_bytes (wr_xenc x).
  Proof.
    intros (_ & [_ Htag] & Hnc & Hc & Hne & He). unfold wr_xenc. bapp.
    - exact Htag.
    - apply (w_blobs_bytes (point_len sz)); assumption.
    - destruct (wx_hyb x).
      + apply is_bytes_app; [apply (w_flag_bytes true)|]. apply w_list_bytes; [exact Hne|].
        eapply Forall_impl; [|exact He]. intros ef [[_ H1] [_ H2]]. apply is_bytes_app; assumption.
      + apply is_bytes_app; [apply (w_flag_bytes false)|]. apply w_list_bytes; [unfold nlen in *; rewrite map_length; exact Hne|].
        apply Forall_forall. intros f Hin. apply in_map_iff in Hin. destruct Hin as (ef & <- & Hin).
        rewrite Forall_forall in He. apply (He ef Hin).
  Qed.
  Lemma opt_meta_vec_ok o : meta_ok o -> vec_ok (opt_bytes o).
  Proof. destruct o as [m|]; [intros [_ H]; exact H|]. intros _. split; [unfold u64, nlen; cbn; lia|apply is_bytes_nil]. Qed.
  Theorem wr_header_bytes h : wf_header sz h -> is_bytes (wr_header h).
  Proof.
    intros [Hx Hm]. unfold wr_header. apply is_bytes_app; [apply wr_xenc_bytes; exact Hx|].
    apply w_vec_bytes. apply opt_meta_vec_ok. exact Hm.
  Qed.
End Sized5.
Theorem wr_cleartext_bytes c : wf_cleartext c -> is_bytes (wr_cleartext c).
Proof.
  intros [[_ Hs] Hm]. unfold wr_cleartext. apply is_bytes_app; [exact Hs|]. apply w_vec_bytes. apply opt_meta_vec_ok. exact Hm.
Qed.

Print Assumptions wr_structure_bytes.
Print Assumptions wr_msk_bytes.
Print Assumptions wr_mpk_bytes.
Print Assumptions wr_usk_bytes.
Print Assumptions wr_xenc_bytes.
Print Assumptions wr_header_bytes.
Print Assumptions wr_cleartext_bytes.
