(* Prototype proofs (scratch): structure-level facts for cover_iff_right *)
From Coq Require Import List NArith Bool Arith Lia Permutation.
Require Import Policy Structure SelProofs GoodProofs AssocLemmas.
Import ListNotations.

Definition wf_structure (st : structure) : Prop :=
  NoDup (map fst (dims st)) /\
  (forall d dm, In (d, dm) (dims st) -> NoDup (names_of (attrs_of dm))) /\
  NoDup (all_ids (map snd (dims st))).

Lemma dim_ids_ids_of d : dim_ids d = ids_of (attrs_of d). Proof. reflexivity. Qed.

Lemma NoDup_app_intro {A} (l1 l2 : list A) :
  NoDup l1 -> NoDup l2 -> (forall x, In x l1 -> In x l2 -> False) -> NoDup (l1 ++ l2).
Proof.
  induction l1 as [|x l1 IH]; cbn; intros H1 H2 Hd; [exact H2|].
  inversion H1 as [|? ? Hx H1']; subst. constructor.
  - intros Hin. apply in_app_iff in Hin. destruct Hin as [Hin|Hin]; [contradiction|]. apply (Hd x); [left; reflexivity|exact Hin].
  - apply IH; [exact H1'|exact H2|]. intros y Hy1 Hy2. apply (Hd y); [right; exact Hy1|exact Hy2].
Qed.
Lemma NoDup_app_remove_r {A} (l1 l2 : list A) : NoDup (l1 ++ l2) -> NoDup l1.
Proof.
  induction l1 as [|x l1 IH]; cbn; intros H; [constructor|]. inversion H as [|? ? Hx H']; subst.
  constructor; [intros Hin; apply Hx; apply in_app_iff; left; exact Hin|apply IH; exact H'].
Qed.

Lemma all_ids_dim_NoDup ds d : NoDup (all_ids ds) -> In d ds -> NoDup (dim_ids d).
Proof.
  induction ds as [|d0 ds IH]; intros Hnd Hin; [destruct Hin|]. cbn in Hnd.
  destruct Hin as [<-|Hin]; [eapply NoDup_app_remove_r; exact Hnd|apply IH; [eapply NoDup_app_remove_l; exact Hnd|exact Hin]].
Qed.

(* ids of differently named dimensions are disjoint *)
Lemma ids_disjoint_gen (l : list (str * dimension)) :
  NoDup (all_ids (map snd l)) -> NoDup (map fst l) ->
  forall k1 v1 k2 v2 i, In (k1, v1) l -> In (k2, v2) l -> k1 <> k2 -> In i (dim_ids v1) -> In i (dim_ids v2) -> False.
Proof.
  induction l as [|[k v] l IH]; intros Hids Hn k1 v1 k2 v2 i H1 H2 Hne Hi1 Hi2; [destruct H1|].
  cbn in Hids, Hn. inversion Hn as [|? ? Hk Hn']; subst.
  assert (Hall : forall k' v', In (k', v') l -> In i (dim_ids v') -> In i (all_ids (map snd l))).
  { intros k' v' Hin Hi. unfold all_ids. apply in_flat_map. exists v'. split; [|exact Hi]. apply in_map_iff. exists (k', v'). split; [reflexivity|exact Hin]. }
  destruct H1 as [E1|H1]; destruct H2 as [E2|H2].
  - inversion E1; inversion E2; subst. contradiction.
  - inversion E1; subst. eapply NoDup_app_disjoint; [exact Hids|exact Hi1|eapply Hall; eassumption].
  - inversion E2; subst. eapply NoDup_app_disjoint; [exact Hids|exact Hi2|eapply Hall; eassumption].
  - eapply (IH (NoDup_app_remove_l _ _ Hids) Hn' k1 v1 k2 v2 i); eassumption.
Qed.

Lemma ids_disjoint st k1 v1 k2 v2 i : wf_structure st ->
  alookup k1 (dims st) = Some v1 -> alookup k2 (dims st) = Some v2 -> k1 <> k2 ->
  In i (dim_ids v1) -> In i (dim_ids v2) -> False.
Proof.
  intros (Hn & _ & Hids) H1 H2. apply alookup_In in H1, H2. eapply ids_disjoint_gen; eassumption.
Qed.

(* a list of named dimensions, distinctly named, each a sub-dimension of the structure's dimension of that name *)
Definition sub_named (st : structure) (NL : list (str * dimension)) : Prop :=
  NoDup (map fst NL) /\
  forall k d', In (k, d') NL -> exists dm, alookup k (dims st) = Some dm /\ incl (dim_ids d') (dim_ids dm) /\ NoDup (dim_ids d').

Lemma sub_named_NoDup st NL : wf_structure st -> sub_named st NL -> NoDup (all_ids (map snd NL)).
Proof.
  intros Hwf. induction NL as [|[k d'] NL IH]; intros (Hn & Hsub); [constructor|].
  cbn. inversion Hn as [|? ? Hk Hn']; subst.
  destruct (Hsub k d' (or_introl eq_refl)) as (dm & Hdm & Hinc & Hnd).
  apply NoDup_app_intro; [exact Hnd| |].
  - apply IH. split; [exact Hn'|]. intros k2 d2 Hin. apply Hsub. right. exact Hin.
  - intros i Hi1 Hi2. unfold all_ids in Hi2. apply in_flat_map in Hi2. destruct Hi2 as (d2 & Hd2 & Hi2).
    apply in_map_iff in Hd2. destruct Hd2 as ([k2 d2'] & E & Hin2). cbn in E. subst d2'.
    destruct (Hsub k2 d2 (or_intror Hin2)) as (dm2 & Hdm2 & Hinc2 & _).
    assert (k <> k2). { intros ->. apply Hk. apply in_map_iff. exists (k2, d2). split; [reflexivity|exact Hin2]. }
    eapply (ids_disjoint st k dm k2 dm2 i); try eassumption; [apply Hinc; exact Hi1|apply Hinc2; exact Hi2].
Qed.

(* semantic_space on a clause with distinct dimensions *)
Lemma semantic_space_spec st : forall U acc sem,
  semantic_space st U acc = Ok sem -> NoDup (map qdim U) -> (forall u, In u U -> amem (qdim u) acc = false) ->
  exists S', sem = acc ++ S' /\
    Forall2 (fun u s => fst s = qdim u /\ exists dm, alookup (qdim u) (dims st) = Some dm /\ restrict dm (qname u) = Ok (snd s)) U S'.
Proof.
  induction U as [|u U IH]; intros acc sem H Hnd Hacc; cbn [semantic_space] in H.
  - inversion H; subst. exists []. split; [rewrite app_nil_r; reflexivity|constructor].
  - destruct (alookup (qdim u) (dims st)) as [dm|] eqn:Edm; [|discriminate].
    destruct (restrict dm (qname u)) as [dm'| | |] eqn:Er; try discriminate.
    cbn in Hnd. inversion Hnd as [|? ? Hu Hnd']; subst.
    rewrite ainsert_absent in H by (apply Hacc; left; reflexivity).
    apply IH in H; [|exact Hnd'|].
    + destruct H as (S' & -> & HF). exists ((qdim u, dm') :: S'). split; [rewrite <- app_assoc; reflexivity|].
      constructor; [|exact HF]. split; [reflexivity|]. exists dm. split; [exact Edm|exact Er].
    + intros v Hv. rewrite amem_app. apply orb_false_iff. split; [apply Hacc; right; exact Hv|].
      cbn. unfold amem. cbn. destruct (str_eqb (qdim v) (qdim u)) eqn:E; [|reflexivity].
      apply str_eqb_eq in E. exfalso. apply Hu. rewrite <- E. apply in_map. exact Hv.
Qed.
Print Assumptions semantic_space_spec.
Print Assumptions sub_named_NoDup.
