(* Part 4b (C06, key side): over all histories of the state machine in [fixed] mode
   C. the invariant [DisInv] (id disabled in the structure, every chain of a right containing it deactivated,
      no snapshot from index j0 on publishes such a right) is kept by every operation except OSetup;
   D. [disabled_never_published]: after "disable; update" no later MPK snapshot publishes a right containing the
      id and encapsulating for such a right fails;
   E. [disabled_still_decrypts]: disabling + updating removes nothing: user keys, encapsulations and all tokens of
      the master key are kept, so every decapsulation gives the same result as before;
   F. the pinned rekey re-activates ([C06_pinned_refuted]);  G. non-vacuity examples. *)
From Coq Require Import List NArith Bool Arith Lia.
From CC Require Import Policy Structure Keys KeysMachine SelProofs GoodProofs AssocLemmas CoverProofs1 WfProofs
  RefreshProofs DisabledProofs KInv1 KInv2 KInv3 KInv4.
Import ListNotations.
Local Open Scope N_scope.

(* ---------------------------------------------------------------- C. the invariant *)
Definition mpks_ok (a : N) (j0 : nat) (mpks : list mpk) : Prop :=
  (j0 <= length mpks)%nat /\
  forall j pk, (j0 <= j)%nat -> nth_error mpks j = Some pk -> forall r sk, In (r, sk) (p_keys pk) -> ~ In a r.

Definition DisInv (a : N) (j0 : nat) (s : state) : Prop :=
  a < next_id (m_st (st_msk s)) /\ disabled_id (m_st (st_msk s)) a /\ Dis a (m_secrets (st_msk s)) /\
  (j0 <= length (st_mpks s))%nat /\
  forall j pk, (j0 <= j)%nat -> nth_error (st_mpks s) j = Some pk -> forall r sk, In (r, sk) (p_keys pk) -> ~ In a r.

(* snapshots are append-only: a new one, taken from a master key satisfying [Dis], keeps the property *)
Lemma mpks_ok_push a j0 mpks m : mpks_ok a j0 mpks -> NoDup (map fst (m_secrets m)) -> Dis a (m_secrets m) ->
  mpks_ok a j0 (mpks ++ [mk_mpk m]).
Proof.
  intros [Hl H] Hnd Hd. split; [rewrite app_length; cbn; lia|]. intros j pk Hj Hn.
  destruct (Nat.lt_ge_cases j (length mpks)) as [Hlt|Hge].
  - rewrite nth_error_app1 in Hn by exact Hlt. eapply H; eassumption.
  - rewrite nth_error_app2 in Hn by exact Hge. destruct (j - length mpks)%nat as [|k]; cbn in Hn.
    + inversion Hn; subst. apply mpk_unpublished; assumption.
    + destruct k; discriminate.
Qed.

(* what one operation does to the chains and to the snapshot list *)
Local Ltac same := cbn; split; [assumption|left; reflexivity].
Lemma step_dis a s o : is_setup o = false -> I1 s -> disabled_id (m_st (st_msk s)) a -> Dis a (m_secrets (st_msk s)) ->
  Dis a (m_secrets (st_msk (fst (step fixed s o)))) /\
  (st_mpks (fst (step fixed s o)) = st_mpks s \/
   st_mpks (fst (step fixed s o)) = st_mpks s ++ [mk_mpk (st_msk (fst (step fixed s o)))]).
Proof.
  intros Ho [Hne Hnd _] Hdi Hd.
  destruct o; try discriminate; cbn [step]; unfold edit;
    try (match goal with |- context [match ?r with Ok _ => _ | _ => _ end] => destruct r end; same).
  - (* OUpdate *)
    destruct (update_msk fixed (st_msk s) (st_ctr s)) as [[r m'] c] eqn:E. destruct r as [rm|]; cbn.
    + destruct (update_msk_dis fixed a _ _ _ _ _ Hdi Hne E) as [H1 _]. split; [exact H1|right; reflexivity].
    + rewrite update_msk_fixed in E. destruct (upd_loop _ _ _) as [[sc c']|]; cbn in E; [discriminate|]. inversion E; subst. same.
  - (* OMpk *) cbn. split; [exact Hd|right; reflexivity].
  - (* ORekey *)
    destruct (usk_rights fixed (m_st (st_msk s)) p) as [rs|]; [|same]. unfold rekey.
    destruct (forallb _ rs); [|same].
    pose proof (rekey_loop_dis a rs (m_secrets (st_msk s)) (st_ctr s) Hd Hne) as [H1 _]. rewrite <- fixed_eq in H1.
    destruct (rekey_loop fixed rs (m_secrets (st_msk s)) (st_ctr s)) as [sc c]. cbn in H1 |- *. split; [exact H1|right; reflexivity].
  - (* OPrune *)
    destruct (usk_rights fixed (m_st (st_msk s)) p) as [rs|]; [|same]. cbn -[prune mk_mpk].
    split; [apply prune_dis; exact Hd|right; reflexivity].
  - (* OKeygen *)
    destruct (usk_rights fixed (m_st (st_msk s)) p) as [rs|]; [|same]. unfold keygen.
    destruct (latest_all (st_msk s) rs); same.
  - destruct (nth_error (st_usks s) k) as [u|]; [|same]. destruct (refresh fixed (st_msk s) u keep). cbn. same.
  - destruct (nth_error (st_mpks s) j) as [pk|]; [|same]. destruct (enc_rights fixed (p_st pk) p) as [rs|]; [|same].
    destruct (encaps_rights pk rs (st_ctr s)) as [[x|] c]; same.
  - destruct (nth_error (st_usks s) k) as [u|]; [|same]. destruct (nth_error (st_encs s) e); [|same]. destruct (u_chains u); same.
  - destruct (nth_error (st_mpks s) j) as [pk|]; [|same]. destruct (nth_error (st_encs s) e) as [x|]; [|same].
    destruct (recaps fixed (st_msk s) pk x (st_ctr s)) as [[x'|] c]; same.
  - same.
Qed.

Theorem DisInv_step a j0 s o : reach s -> is_setup o = false -> DisInv a j0 s -> DisInv a j0 (fst (step fixed s o)).
Proof.
  intros Hr Ho (Hlt & Hdi & Hd & Hm).
  destruct (no_reenable s o a Ho Hlt Hdi) as [H1 H2].
  destruct (inv14_reach s Hr) as [HI1 _]. destruct (inv14_reach _ (reach_step s o Hr)) as [[_ Hnd' _] _].
  destruct (step_dis a s o Ho HI1 Hdi Hd) as [H3 H4].
  split; [exact H2|]. split; [exact H1|]. split; [exact H3|]. change (mpks_ok a j0 (st_mpks (fst (step fixed s o)))).
  destruct H4 as [E|E]; rewrite E; [exact Hm|]. apply mpks_ok_push; assumption.
Qed.

Theorem DisInv_run a j0 : forall ops s, reach s -> (forall o, In o ops -> is_setup o = false) ->
  DisInv a j0 s -> DisInv a j0 (run_state fixed s ops).
Proof.
  induction ops as [|o t IH]; intros s Hr Hops H; [exact H|]. rewrite run_state_cons.
  apply IH; [apply reach_step; exact Hr|intros o' Ho'; apply Hops; right; exact Ho'|].
  apply DisInv_step; [exact Hr|apply Hops; left; reflexivity|exact H].
Qed.
Print Assumptions DisInv_step.

(* ---------------------------------------------------------------- D. disable; update establishes the invariant *)
Lemma disable_ok s d n : snd (step fixed s (ODisable d n)) = ObOk ->
  exists st', disable_attribute d n (m_st (st_msk s)) = Ok st' /\ fst (step fixed s (ODisable d n)) = with_st s st'.
Proof.
  cbn [step]. unfold edit. destruct (disable_attribute d n (m_st (st_msk s))) as [st'| | |]; cbn; try discriminate.
  intros _. exists st'. split; reflexivity.
Qed.
Lemma update_ok s : snd (step fixed s OUpdate) = ObOk ->
  exists rm m' c, update_msk fixed (st_msk s) (st_ctr s) = (ROk rm, m', c) /\ fst (step fixed s OUpdate) = push_mpk (with_msk_ctr s m' c).
Proof.
  cbn [step]. destruct (update_msk fixed (st_msk s) (st_ctr s)) as [[r m'] c]. destruct r as [rm|]; cbn; [|discriminate].
  intros _. exists rm, m', c. split; reflexivity.
Qed.

Theorem DisInv_established s d n a : reach s -> attr_id_of (m_st (st_msk s)) d n = Some a ->
  snd (step fixed s (ODisable d n)) = ObOk -> snd (step fixed (fst (step fixed s (ODisable d n))) OUpdate) = ObOk ->
  DisInv a (length (st_mpks (fst (step fixed s (ODisable d n))))) (fst (step fixed (fst (step fixed s (ODisable d n))) OUpdate)).
Proof.
  intros Hr Hid Hdis. destruct (disable_ok s d n Hdis) as (st' & Ed & E2).
  assert (Hr2 : reach (fst (step fixed s (ODisable d n)))) by (apply reach_step; exact Hr).
  remember (fst (step fixed s (ODisable d n))) as s2 eqn:Es2. intros Hupd.
  destruct (disable_spec d n _ st' a (wfb_reach s Hr) Ed Hid) as (H1 & _ & H3 & H4).
  destruct (update_ok s2 Hupd) as (rm & m' & c & Eu & E3).
  destruct (inv14_reach s2 Hr2) as [[Hne2 _ _] _].
  assert (Hst2 : m_st (st_msk s2) = st') by (rewrite E2; reflexivity).
  destruct (update_msk_dis fixed a (st_msk s2) (st_ctr s2) m' rm c) as [Hd _]; [rewrite Hst2; exact H1|exact Hne2|exact Eu|].
  assert (Hst3 : m_st m' = st').
  { pose proof (update_msk_st (st_msk s2) (st_ctr s2)) as H. rewrite Eu in H. cbn in H. rewrite H. exact Hst2. }
  destruct (inv14_reach _ (reach_step s2 OUpdate Hr2)) as [[_ Hnd3 _] _]. rewrite E3 in Hnd3 |- *.
  unfold DisInv. cbn [push_mpk with_msk_ctr st_msk st_mpks] in Hnd3 |- *.
  split; [rewrite Hst3, H3; exact H4|]. split; [rewrite Hst3; exact H1|]. split; [exact Hd|].
  change (mpks_ok a (length (st_mpks s2)) (st_mpks s2 ++ [mk_mpk m'])). apply mpks_ok_push; [|exact Hnd3|exact Hd].
  split; [lia|]. intros j pk Hj Hn. apply nth_error_None in Hj. congruence.
Qed.

(* C06: every MPK snapshot appended during or after the update that follows the disabling publishes no right
   containing the disabled id, and encapsulating under it for a policy one of whose rights contains the id fails.
   [~ In OSetup ops2] is needed: OSetup creates a brand-new authority whose ids restart from 0
   (see disabled_never_published_setup_needed below). *)
Theorem disabled_never_published ops1 d n ops2 a :
  let s1 := run_state fixed init ops1 in
  let s2 := fst (step fixed s1 (ODisable d n)) in
  let s  := run_state fixed init (ops1 ++ [ODisable d n; OUpdate] ++ ops2) in
  attr_id_of (m_st (st_msk s1)) d n = Some a ->
  snd (step fixed s1 (ODisable d n)) = ObOk -> snd (step fixed s2 OUpdate) = ObOk ->
  ~ In OSetup ops2 ->
  forall j pk, (length (st_mpks s2) <= j)%nat -> nth_error (st_mpks s) j = Some pk ->
    (forall r sk, In (r, sk) (p_keys pk) -> ~ In a r) /\
    (forall p rs r, enc_rights fixed (p_st pk) p = ROk rs -> In r rs -> In a r -> snd (step fixed s (OEncaps j p)) = ObErr).
Proof.
  intros s1 s2 s Hid Hdis Hupd Hns j pk Hj Hn.
  assert (Hr1 : reach s1) by (exists ops1; reflexivity).
  assert (Es : s = run_state fixed (fst (step fixed s2 OUpdate)) ops2).
  { unfold s. rewrite run_state_app. cbn [app]. rewrite !run_state_cons. reflexivity. }
  pose proof (DisInv_established s1 d n a Hr1 Hid Hdis Hupd) as H3. fold s2 in H3.
  assert (Hs : DisInv a (length (st_mpks s2)) s).
  { rewrite Es. apply DisInv_run; [apply reach_step, reach_step; exact Hr1| |exact H3].
    intros o Ho. destruct o; try reflexivity. contradiction. }
  destruct Hs as (_ & _ & _ & _ & Hpk). split; [eapply Hpk; eassumption|].
  intros p rs r He Hr Ha. cbn [step]. rewrite Hn, He.
  pose proof (encaps_disabled_fails a pk rs r (st_ctr s) (Hpk j pk Hj Hn) Hr Ha) as Hf.
  destruct (encaps_rights pk rs (st_ctr s)) as [[x|] c]; [cbn in Hf; discriminate|reflexivity].
Qed.
Print Assumptions disabled_never_published.

(* ---------------------------------------------------------------- E. nothing is lost by disabling *)
Theorem disable_frame s d n :
  let s' := fst (step fixed s (ODisable d n)) in
  st_usks s' = st_usks s /\ st_encs s' = st_encs s /\ st_mpks s' = st_mpks s /\ st_ctr s' = st_ctr s /\
  m_secrets (st_msk s') = m_secrets (st_msk s) /\ m_users (st_msk s') = m_users (st_msk s).
Proof. cbn [step]. unfold edit. destruct (disable_attribute d n (m_st (st_msk s))); cbn; repeat split. Qed.

Lemma rlookup_filter_keep {A} (g : rightk -> bool) r : g r = true ->
  forall l : list (rightk * A), rlookup r (filter (fun rs => g (fst rs)) l) = rlookup r l.
Proof.
  intros Hg. induction l as [|[k v] l IH]; [reflexivity|]. cbn [filter fst]. destruct (g k) eqn:Ek; cbn [rlookup].
  - rewrite IH. reflexivity.
  - destruct (list_N_eqb r k) eqn:E; [|exact IH]. apply list_N_eqb_eq in E. subst k. congruence.
Qed.

Definition same_tokens (ch ch' : list (bool * secret)) : Prop :=
  map (fun p : bool * secret => tok (snd p)) ch' = map (fun p : bool * secret => tok (snd p)) ch /\ tl ch' = tl ch.

(* the update loop only rewrites the front entry of a chain (activation flag, flavour), keeping its token *)
Lemma upd_loop_keeps r ch0 : forall rights sc ctr sc' ctr', upd_loop rights sc ctr = ROk (sc', ctr') ->
  forall ch, rlookup r sc = Some ch -> same_tokens ch0 ch -> exists ch', rlookup r sc' = Some ch' /\ same_tokens ch0 ch'.
Proof.
  induction rights as [|[r0 [hyb enc]] rights IH]; intros sc ctr sc' ctr' H ch Hl Hs; cbn [upd_loop] in H.
  - inversion H; subst. exists ch. split; assumption.
  - destruct (rlookup r0 sc) as [[|[fl s] older]|] eqn:El.
    + eapply IH; eassumption.
    + destruct (list_N_eqb r r0) eqn:E.
      * apply list_N_eqb_eq in E. subst r0. rewrite Hl in El. inversion El; subst ch; clear El.
        eapply (IH _ _ _ _ H); [rewrite rlookup_rreplace by (rewrite Hl; discriminate); rewrite list_N_eqb_refl; reflexivity|].
        destruct Hs as [H1 H2]. split; [|exact H2]. destruct hyb; cbn [map snd tok] in *; exact H1.
      * eapply (IH _ _ _ _ H ch); [|exact Hs]. rewrite rlookup_rreplace by (rewrite El; discriminate). rewrite E. exact Hl.
    + destruct (negb enc); [discriminate|]. eapply (IH _ _ _ _ H ch); [|exact Hs]. rewrite rlookup_app_new by exact El. rewrite Hl. reflexivity.
Qed.

Theorem update_keeps_tokens s :
  let s' := fst (step fixed s OUpdate) in
  st_usks s' = st_usks s /\ st_encs s' = st_encs s /\
  forall r ch, rlookup r (m_secrets (st_msk s)) = Some ch -> rmem r (omega_map (m_st (st_msk s))) = true ->
    exists ch', rlookup r (m_secrets (st_msk s')) = Some ch' /\
      map (fun p : bool * secret => tok (snd p)) ch' = map (fun p : bool * secret => tok (snd p)) ch /\ tl ch' = tl ch.
Proof.
  cbn [step]. rewrite update_msk_fixed. destruct (upd_loop _ _ _) as [[sc c]|] eqn:Eu; cbn.
  - split; [reflexivity|split; [reflexivity|]]. intros r ch Hl Hm.
    eapply (upd_loop_keeps r ch _ _ _ _ _ Eu ch); [|split; reflexivity].
    unfold kept_secrets. rewrite <- Hl. apply (rlookup_filter_keep (fun k => rmem k (omega_map (m_st (st_msk s)))) r Hm).
  - split; [reflexivity|split; [reflexivity|]]. intros r ch Hl _. exists ch. repeat split. exact Hl.
Qed.

Lemma decaps_obs_eq fx s s' k e : st_usks s' = st_usks s -> st_encs s' = st_encs s ->
  snd (step fx s' (ODecaps k e)) = snd (step fx s (ODecaps k e)).
Proof.
  intros E1 E2. cbn [step]. rewrite E1, E2. destruct (nth_error (st_usks s) k) as [u|]; [|reflexivity].
  destruct (nth_error (st_encs s) e) as [x|]; [|reflexivity]. destruct (u_chains u); reflexivity.
Qed.

(* "disable; update" from ANY state s (reachable or not), whatever the two calls report *)
Theorem disabled_still_decrypts s d n :
  let s1 := fst (step fixed s (ODisable d n)) in
  let s2 := fst (step fixed s1 OUpdate) in
  (* 1: ODisable only edits the structure *)
  (st_usks s1 = st_usks s /\ st_encs s1 = st_encs s /\ st_mpks s1 = st_mpks s /\ st_ctr s1 = st_ctr s /\
   m_secrets (st_msk s1) = m_secrets (st_msk s) /\ m_users (st_msk s1) = m_users (st_msk s)) /\
  (* 2: OUpdate keeps every user key, every encapsulation and every token of every chain that is still a right *)
  (st_usks s2 = st_usks s /\ st_encs s2 = st_encs s /\
   forall r ch, rlookup r (m_secrets (st_msk s)) = Some ch -> rmem r (omega_map (m_st (st_msk s1))) = true ->
     exists ch', rlookup r (m_secrets (st_msk s2)) = Some ch' /\
       map (fun p : bool * secret => tok (snd p)) ch' = map (fun p : bool * secret => tok (snd p)) ch /\ tl ch' = tl ch) /\
  (* 3: every decapsulation gives what it gave before *)
  forall k e, snd (step fixed s2 (ODecaps k e)) = snd (step fixed s (ODecaps k e)).
Proof.
  intros s1 s2. pose proof (disable_frame s d n) as HD. fold s1 in HD. destruct HD as (D1 & D2 & D3 & D4 & D5 & D6).
  pose proof (update_keeps_tokens s1) as HU. fold s2 in HU. destruct HU as (U1 & U2 & U3).
  split; [repeat split; assumption|]. split; [split; [congruence|split; [congruence|]]|].
  - intros r ch Hl Hm. apply U3; [rewrite D5; exact Hl|exact Hm].
  - intros k e. apply decaps_obs_eq; congruence.
Qed.
Print Assumptions disabled_still_decrypts.

(* ---------------------------------------------------------------- G. non-vacuity *)
Local Ltac vc := vm_compute; reflexivity.
Definition sc : str := [99]%N.   (* "c" *)
Definition ex_ops1 : list op :=
  [OSetup; OAddAnarchy sD; OAddAttr sD sa false None; OAddAttr sD sb true None; OUpdate; OKeygen sDa; OEncaps 1 sDa].
Definition ex_ops2 : list op :=
  [ORekey sDb; OPrune sDb; OAddAttr sD sc false None; OUpdate; OMpk; ORekey sDa; OKeygen sDa].

Example disabled_never_published_nonvacuous :
  let s1 := run_state fixed init ex_ops1 in
  let s2 := fst (step fixed s1 (ODisable sD sa)) in
  let s  := run_state fixed init (ex_ops1 ++ [ODisable sD sa; OUpdate] ++ ex_ops2) in
  attr_id_of (m_st (st_msk s1)) sD sa = Some 0 /\
  snd (step fixed s1 (ODisable sD sa)) = ObOk /\ snd (step fixed s2 OUpdate) = ObOk /\ ~ In OSetup ex_ops2 /\
  snd (run fixed init (ex_ops1 ++ [ODisable sD sa; OUpdate] ++ ex_ops2)) = repeat ObOk 16 /\
  length (st_mpks s2) = 2%nat /\ length (st_mpks s) = 8%nat /\
  (exists sk, nth_error (st_mpks s1) 1 = Some sk /\ rlookup [0] (p_keys sk) <> None) /\   (* it was published before *)
  (exists pk, nth_error (st_mpks s) 7 = Some pk /\ enc_rights fixed (p_st pk) sDa = ROk [[0]] /\
              snd (step fixed s (OEncaps 7 sDa)) = ObErr /\ snd (step fixed s (OEncaps 7 sDb)) = ObOk).
Proof.
  cbv zeta. split; [vc|]. split; [vc|]. split; [vc|]. split.
  { intros H. repeat (destruct H as [H|H]; [discriminate H|]). destruct H. }
  split; [vc|]. split; [vc|]. split; [vc|]. split.
  - eexists. split; [vc|]. vm_compute. intros E. discriminate E.
  - eexists. split; [vc|]. split; [vc|]. split; vc.
Qed.

(* the key issued before still opens the encapsulation made before, after "disable; update" and everything else *)
Example disabled_still_decrypts_nonvacuous :
  let s := run_state fixed init ex_ops1 in
  let s2 := run_state fixed s [ODisable sD sa; OUpdate] in
  snd (step fixed s (ODecaps 0 0)) = ObSome 4 /\ snd (step fixed s2 (ODecaps 0 0)) = ObSome 4 /\
  snd (step fixed (run_state fixed s2 ex_ops2) (ODecaps 0 0)) = ObSome 4 /\
  rlookup [0] (m_secrets (st_msk s)) = Some [(true, {| tok := 1; s_hyb := false |})] /\
  rmem [0] (omega_map (m_st (st_msk (fst (step fixed s (ODisable sD sa)))))) = true /\
  rlookup [0] (m_secrets (st_msk s2)) = Some [(false, {| tok := 1; s_hyb := false |})].
Proof. cbv zeta. split; [vc|]. split; [vc|]. split; [vc|]. split; [vc|]. split; vc. Qed.

(* with an OSetup afterwards the statement fails: the new authority hands out id 0 again and publishes it *)
Definition su_ops1 : list op := [OSetup; OAddAnarchy sD; OAddAttr sD sa false None; OUpdate].
Definition su_ops2 : list op := [OSetup; OAddAnarchy sD; OAddAttr sD sa false None; OUpdate; OMpk].
Example disabled_never_published_setup_needed :
  let s1 := run_state fixed init su_ops1 in
  let s2 := fst (step fixed s1 (ODisable sD sa)) in
  let s  := run_state fixed init (su_ops1 ++ [ODisable sD sa; OUpdate] ++ su_ops2) in
  attr_id_of (m_st (st_msk s1)) sD sa = Some 0 /\
  snd (step fixed s1 (ODisable sD sa)) = ObOk /\ snd (step fixed s2 OUpdate) = ObOk /\ In OSetup su_ops2 /\
  exists j pk sk, (length (st_mpks s2) <= j)%nat /\ nth_error (st_mpks s) j = Some pk /\
    In ([0], sk) (p_keys pk) /\ In 0 [0] /\ snd (step fixed s (OEncaps j sDa)) = ObOk.
Proof.
  cbv zeta. split; [vc|]. split; [vc|]. split; [vc|]. split; [left; reflexivity|].
  exists 2%nat. eexists. eexists. split; [vm_compute; apply le_n|]. split; [vc|].
  split; [right; left; reflexivity|]. split; [left; reflexivity|vc].
Qed.

(* ---------------------------------------------------------------- F. the pinned tree re-enables on rekey *)
Definition c06_hist : list op :=
  [OSetup; OAddAnarchy sD; OAddAttr sD sa false None; OUpdate; ODisable sD sa; OUpdate; ORekey sDa].
Example C06_pinned_refuted :
  (* pinned: all calls succeed, the snapshot pushed by the rekey publishes right [0] again and encapsulation succeeds *)
  (let s := run_state pinned init c06_hist in
   attr_id_of (m_st (st_msk (run_state pinned init (firstn 4 c06_hist)))) sD sa = Some 0 /\
   snd (run pinned init c06_hist) = repeat ObOk 7 /\ length (st_mpks (run_state pinned init (firstn 5 c06_hist))) = 2%nat /\
   (exists pk sk, nth_error (st_mpks s) 3 = Some pk /\ In ([0], sk) (p_keys pk)) /\
   snd (step pinned s (OEncaps 3 sDa)) = ObOk) /\
  (* fixed: same history, nothing published, encapsulation refused *)
  (let s := run_state fixed init c06_hist in
   snd (run fixed init c06_hist) = repeat ObOk 7 /\
   (exists pk, nth_error (st_mpks s) 3 = Some pk /\ rlookup [0] (p_keys pk) = None) /\
   snd (step fixed s (OEncaps 3 sDa)) = ObErr).
Proof.
  cbv zeta. split.
  - split; [vc|]. split; [vc|]. split; [vc|]. split; [|vc].
    eexists. eexists. split; [vc|right; left; reflexivity].
  - split; [vc|]. split; [|vc]. eexists. split; vc.
Qed.
Print Assumptions C06_pinned_refuted.
Print Assumptions disabled_never_published_setup_needed.
Print Assumptions update_keeps_tokens.
