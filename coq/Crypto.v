(* Prototype (scratch): classic-mode Covercrypt KEM over an abstract field with symbolic hashes.
   tag_commits (C07) and decaps_correct (C01, algebra level). *)
From Coq Require Import List Bool Field Ring Setoid Lia.
Import ListNotations.

Section Scheme.
  Variable F : Type.
  Variables (zero one : F) (add mul sub : F -> F -> F) (opp : F -> F) (div : F -> F -> F) (inv : F -> F).
  Hypothesis Fth : field_theory zero one add mul sub opp div inv (@eq F).
  Add Field Ffield : Fth.
  Hypothesis F_eq_dec : forall x y : F, {x = y} + {x <> y}.
  Infix "+" := add. Infix "*" := mul.

  Variable D : Type.
  Hypothesis D_eq_dec : forall x y : D, {x = y} + {x <> y}.
  Inductive symbol := BPoint (p : F) | BDigest (d : D).
  Variables (H Jtag Jkey : list symbol -> D) (G : D -> F) (mask unmask : D -> D -> D).
  Hypothesis H_inj : forall a b, H a = H b -> a = b.
  Hypothesis Jtag_inj : forall a b, Jtag a = Jtag b -> a = b.
  Hypothesis unmask_mask : forall s p, unmask (mask s p) p = s.

  Record xenc := { x_tag : D; x_c : list F; x_fs : list D }.

  Definition T (c : list F) : D := H (map BPoint c).
  Definition U (c : list F) (fs : list D) : D := H (BDigest (T c) :: map BDigest fs).
  Definition pad (k1 : F) (t : D) : D := H [BPoint k1; BDigest t].
  Definition jin (s u : D) : list symbol := [BDigest s; BDigest u].

  (* tracer points P_i (discrete logs t_i), binding point h = s, public key of a right = h * sk *)
  Definition encaps (tracers : list F) (pks : list F) (S : D) : D * xenc :=
    let r := G S in
    let c := map (fun P => P * r) tracers in
    let fs := map (fun Hj => mask S (pad (Hj * r) (T c))) pks in
    (Jkey (jin S (U c fs)), {| x_tag := Jtag (jin S (U c fs)); x_c := c; x_fs := fs |}).

  Fixpoint dot (xs ys : list F) : F :=
    match xs, ys with x :: xs', y :: ys' => x * y + dot xs' ys' | _, _ => zero end.

  Definition list_F_eq_dec : forall a b : list F, {a = b} + {a <> b} := list_eq_dec F_eq_dec.

  Definition try_open (ps : list F) (x : xenc) (A : F) (f : D) (sk : F) : option D :=
    let S' := unmask f (pad (A * sk) (T (x_c x))) in
    let u := U (x_c x) (x_fs x) in
    if D_eq_dec (Jtag (jin S' u)) (x_tag x) then
      if list_F_eq_dec (map (fun P => P * G S') ps) (x_c x) then Some (Jkey (jin S' u)) else None
    else None.

  Fixpoint first_some {A B} (f : A -> option B) (l : list A) : option B :=
    match l with [] => None | a :: t => match f a with Some b => Some b | None => first_some f t end end.

  Definition decaps (markers ps sks : list F) (x : xenc) : option D :=
    let A := dot markers (x_c x) in
    first_some (fun f => first_some (fun sk => try_open ps x A f sk) sks) (x_fs x).

  Lemma first_some_Some {A B} (f : A -> option B) l b : first_some f l = Some b -> exists a, In a l /\ f a = Some b.
  Proof. induction l as [|a l IH]; cbn; [discriminate|]. destruct (f a) eqn:E.
    - intros H0. inversion H0; subst. exists a. split; [left; reflexivity|exact E].
    - intros H0. destruct (IH H0) as (a' & Hin & Hf). exists a'. split; [right; exact Hin|exact Hf]. Qed.

  Lemma map_BDigest_inj a b : map BDigest a = map BDigest b -> a = b.
  Proof. revert b. induction a as [|x a IH]; intros [|y b] E; try discriminate; [reflexivity|]. cbn in E. inversion E; subst. f_equal. apply IH. assumption. Qed.
  Lemma map_BPoint_inj a b : map BPoint a = map BPoint b -> a = b.
  Proof. revert b. induction a as [|x a IH]; intros [|y b] E; try discriminate; [reflexivity|]. cbn in E. inversion E; subst. f_equal. apply IH. assumption. Qed.

  (* C07: the tag commits to the whole encapsulation *)
  Theorem tag_commits tracers pks S markers ps sks x' k :
    let '(key, x) := encaps tracers pks S in
    decaps markers ps sks x' = Some k -> x_tag x' = x_tag x -> x' = x /\ k = key.
  Proof.
    cbn [encaps]. intros Hd Htag.
    unfold decaps in Hd. apply first_some_Some in Hd. destruct Hd as (f & _ & Hd).
    apply first_some_Some in Hd. destruct Hd as (sk & _ & Hd).
    unfold try_open in Hd.
    destruct (D_eq_dec _ _) as [Et|]; [|discriminate].
    destruct (list_F_eq_dec _ _) as [Ec|]; [|discriminate].
    inversion Hd; subst k; clear Hd.
    rewrite Htag in Et. cbn [x_tag] in Et. apply Jtag_inj in Et. unfold jin in Et. injection Et as ES EU.
    unfold U in EU. apply H_inj in EU. injection EU as ET EF.
    apply map_BDigest_inj in EF. unfold T in ET. apply H_inj, map_BPoint_inj in ET.
    split.
    - destruct x' as [t' c' fs']. cbn [x_tag x_c x_fs] in *. rewrite Htag, ET, EF. reflexivity.
    - rewrite ES. unfold U, T. rewrite ET, EF. reflexivity.
  Qed.

  (* C01 at the algebra level: a key whose markers satisfy the tracing relation and that holds the secret of a
     targeted right recovers the encapsulated key *)
  Lemma dot_scale r : forall ts ms, dot ms (map (fun t => t * r) ts) = dot ms ts * r.
  Proof. induction ts as [|t ts IH]; intros [|m ms]; cbn; try ring. rewrite IH. ring. Qed.

  Lemma first_some_In {A B} (f : A -> option B) l a b :
    In a l -> f a = Some b -> (forall a' b', In a' l -> f a' = Some b' -> b' = b) -> first_some f l = Some b.
  Proof.
    induction l as [|x l IH]; intros Hin Hf Huniq; [destruct Hin|]. cbn.
    destruct (f x) eqn:E; [f_equal; eapply Huniq; [left; reflexivity|exact E]|].
    destruct Hin as [->|Hin]; [congruence|]. apply IH; [exact Hin|exact Hf|]. intros a' b' Ha'. apply Huniq. right. exact Ha'.
  Qed.

  Theorem decaps_correct tracers s markers sks pks S sk :
    dot markers tracers = s ->                 (* tracing relation of the user id, C17 *)
    In sk sks -> In (s * sk) pks ->            (* the key holds the secret of a targeted right *)
    let '(key, x) := encaps tracers pks S in
    decaps markers tracers sks x = Some key.
  Proof.
    intros Hrel Hsk Hpk. cbn [encaps].
    set (r := G S). set (c := map (fun P => P * r) tracers).
    set (fs := map (fun Hj => mask S (pad (Hj * r) (T c))) pks).
    unfold decaps. cbn [x_c x_fs].
    assert (HA : dot markers c = s * r) by (unfold c; rewrite dot_scale, Hrel; reflexivity).
    rewrite HA.
    (* every successful try returns the same key, because the tag check pins S' = S *)
    assert (Hall : forall f sk' k, try_open tracers {| x_tag := Jtag (jin S (U c fs)); x_c := c; x_fs := fs |} (s * r) f sk' = Some k ->
                                   k = Jkey (jin S (U c fs))).
    { intros f sk' k Ht. unfold try_open in Ht. cbn [x_c x_fs x_tag] in Ht.
      destruct (D_eq_dec _ _) as [Et|]; [|discriminate]. destruct (list_F_eq_dec _ _); [|discriminate].
      injection Ht as Hk. subst k. apply Jtag_inj in Et. unfold jin in Et. injection Et as ES. rewrite ES. reflexivity. }
    eapply (first_some_In _ fs (mask S (pad ((s * sk) * r) (T c)))).
    - unfold fs. apply in_map_iff. exists (s * sk). split; [reflexivity|exact Hpk].
    - eapply (first_some_In _ sks sk); [exact Hsk| |].
      + unfold try_open. cbn [x_c x_fs x_tag].
        replace (s * r * sk) with (s * sk * r) by ring. rewrite unmask_mask.
        destruct (D_eq_dec _ _) as [_|Hn]; [|contradiction Hn; reflexivity].
        fold r. fold c. destruct (list_F_eq_dec _ _) as [_|Hn]; [reflexivity|contradiction Hn; reflexivity].
      + intros sk' k' _ Ht. eapply Hall. exact Ht.
    - intros f k' _ Hf. apply first_some_Some in Hf. destruct Hf as (sk' & _ & Ht). symmetry. symmetry. eapply Hall. exact Ht.
  Qed.
End Scheme.
Print Assumptions tag_commits.
Print Assumptions decaps_correct.
