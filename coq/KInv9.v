(* Part 9: consequences of the log invariant -- I2 (tokens_fresh, tokens_unique), I3 (usk_sub_msk_history),
   keep_monotone (C04), seeds_fresh / rekey_publishes_new (C16). *)
From Coq Require Import List NArith Bool Arith Lia.
From CC Require Import Policy Structure Keys KeysMachine SelProofs GoodProofs CoverProofs1 CoverProofs2
                       RefreshProofs DisabledProofs KInv1 KInv2 KInv3 KInv5 KInv6 KInv7 KInv8.
Import ListNotations.
Local Open Scope N_scope.

(* ---------------------------------------------------------------- I3 in readable form *)
(* there is an append-only log (per right: all secrets ever created for it, newest first, tokens pairwise distinct,
   a token determines its right) such that every MSK chain is a non-empty prefix of the log of its right and every
   user-key chain is a non-empty contiguous window of it *)
Theorem usk_sub_msk_history s : reach s -> exists L : rightk -> list secret,
  (forall r, NoDup (map tok (L r))) /\
  (forall r r' sk sk', In sk (L r) -> In sk' (L r') -> tok sk = tok sk' -> r = r' /\ sk = sk') /\
  (forall r sk, In sk (L r) -> tok sk < st_ctr s) /\
  (forall r ch, In (r, ch) (m_secrets (st_msk s)) -> exists k, (1 <= k <= length (L r))%nat /\ map snd ch = firstn k (L r)) /\
  (forall u r ch, In u (st_usks s) -> In (r, ch) (u_chains u) ->
     exists i j, (i < j <= length (L r))%nat /\ ch = firstn (j - i) (skipn i (L r))) /\
  (forall pk r sk, In pk (st_mpks s) -> In (r, sk) (p_keys pk) -> In sk (L r)) /\
  (forall x t, In x (st_encs s) -> In t (x_entries x) -> exists r sk, In sk (L r) /\ tok sk = t).
Proof.
  intros Hr. destruct (inv_all_reach s Hr) as ([Hne Hnd _] & _ & _ & (L & [[B1 B2 B3] M [R1 R2 R3] _ _])). exists L.
  split; [exact B2|]. split; [|split; [exact B1|]]; [|split; [|split; [exact R2|split; [exact R1|exact R3]]]].
  - intros r r' sk sk' H1 H2 E. pose proof (B3 r r' sk sk' H1 H2 E) as Er. subst r'. split; [reflexivity|].
    eapply (NoDup_map_inj_in tok); [apply B2|exact H1|exact H2|exact E].
  - intros r ch Hin. pose proof (In_rlookup _ _ _ Hnd Hin) as El. exists (length ch). split; [|apply M; exact El].
    split; [|eapply Lmsk_len; eassumption]. destruct ch; [exfalso; eapply Hne; [exact Hin|reflexivity]|cbn; lia].
Qed.
Print Assumptions usk_sub_msk_history.

(* ---------------------------------------------------------------- I2 tokens_fresh *)
Inductive occurs (s : state) (r : rightk) (sk : secret) : Prop :=
| occ_msk ch fl : In (r, ch) (m_secrets (st_msk s)) -> In (fl, sk) ch -> occurs s r sk
| occ_mpk pk : In pk (st_mpks s) -> In (r, sk) (p_keys pk) -> occurs s r sk
| occ_usk u ch : In u (st_usks s) -> In (r, ch) (u_chains u) -> In sk ch -> occurs s r sk.

Lemma occurs_log s L : NoDup (map fst (m_secrets (st_msk s))) -> LogInv L s -> forall r sk, occurs s r sk -> In sk (L r).
Proof.
  intros Hnd [_ M [R1 R2 _] _ _] r sk [ch fl H1 H2|pk H1 H2|u ch H1 H2 H3].
  - eapply Lmsk_In; [exact M|apply In_rlookup; eassumption|exact H2].
  - eapply R1; eassumption.
  - eapply window_In; [eapply R2; eassumption|exact H3].
Qed.

Theorem tokens_fresh s : reach s ->
  (forall r sk, occurs s r sk -> tok sk < st_ctr s) /\
  (forall i, In i (m_users (st_msk s)) -> i < st_ctr s) /\
  (forall u i, In u (st_usks s) -> u_id u = Some i -> i < st_ctr s) /\
  (forall x, In x (st_encs s) -> x_seed x < st_ctr s /\ forall t, In t (x_entries x) -> t < st_ctr s).
Proof.
  intros Hr. destruct (inv_all_reach s Hr) as ([_ Hnd _] & [G1 _ G3 _] & _ & (L & HL)). pose proof HL as [[B1 _ _] _ [_ _ R3] S1 _].
  split; [|split; [exact G3|split]].
  - intros r sk Ho. eapply B1. eapply occurs_log; eassumption.
  - intros u i Hu Hi. destruct (G1 u Hu) as (i' & E & Hin). rewrite Hi in E. inversion E; subst. apply G3. exact Hin.
  - intros x Hx. split; [apply S1; exact Hx|]. intros t Ht. destruct (R3 x t Hx Ht) as (r & sk & Hi & <-). eapply B1. exact Hi.
Qed.
Print Assumptions tokens_fresh.

(* a token determines its right and its secret, wherever it occurs (MSK, any snapshot, any user key) *)
Theorem tokens_unique s r r' sk sk' : reach s -> occurs s r sk -> occurs s r' sk' -> tok sk = tok sk' -> r = r' /\ sk = sk'.
Proof.
  intros Hr H1 H2 E. destruct (inv_all_reach s Hr) as ([_ Hnd _] & _ & _ & (L & HL)). pose proof HL as [[_ B2 B3] _ _ _ _].
  pose proof (occurs_log s L Hnd HL _ _ H1) as I1. pose proof (occurs_log s L Hnd HL _ _ H2) as I2.
  pose proof (B3 _ _ _ _ I1 I2 E). subst r'. split; [reflexivity|]. eapply (NoDup_map_inj_in tok); [apply B2|exact I1|exact I2|exact E].
Qed.
Print Assumptions tokens_unique.

(* the tokens of the MSK are pairwise distinct across all chains *)
Lemma NoDup_concat_keyed {K A} (l : list (K * list A)) :
  NoDup (map fst l) -> (forall k ts, In (k, ts) l -> NoDup ts) ->
  (forall k k' ts ts' t, In (k, ts) l -> In (k', ts') l -> In t ts -> In t ts' -> k = k') ->
  NoDup (concat (map snd l)).
Proof.
  induction l as [|[k ts] l IH]; intros Hnd Hts Hx; cbn; [constructor|]. inversion Hnd as [|? ? Hk Hnd']; subst.
  apply NoDup_app_intro.
  - eapply Hts. left. reflexivity.
  - apply IH; [exact Hnd'|intros k0 ts0 H0; eapply Hts; right; exact H0|intros k1 k2 t1 t2 t H1 H2; eapply Hx; right; assumption].
  - intros t Ht Hc. apply in_concat in Hc. destruct Hc as (ts' & Hts' & Ht'). apply in_map_iff in Hts'. destruct Hts' as ([k' ts''] & E & Hin).
    cbn in E. subst ts''. assert (k = k') by (eapply (Hx k k' ts ts' t); [left; reflexivity|right; exact Hin|exact Ht|exact Ht']).
    subst k'. apply Hk. apply in_map_iff. exists (k, ts'). split; [reflexivity|exact Hin].
Qed.

Definition msk_tokens (m : msk) : list N := concat (map snd (map (fun rc => (fst rc, map (fun p => tok (snd p)) (snd rc))) (m_secrets m))).
Theorem msk_tokens_nodup s : reach s -> NoDup (msk_tokens (st_msk s)).
Proof.
  intros Hr. destruct (inv_all_reach s Hr) as ([_ Hnd _] & _ & _ & (L & [[_ B2 B3] M _ _ _])). unfold msk_tokens.
  apply NoDup_concat_keyed.
  - rewrite map_map. cbn. exact Hnd.
  - intros r ts Hin. apply in_map_iff in Hin. destruct Hin as ([r0 ch] & E & Hin). cbn in E. inversion E; subst; clear E.
    pose proof (M r ch (In_rlookup _ _ _ Hnd Hin)) as Hm. rewrite <- (map_map snd tok), Hm.
    pose proof (B2 r) as Hn. rewrite <- (firstn_skipn (length ch) (L r)), map_app in Hn. eapply NoDup_app_remove_r. rewrite <- firstn_map in Hn |- *. exact Hn.
  - intros r r' ts ts' t H1 H2 Ht Ht'. apply in_map_iff in H1, H2. destruct H1 as ([r1 ch1] & E1 & H1), H2 as ([r2 ch2] & E2 & H2).
    cbn in E1, E2. inversion E1; subst; clear E1. inversion E2; subst; clear E2.
    apply in_map_iff in Ht, Ht'. destruct Ht as ([fl1 sk1] & Et1 & Hs1), Ht' as ([fl2 sk2] & Et2 & Hs2). cbn in Et1, Et2.
    eapply (B3 r r' sk1 sk2); [eapply Lmsk_In; [exact M|apply In_rlookup; eassumption|exact Hs1]|eapply Lmsk_In; [exact M|apply In_rlookup; eassumption|exact Hs2]|congruence].
Qed.
Print Assumptions msk_tokens_nodup.

(* ---------------------------------------------------------------- C16 (token level) *)
Theorem seeds_fresh s : reach s ->
  NoDup (map x_seed (st_encs s)) /\ NoDup (map u_id (st_usks s)) /\ NoDup (m_users (st_msk s)) /\
  (forall x, In x (st_encs s) -> x_seed x < st_ctr s).
Proof.
  intros Hr. destruct (inv_all_reach s Hr) as (_ & [_ G2 _ G4] & _ & (L & [_ _ _ S1 S2])). repeat split; assumption.
Qed.
Print Assumptions seeds_fresh.
(* a new encapsulation gets a seed that no earlier encapsulation has *)
Corollary encaps_seed_new s j p x : reach s -> st_encs (fst (step fixed s (OEncaps j p))) = st_encs s ++ [x] ->
  forall x0, In x0 (st_encs s) -> x_seed x0 <> x_seed x.
Proof.
  intros Hr He x0 Hx0. destruct (seeds_fresh _ (reach_step s (OEncaps j p) Hr)) as (Hnd & _). rewrite He, map_app in Hnd. cbn in Hnd.
  intros E. eapply NoDup_app_disjoint; [exact Hnd|apply in_map; exact Hx0|left; symmetry; exact E].
Qed.

Theorem rekey_publishes_new s p : reach s -> snd (step fixed s (ORekey p)) = ObOk ->
  forall rs r sk, usk_rights fixed (m_st (st_msk s)) p = ROk rs -> In r rs ->
  rlookup r (p_keys (mk_mpk (st_msk (fst (step fixed s (ORekey p)))))) = Some sk ->
  st_ctr s <= tok sk /\
  (forall r' sk', occurs s r' sk' -> tok sk' <> tok sk) /\
  (forall x t, In x (st_encs s) -> In t (x_entries x) -> t <> tok sk).
Proof.
  intros Hr Hok rs r sk Hu Hin Hp. destruct (rekey_pushes_front s p Hr Hok) as (rs' & Hu' & _ & H & _ & _ & _ & _ & _ & _ & _ & _ & Hpub).
  rewrite Hu in Hu'. inversion Hu'; subst rs'. apply In_nth_error in Hin. destruct Hin as (i & Hi).
  destruct (H i r Hi) as (fl & sk0 & older & _ & E). apply Hpub in Hp. destruct Hp as (older' & Hp). rewrite E in Hp. inversion Hp; subst.
  cbn [tok]. destruct (tokens_fresh s Hr) as (T1 & _ & _ & T4). split; [lia|]. split.
  - intros r' sk' Ho. specialize (T1 r' sk' Ho). lia.
  - intros x t Hx Ht. destruct (T4 x Hx) as [_ T]. specialize (T t Ht). lia.
Qed.
Print Assumptions rekey_publishes_new.

(* ---------------------------------------------------------------- C04 keep_monotone *)
Lemma window_sub_firstn {A} (L : list A) i j x : In x (firstn (j - i) (skipn i L)) -> In x (firstn (i + (j - i)) L).
Proof.
  intros H. rewrite firstn_skipn_comm in H. rewrite <- (firstn_skipn i (firstn (i + (j - i)) L)). apply in_app_iff. right. exact H.
Qed.
Lemma firstn_min_In {A} (L : list A) a b x : In x (firstn a L) -> In x (firstn b L) -> In x (firstn (Nat.min a b) L).
Proof. intros Ha Hb. destruct (Nat.le_ge_cases a b) as [H|H]; [rewrite Nat.min_l by exact H; exact Ha|rewrite Nat.min_r by exact H; exact Hb]. Qed.

Theorem keep_monotone s k u : reach s -> nth_error (st_usks s) k = Some u ->
  snd (step fixed s (ORefresh k true)) = ObOk ->
  exists u', nth_error (st_usks (fst (step fixed s (ORefresh k true)))) k = Some u' /\
  forall r uch sk mch, In (r, uch) (u_chains u) -> In sk uch ->
    rlookup r (m_secrets (st_msk s)) = Some mch -> In sk (map snd mch) ->
    exists ch, In (r, ch) (u_chains u') /\ In sk ch.
Proof.
  intros Hr En Hok. destruct (inv_all_reach s Hr) as ([Hne Hnd _] & _ & _ & (L & [[_ B2 _] M [_ R2 _] _ _])).
  destruct (refresh_step_ok s k true u En Hok) as (_ & _ & Hn). exists (refreshed (st_msk s) u true). split; [exact Hn|].
  intros r uch sk mch Hin Hsk El Hm. pose proof (nth_error_In _ _ En) as Hu.
  destruct (R2 u r uch Hu Hin) as (i & j & Hij & Euch).
  pose proof (Lmsk_len _ _ _ _ M El) as Hk. pose proof (M r mch El) as Hsecs.
  pose proof (refresh_chain_window (L r) mch (length mch) i j (NoDup_map_NoDup _ _ (B2 r)) Hsecs Hij Hk) as Hw.
  change (refresh_chain RefreshProofs.fx_all) with (refresh_chain fixed) in Hw. rewrite <- Euch in Hw.
  eexists. split.
  - cbn [refreshed u_chains]. unfold refresh_keep_chains. apply in_flat_map. exists (r, uch). split; [exact Hin|]. rewrite El, Hw. left. reflexivity.
  - rewrite Hsecs in Hm. rewrite Euch in Hsk. apply window_sub_firstn in Hsk. replace (i + (j - i))%nat with j in Hsk by lia.
    destruct (i <? length mch)%nat; [apply firstn_min_In; assumption|exact Hm].
Qed.
Print Assumptions keep_monotone.

Example keep_monotone_nonvacuous :
  let s := run_state fixed init (firstn 9 hist6) in   (* key 0 holds two secrets per right, the MSK three *)
  option_map u_chains (nth_error (st_usks s) 0) =
    Some [([], [{| tok := 4; s_hyb := false |}; {| tok := 0; s_hyb := false |}]); ([0], [{| tok := 5; s_hyb := false |}; {| tok := 1; s_hyb := false |}])] /\
  rlookup [0] (m_secrets (st_msk s)) = Some [(true, {| tok := 7; s_hyb := false |}); (true, {| tok := 5; s_hyb := false |}); (true, {| tok := 1; s_hyb := false |})] /\
  option_map u_chains (nth_error (st_usks (fst (step fixed s (ORefresh 0 true)))) 0) =
    Some [([], [{| tok := 6; s_hyb := false |}; {| tok := 4; s_hyb := false |}; {| tok := 0; s_hyb := false |}]);
          ([0], [{| tok := 7; s_hyb := false |}; {| tok := 5; s_hyb := false |}; {| tok := 1; s_hyb := false |}])].
Proof. vm_compute. repeat split; reflexivity. Qed.

(* C05 on the pinned tree: keep_monotone holds there too, but the converse bound fails -- a pruned secret survives *)

(* ---------------------------------------------------------------- C04 stale_cannot_open *)
(* general form: a key all of whose tokens are older than every entry token of x cannot open x *)
Theorem old_key_cannot_open u x c :
  (forall sk, In sk (concat (map snd (u_chains u))) -> tok sk < c) -> (forall t, In t (x_entries x) -> c <= t) ->
  decaps fixed u x = None.
Proof.
  intros Hu Hx. apply (proj2 (decaps_iff_shared_token u x)). intros sk Hsk. unfold opens.
  destruct (existsb (N.eqb (tok sk)) (x_entries x)) eqn:E; [|reflexivity]. apply existsb_exists in E. destruct E as (t & Ht & Et).
  apply N.eqb_eq in Et. subst t. specialize (Hu sk Hsk). specialize (Hx _ Ht). lia.
Qed.

(* after a rekey of the rights rs at counter value c, and until the next OSetup: the front secret of each of these rights,
   and what every later snapshot publishes for them, has a token >= c *)
Definition FrontGe (c : N) (rs : list rightk) (j0 : nat) (s : state) : Prop :=
  c <= st_ctr s /\
  (forall r fl sk older, In r rs -> rlookup r (m_secrets (st_msk s)) = Some ((fl, sk) :: older) -> c <= tok sk) /\
  (j0 <= length (st_mpks s))%nat /\
  (forall j pk r sk, (j0 <= j)%nat -> nth_error (st_mpks s) j = Some pk -> In r rs -> In (r, sk) (p_keys pk) -> c <= tok sk).

Definition front_ge (c : N) (rs : list rightk) (secs : chains) : Prop :=
  forall r fl sk older, In r rs -> rlookup r secs = Some ((fl, sk) :: older) -> c <= tok sk.

Lemma tok_downgrade hyb s : tok (downgrade hyb s) = tok s. Proof. destruct hyb; reflexivity. Qed.

Lemma FrontGe_push c rs j0 s m : NoDup (map fst (m_secrets m)) -> front_ge c rs (m_secrets m) ->
  (j0 <= length (st_mpks s))%nat ->
  (forall j pk r sk, (j0 <= j)%nat -> nth_error (st_mpks s) j = Some pk -> In r rs -> In (r, sk) (p_keys pk) -> c <= tok sk) ->
  (j0 <= length (st_mpks s ++ [mk_mpk m]))%nat /\
  (forall j pk r sk, (j0 <= j)%nat -> nth_error (st_mpks s ++ [mk_mpk m]) j = Some pk -> In r rs -> In (r, sk) (p_keys pk) -> c <= tok sk).
Proof.
  intros Hnd Hf Hj H. split; [rewrite app_length; lia|]. intros j pk r sk Hj0 En Hr Hk.
  destruct (Nat.lt_ge_cases j (length (st_mpks s))) as [Hlt|Hge].
  - rewrite nth_error_app1 in En by exact Hlt. eapply H; eassumption.
  - rewrite nth_error_app2 in En by exact Hge. destruct (j - length (st_mpks s))%nat as [|n]; [|destruct n; discriminate]. cbn in En. inversion En; subst pk.
    destruct (mk_mpk_In _ _ _ Hk) as (older & Hin). eapply Hf; [exact Hr|apply In_rlookup; [exact Hnd|exact Hin]].
Qed.

Lemma FrontGe_step c rs j0 s o : I1 s -> is_setup o = false -> FrontGe c rs j0 s -> FrontGe c rs j0 (fst (step fixed s o)).
Proof.
  intros [Hne Hnd _] Ho (Hc & Hf & Hj & Hp). fold (front_ge c rs (m_secrets (st_msk s))) in Hf.
  assert (Hsame : forall s', st_ctr s <= st_ctr s' -> m_secrets (st_msk s') = m_secrets (st_msk s) -> st_mpks s' = st_mpks s -> FrontGe c rs j0 s').
  { intros s' H1 H2 H3. unfold FrontGe. rewrite H2, H3. repeat split; try assumption. lia. }
  destruct o; try discriminate; cbn [step];
    try (unfold edit; match goal with |- context [match ?r with Ok _ => _ | _ => _ end] => destruct r end; cbn; apply Hsame; cbn; try reflexivity; lia).
  - (* OUpdate *)
    destruct (update_msk fixed (st_msk s) (st_ctr s)) as [[r m'] c'] eqn:E.
    destruct (update_msk_I1 _ _ _ _ _ Hne Hnd E) as (_ & Hnd' & Hc' & _).
    assert (Hf' : front_ge c rs (m_secrets m')).
    { rewrite update_msk_fixed in E. destruct (upd_loop _ _ _) as [[secs c'']|] eqn:Eu; [|inversion E; subst; exact Hf].
      cbn in E. inversion E; subst; clear E. cbn [m_secrets].
      destruct (upd_loop_ind (omega_map (m_st (st_msk s))) (fun secs c0 => c <= c0 /\ front_ge c rs secs)) with (3 := incl_refl (omega_map (m_st (st_msk s)))) (6 := Eu) as [[_ HQ] _].
      - intros r0 hyb enc fl s0 older secs0 c0 _ El [H1 H2]. split; [exact H1|]. intros r1 fl1 sk1 older1 Hr1 El1.
        rewrite rlookup_rreplace in El1 by (rewrite El; discriminate). destruct (list_N_eqb r1 r0) eqn:Eq; [|eapply H2; eassumption].
        apply list_N_eqb_eq in Eq. subst r1. inversion El1; subst. rewrite tok_downgrade. eapply H2; eassumption.
      - intros r0 hyb secs0 c0 _ El [H1 H2]. split; [lia|]. intros r1 fl1 sk1 older1 Hr1 El1. rewrite rlookup_app_new in El1 by exact El.
        destruct (rlookup r1 secs0) eqn:E1; [inversion El1; subst; eapply H2; eassumption|].
        destruct (list_N_eqb r1 r0); [|discriminate]. inversion El1; subst. cbn. exact H1.
      - intros r0 ch Hin. apply filter_In in Hin. eapply Hne. apply Hin.
      - split; [exact Hc|]. intros r1 fl1 sk1 older1 Hr1 El1. apply rlookup_filter in El1. destruct El1 as [_ Hin]. eapply Hf; [exact Hr1|apply In_rlookup; eassumption].
      - exact HQ. }
    destruct r; cbn.
    + destruct (FrontGe_push c rs j0 s m' Hnd' Hf' Hj Hp) as [G1 G2]. repeat split; cbn; try assumption. lia.
    + repeat split; cbn; try assumption. lia.
  - (* OMpk *) destruct (FrontGe_push c rs j0 s (st_msk s) Hnd Hf Hj Hp) as [G1 G2]. repeat split; cbn; assumption.
  - (* ORekey *)
    destruct (usk_rights fixed (m_st (st_msk s)) p) as [rs0|]; [|apply Hsame; reflexivity || lia]. unfold rekey.
    destruct (forallb _ rs0); [|cbn; apply Hsame; cbn; reflexivity || lia].
    pose proof (rekey_loop_ind (fun secs c0 => c <= c0 /\ front_ge c rs secs)) as Hind.
    specialize (Hind) with (rs := rs0) (secs := m_secrets (st_msk s)) (ctr := st_ctr s).
    destruct (rekey_loop_I1 rs0 _ (st_ctr s) Hne Hnd) as (_ & Hnd' & _).
    destruct Hind as [Hc' Hf'].
    { intros r0 fl s0 older secs0 c0 El [H1 H2]. split; [lia|]. intros r1 fl1 sk1 older1 Hr1 El1.
      rewrite rlookup_rreplace in El1 by (rewrite El; discriminate). destruct (list_N_eqb r1 r0) eqn:Eq; [|eapply H2; eassumption].
      inversion El1; subst. cbn. exact H1. }
    { split; assumption. }
    destruct (rekey_loop fixed rs0 (m_secrets (st_msk s)) (st_ctr s)) as [secs c'] eqn:E. cbn [fst snd] in *. cbn.
    destruct (FrontGe_push c rs j0 s {| m_users := m_users (st_msk s); m_secrets := secs; m_st := m_st (st_msk s) |} Hnd' Hf' Hj Hp) as [G1 G2].
    repeat split; cbn; assumption.
  - (* OPrune *)
    destruct (usk_rights fixed (m_st (st_msk s)) p) as [rs0|]; [|apply Hsame; reflexivity || lia]. cbn.
    destruct (prune_I1 (st_msk s) rs0 Hne Hnd) as [_ Hnd'].
    assert (Hf' : front_ge c rs (m_secrets (prune (st_msk s) rs0))).
    { intros r1 fl1 sk1 older1 Hr1 El1. rewrite rlookup_prune in El1. destruct (rlookup r1 (m_secrets (st_msk s))) as [[|[fl0 sk0] old0]|] eqn:E0; try discriminate.
      - cbn in El1. destruct (existsb (list_N_eqb r1) rs0); discriminate.
      - cbn in El1. destruct (existsb (list_N_eqb r1) rs0); inversion El1; subst; eapply Hf; eassumption. }
    destruct (FrontGe_push c rs j0 s (prune (st_msk s) rs0) Hnd' Hf' Hj Hp) as [G1 G2]. repeat split; cbn; assumption.
  - (* OKeygen *)
    destruct (usk_rights fixed (m_st (st_msk s)) p) as [rs0|]; [|apply Hsame; reflexivity || lia]. unfold keygen.
    destruct (latest_all (st_msk s) rs0); cbn; apply Hsame; cbn; try reflexivity; lia.
  - destruct (nth_error (st_usks s) k) as [u|]; [|apply Hsame; reflexivity || lia]. destruct (refresh fixed (st_msk s) u keep). cbn. apply Hsame; cbn; reflexivity || lia.
  - destruct (nth_error (st_mpks s) j) as [pk|]; [|apply Hsame; reflexivity || lia]. destruct (enc_rights fixed (p_st pk) p) as [rs0|]; [|apply Hsame; reflexivity || lia].
    unfold encaps_rights. destruct (all_rights_keys pk rs0); cbn; apply Hsame; cbn; try reflexivity; lia.
  - destruct (nth_error (st_usks s) k) as [u|]; [|apply Hsame; reflexivity || lia]. destruct (nth_error (st_encs s) e); [|apply Hsame; reflexivity || lia].
    destruct (u_chains u); apply Hsame; reflexivity || lia.
  - destruct (nth_error (st_mpks s) j) as [pk|]; [|apply Hsame; reflexivity || lia]. destruct (nth_error (st_encs s) e) as [x|]; [|apply Hsame; reflexivity || lia].
    destruct (recaps fixed (st_msk s) pk x (st_ctr s)) as [[x'|] c'] eqn:Er; [|apply Hsame; reflexivity || lia].
    destruct (recaps_is_encaps _ _ _ _ _ _ Er) as (rs1 & Ee). unfold encaps_rights in Ee. destruct (all_rights_keys pk rs1); [|discriminate]. inversion Ee; subst.
    cbn. apply Hsame; cbn; try reflexivity; lia.
  - apply Hsame; reflexivity || lia.
Qed.

Lemma FrontGe_run c rs j0 : forall ops s, reach s -> ~ In OSetup ops -> FrontGe c rs j0 s -> FrontGe c rs j0 (run_state fixed s ops).
Proof.
  induction ops as [|o ops IH]; intros s Hr Hno HF; [exact HF|]. rewrite run_state_cons. apply IH.
  - apply reach_step. exact Hr.
  - intros Hin. apply Hno. right. exact Hin.
  - apply FrontGe_step; [apply inv14_reach; exact Hr| |exact HF]. destruct o; try reflexivity. exfalso. apply Hno. left. reflexivity.
Qed.

(* C04 stale_cannot_open: key u exists before the rekey of policy p (rights rs); later (no OSetup in between) an
   encapsulation is made under a snapshot taken at or after the rekey, for a policy all of whose rights were re-keyed;
   then the stale key u (as it was before the rekey) cannot open it. *)
Theorem stale_cannot_open ops1 p ops2 k u j pol rs x :
  let s1 := run_state fixed init ops1 in
  let s1' := fst (step fixed s1 (ORekey p)) in
  let s2 := run_state fixed s1' ops2 in
  snd (step fixed s1 (ORekey p)) = ObOk -> usk_rights fixed (m_st (st_msk s1)) p = ROk rs ->
  ~ In OSetup ops2 ->
  nth_error (st_usks s1) k = Some u ->
  (length (st_mpks s1) <= j)%nat ->                       (* the snapshot pushed by the rekey, or a later one *)
  (forall pk rsx, nth_error (st_mpks s2) j = Some pk -> enc_rights fixed (p_st pk) pol = ROk rsx -> incl rsx rs) ->
  st_encs (fst (step fixed s2 (OEncaps j pol))) = st_encs s2 ++ [x] ->
  decaps fixed u x = None.
Proof.
  intros s1 s1' s2 Hok Hu Hno En Hj Hincl Hx.
  assert (Hr1 : reach s1) by (exists ops1; reflexivity).
  assert (Hr1' : reach s1') by (apply reach_step; exact Hr1).
  destruct (rekey_pushes_front s1 p Hr1 Hok) as (rs' & Hu' & _ & Hfront & _ & Hkeys & Hctr & _ & _ & _ & _ & Hmpks & _).
  rewrite Hu in Hu'. inversion Hu'; subst rs'. fold s1' in Hfront, Hkeys, Hctr, Hmpks.
  destruct (inv14_reach s1' Hr1') as [[Hne' Hnd' _] _].
  assert (HF : FrontGe (st_ctr s1) rs (length (st_mpks s1)) s1').
  { assert (Hfg : front_ge (st_ctr s1) rs (m_secrets (st_msk s1'))).
    { intros r fl sk older Hr El. apply In_nth_error in Hr. destruct Hr as (i & Hi). destruct (Hfront i r Hi) as (fl0 & sk0 & older0 & _ & E).
      rewrite E in El. inversion El; subst. cbn. lia. }
    split; [lia|]. split; [exact Hfg|]. rewrite Hmpks. apply (FrontGe_push (st_ctr s1) rs (length (st_mpks s1)) s1 (st_msk s1') Hnd' Hfg (le_n _)).
    intros j0 pk r sk Hj0 En0. apply nth_error_Some_lt in En0 || (assert (Hlt : (j0 < length (st_mpks s1))%nat) by (apply nth_error_Some; rewrite En0; discriminate); lia). }
  pose proof (FrontGe_run _ _ _ ops2 s1' Hr1' Hno HF) as (_ & _ & _ & Hpub). fold s2 in Hpub.
  (* the encapsulation *)
  assert (Hok2 : snd (step fixed s2 (OEncaps j pol)) = ObOk).
  { destruct (snd (step fixed s2 (OEncaps j pol))) eqn:E; try reflexivity; exfalso;
      (assert (Hsame : fst (step fixed s2 (OEncaps j pol)) = s2) by (apply non_ok_step_unchanged; rewrite E; discriminate));
      rewrite Hsame in Hx; apply (f_equal (@length _)) in Hx; rewrite app_length in Hx; cbn in Hx; lia. }
  destruct (encaps_mode s2 j pol Hok2) as (pk & rsx & ks & x0 & Hn & Her & HF2 & He & _ & Hent & _).
  rewrite He in Hx. apply app_inj_tail in Hx. destruct Hx as [_ ->].
  apply (old_key_cannot_open u x (st_ctr s1)).
  - intros sk Hsk. apply in_concat in Hsk. destruct Hsk as (ch & Hch & Hsk). apply in_map_iff in Hch. destruct Hch as ([r ch0] & E & Hch). cbn in E. subst ch0.
    destruct (tokens_fresh s1 Hr1) as (T1 & _). apply (T1 r sk). eapply occ_usk; [eapply nth_error_In; exact En|exact Hch|exact Hsk].
  - intros t Ht. rewrite Hent in Ht. apply in_map_iff in Ht. destruct Ht as (sk & <- & Hsk).
    destruct (KInv5.Forall2_In_r _ _ _ _ HF2 Hsk) as (r & Hr & El). eapply (Hpub j pk r sk Hj Hn); [eapply Hincl; eassumption|apply rlookup_In; exact El].
Qed.
Print Assumptions stale_cannot_open.

(* non-vacuity: key 0 (D::a) issued, D::a re-keyed (rights [] and [0]), encapsulation for D::a under the new snapshot;
   the stale key cannot open it, the refreshed one can *)
Definition hist9a : list op := [OSetup; OAddAnarchy sD; OAddAttr sD sa false None; OAddAttr sD sb true None; OUpdate; OKeygen sDa].
Example stale_cannot_open_nonvacuous :
  snd (run fixed init (hist9a ++ [ORekey sDa; OEncaps 2 sDa; ODecaps 0 0; ORefresh 0 true; ODecaps 0 0])) =
    [ObOk; ObOk; ObOk; ObOk; ObOk; ObOk; ObOk; ObOk; ObNone; ObOk; ObSome 6] /\
  usk_rights fixed (m_st (st_msk (run_state fixed init hist9a))) sDa = ROk [[]; [0]] /\
  (forall pk, nth_error (st_mpks (run_state fixed init (hist9a ++ [ORekey sDa]))) 2 = Some pk -> enc_rights fixed (p_st pk) sDa = ROk [[0]]).
Proof. split; [vm_compute; reflexivity|]. split; [vm_compute; reflexivity|]. intros pk H. vm_compute in H. inversion H; subst. vm_compute. reflexivity. Qed.
