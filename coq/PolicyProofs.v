From Coq Require Import List NArith Bool Arith Lia.
Require Import Policy.
Import ListNotations.

Fixpoint eval (env : qattr -> bool) (p : policy) : bool :=
  match p with
  | Broadcast => true
  | Term a => env a
  | Conj l r => eval env l && eval env r
  | Disj l r => eval env l || eval env r
  end.
Definition eval_dnf (env : qattr -> bool) (d : list (list qattr)) : bool := existsb (forallb env) d.

Lemma existsb_flat_map {A B} (f : B -> bool) (g : A -> list B) l :
  existsb f (flat_map g l) = existsb (fun x => existsb f (g x)) l.
Proof. induction l as [|x l IH]; cbn; [reflexivity|]. rewrite existsb_app, IH. reflexivity. Qed.
Lemma existsb_map {A B} (f : B -> bool) (g : A -> B) l : existsb f (map g l) = existsb (fun x => f (g x)) l.
Proof. induction l as [|x l IH]; cbn; [reflexivity|]. rewrite IH. reflexivity. Qed.
Lemma existsb_andb_l {A} (c : bool) (f : A -> bool) l : existsb (fun x => c && f x) l = c && existsb f l.
Proof. induction l as [|x l IH]; cbn; [destruct c; reflexivity|]. rewrite IH. destruct c, (f x); reflexivity. Qed.
Lemma existsb_andb_r {A} (c : bool) (f : A -> bool) l : existsb (fun x => f x && c) l = existsb f l && c.
Proof. induction l as [|x l IH]; cbn; [reflexivity|]. rewrite IH. destruct c, (f x), (existsb f l); reflexivity. Qed.
Lemma existsb_ext' {A} (f g : A -> bool) l : (forall x, f x = g x) -> existsb f l = existsb g l.
Proof. intros H. induction l as [|x l IH]; cbn; [reflexivity|]. rewrite H, IH. reflexivity. Qed.

Theorem dnf_equiv env p : eval_dnf env (to_dnf p) = eval env p.
Proof.
  unfold eval_dnf. induction p as [|a|l IHl r IHr|l IHl r IHr]; cbn [to_dnf eval].
  - reflexivity.
  - cbn. rewrite andb_true_r, orb_false_r. reflexivity.
  - rewrite existsb_flat_map.
    rewrite (existsb_ext' _ (fun vl => forallb env vl && existsb (forallb env) (to_dnf r))).
    + rewrite existsb_andb_r, IHl, IHr. reflexivity.
    + intros vl. rewrite existsb_map.
      rewrite (existsb_ext' _ (fun vr => forallb env vl && forallb env vr)).
      * apply existsb_andb_l.
      * intros vr. apply forallb_app.
  - rewrite existsb_app, IHl, IHr. reflexivity.
Qed.

Lemma pand_sound env a b : eval env (pand a b) = eval env a && eval env b.
Proof. unfold pand. destruct a; cbn; try reflexivity; destruct b; cbn; rewrite ?andb_true_r; reflexivity. Qed.
Lemma por_sound env a b : eval env (por a b) = eval env a || eval env b.
Proof. unfold por. destruct a; cbn; try reflexivity; destruct b; cbn; rewrite ?orb_true_r; reflexivity. Qed.
Lemma conjugate_sound env rest : forall first, eval env (conjugate first rest) = eval env first && forallb (eval env) rest.
Proof.
  unfold conjugate. induction rest as [|x rest IH]; intros first; cbn.
  - rewrite andb_true_r. reflexivity.
  - rewrite IH, pand_sound, andb_assoc. reflexivity.
Qed.
Print Assumptions dnf_equiv.
