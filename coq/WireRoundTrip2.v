(* C13, part 2: user secret key, encapsulation, encrypted header, cleartext header *)
From Coq Require Import List NArith Bool Arith Lia.
Require Import Policy Structure Leb Wire WireSer WireRoundTrip1.
Import ListNotations.
Local Open Scope nat_scope.

Lemma filter_nonempty_id {A B} (l : list (A * list B)) :
  Forall (fun rc => snd rc <> []) l ->
  filter (fun rc => negb (match snd rc with [] => true | _ => false end)) l = l.
Proof.
  induction 1 as [|rc l Hrc Hl IH]; [reflexivity|].
  cbn [filter]. destruct (snd rc) eqn:E; [congruence|]. cbn [negb]. rewrite IH. reflexivity.
Qed.

Lemma map_nil_fst_snd (es : list (bytes * bytes)) :
  Forall (fun ef => fst ef = []) es -> map (fun f => (@nil N, f)) (map snd es) = es.
Proof.
  induction 1 as [|ef es He Hes IH]; [reflexivity|].
  cbn [map]. rewrite IH. destruct ef as [e f]. cbn [fst snd] in *. subst e. reflexivity.
Qed.

Lemma meta_of_opt o : meta_ok o -> meta_of (opt_bytes o) = o.
Proof. destruct o as [m|]; [|reflexivity]. intros [Hne _]. destruct m; [congruence|reflexivity]. Qed.
Lemma meta_ok_u64 o : meta_ok o -> u64 (nlen (opt_bytes o)).
Proof. destruct o as [m|]; [intros [_ [H _]]; exact H|]. intros _. unfold u64, nlen. cbn. lia. Qed.

Section Sized2.
  Variable sz : sizes.

  (* ---------- user secret key ---------- *)
  Lemma rt_usk_chain rc rest : wf_usk_chain sz rc ->
    (do (r, q1) <- r_vec (wr_usk_chain rc ++ rest); do (ch, q2) <- r_list (r_rsk sz) q1; ROk (r, ch) q2) = ROk rc rest.
  Proof.
    intros ([Hv _] & Hn & _ & Hk). destruct rc as [r ch]. cbn [fst snd] in *.
    unfold wr_usk_chain. cbn [fst snd]. rewrite <- app_assoc. rewrite r_vec_w by exact Hv. cbn [bind].
    rewrite r_list_w; [reflexivity|exact Hn| |].
    - eapply Forall_impl; [|exact Hk]. intros k Hwk rest'. apply rt_rsk. exact Hwk.
    - apply Forall_forall. intros k _. apply wr_rsk_nonempty.
  Qed.

  (* The optional trailing signature is recognised by the reader from the number of bytes that remain
     (`de.value().len() < SIGNATURE_LENGTH`): a key WITHOUT signature is read back correctly only when fewer than
     32 bytes follow it (in particular when nothing follows: `whole`). *)
  Theorem rt_usk u rest : wf_usk sz u -> (wu_sig u = None -> length rest < 32) ->
    r_usk sz (wr_usk u ++ rest) = ROk u rest.
  Proof.
    intros (Hid & Hnp & Hps & Hnc & Hch & Hsig) Hrest. pose proof Hid as ([_ Hp] & _).
    destruct u as [id ps chs sig]. cbn [wu_id wu_ps wu_chains wu_sig] in *.
    unfold r_usk, wr_usk. cbn [wu_id wu_ps wu_chains wu_sig]. repeat rewrite <- app_assoc.
    rewrite rt_userid by exact Hid. cbn [bind].
    rewrite r_list_blobs by assumption. cbn [bind].
    rewrite r_list_w; [|exact Hnc| |].
    - cbn [bind]. cbv zeta. rewrite filter_nonempty_id.
      2:{ eapply Forall_impl; [|exact Hch]. intros rc (_ & _ & Hne & _). exact Hne. }
      destruct sig as [sg|]; cbn [opt_bytes].
      + destruct Hsig as [Hsg _].
        assert (E : (length (sg ++ rest) <? 32) = false) by (apply Nat.ltb_ge; rewrite app_length; lia).
        rewrite E. rewrite r_take_w by exact Hsg. reflexivity.
      + rewrite app_nil_l. specialize (Hrest eq_refl). apply Nat.ltb_lt in Hrest. rewrite Hrest. reflexivity.
    - eapply Forall_impl; [|exact Hch]. intros rc Hrc rest'. apply rt_usk_chain. exact Hrc.
    - apply Forall_forall. intros rc _. unfold wr_usk_chain. rewrite app_length. pose proof (w_vec_nonempty (fst rc)). lia.
  Qed.

  (* Serializable::deserialize(serialize(usk)) = usk, with or without signature *)
  Corollary rt_usk_whole u : wf_usk sz u -> whole (r_usk sz (wr_usk u)) = Some u.
  Proof.
    intros H. rewrite <- (app_nil_r (wr_usk u)). rewrite rt_usk; [reflexivity|exact H|]. intros _. cbn. lia.
  Qed.

  (* ---------- encapsulation ---------- *)
  Theorem rt_xenc x rest : wf_xenc sz x -> r_xenc sz (wr_xenc x ++ rest) = ROk x rest.
  Proof.
    intros ([_ Hp] & [Htag _] & Hnc & Hc & Hne & He).
    destruct x as [tag c h es]. cbn [wx_tag wx_c wx_hyb wx_entries] in *.
    unfold r_xenc, wr_xenc. cbn [wx_tag wx_c wx_hyb wx_entries]. repeat rewrite <- app_assoc.
    rewrite r_take_w by exact Htag. cbn [bind].
    rewrite r_list_blobs by assumption. cbn [bind].
    destruct h.
    - change (w_leb 1) with (w_flag true). repeat rewrite <- app_assoc. rewrite r_flag_w. cbn [bind].
      rewrite r_list_w; [reflexivity|exact Hne| |].
      + eapply Forall_impl; [|exact He]. intros [e f] [[Hle _] [Hlf _]] rest'. cbn [fst snd] in *.
        unfold wr_hentry. cbn [fst snd]. rewrite <- app_assoc.
        rewrite r_take_w by exact Hle. cbn [bind]. rewrite r_take_w by exact Hlf. reflexivity.
      + eapply Forall_impl; [|exact He]. intros [e f] [_ [Hlf _]]. cbn [fst snd] in *.
        unfold wr_hentry. cbn [fst snd]. rewrite app_length. lia.
    - change (w_leb 0) with (w_flag false). repeat rewrite <- app_assoc. rewrite r_flag_w. cbn [bind].
      rewrite r_list_blobs.
      + cbn [bind]. rewrite map_nil_fst_snd; [reflexivity|].
        eapply Forall_impl; [|exact He]. intros ef [H _]. exact H.
      + lia.
      + unfold nlen in *. rewrite map_length. exact Hne.
      + apply Forall_forall. intros f Hin. apply in_map_iff in Hin. destruct Hin as (ef & <- & Hin).
        rewrite Forall_forall in He. apply (He ef Hin).
  Qed.

  (* ---------- encrypted header ---------- *)
  Theorem rt_header h rest : wf_header sz h -> r_header sz (wr_header h ++ rest) = ROk h rest.
  Proof.
    intros [Hx Hm]. destruct h as [x m]. cbn [wh_enc wh_meta] in *.
    unfold r_header, wr_header. cbn [wh_enc wh_meta]. rewrite <- app_assoc.
    rewrite rt_xenc by exact Hx. cbn [bind].
    rewrite r_vec_w by (apply meta_ok_u64; exact Hm). cbn [bind].
    rewrite meta_of_opt by exact Hm. reflexivity.
  Qed.
  (* "absent and empty header metadata are the same value on the wire" *)
  Theorem wr_header_empty_meta x : wr_header {| wh_enc := x; wh_meta := Some [] |} = wr_header {| wh_enc := x; wh_meta := None |}.
  Proof. reflexivity. Qed.
  Theorem rt_header_empty_meta x rest : wf_xenc sz x ->
    r_header sz (wr_header {| wh_enc := x; wh_meta := Some [] |} ++ rest) = ROk {| wh_enc := x; wh_meta := None |} rest.
  Proof.
    intros Hx. rewrite wr_header_empty_meta.
    apply (rt_header {| wh_enc := x; wh_meta := None |}). split; [exact Hx|exact I].
  Qed.
End Sized2.

(* ---------- cleartext header ---------- *)
Theorem rt_cleartext c rest : wf_cleartext c -> r_cleartext (wr_cleartext c ++ rest) = ROk c rest.
Proof.
  intros [[Hs _] Hm]. destruct c as [s m]. cbn [wc_secret wc_meta] in *.
  unfold r_cleartext, wr_cleartext. cbn [wc_secret wc_meta]. rewrite <- app_assoc.
  rewrite r_take_w by exact Hs. cbn [bind].
  rewrite r_vec_w by (apply meta_ok_u64; exact Hm). cbn [bind].
  rewrite meta_of_opt by exact Hm. reflexivity.
Qed.
Theorem wr_cleartext_empty_meta s : wr_cleartext {| wc_secret := s; wc_meta := Some [] |} = wr_cleartext {| wc_secret := s; wc_meta := None |}.
Proof. reflexivity. Qed.
Theorem rt_cleartext_empty_meta s rest : blob 32 s ->
  r_cleartext (wr_cleartext {| wc_secret := s; wc_meta := Some [] |} ++ rest) = ROk {| wc_secret := s; wc_meta := None |} rest.
Proof.
  intros Hs. rewrite wr_cleartext_empty_meta.
  apply (rt_cleartext {| wc_secret := s; wc_meta := None |}). split; [exact Hs|exact I].
Qed.

(* ---------- examples ---------- *)
Definition ex_usk (sig : option bytes) : w_usk :=
  {| wu_id := ex_userid; wu_ps := [[1; 1; 1]; [2; 2; 2]]%N;
     wu_chains := [([1; 2]%N, [ex_rsk_h; ex_rsk_c; ex_rsk_c]); ([]%N, [ex_rsk_c])];     (* two chains of different lengths, one hybridized secret *)
     wu_sig := sig |}.
Definition ex_sig : bytes := map N.of_nat (seq 100 32).
Definition ex_xenc_h : w_xenc :=
  {| wx_tag := map N.of_nat (seq 1 16); wx_c := [[1; 2; 3]; [4; 5; 6]]%N; wx_hyb := true;
     wx_entries := [([7; 7; 7]%N, map N.of_nat (seq 10 32)); ([8; 8; 8]%N, map N.of_nat (seq 50 32))] |}.
Definition ex_xenc_c : w_xenc :=
  {| wx_tag := map N.of_nat (seq 1 16); wx_c := [[1; 2; 3]]%N; wx_hyb := false;
     wx_entries := [([]%N, map N.of_nat (seq 10 32)); ([]%N, map N.of_nat (seq 50 32)); ([]%N, map N.of_nat (seq 90 32))] |}.
Definition ex_header : w_header := {| wh_enc := ex_xenc_h; wh_meta := Some [109; 101; 116; 97]%N |}.
Definition ex_cleartext : w_cleartext := {| wc_secret := map N.of_nat (seq 200 32); wc_meta := Some [109; 101; 116; 97]%N |}.

Lemma is_bytes_seq a n : a + n <= 256 -> is_bytes (map N.of_nat (seq a n)).
Proof.
  intros H. apply Forall_forall. intros x Hx. apply in_map_iff in Hx. destruct Hx as (k & <- & Hk).
  apply in_seq in Hk. lia.
Qed.
Lemma blob_seq a n : a + n <= 256 -> blob n (map N.of_nat (seq a n)).
Proof. intros H. split; [rewrite map_length, seq_length; reflexivity|apply is_bytes_seq; exact H]. Qed.

Ltac wf_solve2 :=
  repeat (first [ progress cbn [fst snd] | split | apply Forall_cons | apply Forall_nil | reflexivity
                | (apply blob_seq; lia) | (apply is_bytes_seq; lia)
                | (unfold u64, nlen; cbn [length]; lia) | discriminate | exact I ]).

Example ex_usk_wf : wf_usk ex_sizes (ex_usk None) /\ wf_usk ex_sizes (ex_usk (Some ex_sig)).
Proof.
  unfold wf_usk, wf_userid, wf_usk_chain, wf_rsk, wf_sizes, vec_ok, blob, ex_usk, ex_userid, ex_rsk_h, ex_rsk_c, ex_sig.
  cbn [wu_id wu_ps wu_chains wu_sig wk_hyb wk_sk wk_dk ex_sizes scalar_len point_len dk_len].
  unfold is_bytes. wf_solve2.
Qed.
Example ex_usk_rt :
  r_usk ex_sizes (wr_usk (ex_usk None) ++ [9]%N) = ROk (ex_usk None) [9]%N
  /\ r_usk ex_sizes (wr_usk (ex_usk (Some ex_sig)) ++ [9]%N) = ROk (ex_usk (Some ex_sig)) [9]%N
  /\ whole (r_usk ex_sizes (wr_usk (ex_usk None))) = Some (ex_usk None).
Proof. vm_compute. repeat split; reflexivity. Qed.
(* The statement without the side condition on `rest` is false: followed by >= 32 bytes, a key without signature is
   read back with those bytes as its signature.  (Full requested statement:
     forall sz u rest, wf_usk sz u -> r_usk sz (wr_usk u ++ rest) = ROk u rest.) *)
Theorem rt_usk_anyrest_refuted :
  ~ (forall sz u rest, wf_usk sz u -> r_usk sz (wr_usk u ++ rest) = ROk u rest).
Proof.
  intros H. specialize (H ex_sizes (ex_usk None) ex_sig (proj1 ex_usk_wf)). vm_compute in H. discriminate H.
Qed.

Example ex_xenc_wf : wf_xenc ex_sizes ex_xenc_h /\ wf_xenc ex_sizes ex_xenc_c.
Proof.
  unfold wf_xenc, wf_sizes, ex_xenc_h, ex_xenc_c.
  cbn [wx_tag wx_c wx_hyb wx_entries ex_sizes scalar_len point_len ct_len].
  wf_solve2; unfold blob, is_bytes; wf_solve2.
Qed.
Example ex_xenc_rt :
  r_xenc ex_sizes (wr_xenc ex_xenc_h ++ [9]%N) = ROk ex_xenc_h [9]%N
  /\ r_xenc ex_sizes (wr_xenc ex_xenc_c ++ [9]%N) = ROk ex_xenc_c [9]%N.
Proof. vm_compute. split; reflexivity. Qed.
Example ex_header_wf : wf_header ex_sizes ex_header.
Proof.
  split; [exact (proj1 ex_xenc_wf)|]. unfold ex_header, meta_ok, vec_ok, is_bytes. cbn [wh_meta]. wf_solve2.
Qed.
Example ex_header_rt :
  r_header ex_sizes (wr_header ex_header ++ [9]%N) = ROk ex_header [9]%N
  /\ whole (r_header ex_sizes (wr_header {| wh_enc := ex_xenc_c; wh_meta := Some [] |})) = Some {| wh_enc := ex_xenc_c; wh_meta := None |}.
Proof. vm_compute. split; reflexivity. Qed.
Example ex_cleartext_wf : wf_cleartext ex_cleartext.
Proof. unfold wf_cleartext, ex_cleartext, meta_ok, vec_ok. cbn [wc_secret wc_meta]. wf_solve2; unfold is_bytes; wf_solve2. Qed.
Example ex_cleartext_rt : r_cleartext (wr_cleartext ex_cleartext ++ [9]%N) = ROk ex_cleartext [9]%N.
Proof. vm_compute. reflexivity. Qed.

Print Assumptions rt_usk.
Print Assumptions rt_usk_whole.
Print Assumptions rt_usk_anyrest_refuted.
Print Assumptions rt_xenc.
Print Assumptions rt_header.
Print Assumptions rt_header_empty_meta.
Print Assumptions rt_cleartext.
Print Assumptions rt_cleartext_empty_meta.
