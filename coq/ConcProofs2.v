(* C19, part 2: isolation of critical sections ("every call returns what it would return alone")
   and freshness across threads (no two draws consume the same generator output).

   Main results of this file
     exec_serial               every observation trace is serial: whole critical sections one after another
     trace_program             what thread i was observed doing is a prefix of ITS program, in order
     section_contiguous        between thread i's Acq and its Rel every step is a Draw of thread i, and the
                               cursors seen are k, k+n1, k+n1+n2, ...
     section_as_alone          ... and that block is the m-th critical section of program i run alone from k
     section_prefix_as_alone   same for a section still in progress
     complete_trace_program    in a complete execution every thread performed exactly its program
     draws_global_serial       the draws of ALL threads, in execution order, see the cursors of one
                               sequential generator
     draw_intervals_disjoint   pairwise disjoint, non-empty draw intervals; cursor strictly increasing *)
From Coq Require Import List NArith Bool Arith Lia.
From CC Require Import Conc ConcProofs1.
Import ListNotations.
Local Arguments N.add : simpl never.

(* ------------------------------------------------------------------------------------------ *)
(** * 3. Isolation *)

(* critical sections of a program: each Acq opens a section made of the draws that follow it *)
Fixpoint take_draws (p : program) : list N :=
  match p with Draw n :: t => n :: take_draws t | _ => [] end.
Fixpoint sections (p : program) : list (list N) :=
  match p with
  | [] => []
  | Acq :: t => take_draws t :: sections t
  | _ :: t => sections t
  end.

(* a section run ALONE from cursor k: the cursor values its successive draws see *)
Fixpoint run_alone (k : N) (sect : list N) : list N :=
  match sect with [] => [] | n :: s => k :: run_alone (k + n)%N s end.

(* the observations produced by thread i running section ns alone from cursor k *)
Fixpoint section_obs (i : nat) (k : N) (ns : list N) : list (nat * label) :=
  match ns with [] => [] | n :: s => (i, LDraw k n) :: section_obs i (k + n)%N s end.

Definition cursor_seen (x : nat * label) : N :=
  match snd x with LAcq k => k | LRel k => k | LDraw k _ => k end.

Lemma section_obs_seen i ns : forall k, map cursor_seen (section_obs i k ns) = run_alone k ns.
Proof. induction ns as [|n ns IH]; intros k; cbn; [reflexivity|]. rewrite IH. reflexivity. Qed.

Lemma section_obs_shape i ns : forall k x, In x (section_obs i k ns) -> fst x = i /\ exists k' n, snd x = LDraw k' n.
Proof.
  induction ns as [|n ns IH]; intros k x Hin; cbn in Hin; [contradiction|].
  destruct Hin as [<-|Hin]; [split; [reflexivity|exists k, n; reflexivity]|eapply IH; exact Hin].
Qed.

(* serial traces: an alternation of complete blocks  (i,Acq k) (i,Draw k n1) (i,Draw (k+n1) n2) ... (i,Rel _)
   each by a single thread, every observation showing the cursor a sequential generator would have;
   `serial o k tr o' k'`: from (lock owner o, cursor k) the trace tr is serial and ends in (o', k') *)
Inductive serial : option nat -> N -> list (nat * label) -> option nat -> N -> Prop :=
| ser_nil o k : serial o k [] o k
| ser_acq i k tr o' k' : serial (Some i) k tr o' k' -> serial None k ((i, LAcq k) :: tr) o' k'
| ser_draw i k n tr o' k' : serial (Some i) (k + n)%N tr o' k' -> serial (Some i) k ((i, LDraw k n) :: tr) o' k'
| ser_rel i k tr o' k' : serial None k tr o' k' -> serial (Some i) k ((i, LRel k) :: tr) o' k'.

Theorem exec_serial c sch c' :
  exec c sch c' -> serial (owner c) (cursor c) (trace c sch) (owner c') (cursor c').
Proof.
  intros He. induction He as [c|c i c1 sch c' Hs He IH]; [apply ser_nil|].
  rewrite (trace_cons _ _ _ _ Hs).
  inversion Hs as [c0 i0 t Hn Ho|c0 i0 t Hn Ho|c0 i0 n t Hn Ho]; subst; cbn [owner cursor] in IH;
    unfold label_of; rewrite Hn, Ho.
  - apply ser_acq. exact IH.
  - apply ser_rel. exact IH.
  - apply ser_draw. exact IH.
Qed.
Print Assumptions exec_serial.

Lemma serial_app_inv t1 : forall o k t2 o' k', serial o k (t1 ++ t2) o' k' ->
  exists om km, serial o k t1 om km /\ serial om km t2 o' k'.
Proof.
  induction t1 as [|x t1 IH]; intros o k t2 o' k' H.
  - exists o, k. split; [apply ser_nil|exact H].
  - cbn in H. inversion H as [|i k0 tr o0 k0' Htr|i k0 n tr o0 k0' Htr|i k0 tr o0 k0' Htr]; subst;
      destruct (IH _ _ _ _ _ Htr) as (om & km & Ha & Hb); exists om, km; (split; [|exact Hb]).
    + apply ser_acq. exact Ha.
    + apply ser_draw. exact Ha.
    + apply ser_rel. exact Ha.
Qed.

Lemma serial_section i mid : (forall kk, ~ In (i, LRel kk) mid) ->
  forall k rest o' k', serial (Some i) k (mid ++ rest) o' k' ->
  exists ns, mid = section_obs i k ns /\ serial (Some i) (k + sumN ns)%N rest o' k'.
Proof.
  induction mid as [|x mid IH]; intros Hno k rest o' k' H.
  - exists []. cbn. rewrite N.add_0_r. split; [reflexivity|exact H].
  - cbn in H. inversion H as [| |i' k0 n tr o0 k0' Htr|i' k0 tr o0 k0' Htr]; subst.
    + destruct (IH (fun kk Hin => Hno kk (or_intror Hin)) _ _ _ _ Htr) as (ns & -> & Hs).
      exists (n :: ns). cbn [section_obs sumN fold_right]. fold (sumN ns). rewrite N.add_assoc.
      split; [reflexivity|exact Hs].
    + exfalso. eapply Hno. left. reflexivity.
Qed.

(* Between the step where thread i acquires the lock (cursor k) and the step where it releases it, EVERY step
   is a Draw of thread i (no other thread steps at all, in particular none moves the cursor or draws), and the
   cursors those draws see are k, k+n1, k+n1+n2, ...; the release sees k + n1 + ... *)
Theorem section_contiguous c sch c' i k k' tr1 mid tr2 :
  exec c sch c' ->
  trace c sch = tr1 ++ (i, LAcq k) :: mid ++ (i, LRel k') :: tr2 ->
  (forall kk, ~ In (i, LRel kk) mid) ->
  exists ns, mid = section_obs i k ns
          /\ map cursor_seen mid = run_alone k ns
          /\ k' = (k + sumN ns)%N.
Proof.
  intros He Htr Hno. pose proof (exec_serial _ _ _ He) as Hser. rewrite Htr in Hser.
  destruct (serial_app_inv _ _ _ _ _ _ Hser) as (om & km & _ & H1).
  inversion H1 as [|i' k1 tr o0 k0' Htr1| |]; subst.
  destruct (serial_section i mid Hno _ _ _ _ Htr1) as (ns & -> & H2).
  exists ns. split; [reflexivity|]. split; [apply section_obs_seen|].
  inversion H2; subst. reflexivity.
Qed.
Print Assumptions section_contiguous.

Corollary section_no_foreign_step c sch c' i k k' tr1 mid tr2 :
  exec c sch c' ->
  trace c sch = tr1 ++ (i, LAcq k) :: mid ++ (i, LRel k') :: tr2 ->
  (forall kk, ~ In (i, LRel kk) mid) ->
  forall x, In x mid -> fst x = i /\ exists kd n, snd x = LDraw kd n.
Proof.
  intros He Htr Hno x Hin. destruct (section_contiguous _ _ _ _ _ _ _ _ _ He Htr Hno) as (ns & -> & _).
  eapply section_obs_shape. exact Hin.
Qed.

(* thread i's own observations *)
Definition proj (i : nat) (tr : list (nat * label)) : list label :=
  map snd (filter (fun x => Nat.eqb (fst x) i) tr).

Lemma proj_app i t1 t2 : proj i (t1 ++ t2) = proj i t1 ++ proj i t2.
Proof. unfold proj. rewrite filter_app, map_app. reflexivity. Qed.
Lemma proj_cons_eq i l t : proj i ((i, l) :: t) = l :: proj i t.
Proof. unfold proj. cbn. rewrite Nat.eqb_refl. reflexivity. Qed.
Lemma proj_cons_neq i j l t : j <> i -> proj i ((j, l) :: t) = proj i t.
Proof. intros H. unfold proj. cbn. apply Nat.eqb_neq in H. rewrite H. reflexivity. Qed.
Lemma proj_in i l tr : In (i, l) tr -> In l (proj i tr).
Proof.
  intros H. unfold proj. apply in_map_iff. exists (i, l). split; [reflexivity|].
  apply filter_In. split; [exact H|]. cbn. apply Nat.eqb_refl.
Qed.

(* what thread i has been observed doing is exactly the consumed prefix of its program *)
Theorem trace_program c sch c' : exec c sch c' ->
  forall i p, nth_error (threads c) i = Some p ->
  exists q, nth_error (threads c') i = Some q /\ p = map ev_of (proj i (trace c sch)) ++ q.
Proof.
  intros He. induction He as [c|c j c1 sch c' Hs He IH]; intros i p Hp.
  - exists p. split; [exact Hp|reflexivity].
  - rewrite (trace_cons _ _ _ _ Hs).
    destruct (cstep_thread _ _ _ Hs) as (e & t & Hn & Ht & Hev & Hlt).
    destruct (Nat.eq_dec j i) as [->|Hne].
    + rewrite Hn in Hp. injection Hp as <-.
      destruct (IH i t) as (q & Hq & Heq); [rewrite Ht; apply nth_error_set_nth_eq; exact Hlt|].
      exists q. split; [exact Hq|]. rewrite proj_cons_eq. cbn [map app]. rewrite Hev, <- Heq. reflexivity.
    + destruct (IH i p) as (q & Hq & Heq); [rewrite Ht, nth_error_set_nth_neq by exact Hne; exact Hp|].
      exists q. split; [exact Hq|]. rewrite proj_cons_neq by exact Hne. exact Heq.
Qed.
Print Assumptions trace_program.

Lemma finished_nth c i q : finished c -> nth_error (threads c) i = Some q -> q = [].
Proof. intros Hf Hq. apply nth_error_In in Hq. eapply Forall_forall in Hf; [|exact Hq]. exact Hf. Qed.

(* in a complete execution every thread has performed exactly its program, in program order *)
Theorem complete_trace_program k0 ps sch c i p :
  exec (init k0 ps) sch c -> finished c -> nth_error ps i = Some p ->
  map ev_of (proj i (trace (init k0 ps) sch)) = p.
Proof.
  intros He Hf Hp. destruct (trace_program _ _ _ He i p Hp) as (q & Hq & Heq).
  rewrite (finished_nth _ _ _ Hf Hq), app_nil_r in Heq. symmetry. exact Heq.
Qed.
Print Assumptions complete_trace_program.

Lemma take_draws_app_acq a r : take_draws (a ++ Acq :: r) = take_draws a.
Proof. induction a as [|e a IH]; [reflexivity|]. destruct e; cbn; try reflexivity. rewrite IH. reflexivity. Qed.
Lemma sections_app_acq a r : sections (a ++ Acq :: r) = sections a ++ sections (Acq :: r).
Proof.
  induction a as [|e a IH]; [reflexivity|].
  destruct e; cbn [app sections]; try exact IH. rewrite take_draws_app_acq, IH. reflexivity.
Qed.
Lemma take_draws_map ns r : take_draws (map Draw ns ++ Rel :: r) = ns.
Proof. induction ns as [|n ns IH]; cbn; [reflexivity|]. rewrite IH. reflexivity. Qed.
Lemma take_draws_map_nil ns : take_draws (map Draw ns) = ns.
Proof. induction ns as [|n ns IH]; cbn; [reflexivity|]. rewrite IH. reflexivity. Qed.
Lemma sections_map ns r : sections (map Draw ns ++ r) = sections r.
Proof. induction ns as [|n ns IH]; cbn; [reflexivity|exact IH]. Qed.
Lemma sections_decomp pre ns post :
  sections (pre ++ Acq :: map Draw ns ++ Rel :: post) = sections pre ++ ns :: sections post.
Proof.
  rewrite sections_app_acq. cbn [sections]. rewrite take_draws_map, sections_map. reflexivity.
Qed.

(* number of sections thread i has opened in a trace *)
Definition is_acq_by (i : nat) (x : nat * label) : bool :=
  Nat.eqb (fst x) i && match snd x with LAcq _ => true | _ => false end.
Definition count_acq (i : nat) (tr : list (nat * label)) : nat := length (filter (is_acq_by i) tr).

Lemma sections_proj_length i tr : length (sections (map ev_of (proj i tr))) = count_acq i tr.
Proof.
  unfold count_acq. induction tr as [|[j l] tr IH]; [reflexivity|].
  destruct (Nat.eq_dec j i) as [->|Hne].
  - rewrite proj_cons_eq. cbn [filter]. unfold is_acq_by at 1. cbn [fst snd]. rewrite Nat.eqb_refl.
    destruct l; cbn [map ev_of sections andb length]; rewrite IH; reflexivity.
  - rewrite proj_cons_neq by exact Hne. cbn [filter]. unfold is_acq_by at 1. cbn [fst snd].
    apply Nat.eqb_neq in Hne. rewrite Hne. cbn [andb]. exact IH.
Qed.

Lemma proj_section_obs i ns : forall k, map ev_of (proj i (section_obs i k ns)) = map Draw ns.
Proof.
  induction ns as [|n ns IH]; intros k; [reflexivity|].
  cbn [section_obs]. rewrite proj_cons_eq. cbn [map ev_of]. rewrite IH. reflexivity.
Qed.

(* "Every call returns what it would return alone": the block of observations between thread i's m-th Acq
   (at cursor k) and the matching Rel is exactly the m-th critical section of program i, run alone from k. *)
Theorem section_as_alone k0 ps sch c i p k k' tr1 mid tr2 :
  exec (init k0 ps) sch c -> nth_error ps i = Some p ->
  trace (init k0 ps) sch = tr1 ++ (i, LAcq k) :: mid ++ (i, LRel k') :: tr2 ->
  (forall kk, ~ In (i, LRel kk) mid) ->
  exists ns, nth_error (sections p) (count_acq i tr1) = Some ns
          /\ mid = section_obs i k ns
          /\ map cursor_seen mid = run_alone k ns
          /\ k' = (k + sumN ns)%N.
Proof.
  intros He Hp Htr Hno.
  destruct (section_contiguous _ _ _ _ _ _ _ _ _ He Htr Hno) as (ns & -> & Hseen & Hk').
  exists ns. split; [|split; [reflexivity|split; assumption]].
  destruct (trace_program _ _ _ He i p Hp) as (q & _ & Heq).
  rewrite Htr in Heq.
  rewrite proj_app, proj_cons_eq, proj_app, proj_cons_eq in Heq.
  rewrite map_app in Heq. cbn [map ev_of] in Heq. rewrite map_app in Heq. cbn [map ev_of] in Heq.
  rewrite proj_section_obs in Heq.
  rewrite <- app_assoc in Heq. cbn [app] in Heq. rewrite <- app_assoc in Heq. cbn [app] in Heq.
  rewrite Heq, sections_decomp, <- sections_proj_length.
  rewrite nth_error_app2 by lia. rewrite Nat.sub_diag. reflexivity.
Qed.
Print Assumptions section_as_alone.

Lemma take_draws_map_app ns q : take_draws (map Draw ns ++ q) = ns ++ take_draws q.
Proof. induction ns as [|n ns IH]; cbn; [reflexivity|]. rewrite IH. reflexivity. Qed.

(* the same for a critical section still in progress at the end of the execution: the draws done so far are
   contiguous, by thread i only, see run_alone k, and are a prefix of the program's m-th section;
   thread i still holds the lock and the cursor is where i alone would have left it *)
Theorem section_prefix_as_alone k0 ps sch c i p k tr1 mid :
  exec (init k0 ps) sch c -> nth_error ps i = Some p ->
  trace (init k0 ps) sch = tr1 ++ (i, LAcq k) :: mid ->
  (forall kk, ~ In (i, LRel kk) mid) ->
  exists ns more, nth_error (sections p) (count_acq i tr1) = Some (ns ++ more)
          /\ mid = section_obs i k ns
          /\ map cursor_seen mid = run_alone k ns
          /\ owner c = Some i /\ cursor c = (k + sumN ns)%N.
Proof.
  intros He Hp Htr Hno. pose proof (exec_serial _ _ _ He) as Hser. rewrite Htr in Hser.
  destruct (serial_app_inv _ _ _ _ _ _ Hser) as (om & km & _ & H1).
  inversion H1 as [|i' k2 tr o0 k0' Htr1| |]; subst.
  rewrite <- (app_nil_r mid) in Htr1.
  destruct (serial_section i mid Hno _ _ _ _ Htr1) as (ns & -> & H2).
  inversion H2 as [o1 k1 Eo Ek| | |]; subst.
  destruct (trace_program _ _ _ He i p Hp) as (q & Hq & Heq).
  rewrite Htr in Heq. rewrite proj_app, proj_cons_eq, map_app in Heq. cbn [map ev_of] in Heq.
  rewrite proj_section_obs, <- app_assoc in Heq. cbn [app] in Heq.
  exists ns, (take_draws q).
  split; [|split; [reflexivity|split; [apply section_obs_seen|split; first [reflexivity|symmetry; assumption]]]].
  rewrite Heq, sections_app_acq. cbn [sections]. rewrite take_draws_map_app, <- sections_proj_length.
  rewrite nth_error_app2 by lia. rewrite Nat.sub_diag. reflexivity.
Qed.
Print Assumptions section_prefix_as_alone.

(* ------------------------------------------------------------------------------------------ *)
(** * 4. Freshness across threads *)

(* the trace of draws: (thread, cursor before the draw, n) in execution order *)
Fixpoint draw_steps (tr : list (nat * label)) : list (nat * N * N) :=
  match tr with
  | [] => []
  | (i, LDraw k n) :: t => (i, k, n) :: draw_steps t
  | _ :: t => draw_steps t
  end.
Definition draw_trace (c : conf) (sch : list nat) : list (nat * N * N) := draw_steps (trace c sch).
Definition d_thread (d : nat * N * N) : nat := fst (fst d).
Definition d_cur (d : nat * N * N) : N := snd (fst d).
Definition d_len (d : nat * N * N) : N := snd d.
(* x is one of the generator outputs consumed by draw d: x in [cursor, cursor + n) *)
Definition in_interval (x : N) (d : nat * N * N) : Prop := (d_cur d <= x /\ x < d_cur d + d_len d)%N.

Lemma serial_draws o k tr o' k' : serial o k tr o' k' ->
  map d_cur (draw_steps tr) = run_alone k (map d_len (draw_steps tr))
  /\ k' = (k + sumN (map d_len (draw_steps tr)))%N.
Proof.
  intros H. induction H as [o k|i k tr o' k' H IH|i k n tr o' k' H IH|i k tr o' k' H IH]; cbn [draw_steps].
  - cbn. rewrite N.add_0_r. split; reflexivity.
  - exact IH.
  - destruct IH as (IH1 & IH2). cbn [map run_alone sumN fold_right]. fold (sumN (map d_len (draw_steps tr))).
    unfold d_cur at 1, d_len at 1. cbn [fst snd]. unfold d_len at 2. cbn [snd].
    rewrite IH1, IH2, N.add_assoc. split; reflexivity.
  - exact IH.
Qed.

(* all draws of all threads together, in execution order, see exactly the cursors ONE sequential generator
   would show: k, k+n1, k+n1+n2, ... ; the final cursor is the initial one plus everything drawn *)
Theorem draws_global_serial c sch c' : exec c sch c' ->
  map d_cur (draw_trace c sch) = run_alone (cursor c) (map d_len (draw_trace c sch))
  /\ cursor c' = (cursor c + sumN (map d_len (draw_trace c sch)))%N.
Proof. intros He. eapply serial_draws. apply exec_serial. exact He. Qed.
Print Assumptions draws_global_serial.

Lemma run_alone_ge ns : forall k b kb, nth_error (run_alone k ns) b = Some kb -> (k <= kb)%N.
Proof.
  induction ns as [|n ns IH]; intros k b kb H; destruct b as [|b]; cbn in H; try discriminate.
  - injection H as <-. lia.
  - apply IH in H. lia.
Qed.

Lemma run_alone_sep ns : forall k a b ka na kb, a < b ->
  nth_error (run_alone k ns) a = Some ka -> nth_error ns a = Some na ->
  nth_error (run_alone k ns) b = Some kb -> (ka + na <= kb)%N.
Proof.
  induction ns as [|n ns IH]; intros k a b ka na kb Hab Ha Hna Hb;
    destruct a as [|a]; destruct b as [|b]; cbn in Ha, Hna, Hb; try discriminate; try lia.
  - injection Ha as <-. injection Hna as <-. eapply run_alone_ge. exact Hb.
  - eapply IH; [|exact Ha|exact Hna|exact Hb]. lia.
Qed.

Lemma draw_steps_in tr i k n : In (i, k, n) (draw_steps tr) -> In (i, LDraw k n) tr.
Proof.
  induction tr as [|[j l] tr IH]; cbn [draw_steps]; [intros []|].
  destruct l as [k1|k1|k1 n1]; intros H; try (right; apply IH; exact H).
  destruct H as [H|H]; [injection H as -> -> ->; left; reflexivity|right; apply IH; exact H].
Qed.

Lemma trace_thread_exists c sch c' : exec c sch c' ->
  forall i l, In (i, l) (trace c sch) -> i < length (threads c).
Proof.
  intros He. induction He as [c|c j c1 sch c' Hs He IH]; intros i l Hin; [contradiction|].
  rewrite (trace_cons _ _ _ _ Hs) in Hin.
  destruct (cstep_thread _ _ _ Hs) as (e & t & Hn & Ht & Hev & Hlt).
  destruct Hin as [Hin|Hin]; [injection Hin as -> _; exact Hlt|].
  apply IH in Hin. rewrite Ht, set_nth_length in Hin. exact Hin.
Qed.

(* every draw observed for thread i is a Draw of program i (same size) *)
Theorem trace_draw_in_program k0 ps sch c i k n : exec (init k0 ps) sch c ->
  In (i, LDraw k n) (trace (init k0 ps) sch) ->
  exists p, nth_error ps i = Some p /\ In (Draw n) p.
Proof.
  intros He Hin. pose proof (trace_thread_exists _ _ _ He _ _ Hin) as Hlt. cbn [init threads] in Hlt.
  destruct (nth_error ps i) as [p|] eqn:Ep; [|apply nth_error_None in Ep; lia].
  exists p. split; [reflexivity|].
  destruct (trace_program _ _ _ He i p Ep) as (q & _ & ->).
  apply in_or_app. left. apply proj_in in Hin. apply (in_map ev_of) in Hin. exact Hin.
Qed.

(* hypothesis of this part: every draw asks for at least one byte *)
Definition pos_draws (ps : list program) : Prop := forall p n, In p ps -> In (Draw n) p -> (0 < n)%N.

(* In any execution from the initial configuration, of two Draw steps (of any threads) the earlier one's
   interval [cursor, cursor+n) is non-empty and ends at or before the start of the later one. *)
Theorem draw_intervals_disjoint k0 ps sch c a b da db :
  pos_draws ps -> exec (init k0 ps) sch c -> a < b ->
  nth_error (draw_trace (init k0 ps) sch) a = Some da ->
  nth_error (draw_trace (init k0 ps) sch) b = Some db ->
  (0 < d_len da)%N /\ (0 < d_len db)%N /\ (d_cur da + d_len da <= d_cur db)%N.
Proof.
  intros Hpos He Hab Ha Hb.
  assert (Hp : forall x d, nth_error (draw_trace (init k0 ps) sch) x = Some d -> (0 < d_len d)%N).
  { intros x [[i k] n] Hx. apply nth_error_In in Hx. apply draw_steps_in in Hx.
    destruct (trace_draw_in_program _ _ _ _ _ _ _ He Hx) as (p & Hp & Hin).
    cbn. eapply Hpos; [eapply nth_error_In; exact Hp|exact Hin]. }
  split; [eapply Hp; exact Ha|]. split; [eapply Hp; exact Hb|].
  destruct (draws_global_serial _ _ _ He) as (Hser & _). cbn [init cursor] in Hser.
  eapply (run_alone_sep (map d_len (draw_trace (init k0 ps) sch)) k0 a b); [exact Hab| | |].
  - rewrite <- Hser. apply map_nth_error. exact Ha.
  - apply map_nth_error. exact Ha.
  - rewrite <- Hser. apply map_nth_error. exact Hb.
Qed.
Print Assumptions draw_intervals_disjoint.

(* hence the cursor is strictly increasing along the draws ... *)
Corollary draw_cursor_strictly_increasing k0 ps sch c a b da db :
  pos_draws ps -> exec (init k0 ps) sch c -> a < b ->
  nth_error (draw_trace (init k0 ps) sch) a = Some da ->
  nth_error (draw_trace (init k0 ps) sch) b = Some db ->
  (d_cur da < d_cur db)%N.
Proof.
  intros Hpos He Hab Ha Hb.
  destruct (draw_intervals_disjoint _ _ _ _ _ _ _ _ Hpos He Hab Ha Hb) as (H1 & H2 & H3). lia.
Qed.

(* ... and two different Draw steps never consume the same generator output *)
Corollary draws_never_overlap k0 ps sch c a b da db :
  pos_draws ps -> exec (init k0 ps) sch c -> a <> b ->
  nth_error (draw_trace (init k0 ps) sch) a = Some da ->
  nth_error (draw_trace (init k0 ps) sch) b = Some db ->
  forall x, ~ (in_interval x da /\ in_interval x db).
Proof.
  intros Hpos He Hab Ha Hb x ((A1 & A2) & (B1 & B2)).
  destruct (Nat.lt_total a b) as [Hlt|[Heq|Hgt]]; [|contradiction|].
  - destruct (draw_intervals_disjoint _ _ _ _ _ _ _ _ Hpos He Hlt Ha Hb) as (_ & _ & H3). lia.
  - destruct (draw_intervals_disjoint _ _ _ _ _ _ _ _ Hpos He Hgt Hb Ha) as (_ & _ & H3). lia.
Qed.
Print Assumptions draws_never_overlap.

(* without positivity the intervals are still ordered end-to-start (an empty draw consumes nothing) *)
Theorem draw_intervals_ordered c sch c' a b da db :
  exec c sch c' -> a < b ->
  nth_error (draw_trace c sch) a = Some da -> nth_error (draw_trace c sch) b = Some db ->
  (d_cur da + d_len da <= d_cur db)%N.
Proof.
  intros He Hab Ha Hb. destruct (draws_global_serial _ _ _ He) as (Hser & _).
  eapply (run_alone_sep (map d_len (draw_trace c sch)) (cursor c) a b); [exact Hab| | |].
  - rewrite <- Hser. apply map_nth_error. exact Ha.
  - apply map_nth_error. exact Ha.
  - rewrite <- Hser. apply map_nth_error. exact Hb.
Qed.

(* positivity is not vacuous: a zero-length draw makes two draws start at the same cursor *)
Example zero_draw_same_cursor :
  draw_trace (init 5 [[Acq; Draw 0; Draw 2; Rel]]) [0; 0; 0; 0] = [(0, 5%N, 0%N); (0, 5%N, 2%N)].
Proof. reflexivity. Qed.

(* ------------------------------------------------------------------------------------------ *)
(** * Instances on the two-thread example of ConcProofs1 (hypotheses satisfiable, conclusions non-trivial) *)

Example ex_sections : map sections ex_ps = [[[2]; [1]]; [[3]]]%N.
Proof. reflexivity. Qed.

Example ex_pos : pos_draws ex_ps.
Proof.
  intros p n Hp Hn. cbn in Hp. destruct Hp as [<-|[<-|[]]]; cbn in Hn;
    repeat (destruct Hn as [Hn|Hn]; [try discriminate; injection Hn as <-; reflexivity|]); contradiction.
Qed.

Example ex_draw_trace : draw_trace (init 10 ex_ps) ex_sch = [(0, 10%N, 2%N); (1, 12%N, 3%N); (0, 15%N, 1%N)].
Proof. reflexivity. Qed.

(* thread 0's second call (cursor 15 at acquisition) is its second section [1], seen as run alone from 15 *)
Example ex_section_as_alone :
  exists ns, nth_error (sections [Acq; Draw 2; Rel; Acq; Draw 1; Rel]) 1 = Some ns
          /\ [(0, LDraw 15 1)] = section_obs 0 15 ns
          /\ map cursor_seen [(0, LDraw 15 1)] = run_alone 15 ns
          /\ 16%N = (15 + sumN ns)%N.
Proof.
  destruct two_threads_complete as (He & _ & _ & Htr).
  apply (section_as_alone 10 ex_ps ex_sch _ 0 [Acq; Draw 2; Rel; Acq; Draw 1; Rel] 15%N 16%N
           [(0, LAcq 10); (0, LDraw 10 2); (0, LRel 12); (1, LAcq 12); (1, LDraw 12 3); (1, LRel 15)]
           [(0, LDraw 15 1)] [] He eq_refl Htr).
  intros kk [H|[]]. discriminate.
Qed.

(* the three draws of the example have pairwise disjoint intervals [10,12) [12,15) [15,16) *)
Example ex_disjoint : forall a b da db, a <> b ->
  nth_error (draw_trace (init 10 ex_ps) ex_sch) a = Some da ->
  nth_error (draw_trace (init 10 ex_ps) ex_sch) b = Some db ->
  forall x, ~ (in_interval x da /\ in_interval x db).
Proof.
  destruct two_threads_complete as (He & _). intros a b da db.
  apply (draws_never_overlap 10 ex_ps ex_sch _ a b da db ex_pos He).
Qed.

(* serial is not vacuous: an interleaved trace (thread 1 drawing inside thread 0's section) is not serial,
   so exec_serial really excludes it *)
Example interleaved_not_serial o' k' :
  ~ serial None 0 [(0, LAcq 0); (1, LDraw 0 3); (0, LDraw 3 2); (0, LRel 5)] o' k'.
Proof. intros H. inversion H as [|i k tr o0 k0' H1| |]; subst. inversion H1. Qed.

Print Assumptions section_no_foreign_step.
Print Assumptions trace_draw_in_program.
Print Assumptions draw_cursor_strictly_increasing.
Print Assumptions draw_intervals_ordered.
