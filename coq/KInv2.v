(* Part 2: C10 (a failed operation leaves the whole state unchanged) and C13 (round trips are the identity),
   with the refutation of C10 on the pinned model. *)
From Coq Require Import List NArith Bool Arith Lia.
From CC Require Import Policy Structure Keys KeysMachine RefreshProofs DisabledProofs KInv1.
Import ListNotations.
Local Open Scope N_scope.

(* ---------------------------------------------------------------- C10 *)
(* Holds in every state, reachable or not: the whole state (MSK with structure and user list, every USK,
   the MPK snapshots, the encapsulations and the counter) is the same after a call that reports an error. *)
Theorem failed_step_unchanged_any : forall s o, snd (step fixed s o) = ObErr -> fst (step fixed s o) = s.
Proof.
  intros s o. destruct o; cbn [step].
  - destruct (update_msk fixed empty_msk 0) as [[r m'] c]. cbn. discriminate.
  - destruct (add_anarchy d (m_st (st_msk s))); cbn; try reflexivity; discriminate.
  - destruct (add_hierarchy d (m_st (st_msk s))); cbn; try reflexivity; discriminate.
  - destruct (del_dimension d (m_st (st_msk s))); cbn; try reflexivity; discriminate.
  - destruct (add_attribute (fx_ids fixed) d n hyb after (m_st (st_msk s))); cbn; try reflexivity; discriminate.
  - destruct (del_attribute d n (m_st (st_msk s))); cbn; try reflexivity; discriminate.
  - destruct (rename_attribute d n n' (m_st (st_msk s))); cbn; try reflexivity; discriminate.
  - destruct (disable_attribute d n (m_st (st_msk s))); cbn; try reflexivity; discriminate.
  - rewrite update_msk_fixed. destruct (upd_loop _ _ _) as [[secs c]|]; cbn; [discriminate|]. intros _. apply with_msk_ctr_id.
  - cbn. discriminate.
  - destruct (usk_rights fixed (m_st (st_msk s)) p) as [rs|]; [|reflexivity]. unfold rekey.
    destruct (forallb _ rs); [|cbn; intros _; apply with_msk_ctr_id].
    destruct (rekey_loop fixed rs (m_secrets (st_msk s)) (st_ctr s)). cbn. discriminate.
  - destruct (usk_rights fixed (m_st (st_msk s)) p) as [rs|]; [|reflexivity]. cbn. discriminate.
  - destruct (usk_rights fixed (m_st (st_msk s)) p) as [rs|]; [|reflexivity]. unfold keygen.
    destruct (latest_all (st_msk s) rs); [cbn; discriminate|cbn; intros _; apply with_msk_ctr_id].
  - destruct (nth_error (st_usks s) k) as [u|] eqn:En; [|cbn; discriminate]. rewrite refresh_fixed.
    destruct (u_id u) as [id|].
    + destruct (negb _); [|cbn; discriminate]. cbn. intros _. rewrite (set_nth_same _ _ _ En). destruct s; reflexivity.
    + cbn. intros _. rewrite (set_nth_same _ _ _ En). destruct s; reflexivity.
  - destruct (nth_error (st_mpks s) j) as [pk|]; [|reflexivity]. destruct (enc_rights fixed (p_st pk) p) as [rs|]; [|reflexivity].
    destruct (encaps_rights pk rs (st_ctr s)) as [[x|] c]; [cbn; discriminate|reflexivity].
  - destruct (nth_error (st_usks s) k) as [u|]; [|reflexivity]. destruct (nth_error (st_encs s) e); [|reflexivity]. destruct (u_chains u); reflexivity.
  - destruct (nth_error (st_mpks s) j) as [pk|]; [|reflexivity]. destruct (nth_error (st_encs s) e) as [x|]; [|reflexivity].
    destruct (recaps fixed (st_msk s) pk x (st_ctr s)) as [[x'|] c]; [cbn; discriminate|reflexivity].
  - reflexivity.
Qed.

Theorem failed_step_unchanged : forall s o, reach s -> snd (step fixed s o) = ObErr -> fst (step fixed s o) = s.
Proof. intros s o _. apply failed_step_unchanged_any. Qed.
Print Assumptions failed_step_unchanged.

(* the other non-success observations (bad index, dead key, decapsulation results) do not change the state either *)
Theorem non_ok_step_unchanged : forall s o, snd (step fixed s o) <> ObOk -> fst (step fixed s o) = s.
Proof.
  intros s o H. destruct (snd (step fixed s o)) eqn:E; try contradiction; try (apply failed_step_unchanged_any; exact E);
    destruct o; cbn [step] in *; unfold edit in *; cbn [snd] in E; try discriminate;
    repeat match goal with
    | |- context [match ?x with _ => _ end] => destruct x eqn:?; cbn in *; try discriminate; try reflexivity
    | H : context [match ?x with _ => _ end] |- _ => destruct x eqn:?; cbn in *; try discriminate; try reflexivity
    end.
Qed.

(* non-vacuity: failing calls exist in reachable states, for several operations *)
Definition hist_fail : list op := [OSetup; OAddAnarchy sD; OAddAttr sD sa false None; OUpdate; OKeygen sDa].
Example failed_step_nonvacuous :
  let s := run_state fixed init hist_fail in
  snd (step fixed s (ORekey sDb)) = ObErr /\ snd (step fixed s (OKeygen sDb)) = ObErr /\
  snd (step fixed s (OEncaps 0 sDa)) = ObErr /\ snd (step fixed s (OAddAnarchy sD)) = ObErr /\
  snd (step fixed (fst (step fixed (fst (step fixed (fst (step fixed s (OAddAttr sD sb false None))) (ODisable sD sb))) OMpk)) OUpdate) = ObErr.
Proof. vm_compute. repeat split; reflexivity. Qed.

(* C10 is false on the pinned tree *)
Definition hist_pinned_upd : list op := [OSetup; OAddAnarchy sD; OAddAttr sD sa false None; OUpdate; OAddAttr sD sb false None; ODisable sD sb].
Definition hist_pinned_ref : list op := [OSetup; OAddAnarchy sD; OAddAttr sD sa false None; OUpdate; OKeygen sDa; OSetup].
Theorem C10_pinned_refuted :
  (exists ops o, snd (step pinned (run_state pinned init ops) o) = ObErr /\
                 fst (step pinned (run_state pinned init ops) o) <> run_state pinned init ops /\
                 m_secrets (st_msk (run_state pinned init ops)) <> [] /\
                 m_secrets (st_msk (fst (step pinned (run_state pinned init ops) o))) = []) /\
  (exists m u keep, fst (refresh pinned m u keep) = RErr /\ u_id u <> None /\ u_id (snd (refresh pinned m u keep)) = None).
Proof.
  split.
  - exists hist_pinned_upd, OUpdate. split; [vm_compute; reflexivity|]. split; [|split].
    + intros H. apply (f_equal (fun s => length (m_secrets (st_msk s)))) in H. vm_compute in H. discriminate.
    + vm_compute. discriminate.
    + vm_compute. reflexivity.
  - (* a key whose id is not registered in the master key (e.g. a key of another authority): the pinned refresh wipes its id *)
    exists {| m_users := []; m_secrets := [([], [(true, {| tok := 0; s_hyb := false |})])]; m_st := empty_structure |},
           {| u_id := Some 7; u_chains := [([], [{| tok := 0; s_hyb := false |}])] |}, true.
    vm_compute. repeat split; discriminate.
Qed.
Print Assumptions C10_pinned_refuted.
(* the same update leaves the repaired model untouched *)
Example C10_fixed_same_history :
  snd (step fixed (run_state fixed init hist_pinned_upd) OUpdate) = ObErr /\
  fst (step fixed (run_state fixed init hist_pinned_upd) OUpdate) = run_state fixed init hist_pinned_upd.
Proof. split; [vm_compute; reflexivity|apply failed_step_unchanged_any; vm_compute; reflexivity]. Qed.

(* ---------------------------------------------------------------- C13 at the state-machine level *)
Lemma run_app fx : forall a b s,
  run fx s (a ++ b) = let '(s1, o1) := run fx s a in let '(s2, o2) := run fx s1 b in (s2, o1 ++ o2).
Proof.
  induction a as [|o a IH]; intros b s; cbn [run app].
  - destruct (run fx s b). reflexivity.
  - destruct (step fx s o) as [s' ob]. rewrite IH. destruct (run fx s' a) as [s1 o1]. destruct (run fx s1 b) as [s2 o2]. reflexivity.
Qed.

Theorem roundtrip_identity fx s ops1 o ops2 :
  fst (run fx s (ops1 ++ ORoundTrip o :: ops2)) = fst (run fx s (ops1 ++ ops2)) /\
  exists obs1 obs2, length obs1 = length ops1 /\
    snd (run fx s (ops1 ++ ops2)) = obs1 ++ obs2 /\
    snd (run fx s (ops1 ++ ORoundTrip o :: ops2)) = obs1 ++ ObOk :: obs2.
Proof.
  rewrite !run_app. destruct (run fx s ops1) as [s1 o1] eqn:E1. cbn [run step].
  destruct (run fx s1 ops2) as [s2 o2]. split; [reflexivity|]. exists o1, o2. repeat split.
  clear - E1. revert s s1 o1 E1. induction ops1 as [|x t IH]; intros s s1 o1 E1; cbn [run] in E1.
  - inversion E1. reflexivity.
  - destruct (step fx s x) as [s' ob]. destruct (run fx s' t) as [s'' obs] eqn:E2. inversion E1; subst. cbn. f_equal. eapply IH. exact E2.
Qed.
Print Assumptions roundtrip_identity.

Lemma run_length fx : forall ops s, length (snd (run fx s ops)) = length ops.
Proof.
  induction ops as [|o t IH]; intros s; [reflexivity|]. cbn [run]. destruct (step fx s o) as [s' b]. specialize (IH s').
  destruct (run fx s' t). cbn in *. rewrite IH. reflexivity.
Qed.

(* any number of round trips anywhere: erasing them from a history does not change the final state *)
Fixpoint erase_rt (ops : list op) : list op :=
  match ops with [] => [] | ORoundTrip _ :: t => erase_rt t | o :: t => o :: erase_rt t end.
Theorem roundtrips_erasable fx : forall ops s, run_state fx s (erase_rt ops) = run_state fx s ops.
Proof. induction ops as [|o t IH]; intros s; [reflexivity|]. destruct o; cbn [erase_rt]; rewrite ?run_state_cons; apply IH. Qed.

Example roundtrip_nonvacuous :
  snd (run fixed init (firstn 6 hist1 ++ ORoundTrip RefMsk :: skipn 6 hist1)) =
  firstn 6 (snd (run fixed init hist1)) ++ ObOk :: skipn 6 (snd (run fixed init hist1)) /\
  run_state fixed init (firstn 6 hist1 ++ ORoundTrip (RefUsk 0) :: skipn 6 hist1) = run_state fixed init hist1.
Proof. vm_compute. split; reflexivity. Qed.
