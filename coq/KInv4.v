(* Part 4 (C06, structure side): over all histories of the state machine in [fixed] mode
   A. the access structure stays well formed ([wfb]: unique dimension names, unique attribute names per
      dimension, unique ids, every id below [next_id]);
   B. disabling an attribute disables its id, and no later edit re-enables an id ([no_reenable]):
      ids are never reused and no edit switches [a_enc] back on. *)
From Coq Require Import List NArith Bool Arith Lia Permutation.
From CC Require Import Policy Structure Keys KeysMachine SelProofs GoodProofs AssocLemmas CoverProofs1 HierProofs WfProofs
  RefreshProofs DisabledProofs KInv1 KInv2 KInv3.
Import ListNotations.
Local Open Scope N_scope.

(* ---------------------------------------------------------------- association lists: first binding of a key *)
Lemma a_split {A} n (a : A) : forall l, alookup n l = Some a ->
  exists pre post, l = pre ++ (n, a) :: post /\ aremove n l = pre ++ post /\
    (forall v, areplace n v l = pre ++ (n, v) :: post) /\ (forall n', arename n n' l = pre ++ (n', a) :: post).
Proof.
  induction l as [|[k x] l IH]; cbn; intros H; [discriminate|]. destruct (str_eqb n k) eqn:E.
  - apply str_eqb_eq in E. subst k. inversion H; subst. exists [], l. repeat split.
  - destruct (IH H) as (pre & post & El & E1 & E2 & E3). exists ((k, x) :: pre), post. cbn. rewrite E1, <- El. repeat split.
    + intros v. rewrite E2. reflexivity.
    + intros n'. rewrite E3. reflexivity.
Qed.

Lemma amem_alookup {A} k (l : list (str * A)) : amem k l = true -> exists v, alookup k l = Some v.
Proof. unfold amem. destruct (alookup k l) as [v|]; [exists v; reflexivity|discriminate]. Qed.

Lemma alookup_areplace_same {A} k (v v0 : A) : forall l, alookup k l = Some v0 -> alookup k (areplace k v l) = Some v.
Proof.
  induction l as [|[k' x] l IH]; cbn; intros H; [discriminate|]. destruct (str_eqb k k') eqn:E; cbn.
  - rewrite str_eqb_refl. reflexivity.
  - rewrite E. apply IH. exact H.
Qed.

Lemma areplace_In_strong {A} k (v : A) : forall l x, NoDup (map fst l) -> In x (areplace k v l) -> x = (k, v) \/ (fst x <> k /\ In x l).
Proof.
  induction l as [|[k' v'] l IH]; cbn; intros x Hnd H; [destruct H|]. inversion Hnd as [|? ? Hk Hnd']; subst.
  destruct (str_eqb k k') eqn:E.
  - apply str_eqb_eq in E. subst k'. destruct H as [H|H]; [left; symmetry; exact H|right]. split; [|right; exact H].
    intros <-. apply Hk. apply in_map. exact H.
  - apply str_eqb_neq in E. destruct H as [H|H]; [right; subst x; split; [cbn; congruence|left; reflexivity]|].
    destruct (IH x Hnd' H) as [H1|[H1 H2]]; [left; exact H1|right; split; [exact H1|right; exact H2]].
Qed.

Lemma NoDup_map_remove {A B} (f : A -> B) pre x post : NoDup (map f (pre ++ x :: post)) -> NoDup (map f (pre ++ post)).
Proof. rewrite !map_app. cbn. apply NoDup_remove_1. Qed.
Lemma incl_map_remove {A B} (f : A -> B) pre x post : incl (map f (pre ++ post)) (map f (pre ++ x :: post)).
Proof. intros i Hi. rewrite map_app, in_app_iff in Hi. rewrite map_app, in_app_iff. cbn. tauto. Qed.
Lemma NoDup_map_inj {A B} (f : A -> B) : forall l x y, NoDup (map f l) -> In x l -> In y l -> f x = f y -> x = y.
Proof.
  induction l as [|z l IH]; cbn; intros x y Hnd Hx Hy E; [destruct Hx|]. inversion Hnd as [|? ? Hz Hnd']; subst.
  destruct Hx as [->|Hx], Hy as [->|Hy]; [reflexivity| | |apply IH; assumption].
  - exfalso. apply Hz. rewrite E. apply in_map. exact Hy.
  - exfalso. apply Hz. rewrite <- E. apply in_map. exact Hx.
Qed.

(* ---------------------------------------------------------------- A. wfb is preserved by every edit *)
Definition idf (na : str * attribute) : N := a_id (snd na).
Lemma dim_ids_idf dm : dim_ids dm = map idf (attrs_of dm). Proof. reflexivity. Qed.

Lemma wfb_empty : wfb empty_structure.
Proof. split; [split; [constructor|split; [intros ? ? []|constructor]]|intros ? []]. Qed.

Lemma add_dim_wfb mk d st st' : (forall l, attrs_of (mk l) = l) -> wfb st -> add_dim mk d st = Ok st' -> wfb st'.
Proof.
  intros Hmk ((Hn & Hnames & Hids) & Hb) H. unfold add_dim in H. destruct (amem d (dims st)) eqn:Em; [discriminate|]. inversion H; subst; clear H.
  assert (Hall : all_ids (map snd (dims st ++ [(d, mk [])])) = all_ids (map snd (dims st))).
  { rewrite map_app, all_ids_app. cbn [map snd all_ids flat_map]. rewrite dim_ids_idf, Hmk. cbn. apply app_nil_r. }
  split; [split; [|split]|]; cbn [dims next_id].
  - rewrite map_app. cbn. apply NoDup_app_intro; [exact Hn|constructor; [intros []|constructor]|].
    intros x Hx [<-|[]]. apply amem_false in Em. contradiction.
  - intros k dm Hin. apply in_app_iff in Hin. destruct Hin as [Hin|[E|[]]]; [eapply Hnames; exact Hin|]. inversion E; subst. rewrite Hmk. constructor.
  - rewrite Hall. exact Hids.
  - intros i Hi. rewrite Hall in Hi. apply Hb. exact Hi.
Qed.

Lemma del_dimension_wfb d st st' : wfb st -> del_dimension d st = Ok st' -> wfb st'.
Proof.
  intros ((Hn & Hnames & Hids) & Hb) H. unfold del_dimension in H. destruct (amem d (dims st)) eqn:Em; [|discriminate]. inversion H; subst; clear H.
  destruct (amem_alookup _ _ Em) as (dm & Ed). destruct (a_split _ _ _ Ed) as (pre & post & El & Er & _ & _).
  assert (Hall : all_ids (map snd (dims st)) = all_ids (map snd pre) ++ dim_ids dm ++ all_ids (map snd post)).
  { rewrite El, map_app, all_ids_app. reflexivity. }
  split; [split; [|split]|]; cbn [dims next_id]; rewrite Er.
  - rewrite El in Hn. eapply NoDup_map_remove. exact Hn.
  - intros k v Hin. eapply (Hnames k v). rewrite El. apply in_app_iff in Hin. apply in_app_iff. cbn. tauto.
  - rewrite map_app, all_ids_app. rewrite Hall in Hids.
    apply (NoDup_replace_middle _ (dim_ids dm) [] _ Hids); [constructor|intros ? []].
  - intros i Hi. apply Hb. rewrite Hall. rewrite map_app, all_ids_app, in_app_iff in Hi. rewrite !in_app_iff. tauto.
Qed.

(* generic: replace one dimension by one with distinct names and whose ids are distinct ids of the old dimension *)
Lemma edit_dim_wfb d f st st' :
  (forall dm dm', f dm = Some dm' -> NoDup (names_of (attrs_of dm)) -> NoDup (dim_ids dm) ->
     NoDup (names_of (attrs_of dm')) /\ NoDup (dim_ids dm') /\ incl (dim_ids dm') (dim_ids dm)) ->
  wfb st -> edit_dim d f st = Ok st' -> wfb st'.
Proof.
  intros Hf Hwf H. unfold edit_dim in H. destruct (alookup d (dims st)) as [dm|] eqn:Ed; [|discriminate].
  destruct (f dm) as [dm'|] eqn:Ef; [|discriminate]. inversion H; subst; clear H.
  pose proof Hwf as ((Hn & Hnames & Hids) & Hb).
  destruct (Hf dm dm' Ef) as (H1 & H2 & H3).
  - eapply Hnames. apply alookup_In. exact Ed.
  - eapply all_ids_dim_NoDup; [exact Hids|]. eapply dims_alookup_In; exact Ed.
  - apply (wfb_replace st d dm dm' false Hwf Ed H1 H2). intros i Hi. left. apply H3. exact Hi.
Qed.

Lemma del_attribute_wfb d n st st' : wfb st -> del_attribute d n st = Ok st' -> wfb st'.
Proof.
  apply edit_dim_wfb. intros dm dm' H Hnn Hni. apply map_dim_attrs in H. destruct (amem n (attrs_of dm)) eqn:Em; [|discriminate].
  destruct (amem_alookup _ _ Em) as (a & Ea). destruct (a_split _ _ _ Ea) as (pre & post & El & Er & _ & _).
  injection H as E. rewrite !dim_ids_idf. unfold names_of in *. rewrite dim_ids_idf in Hni. rewrite <- E, Er. rewrite El in Hnn, Hni.
  split; [eapply NoDup_map_remove; exact Hnn|]. split; [eapply NoDup_map_remove; exact Hni|]. rewrite El. apply incl_map_remove.
Qed.

Lemma disable_attribute_wfb d n st st' : wfb st -> disable_attribute d n st = Ok st' -> wfb st'.
Proof.
  apply edit_dim_wfb. intros dm dm' H Hnn Hni. apply map_dim_attrs in H. destruct (alookup n (attrs_of dm)) as [a|] eqn:Ea; [|discriminate].
  destruct (a_split _ _ _ Ea) as (pre & post & El & _ & Er & _). injection H as E. rewrite Er in E.
  assert (E1 : names_of (attrs_of dm') = names_of (attrs_of dm)).
  { unfold names_of. rewrite <- E, El, !map_app. reflexivity. }
  assert (E2 : dim_ids dm' = dim_ids dm).
  { rewrite !dim_ids_idf, <- E, El, !map_app. reflexivity. }
  rewrite E1, E2. split; [exact Hnn|]. split; [exact Hni|apply incl_refl].
Qed.

Lemma rename_attribute_wfb d n n' st st' : wfb st -> rename_attribute d n n' st = Ok st' -> wfb st'.
Proof.
  apply edit_dim_wfb. intros dm dm' H Hnn Hni. rewrite !dim_ids_idf in *. unfold names_of in *. destruct dm as [l|l]; cbn [attrs_of] in *.
  - destruct (amem n' l) eqn:Em'; [discriminate|]. destruct (alookup n l) as [a|] eqn:Ea; [|discriminate]. inversion H; subst; clear H. cbn [attrs_of].
    destruct (a_split _ _ _ Ea) as (pre & post & El & Er & _ & _). rewrite Er.
    assert (Hp : Permutation (map idf ((pre ++ post) ++ [(n', a)])) (map idf l)).
    { rewrite El, !map_app, <- app_assoc. apply Permutation_app_head. cbn. apply Permutation_sym, Permutation_cons_append. }
    split; [|split].
    + rewrite map_app. cbn. eapply Permutation_NoDup; [apply Permutation_cons_append|]. constructor.
      * apply amem_false in Em'. intros Hin. apply Em'. rewrite El. eapply incl_map_remove. exact Hin.
      * rewrite El in Hnn. eapply NoDup_map_remove. exact Hnn.
    + eapply Permutation_NoDup; [apply Permutation_sym; exact Hp|exact Hni].
    + intros i Hi. eapply Permutation_in; [exact Hp|exact Hi].
  - destruct (amem n l) eqn:Em; [|discriminate]. destruct (amem n' l) eqn:Em'; [discriminate|]. inversion H; subst; clear H. cbn [attrs_of].
    destruct (amem_alookup _ _ Em) as (a & Ea). destruct (a_split _ _ _ Ea) as (pre & post & El & _ & _ & Er). rewrite Er.
    assert (E2 : map idf (pre ++ (n', a) :: post) = map idf l) by (rewrite El, !map_app; reflexivity).
    rewrite E2. split; [|split; [exact Hni|apply incl_refl]].
    rewrite map_app. cbn. eapply Permutation_NoDup; [apply Permutation_middle|]. rewrite <- map_app. constructor.
    + apply amem_false in Em'. intros Hin. apply Em'. rewrite El. eapply incl_map_remove. exact Hin.
    + rewrite El in Hnn. eapply NoDup_map_remove. exact Hnn.
Qed.

(* lifted to the state machine, OSetup included (it restarts from the empty structure) *)
Theorem wfb_step s o : wfb (m_st (st_msk s)) -> wfb (m_st (st_msk (fst (step fixed s o)))).
Proof.
  intros Hw. destruct o; cbn [step]; unfold edit;
    try (match goal with |- context [match ?r with Ok _ => _ | _ => _ end] => destruct r eqn:E end; cbn; try exact Hw).
  - pose proof (update_msk_st empty_msk 0) as Hs. destruct (update_msk fixed empty_msk 0) as [[r m'] c]. cbn in Hs |- *. rewrite Hs. exact wfb_empty.
  - eapply add_dim_wfb; [|exact Hw|exact E]. reflexivity.
  - eapply add_dim_wfb; [|exact Hw|exact E]. reflexivity.
  - eapply del_dimension_wfb; [exact Hw|exact E].
  - eapply add_attribute_wfb; [exact Hw|exact E].
  - eapply del_attribute_wfb; [exact Hw|exact E].
  - eapply rename_attribute_wfb; [exact Hw|exact E].
  - eapply disable_attribute_wfb; [exact Hw|exact E].
  - pose proof (update_msk_st (st_msk s) (st_ctr s)) as H. destruct (update_msk fixed (st_msk s) (st_ctr s)) as [[r m'] c]. cbn in H.
    destruct r; cbn; rewrite H; exact Hw.
  - exact Hw.
  - destruct (usk_rights fixed (m_st (st_msk s)) p) as [rs|]; [|exact Hw]. unfold rekey.
    destruct (forallb _ rs); [|cbn; exact Hw]. destruct (rekey_loop fixed rs _ _). cbn. exact Hw.
  - destruct (usk_rights fixed (m_st (st_msk s)) p) as [rs|]; cbn; exact Hw.
  - destruct (usk_rights fixed (m_st (st_msk s)) p) as [rs|]; [|exact Hw]. unfold keygen.
    destruct (latest_all (st_msk s) rs); cbn; exact Hw.
  - destruct (nth_error (st_usks s) k) as [u|]; [|exact Hw]. destruct (refresh fixed (st_msk s) u keep). cbn. exact Hw.
  - destruct (nth_error (st_mpks s) j) as [pk|]; [|exact Hw]. destruct (enc_rights fixed (p_st pk) p) as [rs|]; [|exact Hw].
    destruct (encaps_rights pk rs (st_ctr s)) as [[x|] c]; cbn; exact Hw.
  - destruct (nth_error (st_usks s) k) as [u|]; [|exact Hw]. destruct (nth_error (st_encs s) e); [|exact Hw]. destruct (u_chains u); exact Hw.
  - destruct (nth_error (st_mpks s) j) as [pk|]; [|exact Hw]. destruct (nth_error (st_encs s) e) as [x|]; [|exact Hw].
    destruct (recaps fixed (st_msk s) pk x (st_ctr s)) as [[x'|] c]; cbn; exact Hw.
  - exact Hw.
Qed.

Theorem wfb_reach : forall s, reach s -> wfb (m_st (st_msk s)).
Proof. apply (reach_ind (fun s => wfb (m_st (st_msk s)))); [exact wfb_empty|intros s o _; apply wfb_step]. Qed.
Print Assumptions wfb_reach.

(* ---------------------------------------------------------------- B. ids: unique, disabled by disable, never re-enabled *)
Definition attr_id_of (st : structure) (d n : str) : option N :=
  option_map a_id (get_attribute st {| qdim := d; qname := n |}).

(* in a well-formed structure an id names exactly one attribute *)
Lemma wfb_id_unique st d1 dm1 n1 a1 d2 dm2 n2 a2 : wfb st ->
  In (d1, dm1) (dims st) -> In (n1, a1) (attrs_of dm1) -> In (d2, dm2) (dims st) -> In (n2, a2) (attrs_of dm2) ->
  a_id a1 = a_id a2 -> d1 = d2 /\ dm1 = dm2 /\ n1 = n2 /\ a1 = a2.
Proof.
  intros ((Hn & Hnames & Hids) & _) Hd1 Ha1 Hd2 Ha2 E.
  assert (Hi1 : In (a_id a1) (dim_ids dm1)) by (apply in_map_iff; exists (n1, a1); split; [reflexivity|exact Ha1]).
  assert (Hi2 : In (a_id a1) (dim_ids dm2)) by (rewrite E; apply in_map_iff; exists (n2, a2); split; [reflexivity|exact Ha2]).
  destruct (str_eqb d1 d2) eqn:Ed.
  - apply str_eqb_eq in Ed. subst d2.
    assert (dm1 = dm2) by (pose proof (In_alookup _ _ _ Hn Hd1) as L1; pose proof (In_alookup _ _ _ Hn Hd2) as L2; congruence). subst dm2.
    assert (Hp : (n1, a1) = (n2, a2)).
    { eapply (NoDup_map_inj idf); [|exact Ha1|exact Ha2|exact E]. rewrite <- dim_ids_idf.
      eapply all_ids_dim_NoDup; [exact Hids|]. apply in_map_iff. exists (d1, dm1). split; [reflexivity|exact Hd1]. }
    inversion Hp. repeat split.
  - apply str_eqb_neq in Ed. exfalso. eapply (ids_disjoint_gen (dims st) Hids Hn d1 dm1 d2 dm2); eassumption.
Qed.

Theorem disable_spec d n st st' a : wfb st -> disable_attribute d n st = Ok st' -> attr_id_of st d n = Some a ->
  disabled_id st' a /\ attr_id_of st' d n = Some a /\ next_id st' = next_id st /\ a < next_id st.
Proof.
  intros Hwf H Hid. pose proof Hwf as ((Hn & Hnames & Hids) & Hb). unfold disable_attribute, edit_dim in H.
  destruct (alookup d (dims st)) as [dm|] eqn:Ed; [|discriminate].
  destruct (map_dim _ dm) as [dm'|] eqn:Ef; [|discriminate]. inversion H; subst; clear H.
  apply map_dim_attrs in Ef. destruct (alookup n (attrs_of dm)) as [att|] eqn:En; [|discriminate]. inversion Ef as [Ea]; clear Ef.
  unfold attr_id_of, get_attribute in Hid. cbn [qdim qname] in Hid. rewrite Ed, En in Hid. cbn in Hid. inversion Hid as [Hida]; clear Hid.
  pose proof (alookup_In _ _ _ Ed) as Hdin. pose proof (alookup_In _ _ _ En) as Hnin.
  split; [|split; [|split; [reflexivity|]]].
  - intros d0 n0 att0 Hd0 Hin0 Hid0. cbn [dims] in Hd0. apply in_map_iff in Hd0. destruct Hd0 as ([k d0'] & E & Hk). cbn in E. subst d0'.
    apply areplace_In_strong in Hk; [|exact Hn]. destruct Hk as [E|[Hne Hk]].
    + inversion E; subst k d0; clear E. rewrite <- Ea in Hin0. apply areplace_In_strong in Hin0; [|eapply Hnames; exact Hdin].
      destruct Hin0 as [E|[Hne Hin0]]; [inversion E; reflexivity|]. exfalso. apply Hne.
      destruct (wfb_id_unique st d dm n0 att0 d dm n att Hwf Hdin Hin0 Hdin Hnin) as (_ & _ & E1 & _); [congruence|exact E1].
    + exfalso. apply Hne. cbn.
      destruct (wfb_id_unique st k d0 n0 att0 d dm n att Hwf Hk Hin0 Hdin Hnin) as (E1 & _); [congruence|exact E1].
  - unfold attr_id_of, get_attribute. cbn [qdim qname dims]. rewrite (alookup_areplace_same _ _ _ _ Ed), <- Ea, (alookup_areplace_same _ _ _ _ En). cbn. rewrite Hida. reflexivity.
  - apply Hb. unfold all_ids. apply in_flat_map. exists dm. split; [eapply dims_alookup_In; exact Ed|].
    apply in_map_iff. exists (n, att). split; [cbn; congruence|exact Hnin].
Qed.

(* an id below next_id that is disabled (or no longer carried by any attribute) stays so across every edit *)
Theorem disabled_pres st st' a : edit_rel st st' -> a < next_id st -> disabled_id st a -> disabled_id st' a /\ a < next_id st'.
Proof.
  intros [Hn H] Hlt Hd. split; [|lia]. intros dm n att Hdm Hin Hid.
  destruct (H att) as [(att0 & (dm0 & n0 & Hdm0 & Hin0) & Hi & _ & He)|[Hi _]].
  - exists dm, n. split; assumption.
  - apply He. eapply Hd; [exact Hdm0|exact Hin0|]. rewrite Hi. exact Hid.
  - rewrite Hid in Hi. lia.
Qed.

(* "no operation re-enables an attribute": for every operation except OSetup *)
Theorem no_reenable s o a : is_setup o = false ->
  a < next_id (m_st (st_msk s)) -> disabled_id (m_st (st_msk s)) a ->
  disabled_id (m_st (st_msk (fst (step fixed s o)))) a /\ a < next_id (m_st (st_msk (fst (step fixed s o)))).
Proof. intros Ho. apply disabled_pres. apply step_edit_rel. exact Ho. Qed.
Print Assumptions disable_spec.
Print Assumptions no_reenable.

(* along a whole history without OSetup *)
Theorem no_reenable_run a : forall ops s, (forall o, In o ops -> is_setup o = false) ->
  a < next_id (m_st (st_msk s)) -> disabled_id (m_st (st_msk s)) a ->
  disabled_id (m_st (st_msk (run_state fixed s ops))) a /\ a < next_id (m_st (st_msk (run_state fixed s ops))).
Proof.
  induction ops as [|o t IH]; intros s Hops Hlt Hd; [split; assumption|]. rewrite run_state_cons.
  destruct (no_reenable s o a (Hops o (or_introl eq_refl)) Hlt Hd) as [H1 H2].
  apply IH; [intros o' Ho'; apply Hops; right; exact Ho'|exact H2|exact H1].
Qed.
