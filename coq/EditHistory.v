(* C03 over whole edit histories (repaired id allocation): every structure reachable from the empty one is
   well-formed, identifiers are handed out once and for all, and an edit leaves the other attributes alone.
   The pinned allocation (id = number of live attributes) is refuted. *)
From Coq Require Import List NArith Bool Arith Lia Permutation.
Require Import Policy Structure SelProofs GoodProofs AssocLemmas CoverProofs1 HierProofs WfProofs EditLemmas.
Import ListNotations.

Inductive sedit :=
| EAddAnarchy (d : str) | EAddHierarchy (d : str) | EDelDim (d : str)
| EAddAttr (d n : str) (hyb : bool) (after : option str)
| EDelAttr (d n : str) | ERename (d n n' : str) | EDisable (d n : str).

Definition edit_outcome (fixed : bool) (st : structure) (e : sedit) : outcome structure :=
  match e with
  | EAddAnarchy d => add_anarchy d st
  | EAddHierarchy d => add_hierarchy d st
  | EDelDim d => del_dimension d st
  | EAddAttr d n hyb after => add_attribute fixed d n hyb after st
  | EDelAttr d n => del_attribute d n st
  | ERename d n n' => rename_attribute d n n' st
  | EDisable d n => disable_attribute d n st
  end.
(* a failing edit leaves the structure unchanged *)
Definition apply_edit_gen (fixed : bool) (st : structure) (e : sedit) : structure :=
  match edit_outcome fixed st e with Ok st' => st' | _ => st end.
Definition apply_edit := apply_edit_gen true.
Definition run_edits (st : structure) (es : list sedit) : structure := fold_left apply_edit es st.
Definition run_edits_gen (fixed : bool) (st : structure) (es : list sedit) : structure := fold_left (apply_edit_gen fixed) es st.

Definition st_ids (st : structure) : list N := all_ids (map snd (dims st)).

(* identifiers handed out by the successful EAddAttr of a history, in order *)
Definition issued_by (fixed : bool) (st : structure) (e : sedit) : list N :=
  match e with
  | EAddAttr d n hyb after =>
      match add_attribute fixed d n hyb after st with
      | Ok _ => [if fixed then next_id st else nb_attributes st]
      | _ => []
      end
  | _ => []
  end.
Fixpoint issued_from (fixed : bool) (st : structure) (es : list sedit) : list N :=
  match es with
  | [] => []
  | e :: t => issued_by fixed st e ++ issued_from fixed (apply_edit_gen fixed st e) t
  end.
Definition issued_ids (es : list sedit) : list N := issued_from true empty_structure es.

(* ---- well-formedness is preserved by every edit ---- *)
Lemma edit_dim_inv d f st st' : edit_dim d f st = Ok st' ->
  exists dm dm', alookup d (dims st) = Some dm /\ f dm = Some dm' /\
                 st' = {| dims := areplace d dm' (dims st); next_id := next_id st |}.
Proof.
  unfold edit_dim. destruct (alookup d (dims st)) as [dm|] eqn:Ed; [|discriminate].
  destruct (f dm) as [dm'|] eqn:Ef; [|discriminate]. intros H. injection H as <-. exists dm, dm'. split; [reflexivity|split; [exact Ef|reflexivity]].
Qed.

Lemma wfb_dim_facts st d dm : wfb st -> alookup d (dims st) = Some dm ->
  NoDup (names_of (attrs_of dm)) /\ NoDup (dim_ids dm) /\ incl (dim_ids dm) (st_ids st).
Proof.
  intros ((Hn & Hnames & Hids) & Hb) Ed. pose proof (alookup_In _ _ _ Ed) as Hin.
  assert (Hin' : In dm (map snd (dims st))) by (apply in_map_iff; exists (d, dm); split; [reflexivity|exact Hin]).
  split; [eapply Hnames; exact Hin|]. split; [eapply all_ids_dim_NoDup; eassumption|].
  intros i Hi. unfold st_ids, all_ids. apply in_flat_map. exists dm. split; assumption.
Qed.

Lemma edit_dim_wfb d f st st' :
  (forall dm dm', NoDup (names_of (attrs_of dm)) -> NoDup (dim_ids dm) -> f dm = Some dm' -> dstep dm dm') ->
  wfb st -> edit_dim d f st = Ok st' -> wfb st'.
Proof.
  intros Hf Hwf H. destruct (edit_dim_inv _ _ _ _ H) as (dm & dm' & Ed & Ef & ->).
  destruct (wfb_dim_facts _ _ _ Hwf Ed) as (Hn & Hi & _).
  destruct (Hf dm dm' Hn Hi Ef) as (Hn' & Hi' & Hsub).
  apply (wfb_replace st d dm dm' false Hwf Ed Hn' Hi'). intros i Hin. left. apply Hsub. exact Hin.
Qed.

Theorem del_attribute_wfb st d n st' : wfb st -> del_attribute d n st = Ok st' -> wfb st'.
Proof. rewrite del_attribute_fn. apply edit_dim_wfb. intros dm dm'. apply dstep_del. Qed.
Theorem disable_attribute_wfb st d n st' : wfb st -> disable_attribute d n st = Ok st' -> wfb st'.
Proof. rewrite disable_attribute_fn. apply edit_dim_wfb. intros dm dm'. apply dstep_disable. Qed.
Theorem rename_attribute_wfb st d n n' st' : wfb st -> rename_attribute d n n' st = Ok st' -> wfb st'.
Proof. rewrite rename_attribute_fn. apply edit_dim_wfb. intros dm dm'. apply dstep_rename. Qed.

Lemma add_dim_wfb mk d st st' : attrs_of (mk []) = [] -> wfb st -> add_dim mk d st = Ok st' -> wfb st'.
Proof.
  intros Hmk ((Hn & Hnames & Hids) & Hb) H. unfold add_dim in H. destruct (amem d (dims st)) eqn:Em; [discriminate|]. injection H as <-.
  assert (Hall : all_ids (map snd (dims st ++ [(d, mk [])])) = all_ids (map snd (dims st))).
  { rewrite map_app, all_ids_app. cbn [map snd all_ids flat_map]. unfold dim_ids. rewrite Hmk. cbn [map app]. apply app_nil_r. }
  split; [split; [|split]|]; cbn [dims next_id].
  - rewrite map_app. apply NoDup_app_intro; [exact Hn|constructor; [intros []|constructor]|].
    intros k Hk [<-|[]]. apply amem_false in Em. contradiction.
  - intros k dm Hin. apply in_app_iff in Hin. destruct Hin as [Hin|[E|[]]]; [eapply Hnames; exact Hin|].
    injection E as <- <-. rewrite Hmk. constructor.
  - rewrite Hall. exact Hids.
  - rewrite Hall. exact Hb.
Qed.

Lemma all_ids_aremove d (l : list (str * dimension)) i : In i (all_ids (map snd (aremove d l))) -> In i (all_ids (map snd l)).
Proof.
  induction l as [|[k dm] l IH]; cbn [aremove]; [intros []|]. destruct (str_eqb d k).
  - intros H. cbn. apply in_app_iff. right. exact H.
  - cbn. rewrite !in_app_iff. intros [H|H]; [left; exact H|right; apply IH; exact H].
Qed.
Lemma NoDup_app_drop_mid {B} (l1 l2 l3 : list B) : NoDup (l1 ++ l2 ++ l3) -> NoDup (l1 ++ l3).
Proof.
  intros H. apply NoDup_app_intro.
  - eapply NoDup_app_remove_r. exact H.
  - apply NoDup_app_remove_l in H. apply NoDup_app_remove_l in H. exact H.
  - intros x H1 H3. eapply NoDup_app_disjoint; [exact H|exact H1|]. apply in_app_iff. right. exact H3.
Qed.

Theorem del_dimension_wfb st d st' : wfb st -> del_dimension d st = Ok st' -> wfb st'.
Proof.
  intros ((Hn & Hnames & Hids) & Hb) H. unfold del_dimension in H. unfold amem in H.
  destruct (alookup d (dims st)) as [dm|] eqn:Ed; [|discriminate]. injection H as <-.
  destruct (alookup_split _ _ _ Ed) as (pre & post & El & Hnp).
  assert (Er : aremove d (dims st) = pre ++ post) by (rewrite El; apply aremove_mid; exact Hnp).
  split; [split; [|split]|]; cbn [dims next_id].
  - rewrite Er. rewrite El, map_app in Hn. cbn [map fst] in Hn. rewrite map_app. apply NoDup_remove_1 in Hn. exact Hn.
  - intros k v Hin. eapply Hnames. rewrite Er in Hin. rewrite El. apply in_app_iff in Hin. apply in_app_iff.
    destruct Hin as [Hin|Hin]; [left; exact Hin|right; right; exact Hin].
  - rewrite Er, map_app, all_ids_app. rewrite El, map_app, all_ids_app in Hids. cbn [map snd all_ids flat_map] in Hids.
    eapply NoDup_app_drop_mid. exact Hids.
  - intros i Hi. apply Hb. eapply all_ids_aremove. exact Hi.
Qed.

Theorem edit_outcome_wfb st e st' : wfb st -> edit_outcome true st e = Ok st' -> wfb st'.
Proof.
  intros Hwf H. destruct e as [d|d|d|d n hyb after|d n|d n n'|d n]; cbn [edit_outcome] in H.
  - eapply (add_dim_wfb Anarchy); [reflexivity|exact Hwf|exact H].
  - eapply (add_dim_wfb Hierarchy); [reflexivity|exact Hwf|exact H].
  - eapply del_dimension_wfb; eassumption.
  - eapply add_attribute_wfb; eassumption.
  - eapply del_attribute_wfb; eassumption.
  - eapply rename_attribute_wfb; eassumption.
  - eapply disable_attribute_wfb; eassumption.
Qed.
Lemma apply_edit_wfb st e : wfb st -> wfb (apply_edit st e).
Proof.
  intros Hwf. unfold apply_edit, apply_edit_gen. destruct (edit_outcome true st e) as [st'| | |] eqn:E; try exact Hwf.
  eapply edit_outcome_wfb; eassumption.
Qed.
Lemma run_edits_wfb es : forall st, wfb st -> wfb (run_edits st es).
Proof. induction es as [|e es IH]; intros st Hwf; [exact Hwf|]. cbn [run_edits fold_left]. apply IH. apply apply_edit_wfb. exact Hwf. Qed.
Lemma empty_wfb : wfb empty_structure.
Proof. split; [split; [constructor|split; [intros d dm []|constructor]]|intros i []]. Qed.

Theorem edits_preserve_wfb : forall es, wfb (run_edits empty_structure es).
Proof. intros es. apply run_edits_wfb. exact empty_wfb. Qed.
Print Assumptions edits_preserve_wfb.

(* ---- the counter ---- *)
Lemma add_attribute_next_id fx d n hyb after st st' : add_attribute fx d n hyb after st = Ok st' -> next_id st' = N.succ (next_id st).
Proof.
  unfold add_attribute. destruct (alookup d (dims st)) as [dm|]; [|discriminate].
  destruct (dim_add_attribute dm n hyb after _) as [dm'| | |]; try discriminate. intros H. injection H as <-. reflexivity.
Qed.
Lemma edit_dim_next_id d f st st' : edit_dim d f st = Ok st' -> next_id st' = next_id st.
Proof. intros H. destruct (edit_dim_inv _ _ _ _ H) as (dm & dm' & _ & _ & ->). reflexivity. Qed.
Lemma edit_outcome_next_id fx st e st' : edit_outcome fx st e = Ok st' ->
  next_id st' = next_id st \/ (next_id st' = N.succ (next_id st) /\ issued_by fx st e <> []).
Proof.
  destruct e as [d|d|d|d n hyb after|d n|d n n'|d n]; cbn [edit_outcome issued_by]; intros H.
  - left. unfold add_anarchy, add_dim in H. destruct (amem d (dims st)); [discriminate|]. injection H as <-. reflexivity.
  - left. unfold add_hierarchy, add_dim in H. destruct (amem d (dims st)); [discriminate|]. injection H as <-. reflexivity.
  - left. unfold del_dimension in H. destruct (amem d (dims st)); [|discriminate]. injection H as <-. reflexivity.
  - right. rewrite H. split; [eapply add_attribute_next_id; exact H|discriminate].
  - left. eapply edit_dim_next_id. exact H.
  - left. eapply edit_dim_next_id. exact H.
  - left. eapply edit_dim_next_id. exact H.
Qed.

Theorem next_id_monotone st e : (next_id st <= next_id (apply_edit st e))%N.
Proof.
  unfold apply_edit, apply_edit_gen. destruct (edit_outcome true st e) as [st'| | |] eqn:E; try lia.
  destruct (edit_outcome_next_id _ _ _ _ E) as [->|[-> _]]; lia.
Qed.
Lemma run_next_id_monotone es : forall st, (next_id st <= next_id (run_edits st es))%N.
Proof.
  induction es as [|e es IH]; intros st; cbn [run_edits fold_left]; [lia|].
  pose proof (next_id_monotone st e) as H1. pose proof (IH (apply_edit st e)) as H2. unfold run_edits in H2. lia.
Qed.
Print Assumptions next_id_monotone.

(* ---- identifiers are issued once ---- *)
Lemma issued_by_spec st e i : In i (issued_by true st e) -> i = next_id st /\ next_id (apply_edit st e) = N.succ (next_id st).
Proof.
  destruct e as [d|d|d|d n hyb after|d n|d n n'|d n]; cbn [issued_by]; try (intros []).
  unfold apply_edit, apply_edit_gen. cbn [edit_outcome].
  destruct (add_attribute true d n hyb after st) as [st'| | |] eqn:E; [|intros []|intros []|intros []].
  intros [<-|[]]. split; [reflexivity|]. eapply add_attribute_next_id. exact E.
Qed.
Lemma issued_by_NoDup fx st e : NoDup (issued_by fx st e).
Proof.
  destruct e as [d|d|d|d n hyb after|d n|d n n'|d n]; cbn [issued_by]; try constructor.
  destruct (add_attribute fx d n hyb after st); repeat constructor. intros [].
Qed.

Lemma issued_bounds es : forall st i, In i (issued_from true st es) -> (next_id st <= i < next_id (run_edits st es))%N.
Proof.
  induction es as [|e es IH]; intros st i Hin; cbn [issued_from] in Hin; [destruct Hin|].
  cbn [run_edits fold_left]. fold (run_edits (apply_edit st e) es).
  apply in_app_iff in Hin. destruct Hin as [Hin|Hin].
  - destruct (issued_by_spec _ _ _ Hin) as [-> Hs]. pose proof (run_next_id_monotone es (apply_edit st e)). lia.
  - apply (IH (apply_edit st e)) in Hin. pose proof (next_id_monotone st e). lia.
Qed.

Lemma issued_from_NoDup es : forall st, NoDup (issued_from true st es).
Proof.
  induction es as [|e es IH]; intros st; cbn [issued_from]; [constructor|].
  apply NoDup_app_intro; [apply issued_by_NoDup|apply IH|].
  intros i H1 H2. destruct (issued_by_spec _ _ _ H1) as [-> Hs]. apply issued_bounds in H2. fold apply_edit in H2. lia.
Qed.

Theorem issued_ids_NoDup : forall es, NoDup (issued_ids es).
Proof. intros es. apply issued_from_NoDup. Qed.
Print Assumptions issued_ids_NoDup.

(* live identifiers after one edit: old ones, or the one just issued *)
Lemma all_ids_areplace d dm' (l : list (str * dimension)) i :
  In i (all_ids (map snd (areplace d dm' l))) -> In i (dim_ids dm') \/ In i (all_ids (map snd l)).
Proof.
  induction l as [|[k dm] l IH]; cbn [areplace]; [intros []|]. destruct (str_eqb d k).
  - cbn. rewrite !in_app_iff. intros [H|H]; [left; exact H|right; right; exact H].
  - cbn. rewrite !in_app_iff. intros [H|H]; [right; left; exact H|]. destruct (IH H) as [H'|H']; [left; exact H'|right; right; exact H'].
Qed.

Lemma edit_outcome_ids st e st' i : wfb st -> edit_outcome true st e = Ok st' ->
  In i (st_ids st') -> In i (st_ids st) \/ In i (issued_by true st e).
Proof.
  intros Hwf H Hi.
  assert (Hed : forall d f, (forall dm dm', NoDup (names_of (attrs_of dm)) -> NoDup (dim_ids dm) -> f dm = Some dm' -> dstep dm dm') ->
                edit_dim d f st = Ok st' -> In i (st_ids st)).
  { intros d f Hf H'. destruct (edit_dim_inv _ _ _ _ H') as (dm & dm' & Ed & Ef & ->).
    destruct (wfb_dim_facts _ _ _ Hwf Ed) as (Hn & Hnd & Hinc). destruct (Hf dm dm' Hn Hnd Ef) as (_ & _ & Hsub).
    unfold st_ids in Hi. cbn [dims] in Hi. apply all_ids_areplace in Hi. destruct Hi as [Hi|Hi]; [apply Hinc, Hsub; exact Hi|exact Hi]. }
  destruct e as [d|d|d|d n hyb after|d n|d n n'|d n]; cbn [edit_outcome issued_by] in *.
  - left. unfold add_anarchy, add_dim in H. destruct (amem d (dims st)); [discriminate|]. injection H as <-.
    unfold st_ids in *. cbn [dims] in Hi. rewrite map_app, all_ids_app in Hi. apply in_app_iff in Hi. destruct Hi as [Hi|Hi]; [exact Hi|destruct Hi].
  - left. unfold add_hierarchy, add_dim in H. destruct (amem d (dims st)); [discriminate|]. injection H as <-.
    unfold st_ids in *. cbn [dims] in Hi. rewrite map_app, all_ids_app in Hi. apply in_app_iff in Hi. destruct Hi as [Hi|Hi]; [exact Hi|destruct Hi].
  - left. unfold del_dimension in H. destruct (amem d (dims st)); [|discriminate]. injection H as <-.
    unfold st_ids in *. cbn [dims] in Hi. eapply all_ids_aremove. exact Hi.
  - rewrite H. unfold add_attribute in H. destruct (alookup d (dims st)) as [dm|] eqn:Ed; [|discriminate].
    destruct (dim_add_attribute dm n hyb after (next_id st)) as [dm'| | |] eqn:Ea; try discriminate. injection H as <-.
    destruct (wfb_dim_facts _ _ _ Hwf Ed) as (Hn & Hnd & Hinc).
    destruct (dim_add_attribute_perm _ _ _ _ _ _ Hn Ea) as (Hp & _ & _).
    unfold st_ids in Hi. cbn [dims] in Hi. apply all_ids_areplace in Hi. destruct Hi as [Hi|Hi]; [|left; exact Hi].
    rewrite dim_ids_ids_of in Hi. unfold ids_of in Hi. eapply Permutation_in in Hi; [|apply Permutation_map; symmetry; exact Hp].
    cbn [map snd newattr a_id] in Hi. destruct Hi as [<-|Hi]; [right; left; reflexivity|left; apply Hinc; exact Hi].
  - left. rewrite del_attribute_fn in H. eapply Hed; [|exact H]. intros dm dm'. apply dstep_del.
  - left. rewrite rename_attribute_fn in H. eapply Hed; [|exact H]. intros dm dm'. apply dstep_rename.
  - left. rewrite disable_attribute_fn in H. eapply Hed; [|exact H]. intros dm dm'. apply dstep_disable.
Qed.

Lemma apply_edit_ids st e i : wfb st -> In i (st_ids (apply_edit st e)) -> In i (st_ids st) \/ In i (issued_by true st e).
Proof.
  intros Hwf. unfold apply_edit, apply_edit_gen. destruct (edit_outcome true st e) as [st'| | |] eqn:E; try (intros H; left; exact H).
  eapply edit_outcome_ids; eassumption.
Qed.

Lemma live_ids_issued_from es : forall st, wfb st -> forall i, In i (st_ids (run_edits st es)) -> In i (st_ids st) \/ In i (issued_from true st es).
Proof.
  induction es as [|e es IH]; intros st Hwf i Hi; [left; exact Hi|].
  cbn [run_edits fold_left] in Hi. cbn [issued_from]. rewrite in_app_iff.
  destruct (IH (apply_edit st e) (apply_edit_wfb _ _ Hwf) i Hi) as [H|H]; [|right; right; exact H].
  destruct (apply_edit_ids _ _ _ Hwf H) as [H'|H']; [left; exact H'|right; left; exact H'].
Qed.

(* every live identifier is one of the issued ones; together with NoDup (issued_ids es): the identifier of a
   deleted attribute is never given to another attribute *)
Theorem live_ids_issued : forall es i, In i (st_ids (run_edits empty_structure es)) -> In i (issued_ids es).
Proof. intros es i Hi. destruct (live_ids_issued_from es _ empty_wfb i Hi) as [[]|H]. exact H. Qed.
Print Assumptions live_ids_issued.

Lemma issued_from_app fx es1 : forall st es2,
  issued_from fx st (es1 ++ es2) = issued_from fx st es1 ++ issued_from fx (run_edits_gen fx st es1) es2.
Proof.
  induction es1 as [|e es1 IH]; intros st es2; cbn [app issued_from run_edits_gen fold_left]; [reflexivity|].
  rewrite IH, app_assoc. reflexivity.
Qed.

(* the identifier given to a new attribute was never issued before in the history (to a live or deleted attribute) *)
Theorem new_attribute_id_never_issued es d n hyb after :
  let st := run_edits empty_structure es in
  forall st', add_attribute true d n hyb after st = Ok st' ->
  issued_ids (es ++ [EAddAttr d n hyb after]) = issued_ids es ++ [next_id st] /\ ~ In (next_id st) (issued_ids es).
Proof.
  intros st st' H. unfold issued_ids. rewrite issued_from_app. cbn [issued_from issued_by].
  change (run_edits_gen true empty_structure es) with st. rewrite H. cbn [app]. split; [reflexivity|].
  intros Hin. apply issued_bounds in Hin. fold st in Hin. lia.
Qed.
Print Assumptions new_attribute_id_never_issued.

(* ---- the pinned allocation (id = number of live attributes) reuses identifiers ---- *)
Definition sD : str := [68]%N.
Definition pinned_history : list sedit :=
  [EAddAnarchy sD; EAddAttr sD [97]%N false None; EAddAttr sD [98]%N false None; EAddAttr sD [99]%N false None;
   EDelAttr sD [97]%N; EAddAttr sD [110]%N false None].
Example pinned_history_issued : issued_from false empty_structure pinned_history = [0; 1; 2; 2]%N.
Proof. vm_compute. reflexivity. Qed.
Example repaired_history_issued : issued_ids pinned_history = [0; 1; 2; 3]%N.
Proof. vm_compute. reflexivity. Qed.

Theorem pinned_ids_refuted : exists es, ~ NoDup (issued_from false empty_structure es).
Proof.
  exists pinned_history. rewrite pinned_history_issued. intros H.
  inversion H as [|? ? _ H1]; subst. inversion H1 as [|? ? _ H2]; subst. inversion H2 as [|? ? Hn _]; subst.
  apply Hn. left. reflexivity.
Qed.
Print Assumptions pinned_ids_refuted.

(* worse: two live attributes (c and the new n) share identifier 2, so n inherits c's rights *)
Theorem pinned_live_ids_collide : exists es, ~ NoDup (st_ids (run_edits_gen false empty_structure es)).
Proof.
  exists pinned_history. assert (E : st_ids (run_edits_gen false empty_structure pinned_history) = [1; 2; 2]%N) by (vm_compute; reflexivity).
  rewrite E. intros H. inversion H as [|? ? _ H1]; subst. inversion H1 as [|? ? Hn _]; subst. apply Hn. left. reflexivity.
Qed.
Print Assumptions pinned_live_ids_collide.

(* non-vacuity of the history theorems on the same history, repaired allocation *)
Example history_example :
  st_ids (run_edits empty_structure pinned_history) = [1; 2; 3]%N /\ next_id (run_edits empty_structure pinned_history) = 4%N.
Proof. vm_compute. split; reflexivity. Qed.
