(* Prototype proofs (scratch): single parser steps on printed input *)
From Coq Require Import List NArith Bool Arith Lia.
Require Import Policy PolicyProofs ParseTotal ParseFuel Faithful1 Faithful2.
Import ListNotations.

Definition mk (d n : str) : qattr := {| qdim := d; qname := n |}.

Definition tail_ok (r : str) : Prop := r = [] \/ exists w c r', ws w /\ r = w ++ c :: r' /\ is_meta c = true.

Lemma meta_tests c : is_meta c = false -> (c =? 40)%N = false /\ (c =? 41)%N = false /\ (c =? 124)%N = false /\ (c =? 38)%N = false.
Proof. unfold is_meta. intros H. repeat (apply orb_false_iff in H; destruct H as [H ?]). tauto. Qed.

Lemma firstn_app_exact {A} (a b : list A) : firstn (length a) (a ++ b) = a.
Proof. induction a as [|x a IH]; cbn; [destruct b; reflexivity|]. rewrite IH. reflexivity. Qed.
Lemma skipn_app_exact {A} (a b : list A) : skipn (length a) (a ++ b) = b.
Proof. induction a as [|x a IH]; cbn; [reflexivity|exact IH]. Qed.

(* ---- attribute step ---- *)
Lemma step_term d n w1 w2 w3 r q f :
  good_name d -> good_name n -> ws w1 -> ws w2 -> ws w3 -> tail_ok r ->
  RT (w1 ++ d ++ w2 ++ [58; 58]%N ++ w3 ++ n ++ r) ->
  parse_fuel true (S f) (w1 ++ d ++ w2 ++ [58; 58]%N ++ w3 ++ n ++ r) q = parse_fuel true f r (q ++ [Term (mk d n)]).
Proof.
  intros Hd Hn H1 H2 H3 Hr HRT.
  pose proof Hd as (Hd1 & (c0 & d' & Ed & Hc0) & _).
  (* decompose the tail *)
  assert (Hdec : exists w y, ws w /\ r = w ++ y /\ (y = [] \/ exists c y', y = c :: y' /\ is_meta c = true)).
  { destruct Hr as [->|(w & c & r' & Hw & -> & Hc)]; [exists [], []; repeat split; [left; reflexivity]|exists w, (c :: r'); repeat split; [exact Hw|right; eauto]]. }
  destruct Hdec as (w & y & Hw & -> & Hy).
  subst d.
  set (E := d' ++ w2 ++ [58; 58]%N ++ w3 ++ n ++ w ++ y).
  assert (Htrim : trim (w1 ++ (c0 :: d') ++ w2 ++ [58; 58]%N ++ w3 ++ n ++ w ++ y) = c0 :: E).
  { change ((c0 :: d') ++ w2 ++ [58; 58]%N ++ w3 ++ n ++ w ++ y) with (c0 :: E) in *. apply trim_lead; assumption. }
  cbn [parse_fuel]. rewrite Htrim.
  assert (Hm0 : is_meta c0 = false).
  { cbn in Hd1. apply andb_true_iff in Hd1. destruct Hd1 as [Hd1 _]. apply andb_true_iff in Hd1. destruct Hd1 as [Hd1 _]. apply negb_true_iff in Hd1. exact Hd1. }
  destruct (meta_tests _ Hm0) as (T40 & T41 & T124 & T38).
  assert (HE : E <> []).
  { unfold E. intros H. apply app_eq_nil in H. destruct H as [_ H]. apply app_eq_nil in H. destruct H as [_ H]. discriminate. }
  assert (Hstar : str_eqb (c0 :: E) [42%N] = false).
  { cbn. destruct E; [contradiction|]. rewrite andb_false_r. reflexivity. }
  rewrite Hstar. cbn [negb andb]. rewrite T40, T124, T38, T41.
  assert (Hsplit : c0 :: E = ((c0 :: d') ++ w2 ++ [58; 58]%N ++ w3 ++ n ++ w) ++ y).
  { unfold E. rewrite <- ?app_assoc. cbn [app]. rewrite <- ?app_assoc. reflexivity. }
  assert (Hattr : take_attr (c0 :: E) = (c0 :: d') ++ w2 ++ [58; 58]%N ++ w3 ++ n ++ w).
  { rewrite Hsplit. apply take_attr_app; [|exact Hy].
    repeat apply nometa_app; try apply nometa_sep; try (apply plain_nometa, plain_ws; assumption); apply plain_nometa, plain_name; assumption. }
  rewrite Hattr.
  rewrite (qattr_of_printed (c0 :: d') n w2 w3 w Hd Hn H2 H3 Hw).
  rewrite Hsplit, skipn_app_exact. symmetry. apply parse_fuel_lead_ws. exact Hw.
Qed.

(* ---- balanced strings and the group step ---- *)
Definition bal (s : str) : Prop :=
  forall depth ci bi rest, find_close (s ++ rest) depth ci bi = find_close rest depth (ci + length s) (bi + blen s).
Lemma blen_app a b : blen (a ++ b) = (blen a + blen b)%nat.
Proof. induction a as [|c a IH]; cbn; [reflexivity|]. rewrite IH. lia. Qed.
Lemma bal_nil : bal []. Proof. intros d ci bi rest. cbn. rewrite !Nat.add_0_r. reflexivity. Qed.
Lemma bal_app a b : bal a -> bal b -> bal (a ++ b).
Proof. intros Ha Hb d ci bi rest. rewrite <- app_assoc, Ha, Hb, app_length, blen_app. f_equal; lia. Qed.
Lemma bal_nometa x : nometa x -> bal x.
Proof.
  unfold nometa. induction x as [|c x IH]; intros H; [apply bal_nil|].
  cbn in H. apply andb_true_iff in H. destruct H as [Hc Hx]. apply negb_true_iff in Hc.
  destruct (meta_tests _ Hc) as (T40 & T41 & _ & _).
  intros d ci bi rest. cbn [app find_close]. rewrite T40, T41. rewrite (IH Hx). cbn [length blen]. f_equal; lia.
Qed.
Lemma bal_group s : bal s -> bal ([40%N] ++ s ++ [41%N]).
Proof.
  intros Hs d ci bi rest. cbn [app find_close]. cbn. rewrite <- app_assoc. rewrite Hs. cbn [app find_close]. cbn.
  rewrite app_length, blen_app. cbn. f_equal; lia.
Qed.
Lemma bal_op c : (c =? 40)%N = false -> (c =? 41)%N = false -> bal [c; c].
Proof. intros H1 H2 d ci bi rest. cbn. rewrite H1, H2. f_equal; lia. Qed.

Lemma U40 : utf8_len 40 = 1%nat. Proof. reflexivity. Qed.
Lemma slice_paren x k : slice (40%N :: x) 1 (1 + k) = slice_to x k.
Proof.
  unfold slice. cbn [slice_from]. rewrite U40. cbn [Nat.eqb Nat.leb Nat.sub]. rewrite slice_from_0.
  replace (1 + k - 1)%nat with k by lia. reflexivity.
Qed.
Lemma slice_from_paren x k : slice_from (40%N :: x) (S (S k)) = slice_from x (S k).
Proof. cbn [slice_from]. rewrite U40. cbn [Nat.eqb Nat.add Nat.leb Nat.sub]. reflexivity. Qed.

Lemma step_group inner w1 r q f p :
  bal inner -> ws w1 -> RT (w1 ++ [40%N] ++ inner ++ [41%N] ++ r) ->
  parse_fuel true f inner [] = Ok p ->
  parse_fuel true (S f) (w1 ++ [40%N] ++ inner ++ [41%N] ++ r) q = parse_fuel true f r (q ++ [p]).
Proof.
  intros Hbal Hw HRT Hp.
  change ([40%N] ++ inner ++ [41%N] ++ r) with (40%N :: inner ++ [41%N] ++ r) in *.
  cbn [parse_fuel].
  rewrite (trim_lead w1 40%N (inner ++ [41%N] ++ r) Hw eq_refl HRT).
  assert (Hstar : str_eqb (40%N :: inner ++ [41%N] ++ r) [42%N] = false) by reflexivity.
  rewrite Hstar. cbn [negb andb]. change ((40 =? 40)%N) with true. cbn iota.
  rewrite (Hbal 0%nat 0%nat 0%nat ([41%N] ++ r)). cbn [app find_close]. change ((41 =? 40)%N) with false. change ((41 =? 41)%N) with true. cbn iota. cbn [Nat.add].
  rewrite slice_paren.
  assert (Hto : slice_to (inner ++ 41%N :: r) (blen inner) = Ok inner).
  { rewrite <- (firstn_app_exact inner (41%N :: r)) at 2 3. apply slice_to_blen. rewrite app_length. lia. }
  rewrite Hto, Hp. rewrite slice_from_paren.
  assert (Hfrom : slice_from (inner ++ 41%N :: r) (S (blen inner)) = Ok r).
  { replace (inner ++ 41%N :: r) with ((inner ++ [41%N]) ++ r) by (rewrite <- app_assoc; reflexivity).
    replace (S (blen inner)) with (blen (firstn (length (inner ++ [41%N])) ((inner ++ [41%N]) ++ r)))
      by (rewrite firstn_app_exact, blen_app; cbn; lia).
    rewrite slice_from_blen by (rewrite !app_length; lia).
    rewrite skipn_app_exact. reflexivity. }
  rewrite Hfrom. reflexivity.
Qed.

(* ---- operator steps and the end of the input ---- *)
Lemma step_and w x q0 q f : ws w -> RT (w ++ 38%N :: 38%N :: x) ->
  parse_fuel true (S f) (w ++ 38%N :: 38%N :: x) (q0 :: q) = parse_fuel true f x (q0 :: q).
Proof. intros Hw HRT. cbn [parse_fuel]. rewrite (trim_lead w 38%N (38%N :: x) Hw eq_refl HRT). reflexivity. Qed.

Lemma step_or w x q0 q f : ws w -> RT (w ++ 124%N :: 124%N :: x) ->
  parse_fuel true (S f) (w ++ 124%N :: 124%N :: x) (q0 :: q) =
  match parse_fuel true f x [] with Ok r => Ok (por (conjugate q0 q) r) | Err => Err | Panic => Panic | Hang => Hang end.
Proof. intros Hw HRT. cbn [parse_fuel]. rewrite (trim_lead w 124%N (124%N :: x) Hw eq_refl HRT). reflexivity. Qed.

Lemma step_end q0 q f : parse_fuel true (S f) [] (q0 :: q) = Ok (conjugate q0 q).
Proof. reflexivity. Qed.

Lemma step_star w2 w3 f : ws w2 -> ws w3 -> parse_fuel true (S f) (w2 ++ [42%N] ++ w3) [] = Ok Broadcast.
Proof.
  intros H2 H3. cbn [parse_fuel].
  assert (Ht : trim (w2 ++ [42%N] ++ w3) = [42%N]).
  { rewrite app_assoc, trim_app_ws_r by exact H3. apply (trim_lead w2 42%N [] H2 eq_refl). apply RT_app_nonws. reflexivity. }
  rewrite Ht. reflexivity.
Qed.
Print Assumptions step_group.
Print Assumptions step_term.
