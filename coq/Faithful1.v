(* Prototype proofs (scratch): string lemmas for parse_faithful *)
From Coq Require Import List NArith Bool Arith Lia.
Require Import Policy PolicyProofs ParseTotal ParseFuel.
Import ListNotations.

Definition ws (w : str) : Prop := forallb is_ws w = true.
Definition rtrim (e : str) : str := rev (drop_ws (rev e)).
Lemma trim_rtrim e : trim e = rtrim (drop_ws e). Proof. reflexivity. Qed.

Lemma ws_app a b : ws a -> ws b -> ws (a ++ b).
Proof. unfold ws. intros Ha Hb. rewrite forallb_app, Ha, Hb. reflexivity. Qed.
Lemma ws_nil : ws []. Proof. reflexivity. Qed.
Lemma ws_rev a : ws a -> ws (rev a).
Proof. unfold ws. intros H. apply forallb_forall. intros x Hx. apply in_rev in Hx. eapply forallb_forall in H; eassumption. Qed.

Lemma drop_ws_app_ws w x : ws w -> drop_ws (w ++ x) = drop_ws x.
Proof. unfold ws. induction w as [|c w IH]; cbn; intros H; [reflexivity|]. apply andb_true_iff in H. destruct H as [H1 H2]. rewrite H1. apply IH. exact H2. Qed.
Lemma drop_ws_all w : ws w -> drop_ws w = [].
Proof. intros H. rewrite <- (app_nil_r w). rewrite drop_ws_app_ws by exact H. reflexivity. Qed.
Lemma drop_ws_nonws c x : is_ws c = false -> drop_ws (c :: x) = c :: x.
Proof. intros H. cbn. rewrite H. reflexivity. Qed.

Lemma rtrim_app_ws x w : ws w -> rtrim (x ++ w) = rtrim x.
Proof. intros H. unfold rtrim. rewrite rev_app_distr. rewrite drop_ws_app_ws by (apply ws_rev; exact H). reflexivity. Qed.

(* right-trimmed strings: empty or ending with a non-whitespace character *)
Definition RT (x : str) : Prop := x = [] \/ exists y c, x = y ++ [c] /\ is_ws c = false.
Lemma RT_rtrim x : RT x -> rtrim x = x.
Proof. intros [->|(y & c & -> & Hc)]; [reflexivity|]. unfold rtrim. rewrite rev_app_distr. cbn [rev app]. rewrite drop_ws_nonws by exact Hc.
  change (c :: rev y) with ([c] ++ rev y). rewrite rev_app_distr, rev_involutive. reflexivity. Qed.
Lemma RT_app_r a b : RT (a ++ b) -> b <> [] -> RT b.
Proof.
  intros [H|(y & c & H & Hc)] Hb; [apply app_eq_nil in H; destruct H; contradiction|].
  right. destruct (exists_last Hb) as (b' & c' & ->). rewrite app_assoc in H. apply app_inj_tail in H. destruct H as [_ <-]. exists b', c'. split; [reflexivity|exact Hc].
Qed.
Lemma RT_app_nonws a c : is_ws c = false -> RT (a ++ [c]).
Proof. intros H. right. exists a, c. split; [reflexivity|exact H]. Qed.
Lemma RT_app_l a b : RT b -> b <> [] -> RT (a ++ b).
Proof. intros [->|(y & c & -> & Hc)] Hb; [contradiction|]. rewrite app_assoc. apply RT_app_nonws. exact Hc. Qed.

(* trimming a right-trimmed string that starts, after whitespace, with a non-whitespace character *)
Lemma trim_lead w c x : ws w -> is_ws c = false -> RT (w ++ c :: x) -> trim (w ++ c :: x) = c :: x.
Proof.
  intros Hw Hc HRT. rewrite trim_rtrim, drop_ws_app_ws by exact Hw. rewrite drop_ws_nonws by exact Hc.
  apply RT_rtrim. apply (RT_app_r w). exact HRT. discriminate.
Qed.
Lemma trim_ws w : ws w -> trim w = [].
Proof. intros H. rewrite trim_rtrim, drop_ws_all by exact H. reflexivity. Qed.
Lemma trim_app_ws_r x w : ws w -> trim (x ++ w) = trim x.
Proof.
  intros Hw. rewrite !trim_rtrim.
  assert (H : drop_ws (x ++ w) = drop_ws x ++ w \/ (drop_ws (x ++ w) = [] /\ drop_ws x = [])).
  { induction x as [|c x IH]; cbn.
    - right. split; [apply drop_ws_all; exact Hw|reflexivity].
    - destruct (is_ws c); [exact IH|left; reflexivity]. }
  destruct H as [H|[H1 H2]]; [rewrite H; apply rtrim_app_ws; exact Hw|rewrite H1, H2; reflexivity].
Qed.

(* parse_fuel only looks at the trimmed string *)
Lemma parse_fuel_trim b fuel e1 e2 q : trim e1 = trim e2 -> parse_fuel b fuel e1 q = parse_fuel b fuel e2 q.
Proof. intros H. destruct fuel as [|f]; [reflexivity|]. cbn [parse_fuel]. rewrite H. reflexivity. Qed.
Lemma trim_idem e : trim (trim e) = trim e.
Proof.
  (* trim e is right-trimmed and starts with a non-ws char or is empty *)
  rewrite (trim_rtrim (trim e)).
  assert (Hd : drop_ws (trim e) = trim e).
  { rewrite trim_rtrim. unfold rtrim.
    remember (drop_ws e) as d eqn:Ed.
    assert (Hhd : d = [] \/ exists c t, d = c :: t /\ is_ws c = false).
    { subst d. clear. induction e as [|c e IH]; cbn; [left; reflexivity|]. destruct (is_ws c) eqn:E; [exact IH|right; eauto]. }
    destruct Hhd as [->|(c & t & -> & Hc)]; [reflexivity|].
    (* rev (drop_ws (rev (c :: t))) starts with c *)
    cbn [rev]. remember (rev t) as rt. 
    assert (Hx : exists z, drop_ws (rt ++ [c]) = z ++ [c]).
    { clear - Hc. induction rt as [|y rt IH]; cbn; [rewrite Hc; exists []; reflexivity|].
      destruct (is_ws y); [exact IH|exists (y :: rt); reflexivity]. }
    destruct Hx as (z & Hz). rewrite Hz, rev_app_distr. cbn. rewrite Hc. reflexivity. }
  rewrite Hd. rewrite trim_rtrim. unfold rtrim. rewrite rev_involutive.
  remember (rev (drop_ws e)) as r.
  assert (Hi : drop_ws (drop_ws r) = drop_ws r).
  { clear. induction r as [|c r IH]; cbn; [reflexivity|]. destruct (is_ws c) eqn:E; [exact IH|cbn; rewrite E; reflexivity]. }
  rewrite Hi. reflexivity.
Qed.
Lemma parse_fuel_lead_ws b fuel w x q : ws w -> parse_fuel b fuel (w ++ x) q = parse_fuel b fuel x q.
Proof. intros H. apply parse_fuel_trim. rewrite !trim_rtrim, drop_ws_app_ws by exact H. reflexivity. Qed.
Lemma parse_fuel_trail_ws b fuel w x q : ws w -> parse_fuel b fuel (x ++ w) q = parse_fuel b fuel x q.
Proof. intros H. apply parse_fuel_trim. apply trim_app_ws_r. exact H. Qed.
Print Assumptions trim_idem.
