(* C15, name preservation: the repaired parser returns exactly the attributes that were printed, in order,
   up to the Broadcast simplifications made by `&`/`|` (BitAnd drops a Broadcast operand, BitOr collapses to
   Broadcast).  Also: the DNF mentions exactly the attributes of the policy. *)
From Coq Require Import List NArith Bool Arith Lia.
Require Import Policy PolicyProofs ParseTotal ParseFuel Faithful1 Faithful2 Faithful3 Faithful4.
Import ListNotations.

(* in-order leaves; Broadcast contributes none *)
Fixpoint atoms (p : policy) : list qattr :=
  match p with
  | Broadcast => []
  | Term a => [a]
  | Conj l r => atoms l ++ atoms r
  | Disj l r => atoms l ++ atoms r
  end.

(* the simplification performed by the parser's smart constructors, applied bottom-up *)
Fixpoint norm (f : policy) : policy :=
  match f with
  | Broadcast => Broadcast
  | Term a => Term a
  | Conj l r => pand (norm l) (norm r)
  | Disj l r => por (norm l) (norm r)
  end.

Fixpoint star_free (f : policy) : bool :=
  match f with
  | Broadcast => false
  | Term _ => true
  | Conj l r => star_free l && star_free r
  | Disj l r => star_free l && star_free r
  end.

(* ---- smart constructors ---- *)
Lemma isb_pand a b : is_broadcast (pand a b) = is_broadcast a && is_broadcast b.
Proof. unfold pand. destruct a; cbn; try reflexivity; destruct b; reflexivity. Qed.
Lemma isb_por a b : is_broadcast (por a b) = is_broadcast a || is_broadcast b.
Proof. unfold por. destruct a; cbn; try reflexivity; destruct b; reflexivity. Qed.
Lemma atoms_pand a b : atoms (pand a b) = atoms a ++ atoms b.
Proof. unfold pand. destruct a; cbn; try reflexivity; destruct b; cbn; rewrite ?app_nil_r; reflexivity. Qed.
Lemma atoms_por a b : atoms (por a b) = if is_broadcast a || is_broadcast b then [] else atoms a ++ atoms b.
Proof. unfold por. destruct a; cbn; try reflexivity; destruct b; reflexivity. Qed.
Lemma isb_conjugate rest : forall first, is_broadcast (conjugate first rest) = is_broadcast first && forallb is_broadcast rest.
Proof.
  unfold conjugate. induction rest as [|x rest IH]; intros first; cbn [fold_left forallb].
  - rewrite andb_true_r. reflexivity.
  - rewrite IH, isb_pand, andb_assoc. reflexivity.
Qed.
Lemma atoms_conjugate rest : forall first, atoms (conjugate first rest) = atoms first ++ concat (map atoms rest).
Proof.
  unfold conjugate. induction rest as [|x rest IH]; intros first; cbn [fold_left map concat].
  - rewrite app_nil_r. reflexivity.
  - rewrite IH, atoms_pand, app_assoc. reflexivity.
Qed.
Lemma isb_atoms p : is_broadcast p = true -> atoms p = [].
Proof. destruct p; cbn; intros H; try discriminate; reflexivity. Qed.

Lemma norm_star_free f : star_free f = true -> norm f = f /\ is_broadcast f = false.
Proof.
  induction f as [|a|l IHl r IHr|l IHl r IHr]; cbn [star_free norm]; intros H.
  - discriminate.
  - split; reflexivity.
  - apply andb_true_iff in H. destruct H as [Hl Hr]. destruct (IHl Hl) as [El Bl]. destruct (IHr Hr) as [Er Br].
    rewrite El, Er. unfold pand. rewrite Bl, Br. split; reflexivity.
  - apply andb_true_iff in H. destruct H as [Hl Hr]. destruct (IHl Hl) as [El Bl]. destruct (IHr Hr) as [Er Br].
    rewrite El, Er. unfold por. rewrite Bl, Br. split; reflexivity.
Qed.

Lemma norm_sound env f : eval env (norm f) = eval env f.
Proof. induction f as [|a|l IHl r IHr|l IHl r IHr]; cbn [norm eval]; rewrite ?pand_sound, ?por_sound, ?IHl, ?IHr; reflexivity. Qed.

Lemma atoms_norm_incl f : incl (atoms (norm f)) (atoms f).
Proof.
  induction f as [|a|l IHl r IHr|l IHl r IHr]; cbn [norm atoms]; intros x Hx.
  - exact Hx.
  - exact Hx.
  - rewrite atoms_pand in Hx. apply in_app_iff in Hx. apply in_app_iff. destruct Hx as [Hx|Hx]; [left; apply IHl|right; apply IHr]; exact Hx.
  - rewrite atoms_por in Hx. destruct (is_broadcast (norm l) || is_broadcast (norm r)); [destruct Hx|].
    apply in_app_iff in Hx. apply in_app_iff. destruct Hx as [Hx|Hx]; [left; apply IHl|right; apply IHr]; exact Hx.
Qed.

(* ---- the relation between the parser's result and the printed formula ---- *)
Definition sim (p f : policy) : Prop :=
  (forall env, eval env p = eval env f) /\ atoms p = atoms (norm f) /\ is_broadcast p = is_broadcast (norm f).
Definition simL (ps : list policy) (g : policy) : Prop :=
  (forall env, forallb (eval env) ps = eval env g) /\ concat (map atoms ps) = atoms (norm g) /\
  forallb is_broadcast ps = is_broadcast (norm g).

Definition QAtom' (f : policy) (s : str) : Prop :=
  forall r q fu, tail_ok r -> RT (s ++ r) -> (length (s ++ r) < S fu)%nat ->
  exists p, sim p f /\ parse_fuel true (S fu) (s ++ r) q = parse_fuel true fu r (q ++ [p]).
Definition QAnd' (g : policy) (t : str) : Prop :=
  forall r q fu, tail_or r -> RT (t ++ r) -> (length (t ++ r) < fu)%nat ->
  exists ps fu', ps <> [] /\ simL ps g /\ (length r < fu')%nat /\
                 parse_fuel true fu (t ++ r) q = parse_fuel true fu' r (q ++ ps).
Definition QOr' (f : policy) (s : str) : Prop :=
  forall fu, RT s -> (length s < fu)%nat -> exists p, parse_fuel true fu s [] = Ok p /\ sim p f.

Lemma sim_conjugate p0 ps g : simL (p0 :: ps) g -> sim (conjugate p0 ps) g.
Proof.
  intros (Hev & Hat & Hb). repeat split.
  - intros env. rewrite conjugate_sound. apply (Hev env).
  - rewrite atoms_conjugate. exact Hat.
  - rewrite isb_conjugate. exact Hb.
Qed.

Lemma faithful_atoms_mutual :
  (forall f s, PAtom f s -> QAtom' f s) /\ (forall f s, PAnd f s -> QAnd' f s) /\ (forall f s, POr f s -> QOr' f s).
Proof.
  apply printed_mutind.
  - (* term *)
    intros d n w1 w2 w3 Hd Hn H1 H2 H3 r q fu Hr HRT Hlen.
    exists (Term (mk d n)). split; [repeat split; reflexivity|].
    rewrite <- !app_assoc in *. apply step_term; assumption.
  - (* group *)
    intros f s w1 w2 HP IH H1 H2 r q fu Hr HRT Hlen.
    destruct (proj2 (proj2 printed_nice) _ _ HP) as (Hb & Hne & HRTs).
    rewrite <- !app_assoc in HRT, Hlen. rewrite <- !app_assoc.
    destruct fu as [|fu]. { rewrite !app_length in Hlen. cbn in Hlen. lia. }
    destruct (IH (S fu) HRTs) as (p & Hp & Hsim). { rewrite !app_length in Hlen. cbn in Hlen. lia. }
    exists p. split; [exact Hsim|].
    replace (w1 ++ [40%N] ++ s ++ w2 ++ [41%N] ++ r) with (w1 ++ [40%N] ++ (s ++ w2) ++ [41%N] ++ r) by (rewrite <- !app_assoc; reflexivity).
    apply step_group.
    + apply bal_app; [exact Hb|apply bal_ws; exact H2].
    + exact H1.
    + rewrite <- !app_assoc. exact HRT.
    + rewrite parse_fuel_trail_ws by exact H2. exact Hp.
  - (* star *)
    intros w1 w2 w3 H1 H2 H3 r q fu Hr HRT Hlen.
    exists Broadcast. split; [repeat split; reflexivity|].
    destruct fu as [|fu]. { rewrite !app_length in Hlen. cbn in Hlen. lia. }
    rewrite <- !app_assoc in HRT. rewrite <- !app_assoc.
    replace (w1 ++ [40%N] ++ w2 ++ [42%N] ++ w3 ++ [41%N] ++ r) with (w1 ++ [40%N] ++ (w2 ++ [42%N] ++ w3) ++ [41%N] ++ r) by (rewrite <- !app_assoc; reflexivity).
    apply step_group.
    + apply bal_app; [apply bal_ws; exact H2|]. apply bal_app; [apply bal_nometa; reflexivity|apply bal_ws; exact H3].
    + exact H1.
    + rewrite <- !app_assoc. exact HRT.
    + apply step_star; assumption.
  - (* and: single atom *)
    intros f s HA IH r q fu Hr HRT Hlen.
    destruct fu as [|fu]; [lia|].
    destruct (IH r q fu (tail_or_ok _ Hr) HRT Hlen) as (p & (Hev & Hat & Hb) & Hp).
    exists [p], fu. split; [discriminate|]. split; [|split; [|exact Hp]].
    + repeat split.
      * intros env. cbn. rewrite andb_true_r. apply Hev.
      * cbn. rewrite app_nil_r. exact Hat.
      * cbn. rewrite andb_true_r. exact Hb.
    + destruct (proj1 printed_nice _ _ HA) as (_ & Hne & _).
      rewrite app_length in Hlen. destruct s; [contradiction|cbn in Hlen; lia].
  - (* and: atom && rest *)
    intros f g s t w HA IHA Hw HT IHT r q fu Hr HRT Hlen.
    rewrite <- !app_assoc in HRT, Hlen. cbn [app] in HRT, Hlen.
    destruct fu as [|fu]; [lia|].
    destruct (proj1 printed_nice _ _ HA) as (_ & Hnes & _).
    destruct (IHA (w ++ 38%N :: 38%N :: t ++ r) q fu) as (p & (Hev & Hat & Hb) & Hp).
    { right. exists w, 38%N, (38%N :: t ++ r). repeat split. exact Hw. }
    { exact HRT. } { exact Hlen. }
    assert (Hls : (1 <= length s)%nat) by (destruct s; [contradiction|cbn; lia]).
    destruct fu as [|fu]. { rewrite !app_length in Hlen. cbn in Hlen. lia. }
    assert (HRT2 : RT (w ++ 38%N :: 38%N :: t ++ r)). { apply (RT_app_r s); [exact HRT|]. destruct w; discriminate. }
    assert (HRT3 : RT (t ++ r)).
    { replace (w ++ 38%N :: 38%N :: t ++ r) with ((w ++ [38%N; 38%N]) ++ t ++ r) in HRT2 by (rewrite <- app_assoc; reflexivity).
      apply (RT_app_r _ _ HRT2). destruct (proj1 (proj2 printed_nice) _ _ HT) as (_ & Hnet & _). intros H. apply app_eq_nil in H. destruct H. contradiction. }
    destruct (IHT r (q ++ [p]) fu Hr HRT3) as (ps & fu' & Hne & (Hev2 & Hat2 & Hb2) & Hlen2 & Hp2).
    { rewrite ?app_length in *. cbn [length] in *. rewrite ?app_length in *. lia. }
    exists (p :: ps), fu'. split; [discriminate|]. split; [|split; [exact Hlen2|]].
    + repeat split.
      * intros env. cbn. rewrite Hev, Hev2. reflexivity.
      * cbn [map concat norm]. rewrite atoms_pand, Hat, Hat2. reflexivity.
      * cbn [forallb norm]. rewrite isb_pand, Hb, Hb2. reflexivity.
    + rewrite <- !app_assoc. cbn [app]. rewrite Hp.
      destruct (q ++ [p]) as [|q0 q'] eqn:Eq; [destruct q; discriminate|].
      rewrite step_and by assumption. rewrite Hp2. rewrite <- Eq, <- app_assoc. reflexivity.
  - (* or: single conjunction *)
    intros f s _ IH fu HRT Hlen.
    destruct (IH [] [] fu (or_introl eq_refl)) as (ps & fu' & Hne & HsimL & Hlen' & Hp).
    { rewrite app_nil_r. exact HRT. } { rewrite app_nil_r. exact Hlen. }
    rewrite app_nil_r in Hp. cbn [app] in Hp.
    destruct ps as [|p0 ps]; [contradiction|]. destruct fu' as [|fu']; [cbn in Hlen'; lia|].
    exists (conjugate p0 ps). split; [rewrite Hp; apply step_end|]. apply sim_conjugate. exact HsimL.
  - (* or: conjunction || rest *)
    intros f g s t w HA IHA Hw HT IHT fu HRT Hlen.
    destruct (proj1 (proj2 printed_nice) _ _ HA) as (_ & Hnes & _).
    destruct (proj2 (proj2 printed_nice) _ _ HT) as (_ & Hnet & HRTt).
    destruct (IHA (w ++ 124%N :: 124%N :: t) [] fu) as (ps & fu' & Hne & HsimL & Hlen' & Hp).
    { right. exists w, t. split; [exact Hw|reflexivity]. } { exact HRT. } { exact Hlen. }
    cbn [app] in Hp. destruct ps as [|p0 ps]; [contradiction|].
    destruct fu' as [|fu']; [lia|].
    assert (HRT2 : RT (w ++ 124%N :: 124%N :: t)). { apply (RT_app_r s); [exact HRT|]. destruct w; discriminate. }
    destruct (IHT fu' HRTt) as (ph & Hph & (Hevh & Hath & Hbh)).
    { rewrite !app_length in Hlen'. cbn in Hlen'. lia. }
    destruct (sim_conjugate _ _ _ HsimL) as (Hevc & Hatc & Hbc).
    exists (por (conjugate p0 ps) ph). split.
    + rewrite Hp. rewrite step_or by assumption. rewrite Hph. reflexivity.
    + repeat split.
      * intros env. rewrite por_sound. cbn [eval]. rewrite Hevc, Hevh. reflexivity.
      * cbn [norm]. rewrite !atoms_por, Hbc, Hbh, Hatc, Hath. reflexivity.
      * cbn [norm]. rewrite !isb_por, Hbc, Hbh. reflexivity.
Qed.

(* Strongest true form: same truth table, and exactly the attribute names of the simplified formula, in order.
   Names are those of the printing (good_name d, good_name n), i.e. surrounding white space is removed and
   nothing else is altered. *)
Theorem parse_faithful_atoms_norm f s w : POr f s -> ws w ->
  exists p, parse true (s ++ w) = Ok p /\ (forall env, eval env p = eval env f) /\
            atoms p = atoms (norm f) /\ is_broadcast p = is_broadcast (norm f).
Proof.
  intros HP Hw. unfold parse. rewrite parse_fuel_trail_ws by exact Hw.
  destruct (proj2 (proj2 printed_nice) _ _ HP) as (_ & _ & HRT).
  destruct (proj2 (proj2 faithful_atoms_mutual) _ _ HP (S (length (s ++ w))) HRT) as (p & Hp & Hsim).
  { rewrite app_length. lia. }
  exists p. split; [exact Hp|exact Hsim].
Qed.
Print Assumptions parse_faithful_atoms_norm.

(* Full statement asked for:
     forall f s w, POr f s -> ws w ->
       exists p, parse true (s ++ w) = Ok p /\ (forall env, eval env p = eval env f) /\ atoms p = atoms f.
   It is FALSE when a disjunction has a Broadcast side: BitOr returns Broadcast and the other side's names vanish
   (see parse_faithful_atoms_refuted).  It holds for Broadcast-free formulas: *)
Theorem parse_faithful_atoms_partial f s w : POr f s -> ws w -> star_free f = true ->
  exists p, parse true (s ++ w) = Ok p /\ (forall env, eval env p = eval env f) /\ atoms p = atoms f.
Proof.
  intros HP Hw Hsf. destruct (parse_faithful_atoms_norm f s w HP Hw) as (p & Hp & Hev & Hat & _).
  exists p. split; [exact Hp|]. split; [exact Hev|]. rewrite Hat. destruct (norm_star_free f Hsf) as [-> _]. reflexivity.
Qed.
Print Assumptions parse_faithful_atoms_partial.

(* In general no name is invented: the result's names are among the printed ones. *)
Corollary parse_faithful_atoms_incl f s w : POr f s -> ws w ->
  exists p, parse true (s ++ w) = Ok p /\ (forall env, eval env p = eval env f) /\ incl (atoms p) (atoms f).
Proof.
  intros HP Hw. destruct (parse_faithful_atoms_norm f s w HP Hw) as (p & Hp & Hev & Hat & _).
  exists p. split; [exact Hp|]. split; [exact Hev|]. rewrite Hat. apply atoms_norm_incl.
Qed.
Print Assumptions parse_faithful_atoms_incl.

(* ---- witnesses ---- *)
Lemma good_name_compute n :
  (forallb name_char n && match n with c :: _ => negb (is_ws c) | [] => false end
   && match rev n with c :: _ => negb (is_ws c) | [] => false end) = true -> good_name n.
Proof.
  intros H. apply andb_true_iff in H. destruct H as [H H3]. apply andb_true_iff in H. destruct H as [H1 H2].
  split; [exact H1|]. split.
  - destruct n as [|c t]; [discriminate|]. exists c, t. split; [reflexivity|]. apply negb_true_iff. exact H2.
  - right. destruct (rev n) as [|c t] eqn:E; [discriminate|]. exists (rev t), c. split; [|apply negb_true_iff; exact H3].
    rewrite <- (rev_involutive n), E. reflexivity.
Qed.

Definition D1 : str := [68;49]%N.  Definition D2 : str := [68;50]%N.
Definition nA : str := [65]%N.  Definition nB : str := [66]%N.  Definition nC : str := [67]%N.
Lemma gn_D1 : good_name D1. Proof. apply good_name_compute. reflexivity. Qed.
Lemma gn_D2 : good_name D2. Proof. apply good_name_compute. reflexivity. Qed.
Lemma gn_A : good_name nA. Proof. apply good_name_compute. reflexivity. Qed.
Lemma gn_B : good_name nB. Proof. apply good_name_compute. reflexivity. Qed.
Lemma gn_C : good_name nC. Proof. apply good_name_compute. reflexivity. Qed.

(* "(D1::A || D1::B) && D2::C" *)
Definition ex_str : str := [40;68;49;58;58;65;32;124;124;32;68;49;58;58;66;41;32;38;38;32;68;50;58;58;67]%N.
Definition ex_formula : policy := Conj (Disj (Term (mk D1 nA)) (Term (mk D1 nB))) (Term (mk D2 nC)).

Example ex_printed : POr ex_formula ex_str.
Proof.
  apply POr_one.
  change ex_str with (([] ++ [40%N] ++ ((([] ++ D1 ++ [] ++ [58;58]%N ++ [] ++ nA) ++ [32%N] ++ 124%N :: 124%N :: ([32%N] ++ D1 ++ [] ++ [58;58]%N ++ [] ++ nB)) ++ []) ++ [41%N]) ++ [32%N] ++ 38%N :: 38%N :: ([32%N] ++ D2 ++ [] ++ [58;58]%N ++ [] ++ nC)).
  apply PAnd_more.
  - apply PA_group; [|reflexivity|reflexivity].
    apply POr_more; [|reflexivity|].
    + apply PAnd_one. apply PA_term; try reflexivity; [apply gn_D1|apply gn_A].
    + apply POr_one. apply PAnd_one. apply PA_term; try reflexivity; [apply gn_D1|apply gn_B].
  - reflexivity.
  - apply PAnd_one. apply PA_term; try reflexivity; [apply gn_D2|apply gn_C].
Qed.
Example ex_parsed : parse true ex_str = Ok ex_formula.
Proof. vm_compute. reflexivity. Qed.
Example ex_atoms : atoms ex_formula = [mk D1 nA; mk D1 nB; mk D2 nC] /\ star_free ex_formula = true.
Proof. split; reflexivity. Qed.
Example ex_dnf : parse_dnf true ex_str = Ok [[mk D1 nA; mk D2 nC]; [mk D1 nB; mk D2 nC]].
Proof. vm_compute. reflexivity. Qed.
(* the theorem applies to the example (non-vacuity), also with trailing white space *)
Example ex_theorem : exists p, parse true (ex_str ++ [32%N]) = Ok p /\ (forall env, eval env p = eval env ex_formula) /\ atoms p = atoms ex_formula.
Proof. apply parse_faithful_atoms_partial; [exact ex_printed|reflexivity|reflexivity]. Qed.

(* "(*) || D1::A" is a printing of Disj Broadcast (Term D1::A); the parser returns Broadcast: the name is lost *)
Definition bad_str : str := [40;42;41;32;124;124;32;68;49;58;58;65]%N.
Definition bad_formula : policy := Disj Broadcast (Term (mk D1 nA)).
Example bad_printed : POr bad_formula bad_str.
Proof.
  change bad_str with (([] ++ [40%N] ++ ([] ++ [42%N] ++ []) ++ [41%N]) ++ [32%N] ++ 124%N :: 124%N :: ([32%N] ++ D1 ++ [] ++ [58;58]%N ++ [] ++ nA)).
  apply POr_more; [|reflexivity|].
  - apply PAnd_one. apply PA_star; reflexivity.
  - apply POr_one. apply PAnd_one. apply PA_term; try reflexivity; [apply gn_D1|apply gn_A].
Qed.
Theorem parse_faithful_atoms_refuted :
  ~ (forall f s w, POr f s -> ws w ->
       exists p, parse true (s ++ w) = Ok p /\ (forall env, eval env p = eval env f) /\ atoms p = atoms f).
Proof.
  intros H. destruct (H bad_formula bad_str [] bad_printed eq_refl) as (p & Hp & _ & Hat).
  vm_compute in Hp. inversion Hp; subst p. discriminate Hat.
Qed.
Print Assumptions parse_faithful_atoms_refuted.
(* even membership fails there *)
Theorem parse_faithful_atoms_mem_refuted :
  ~ (forall f s w, POr f s -> ws w ->
       exists p, parse true (s ++ w) = Ok p /\ forall a, In a (atoms p) <-> In a (atoms f)).
Proof.
  intros H. destruct (H bad_formula bad_str [] bad_printed eq_refl) as (p & Hp & Hat).
  vm_compute in Hp. inversion Hp; subst p. apply (Hat (mk D1 nA)). left. reflexivity.
Qed.

(* ---- the DNF mentions exactly the attributes of the policy ---- *)
Lemma to_dnf_nonempty p : to_dnf p <> [].
Proof.
  induction p as [|a|l IHl r IHr|l IHl r IHr]; cbn [to_dnf]; try discriminate.
  - destruct (to_dnf l) as [|vl tl]; [contradiction|]. destruct (to_dnf r) as [|vr tr]; [contradiction|]. discriminate.
  - destruct (to_dnf l); [contradiction|discriminate].
Qed.

Theorem dnf_atoms p a : In a (concat (to_dnf p)) <-> In a (atoms p).
Proof.
  induction p as [|b|l IHl r IHr|l IHl r IHr]; cbn [to_dnf atoms].
  - cbn. tauto.
  - cbn. tauto.
  - rewrite in_app_iff, <- IHl, <- IHr, !in_concat. split.
    + intros (c & Hc & Ha). apply in_flat_map in Hc. destruct Hc as (vl & Hvl & Hc).
      apply in_map_iff in Hc. destruct Hc as (vr & <- & Hvr). apply in_app_iff in Ha.
      destruct Ha as [Ha|Ha]; [left; exists vl|right; exists vr]; split; assumption.
    + intros [(vl & Hvl & Ha)|(vr & Hvr & Ha)].
      * destruct (to_dnf r) as [|vr tr] eqn:Er; [exfalso; exact (to_dnf_nonempty r Er)|].
        exists (vl ++ vr). split; [|apply in_app_iff; left; exact Ha].
        apply in_flat_map. exists vl. split; [exact Hvl|]. apply in_map_iff. exists vr. split; [reflexivity|left; reflexivity].
      * destruct (to_dnf l) as [|vl tl] eqn:El; [exfalso; exact (to_dnf_nonempty l El)|].
        exists (vl ++ vr). split; [|apply in_app_iff; right; exact Ha].
        apply in_flat_map. exists vl. split; [left; reflexivity|]. apply in_map_iff. exists vr. split; [reflexivity|exact Hvr].
  - rewrite concat_app, !in_app_iff, IHl, IHr. tauto.
Qed.
Print Assumptions dnf_atoms.

(* every clause of the DNF of a parsed printing only uses printed names *)
Corollary parse_dnf_names f s w : POr f s -> ws w ->
  exists d, parse_dnf true (s ++ w) = Ok d /\ (forall env, eval_dnf env d = eval env f) /\
            forall a, In a (concat d) <-> In a (atoms (norm f)).
Proof.
  intros HP Hw. destruct (parse_faithful_atoms_norm f s w HP Hw) as (p & Hp & Hev & Hat & _).
  exists (to_dnf p). unfold parse_dnf. rewrite Hp. split; [reflexivity|]. split.
  - intros env. rewrite dnf_equiv. apply Hev.
  - intros a. rewrite dnf_atoms, Hat. tauto.
Qed.
Print Assumptions parse_dnf_names.
