(* Prototype proofs (scratch): refresh_coordinate_keys computes the window of the append-only log (repaired variant) *)
From Coq Require Import List NArith Bool Arith Lia.
Require Import Policy Structure Keys.
Import ListNotations.

Definition fx_all := {| fx_ids := true; fx_rev := true; fx_prune := true; fx_rekey_flag := true;
                        fx_refresh := true; fx_update := true; fx_recaps := true; fx_parse := true |}.

Lemma sec_eqb_eq a b : sec_eqb a b = true <-> a = b.
Proof.
  unfold sec_eqb. destruct a as [ta ha], b as [tb hb]; cbn. split.
  - intros H. apply andb_true_iff in H. destruct H as [H1 H2]. apply N.eqb_eq in H1. apply Bool.eqb_prop in H2. subst. reflexivity.
  - intros H. inversion H; subst. rewrite N.eqb_refl, Bool.eqb_reflx. reflexivity.
Qed.
Lemma sec_eqb_refl a : sec_eqb a a = true. Proof. apply sec_eqb_eq. reflexivity. Qed.
Lemma sec_eqb_neq a b : a <> b -> sec_eqb a b = false.
Proof. intros H. destruct (sec_eqb a b) eqn:E; [apply sec_eqb_eq in E; contradiction|reflexivity]. Qed.

(* flags are irrelevant for refresh: work with the list of secrets of the MSK chain *)
Definition secs (mch : list (bool * secret)) : list secret := map snd mch.

Lemma take_until_found first : forall mch pre post,
  secs mch = pre ++ first :: post -> ~ In first pre ->
  exists mrest, take_until first mch = (pre, mrest, true) /\ secs mrest = post.
Proof.
  induction mch as [|[fl s] mch IH]; intros pre post E Hn.
  - destruct pre; discriminate.
  - cbn [take_until]. destruct pre as [|p pre]; cbn in E; inversion E; subst.
    + rewrite sec_eqb_refl. exists mch. split; reflexivity.
    + rewrite sec_eqb_neq by (intros ->; apply Hn; left; reflexivity).
      destruct (IH pre post H1) as (mrest & Ht & Hs); [intros Hin; apply Hn; right; exact Hin|].
      rewrite Ht. exists mrest. split; [reflexivity|exact Hs].
Qed.

Lemma take_until_absent first : forall mch, ~ In first (secs mch) ->
  exists mrest, take_until first mch = (secs mch, mrest, false).
Proof.
  induction mch as [|[fl s] mch IH]; intros Hn; cbn [take_until].
  - exists []. reflexivity.
  - cbn in Hn. rewrite sec_eqb_neq by (intros ->; apply Hn; left; reflexivity).
    destruct IH as (mrest & Ht); [intros Hin; apply Hn; right; exact Hin|]. rewrite Ht. exists mrest. reflexivity.
Qed.

(* common prefix of the rest of the user chain and the rest of the MSK chain, when both are windows of one log *)
Lemma common_windows : forall (L : list secret) a b mrest,
  NoDup L -> secs mrest = firstn a L ->
  common (firstn b L) mrest = firstn (Nat.min a b) L.
Proof.
  induction L as [|x L IH]; intros a b mrest Hnd Hm.
  - rewrite !firstn_nil. destruct mrest; reflexivity.
  - destruct b as [|b]; [rewrite Nat.min_0_r; reflexivity|].
    destruct a as [|a].
    + cbn in Hm. destruct mrest; [|discriminate]. reflexivity.
    + cbn [firstn] in *. destruct mrest as [|[fl s] mrest]; [discriminate|]. cbn in Hm. inversion Hm; subst.
      cbn [common Nat.min]. rewrite sec_eqb_refl. cbn [firstn]. f_equal. apply IH; [inversion Hnd; assumption|assumption].
Qed.

(* The repaired refresh of one chain.
   log L (newest first, no repetition); MSK chain = first k of the log (k >= 1);
   user chain = window [i, j) of the log (i < j <= length L).
   Result: [0, min j k) if the user's newest secret is still in the MSK (i < k), all k MSK secrets otherwise. *)
Theorem refresh_chain_window (L : list secret) (mch : list (bool * secret)) (k i j : nat) :
  NoDup L -> secs mch = firstn k L -> (i < j <= length L)%nat -> (k <= length L)%nat ->
  refresh_chain fx_all mch (firstn (j - i) (skipn i L)) =
    Some (if (i <? k)%nat then firstn (Nat.min j k) L else firstn k L).
Proof.
  intros Hnd Hm Hij Hk.
  assert (Hsplit : L = firstn i L ++ skipn i L) by (symmetry; apply firstn_skipn).
  destruct (skipn i L) as [|first tail] eqn:Esk.
  { exfalso. assert (length (skipn i L) = 0%nat) by (rewrite Esk; reflexivity). rewrite skipn_length in H. lia. }
  assert (Hfirst_notin : ~ In first (firstn i L)).
  { rewrite Hsplit in Hnd. intros Hin. eapply NoDup_remove_2 in Hnd. apply Hnd. apply in_app_iff. left. exact Hin. }
  replace (j - i)%nat with (S (j - i - 1)) by lia. cbn [firstn]. unfold refresh_chain.
  destruct (i <? k)%nat eqn:Eik.
  - apply Nat.ltb_lt in Eik.
    (* secs mch = firstn i L ++ first :: firstn (k - i - 1) tail *)
    assert (Hm' : secs mch = firstn i L ++ first :: firstn (k - i - 1) tail).
    { rewrite Hm. rewrite Hsplit at 1. rewrite firstn_app, firstn_firstn, firstn_length.
      replace (Nat.min k i) with i by lia. replace (k - Nat.min i (length L))%nat with (S (k - i - 1)) by lia. reflexivity. }
    destruct (take_until_found first mch _ _ Hm' Hfirst_notin) as (mrest & Ht & Hs). rewrite Ht.
    cbn [fx_prune fx_all].
    (* common (firstn (j-i-1) tail) mrest with secs mrest = firstn (k-i-1) tail *)
    assert (Hndt : NoDup tail).
    { rewrite Hsplit in Hnd. apply NoDup_remove_1 in Hnd. clear - Hnd. induction (firstn i L); cbn in Hnd; [exact Hnd|inversion Hnd; auto]. }
    rewrite (common_windows tail (k - i - 1) (j - i - 1) mrest Hndt Hs).
    f_equal.
    assert (HL : firstn (Nat.min j k) L = firstn i L ++ first :: firstn (Nat.min (k - i - 1) (j - i - 1)) tail).
    { rewrite Hsplit at 1. rewrite firstn_app, firstn_firstn, firstn_length.
      replace (Nat.min (Nat.min j k) i) with i by lia.
      replace (Nat.min j k - Nat.min i (length L))%nat with (S (Nat.min (k - i - 1) (j - i - 1))) by lia.
      reflexivity. }
    rewrite HL. reflexivity.
  - apply Nat.ltb_ge in Eik.
    assert (Hnotin : ~ In first (secs mch)).
    { rewrite Hm. intros Hin. apply Hfirst_notin.
      assert (E : firstn k L = firstn k (firstn i L)) by (rewrite firstn_firstn; f_equal; lia).
      rewrite E in Hin. rewrite <- (firstn_skipn k (firstn i L)). apply in_app_iff. left. exact Hin. }
    destruct (take_until_absent first mch Hnotin) as (mrest & Ht). rewrite Ht. cbn [fx_prune fx_all]. rewrite Hm. reflexivity.
Qed.
Print Assumptions refresh_chain_window.
