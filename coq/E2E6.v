(* End-to-end statements of C01 / C02 on the key-management state machine, part 6:
   the sequence  OUpdate ; OKeygen UP ; OEncaps j EP ; ODecaps k e  for VALID policies, without assuming that
   OKeygen and OEncaps succeed: if both policies parse, name each dimension at most once per clause, the user
   policy names existing attributes and the encryption policy names existing, enabled attributes, then both
   operations succeed and the decapsulation returns the encapsulated seed if some user clause covers some
   encryption clause, and nothing otherwise. *)
From Coq Require Import List NArith Bool Arith Lia.
From CC Require Import Policy Structure Keys KeysMachine SelProofs GoodProofs AssocLemmas
                       CoverProofs1 CoverProofs2 CoverPolicy DisabledProofs WfProofs
                       KInv1 KInv4 KInv5 KInv7 E2E1 E2E2 E2E3 E2E4 E2E5.
Import ListNotations.
Local Open Scope N_scope.

Theorem C01_C02_end_to_end s0 UP EP up ep du dx :
  let s1 := fst (step fixed s0 OUpdate) in
  let st := m_st (st_msk s1) in
  let j := length (st_mpks s0) in
  let s2 := fst (step fixed s1 (OKeygen UP)) in
  let s3 := fst (step fixed s2 (OEncaps j EP)) in
  let k := length (st_usks s0) in
  let e := length (st_encs s0) in
  let u := last (st_usks s2) du in
  let x := last (st_encs s3) dx in
  reach s0 -> snd (step fixed s0 OUpdate) = ObOk ->
  parse true UP = Ok up -> parse true EP = Ok ep ->
  (forall U, In U (to_dnf up) -> NoDup (map qdim U)) -> (forall E, In E (to_dnf ep) -> NoDup (map qdim E)) ->
  names_exist st up -> (forall E, In E (to_dnf ep) -> clause_enabled st E) ->
  snd (step fixed s1 (OKeygen UP)) = ObOk /\ snd (step fixed s2 (OEncaps j EP)) = ObOk /\
  nth_error (st_usks s3) k = Some u /\ nth_error (st_encs s3) e = Some x /\
  ((exists U E, In U (to_dnf up) /\ In E (to_dnf ep) /\ covers st U E) ->
     decaps fixed u x = Some (x_seed x) /\ snd (step fixed s3 (ODecaps k e)) = ObSome (x_seed x)) /\
  ((forall U E, In U (to_dnf up) -> In E (to_dnf ep) -> ~ covers st U E) ->
     decaps fixed u x = None /\ snd (step fixed s3 (ODecaps k e)) = ObNone).
Proof.
  intros s1 st j s2 s3 k e u x Hr Hok Hup Hep HU HE Hnames Hen.
  assert (Hr1 : reach s1) by (apply reach_step; exact Hr).
  assert (Hr2 : reach s2) by (apply reach_step; exact Hr1).
  pose proof (update_synced s0 Hr Hok) as Hsync. fold s1 in Hsync.
  destruct (inv14_reach _ Hr1) as [[_ Hnd _] _].
  assert (HK : snd (step fixed s1 (OKeygen UP)) = ObOk) by (eapply keygen_succeeds; eassumption).
  assert (HEn : snd (step fixed s2 (OEncaps j EP)) = ObOk).
  { apply (encaps_succeeds_iff s2 j EP ep (st_msk s1)); try assumption.
    - apply (wfb_reach s1 Hr1).
    - destruct (keygen_shape s1 UP HK) as (rs & chs & _ & _ & _ & Hm & _). fold s2 in Hm. rewrite Hm.
      destruct (update_shape s0 Hok) as (Hmpk & _). fold s1 in Hmpk. rewrite Hmpk. unfold j.
      rewrite nth_error_app2 by lia. rewrite Nat.sub_diag. reflexivity. }
  split; [exact HK|]. split; [exact HEn|].
  assert (Hn : nth_error (st_usks s3) k = Some u /\ nth_error (st_encs s3) e = Some x) by (apply (plain_setting s0 UP EP du dx Hok HK HEn)).
  split; [apply Hn|]. split; [apply Hn|]. split.
  - intros Hcov. apply (C01_complete_plain s0 UP EP up ep du dx Hr Hok HK HEn Hup Hep HU HE Hcov).
  - intros Hno. apply (C02_sound_plain s0 UP EP up ep du dx Hr Hok HK HEn Hup Hep HU HE Hno).
Qed.
Print Assumptions C01_C02_end_to_end.

(* ================================================================ non-vacuity, on the structure of E2E3.v *)
Lemma ex_names_UP : names_exist ex_st (Conj (Term qSh) (Term qDa)).
Proof. intros C q [<-|[]] [<-|[<-|[]]]; eexists; vm_compute; reflexivity. Qed.
Lemma ex_enabled_EP1 : forall E, In E (to_dnf (Conj (Term qSl) (Term qDa))) -> clause_enabled ex_st E.
Proof. intros E [<-|[]] q [<-|[<-|[]]]; eexists; (split; [vm_compute; reflexivity|reflexivity]). Qed.
Lemma ex_enabled_EP2 : forall E, In E (to_dnf (Term qDb)) -> clause_enabled ex_st E.
Proof. intros E [<-|[]] q [<-|[]]; eexists; (split; [vm_compute; reflexivity|reflexivity]). Qed.

Example end_to_end_nonvacuous :
  snd (run fixed ex_s0 [OUpdate; OKeygen pUP; OEncaps 1 pEP1; ODecaps 0 0]) = [ObOk; ObOk; ObOk; ObSome 10] /\
  snd (run fixed ex_s0 [OUpdate; OKeygen pUP; OEncaps 1 pEP2; ODecaps 0 0]) = [ObOk; ObOk; ObOk; ObNone] /\
  (* the same two decapsulation results, obtained from the theorem *)
  (let s2 := fst (step fixed (fst (step fixed ex_s0 OUpdate)) (OKeygen pUP)) in
   let k := length (st_usks ex_s0) in let e := length (st_encs ex_s0) in let j := length (st_mpks ex_s0) in
   let s3 := fst (step fixed s2 (OEncaps j pEP1)) in
   let s3' := fst (step fixed s2 (OEncaps j pEP2)) in
   snd (step fixed s3 (ODecaps k e)) = ObSome (x_seed (last (st_encs s3) ex_dx)) /\
   snd (step fixed s3' (ODecaps k e)) = ObNone).
Proof.
  split; [vm_compute; reflexivity|]. split; [vm_compute; reflexivity|].
  intros s2 k e j s3 s3'. subst s2 k e j s3 s3'.
  pose proof (C01_C02_end_to_end ex_s0 pUP pEP1 (Conj (Term qSh) (Term qDa)) (Conj (Term qSl) (Term qDa)) ex_du ex_dx) as T1.
  pose proof (C01_C02_end_to_end ex_s0 pUP pEP2 (Conj (Term qSh) (Term qDa)) (Term qDb) ex_du ex_dx) as T2.
  cbv zeta in T1, T2. specialize (T1 ex_reach). specialize (T2 ex_reach).
  discharge_computed T1. discharge_computed T1. discharge_computed T1.
  discharge_computed T2. discharge_computed T2. discharge_computed T2.
  specialize (T1 ex_nodup_UP ex_nodup_EP1 ex_names_UP ex_enabled_EP1).
  specialize (T2 ex_nodup_UP ex_nodup_EP2 ex_names_UP ex_enabled_EP2).
  destruct T1 as (_ & _ & _ & _ & T1 & _). destruct T2 as (_ & _ & _ & _ & _ & T2). split.
  - apply T1. exists [qSh; qDa], [qSl; qDa]. split; [left; reflexivity|]. split; [left; reflexivity|exact ex_covers].
  - apply T2. intros U E [<-|[]] [<-|[]]. exact ex_not_covers.
Qed.

(* the hypotheses of the general theorems of E2E1.v (Section Setting) are satisfiable together:
   key issued right after the update, encapsulation made after that key was issued *)
Example setting_inhabited : exists u x,
  let s1 := fst (step fixed ex_s0 OUpdate) in
  let j := length (st_mpks ex_s0) in
  let sK := run_state fixed s1 [] in
  let sE := run_state fixed s1 [OKeygen pUP] in
  reach ex_s0 /\ snd (step fixed ex_s0 OUpdate) = ObOk /\
  quiet_ops [] /\ quiet_ops [OKeygen pUP] /\
  snd (step fixed sK (OKeygen pUP)) = ObOk /\ st_usks (fst (step fixed sK (OKeygen pUP))) = st_usks sK ++ [u] /\
  snd (step fixed sE (OEncaps j pEP1)) = ObOk /\ st_encs (fst (step fixed sE (OEncaps j pEP1))) = st_encs sE ++ [x] /\
  parse true pUP = Ok (Conj (Term qSh) (Term qDa)) /\ parse true pEP1 = Ok (Conj (Term qSl) (Term qDa)) /\
  decaps fixed u x = Some (x_seed x).
Proof.
  eexists _, _. intros s1 j sK sE. subst s1 j sK sE.
  split; [exact ex_reach|]. split; [vm_compute; reflexivity|]. split; [constructor|]. split; [repeat constructor|].
  split; [vm_compute; reflexivity|]. split; [vm_compute; reflexivity|]. split; [vm_compute; reflexivity|]. split; [vm_compute; reflexivity|].
  split; [vm_compute; reflexivity|]. split; [vm_compute; reflexivity|]. vm_compute. reflexivity.
Qed.
