(* RevisionMap and RevisionVec (DictModel.v): chain discipline, empty chains, iterators.  Main results:
     rm_get_insert / rm_get_keep / rm_get_retain / rm_get_remove / rm_get_latest_head     each operation through the finite-map view
     rm_keep_zero_leaves_empty_chain, rm_keep_zero_refuted                             keep(k, 0) keeps the key with an EMPTY chain
     rmap_reachable_ok                                                                 no empty chain through insert / keep (n >= 1) / retain / remove
     rvec_reachable_nonempty, rv_from_chains_refuted                                   insert_new_chain drops empty chains; FromIterator does not
     rv_flat_iter_concat, rv_revisions_terminates / _complete / _kv_complete, rv_bfs_complete     the three iterators *)
From Coq Require Import List NArith Bool Arith Lia Permutation.
From CC Require Import Policy Structure RevIter DictModel DictProofs.
From CC Require AssocLemmas.
Import ListNotations.
Local Open Scope nat_scope.

(* ------------------------------------------------------------------ more association-list facts *)
Section Alist2.
  Context {A : Type}.
  Implicit Types (l : list (str * A)).
  Lemma alookup_areplace k' k v l :
    alookup k' (areplace k v l) = if str_eqb k' k then match alookup k l with Some _ => Some v | None => None end else alookup k' l.
  Proof.
    induction l as [|[h w] t IH]; cbn [areplace alookup]; [destruct (str_eqb k' k); reflexivity|]. seq k h.
    - subst h. cbn [alookup]. destruct (str_eqb k' k); reflexivity.
    - cbn [alookup]. rewrite IH. seq k' h; [|reflexivity]. subst k'. rewrite seqb_neq by congruence. reflexivity.
  Qed.
  Lemma areplace_keys k v l : map fst (areplace k v l) = map fst l.
  Proof. induction l as [|[h w] t IH]; cbn [areplace map fst]; [reflexivity|]. seq k h; cbn [map fst]; [subst; reflexivity|rewrite IH; reflexivity]. Qed.
  Lemma areplace_length k v l : length (areplace k v l) = length l.
  Proof. rewrite <- (map_length fst), areplace_keys, map_length. reflexivity. Qed.
  Lemma Forall_areplace (P : str * A -> Prop) k v l : Forall P l -> P (k, v) -> Forall P (areplace k v l).
  Proof.
    intros H Hv. induction H as [|[h w] t Hh Ht IH]; cbn [areplace]; [constructor|]. destruct (str_eqb k h); constructor; assumption.
  Qed.
  Lemma Forall_aremove (P : str * A -> Prop) k l : Forall P l -> Forall P (aremove k l).
  Proof. intros H. induction H as [|[h w] t Hh Ht IH]; cbn [aremove]; [constructor|]. destruct (str_eqb k h); [exact Ht|constructor; assumption]. Qed.
  Lemma Forall_filter (P : str * A -> Prop) f l : Forall P l -> Forall P (filter f l).
  Proof. intros H. induction H as [|x t Hh Ht IH]; cbn [filter]; [constructor|]. destruct (f x); [constructor; assumption|exact IH]. Qed.
  Lemma alookup_filter (f : str -> bool) k l : alookup k (filter (fun p => f (fst p)) l) = if f k then alookup k l else None.
  Proof.
    induction l as [|[h w] t IH]; cbn [filter alookup fst]; [destruct (f k); reflexivity|]. destruct (f h) eqn:Fh; cbn [alookup].
    - seq k h; [subst k; rewrite Fh; reflexivity|exact IH].
    - rewrite IH. seq k h; [subst k; rewrite Fh; reflexivity|reflexivity].
  Qed.
  Lemma filter_keys_NoDup (f : str * A -> bool) l : NoDup (map fst l) -> NoDup (map fst (filter f l)).
  Proof.
    induction l as [|x t IH]; intros H; cbn [filter map] in *; [exact H|]. inversion H as [|x' t' Hx Ht]; subst.
    destruct (f x); [|apply IH, Ht]. cbn [map]. constructor; [|apply IH, Ht]. intros Hin. apply Hx.
    apply in_map_iff in Hin. destruct Hin as (y & Hy & Hin). apply filter_In in Hin. apply in_map_iff. exists y. tauto.
  Qed.
End Alist2.

(* ------------------------------------------------------------------ RevisionMap *)
Section RMap.
  Context {V : Type}.
  Implicit Types (m : rmap V).
  Definition rm_ok m : Prop := NoDup (map fst m).                    (* it is a map *)
  Definition rm_nonempty m : Prop := Forall (fun p => snd p <> []) m.  (* no key is bound to an empty chain *)

  (* insert: pushes in front of the chain, or creates the chain; other keys untouched *)
  Theorem rm_get_insert m k v k' :
    rm_get k' (rm_insert k v m) = if str_eqb k' k then Some (v :: match rm_get k m with Some c => c | None => [] end) else rm_get k' m.
  Proof.
    unfold rm_get, rm_insert. destruct (alookup k m) as [c|] eqn:E.
    - rewrite alookup_areplace, E. reflexivity.
    - rewrite alookup_app_single. seq k' k; [subst k'; rewrite E; reflexivity|]. destruct (alookup k' m); reflexivity.
  Qed.
  Theorem rm_get_latest_head m k : rm_get_latest k m = match rm_get k m with Some (x :: _) => Some x | _ => None end.
  Proof. unfold rm_get_latest. destruct (rm_get k m) as [[|x c]|]; reflexivity. Qed.
  Corollary rm_get_latest_insert m k v : rm_get_latest k (rm_insert k v m) = Some v.
  Proof. rewrite rm_get_latest_head, rm_get_insert, seqb_refl. reflexivity. Qed.
  Lemma rm_len_insert m k v : rm_len (rm_insert k v m) = if rm_contains k m then rm_len m else S (rm_len m).
  Proof.
    unfold rm_len, rm_insert, rm_contains, amem. destruct (alookup k m); [apply areplace_length|]. rewrite app_length. cbn [length]. lia.
  Qed.

  (* keep(k, n): the chain of k becomes its first n elements (all of it when n exceeds the length: then nothing is
     returned); the key is never removed; the returned tail is the rest *)
  Theorem rm_get_keep m k n k' :
    rm_get k' (fst (rm_keep k n m)) = if str_eqb k' k then option_map (firstn n) (rm_get k m) else rm_get k' m.
  Proof.
    unfold rm_get, rm_keep. destruct (alookup k m) as [c|] eqn:E; cbn [fst option_map].
    - destruct (Nat.leb_spec n (length c)) as [L|L]; cbn [fst].
      + rewrite alookup_areplace, E. reflexivity.
      + seq k' k; [|reflexivity]. subst k'. rewrite E. rewrite firstn_all2 by lia. reflexivity.
    - seq k' k; [subst k'; exact E|reflexivity].
  Qed.
  Theorem rm_keep_returned m k n :
    snd (rm_keep k n m) = match rm_get k m with Some c => if n <=? length c then Some (skipn n c) else None | None => None end.
  Proof. unfold rm_get, rm_keep. destruct (alookup k m) as [c|]; [|reflexivity]. destruct (n <=? length c); reflexivity. Qed.
  Corollary rm_keep_partition m k n c r : rm_get k m = Some c -> snd (rm_keep k n m) = Some r ->
    exists c', rm_get k (fst (rm_keep k n m)) = Some c' /\ c' ++ r = c /\ length c' = n.
  Proof.
    intros E R. rewrite rm_keep_returned, E in R. destruct (Nat.leb_spec n (length c)) as [L|L]; [|discriminate]. injection R as <-.
    exists (firstn n c). rewrite rm_get_keep, seqb_refl, E. split; [reflexivity|]. split; [apply firstn_skipn|apply firstn_length_le, L].
  Qed.
  Lemma rm_keep_keys m k n : map fst (fst (rm_keep k n m)) = map fst m.
  Proof. unfold rm_keep. destruct (alookup k m) as [c|]; [|reflexivity]. destruct (n <=? length c); [apply areplace_keys|reflexivity]. Qed.
  (* n = 0 on a present key: `0 <= len` holds, split_off(0) empties the chain, the entry stays in the HashMap *)
  Theorem rm_keep_zero_leaves_empty_chain m k c : rm_get k m = Some c ->
    let m' := fst (rm_keep k 0 m) in
    rm_get k m' = Some [] /\ rm_contains k m' = true /\ rm_get_latest k m' = None /\ rm_chain_length k m' = 0 /\
    rm_len m' = rm_len m /\ snd (rm_keep k 0 m) = Some c.
  Proof.
    intros E. cbn zeta. assert (G : rm_get k (fst (rm_keep k 0 m)) = Some []) by (rewrite rm_get_keep, seqb_refl, E; reflexivity).
    split; [exact G|]. unfold rm_contains, amem, rm_get_latest, rm_chain_length. unfold rm_get in G. unfold rm_get. rewrite G.
    repeat split. - unfold rm_len. rewrite <- !(map_length fst), rm_keep_keys. reflexivity.
    - rewrite rm_keep_returned, E. reflexivity.
  Qed.

  Theorem rm_get_retain m f k : rm_get k (rm_retain f m) = if f k then rm_get k m else None.
  Proof. apply alookup_filter. Qed.
  Theorem rm_get_remove m k k' : rm_ok m ->
    rm_get k' (fst (rm_remove k m)) = (if str_eqb k' k then None else rm_get k' m) /\ snd (rm_remove k m) = rm_get k m.
  Proof. intros H. split; [apply alookup_aremove, H|reflexivity]. Qed.

  Lemma rm_ok_step m op : rm_ok m -> rm_ok (rm_step m op).
  Proof.
    unfold rm_ok. intros H. destruct op as [k v|k n|f|k]; cbn [rm_step].
    - unfold rm_insert. destruct (alookup k m) as [c|] eqn:E; [rewrite areplace_keys; exact H|].
      rewrite map_app. cbn [map fst]. apply NoDup_app_single_str; [exact H|]. apply alookup_None. exact E.
    - rewrite rm_keep_keys. exact H.
    - apply filter_keys_NoDup, H.
    - apply aremove_keys_NoDup, H.
  Qed.
  Lemma rm_nonempty_step m op : rop_keeps_some op -> rm_nonempty m -> rm_nonempty (rm_step m op).
  Proof.
    unfold rm_nonempty. intros Hop H. destruct op as [k v|k n|f|k]; cbn [rm_step].
    - unfold rm_insert. destruct (alookup k m) as [c|]; [apply Forall_areplace; [exact H|discriminate]|].
      apply Forall_app. split; [exact H|]. constructor; [discriminate|constructor].
    - unfold rm_keep. destruct (alookup k m) as [c|] eqn:E; [|exact H]. destruct (n <=? length c); [|exact H]. cbn [fst].
      apply Forall_areplace; [exact H|]. cbn [snd]. apply AssocLemmas.alookup_In in E. rewrite Forall_forall in H. specialize (H _ E).
      cbn [snd] in H. cbn [rop_keeps_some] in Hop. destruct c as [|x c]; [congruence|]. destruct n as [|n]; [lia|discriminate].
    - apply Forall_filter, H.
    - apply Forall_aremove, H.
  Qed.

  (* every map built by insert / keep with n >= 1 / retain / remove is a finite map without empty chain *)
  Theorem rmap_reachable_ok (ops : list (rop V)) : Forall rop_keeps_some ops -> rm_ok (run_rmap ops) /\ rm_nonempty (run_rmap ops).
  Proof.
    unfold run_rmap. assert (H0 : rm_ok (@rm_new V) /\ rm_nonempty (@rm_new V)) by (split; constructor).
    revert H0. generalize (@rm_new V). induction ops as [|op t IH]; intros m H0 Hk; cbn [fold_left]; [exact H0|].
    inversion Hk as [|op' t' Hop Ht]; subst. apply IH; [|exact Ht]. destruct H0 as [A B]. split; [apply rm_ok_step, A|apply rm_nonempty_step; assumption].
  Qed.
  (* consequence used by the key layer: without empty chains, "has a latest value" and "is bound" coincide *)
  Theorem rm_nonempty_latest_iff m k : rm_nonempty m -> (rm_get_latest k m = None <-> rm_contains k m = false).
  Proof.
    intros H. unfold rm_get_latest, rm_contains, amem, rm_get. destruct (alookup k m) as [c|] eqn:E; [|tauto].
    apply AssocLemmas.alookup_In in E. unfold rm_nonempty in H. rewrite Forall_forall in H. specialize (H _ E). cbn [snd] in H.
    destruct c as [|x c]; [congruence|]. cbn [hd_error]. split; discriminate.
  Qed.
End RMap.
(* keep(k, 0) breaks it: the key is still "contained" but has no latest value.  (The crate only calls keep(_, 1):
   src/core/primitives.rs, `msk.secrets.keep(coordinate, 1)`.) *)
Theorem rm_keep_zero_refuted : exists (ops : list (rop N)) k,
  ~ rm_nonempty (run_rmap ops) /\ rm_contains k (run_rmap ops) = true /\ rm_get_latest k (run_rmap ops) = None.
Proof.
  exists [RInsert ka 1%N; RInsert ka 2%N; RKeep ka 0], ka. split; [|split; vm_compute; reflexivity].
  vm_compute. intros H. inversion H as [|x t Hx Ht]; subst. apply Hx. reflexivity.
Qed.
Print Assumptions rm_get_insert.
Print Assumptions rm_get_keep.
Print Assumptions rm_keep_zero_leaves_empty_chain.
Print Assumptions rm_get_retain.
Print Assumptions rm_get_remove.
Print Assumptions rmap_reachable_ok.
Print Assumptions rm_nonempty_latest_iff.
Print Assumptions rm_keep_zero_refuted.

(* the test of revision_map.rs *)
Definition p1 : str := [80; 49]%N. Definition p2 : str := [80; 50]%N. Definition p3 : str := [80; 51]%N.
Definition rm_test : rmap N := run_rmap [RInsert p1 11; RInsert p1 12; RInsert p2 21; RInsert p2 22; RInsert p2 23; RInsert p3 31]%N.
Example rm_test_ex :
  rm_len rm_test = 3 /\ rm_count_elements rm_test = 6 /\ rm_get_latest p1 rm_test = Some 12%N /\ rm_get p1 rm_test = Some [12; 11]%N /\
  rm_keep p2 1 (fst (rm_remove p1 rm_test)) = ([(p2, [23]); (p3, [31])], Some [22; 21])%N /\
  snd (rm_keep p3 1 rm_test) = Some [] /\ snd (rm_keep p3 2 rm_test) = None /\ rm_retain (fun _ => false) rm_test = [].
Proof. vm_compute. repeat split. Qed.
Example rmap_reachable_hyps_ex : Forall (@rop_keeps_some N) [RInsert p1 11%N; RKeep p1 1; RRetain (fun k => str_eqb k p1); RRemove p2].
Proof. repeat constructor. Qed.

(* ------------------------------------------------------------------ RevisionVec *)
Section RVec.
  Context {V : Type}.
  Implicit Types (m : rvec V).
  Definition rv_nonempty m : Prop := Forall (fun p => snd p <> []) m.

  Lemma rv_insert_empty_chain m k : rv_insert_new_chain k [] m = m.
  Proof. reflexivity. Qed.
  Lemma rv_nonempty_step m op : rv_nonempty m -> rv_nonempty (rv_step m op).
  Proof.
    unfold rv_nonempty. intros H. destruct op as [k v|k c|f|]; cbn [rv_step].
    - apply Forall_app. split; [exact H|]. constructor; [discriminate|constructor].
    - destruct c as [|x c]; [exact H|]. cbn [rv_insert_new_chain]. apply Forall_app. split; [exact H|]. constructor; [discriminate|constructor].
    - apply Forall_filter, H.
    - constructor.
  Qed.
  (* for every sequence of create_chain_with_single_value / insert_new_chain / retain / clear: no chain is empty *)
  Theorem rvec_reachable_nonempty (ops : list (vop V)) : rv_nonempty (run_vec ops).
  Proof.
    unfold run_vec. assert (H0 : rv_nonempty (@rv_new V)) by constructor. revert H0. generalize (@rv_new V).
    induction ops as [|op t IH]; intros m H0; cbn [fold_left]; [exact H0|]. apply IH, rv_nonempty_step, H0.
  Qed.
  Lemma rv_from_values_nonempty l : rv_nonempty (@rv_from_values V l).
  Proof. unfold rv_nonempty, rv_from_values. apply Forall_forall. intros p Hp. apply in_map_iff in Hp. destruct Hp as (kv & <- & _). discriminate. Qed.

  (* flat_iter: the chains in vector order, each from the newest to the oldest value, tagged with its key *)
  Theorem rv_flat_iter_concat m : rv_flat_iter m = concat (rv_keyed m) /\ map snd (rv_flat_iter m) = concat (map snd m).
  Proof.
    split; [apply flat_map_concat_map|]. unfold rv_flat_iter. induction m as [|[k c] t IH]; cbn [flat_map map concat fst snd]; [reflexivity|].
    rewrite map_app, IH, map_map. cbn [snd]. rewrite map_id. reflexivity.
  Qed.
  Lemma rv_flat_iter_push m k c : rv_flat_iter (m ++ [(k, c)]) = rv_flat_iter m ++ map (pair k) c.
  Proof. unfold rv_flat_iter. rewrite flat_map_app. cbn [flat_map fst snd]. rewrite app_nil_r. reflexivity. Qed.
  Lemma rv_count_elements_flat m : rv_count_elements m = length (rv_flat_iter m).
  Proof.
    unfold rv_count_elements, rv_flat_iter. induction m as [|[k c] t IH]; cbn [fold_right flat_map fst snd]; [reflexivity|].
    rewrite app_length, map_length, IH. reflexivity.
  Qed.

  (* revisions(): reuse of RevIter.v *)
  Theorem rv_revisions_terminates m : exists r, rv_revisions (rv_revisions_fuel m) m = Some r.
  Proof. apply revisions_fixed_terminates. Qed.
  Theorem rv_revisions_complete m fuel r : rv_revisions fuel m = Some r ->
    Permutation (concat r) (map snd (rv_flat_iter m)) /\ Forall (fun rv => rv <> []) r.
  Proof.
    intros H. split; [|eapply revisions_fixed_nonempty, H]. rewrite (proj2 (rv_flat_iter_concat m)). eapply revisions_fixed_complete, H.
  Qed.
  Theorem rv_revisions_kv_complete m fuel r : rv_revisions_kv fuel m = Some r ->
    Permutation (concat r) (rv_flat_iter m) /\ Forall (fun rv => rv <> []) r.
  Proof.
    intros H. split; [|eapply revisions_fixed_nonempty, H]. rewrite (proj1 (rv_flat_iter_concat m)). eapply revisions_fixed_complete, H.
  Qed.
  (* the keyed iterator is the value iterator with the key of each chain attached (naturality of revisions_fuel) *)
  Lemma heads_map {A B} (f : A -> B) chs : heads (map (map f) chs) = map f (heads chs).
  Proof. unfold heads. induction chs as [|c t IH]; cbn [map flat_map]; [reflexivity|]. rewrite map_app, IH. destruct c; reflexivity. Qed.
  Lemma tails_map {A B} (f : A -> B) chs : tails (map (map f) chs) = map (map f) (tails chs).
  Proof. unfold tails. rewrite !map_map. apply map_ext. intros [|x c]; reflexivity. Qed.
  Lemma revisions_fuel_map {A B} (f : A -> B) fuel : forall chs,
    revisions_fuel true fuel (map (map f) chs) = option_map (map (map f)) (revisions_fuel true fuel chs).
  Proof.
    induction fuel as [|fu IH]; intros chs; [reflexivity|]. rewrite !revisions_fuel_S. cbn [rev_next]. unfold rev_next_fixed.
    rewrite heads_map, tails_map. destruct (heads chs) as [|h hs]; [reflexivity|]. cbn [map]. rewrite IH.
    destruct (revisions_fuel true fu (tails chs)); reflexivity.
  Qed.
  Theorem rv_revisions_kv_values m fuel : rv_revisions fuel m = option_map (map (map snd)) (rv_revisions_kv fuel m).
  Proof.
    unfold rv_revisions, rv_revisions_kv. rewrite <- revisions_fuel_map. f_equal. unfold rv_keyed. rewrite map_map. apply map_ext.
    intros [k c]. cbn [fst snd]. rewrite map_map. cbn [snd]. rewrite map_id. reflexivity.
  Qed.
  (* with no empty chain, the first revision holds the newest value of EVERY chain *)
  Theorem rv_first_revision_full m : rv_nonempty m -> length (heads (map snd m)) = length m.
  Proof.
    unfold rv_nonempty, heads. intros H. induction H as [|[k c] t Hc Ht IH]; cbn [map flat_map snd]; [reflexivity|].
    rewrite app_length, IH. cbn [snd] in Hc. destruct c; [congruence|reflexivity].
  Qed.

  (* bfs(): every value exactly once *)
  Lemma bfs_fuel_complete : forall fuel (q : list (list V)), length (concat q) + length q <= fuel -> Permutation (bfs_fuel fuel q) (concat q).
  Proof.
    induction fuel as [|fu IH]; intros q H.
    - destruct q as [|c q]; [constructor|cbn [length] in H; lia].
    - destruct q as [|[|x t] q]; cbn [bfs_fuel concat app]; [constructor| |].
      + apply IH. cbn [concat length app] in H. lia.
      + apply perm_skip. eapply Permutation_trans; [apply IH|].
        * rewrite concat_app, !app_length. cbn [concat length app] in *. rewrite app_nil_r. rewrite app_length in H. lia.
        * rewrite concat_app. cbn [concat]. rewrite app_nil_r. apply Permutation_app_comm.
  Qed.
  Theorem rv_bfs_complete m : Permutation (rv_bfs m) (map snd (rv_flat_iter m)).
  Proof.
    unfold rv_bfs. rewrite (proj2 (rv_flat_iter_concat m)). apply bfs_fuel_complete. rewrite rv_count_elements_flat.
    rewrite <- (map_length snd (rv_flat_iter m)), (proj2 (rv_flat_iter_concat m)). unfold rv_len. rewrite map_length. lia.
  Qed.
End RVec.
(* FromIterator<(K, LinkedList<T>)> does not filter: an empty chain can enter a RevisionVec that way (and through iter_mut) *)
Theorem rv_from_chains_refuted : exists l : list (str * list N), ~ rv_nonempty (rv_from_chains l).
Proof. exists [(ka, [])]. intros H. inversion H as [|x t Hx Ht]; subst. apply Hx. reflexivity. Qed.
Print Assumptions rvec_reachable_nonempty.
Print Assumptions rv_flat_iter_concat.
Print Assumptions rv_revisions_terminates.
Print Assumptions rv_revisions_complete.
Print Assumptions rv_revisions_kv_complete.
Print Assumptions rv_revisions_kv_values.
Print Assumptions rv_first_revision_full.
Print Assumptions rv_bfs_complete.
Print Assumptions rv_from_chains_refuted.

(* the test of revision_vec.rs: 1 -> a'' a' a ; 2 -> b ; 3 -> c' c   (values 13 12 11 / 21 / 32 31) *)
Definition rv_test : rvec N := run_vec [VInsertChain p1 [13; 12; 11]; VInsertChain ka []; VCreate p2 21; VInsertChain p3 [32; 31]]%N.
Example rv_test_ex :
  rv_len rv_test = 3 /\ rv_count_elements rv_test = 6 /\
  rv_flat_iter rv_test = [(p1, 13); (p1, 12); (p1, 11); (p2, 21); (p3, 32); (p3, 31)]%N /\
  rv_bfs rv_test = [13; 21; 32; 12; 31; 11]%N /\
  rv_revisions (rv_revisions_fuel rv_test) rv_test = Some [[13; 21; 32]; [12; 31]; [11]]%N /\
  rv_revisions_kv 4 rv_test = Some [[(p1, 13); (p2, 21); (p3, 32)]; [(p1, 12); (p3, 31)]; [(p1, 11)]]%N /\
  rv_into_keys (rv_retain (fun k => str_eqb k p1) rv_test) = [p1] /\ rv_clear rv_test = [].
Proof. vm_compute. repeat split. Qed.
Example rv_test_nonempty : rv_nonempty rv_test. Proof. apply rvec_reachable_nonempty. Qed.
