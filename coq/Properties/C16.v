(* C16 - Every secret, nonce and identifier is fresh.
   In the model every random value is a draw from a stream of pairwise distinct values (the idealisation of the CSPRNG,
   PARTIAL: the quality of the real generator is trusted); the theorems show that what must be fresh is an injective
   function of a draw private to its call. *)
From Coq Require Import List NArith Bool Arith Lia.
From CC Require Import Dem DemProofs Conc ConcProofs1 ConcProofs2.
Import ListNotations.

(* AEAD nonces: in any sequence of PKE encryptions and header generations the nonces read off the wire are pairwise
   distinct, even for identical keys and plaintexts *)
Theorem C16_nonces_fresh : forall (D : Type) (kdf : D -> bytes -> D) (aead_enc : D -> bytes -> bytes -> bytes -> bytes)
  (XENC : Type) (fresh : nat -> bytes), FreshIdeal fresh ->
  forall (cs : list (call D XENC)) (ctr : nat), NoDup (flat_map (out_nonces D XENC) (Dem.run D kdf aead_enc XENC fresh ctr cs)).
Proof. exact run_nonces_nodup. Qed.
Print Assumptions C16_nonces_fresh.

(* the key that encrypts the header metadata differs from the secret handed to the caller, and from the PKE key *)
Theorem C16_metadata_key_ne_secret : forall (D : Type) (kdf : D -> bytes -> D) (aead_enc : D -> bytes -> bytes -> bytes -> bytes)
  (aead_dec : D -> bytes -> bytes -> bytes -> option bytes) (honest : D -> bytes -> bytes -> bytes -> Prop),
  DemIdeal D kdf aead_enc aead_dec honest -> forall seed seed' : D, kdf seed label_md <> kdf seed' label_secret.
Proof. exact metadata_key_ne_secret. Qed.
Print Assumptions C16_metadata_key_ne_secret.

(* across threads: the generator state is only moved by the lock holder (draws of different calls never interleave) *)
Theorem C16_draws_serialised : forall c i c', cstep c i c' -> cursor c' <> cursor c -> owner c = Some i.
Proof. exact cursor_moves_only_by_owner. Qed.
Print Assumptions C16_draws_serialised.

(* across threads: the generator ranges consumed by any two draws of any threads are disjoint *)
Theorem C16_draw_intervals_disjoint :
  forall (k0 : N) (ps : list program) (sch : list nat) (c : conf) (a b : nat) (da db : nat * N * N),
       pos_draws ps ->
       exec (init k0 ps) sch c ->
       a < b ->
       nth_error (draw_trace (init k0 ps) sch) a = Some da ->
       nth_error (draw_trace (init k0 ps) sch) b = Some db ->
       (0 < d_len da)%N /\ (0 < d_len db)%N /\ (d_cur da + d_len da <= d_cur db)%N.
Proof. exact (@draw_intervals_disjoint). Qed.
Print Assumptions C16_draw_intervals_disjoint.


