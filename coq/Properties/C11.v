(* C11 - Post-quantum protection is applied exactly where the policy asks for it. *)
From Coq Require Import List NArith Bool Arith Lia.
From CC Require Import Policy Structure Keys KeysMachine RightsInj.
From CC Require Import DisabledProofs KInv1 KInv2 KInv3 KInv4 KInv4b KInv5 KInv6 KInv7 KInv8 KInv9 KInv10.
From CC Require KeysTheorems.
Import ListNotations.

(* A right of the structure is hybridized iff at least one of its attributes was declared hybridized, and can be
   encrypted to iff all of its attributes are enabled: exact characterisation of omega. *)
Theorem C11_omega_sound : forall st r h e, In (r, (h, e)) (omega st) ->
  exists l, asel (map snd (dims st)) l /\ r = right_of_point (map a_id l) /\ h = existsb a_hyb l /\ e = forallb a_enc l.
Proof. exact omega_sound. Qed.
Print Assumptions C11_omega_sound.

Theorem C11_omega_complete : forall st l, asel (map snd (dims st)) l ->
  In (right_of_point (map a_id l), (existsb a_hyb l, forallb a_enc l)) (omega st).
Proof. exact omega_complete. Qed.
Print Assumptions C11_omega_complete.

(* update_msk gives a NEW right the flavour omega computes; an existing right keeps its secret, made classic iff the hint is *)
Theorem C11_new_right_flavour : forall r hyb t secs ctr secs' ctr',
  rlookup r secs = None -> upd_loop ((r, (hyb, true)) :: t) secs ctr = ROk (secs', ctr') ->
  upd_loop t (secs ++ [(r, [(true, {| tok := ctr; s_hyb := hyb |})])]) (N.succ ctr) = ROk (secs', ctr').
Proof. intros r hyb t secs ctr secs' ctr' Hl H. cbn [upd_loop] in H. rewrite Hl in H. cbn in H. exact H. Qed.
Print Assumptions C11_new_right_flavour.

(* rekey creates a secret of the same flavour as the current one *)
Theorem C11_rekey_keeps_flavour : forall fx r fl s older t secs ctr,
  rlookup r secs = Some ((fl, s) :: older) ->
  rekey_loop fx (r :: t) secs ctr =
  rekey_loop fx t (rreplace r ((if fx_rekey_flag fx then fl else true, {| tok := ctr; s_hyb := s_hyb s |}) :: (fl, s) :: older) secs) (N.succ ctr).
Proof. intros fx r fl s older t secs ctr Hl. cbn [rekey_loop]. rewrite Hl. reflexivity. Qed.
Print Assumptions C11_rekey_keeps_flavour.

(* an encapsulation is hybridized iff every right it targets is published with hybridized material *)
Theorem C11_encaps_mode : forall p rs ctr x c, encaps_rights p rs ctr = (ROk x, c) ->
  exists ks, all_rights_keys p rs = ROk ks /\ x_hyb x = forallb s_hyb ks /\ x_entries x = map tok ks.
Proof.
  intros p rs ctr x c H. unfold encaps_rights in H. destruct (all_rights_keys p rs) as [ks|]; [|discriminate].
  injection H as <- _. exists ks. repeat split.
Qed.
Print Assumptions C11_encaps_mode.

(* a hybridized encapsulation is opened only by hybridized user secrets *)
Theorem C11_hybrid_needs_hybrid : forall x s, x_hyb x = true -> opens x s = true -> s_hyb s = true.
Proof. intros x s Hx Ho. unfold opens in Ho. rewrite Hx in Ho. apply andb_prop in Ho. destruct Ho as [_ Ho]. exact Ho. Qed.
Print Assumptions C11_hybrid_needs_hybrid.

(* ---- over all reachable states of the key-management state machine (KInv*.v, gathered in KeysTheorems.v) ---- *)
Theorem C11_flavour_exact_reach :
  forall s : state,
       reach s ->
       exists F : rightk -> bool,
         (forall (r : rightk) (ch : list (bool * secret)) (fl : bool) (sk : secret),
          In (r, ch) (m_secrets (st_msk s)) -> In (fl, sk) ch -> s_hyb sk = F r) /\
         (forall (pk : mpk) (r : rightk) (sk : secret),
          In pk (st_mpks s) -> In (r, sk) (p_keys pk) -> s_hyb sk = F r) /\
         (forall (u : usk) (r : rightk) (ch : list secret) (sk : secret),
          In u (st_usks s) -> In (r, ch) (u_chains u) -> In sk ch -> s_hyb sk = F r) /\
         (forall (r : rightk) (h e : bool), In (r, (h, e)) (omega_map (m_st (st_msk s))) -> F r = h) /\
         (forall (r : rightk) (h e : bool),
          In (r, (h, e)) (omega_map (m_st (st_msk s))) ->
          F r = true <->
          (exists att : attribute, att_in (m_st (st_msk s)) att /\ In (a_id att) r /\ a_hyb att = true)).
Proof. exact (@KeysTheorems.C11_flavour_exact). Qed.
Print Assumptions C11_flavour_exact_reach.

Theorem C11_update_front_hint_reach :
  forall s : state,
       reach s ->
       snd (step fixed s OUpdate) = ObOk ->
       let m' := st_msk (fst (step fixed s OUpdate)) in
       forall (r : rightk) (h e : bool),
       In (r, (h, e)) (omega_map (m_st (st_msk s))) ->
       exists (fl : bool) (sk : secret) (older : list (bool * secret)),
         rlookup r (m_secrets m') = Some ((fl, sk) :: older) /\
         s_hyb sk = h /\ (forall (fl' : bool) (sk' : secret), In (fl', sk') older -> s_hyb sk' = h).
Proof. exact (@KeysTheorems.C11_update_front_hint). Qed.
Print Assumptions C11_update_front_hint_reach.


