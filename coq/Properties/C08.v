(* C08 - Only user keys issued by the master key are accepted for refresh.
   KMAC is idealised as an injective MAC (premise mac_inj); the MAC input is modelled exactly as `sign` builds it:
   the bare concatenation of markers, right names and secrets, with no framing. *)
From Coq Require Import List NArith Bool Arith Lia.
From CC Require Import MacStream MacStreamLemmas MacStreamProofs.
Import ListNotations.

(* verify accepts exactly when the signature is the MAC of the presented key's byte stream *)
Theorem C08_verify_accepts_iff : forall (K Sig : Type) (mac : K -> bytes -> Sig) (sig_eqb : Sig -> Sig -> bool),
  (forall s s', sig_eqb s s' = true <-> s = s') ->
  forall (k : K) (u : ukey Sig),
  verify mac sig_eqb (Some k) u = true <-> (exists stream, k_sig u = Some (mac k stream) /\ stream = mac_stream (k_body u)).
Proof. intros K Sig. exact (@verify_accepts_iff K Sig). Qed.
Print Assumptions C08_verify_accepts_iff.

(* With fixed widths, once the framing (number of markers, length of each right name, length and flavours of each
   chain) is fixed the byte stream determines the whole body: outside re-framing every change changes the stream. *)
Theorem C08_stream_injective_on_framed : forall sk_len dk_len b b',
  wf sk_len dk_len b -> wf sk_len dk_len b' -> framing b = framing b' -> mac_stream b = mac_stream b' -> b = b'.
Proof. exact mac_stream_inj_on_framed. Qed.
Print Assumptions C08_stream_injective_on_framed.

(* C08 modulo the known class: if the signatures in circulation were produced on issued bodies (unforgeability), a key
   whose body was not issued and is not a re-framing of an issued body is rejected. *)
Theorem C08_modulo_known : forall (K Sig : Type) (mac : K -> bytes -> Sig) (sig_eqb : Sig -> Sig -> bool),
  (forall k k' m m', mac k m = mac k' m' -> k = k' /\ m = m') -> (forall s s', sig_eqb s s' = true <-> s = s') ->
  forall (k : K) (issued : list ubody) (u : ukey Sig),
  circ mac k issued u -> (forall b, In b issued -> ~ Reframing b (k_body u)) -> ~ In (k_body u) issued ->
  verify mac sig_eqb (Some k) u = false.
Proof. intros K Sig. exact (@MacStreamProofs.C08_modulo_known K Sig). Qed.
Print Assumptions C08_modulo_known.

(* refresh accepts => identifier known AND (body issued OR body a re-framing of an issued body) *)
Theorem C08_refresh_modulo_known : forall (K Sig : Type) (mac : K -> bytes -> Sig) (sig_eqb : Sig -> Sig -> bool),
  (forall k k' m m', mac k m = mac k' m' -> k = k' /\ m = m') -> (forall s s', sig_eqb s s' = true <-> s = s') ->
  forall (msk : mstate K) (k : K) (u : ukey Sig),
  m_skey msk = Some k -> circ mac k (m_issued msk) u -> refresh_accepts mac sig_eqb msk u = true ->
  In (b_id (k_body u)) (m_users msk) /\
  (In (k_body u) (m_issued msk) \/ exists b, In b (m_issued msk) /\ Reframing b (k_body u)).
Proof. intros K Sig. exact (@MacStreamProofs.C08_refresh_modulo_known K Sig). Qed.
Print Assumptions C08_refresh_modulo_known.

(* a rejected key leaves the master key and the user key exactly as they were *)
Theorem C08_rejected_unchanged : forall (K Sig : Type) (mac : K -> bytes -> Sig) (sig_eqb : Sig -> Sig -> bool)
  (rebuild : mstate K -> ubody -> list (list bytes) * ubody) (msk : mstate K) (u : ukey Sig),
  refresh_accepts mac sig_eqb msk u = false -> refresh mac sig_eqb rebuild msk u = (false, msk, u).
Proof. intros K Sig. exact (@refresh_rejected_unchanged K Sig). Qed.
Print Assumptions C08_rejected_unchanged.

Theorem C08_stripped_signature_rejected : forall (K Sig : Type) (mac : K -> bytes -> Sig) (sig_eqb : Sig -> Sig -> bool),
  (forall s s', sig_eqb s s' = true <-> s = s') -> forall (k : K) (u : ukey Sig), k_sig u = None -> verify mac sig_eqb (Some k) u = false.
Proof. intros K Sig. exact (@stripped_signature_rejected K Sig). Qed.
Print Assumptions C08_stripped_signature_rejected.

Theorem C08_other_master_key_rejected : forall (K Sig : Type) (mac : K -> bytes -> Sig) (sig_eqb : Sig -> Sig -> bool),
  (forall k k' m m', mac k m = mac k' m' -> k = k' /\ m = m') -> (forall s s', sig_eqb s s' = true <-> s = s') ->
  forall (k k' : K) (u : ukey Sig) (m : bytes), k' <> k -> k_sig u = Some (mac k' m) -> verify mac sig_eqb (Some k) u = false.
Proof. intros K Sig. exact (@other_master_key_rejected K Sig). Qed.
Print Assumptions C08_other_master_key_rejected.

Theorem C08_unknown_id_rejected : forall (K Sig : Type) (mac : K -> bytes -> Sig) (sig_eqb : Sig -> Sig -> bool) (msk : mstate K) (u : ukey Sig),
  ~ In (b_id (k_body u)) (m_users msk) -> refresh_accepts mac sig_eqb msk u = false.
Proof. intros K Sig. exact (@unknown_id_rejected K Sig). Qed.
Print Assumptions C08_unknown_id_rejected.

(* KNOWN FINDING F11 (not repaired, see DESIGN.md): re-framings exist for every width, and a re-framed body carrying
   the original signature IS accepted. The full statement of C08 is therefore refuted on the faithful model. *)
Theorem C08_known_witness : forall sk_len dk_len, exists b b', wf sk_len dk_len b /\ wf sk_len dk_len b' /\ Reframing b b'.
Proof. exact MacStreamLemmas.C08_known_witness. Qed.
Print Assumptions C08_known_witness.

Theorem C08_known_accepted : forall (K Sig : Type) (mac : K -> bytes -> Sig) (sig_eqb : Sig -> Sig -> bool),
  (forall s s', sig_eqb s s' = true <-> s = s') -> forall (k : K) b b', Reframing b b' ->
  verify mac sig_eqb (Some k) {| k_body := b'; k_sig := Some (mac k (mac_stream b)) |} = true.
Proof. intros K Sig. exact (@MacStreamProofs.C08_known_accepted K Sig). Qed.
Print Assumptions C08_known_accepted.
