(* C17 - Every issued user key is registered and satisfies the tracing relation. *)
From Coq Require Import List NArith Bool Arith Lia Field_theory.
From CC Require Import Policy Structure Keys KeysMachine KInv1.
From CC Require CryptoKem.
From CC Require Import DisabledProofs KInv1 KInv2 KInv3 KInv4 KInv4b KInv5 KInv6 KInv7 KInv8 KInv9 KInv10.
From CC Require KeysTheorems.
Import ListNotations.

(* Algebra: with a non-zero last tracer, choosing the last marker as (s - sum_{i<n} t_i a_i) / t_n makes the markers
   combined with the tracers give the master binding scalar s (the tracing relation). *)
Theorem C17_user_id_relation :
  forall (F : Type) (zero one : F) (add mul sub : F -> F -> F) (opp : F -> F) (div : F -> F -> F) (inv : F -> F),
  field_theory zero one add mul sub opp div inv eq ->
  forall (s : F) (init : list F) (tl : F) (ms : list F), tl <> zero -> length ms = length init ->
  CryptoKem.dot F zero add mul (ms ++ [div (sub s (CryptoKem.dot F zero add mul init ms)) tl]) (init ++ [tl]) = s.
Proof. exact CryptoKem.user_id_relation. Qed.
Print Assumptions C17_user_id_relation.

(* ... and the identifier generation of the model (which mirrors generate_user_id, including its error on a zero tracer)
   only ever returns identifiers that satisfy it. *)
Theorem C17_generate_user_id_sound :
  forall (F : Type) (zero one : F) (add mul sub : F -> F -> F) (opp : F -> F) (div : F -> F -> F) (inv : F -> F),
  field_theory zero one add mul sub opp div inv eq ->
  forall (F_eq_dec : forall x y : F, {x = y} + {x <> y}) (s : F) (ts rnd id : list F),
  CryptoKem.generate_user_id F zero add mul sub div F_eq_dec s ts rnd = Some id -> CryptoKem.dot F zero add mul id ts = s.
Proof. exact CryptoKem.generate_user_id_sound. Qed.
Print Assumptions C17_generate_user_id_sound.

(* State machine: in every reachable state every user key carries an identifier that the master key has recorded, the
   identifiers of different keys are distinct, and the recorded identifiers are distinct - through key generations,
   refreshes and round trips. *)
Theorem C17_ids_registered : forall ops, I4 (run_state fixed init ops).
Proof. exact ids_registered. Qed.
Print Assumptions C17_ids_registered.

(* a key whose identifier the master key does not know is refused, and nothing is modified *)
Theorem C17_unknown_id_refused : forall m u keep i, u_id u = Some i -> ~ In i (m_users m) ->
  refresh fixed m u keep = (RErr, u).
Proof.
  intros m u keep i Hi Hn. unfold refresh. rewrite Hi.
  assert (E : existsb (N.eqb i) (m_users m) = false).
  { apply Bool.not_true_is_false. intros H. apply existsb_exists in H. destruct H as (j & Hj & Hij). apply N.eqb_eq in Hij. subst j. exact (Hn Hj). }
  rewrite E. cbn. reflexivity.
Qed.
Print Assumptions C17_unknown_id_refused.

(* ---- over all reachable states of the key-management state machine (KInv*.v, gathered in KeysTheorems.v) ---- *)
Theorem C17_refresh_keeps_ids_reach :
  forall (s : state) (k : nat) (keep : bool),
       let s' := fst (step fixed s (ORefresh k keep)) in
       map u_id (st_usks s') = map u_id (st_usks s) /\ st_msk s' = st_msk s.
Proof. exact (@KeysTheorems.C17_refresh_keeps_ids). Qed.
Print Assumptions C17_refresh_keeps_ids_reach.

Theorem C17_roundtrip_keeps_state_reach :
  forall (s : state) (o : objref), fst (step fixed s (ORoundTrip o)) = s.
Proof. exact (@KeysTheorems.C17_roundtrip_keeps_state). Qed.
Print Assumptions C17_roundtrip_keeps_state_reach.


