(* C06 - Disabled attributes can never be encrypted to again, but stay decryptable. *)
From Coq Require Import List NArith Bool Arith Lia.
From CC Require Import Policy Structure Keys KeysMachine RefreshProofs DisabledProofs PinnedRefuted.
From CC Require Import DisabledProofs KInv1 KInv2 KInv3 KInv4 KInv4b KInv5 KInv6 KInv7 KInv8 KInv9 KInv10.
From CC Require KeysTheorems.
Import ListNotations.

(* update_msk establishes, for an attribute id that is disabled in the structure: every right containing the id has a
   deactivated newest secret. *)
Theorem C06_update_establishes : forall fx a m ctr m' rm ctr',
  disabled_id (m_st m) a -> nonempty_chains (m_secrets m) ->
  update_msk fx m ctr = (ROk rm, m', ctr') -> Dis a (m_secrets m') /\ nonempty_chains (m_secrets m').
Proof. exact update_msk_dis. Qed.
Print Assumptions C06_update_establishes.

(* prune preserves it (rekey: see C06_rekey_preserves) *)
Theorem C06_prune_preserves : forall a m rs, Dis a (m_secrets m) -> Dis a (m_secrets (prune m rs)).
Proof. exact prune_dis. Qed.
Print Assumptions C06_prune_preserves.

Theorem C06_rekey_preserves : forall a rs secs ctr, Dis a secs -> nonempty_chains secs ->
  Dis a (fst (rekey_loop RefreshProofs.fx_all rs secs ctr)) /\ nonempty_chains (fst (rekey_loop RefreshProofs.fx_all rs secs ctr)).
Proof. exact rekey_loop_dis. Qed.
Print Assumptions C06_rekey_preserves.

(* a public key derived from such a master key publishes no right containing the id ... *)
Theorem C06_mpk_unpublished : forall a m, NoDup (map fst (m_secrets m)) -> Dis a (m_secrets m) ->
  forall r s, In (r, s) (p_keys (mk_mpk m)) -> ~ In a r.
Proof. exact mpk_unpublished. Qed.
Print Assumptions C06_mpk_unpublished.

(* ... hence encapsulating for any set of rights one of which contains the id fails *)
Theorem C06_encaps_fails : forall a p rs r ctr, (forall r s, In (r, s) (p_keys p) -> ~ In a r) -> In r rs -> In a r ->
  fst (encaps_rights p rs ctr) = RErr.
Proof. exact encaps_disabled_fails. Qed.
Print Assumptions C06_encaps_fails.

(* Pinned tree (8f3c295) refuted: rekey re-activated the right (finding F5, repaired). *)
Theorem C06_pinned_refuted : exists secs,
  fst (rekey_loop fx_none [[0%N]] [([0%N], [(false, s 1)])] 5%N) = secs /\ rlookup [0%N] secs = Some [(true, s 5); (false, s 1)].
Proof. exact rekey_reactivates_refuted. Qed.
Print Assumptions C06_pinned_refuted.

(* ---- over all reachable states of the key-management state machine (KInv*.v, gathered in KeysTheorems.v) ---- *)
Theorem C06_no_reenable_reach :
  forall (s : state) (o : op) (a : N),
       is_setup o = false ->
       (a < next_id (m_st (st_msk s)))%N ->
       disabled_id (m_st (st_msk s)) a ->
       disabled_id (m_st (st_msk (fst (step fixed s o)))) a /\
       (a < next_id (m_st (st_msk (fst (step fixed s o)))))%N.
Proof. exact (@KeysTheorems.C06_no_reenable). Qed.
Print Assumptions C06_no_reenable_reach.

Theorem C06_disabled_never_published_reach :
  forall (ops1 : list op) (d n : str) (ops2 : list op) (a : N),
       let s1 := run_state fixed init ops1 in
       let s2 := fst (step fixed s1 (ODisable d n)) in
       let s := run_state fixed init (ops1 ++ [ODisable d n; OUpdate] ++ ops2) in
       attr_id_of (m_st (st_msk s1)) d n = Some a ->
       snd (step fixed s1 (ODisable d n)) = ObOk ->
       snd (step fixed s2 OUpdate) = ObOk ->
       ~ In OSetup ops2 ->
       forall (j : nat) (pk : mpk),
       length (st_mpks s2) <= j ->
       nth_error (st_mpks s) j = Some pk ->
       (forall (r : rightk) (sk : secret), In (r, sk) (p_keys pk) -> ~ In a r) /\
       (forall (p : str) (rs : list rightk) (r : rightk),
        enc_rights fixed (p_st pk) p = ROk rs ->
        In r rs -> In a r -> snd (step fixed s (OEncaps j p)) = ObErr).
Proof. exact (@KeysTheorems.C06_disabled_never_published). Qed.
Print Assumptions C06_disabled_never_published_reach.

Theorem C06_disabled_still_decrypts_reach :
  forall (s : state) (d n : str),
       let s1 := fst (step fixed s (ODisable d n)) in
       let s2 := fst (step fixed s1 OUpdate) in
       (st_usks s1 = st_usks s /\
        st_encs s1 = st_encs s /\
        st_mpks s1 = st_mpks s /\
        st_ctr s1 = st_ctr s /\
        m_secrets (st_msk s1) = m_secrets (st_msk s) /\ m_users (st_msk s1) = m_users (st_msk s)) /\
       (st_usks s2 = st_usks s /\
        st_encs s2 = st_encs s /\
        (forall (r : rightk) (ch : list (bool * secret)),
         rlookup r (m_secrets (st_msk s)) = Some ch ->
         rmem r (omega_map (m_st (st_msk s1))) = true ->
         exists ch' : list (bool * secret),
           rlookup r (m_secrets (st_msk s2)) = Some ch' /\
           map (fun p : bool * secret => tok (snd p)) ch' = map (fun p : bool * secret => tok (snd p)) ch /\
           tl ch' = tl ch)) /\
       (forall k e : nat, snd (step fixed s2 (ODecaps k e)) = snd (step fixed s (ODecaps k e))).
Proof. exact (@KeysTheorems.C06_disabled_still_decrypts). Qed.
Print Assumptions C06_disabled_still_decrypts_reach.


