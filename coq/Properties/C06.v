(* C06 - Disabled attributes can never be encrypted to again, but stay decryptable. *)
From Coq Require Import List NArith Bool Arith Lia.
From CC Require Import Policy Structure Keys KeysMachine RefreshProofs DisabledProofs PinnedRefuted.
Import ListNotations.

(* update_msk establishes, for an attribute id that is disabled in the structure: every right containing the id has a
   deactivated newest secret. *)
Theorem C06_update_establishes : forall fx a m ctr m' rm ctr',
  disabled_id (m_st m) a -> nonempty_chains (m_secrets m) ->
  update_msk fx m ctr = (ROk rm, m', ctr') -> Dis a (m_secrets m') /\ nonempty_chains (m_secrets m').
Proof. exact update_msk_dis. Qed.
Print Assumptions C06_update_establishes.

(* prune preserves it (rekey: see C06_rekey_preserves) *)
Theorem C06_prune_preserves : forall a m rs, Dis a (m_secrets m) -> Dis a (m_secrets (prune m rs)).
Proof. exact prune_dis. Qed.
Print Assumptions C06_prune_preserves.

Theorem C06_rekey_preserves : forall a rs secs ctr, Dis a secs -> nonempty_chains secs ->
  Dis a (fst (rekey_loop RefreshProofs.fx_all rs secs ctr)) /\ nonempty_chains (fst (rekey_loop RefreshProofs.fx_all rs secs ctr)).
Proof. exact rekey_loop_dis. Qed.
Print Assumptions C06_rekey_preserves.

(* a public key derived from such a master key publishes no right containing the id ... *)
Theorem C06_mpk_unpublished : forall a m, NoDup (map fst (m_secrets m)) -> Dis a (m_secrets m) ->
  forall r s, In (r, s) (p_keys (mk_mpk m)) -> ~ In a r.
Proof. exact mpk_unpublished. Qed.
Print Assumptions C06_mpk_unpublished.

(* ... hence encapsulating for any set of rights one of which contains the id fails *)
Theorem C06_encaps_fails : forall a p rs r ctr, (forall r s, In (r, s) (p_keys p) -> ~ In a r) -> In r rs -> In a r ->
  fst (encaps_rights p rs ctr) = RErr.
Proof. exact encaps_disabled_fails. Qed.
Print Assumptions C06_encaps_fails.

(* Pinned tree (8f3c295) refuted: rekey re-activated the right (finding F5, repaired). *)
Theorem C06_pinned_refuted : exists secs,
  fst (rekey_loop fx_none [[0%N]] [([0%N], [(false, s 1)])] 5%N) = secs /\ rlookup [0%N] secs = Some [(true, s 5); (false, s 1)].
Proof. exact rekey_reactivates_refuted. Qed.
Print Assumptions C06_pinned_refuted.
