(* C07 - Encapsulations and ciphertexts are non-malleable.
   KEM level (coq/CryptoKem.v, both modes): for an HONEST encapsulation x and ANY x' (any flavour flag, any traps, any
   entries) and ANY user key: if x' decapsulates to something and carries the tag of x, then x' = x and the key is the
   encapsulated one.  A modified encapsulation either changes the tag - and then the tag it carries is not Jtag(S, U(x'))
   for the seed the entries unmask to, so every try fails - or keeps it and is the original.  Hashes are idealised as
   injective functions on TYPED symbol lists (H_inj, Jtag_inj): collision resistance plus unambiguity of the
   concatenation, exact for same-shape inputs since all fields have fixed width.
   DEM level (coq/Dem.v): under INT-CTXT any ciphertext other than the honest one is rejected. *)
From Coq Require Import List NArith Bool Arith Lia Field_theory.
From CC Require Import Dem DemProofs.
From CC Require Import CryptoKem.
From CC Require CryptoKemInst.
From CC Require PointCodec.
Import ListNotations.

Theorem C07_tag_commits :
  forall (F : Type) (zero : F) (add mul : F -> F -> F) (F_eq_dec : forall x y : F, {x = y} + {x <> y})
         (D : Type) (D_eq_dec : forall x y : D, {x = y} + {x <> y}) (KC KD KE R : Type)
         (H Jtag Jkey : list (symbol F D KC) -> D) (G : D -> F) (mask unmask : D -> D -> D)
         (kem_enc : KE -> R -> KC * D) (kem_dec : KD -> KC -> D),
       (forall a b : list (symbol F D KC), H a = H b -> a = b) ->
       (forall a b : list (symbol F D KC), Jtag a = Jtag b -> a = b) ->
       forall (ts : list F) (targets : list (rpk F KE * R)) (S key : D) (x : xenc F D KC) 
         (k : usk F KD) (x' : xenc F D KC) (key' : D),
       encaps F mul D KC KE R H Jtag Jkey G mask kem_enc ts targets S = Some (key, x) ->
       decaps F zero add mul F_eq_dec D D_eq_dec KC KD H Jtag Jkey G unmask kem_dec k x' = Some key' ->
       x_tag x' = x_tag x -> x' = x /\ key' = key.
Proof. exact (@CryptoKem.tag_commits). Qed.
Print Assumptions C07_tag_commits.

Theorem C07_decaps_never_wrong :
  forall (F : Type) (zero one : F) (add mul sub : F -> F -> F) (opp : F -> F) 
         (div : F -> F -> F) (inv : F -> F),
       field_theory zero one add mul sub opp div inv eq ->
       forall (F_eq_dec : forall x y : F, {x = y} + {x <> y}) (D : Type)
         (D_eq_dec : forall x y : D, {x = y} + {x <> y}) (KC KD KE R : Type)
         (H Jtag Jkey : list (symbol F D KC) -> D) (G : D -> F) (mask unmask : D -> D -> D)
         (kem_enc : KE -> R -> KC * D) (kem_dec : KD -> KC -> D),
       (forall a b : list (symbol F D KC), H a = H b -> a = b) ->
       (forall a b : list (symbol F D KC), Jtag a = Jtag b -> a = b) ->
       (forall s p : D, unmask (mask s p) p = s) ->
       (forall s p p' : D, unmask (mask s p) p' = s -> p' = p) ->
       forall (ts : list F) (targets : list (rpk F KE * R)) (S key : D) (x : xenc F D KC) 
         (k : usk F KD) (key' : D),
       encaps F mul D KC KE R H Jtag Jkey G mask kem_enc ts targets S = Some (key, x) ->
       decaps F zero add mul F_eq_dec D D_eq_dec KC KD H Jtag Jkey G unmask kem_dec k x = Some key' ->
       key' = key /\
       (exists (su : rsk F KD) (tg : rpk F KE * R),
          In su (u_secrets k) /\
          In tg targets /\
          mul (mul (dot F zero add mul (u_markers k) ts) (G S)) (fst su) = mul (fst (fst tg)) (G S) /\
          (all_hyb F KE R targets = true ->
           exists (dk : KD) (ek : KE),
             snd su = Some dk /\
             snd (fst tg) = Some ek /\ kem_dec dk (fst (kem_enc ek (snd tg))) = snd (kem_enc ek (snd tg)))).
Proof. exact (@CryptoKem.decaps_sound). Qed.
Print Assumptions C07_decaps_never_wrong.

Theorem C07_pke_altered :
  forall (D : Type) (kdf : D -> bytes -> D) (aead_enc : D -> bytes -> bytes -> bytes -> bytes)
         (aead_dec : D -> bytes -> bytes -> bytes -> option bytes) (USK XENC : Type)
         (decaps : USK -> XENC -> option D) (honest : D -> bytes -> bytes -> bytes -> Prop),
       DemIdeal D kdf aead_enc aead_dec honest ->
       forall (usk : USK) (seed : D) (enc : XENC) (nonce pt c' : bytes),
       decaps usk enc = Some seed ->
       only_honest D honest (kdf seed label_ae) nonce [] pt ->
       c' <> snd (pke_encrypt D kdf aead_enc XENC seed enc nonce pt) ->
       pke_decrypt D kdf aead_dec USK XENC decaps usk (enc, c') = DErr.
Proof. exact (@pke_altered). Qed.
Print Assumptions C07_pke_altered.

Theorem C07_header_altered :
  forall (D : Type) (kdf : D -> bytes -> D) (aead_enc : D -> bytes -> bytes -> bytes -> bytes)
         (aead_dec : D -> bytes -> bytes -> bytes -> option bytes) (USK XENC : Type)
         (decaps : USK -> XENC -> option D) (honest : D -> bytes -> bytes -> bytes -> Prop),
       DemIdeal D kdf aead_enc aead_dec honest ->
       forall (usk : USK) (seed : D) (enc : XENC) (nonce a m : bytes) (c' : list N) (ad' : option bytes),
       decaps usk enc = Some seed ->
       only_honest D honest (kdf seed label_md) nonce a m ->
       c' <> nonce ++ aead_enc (kdf seed label_md) nonce a m \/ aad_of ad' <> a ->
       header_decrypt D kdf aead_dec USK XENC decaps usk {| h_enc := enc; h_emd := Some c' |} ad' = DErr.
Proof. exact (@header_altered). Qed.
Print Assumptions C07_header_altered.

Theorem C07_ae_accept_honest :
  forall (D : Type) (kdf : D -> bytes -> D) (aead_enc : D -> bytes -> bytes -> bytes -> bytes)
         (aead_dec : D -> bytes -> bytes -> bytes -> option bytes)
         (honest : D -> bytes -> bytes -> bytes -> Prop),
       DemIdeal D kdf aead_enc aead_dec honest ->
       forall (g : bool) (k : D) (c p : bytes),
       ae_decrypt_g D aead_dec g k c = DOk p ->
       exists n : list N, length n = NONCE_LENGTH /\ honest k n [] p /\ c = ae_encrypt D aead_enc n k p.
Proof. exact (@ae_accept_honest). Qed.
Print Assumptions C07_ae_accept_honest.

Theorem C07_strip_metadata_accepted :
  forall (D : Type) (kdf : D -> bytes -> D) (aead_enc : D -> bytes -> bytes -> bytes -> bytes)
         (aead_dec : D -> bytes -> bytes -> bytes -> option bytes) (USK XENC : Type)
         (decaps : USK -> XENC -> option D) (usk : USK) (seed : D) (enc : XENC) (nonce : bytes)
         (md ad ad' : option bytes),
       decaps usk enc = Some seed ->
       header_decrypt D kdf aead_dec USK XENC decaps usk
         {| h_enc := h_enc (snd (header_generate D kdf aead_enc XENC seed enc nonce md ad)); h_emd := None |}
         ad' =
       DOk
         (Some
            {|
              c_secret := fst (header_generate D kdf aead_enc XENC seed enc nonce md ad); c_metadata := None
            |}).
Proof. exact (@header_strip_metadata_accepted). Qed.
Print Assumptions C07_strip_metadata_accepted.

(* Byte level (coq/PointCodec.v; F13): the theorems above speak about PARSED encapsulations.  "Changing any byte of the
   serialized form" additionally needs that two different byte strings are never accepted as the same object.  Fixed-
   width fields are opaque in the wire model (WireRoundTrip*.v gives write (read b) = b); group elements go through a
   library parser.  With the repaired reader (canonical encodings only) the serialized form is unique; the pinned reader
   of the p-256 build (any encoding the SEC1 parser decodes, e.g. the compact one) is refuted on a toy parser with the
   same shape, and on the real crate by the tampering campaign of checks/c07.py (encoding-tag values). *)
Theorem C07_canonical_point_read_injective :
  forall (P : Type) (dec : PointCodec.blob -> option P) (enc : P -> PointCodec.blob) (b b' : PointCodec.blob) (p : P),
       PointCodec.read_point P dec enc true b = Some p -> PointCodec.read_point P dec enc true b' = Some p -> b = b'.
Proof. exact (@PointCodec.read_point_fixed_injective). Qed.
Print Assumptions C07_canonical_point_read_injective.

Theorem C07_serialized_form_unique :
  forall (P : Type) (dec : PointCodec.blob -> option P) (enc : P -> PointCodec.blob) (O : Type)
         (split : PointCodec.blob -> option (O * list PointCodec.blob)) (join : O -> list PointCodec.blob -> PointCodec.blob),
       (forall (b : PointCodec.blob) (o : O) (bs : list PointCodec.blob), split b = Some (o, bs) -> join o bs = b) ->
       forall (b b' : PointCodec.blob) (x : O * list P),
       PointCodec.read_object P dec enc O split true b = Some x ->
       PointCodec.read_object P dec enc O split true b' = Some x -> b = b'.
Proof. exact (@PointCodec.serialized_form_unique). Qed.
Print Assumptions C07_serialized_form_unique.

Theorem C07_canonical_read_accepts_written :
  forall (P : Type) (dec : PointCodec.blob -> option P) (enc : P -> PointCodec.blob) (p : P),
       dec (enc p) = Some p -> PointCodec.read_point P dec enc true (enc p) = Some p.
Proof. exact (@PointCodec.read_point_fixed_accepts_written). Qed.
Print Assumptions C07_canonical_read_accepts_written.

Theorem C07_pinned_point_read_refuted :
  exists (b b' : PointCodec.blob) (p : N * bool),
         b <> b' /\
         PointCodec.read_point (N * bool) PointCodec.toy_dec PointCodec.toy_enc false b = Some p /\
         PointCodec.read_point (N * bool) PointCodec.toy_dec PointCodec.toy_enc false b' = Some p.
Proof. exact PointCodec.pinned_read_point_refuted. Qed.
Print Assumptions C07_pinned_point_read_refuted.
