(* C18 - Re-encapsulation with the master key preserves the audience. *)
From Coq Require Import List NArith Bool Arith Lia.
From CC Require Import Policy Structure Keys KeysMachine KInv1 KInv5.
From CC Require Import DisabledProofs KInv1 KInv2 KInv3 KInv4 KInv4b KInv5 KInv6 KInv7 KInv8 KInv9 KInv10.
From CC Require KeysTheorems.
Import ListNotations.

(* RR m pk x r : right r has, in the master key, an ACTIVATED secret under which an entry of x was made (with a
   compatible flavour) AND the public key pk publishes r.  recaps succeeds iff some right satisfies RR; the new
   encapsulation targets exactly the tokens pk publishes for those rights, with a fresh seed; it fails (state unchanged)
   iff there is none. *)
Theorem C18_recaps_spec : forall s j e pk x, reach s ->
  nth_error (st_mpks s) j = Some pk -> nth_error (st_encs s) e = Some x ->
  (snd (step fixed s (ORecaps j e)) = ObOk <-> (exists r, RR (st_msk s) pk x r)) /\
  (snd (step fixed s (ORecaps j e)) = ObErr <-> ~ (exists r, RR (st_msk s) pk x r)) /\
  (snd (step fixed s (ORecaps j e)) = ObErr -> fst (step fixed s (ORecaps j e)) = s) /\
  (snd (step fixed s (ORecaps j e)) = ObOk ->
   exists x', fst (step fixed s (ORecaps j e)) =
                {| st_msk := st_msk s; st_mpks := st_mpks s; st_usks := st_usks s; st_encs := st_encs s ++ [x']; st_ctr := N.succ (st_ctr s) |} /\
     x_seed x' = st_ctr s /\
     (forall t, In t (x_entries x') <-> exists r sk, RR (st_msk s) pk x r /\ rlookup r (p_keys pk) = Some sk /\ tok sk = t) /\
     (x_hyb x' = true <-> forall r sk, RR (st_msk s) pk x r -> rlookup r (p_keys pk) = Some sk -> s_hyb sk = true)).
Proof. exact recaps_spec. Qed.
Print Assumptions C18_recaps_spec.

(* Audience: a key opens the new encapsulation (to its new secret) iff it holds a secret published by pk for one of
   those rights (with a compatible flavour); no other key does. *)
Theorem C18_recaps_audience : forall s j e pk x x' u, reach s ->
  nth_error (st_mpks s) j = Some pk -> nth_error (st_encs s) e = Some x ->
  st_encs (fst (step fixed s (ORecaps j e))) = st_encs s ++ [x'] ->
  (decaps fixed u x' = Some (x_seed x') <->
   exists sk, In sk (concat (map snd (u_chains u))) /\
     (exists r pks, RR (st_msk s) pk x r /\ rlookup r (p_keys pk) = Some pks /\ tok pks = tok sk) /\
     (x_hyb x' = false \/ s_hyb sk = true)).
Proof. exact recaps_audience. Qed.
Print Assumptions C18_recaps_audience.

(* Pinned tree (8f3c295) refuted: recaps erred when one recovered right was no longer published (finding F12). *)
Theorem C18_pinned_refuted : exists m pk x,
  fst (recaps pinned m pk x 9%N) = RErr /\ fst (recaps fixed m pk x 9%N) <> RErr.
Proof.
  exists {| m_users := []; m_secrets := [([1%N], [(true, {| tok := 1; s_hyb := false |})]); ([2%N], [(true, {| tok := 2; s_hyb := false |})])]; m_st := empty_structure |},
         {| p_keys := [([1%N], {| tok := 1; s_hyb := false |})]; p_st := empty_structure |},
         {| x_hyb := false; x_entries := [1%N; 2%N]; x_seed := 0%N |}.
  split; vm_compute; [reflexivity|discriminate].
Qed.
Print Assumptions C18_pinned_refuted.

(* ---- over all reachable states of the key-management state machine (KInv*.v, gathered in KeysTheorems.v) ---- *)
Theorem C18_recaps_audience_state_reach :
  forall (s : state) (j e : nat) (pk : mpk) (x x' : xenc) (u : usk),
       reach s ->
       nth_error (st_mpks s) j = Some pk ->
       nth_error (st_encs s) e = Some x ->
       st_encs (fst (step fixed s (ORecaps j e))) = st_encs s ++ [x'] ->
       In u (st_usks s) ->
       decaps fixed u x' = Some (x_seed x') <->
       (exists (r : rightk) (pks : secret) (ch : list secret),
          RR (st_msk s) pk x r /\ rlookup r (p_keys pk) = Some pks /\ In (r, ch) (u_chains u) /\ In pks ch).
Proof. exact (@KeysTheorems.C18_recaps_audience_state). Qed.
Print Assumptions C18_recaps_audience_state_reach.


