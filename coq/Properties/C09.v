(* C09 - Every API call succeeds or fails exactly as its contract says. *)
From Coq Require Import List NArith Bool Arith Lia.
From CC Require Import Policy Structure Keys KeysMachine KInv1 KInv2.
Import ListNotations.

(* Refreshing an issued user key succeeds with either flag in every reachable state, whatever was rekeyed, pruned or
   deleted in between. *)
Theorem C09_refresh_issued_ok : forall s k keep, reach s -> (k < length (st_usks s))%nat ->
  snd (step fixed s (ORefresh k keep)) = ObOk.
Proof. exact refresh_issued_ok. Qed.
Print Assumptions C09_refresh_issued_ok.

(* Structure edits: exact success conditions *)
Theorem C09_add_dimension_ok_iff : forall d st, (exists st', add_anarchy d st = Ok st') <-> amem d (dims st) = false.
Proof. intros d st. unfold add_anarchy, add_dim. destruct (amem d (dims st)); split; intros H; try discriminate; try (destruct H; discriminate); eauto. Qed.
Print Assumptions C09_add_dimension_ok_iff.

Theorem C09_del_dimension_ok_iff : forall d st, (exists st', del_dimension d st = Ok st') <-> amem d (dims st) = true.
Proof. intros d st. unfold del_dimension. destruct (amem d (dims st)); split; intros H; try discriminate; try (destruct H; discriminate); eauto. Qed.
Print Assumptions C09_del_dimension_ok_iff.

(* adding an attribute: the dimension exists, the name is free, and in a hierarchy `after` (if given) exists *)
Theorem C09_add_attribute_ok_iff : forall d n hyb after st,
  (exists st', add_attribute true d n hyb after st = Ok st') <->
  exists dm, alookup d (dims st) = Some dm /\ amem n (attrs_of dm) = false /\
             match dm, after with Hierarchy l, Some a => amem a l = true | _, _ => True end.
Proof.
  intros d n hyb after st. unfold add_attribute.
  destruct (alookup d (dims st)) as [dm|] eqn:El.
  2:{ split; [intros [? H]; discriminate|intros (dm & H & _); discriminate]. }
  unfold dim_add_attribute. destruct dm as [l|l]; cbn [attrs_of].
  - destruct (amem n l) eqn:E; cbn.
    + split; [intros [? H]; discriminate|intros (dm & H & Hm & _); inversion H; subst; cbn in Hm; congruence].
    + split; [intros _; exists (Anarchy l); repeat split; exact E|intros _; eexists; reflexivity].
  - destruct (amem n l) eqn:E; cbn.
    + split; [intros [? H]; discriminate|intros (dm & H & Hm & _); inversion H; subst; cbn in Hm; congruence].
    + destruct after as [a|]; cbn.
      * destruct (amem a l) eqn:Ea; cbn.
        -- split; [intros _; exists (Hierarchy l); repeat split; assumption|intros _; eexists; reflexivity].
        -- split; [intros [? H]; discriminate|intros (dm & H & _ & Ha); inversion H; subst; congruence].
      * split; [intros _; exists (Hierarchy l); repeat split; exact E|intros _; eexists; reflexivity].
Qed.
Print Assumptions C09_add_attribute_ok_iff.

(* an error never changes anything (shared with C10) *)
Theorem C09_error_is_a_no_op : forall s o, snd (step fixed s o) = ObErr -> fst (step fixed s o) = s.
Proof. exact failed_step_unchanged_any. Qed.
Print Assumptions C09_error_is_a_no_op.
