(* C09 - Every API call succeeds or fails exactly as its contract says. *)
From Coq Require Import List NArith Bool Arith Lia.
From CC Require Import Policy Structure Keys KeysMachine KInv1 KInv2.
From CC Require Import DisabledProofs KInv1 KInv2 KInv3 KInv4 KInv4b KInv5 KInv6 KInv7 KInv8 KInv9 KInv10.
From CC Require KeysTheorems.
Import ListNotations.

(* Refreshing an issued user key succeeds with either flag in every reachable state, whatever was rekeyed, pruned or
   deleted in between. *)
Theorem C09_refresh_issued_ok : forall s k keep, reach s -> (k < length (st_usks s))%nat ->
  snd (step fixed s (ORefresh k keep)) = ObOk.
Proof. exact refresh_issued_ok. Qed.
Print Assumptions C09_refresh_issued_ok.

(* Structure edits: exact success conditions *)
Theorem C09_add_dimension_ok_iff : forall d st, (exists st', add_anarchy d st = Ok st') <-> amem d (dims st) = false.
Proof. intros d st. unfold add_anarchy, add_dim. destruct (amem d (dims st)); split; intros H; try discriminate; try (destruct H; discriminate); eauto. Qed.
Print Assumptions C09_add_dimension_ok_iff.

Theorem C09_del_dimension_ok_iff : forall d st, (exists st', del_dimension d st = Ok st') <-> amem d (dims st) = true.
Proof. intros d st. unfold del_dimension. destruct (amem d (dims st)); split; intros H; try discriminate; try (destruct H; discriminate); eauto. Qed.
Print Assumptions C09_del_dimension_ok_iff.

(* adding an attribute: the dimension exists, the name is free, and in a hierarchy `after` (if given) exists *)
Theorem C09_add_attribute_ok_iff : forall d n hyb after st,
  (exists st', add_attribute true d n hyb after st = Ok st') <->
  exists dm, alookup d (dims st) = Some dm /\ amem n (attrs_of dm) = false /\
             match dm, after with Hierarchy l, Some a => amem a l = true | _, _ => True end.
Proof.
  intros d n hyb after st. unfold add_attribute.
  destruct (alookup d (dims st)) as [dm|] eqn:El.
  2:{ split; [intros [? H]; discriminate|intros (dm & H & _); discriminate]. }
  unfold dim_add_attribute. destruct dm as [l|l]; cbn [attrs_of].
  - destruct (amem n l) eqn:E; cbn.
    + split; [intros [? H]; discriminate|intros (dm & H & Hm & _); inversion H; subst; cbn in Hm; congruence].
    + split; [intros _; exists (Anarchy l); repeat split; exact E|intros _; eexists; reflexivity].
  - destruct (amem n l) eqn:E; cbn.
    + split; [intros [? H]; discriminate|intros (dm & H & Hm & _); inversion H; subst; cbn in Hm; congruence].
    + destruct after as [a|]; cbn.
      * destruct (amem a l) eqn:Ea; cbn.
        -- split; [intros _; exists (Hierarchy l); repeat split; assumption|intros _; eexists; reflexivity].
        -- split; [intros [? H]; discriminate|intros (dm & H & _ & Ha); inversion H; subst; congruence].
      * split; [intros _; exists (Hierarchy l); repeat split; exact E|intros _; eexists; reflexivity].
Qed.
Print Assumptions C09_add_attribute_ok_iff.

(* an error never changes anything (shared with C10) *)
Theorem C09_error_is_a_no_op : forall s o, snd (step fixed s o) = ObErr -> fst (step fixed s o) = s.
Proof. exact failed_step_unchanged_any. Qed.
Print Assumptions C09_error_is_a_no_op.

(* ---- over all reachable states of the key-management state machine (KInv*.v, gathered in KeysTheorems.v) ---- *)
Theorem C09_refresh_ok_iff_reach :
  forall (s : state) (k : nat) (keep : bool),
       reach s -> snd (step fixed s (ORefresh k keep)) = ObOk <-> k < length (st_usks s).
Proof. exact (@KeysTheorems.C09_refresh_ok_iff). Qed.
Print Assumptions C09_refresh_ok_iff_reach.

Theorem C09_update_ok_iff_reach :
  forall s : state, reach s -> snd (step fixed s OUpdate) = ObOk <-> update_ok_b (st_msk s) = true.
Proof. exact (@KeysTheorems.C09_update_ok_iff). Qed.
Print Assumptions C09_update_ok_iff_reach.

Theorem C09_update_err_iff_reach :
  forall s : state,
       reach s ->
       snd (step fixed s OUpdate) = ObErr <->
       (exists (r : rightk) (h : bool),
          In (r, (h, false)) (omega_map (m_st (st_msk s))) /\ rmem r (m_secrets (st_msk s)) = false).
Proof. exact (@KeysTheorems.C09_update_err_iff). Qed.
Print Assumptions C09_update_err_iff_reach.

Theorem C09_rekey_ok_iff_reach :
  forall (s : state) (p : str),
       snd (step fixed s (ORekey p)) = ObOk <->
       (exists rs : list rightk,
          usk_rights fixed (m_st (st_msk s)) p = ROk rs /\ rights_known (st_msk s) rs = true).
Proof. exact (@KeysTheorems.C09_rekey_ok_iff). Qed.
Print Assumptions C09_rekey_ok_iff_reach.

Theorem C09_prune_ok_iff_reach :
  forall (s : state) (p : str),
       snd (step fixed s (OPrune p)) = ObOk <->
       (exists rs : list rightk, usk_rights fixed (m_st (st_msk s)) p = ROk rs).
Proof. exact (@KeysTheorems.C09_prune_ok_iff). Qed.
Print Assumptions C09_prune_ok_iff_reach.

Theorem C09_keygen_ok_iff_reach :
  forall (s : state) (p : str),
       reach s ->
       snd (step fixed s (OKeygen p)) = ObOk <->
       (exists rs : list rightk,
          usk_rights fixed (m_st (st_msk s)) p = ROk rs /\ rights_known (st_msk s) rs = true).
Proof. exact (@KeysTheorems.C09_keygen_ok_iff). Qed.
Print Assumptions C09_keygen_ok_iff_reach.

Theorem C09_encaps_ok_iff_reach :
  forall (s : state) (j : nat) (p : str),
       snd (step fixed s (OEncaps j p)) = ObOk <->
       (exists (pk : mpk) (rs : list rightk),
          nth_error (st_mpks s) j = Some pk /\
          enc_rights fixed (p_st pk) p = ROk rs /\ forallb (fun r : rightk => rmem r (p_keys pk)) rs = true).
Proof. exact (@KeysTheorems.C09_encaps_ok_iff). Qed.
Print Assumptions C09_encaps_ok_iff_reach.


