(* C02 - Unauthorized keys never recover a secret. *)
From Coq Require Import List NArith Bool Arith Lia.
From CC Require Import Policy PolicyProofs Structure Keys KeysMachine AssocLemmas CoverProofs1 CoverProofs2 CoverPolicy.
From CC Require Crypto.
From CC Require Import KInv1 E2E1 E2E2 E2E3 E2E4 E2E5 E2E6.
Import ListNotations.

(* Rights layer, converse direction: if no clause of the user policy covers the encryption clause, the right of the
   encryption clause is NOT among the user's rights. *)
Theorem C02_not_covered_no_right : forall st UP E rs ids,
  wf_structure st -> (forall U, In U (to_dnf UP) -> NoDup (map qdim U)) -> NoDup (map qdim E) ->
  complementary_rights st UP = Ok rs -> ids_of_clause st E = Ok ids ->
  (forall U, In U (to_dnf UP) -> ~ covers st U E) -> ~ In (right_of_point ids) rs.
Proof.
  intros st UP E rs ids Hwf HU HE Hrs Hids Hno Hin.
  apply (proj1 (usk_rights_cover st UP E rs ids Hwf HU HE Hrs Hids)) in Hin.
  destruct Hin as (U & HUin & Hc). exact (Hno U HUin Hc).
Qed.
Print Assumptions C02_not_covered_no_right.

(* Order used by the cover relation: in a hierarchy "lower or equal rank", in an anarchy "same name":
   a lower attribute never opens a higher one, a sibling never opens a sibling. *)
Theorem C02_anarchy_same_name_only : forall l m n, In n (names_of l) -> (le_name (Anarchy l) m n <-> m = n).
Proof. exact le_name_anarchy. Qed.
Print Assumptions C02_anarchy_same_name_only.

(* Token level: decapsulation returns a secret only if the key holds a secret under which an entry was made,
   and then it returns the encapsulated seed, never another value. *)
Theorem C02_decaps_sound : forall u x k,
  Keys.decaps KeysMachine.fixed u x = Some k ->
  k = x_seed x /\ exists s, In s (concat (map snd (u_chains u))) /\ opens x s = true.
Proof.
  intros u x k H. unfold Keys.decaps in H. cbn [KeysMachine.fixed KeysMachine.fx_all fx_rev] in H.
  destruct (existsb (opens x) (concat (map snd (u_chains u)))) eqn:E; [|discriminate].
  injection H as <-. split; [reflexivity|]. apply existsb_exists in E. exact E.
Qed.
Print Assumptions C02_decaps_sound.

(* Algebra level: an accepted tag pins the whole encapsulation and the key (classic mode; both modes in CryptoKem.v) *)
Theorem C02_never_a_wrong_secret :
  forall (F : Type) (zero : F) (add mul : F -> F -> F) (F_eq_dec : forall x y : F, {x = y} + {x <> y})
    (D : Type) (D_eq_dec : forall x y : D, {x = y} + {x <> y})
    (H Jtag Jkey : list (Crypto.symbol F D) -> D) (G : D -> F) (mask unmask : D -> D -> D),
  (forall a b, H a = H b -> a = b) -> (forall a b, Jtag a = Jtag b -> a = b) ->
  forall tracers pks S markers ps sks x' k,
  let '(key, x) := Crypto.encaps F mul D H Jtag Jkey G mask tracers pks S in
  Crypto.decaps F zero add mul F_eq_dec D D_eq_dec H Jtag Jkey G unmask markers ps sks x' = Some k ->
  Crypto.x_tag F D x' = Crypto.x_tag F D x -> x' = x /\ k = key.
Proof. intros. eapply Crypto.tag_commits; eassumption. Qed.
Print Assumptions C02_never_a_wrong_secret.

(* ---- END TO END at the level of the key-management state machine (E2E1-6.v): for every reachable state in which the master
   key has just been updated, a key generated for UP and an encapsulation made for EP under the public key of that update
   (any quiet operations in between, either order): decapsulation returns the encapsulated secret if some clause of UP covers
   some clause of EP at NAME level, and "not authorized" if none does. ---- *)
Theorem C02_sound_reach :
  forall (s0 : state) (ops1 ops2 : list op) (UP EP : str) (up ep : policy) (du : usk) (dx : xenc),
       let s1 := fst (step fixed s0 OUpdate) in
       let st := m_st (st_msk s1) in
       let j := length (st_mpks s0) in
       let sa := run_state fixed s1 ops1 in
       let s2 := fst (step fixed sa (OKeygen UP)) in
       let sb := run_state fixed s2 ops2 in
       let s3 := fst (step fixed sb (OEncaps j EP)) in
       let u := last (st_usks s2) du in
       let x := last (st_encs s3) dx in
       reach s0 ->
       snd (step fixed s0 OUpdate) = ObOk ->
       quiet_ops ops1 ->
       snd (step fixed sa (OKeygen UP)) = ObOk ->
       quiet_ops ops2 ->
       snd (step fixed sb (OEncaps j EP)) = ObOk ->
       parse true UP = Ok up ->
       parse true EP = Ok ep ->
       (forall U : list qattr, In U (to_dnf up) -> NoDup (map qdim U)) ->
       (forall E : list qattr, In E (to_dnf ep) -> NoDup (map qdim E)) ->
       (forall U E : list qattr, In U (to_dnf up) -> In E (to_dnf ep) -> ~ covers st U E) ->
       Keys.decaps fixed u x = None.
Proof. exact (@E2E2.C02_sound). Qed.
Print Assumptions C02_sound_reach.

Theorem C02_sound_any_order :
  forall (s0 : state) (opsK opsE : list op) (UP EP : str) (up ep : policy) (u : usk) (x : xenc),
       reach s0 ->
       snd (step fixed s0 OUpdate) = ObOk ->
       let s1 := fst (step fixed s0 OUpdate) in
       let st := m_st (st_msk s1) in
       let j := length (st_mpks s0) in
       quiet_ops opsK ->
       quiet_ops opsE ->
       let sK := run_state fixed s1 opsK in
       let sE := run_state fixed s1 opsE in
       snd (step fixed sK (OKeygen UP)) = ObOk ->
       st_usks (fst (step fixed sK (OKeygen UP))) = st_usks sK ++ [u] ->
       snd (step fixed sE (OEncaps j EP)) = ObOk ->
       st_encs (fst (step fixed sE (OEncaps j EP))) = st_encs sE ++ [x] ->
       parse true UP = Ok up ->
       parse true EP = Ok ep ->
       (forall U : list qattr, In U (to_dnf up) -> NoDup (map qdim U)) ->
       (forall E : list qattr, In E (to_dnf ep) -> NoDup (map qdim E)) ->
       (forall U E : list qattr, In U (to_dnf up) -> In E (to_dnf ep) -> ~ covers st U E) ->
       Keys.decaps fixed u x = None.
Proof. exact (@E2E2.C02_sound_any_order). Qed.
Print Assumptions C02_sound_any_order.


