(* C15 - The policy parser is total and logically faithful.
   Statements only; each is closed by [exact] of a lemma proved elsewhere. *)
From Coq Require Import List NArith Bool Arith Lia.
From CC Require Import Policy PolicyProofs ParseTotal ParseFuel Faithful1 Faithful2 Faithful3 Faithful4.
Import ListNotations.

(* Totality, part 1: the (repaired) parser never reaches a Rust panic point
   (every slice offset it computes is a character boundary inside the string). *)
Theorem C15_never_panics : forall fuel e q, parse_fuel true fuel e q <> Panic.
Proof. exact parse_never_panics. Qed.
Print Assumptions C15_never_panics.

(* Totality, part 2: the parse loop terminates (fuel = length + 1 always suffices), for both variants. *)
Theorem C15_terminates : forall fixed s, parse fixed s <> Hang.
Proof. exact parse_total. Qed.
Print Assumptions C15_terminates.

(* Hence: every string yields a policy or an error. *)
Theorem C15_total : forall s, (exists p, parse true s = Ok p) \/ parse true s = Err.
Proof.
  intros s. destruct (parse true s) eqn:E.
  - left. eexists. reflexivity.
  - right. reflexivity.
  - exfalso. exact (parse_never_panics _ _ _ E).
  - exfalso. exact (parse_total _ _ E).
Qed.
Print Assumptions C15_total.

(* The DNF is equivalent to the policy under every truth assignment. *)
Theorem C15_dnf_equiv : forall env p, eval_dnf env (to_dnf p) = eval env p.
Proof. exact dnf_equiv. Qed.
Print Assumptions C15_dnf_equiv.

(* Logical faithfulness on the documented grammar: every printing of a formula (free whitespace,
   redundant parentheses, && tighter than ||, names with any non-meta characters) parses to a policy with
   the same truth table. *)
Theorem C15_parse_faithful : forall f s w, POr f s -> ws w ->
  exists p, parse true (s ++ w) = Ok p /\ forall env, eval env p = eval env f.
Proof. exact parse_faithful. Qed.
Print Assumptions C15_parse_faithful.

Theorem C15_parse_dnf_faithful : forall f s w, POr f s -> ws w ->
  exists d, parse_dnf true (s ++ w) = Ok d /\ forall env, eval_dnf env d = eval env f.
Proof. exact parse_dnf_faithful. Qed.
Print Assumptions C15_parse_dnf_faithful.

(* The pinned parser (8f3c295) is refuted: "é::a" panics (finding F1, repaired by a fix: commit). *)
Theorem C15_pinned_refuted : exists s, parse false s = Panic.
Proof. exists [233;58;58;97]%N. vm_compute. reflexivity. Qed.
Print Assumptions C15_pinned_refuted.
