(* C03 - Access decisions stay correct across access-structure edits. *)
From Coq Require Import List NArith Bool Arith Lia.
From CC Require Import Policy Structure Keys KeysMachine WfProofs HierProofs EditLemmas EditHistory EditKeep.
From CC Require Import DictModel DictProofs DictRevProofs.
Import ListNotations.

(* Every edit history keeps the structure well formed (distinct names at both levels, globally distinct ids, all ids
   below the monotone counter). *)
Theorem C03_edits_preserve_wf : forall es, wfb (run_edits empty_structure es).
Proof. exact edits_preserve_wfb. Qed.
Print Assumptions C03_edits_preserve_wf.

(* Identifiers handed out along ANY history are pairwise distinct - also those of attributes deleted since - and every
   live identifier was handed out: a new attribute never gets the identifier (hence never the rights and secrets) of
   another live or deleted attribute. *)
Theorem C03_ids_never_reused : forall es, NoDup (issued_ids es).
Proof. exact issued_ids_NoDup. Qed.
Print Assumptions C03_ids_never_reused.

Theorem C03_live_ids_were_issued : forall es i, In i (st_ids (run_edits empty_structure es)) -> In i (issued_ids es).
Proof. exact live_ids_issued. Qed.
Print Assumptions C03_live_ids_were_issued.

Theorem C03_new_attribute_gets_fresh_id : forall es d n hyb after,
  let st := run_edits empty_structure es in
  forall st', add_attribute true d n hyb after st = Ok st' ->
  issued_ids (es ++ [EAddAttr d n hyb after]) = issued_ids es ++ [next_id st] /\ ~ In (next_id st) (issued_ids es).
Proof. exact new_attribute_id_never_issued. Qed.
Print Assumptions C03_new_attribute_gets_fresh_id.

(* A renamed attribute keeps its identifier (hence its access); edits leave every other attribute untouched. *)
Theorem C03_rename_keeps_id : forall st d n n' st', wfb st -> rename_attribute d n n' st = Ok st' ->
  exists a, get_attribute st (Q d n) = Some a /\ get_attribute st' (Q d n') = Some a /\
            get_attribute st' (Q d n) = None /\ get_attribute st (Q d n') = None.
Proof. exact rename_keeps_id. Qed.
Print Assumptions C03_rename_keeps_id.

Theorem C03_edits_keep_other_attributes : forall st e q, wfb st -> ~ touched e q ->
  get_attribute (apply_edit st e) q = get_attribute st q.
Proof. exact edits_keep_other_attributes. Qed.
Print Assumptions C03_edits_keep_other_attributes.

(* Decapsulation reads neither the structure nor the master key: edits cannot change who opens existing encapsulations. *)
Theorem C03_decaps_ignores_structure : forall fx s o k e,
  match o with ODecaps _ _ | ORefresh _ _ | OKeygen _ | OEncaps _ _ | ORecaps _ _ | OSetup | ORoundTrip _ => True
  | _ => st_usks (fst (step fx s o)) = st_usks s /\ st_encs (fst (step fx s o)) = st_encs s end /\
  (nth_error (st_usks s) k <> None -> nth_error (st_encs s) e <> None ->
   fst (step fx s (ODecaps k e)) = s).
Proof.
  intros fx s o k e. split.
  - destruct o; try exact I; cbn [step].
    all: try (unfold edit; match goal with |- context [match ?r with Ok _ => _ | _ => _ end] => destruct r end; cbn; split; reflexivity).
    + destruct (update_msk fx (st_msk s) (st_ctr s)) as [[r m'] c]. destruct r; cbn; split; reflexivity.
    + cbn. split; reflexivity.
    + destruct (usk_rights fx (m_st (st_msk s)) p); [|cbn; split; reflexivity].
      destruct (rekey fx (st_msk s) a (st_ctr s)) as [r c]. destruct r; cbn; split; reflexivity.
    + destruct (usk_rights fx (m_st (st_msk s)) p); cbn; split; reflexivity.
  - intros Hk He. cbn [step]. destruct (nth_error (st_usks s) k); [|contradiction]. destruct (nth_error (st_encs s) e); [|contradiction].
    destruct (u_chains u); reflexivity.
Qed.
Print Assumptions C03_decaps_ignores_structure.

(* Pinned tree (8f3c295) refuted: the identifier was the number of live attributes, so after a deletion it is handed out
   twice (finding F2, repaired by a fix: commit). *)
Theorem C03_pinned_ids_refuted : exists es, ~ NoDup (issued_from false empty_structure es).
Proof. exact pinned_ids_refuted. Qed.
Print Assumptions C03_pinned_ids_refuted.

(* ---- the ordered map behind hierarchical dimensions (data_struct::Dict: a vector of entries + a hash map of indices).
   DictModel.v mirrors the index bookkeeping literally; for EVERY operation sequence the concrete representation behaves
   as the ordered association list that Structure.v uses (same observations, same final content, invariant kept), no index
   is ever out of bounds, and the variant that forgets to re-index the element right after a removed one is refuted. ---- *)
Theorem C03_dict_refines_alist : forall (V : Type) (ops : list (dop V)),
  observations (run_dict d_new ops) = observations (run_alist [] ops) /\
  abs (fst (run_dict d_new ops)) = fst (run_alist [] ops) /\ dict_ok (fst (run_dict d_new ops)).
Proof. exact (@DictProofs.dict_refines_alist). Qed.
Print Assumptions C03_dict_refines_alist.

Theorem C03_dict_reachable_sound : forall (V : Type) (ops : list (dop V)),
  let d := fst (run_dict d_new ops) in
  (forall k : str, d_oob k d = false) /\ d_len d = length (d_iter d) /\ NoDup (d_keys d).
Proof. exact (@DictProofs.dict_reachable_sound). Qed.
Print Assumptions C03_dict_reachable_sound.

Theorem C03_dict_remove_skip_refuted : exists (d : dict N) (k : str),
  dict_ok d /\ ~ dict_ok (fst (d_remove_gen shift_skip k d)) /\
  (exists k' : str, d_get k' (fst (d_remove_gen shift_skip k d)) <> alookup k' (aremove k (abs d))).
Proof. exact DictProofs.d_remove_shift_skip_refuted. Qed.
Print Assumptions C03_dict_remove_skip_refuted.
