(* C05 - Revocation takes effect: pruned and deleted secrets leave refreshed keys. *)
From Coq Require Import List NArith Bool Arith Lia.
From CC Require Import Policy Structure Keys KeysMachine RefreshProofs PinnedRefuted.
Import ListNotations.

(* prune keeps exactly the newest secret (with its flag) of each pruned right, and nothing else changes *)
Theorem C05_prune_spec : forall m rs r ch, In (r, ch) (m_secrets m) ->
  In (r, if existsb (list_N_eqb r) rs then firstn 1 ch else ch) (m_secrets (prune m rs)).
Proof.
  intros m rs r ch Hin. unfold prune. cbn [m_secrets]. apply in_map_iff. exists (r, ch). split; [|exact Hin].
  destruct (existsb (list_N_eqb r) rs); reflexivity.
Qed.
Print Assumptions C05_prune_spec.

(* After a refresh keeping old secrets, the user's chain of a right is a PREFIX of the master chain: a secret that was
   pruned from the master key (index >= k in the log) is no longer held, whatever the key held before. *)
Theorem C05_refreshed_chain_is_prefix_of_master : forall (L : list secret) (mch : list (bool * secret)) (k i j : nat) c,
  NoDup L -> secs mch = firstn k L -> (i < j <= length L)%nat -> (k <= length L)%nat ->
  refresh_chain RefreshProofs.fx_all mch (firstn (j - i) (skipn i L)) = Some c ->
  exists n, (n <= k)%nat /\ c = firstn n (secs mch).
Proof.
  intros L mch k i j c Hnd Hm Hij Hk H.
  rewrite (refresh_chain_window L mch k i j Hnd Hm Hij Hk) in H. injection H as <-.
  destruct (i <? k)%nat.
  - exists (Nat.min j k). split; [lia|]. rewrite Hm. rewrite firstn_firstn. f_equal. lia.
  - exists k. split; [lia|]. rewrite Hm. rewrite firstn_firstn. f_equal. lia.
Qed.
Print Assumptions C05_refreshed_chain_is_prefix_of_master.

(* Pinned tree (8f3c295) refuted: the user's first secret was kept although pruned from the master key (finding F4). *)
Theorem C05_pinned_refuted : exists mch uch c,
  refresh_chain fx_none mch uch = Some c /\ In (s 1) c /\ ~ In (s 1) (map snd mch).
Proof. exact refresh_keeps_pruned_refuted. Qed.
Print Assumptions C05_pinned_refuted.
