(* C05 - Revocation takes effect: pruned and deleted secrets leave refreshed keys. *)
From Coq Require Import List NArith Bool Arith Lia.
From CC Require Import Policy Structure Keys KeysMachine RefreshProofs PinnedRefuted.
From CC Require Import DisabledProofs KInv1 KInv2 KInv3 KInv4 KInv4b KInv5 KInv6 KInv7 KInv8 KInv9 KInv10.
From CC Require KeysTheorems.
Import ListNotations.

(* prune keeps exactly the newest secret (with its flag) of each pruned right, and nothing else changes *)
Theorem C05_prune_spec : forall m rs r ch, In (r, ch) (m_secrets m) ->
  In (r, if existsb (list_N_eqb r) rs then firstn 1 ch else ch) (m_secrets (prune m rs)).
Proof.
  intros m rs r ch Hin. unfold prune. cbn [m_secrets]. apply in_map_iff. exists (r, ch). split; [|exact Hin].
  destruct (existsb (list_N_eqb r) rs); reflexivity.
Qed.
Print Assumptions C05_prune_spec.

(* After a refresh keeping old secrets, the user's chain of a right is a PREFIX of the master chain: a secret that was
   pruned from the master key (index >= k in the log) is no longer held, whatever the key held before. *)
Theorem C05_refreshed_chain_is_prefix_of_master : forall (L : list secret) (mch : list (bool * secret)) (k i j : nat) c,
  NoDup L -> secs mch = firstn k L -> (i < j <= length L)%nat -> (k <= length L)%nat ->
  refresh_chain RefreshProofs.fx_all mch (firstn (j - i) (skipn i L)) = Some c ->
  exists n, (n <= k)%nat /\ c = firstn n (secs mch).
Proof.
  intros L mch k i j c Hnd Hm Hij Hk H.
  rewrite (refresh_chain_window L mch k i j Hnd Hm Hij Hk) in H. injection H as <-.
  destruct (i <? k)%nat.
  - exists (Nat.min j k). split; [lia|]. rewrite Hm. rewrite firstn_firstn. f_equal. lia.
  - exists k. split; [lia|]. rewrite Hm. rewrite firstn_firstn. f_equal. lia.
Qed.
Print Assumptions C05_refreshed_chain_is_prefix_of_master.

(* Pinned tree (8f3c295) refuted: the user's first secret was kept although pruned from the master key (finding F4). *)
Theorem C05_pinned_refuted : exists mch uch c,
  refresh_chain fx_none mch uch = Some c /\ In (s 1) c /\ ~ In (s 1) (map snd mch).
Proof. exact refresh_keeps_pruned_refuted. Qed.
Print Assumptions C05_pinned_refuted.

(* ---- over all reachable states of the key-management state machine (KInv*.v, gathered in KeysTheorems.v) ---- *)
Theorem C05_refreshed_usk_subseq_msk_reach :
  forall (s : state) (k : nat) (keep : bool) (u : usk),
       reach s ->
       nth_error (st_usks s) k = Some u ->
       snd (step fixed s (ORefresh k keep)) = ObOk ->
       exists u' : usk,
         nth_error (st_usks (fst (step fixed s (ORefresh k keep)))) k = Some u' /\
         u_id u' = u_id u /\
         st_msk (fst (step fixed s (ORefresh k keep))) = st_msk s /\
         (forall (r : rightk) (ch : list secret),
          In (r, ch) (u_chains u') ->
          exists (mch : list (bool * secret)) (uch : list secret) (j : nat),
            rlookup r (m_secrets (st_msk s)) = Some mch /\
            In (r, uch) (u_chains u) /\ 1 <= j /\ ch = firstn j (map snd mch)).
Proof. exact (@KeysTheorems.C05_refreshed_usk_subseq_msk). Qed.
Print Assumptions C05_refreshed_usk_subseq_msk_reach.

Theorem C05_pruned_secret_unusable_reach :
  forall (s : state) (k : nat) (keep : bool) (u : usk),
       reach s ->
       nth_error (st_usks s) k = Some u ->
       snd (step fixed s (ORefresh k keep)) = ObOk ->
       exists u' : usk,
         nth_error (st_usks (fst (step fixed s (ORefresh k keep)))) k = Some u' /\
         (forall (r : rightk) (ch : list secret) (sk : secret),
          In (r, ch) (u_chains u') ->
          In sk ch ->
          exists mch : list (bool * secret),
            rlookup r (m_secrets (st_msk s)) = Some mch /\ In sk (map snd mch)).
Proof. exact (@KeysTheorems.C05_pruned_secret_unusable). Qed.
Print Assumptions C05_pruned_secret_unusable_reach.

Theorem C05_deleted_right_unusable_reach :
  forall (s : state) (k : nat) (keep : bool) (u : usk) (r : rightk),
       reach s ->
       nth_error (st_usks s) k = Some u ->
       snd (step fixed s (ORefresh k keep)) = ObOk ->
       rlookup r (m_secrets (st_msk s)) = None ->
       exists u' : usk,
         nth_error (st_usks (fst (step fixed s (ORefresh k keep)))) k = Some u' /\
         ~ In r (map fst (u_chains u')).
Proof. exact (@KeysTheorems.C05_deleted_right_unusable). Qed.
Print Assumptions C05_deleted_right_unusable_reach.

Theorem C05_prune_then_refresh_reach :
  forall (s : state) (p : str) (rs : list rightk) (k : nat) (keep : bool),
       reach s ->
       usk_rights fixed (m_st (st_msk s)) p = ROk rs ->
       let s1 := fst (step fixed s (OPrune p)) in
       k < length (st_usks s) ->
       exists u' : usk,
         nth_error (st_usks (fst (step fixed s1 (ORefresh k keep)))) k = Some u' /\
         (forall (r : rightk) (ch : list secret),
          In r rs ->
          In (r, ch) (u_chains u') ->
          exists (fl : bool) (sk : secret) (older : list (bool * secret)),
            rlookup r (m_secrets (st_msk s)) = Some ((fl, sk) :: older) /\ ch = [sk]).
Proof. exact (@KeysTheorems.C05_prune_then_refresh). Qed.
Print Assumptions C05_prune_then_refresh_reach.


