(* C16 (token level) - freshness over all histories of the key-management state machine. *)
From Coq Require Import List NArith Bool Arith Lia.
From CC Require Import Policy Structure Keys KeysMachine DisabledProofs KInv1 KInv2 KInv3 KInv4 KInv4b KInv5 KInv6 KInv7 KInv8 KInv9 KInv10.
From CC Require KeysTheorems.
Import ListNotations.

(* ---- over all reachable states of the key-management state machine (KInv*.v, gathered in KeysTheorems.v) ---- *)
Theorem C16_seeds_fresh_reach :
  forall s : state,
       reach s ->
       NoDup (map x_seed (st_encs s)) /\
       NoDup (map u_id (st_usks s)) /\
       NoDup (m_users (st_msk s)) /\ (forall x : xenc, In x (st_encs s) -> (x_seed x < st_ctr s)%N).
Proof. exact (@KeysTheorems.C16_seeds_fresh). Qed.
Print Assumptions C16_seeds_fresh_reach.

Theorem C16_rekey_publishes_new_reach :
  forall (s : state) (p : str),
       reach s ->
       snd (step fixed s (ORekey p)) = ObOk ->
       forall (rs : list rightk) (r : rightk) (sk : secret),
       usk_rights fixed (m_st (st_msk s)) p = ROk rs ->
       In r rs ->
       rlookup r (p_keys (mk_mpk (st_msk (fst (step fixed s (ORekey p)))))) = Some sk ->
       (st_ctr s <= tok sk)%N /\
       (forall (r' : rightk) (sk' : secret), occurs s r' sk' -> tok sk' <> tok sk) /\
       (forall (x : xenc) (t : N), In x (st_encs s) -> In t (x_entries x) -> t <> tok sk).
Proof. exact (@KeysTheorems.C16_rekey_publishes_new). Qed.
Print Assumptions C16_rekey_publishes_new_reach.

Theorem C16_I2_tokens_fresh :
  forall s : state,
       reach s ->
       (forall (r : rightk) (sk : secret), occurs s r sk -> (tok sk < st_ctr s)%N) /\
       (forall i : N, In i (m_users (st_msk s)) -> (i < st_ctr s)%N) /\
       (forall (u : usk) (i : N), In u (st_usks s) -> u_id u = Some i -> (i < st_ctr s)%N) /\
       (forall x : xenc,
        In x (st_encs s) -> (x_seed x < st_ctr s)%N /\ (forall t : N, In t (x_entries x) -> (t < st_ctr s)%N)).
Proof. exact (@KeysTheorems.I2_tokens_fresh). Qed.
Print Assumptions C16_I2_tokens_fresh.

Theorem C16_I2_msk_tokens_nodup :
  forall s : state, reach s -> NoDup (msk_tokens (st_msk s)).
Proof. exact (@KeysTheorems.I2_msk_tokens_nodup). Qed.
Print Assumptions C16_I2_msk_tokens_nodup.

Theorem C16_I2_tokens_unique :
  forall (s : state) (r r' : rightk) (sk sk' : secret),
       reach s -> occurs s r sk -> occurs s r' sk' -> tok sk = tok sk' -> r = r' /\ sk = sk'.
Proof. exact (@KeysTheorems.I2_tokens_unique). Qed.
Print Assumptions C16_I2_tokens_unique.


