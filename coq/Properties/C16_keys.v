(* C16 (token level) - freshness over all histories of the key-management state machine. *)
From Coq Require Import List NArith Bool Arith Lia.
From CC Require Import Policy Structure Keys KeysMachine DisabledProofs KInv1 KInv2 KInv3 KInv4 KInv4b KInv5 KInv6 KInv7 KInv8 KInv9 KInv10.
From CC Require KeysTheorems.
From CC Require KInv11.
Import ListNotations.

(* ---- over all reachable states of the key-management state machine (KInv*.v, gathered in KeysTheorems.v) ---- *)
Theorem C16_seeds_fresh_reach :
  forall s : state,
       reach s ->
       NoDup (map x_seed (st_encs s)) /\
       NoDup (map u_id (st_usks s)) /\
       NoDup (m_users (st_msk s)) /\ (forall x : xenc, In x (st_encs s) -> (x_seed x < st_ctr s)%N).
Proof. exact (@KeysTheorems.C16_seeds_fresh). Qed.
Print Assumptions C16_seeds_fresh_reach.

Theorem C16_rekey_publishes_new_reach :
  forall (s : state) (p : str),
       reach s ->
       snd (step fixed s (ORekey p)) = ObOk ->
       forall (rs : list rightk) (r : rightk) (sk : secret),
       usk_rights fixed (m_st (st_msk s)) p = ROk rs ->
       In r rs ->
       rlookup r (p_keys (mk_mpk (st_msk (fst (step fixed s (ORekey p)))))) = Some sk ->
       (st_ctr s <= tok sk)%N /\
       (forall (r' : rightk) (sk' : secret), occurs s r' sk' -> tok sk' <> tok sk) /\
       (forall (x : xenc) (t : N), In x (st_encs s) -> In t (x_entries x) -> t <> tok sk).
Proof. exact (@KeysTheorems.C16_rekey_publishes_new). Qed.
Print Assumptions C16_rekey_publishes_new_reach.

Theorem C16_I2_tokens_fresh :
  forall s : state,
       reach s ->
       (forall (r : rightk) (sk : secret), occurs s r sk -> (tok sk < st_ctr s)%N) /\
       (forall i : N, In i (m_users (st_msk s)) -> (i < st_ctr s)%N) /\
       (forall (u : usk) (i : N), In u (st_usks s) -> u_id u = Some i -> (i < st_ctr s)%N) /\
       (forall x : xenc,
        In x (st_encs s) -> (x_seed x < st_ctr s)%N /\ (forall t : N, In t (x_entries x) -> (t < st_ctr s)%N)).
Proof. exact (@KeysTheorems.I2_tokens_fresh). Qed.
Print Assumptions C16_I2_tokens_fresh.

Theorem C16_I2_msk_tokens_nodup :
  forall s : state, reach s -> NoDup (msk_tokens (st_msk s)).
Proof. exact (@KeysTheorems.I2_msk_tokens_nodup). Qed.
Print Assumptions C16_I2_msk_tokens_nodup.

Theorem C16_I2_tokens_unique :
  forall (s : state) (r r' : rightk) (sk sk' : secret),
       reach s -> occurs s r sk -> occurs s r' sk' -> tok sk = tok sk' -> r = r' /\ sk = sk'.
Proof. exact (@KeysTheorems.I2_tokens_unique). Qed.
Print Assumptions C16_I2_tokens_unique.

(* ---- "every rekey publishes a public value never published before", over histories (coq/KInv11.v) ----
   The token published for a right never decreases along a history without OSetup (OSetup starts a new master key and
   restarts the counter: the unrestricted statement is refuted below), also across steps in which the right is disabled,
   deleted and re-created; hence a value that has been REPLACED is never published again - by update, rekey, prune or
   re-derivation - nor handed out in any later public-key snapshot. *)
Theorem C16_published_monotone_reach :
  forall (s : state) (ops : list op) (r : rightk) (t t' : N),
       reach s -> ~ In OSetup ops ->
       KInv11.pub_tok s r = Some t -> KInv11.pub_tok (run_state fixed s ops) r = Some t' -> (t <= t')%N.
Proof. exact (@KInv11.published_monotone_run). Qed.
Print Assumptions C16_published_monotone_reach.

Theorem C16_replaced_never_republished_reach :
  forall (s : state) (ops1 ops2 : list op) (r : rightk) (t t' : N),
       reach s -> ~ In OSetup ops1 -> ~ In OSetup ops2 ->
       KInv11.pub_tok s r = Some t ->
       KInv11.pub_tok (run_state fixed s ops1) r = Some t' -> t' <> t ->
       KInv11.pub_tok (run_state fixed (run_state fixed s ops1) ops2) r <> Some t.
Proof. exact (@KInv11.replaced_never_republished). Qed.
Print Assumptions C16_replaced_never_republished_reach.

Theorem C16_deleted_never_republished_reach :
  forall (s : state) (ops1 ops2 : list op) (r : rightk) (t : N),
       reach s -> ~ In OSetup ops1 -> ~ In OSetup ops2 ->
       KInv11.pub_tok s r = Some t ->
       KInv11.front_tok (run_state fixed s ops1) r = None ->
       KInv11.front_tok (run_state fixed (run_state fixed s ops1) ops2) r <> Some t /\
       KInv11.pub_tok (run_state fixed (run_state fixed s ops1) ops2) r <> Some t.
Proof. exact (@KInv11.deleted_never_republished). Qed.
Print Assumptions C16_deleted_never_republished_reach.

Theorem C16_rekeyed_never_republished_reach :
  forall (s : state) (p : str) (rs : list rightk) (r : rightk) (t : N) (ops : list op),
       reach s ->
       snd (step fixed s (ORekey p)) = ObOk ->
       usk_rights fixed (m_st (st_msk s)) p = ROk rs -> In r rs -> ~ In OSetup ops ->
       KInv11.pub_tok s r = Some t ->
       (exists t' : N, KInv11.pub_tok (fst (step fixed s (ORekey p))) r = Some t' /\ (st_ctr s <= t')%N /\ (t < t')%N) /\
       KInv11.pub_tok (run_state fixed (fst (step fixed s (ORekey p))) ops) r <> Some t.
Proof. exact (@KInv11.rekeyed_never_republished). Qed.
Print Assumptions C16_rekeyed_never_republished_reach.

Theorem C16_replaced_never_in_later_snapshot_reach :
  forall (s : state) (ops1 ops2 : list op) (r : rightk) (t t' : N) (j : nat) (pk : mpk) (sk : secret),
       reach s -> ~ In OSetup ops1 -> ~ In OSetup ops2 ->
       KInv11.pub_tok s r = Some t ->
       KInv11.pub_tok (run_state fixed s ops1) r = Some t' -> t' <> t ->
       (length (st_mpks (run_state fixed s ops1)) <= j)%nat ->
       nth_error (st_mpks (run_state fixed (run_state fixed s ops1) ops2)) j = Some pk ->
       rlookup r (p_keys pk) = Some sk -> tok sk <> t.
Proof. exact (@KInv11.replaced_never_in_later_snapshot). Qed.
Print Assumptions C16_replaced_never_in_later_snapshot_reach.

Theorem C16_republish_with_setup_refuted :
  ~ (forall (s : state) (ops1 ops2 : list op) (r : rightk) (t t' : N),
        reach s ->
        KInv11.pub_tok s r = Some t ->
        KInv11.pub_tok (run_state fixed s ops1) r = Some t' -> t' <> t ->
        KInv11.pub_tok (run_state fixed (run_state fixed s ops1) ops2) r <> Some t).
Proof. exact KInv11.replaced_never_republished_with_setup_refuted. Qed.
Print Assumptions C16_republish_with_setup_refuted.
