(* C01 - Authorized keys always recover exactly the encapsulated secret. *)
From Coq Require Import List NArith Bool Arith Lia.
From CC Require Import Policy PolicyProofs Structure Keys KeysMachine CoverProofs1 CoverProofs2 CoverPolicy Leb.
From CC Require Crypto.
From Coq Require Import Field_theory.
From CC Require Import KInv1 E2E1 E2E2 E2E3 E2E4 E2E5 E2E6.
Import ListNotations.

(* Rights layer: for a well-formed structure and clauses naming each dimension at most once, the right of the
   encryption clause is among the rights of the user clause iff the NAME-level cover relation holds
   (same attribute in an anarchy, same or lower in a hierarchy, anything in an unmentioned dimension). *)
Theorem C01_cover_iff_right : forall st U E ps ids,
  wf_structure st -> NoDup (map qdim U) -> NoDup (map qdim E) ->
  complementary_points st U = Ok ps -> ids_of_clause st E = Ok ids ->
  (In (right_of_point ids) (map right_of_point ps) <-> covers st U E).
Proof. exact cover_iff_right. Qed.
Print Assumptions C01_cover_iff_right.

(* Lifted to whole user policies through to_dnf / collect_clauses / dedup *)
Theorem C01_usk_rights_cover : forall st UP E rs ids,
  wf_structure st -> (forall U, In U (to_dnf UP) -> NoDup (map qdim U)) -> NoDup (map qdim E) ->
  complementary_rights st UP = Ok rs -> ids_of_clause st E = Ok ids ->
  (In (right_of_point ids) rs <-> exists U, In U (to_dnf UP) /\ covers st U E).
Proof. exact usk_rights_cover. Qed.
Print Assumptions C01_usk_rights_cover.

(* The byte string of a right determines its identifier list (LEB128 is uniquely decodable) *)
Theorem C01_right_bytes_inj : forall r1 r2,
  Forall (fun n => n < 2 ^ 64)%N r1 -> Forall (fun n => n < 2 ^ 64)%N r2 -> right_bytes r1 = right_bytes r2 -> r1 = r2.
Proof. exact right_bytes_inj. Qed.
Print Assumptions C01_right_bytes_inj.

(* Token level (repaired traversal): a key opens an encapsulation as soon as it holds, at ANY position of ANY chain,
   a secret under which an entry was made (with a compatible flavour). *)
Theorem C01_decaps_complete : forall u x s,
  In s (concat (map snd (u_chains u))) -> opens x s = true -> Keys.decaps KeysMachine.fixed u x = Some (x_seed x).
Proof.
  intros u x s Hin Ho. unfold Keys.decaps. cbn [KeysMachine.fixed KeysMachine.fx_all fx_rev].
  assert (H : existsb (opens x) (concat (map snd (u_chains u))) = true) by (apply existsb_exists; exists s; split; assumption).
  rewrite H. reflexivity.
Qed.
Print Assumptions C01_decaps_complete.

(* Algebra level (classic mode; hybrid mode in CryptoKem.v): with the tracing relation of the user id and a user
   secret equal to the secret behind a target's public key, decapsulation returns exactly the encapsulated key. *)
Theorem C01_decaps_correct_classic :
  forall (F : Type) (zero one : F) (add mul sub : F -> F -> F) (opp : F -> F) (div : F -> F -> F) (inv : F -> F),
  field_theory zero one add mul sub opp div inv eq ->
  forall (F_eq_dec : forall x y : F, {x = y} + {x <> y}) (D : Type) (D_eq_dec : forall x y : D, {x = y} + {x <> y})
    (H Jtag Jkey : list (Crypto.symbol F D) -> D) (G : D -> F) (mask unmask : D -> D -> D),
  (forall a b, Jtag a = Jtag b -> a = b) -> (forall s p, unmask (mask s p) p = s) ->
  forall tracers s markers sks pks S sk,
  Crypto.dot F zero add mul markers tracers = s -> In sk sks -> In (mul s sk) pks ->
  let '(key, x) := Crypto.encaps F mul D H Jtag Jkey G mask tracers pks S in
  Crypto.decaps F zero add mul F_eq_dec D D_eq_dec H Jtag Jkey G unmask markers tracers sks x = Some key.
Proof. intros. eapply Crypto.decaps_correct; eassumption. Qed.
Print Assumptions C01_decaps_correct_classic.

(* ---- END TO END at the level of the key-management state machine (E2E1-6.v): for every reachable state in which the master
   key has just been updated, a key generated for UP and an encapsulation made for EP under the public key of that update
   (any quiet operations in between, either order): decapsulation returns the encapsulated secret if some clause of UP covers
   some clause of EP at NAME level, and "not authorized" if none does. ---- *)
Theorem C01_complete_reach :
  forall (s0 : state) (ops1 ops2 : list op) (UP EP : str) (up ep : policy) (du : usk) (dx : xenc),
       let s1 := fst (step fixed s0 OUpdate) in
       let st := m_st (st_msk s1) in
       let j := length (st_mpks s0) in
       let sa := run_state fixed s1 ops1 in
       let s2 := fst (step fixed sa (OKeygen UP)) in
       let sb := run_state fixed s2 ops2 in
       let s3 := fst (step fixed sb (OEncaps j EP)) in
       let u := last (st_usks s2) du in
       let x := last (st_encs s3) dx in
       reach s0 ->
       snd (step fixed s0 OUpdate) = ObOk ->
       quiet_ops ops1 ->
       snd (step fixed sa (OKeygen UP)) = ObOk ->
       quiet_ops ops2 ->
       snd (step fixed sb (OEncaps j EP)) = ObOk ->
       parse true UP = Ok up ->
       parse true EP = Ok ep ->
       (forall U : list qattr, In U (to_dnf up) -> NoDup (map qdim U)) ->
       (forall E : list qattr, In E (to_dnf ep) -> NoDup (map qdim E)) ->
       (exists U E : list qattr, In U (to_dnf up) /\ In E (to_dnf ep) /\ covers st U E) ->
       Keys.decaps fixed u x = Some (x_seed x).
Proof. exact (@E2E2.C01_complete). Qed.
Print Assumptions C01_complete_reach.

Theorem C01_C02_end_to_end :
  forall (s0 : state) (UP EP : str) (up ep : policy) (du : usk) (dx : xenc),
       let s1 := fst (step fixed s0 OUpdate) in
       let st := m_st (st_msk s1) in
       let j := length (st_mpks s0) in
       let s2 := fst (step fixed s1 (OKeygen UP)) in
       let s3 := fst (step fixed s2 (OEncaps j EP)) in
       let k := length (st_usks s0) in
       let e := length (st_encs s0) in
       let u := last (st_usks s2) du in
       let x := last (st_encs s3) dx in
       reach s0 ->
       snd (step fixed s0 OUpdate) = ObOk ->
       parse true UP = Ok up ->
       parse true EP = Ok ep ->
       (forall U : list qattr, In U (to_dnf up) -> NoDup (map qdim U)) ->
       (forall E : list qattr, In E (to_dnf ep) -> NoDup (map qdim E)) ->
       names_exist st up ->
       (forall E : list qattr, In E (to_dnf ep) -> clause_enabled st E) ->
       snd (step fixed s1 (OKeygen UP)) = ObOk /\
       snd (step fixed s2 (OEncaps j EP)) = ObOk /\
       nth_error (st_usks s3) k = Some u /\
       nth_error (st_encs s3) e = Some x /\
       ((exists U E : list qattr, In U (to_dnf up) /\ In E (to_dnf ep) /\ covers st U E) ->
        Keys.decaps fixed u x = Some (x_seed x) /\ snd (step fixed s3 (ODecaps k e)) = ObSome (x_seed x)) /\
       ((forall U E : list qattr, In U (to_dnf up) -> In E (to_dnf ep) -> ~ covers st U E) ->
        Keys.decaps fixed u x = None /\ snd (step fixed s3 (ODecaps k e)) = ObNone).
Proof. exact (@E2E6.C01_C02_end_to_end). Qed.
Print Assumptions C01_C02_end_to_end.


