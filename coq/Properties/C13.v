(* C13 - Serialized objects are faithful, stable and interchangeable with the originals. *)
From Coq Require Import List NArith Bool Arith Lia.
From CC Require Import Policy Structure Keys KeysMachine KInv1 KInv2 Leb Wire WireSer WireRoundTrip1 WireRoundTrip2 WireRoundTrip3 WireRoundTrip4.
Import ListNotations.

(* Byte level: for every object type the writer produces exactly the announced length and the reader gives back the
   object (wf_T = what the API guarantees: bytes, blob widths, counts below 2^64, non-empty chains). *)
Theorem C13_structure : forall s, wf_structure s ->
  length (wr_structure s) = len_structure s /\ whole (r_structure (wr_structure s)) = Some s.
Proof. exact c13_structure. Qed.
Print Assumptions C13_structure.

Theorem C13_mpk : forall sz m, wf_mpk sz m -> length (wr_mpk m) = len_mpk sz m /\ whole (r_mpk sz (wr_mpk m)) = Some m.
Proof. exact c13_mpk. Qed.
Print Assumptions C13_mpk.

Theorem C13_usk : forall sz u, wf_usk sz u -> length (wr_usk u) = len_usk sz u /\ whole (r_usk sz (wr_usk u)) = Some u.
Proof. exact c13_usk. Qed.
Print Assumptions C13_usk.

Theorem C13_xenc : forall sz x, wf_xenc sz x -> length (wr_xenc x) = len_xenc sz x /\ whole (r_xenc sz (wr_xenc x)) = Some x.
Proof. exact c13_xenc. Qed.
Print Assumptions C13_xenc.

Theorem C13_header : forall sz h, wf_header sz h -> length (wr_header h) = len_header sz h /\ whole (r_header sz (wr_header h)) = Some h.
Proof. exact c13_header. Qed.
Print Assumptions C13_header.

Theorem C13_cleartext : forall c, wf_cleartext c -> length (wr_cleartext c) = len_cleartext c /\ whole (r_cleartext (wr_cleartext c)) = Some c.
Proof. exact c13_cleartext. Qed.
Print Assumptions C13_cleartext.

(* Master key: every master key the API can produce carries a signing key (setup creates one, nothing removes it). *)
Theorem C13_msk_signed : forall sz m rest, wf_msk sz m -> wm_sign m <> None -> r_msk sz (wr_msk m ++ rest) = ROk m rest.
Proof. exact rt_msk_signed. Qed.
Print Assumptions C13_msk_signed.

(* absent and empty header metadata are the same value on the wire *)
Theorem C13_header_empty_meta : forall x, wr_header {| wh_enc := x; wh_meta := Some [] |} = wr_header {| wh_enc := x; wh_meta := None |}.
Proof. exact wr_header_empty_meta. Qed.
Print Assumptions C13_header_empty_meta.

(* LEB128 round trip for every 64-bit value *)
Theorem C13_leb_roundtrip : forall n rest, (n < 2 ^ 64)%N -> leb_read (leb128 n ++ rest) = Some (n, rest).
Proof. exact leb_roundtrip. Qed.
Print Assumptions C13_leb_roundtrip.

(* State-machine level: using the deserialized object instead of the original at any point of any history changes
   neither the final state nor any later observation. *)
Theorem C13_interchangeable : forall fx s ops1 o ops2,
  fst (run fx s (ops1 ++ ORoundTrip o :: ops2)) = fst (run fx s (ops1 ++ ops2)) /\
  exists obs1 obs2, length obs1 = length ops1 /\ snd (run fx s (ops1 ++ ops2)) = obs1 ++ obs2 /\
                    snd (run fx s (ops1 ++ ORoundTrip o :: ops2)) = obs1 ++ ObOk :: obs2.
Proof. exact roundtrip_identity. Qed.
Print Assumptions C13_interchangeable.
