(* C10 - Failed operations leave keys untouched. *)
From Coq Require Import List NArith Bool Arith Lia.
From CC Require Import Policy Structure Keys KeysMachine KInv1 KInv2.
Import ListNotations.

(* In the repaired model every operation that returns an error returns the WHOLE state unchanged: master key (secrets,
   user set, structure), every user key, public keys, encapsulations and the randomness counter.  No reachability
   hypothesis is needed.  The model's step mirrors the order of validation and mutation of the Rust code; the
   correspondence run compares the state after every failed call. *)
Theorem C10_failed_step_unchanged : forall s o, snd (step fixed s o) = ObErr -> fst (step fixed s o) = s.
Proof. exact failed_step_unchanged_any. Qed.
Print Assumptions C10_failed_step_unchanged.

(* Stronger: anything but Ok (also "not authorized", unknown index) leaves the state as it was. *)
Theorem C10_non_ok_step_unchanged : forall s o, snd (step fixed s o) <> ObOk -> fst (step fixed s o) = s.
Proof. exact non_ok_step_unchanged. Qed.
Print Assumptions C10_non_ok_step_unchanged.

(* Pinned tree (8f3c295) refuted: a failed update_msk empties the master key (F7); a failed refresh empties the user
   key's identifier (F6). Both repaired by fix: commits. *)
Theorem C10_pinned_is_refuted :
  (exists (ops : list op) (o : op),
     snd (step pinned (run_state pinned init ops) o) = ObErr /\
     fst (step pinned (run_state pinned init ops) o) <> run_state pinned init ops /\
     m_secrets (st_msk (run_state pinned init ops)) <> nil /\
     m_secrets (st_msk (fst (step pinned (run_state pinned init ops) o))) = nil) /\
  (exists (m : msk) (u : usk) (keep : bool),
     fst (refresh pinned m u keep) = RErr /\ u_id u <> None /\ u_id (snd (refresh pinned m u keep)) = None).
Proof. exact C10_pinned_refuted. Qed.
Print Assumptions C10_pinned_is_refuted.
