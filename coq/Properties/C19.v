(* C19 - A shared instance is safe and live under concurrent use.
   The lock skeleton of every API method is REGENERATED from src/api.rs and src/encrypted_header.rs on every run
   (tools/lockskel.py -> generated/LockSkel.v); the theorems below are then applied to what the code says now.
   Model: Conc.v - threads over one non-reentrant mutex guarding the generator cursor (std::sync::Mutex contract). *)
From Coq Require Import List NArith Bool Arith Lia String.
From CC Require Import Conc.
From CC.generated Require Import LockSkel.
Import ListNotations.

(* every API method, as the source reads now, takes and releases the generator lock in strict alternation: no nested
   acquisition (self-deadlock), no guard left held, nothing the translator could not classify *)
Theorem C19_skeletons_well_bracketed : forallb (fun np => well_bracketed (snd np)) api_skeletons = true.
Proof. vm_compute. reflexivity. Qed.
Print Assumptions C19_skeletons_well_bracketed.

(* the translator found every method of the public API (a method it does not see would be unchecked) *)
Theorem C19_all_methods_present :
  forallb (fun n => existsb (fun np => String.eqb (fst np) n) api_skeletons)
    ["setup"; "update_msk"; "rekey"; "prune_master_secret_key"; "generate_user_secret_key"; "refresh_usk"; "recaps";
     "encaps"; "decaps"; "encrypt"; "decrypt_0"; "decrypt_1"; "generate"]%string = true.
Proof. vm_compute. reflexivity. Qed.
Print Assumptions C19_all_methods_present.

(* any number of threads, each running any sequence of API calls (its program is the concatenation of skeletons, still
   well bracketed), satisfies the invariant at the start and after every step *)
Theorem C19_invariant_initial : forall ps k, Forall (fun p => well_bracketed p = true) ps -> Inv {| owner := None; cursor := k; threads := ps |}.
Proof.
  intros ps k H. split; [|discriminate]. intros i p Hp. cbn. unfold holds. cbn.
  apply nth_error_In in Hp. eapply Forall_forall in H; [|exact Hp]. exact H.
Qed.
Print Assumptions C19_invariant_initial.

Theorem C19_invariant_preserved : forall c i c', Inv c -> cstep c i c' -> Inv c'.
Proof. exact inv_step. Qed.
Print Assumptions C19_invariant_preserved.

(* no deadlock: in every reachable configuration either every call has returned or some thread can make a step *)
Theorem C19_no_deadlock : forall c, Inv c -> finished c \/ exists i c', cstep c i c'.
Proof. exact no_deadlock. Qed.
Print Assumptions C19_no_deadlock.

(* every step consumes one event: every schedule finishes within the total length of the calls (no call blocks forever
   under any scheduler that keeps scheduling enabled threads) *)
Theorem C19_bounded : forall c i c', cstep c i c' -> remaining c' + 1 = remaining c.
Proof. exact step_decreases. Qed.
Print Assumptions C19_bounded.

(* isolation: the generator state is only ever moved by the thread holding the lock *)
Theorem C19_cursor_moves_only_by_owner : forall c i c', cstep c i c' -> cursor c' <> cursor c -> owner c = Some i.
Proof. exact cursor_moves_only_by_owner. Qed.
Print Assumptions C19_cursor_moves_only_by_owner.

(* a nested acquisition is rejected by the side condition, and really is a deadlock (std::sync::Mutex is not re-entrant) *)
Theorem C19_nested_rejected : well_bracketed [Acq; Acq; Rel; Rel] = false /\ well_bracketed [Acq; Unknown; Rel] = false.
Proof. split; reflexivity. Qed.
Print Assumptions C19_nested_rejected.
