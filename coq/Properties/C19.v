(* C19 - A shared instance is safe and live under concurrent use.
   The lock skeleton of every API method is REGENERATED from src/api.rs and src/encrypted_header.rs on every run
   (tools/lockskel.py -> generated/LockSkel.v); the theorems below are then applied to what the code says now.
   Model: Conc.v - threads over one non-reentrant mutex guarding the generator cursor (std::sync::Mutex contract). *)
From Coq Require Import List NArith Bool Arith Lia String.
From CC Require Import Conc ConcProofs1 ConcProofs2.
From CC.generated Require Import LockSkel.
Import ListNotations.

(* every API method, as the source reads now, takes and releases the generator lock in strict alternation: no nested
   acquisition (self-deadlock), no guard left held, nothing the translator could not classify *)
Theorem C19_skeletons_well_bracketed : forallb (fun np => well_bracketed (snd np)) api_skeletons = true.
Proof. vm_compute. reflexivity. Qed.
Print Assumptions C19_skeletons_well_bracketed.

(* the translator found every method of the public API (a method it does not see would be unchecked) *)
Theorem C19_all_methods_present :
  forallb (fun n => existsb (fun np => String.eqb (fst np) n) api_skeletons)
    ["setup"; "update_msk"; "rekey"; "prune_master_secret_key"; "generate_user_secret_key"; "refresh_usk"; "recaps";
     "encaps"; "decaps"; "encrypt"; "decrypt_0"; "decrypt_1"; "generate"]%string = true.
Proof. vm_compute. reflexivity. Qed.
Print Assumptions C19_all_methods_present.

(* any number of threads, each running any sequence of API calls (its program is the concatenation of skeletons, still
   well bracketed), satisfies the invariant at the start and after every step *)
Theorem C19_invariant_initial : forall ps k, Forall (fun p => well_bracketed p = true) ps -> Inv {| owner := None; cursor := k; threads := ps |}.
Proof.
  intros ps k H. split; [|discriminate]. intros i p Hp. cbn. unfold holds. cbn.
  apply nth_error_In in Hp. eapply Forall_forall in H; [|exact Hp]. exact H.
Qed.
Print Assumptions C19_invariant_initial.

Theorem C19_invariant_preserved : forall c i c', Inv c -> cstep c i c' -> Inv c'.
Proof. exact inv_step. Qed.
Print Assumptions C19_invariant_preserved.

(* no deadlock: in every reachable configuration either every call has returned or some thread can make a step *)
Theorem C19_no_deadlock : forall c, Inv c -> finished c \/ exists i c', cstep c i c'.
Proof. exact no_deadlock. Qed.
Print Assumptions C19_no_deadlock.

(* every step consumes one event: every schedule finishes within the total length of the calls (no call blocks forever
   under any scheduler that keeps scheduling enabled threads) *)
Theorem C19_bounded : forall c i c', cstep c i c' -> remaining c' + 1 = remaining c.
Proof. exact step_decreases. Qed.
Print Assumptions C19_bounded.

(* isolation: the generator state is only ever moved by the thread holding the lock *)
Theorem C19_cursor_moves_only_by_owner : forall c i c', cstep c i c' -> cursor c' <> cursor c -> owner c = Some i.
Proof. exact cursor_moves_only_by_owner. Qed.
Print Assumptions C19_cursor_moves_only_by_owner.

(* a nested acquisition is rejected by the side condition, and really is a deadlock (std::sync::Mutex is not re-entrant) *)
Theorem C19_nested_rejected : well_bracketed [Acq; Acq; Rel; Rel] = false /\ well_bracketed [Acq; Unknown; Rel] = false.
Proof. split; reflexivity. Qed.
Print Assumptions C19_nested_rejected.

(* ---- liveness, isolation and freshness over whole executions (ConcProofs1/2.v) ---- *)
(* every API call's skeleton being well bracketed, so is any sequence of calls a thread makes; then: progress, bounded
   schedules, every maximal execution finishes; a thread is only ever blocked while ANOTHER thread holds the lock, and the
   holder always releases within its own critical section; each critical section sees exactly the generator values it
   would see running alone from the cursor at its acquisition; the generator ranges consumed by different draws (of any
   threads) are pairwise disjoint. *)
Theorem C19_no_call_blocks_forever :
  forall (k0 : N) (ps : list program),
       all_wb ps ->
       (forall c : conf, reachable k0 ps c -> finished c \/ (exists i : nat, enabled c i)) /\
       (forall (sch : list nat) (c : conf), exec (init k0 ps) sch c -> List.length sch <= List.length (List.concat ps)) /\
       (forall (sch : list nat) (c : conf), exec (init k0 ps) sch c -> stuck c -> finished c).
Proof. exact (@no_call_blocks_forever). Qed.
Print Assumptions C19_no_call_blocks_forever.

Theorem C19_holder_releases :
  forall (c : conf) (j : nat),
       Inv c ->
       owner c = Some j ->
       exists (ns : list N) (rest : list ev) (c' : conf),
         nth_error (threads c) j = Some (map Draw ns ++ Rel :: rest) /\
         exec c (repeat j (S (List.length ns))) c' /\
         owner c' = None /\ cursor c' = (cursor c + sumN ns)%N /\ nth_error (threads c') j = Some rest.
Proof. exact (@holder_releases). Qed.
Print Assumptions C19_holder_releases.

Theorem C19_blocked_only_while_other_holds :
  forall (c : conf) (i : nat) (p : program),
       Inv c ->
       nth_error (threads c) i = Some p ->
       p <> [] -> ~ enabled c i -> exists j : nat, owner c = Some j /\ j <> i.
Proof. exact (@blocked_only_while_other_holds). Qed.
Print Assumptions C19_blocked_only_while_other_holds.

Theorem C19_section_as_alone :
  forall (k0 : N) (ps : list program) (sch : list nat) (c : conf) (i : nat) 
         (p : program) (k k' : N) (tr1 mid tr2 : list (nat * label)),
       exec (init k0 ps) sch c ->
       nth_error ps i = Some p ->
       trace (init k0 ps) sch = tr1 ++ (i, LAcq k) :: mid ++ (i, LRel k') :: tr2 ->
       (forall kk : N, ~ In (i, LRel kk) mid) ->
       exists ns : list N,
         nth_error (sections p) (count_acq i tr1) = Some ns /\
         mid = section_obs i k ns /\ map cursor_seen mid = run_alone k ns /\ k' = (k + sumN ns)%N.
Proof. exact (@section_as_alone). Qed.
Print Assumptions C19_section_as_alone.

Theorem C19_draw_intervals_disjoint :
  forall (k0 : N) (ps : list program) (sch : list nat) (c : conf) (a b : nat) (da db : nat * N * N),
       pos_draws ps ->
       exec (init k0 ps) sch c ->
       a < b ->
       nth_error (draw_trace (init k0 ps) sch) a = Some da ->
       nth_error (draw_trace (init k0 ps) sch) b = Some db ->
       (0 < d_len da)%N /\ (0 < d_len db)%N /\ (d_cur da + d_len da <= d_cur db)%N.
Proof. exact (@draw_intervals_disjoint). Qed.
Print Assumptions C19_draw_intervals_disjoint.

Theorem C19_self_deadlock :
  exists c : conf, reachable 0 [[Acq; Acq; Rel; Rel]] c /\ ~ finished c /\ stuck c.
Proof. exact (@self_deadlock). Qed.
Print Assumptions C19_self_deadlock.


