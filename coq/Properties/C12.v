(* C12 - PKE and encrypted-header layers round-trip and authenticate.
   Model: coq/Dem.v mirrors src/ae.rs, impl PkeAc (src/api.rs) and EncryptedHeader::{generate,decrypt}; the AEAD and the KDF
   are abstract.  DemIdeal = { kdf injective; AEAD correct; ciphertext length = plaintext + 16; INT-CTXT:
   aead_dec k n a c = Some p -> the honest encryptor produced c = aead_enc k n a p } with `honest` = "was encrypted in
   this run" (all_honest = True gives the plain round trips; only_honest = a single honest encryption under that key,
   which is how Covercrypt uses every DEM key).  Statements are the types Coq prints for the lemmas of DemProofs.v. *)
From Coq Require Import List NArith Bool Arith Lia.
From Coq Require Import Permutation.
From CC Require Import Dem DemProofs Shuffle.
Import ListNotations.

Theorem C12_pke_roundtrip :
  forall (D : Type) (kdf : D -> bytes -> D) (aead_enc : D -> bytes -> bytes -> bytes -> bytes)
         (aead_dec : D -> bytes -> bytes -> bytes -> option bytes) (USK XENC : Type)
         (decaps : USK -> XENC -> option D),
       DemIdeal D kdf aead_enc aead_dec all_honest ->
       forall (usk : USK) (seed : D) (enc : XENC) (nonce : list N) (pt : bytes),
       length nonce = NONCE_LENGTH ->
       decaps usk enc = Some seed ->
       pke_decrypt D kdf aead_dec USK XENC decaps usk
         (enc, ae_encrypt D aead_enc nonce (kdf seed label_ae) pt) = DOk (Some pt).
Proof. exact (@pke_roundtrip_real). Qed.
Print Assumptions C12_pke_roundtrip.

Theorem C12_pke_unauthorized :
  forall (D : Type) (kdf : D -> bytes -> D) (aead_dec : D -> bytes -> bytes -> bytes -> option bytes)
         (USK XENC : Type) (decaps : USK -> XENC -> option D) (g : bool) (usk : USK) 
         (enc : XENC) (c : bytes),
       decaps usk enc = None -> pke_decrypt_g D kdf aead_dec USK XENC decaps g usk (enc, c) = DOk None.
Proof. exact (@pke_unauthorized). Qed.
Print Assumptions C12_pke_unauthorized.

Theorem C12_header_roundtrip :
  forall (D : Type) (kdf : D -> bytes -> D) (aead_enc : D -> bytes -> bytes -> bytes -> bytes)
         (aead_dec : D -> bytes -> bytes -> bytes -> option bytes) (USK XENC : Type)
         (decaps : USK -> XENC -> option D),
       DemIdeal D kdf aead_enc aead_dec all_honest ->
       forall (usk : USK) (seed : D) (enc : XENC) (nonce : list N) (md ad ad' : option bytes),
       length nonce = NONCE_LENGTH ->
       decaps usk enc = Some seed ->
       aad_of ad = aad_of ad' ->
       header_decrypt D kdf aead_dec USK XENC decaps usk
         (snd (header_generate D kdf aead_enc XENC seed enc nonce md ad)) ad' =
       DOk
         (Some
            {|
              c_secret := fst (header_generate D kdf aead_enc XENC seed enc nonce md ad); c_metadata := md
            |}).
Proof. exact (@header_roundtrip_real). Qed.
Print Assumptions C12_header_roundtrip.

Theorem C12_header_unauthorized :
  forall (D : Type) (kdf : D -> bytes -> D) (aead_dec : D -> bytes -> bytes -> bytes -> option bytes)
         (USK XENC : Type) (decaps : USK -> XENC -> option D) (g : bool) (usk : USK) 
         (h : header XENC) (ad : option bytes),
       decaps usk (h_enc h) = None -> header_decrypt_g D kdf aead_dec USK XENC decaps g usk h ad = DOk None.
Proof. exact (@header_unauthorized). Qed.
Print Assumptions C12_header_unauthorized.

Theorem C12_header_aad_mismatch :
  forall (D : Type) (kdf : D -> bytes -> D) (aead_enc : D -> bytes -> bytes -> bytes -> bytes)
         (aead_dec : D -> bytes -> bytes -> bytes -> option bytes) (USK XENC : Type)
         (decaps : USK -> XENC -> option D) (honest : D -> bytes -> bytes -> bytes -> Prop),
       DemIdeal D kdf aead_enc aead_dec honest ->
       forall (usk : USK) (seed : D) (enc : XENC) (nonce m : bytes) (ad ad' : option bytes),
       decaps usk enc = Some seed ->
       only_honest D honest (kdf seed label_md) nonce (aad_of ad) m ->
       aad_of ad <> aad_of ad' ->
       header_decrypt D kdf aead_dec USK XENC decaps usk
         (snd (header_generate D kdf aead_enc XENC seed enc nonce (Some m) ad)) ad' = DErr.
Proof. exact (@header_aad_mismatch). Qed.
Print Assumptions C12_header_aad_mismatch.

Theorem C12_ae_truncation :
  forall (D : Type) (kdf : D -> bytes -> D) (aead_enc : D -> bytes -> bytes -> bytes -> bytes)
         (aead_dec : D -> bytes -> bytes -> bytes -> option bytes)
         (honest : D -> bytes -> bytes -> bytes -> Prop),
       DemIdeal D kdf aead_enc aead_dec honest ->
       forall (k : D) (n p : bytes) (c x : list N),
       only_honest D honest k n [] p ->
       x <> [] -> c ++ x = ae_encrypt D aead_enc n k p -> ae_decrypt D aead_dec k c = DErr.
Proof. exact (@ae_truncation). Qed.
Print Assumptions C12_ae_truncation.

Theorem C12_ae_altered :
  forall (D : Type) (kdf : D -> bytes -> D) (aead_enc : D -> bytes -> bytes -> bytes -> bytes)
         (aead_dec : D -> bytes -> bytes -> bytes -> option bytes)
         (honest : D -> bytes -> bytes -> bytes -> Prop),
       DemIdeal D kdf aead_enc aead_dec honest ->
       forall (k : D) (n p c' : bytes),
       only_honest D honest k n [] p ->
       c' <> ae_encrypt D aead_enc n k p -> ae_decrypt D aead_dec k c' = DErr.
Proof. exact (@ae_altered). Qed.
Print Assumptions C12_ae_altered.

Theorem C12_ae_short_rejected :
  forall (D : Type) (kdf : D -> bytes -> D) (aead_enc : D -> bytes -> bytes -> bytes -> bytes)
         (aead_dec : D -> bytes -> bytes -> bytes -> option bytes)
         (honest : D -> bytes -> bytes -> bytes -> Prop),
       DemIdeal D kdf aead_enc aead_dec honest ->
       forall (k : D) (c : list N), length c < NONCE_LENGTH + MAC_LENGTH -> ae_decrypt D aead_dec k c = DErr.
Proof. exact (@ae_short_rejected). Qed.
Print Assumptions C12_ae_short_rejected.

Theorem C12_never_panics_ae :
  forall (D : Type) (aead_dec : D -> bytes -> bytes -> bytes -> option bytes) (k : D) (c : bytes),
       ae_decrypt D aead_dec k c <> DPanic.
Proof. exact (@ae_decrypt_no_panic). Qed.
Print Assumptions C12_never_panics_ae.

Theorem C12_never_panics_header :
  forall (D : Type) (kdf : D -> bytes -> D) (aead_dec : D -> bytes -> bytes -> bytes -> option bytes)
         (USK XENC : Type) (decaps : USK -> XENC -> option D) (usk : USK) (h : header XENC)
         (ad : option bytes), header_decrypt D kdf aead_dec USK XENC decaps usk h ad <> DPanic.
Proof. exact (@header_decrypt_no_panic). Qed.
Print Assumptions C12_never_panics_header.

Theorem C12_unguarded_panics :
  forall (D : Type) (aead_dec : D -> bytes -> bytes -> bytes -> option bytes) (k : D) (c : list N),
       length c < NONCE_LENGTH -> ae_decrypt_g D aead_dec false k c = DPanic.
Proof. exact (@ae_unguarded_panics). Qed.
Print Assumptions C12_unguarded_panics.

Theorem C12_kdf_labels_distinct :
  forall (D : Type) (kdf : D -> bytes -> D) (aead_enc : D -> bytes -> bytes -> bytes -> bytes)
         (aead_dec : D -> bytes -> bytes -> bytes -> option bytes)
         (honest : D -> bytes -> bytes -> bytes -> Prop),
       DemIdeal D kdf aead_enc aead_dec honest ->
       forall seed seed' : D, kdf seed label_md <> kdf seed' label_secret.
Proof. exact (@metadata_key_ne_secret). Qed.
Print Assumptions C12_kdf_labels_distinct.


(* ---- the in-place shuffle run by every decapsulation (and by encapsulation on the targets) as machine code (Shuffle.v):
   bounds-checked swaps and a remainder by the length; an ALTERED encapsulation may announce no share at all, so the
   length 0 is reachable from untrusted bytes.  For every length and every stream of draws: no panic, a permutation
   (so the membership-only characterisation of decapsulation, CryptoKem.c_decaps_iff / h_decaps_iff, applies). ---- *)
Theorem C12_shuffle_no_panic : forall (A : Type) (rs : list nat) (l : list A), shuffle A rs l <> Panic A.
Proof. exact shuffle_no_panic. Qed.
Print Assumptions C12_shuffle_no_panic.

Theorem C12_shuffle_permutation :
  forall (A : Type) (rs : list nat) (l : list A), exists l', shuffle A rs l = Val A l' /\ Permutation l l'.
Proof. exact shuffle_permutation. Qed.
Print Assumptions C12_shuffle_permutation.

Theorem C12_shuffle_same_members :
  forall (A : Type) (rs : list nat) (l l' : list A), shuffle A rs l = Val A l' -> forall x, In x l <-> In x l'.
Proof. exact shuffle_same_members. Qed.
Print Assumptions C12_shuffle_same_members.

(* the variant that takes the remainder before testing the length does panic on the empty list *)
Theorem C12_shuffle_unguarded_panics : shuffle_rem_first nat [7] [] = Panic nat.
Proof. exact (rem_before_test_refuted nat). Qed.
Print Assumptions C12_shuffle_unguarded_panics.


(* the hypotheses are jointly satisfiable (concrete computable instance) *)
Theorem C12_inhabited : DemIdeal N toy_kdf toy_enc (toy_dec hon_all) all_honest.
Proof. exact dem_inhabited. Qed.
Print Assumptions C12_inhabited.
