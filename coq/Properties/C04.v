(* C04 - Key rotation: refreshed keys follow the master key, stale keys fall behind. *)
From Coq Require Import List NArith Bool Arith Lia.
From CC Require Import Policy Structure Keys KeysMachine RefreshProofs PinnedRefuted.
Import ListNotations.

(* The repaired refresh_coordinate_keys, seen on the append-only log L of a right (newest first):
   master chain = first k of the log; user chain = window [i, j) of the log.
   Result: [0, min j k) if the user's newest secret is still held by the master key (i < k), all k otherwise. *)
Theorem C04_refresh_chain_window : forall (L : list secret) (mch : list (bool * secret)) (k i j : nat),
  NoDup L -> secs mch = firstn k L -> (i < j <= length L)%nat -> (k <= length L)%nat ->
  refresh_chain RefreshProofs.fx_all mch (firstn (j - i) (skipn i L)) =
    Some (if (i <? k)%nat then firstn (Nat.min j k) L else firstn k L).
Proof. exact refresh_chain_window. Qed.
Print Assumptions C04_refresh_chain_window.

(* Pinned tree (8f3c295) refuted: the revision traversal stops at the shortest chain, so a key holding
   chains of lengths 2 and 1 does not try its second secret (finding F3, repaired). *)
Theorem C04_pinned_revisions_refuted : exists (u : usk) (x : xenc),
  decaps (KeysMachine.fixed) u x <> None /\ decaps KeysMachine.pinned u x = None.
Proof.
  exists {| u_id := Some 0%N; u_chains := [([1%N], [s 1; s 2]); ([2%N], [s 3])] |},
         {| x_hyb := false; x_entries := [2%N]; x_seed := 9%N |}.
  split; vm_compute; [discriminate|reflexivity].
Qed.
Print Assumptions C04_pinned_revisions_refuted.
