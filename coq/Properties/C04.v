(* C04 - Key rotation: refreshed keys follow the master key, stale keys fall behind. *)
From Coq Require Import List NArith Bool Arith Lia.
From CC Require Import Policy Structure Keys KeysMachine RefreshProofs PinnedRefuted.
From CC Require Import DisabledProofs KInv1 KInv2 KInv3 KInv4 KInv4b KInv5 KInv6 KInv7 KInv8 KInv9 KInv10.
From CC Require KeysTheorems.
Import ListNotations.

(* The repaired refresh_coordinate_keys, seen on the append-only log L of a right (newest first):
   master chain = first k of the log; user chain = window [i, j) of the log.
   Result: [0, min j k) if the user's newest secret is still held by the master key (i < k), all k otherwise. *)
Theorem C04_refresh_chain_window : forall (L : list secret) (mch : list (bool * secret)) (k i j : nat),
  NoDup L -> secs mch = firstn k L -> (i < j <= length L)%nat -> (k <= length L)%nat ->
  refresh_chain RefreshProofs.fx_all mch (firstn (j - i) (skipn i L)) =
    Some (if (i <? k)%nat then firstn (Nat.min j k) L else firstn k L).
Proof. exact refresh_chain_window. Qed.
Print Assumptions C04_refresh_chain_window.

(* Pinned tree (8f3c295) refuted: the revision traversal stops at the shortest chain, so a key holding
   chains of lengths 2 and 1 does not try its second secret (finding F3, repaired). *)
Theorem C04_pinned_revisions_refuted : exists (u : usk) (x : xenc),
  decaps (KeysMachine.fixed) u x <> None /\ decaps KeysMachine.pinned u x = None.
Proof.
  exists {| u_id := Some 0%N; u_chains := [([1%N], [s 1; s 2]); ([2%N], [s 3])] |},
         {| x_hyb := false; x_entries := [2%N]; x_seed := 9%N |}.
  split; vm_compute; [discriminate|reflexivity].
Qed.
Print Assumptions C04_pinned_revisions_refuted.

(* ---- over all reachable states of the key-management state machine (KInv*.v, gathered in KeysTheorems.v) ---- *)
Theorem C04_I3_usk_sub_msk_history :
  forall s : state,
       reach s ->
       exists L : rightk -> list secret,
         (forall r : rightk, NoDup (map tok (L r))) /\
         (forall (r r' : rightk) (sk sk' : secret),
          In sk (L r) -> In sk' (L r') -> tok sk = tok sk' -> r = r' /\ sk = sk') /\
         (forall (r : rightk) (sk : secret), In sk (L r) -> (tok sk < st_ctr s)%N) /\
         (forall (r : rightk) (ch : list (bool * secret)),
          In (r, ch) (m_secrets (st_msk s)) ->
          exists k : nat, 1 <= k <= length (L r) /\ map snd ch = firstn k (L r)) /\
         (forall (u : usk) (r : rightk) (ch : list secret),
          In u (st_usks s) ->
          In (r, ch) (u_chains u) ->
          exists i j : nat, i < j <= length (L r) /\ ch = firstn (j - i) (skipn i (L r))) /\
         (forall (pk : mpk) (r : rightk) (sk : secret),
          In pk (st_mpks s) -> In (r, sk) (p_keys pk) -> In sk (L r)) /\
         (forall (x : xenc) (t : N),
          In x (st_encs s) ->
          In t (x_entries x) -> exists (r : rightk) (sk : secret), In sk (L r) /\ tok sk = t).
Proof. exact (@KeysTheorems.I3_usk_sub_msk_history). Qed.
Print Assumptions C04_I3_usk_sub_msk_history.

Theorem C04_rekey_pushes_front_reach :
  forall (s : state) (p : str),
       reach s ->
       snd (step fixed s (ORekey p)) = ObOk ->
       let s' := fst (step fixed s (ORekey p)) in
       let m := st_msk s in
       let m' := st_msk s' in
       exists rs : list rightk,
         usk_rights fixed (m_st m) p = ROk rs /\
         NoDup rs /\
         (forall (i : nat) (r : rightk),
          nth_error rs i = Some r ->
          exists (fl : bool) (sk : secret) (older : list (bool * secret)),
            rlookup r (m_secrets m) = Some ((fl, sk) :: older) /\
            rlookup r (m_secrets m') =
            Some ((fl, {| tok := st_ctr s + N.of_nat i; s_hyb := s_hyb sk |}) :: (fl, sk) :: older)) /\
         (forall r : rightk, ~ In r rs -> rlookup r (m_secrets m') = rlookup r (m_secrets m)) /\
         map fst (m_secrets m') = map fst (m_secrets m) /\
         st_ctr s' = (st_ctr s + N.of_nat (length rs))%N /\
         m_users m' = m_users m /\
         m_st m' = m_st m /\
         st_usks s' = st_usks s /\
         st_encs s' = st_encs s /\
         st_mpks s' = st_mpks s ++ [mk_mpk m'] /\
         (forall (r : rightk) (sk : secret),
          rlookup r (p_keys (mk_mpk m')) = Some sk <->
          (exists older : list (bool * secret), rlookup r (m_secrets m') = Some ((true, sk) :: older))).
Proof. exact (@KeysTheorems.C04_rekey_pushes_front). Qed.
Print Assumptions C04_rekey_pushes_front_reach.

Theorem C04_decaps_iff_shared_token_reach :
  forall (u : usk) (x : xenc),
       (decaps fixed u x = Some (x_seed x) <->
        (exists sk : secret, In sk (concat (map snd (u_chains u))) /\ opens x sk = true)) /\
       (decaps fixed u x = None <->
        (forall sk : secret, In sk (concat (map snd (u_chains u))) -> opens x sk = false)).
Proof. exact (@KeysTheorems.C04_decaps_iff_shared_token). Qed.
Print Assumptions C04_decaps_iff_shared_token_reach.

Theorem C04_old_key_cannot_open_reach :
  forall (u : usk) (x : xenc) (c : N),
       (forall sk : secret, In sk (concat (map snd (u_chains u))) -> (tok sk < c)%N) ->
       (forall t : N, In t (x_entries x) -> (c <= t)%N) -> decaps fixed u x = None.
Proof. exact (@KeysTheorems.C04_old_key_cannot_open). Qed.
Print Assumptions C04_old_key_cannot_open_reach.

Theorem C04_stale_cannot_open_reach :
  forall (ops1 : list op) (p : str) (ops2 : list op) (k : nat) (u : usk) (j : nat) 
         (pol : str) (rs : list rightk) (x : xenc),
       let s1 := run_state fixed init ops1 in
       let s1' := fst (step fixed s1 (ORekey p)) in
       let s2 := run_state fixed s1' ops2 in
       snd (step fixed s1 (ORekey p)) = ObOk ->
       usk_rights fixed (m_st (st_msk s1)) p = ROk rs ->
       ~ In OSetup ops2 ->
       nth_error (st_usks s1) k = Some u ->
       length (st_mpks s1) <= j ->
       (forall (pk : mpk) (rsx : list rightk),
        nth_error (st_mpks s2) j = Some pk -> enc_rights fixed (p_st pk) pol = ROk rsx -> incl rsx rs) ->
       st_encs (fst (step fixed s2 (OEncaps j pol))) = st_encs s2 ++ [x] -> decaps fixed u x = None.
Proof. exact (@KeysTheorems.C04_stale_cannot_open). Qed.
Print Assumptions C04_stale_cannot_open_reach.

Theorem C04_refresh_opens_current_reach :
  forall (s : state) (k : nat) (keep : bool) (u : usk),
       reach s ->
       nth_error (st_usks s) k = Some u ->
       snd (step fixed s (ORefresh k keep)) = ObOk ->
       exists u' : usk,
         nth_error (st_usks (fst (step fixed s (ORefresh k keep)))) k = Some u' /\
         (forall (r : rightk) (ch : list secret),
          In (r, ch) (u_chains u') ->
          exists (fl : bool) (sk : secret) (older : list (bool * secret)) (rest : list secret),
            rlookup r (m_secrets (st_msk s)) = Some ((fl, sk) :: older) /\ ch = sk :: rest) /\
         (forall (rs : list rightk) (c : N) (x : xenc) (c' : N) (r : rightk),
          encaps_rights (mk_mpk (st_msk s)) rs c = (ROk x, c') ->
          In r rs -> In r (map fst (u_chains u')) -> decaps fixed u' x = Some (x_seed x)).
Proof. exact (@KeysTheorems.C04_refresh_opens_current). Qed.
Print Assumptions C04_refresh_opens_current_reach.

Theorem C04_keep_monotone_reach :
  forall (s : state) (k : nat) (u : usk),
       reach s ->
       nth_error (st_usks s) k = Some u ->
       snd (step fixed s (ORefresh k true)) = ObOk ->
       exists u' : usk,
         nth_error (st_usks (fst (step fixed s (ORefresh k true)))) k = Some u' /\
         (forall (r : rightk) (uch : list secret) (sk : secret) (mch : list (bool * secret)),
          In (r, uch) (u_chains u) ->
          In sk uch ->
          rlookup r (m_secrets (st_msk s)) = Some mch ->
          In sk (map snd mch) -> exists ch : list secret, In (r, ch) (u_chains u') /\ In sk ch).
Proof. exact (@KeysTheorems.C04_keep_monotone). Qed.
Print Assumptions C04_keep_monotone_reach.

Theorem C04_nokeep_only_newest_reach :
  forall (s : state) (k : nat) (u : usk),
       nth_error (st_usks s) k = Some u ->
       snd (step fixed s (ORefresh k false)) = ObOk ->
       exists u' : usk,
         nth_error (st_usks (fst (step fixed s (ORefresh k false)))) k = Some u' /\
         (forall (r : rightk) (ch : list secret),
          In (r, ch) (u_chains u') ->
          exists (fl : bool) (sk : secret) (older : list (bool * secret)),
            rlookup r (m_secrets (st_msk s)) = Some ((fl, sk) :: older) /\ ch = [sk]).
Proof. exact (@KeysTheorems.C04_nokeep_only_newest). Qed.
Print Assumptions C04_nokeep_only_newest_reach.


